(* TrDir.v -- /repo/dir.c (the bidi reordering of C18: dir_context, dir_match, dir_fix, dir_reorder) and conf.c's table readers
   conf_dirmark / conf_dircontext, tied to the model DirDefs.v BY PROOF on the translated C text (coq/GenCFuncs.v, whitelist
   tools/c2clite.d/99zzz_dir.list; dir_reverse is proved in TrRen.v).

   rset_find (the pattern matcher over the configured marks) is NOT translated: the calls to it are answered by an oracle `ext`
   (CLiteExt.callx), exactly as the model has the matcher as a parameter (`raw b e ctx flg` = the answer of rset_find for the
   substring chrs[beg]..chrs[end]).  Every theorem is stated for EVERY oracle whose answers are described by `raw` (oracle_ok: the
   index of the mark is returned, the 2 * 16 offsets are stored into the array handed over, no other block that existed changes).

   The local objects whose address is taken (`int subs[32]`, `int grp`, and r_beg r_end c_beg c_end c_dir c_rec of dir_fix) are
   blocks of their own in CLite (a malloc at the declaration; they are never freed, like a stack frame that is never popped), so
   the memory after a call is the old memory with blocks appended: the theorems describe it by mem_ext (every block that existed,
   other than the listed ones, is unchanged). *)
From Coq Require Import List ZArith NArith Bool Lia.
From NV Require Import Bytes UcDefs GenConf GenConsts DirDefs DirProps IoDefs IoProps CLite CLiteProps GenCFuncs CLiteTac CLiteExt TrUc TrRen TrSbuf.
Import ListNotations.
Local Open Scope Z_scope.

(* ------------------------------------------------------------------ a C string at the start of a larger block
   (sbuf_buf returns the start of an allocation of s_sz cells: the string, its terminator, then unused cells).  TrUc.v states
   uc_end / uc_next / uc_off for a block that holds exactly the string (str_at); the proofs use that only through load_str, so
   they are repeated here for pstr_at (the proofs are those of TrUc.v with load_pstr for load_str). *)
Definition pstr_at (m : mem) (b : nat) (s : bytes) : Prop := exists rest, nth_error m b = Some (cstr_block (zb s) ++ rest).
Lemma str_pstr m b s : str_at m b s -> pstr_at m b s.
Proof. intro H. exists []. rewrite app_nil_r. exact H. Qed.
Lemma load_pstr m b s z (o : nat) : pstr_at m b s -> z = Z.of_nat o -> (o <= length s)%nat ->
  load m b z = Ok (VInt (Z.of_N (nthb s o))).
Proof.
  intros [rest H] -> Ho.
  assert (L : length (cstr_block (zb s)) = S (length s)) by (unfold cstr_block, zb; rewrite app_length, !map_length; cbn; lia).
  pose proof (load_str [cstr_block (zb s)] 0 s (Z.of_nat o) o eq_refl eq_refl Ho) as E.
  unfold load in *. rewrite H. cbn [nth_error] in E.
  destruct (Z.of_nat o <? 0); [exact E|]. rewrite nth_error_app1 by lia. exact E.
Qed.
Ltac xloadp Hs H256 p :=
  rewrite (load_pstr _ _ _ _ p Hs) by lia; xstep;
  rewrite ?wrap_byte_chain by (apply nthb_lt256; exact H256); rewrite ?nb2z.

Lemma uc_end_loop_okp call m b s : pstr_at m b s -> bytes_lt256 s ->
  forall n p fuel, (p <= length s)%nat -> skip_cont (skipn p s) = n -> (n < fuel)%nat ->
  exec call fuel uc_end_loop (mkst [VPtr b (Z.of_nat p)] m) = ONormal (mkst [VPtr b (Z.of_nat (p + n))] m).
Proof.
  intros Hs H256. induction n as [|n IH]; intros p fuel Hp Hn Hf; (destruct fuel as [|fuel]; [lia|]);
    unfold uc_end_loop; cbn [fn_body cf_uc_end]; rewrite exec_while; xstep;
    rewrite (load_pstr m b s _ p Hs) by lia; xstep;
    rewrite wrap_byte_chain by (apply nthb_lt256; exact H256);
    rewrite ?nb2z, (cc_cont _ (nthb_lt256 s p H256)).
  - destruct (Nat.eq_dec p (length s)) as [->|Hne].
    + rewrite nthb_end by lia. cbn. rewrite Nat.add_0_r. reflexivity.
    + rewrite skipn_cons_nthb in Hn by lia. cbn [skip_cont] in Hn.
      destruct (is_cont (nthb s p)); [discriminate|]. rewrite Nat.add_0_r. reflexivity.
  - destruct (Nat.eq_dec p (length s)) as [->|Hne].
    + rewrite skipn_end in Hn by lia. discriminate.
    + rewrite skipn_cons_nthb in Hn by lia. cbn [skip_cont] in Hn.
      destruct (is_cont (nthb s p)); [|discriminate]. injection Hn as Hn.
      replace (Z.of_nat p + 1) with (Z.of_nat (S p)) by lia.
      change (SWhile _ _) with uc_end_loop. rewrite (IH (S p) fuel ltac:(lia) Hn ltac:(lia)).
      do 4 f_equal. lia.
Qed.

Theorem tr_uc_endp m b s o d fuel :
  pstr_at m b s -> bytes_lt256 s -> (o <= length s)%nat -> (length s < fuel)%nat ->
  callf cprog fuel (S d) F_uc_end [VPtr b (Z.of_nat o)] m
  = Ok (VPtr b (Z.of_nat (o + uc_end (skipn o s))), m).
Proof.
  intros Hs H256 Ho Hf. enter F_uc_end cf_uc_end. xstep.
  pose proof (nthb_lt256 s o H256) as Hc.
  xloadp Hs H256 o. rewrite negb_involutive, (cc_z0 _ Hc).
  assert (Hsk: skipn o s = if (o <? length s)%nat then nthb s o :: skipn (S o) s else []).
  { destruct (Nat.ltb_spec o (length s)); [apply skipn_cons_nthb; lia | apply skipn_end; lia]. }
  destruct (N.eqb_spec (nthb s o) 0) as [E0|E0].
  { xstep. unfold uc_end. rewrite Hsk. destruct (o <? length s)%nat; [rewrite E0; cbn|]; rewrite Nat.add_0_r; reflexivity. }
  assert (o < length s)%nat as Hlt
    by (destruct (Nat.lt_ge_cases o (length s)); [assumption| rewrite nthb_end in E0 by lia; congruence]).
  destruct (Nat.ltb_spec o (length s)); [|lia].
  xstep. xloadp Hs H256 o. rewrite (cc_high _ Hc).
  unfold uc_end. rewrite Hsk.
  destruct (bit (nthb s o) 128) eqn:E1; cbn [negb]; xstep; [|rewrite Nat.add_0_r; reflexivity].
  xloadp Hs H256 o. rewrite (cc_lead _ Hc).
  pose proof (cc_cont_of _ Hc) as Hco. rewrite E1 in Hco. cbn [andb] in Hco.
  destruct (is_lead (nthb s o)) eqn:E2; xstep.
  - replace (Z.of_nat o + 1) with (Z.of_nat (S o)) by lia.
    change (SWhile _ _) with uc_end_loop.
    rewrite (uc_end_loop_okp _ m b s Hs H256 _ (S o) fuel ltac:(lia) eq_refl)
      by (pose proof (skip_cont_le (skipn (S o) s)); rewrite skipn_length in *; lia).
    xstep. do 3 f_equal. lia.
  - change (SWhile _ _) with uc_end_loop.
    rewrite (uc_end_loop_okp _ m b s Hs H256 _ o fuel ltac:(lia) eq_refl)
      by (pose proof (skip_cont_le (skipn o s)); rewrite skipn_length in *; lia).
    xstep. rewrite Hsk. cbn [skip_cont]. rewrite <- Hco. cbn [negb]. do 3 f_equal. lia.
Qed.

Theorem tr_uc_nextp m b s o d fuel :
  pstr_at m b s -> bytes_lt256 s -> (o <= length s)%nat -> (length s < fuel)%nat ->
  callf cprog fuel (S (S d)) F_uc_next [VPtr b (Z.of_nat o)] m
  = Ok (VPtr b (Z.of_nat (o + uc_next (skipn o s))), m).
Proof.
  intros Hs H256 Ho Hf. enter F_uc_next cf_uc_next. xstep.
  rewrite (tr_uc_endp m b s o d fuel Hs H256 Ho Hf). xstep.
  pose proof (uc_end_in (skipn o s)) as He. rewrite skipn_length in He.
  xloadp Hs H256 (o + uc_end (skipn o s))%nat.
  pose proof (nthb_lt256 s (o + uc_end (skipn o s)) H256) as Hc.
  rewrite (cc_z0i _ Hc). unfold uc_next. rewrite nthb_skipn.
  destruct (nthb s (o + uc_end (skipn o s)) =? 0)%N; xstep; do 3 f_equal; lia.
Qed.

Lemma uc_off_loop_okp F d m b s o off : pstr_at m b s -> nonul s -> (length s < F)%nat -> (o <= length s)%nat ->
  forall k p i fuel, (length s - p <= k)%nat -> (o <= p <= length s)%nat -> (k < fuel)%nat ->
  0 <= i -> i + Z.of_nat (length s - p) <= 2147483647 ->
  exists p',
  exec (callf cprog F (S (S d))) fuel uc_off_loop
       (mkst [VPtr b (Z.of_nat p); VInt (Z.of_nat off); VPtr b (Z.of_nat (o + off)); VInt i] m)
  = ONormal (mkst [VPtr b p'; VInt (Z.of_nat off); VPtr b (Z.of_nat (o + off));
                   VInt (i + Z.of_nat (uc_off_f k (skipn p s) (p - o) off))] m).
Proof.
  intros Hs Hnn HF Ho. pose proof (nonul_lt256 s Hnn) as H256.
  induction k as [|k IH]; intros p i fuel Hk Hp Hf Hi Hmax; (destruct fuel as [|fuel]; [lia|]);
    unfold uc_off_loop; cbn [fn_body cf_uc_off]; rewrite exec_for; xstep; cbn [ptr_cmp]; rewrite Nat.eqb_refl; xstep.
  - assert (p = length s) as -> by lia. cbn [uc_off_f]. rewrite Z.add_0_r.
    destruct (Z.ltb_spec (Z.of_nat (length s)) (Z.of_nat (o + off))); xstep.
    + xloadp Hs H256 (length s). rewrite nthb_end by lia. cbn. eexists; reflexivity.
    + eexists; reflexivity.
  - destruct (Nat.eq_dec p (length s)) as [->|Hne].
    + rewrite skipn_end by lia. cbn [uc_off_f]. rewrite Z.add_0_r.
      destruct (Z.ltb_spec (Z.of_nat (length s)) (Z.of_nat (o + off))); xstep.
      * xloadp Hs H256 (length s). rewrite nthb_end by lia. cbn. eexists; reflexivity.
      * eexists; reflexivity.
    + rewrite uc_off_f_step by (apply skipn_ne; lia).
      destruct (Z.ltb_spec (Z.of_nat p) (Z.of_nat (o + off))) as [Hlt|Hge]; xstep.
      * destruct (Nat.ltb_spec (p - o) off) as [_|Hx]; [|lia].
        xloadp Hs H256 p. rewrite (cc_z0i _ (nthb_lt256 s p H256)), nonul_nthb_nz by (auto; lia). xstep.
        rewrite (tr_uc_nextp m b s p d F Hs H256) by lia. xstep.
        pose proof (uc_next_nonul (skipn p s) (nonul_skipn s p Hnn) (skipn_ne s p ltac:(lia))) as Hnx.
        pose proof (uc_end_lt (skipn p s) (skipn_ne s p ltac:(lia))) as Hel. rewrite skipn_length in Hel.
        unfold chk; cbn [ity_signed].
        replace (in_range I32 (i + 1)) with true
          by (symmetry; unfold in_range, ity_min, ity_max; cbn [ity_signed ity_bits]; change (- 2 ^ (32 - 1)) with (-2147483648); change (2 ^ (32 - 1) - 1) with 2147483647; apply andb_true_intro; split; apply Z.leb_le; lia).
        xstep. change (SFor _ _ _) with uc_off_loop.
        destruct (IH (p + uc_next (skipn p s))%nat (i + 1) fuel) as [p' Hp']; try lia.
        rewrite Hp'. exists p'. rewrite skipn_skipn.
        replace (p + uc_next (skipn p s) - o)%nat with (p - o + uc_next (skipn p s))%nat by lia.
        match goal with
        | |- ONormal (mkst [_; _; _; VInt ?x] _) = ONormal (mkst [_; _; _; VInt ?y] _) =>
            replace y with x; [reflexivity|]
        end.
        rewrite Nat2Z.inj_succ. lia.
      * destruct (Nat.ltb_spec (p - o) off) as [Hx|_]; [lia|]. rewrite Z.add_0_r. eexists; reflexivity.
Qed.

(* uc_off(s, off) on a string at the start of a block: the number of characters before byte offset off *)
Theorem tr_uc_offp m b s off d fuel :
  pstr_at m b s -> nonul s -> (length s < fuel)%nat ->
  Z.of_nat (length s) <= 2147483647 -> Z.of_nat off <= 2147483647 ->
  callf cprog fuel (S (S (S d))) F_uc_off [VPtr b 0; VInt (Z.of_nat off)] m
  = Ok (VInt (Z.of_nat (uc_off s off)), m).
Proof.
  intros Hs Hnn Hf Hmax Hoff. enter F_uc_off cf_uc_off. xstep.
  replace (0 + 1 * Z.of_nat off) with (Z.of_nat (0 + off)) by lia.
  change (SFor _ _ _) with uc_off_loop.
  destruct (uc_off_loop_okp fuel d m b s 0 off Hs Hnn Hf ltac:(lia) (length s) 0 0 fuel) as [p' Hp']; try lia.
  change 0 with (Z.of_nat 0) at 1. rewrite Hp'. xstep. reflexivity.
Qed.

Lemma uc_off_f_le k : forall t pos e, (uc_off_f k t pos e <= k)%nat.
Proof.
  induction k as [|k IH]; intros t pos e; [cbn; lia|]. destruct t as [|x t]; [cbn; lia|].
  rewrite uc_off_f_step by discriminate. destruct (pos <? e)%nat; [|lia]. specialize (IH (skipn (uc_next (x :: t)) (x :: t)) (pos + uc_next (x :: t))%nat e). lia.
Qed.
Lemma uc_off_le s off : (uc_off s off <= length s)%nat.
Proof. apply uc_off_f_le. Qed.

(* ------------------------------------------------------------------ memory that only grew *)
(* every block that existed, other than the ones listed, is unchanged; new blocks may have been appended *)
Definition mem_ext (m m' : mem) (bs : list nat) : Prop :=
  (length m <= length m')%nat /\ forall b, (b < length m)%nat -> ~ In b bs -> nth_error m' b = nth_error m b.
Lemma mem_ext_refl m bs : mem_ext m m bs.
Proof. split; [lia|reflexivity]. Qed.
Lemma mem_ext_trans m1 m2 m3 bs1 bs2 bs : mem_ext m1 m2 bs1 -> mem_ext m2 m3 bs2 -> incl bs1 bs ->
  (forall b, In b bs2 -> (b < length m1)%nat -> In b bs) -> mem_ext m1 m3 bs.
Proof.
  intros [L1 F1] [L2 F2] I1 I2. split; [lia|]. intros b Hb Hn.
  rewrite F2 by (first [lia | intro X; apply Hn, I2; [exact X|exact Hb]]). apply F1; [exact Hb|]. intro X; apply Hn, I1, X.
Qed.
Lemma mem_ext_weaken m m' bs bs' : mem_ext m m' bs -> incl bs bs' -> mem_ext m m' bs'.
Proof. intros [L F] I. split; [exact L|]. intros b Hb Hn. apply F; [exact Hb|]. intro X; apply Hn, I, X. Qed.
Lemma mem_ext_app m blk bs : mem_ext m (m ++ [blk]) bs.
Proof. split; [rewrite app_length; lia|]. intros b Hb _. apply nth_error_app_old. exact Hb. Qed.
Lemma mem_ext_upd (m : mem) b blk bs : In b bs -> mem_ext m (upd m b blk) bs.
Proof.
  intro Hin. destruct (Nat.lt_ge_cases b (length m)) as [L|L].
  - split; [rewrite upd_length by exact L; lia|]. intros b' Hb Hn. apply mem_upd_other; [exact L|]. intros ->. exact (Hn Hin).
  - replace (upd m b blk) with (m ++ [blk]); [apply mem_ext_app|].
    unfold upd. rewrite firstn_all2, skipn_all2 by lia. reflexivity.
Qed.
Lemma mem_ext_get m m' bs b blk : mem_ext m m' bs -> nth_error m b = Some blk -> ~ In b bs -> nth_error m' b = Some blk.
Proof. intros [L F] H Hn. rewrite F; [exact H| |exact Hn]. apply nth_error_Some. congruence. Qed.
Lemma mem_ext_step m m' p : sbuf_step m m' p ->
  mem_ext m m' (p :: match sbuf_datab m p with Some b => [b] | None => [] end).
Proof.
  intros [L [_ F]]. split; [exact L|]. intros b Hb Hn. apply F; [exact Hb| |].
  - intros ->. apply Hn. left. reflexivity.
  - intro E. apply Hn. right. rewrite E. left. reflexivity.
Qed.

Definition ptr_val (v : val) : Prop := v = VInt 0 \/ exists b o, v = VPtr b o.
Definition is_null (v : val) : bool := match v with VInt 0 => true | _ => false end.
Lemma x_rset_find_none : nth_error cprog X_rset_find = None.
Proof. vm_compute. reflexivity. Qed.
Ltac enterx f cf :=
  rewrite callx_S; cbn [nth_error cprog f cf fn_nparams fn_nlocals fn_body length Nat.eqb Nat.sub repeat app].

(* a load from a global table at a closed offset, a store into a one-cell block *)
Lemma ld_glob (m : mem) g (blk : block) o v : nth_error m g = Some blk -> (o <? 0) = false -> nth_error blk (Z.to_nat o) = Some v ->
  load m g o = Ok v.
Proof. intros H Ho Hv. unfold load. rewrite H, Ho, Hv. reflexivity. Qed.
Lemma st_cell (m : mem) p x v : nth_error m p = Some [x] -> store m p 0 v = Ok (upd m p [v]).
Proof. intro H. rewrite (store_ok m p [x]) by (try exact H; cbn; lia). reflexivity. Qed.
Lemma ld_cell (m : mem) p v : nth_error m p = Some [v] -> load m p 0 = Ok v.
Proof. intro H. unfold load. rewrite H. reflexivity. Qed.

(* ------------------------------------------------------------------ conf_dirmark, conf_dircontext (conf.c): the table readers.
   struct dirmark = 4 cells ctx dir grp pat, struct dircontext = 2 cells dir pat; the blocks the translator read from the
   initializers are the rows of the GENERATED tables GenConf.dirmarks / GenConf.dircontexts (checked by evaluation). *)
Definition dm_row (i : nat) : Z * Z * Z * bytes := nth i dirmarks (0, 0, 0, []).
Definition dm_dir (i : nat) : Z := let '(_, d, _, _) := dm_row i in d.
Definition dm_grp (i : nat) : Z := let '(_, _, g, _) := dm_row i in g.
Definition dm_ctx (i : nat) : Z := let '(c, _, _, _) := dm_row i in c.

Lemma gb_dirmarks_rows : forall i, (i < length dirmarks)%nat ->
  nth_error gb_dirmarks (4 * i) = Some (VInt (dm_ctx i)) /\ nth_error gb_dirmarks (4 * i + 1) = Some (VInt (dm_dir i)) /\
  nth_error gb_dirmarks (4 * i + 2) = Some (VInt (dm_grp i)) /\ int_ok (dm_ctx i) /\ int_ok (dm_dir i) /\ int_ok (dm_grp i) /\
  0 <= dm_grp i <= 15.
Proof.
  intros i Hi. change (length dirmarks) with 6%nat in Hi.
  do 6 (destruct i as [|i]; [vm_compute; repeat split; discriminate|]). lia.
Qed.
Lemma gb_dircontexts_rows : forall i, (i < length dircontexts)%nat ->
  nth_error gb_dircontexts (2 * i) = Some (VInt (fst (nth i dircontexts (0, [])))) /\ int_ok (fst (nth i dircontexts (0, []))).
Proof.
  intros i Hi. change (length dircontexts) with 2%nat in Hi.
  do 2 (destruct i as [|i]; [vm_compute; repeat split; discriminate|]). lia.
Qed.

(* conf_dirmark(idx, NULL, NULL, &dir, &grp) for a row of the table *)
Theorem tr_conf_dirmark (m : mem) idx pd pg xd xg d fuel :
  nth_error m G_dirmarks = Some gb_dirmarks -> nth_error m pd = Some [xd] -> nth_error m pg = Some [xg] -> pd <> pg ->
  (idx < length dirmarks)%nat ->
  callf cprog fuel (S d) F_conf_dirmark [VInt (Z.of_nat idx); VInt 0; VInt 0; VPtr pd 0; VPtr pg 0] m
  = Ok (VInt 0, upd (upd m pd [VInt (dm_dir idx)]) pg [VInt (dm_grp idx)]).
Proof.
  intros Hg Hd Hgr Hne Hi. destruct (gb_dirmarks_rows idx Hi) as (_ & R1 & R2 & _ & I1 & I2 & _).
  change (length dirmarks) with 6%nat in Hi.
  assert (Hdl : (pd < length m)%nat) by (apply nth_error_Some; congruence).
  enter F_conf_dirmark cf_conf_dirmark. xs.
  destruct (Z.ltb_spec (Z.of_nat idx) 0); [lia|]. xs. rewrite wrap_U64_id by lia.
  destruct (Z.leb_spec 6 (Z.of_nat idx)); [lia|]. xs.
  rewrite (ld_glob m G_dirmarks gb_dirmarks _ (VInt (dm_dir idx)) Hg)
    by (try (apply Z.ltb_ge; lia); replace (Z.to_nat (0 + 4 * Z.of_nat idx + 1 * 1)) with (4 * idx + 1)%nat by lia; exact R1).
  xs. rewrite (wrap_int_ok _ I1). rewrite (wrap_int_ok _ I1). rewrite (st_cell m pd xd _ Hd). xs.
  set (m1 := upd m pd _).
  assert (Hg1 : nth_error m1 G_dirmarks = Some gb_dirmarks).
  { unfold m1. destruct (Nat.eq_dec G_dirmarks pd) as [E|E]; [|rewrite mem_upd_other by auto; exact Hg].
    exfalso. rewrite E in Hg. rewrite Hd in Hg. discriminate. }
  rewrite (ld_glob m1 G_dirmarks gb_dirmarks _ (VInt (dm_grp idx)) Hg1)
    by (try (apply Z.ltb_ge; lia); replace (Z.to_nat (0 + 4 * Z.of_nat idx + 1 * 2)) with (4 * idx + 2)%nat by lia; exact R2).
  xs. rewrite (wrap_int_ok _ I2). rewrite (wrap_int_ok _ I2).
  assert (Hgr1 : nth_error m1 pg = Some [xg]) by (unfold m1; rewrite mem_upd_other by auto; exact Hgr).
  rewrite (st_cell m1 pg xg _ Hgr1). xs. reflexivity.
Qed.

(* conf_dircontext(idx, NULL, &dir), every int idx: inside the table the row's direction is stored and 0 returned, outside
   nothing is stored and 1 returned *)
Definition dctx_row (idx : Z) : option (Z * bytes) := if idx <? 0 then None else nth_error dircontexts (Z.to_nat idx).
Theorem tr_conf_dircontext (m : mem) idx pc xc d fuel :
  nth_error m G_dircontexts = Some gb_dircontexts -> nth_error m pc = Some [xc] -> int_ok idx ->
  callf cprog fuel (S d) F_conf_dircontext [VInt idx; VInt 0; VPtr pc 0] m
  = match dctx_row idx with
    | Some (dir, _) => Ok (VInt 0, upd m pc [VInt dir])
    | None => Ok (VInt 1, m)
    end.
Proof.
  intros Hg Hc Hi. unfold dctx_row, int_ok in *.
  enter F_conf_dircontext cf_conf_dircontext. xs.
  destruct (Z.ltb_spec idx 0); xs; [reflexivity|]. rewrite wrap_U64_id by lia.
  destruct (Z.leb_spec 2 idx) as [L|L]; xs.
  - replace (nth_error dircontexts (Z.to_nat idx)) with (@None (Z * bytes)); [reflexivity|].
    symmetry. apply nth_error_None. change (length dircontexts) with 2%nat. lia.
  - assert (Hn : (Z.to_nat idx < length dircontexts)%nat) by (change (length dircontexts) with 2%nat; lia).
    destruct (gb_dircontexts_rows _ Hn) as [R I].
    rewrite (nth_error_nth' dircontexts (0, []) Hn). destruct (nth (Z.to_nat idx) dircontexts (0, [])) as [dir pat] eqn:E.
    cbn [fst] in R, I.
    rewrite (ld_glob m G_dircontexts gb_dircontexts _ (VInt dir) Hg)
      by (try (apply Z.ltb_ge; lia); replace (Z.to_nat (0 + 2 * idx)) with (2 * Z.to_nat idx)%nat by lia; exact R).
    xs. rewrite (wrap_int_ok _ I). rewrite (wrap_int_ok _ I). rewrite (st_cell m pc xc _ Hc). xs. reflexivity.
Qed.

(* ------------------------------------------------------------------ dir_context *)
Lemma cc_notbit7 : forall c, (c < 256)%N ->
  negb (Z.land (Z.lnot (wrap I32 (wrap U8 (wrap I8 (Z.of_N c))))) 128 =? 0) = negb (bit c 128).
Proof. byte_fact. Qed.
Lemma hd0_nthb (s : bytes) : hd0 s = nthb s 0.
Proof. destruct s; reflexivity. Qed.

(* the three fast paths: xtd > 1, xtd < -1, xtd == 0 and an ASCII first byte *)
Definition ctx_fast (s : bytes) (xtd : Z) : bool := (1 <? xtd) || (xtd <? -1) || ((xtd =? 0) && negb (bit (hd0 s) 128)).
Lemma dir_context_fast s xtd cf1 cf2 : ctx_fast s xtd = true -> dir_context s xtd cf1 = dir_context s xtd cf2.
Proof.
  unfold ctx_fast, dir_context. destruct (1 <? xtd); [reflexivity|]. destruct (xtd <? -1); [reflexivity|].
  cbn [orb]. intros ->. reflexivity.
Qed.

(* the memory dir_context needs: the line, the option xtd, the context rset pointer, the context table *)
Record ctx_world (m : mem) (sb : nat) (s : bytes) (xtd : Z) (rsctx : val) : Prop := {
  cw_s : str_at m sb s;  cw_256 : bytes_lt256 s;
  cw_xtd : nth_error m G_xtd = Some [VInt xtd];  cw_xtd_ok : int_ok xtd;
  cw_rs : nth_error m G_dir_rsctx = Some [rsctx];  cw_rs_ok : ptr_val rsctx;
  cw_tab : nth_error m G_dircontexts = Some gb_dircontexts }.

(* dir_context(s) when a fast path applies: for EVERY oracle (rset_find is not reached), the model's answer (which then does
   not depend on the matcher); the memory is the old one plus the block of the local `dir` *)
Theorem tr_dir_context_fast ext m sb s xtd rsctx cf d fuel : ctx_world m sb s xtd rsctx -> ctx_fast s xtd = true ->
  callx ext cprog fuel (S d) F_dir_context [VPtr sb 0] m = Ok (VInt (dir_context s xtd cf), m ++ [[VUndef]]).
Proof.
  intros [Hs H256 Hx Ix Hr Pr Ht] Hf. unfold int_ok in Ix.
  assert (Hxl : (G_xtd < length m)%nat) by (apply nth_error_Some; congruence).
  assert (Hx1 : nth_error (m ++ [[VUndef]]) G_xtd = Some [VInt xtd]) by (rewrite nth_error_app_old by exact Hxl; exact Hx).
  assert (Hs1 : str_at (m ++ [[VUndef]]) sb s).
  { unfold str_at in *. rewrite nth_error_app_old; [exact Hs|]. apply nth_error_Some. congruence. }
  enterx F_dir_context cf_dir_context. xs. rewrite malloc_ok by lia. xs. change (Z.to_nat 1) with 1%nat. cbn [repeat].
  rewrite (ld_cell _ _ _ Hx1). xs. rewrite wrap_I32_id by lia.
  unfold ctx_fast in Hf. unfold dir_context.
  destruct (Z.ltb_spec 1 xtd); xs; [reflexivity|].
  rewrite (ld_cell _ _ _ Hx1). xs. rewrite wrap_I32_id by lia.
  destruct (Z.ltb_spec xtd (-1)); xs; [reflexivity|]. cbn [orb] in Hf.
  rewrite (ld_cell _ _ _ Hx1). xs. rewrite wrap_I32_id by lia.
  destruct (Z.eqb_spec xtd 0) as [E0|E0]; [|discriminate Hf]. cbn [andb] in Hf. xs.
  rewrite (load_str _ sb s 0 0%nat Hs1) by lia. xs.
  rewrite (cc_notbit7 _ (nthb_lt256 s 0 H256)), <- hd0_nthb, Hf. xs. reflexivity.
Qed.

(* the tail of dir_context behind the rset_find step, from any memory that extends the one at that point *)
Definition ctx_tail : stmt :=
  match fn_body cf_dir_context with SSeq _ (SSeq _ (SSeq _ (SSeq _ (SSeq _ (SSeq _ t))))) => t | _ => SSkip end.
Lemma ctx_tail_ok ext fuel d (m m3 : mem) xtd cf loc0 :
  nth_error m G_xtd = Some [VInt xtd] -> int_ok xtd -> nth_error m G_dircontexts = Some gb_dircontexts ->
  mem_ext (m ++ [[VUndef]]) m3 [] -> int_ok cf ->
  exists m', exec (callx ext cprog fuel (S d)) fuel ctx_tail (mkst [loc0; VInt cf; VPtr (length m) 0] m3)
    = OReturn (VInt (match dctx_row cf with Some (dir, _) => dir | None => if xtd <? 0 then -1 else 1 end))
              (mkst [loc0; VInt cf; VPtr (length m) 0] m') /\ mem_ext m m' [].
Proof.
  intros Hx Ix Ht E13 Icf. unfold int_ok in Ix.
  assert (Hxl : (G_xtd < length m)%nat) by (apply nth_error_Some; congruence).
  assert (Htl : (G_dircontexts < length m)%nat) by (apply nth_error_Some; congruence).
  assert (Ht3 : nth_error m3 G_dircontexts = Some gb_dircontexts).
  { apply (mem_ext_get _ _ _ _ _ E13); [rewrite nth_error_app_old by exact Htl; exact Ht|intros []]. }
  assert (Hd3 : nth_error m3 (length m) = Some [VUndef]) by (apply (mem_ext_get _ _ _ _ _ E13); [apply nth_error_app_new|intros []]).
  assert (Hx3 : nth_error m3 G_xtd = Some [VInt xtd]).
  { apply (mem_ext_get _ _ _ _ _ E13); [rewrite nth_error_app_old by exact Hxl; exact Hx|intros []]. }
  assert (E03 : mem_ext m m3 []).
  { apply (mem_ext_trans m (m ++ [[VUndef]]) m3 [] [] []); [apply mem_ext_app|exact E13|apply incl_refl|intros b []]. }
  pose proof (tr_conf_dircontext m3 cf (length m) VUndef d fuel Ht3 Hd3 Icf) as Ec.
  unfold ctx_tail. cbn [fn_body cf_dir_context]. xs.
  destruct (dctx_row cf) as [[dir pat]|] eqn:Er.
  - rewrite (callx_mono ext _ _ _ _ _ _ _ Ec). xs.
    assert (Hdl : (length m < length m3)%nat) by (apply nth_error_Some; congruence).
    rewrite (ld_cell (upd m3 (length m) [VInt dir]) (length m) (VInt dir)) by (apply mem_upd_same; exact Hdl). xs.
    assert (Idir : int_ok dir).
    { unfold dctx_row in Er. destruct (cf <? 0); [discriminate|].
      assert (Hn : (Z.to_nat cf < length dircontexts)%nat) by (apply nth_error_Some; congruence).
      destruct (gb_dircontexts_rows _ Hn) as [_ I]. rewrite (nth_error_nth _ _ (0, []) Er) in I. exact I. }
    rewrite (wrap_int_ok _ Idir). eexists. split; [reflexivity|].
    apply (mem_ext_trans m m3 _ [] [length m] []); [exact E03|apply mem_ext_upd; left; reflexivity|apply incl_refl|].
    intros b [<-|[]] Hb. exfalso; lia.
  - rewrite (callx_mono ext _ _ _ _ _ _ _ Ec). xs. rewrite (ld_cell _ _ _ Hx3). xs. rewrite wrap_I32_id by lia.
    exists m3. split; [|exact E03]. destruct (xtd <? 0); xs; reflexivity.
Qed.

(* dir_context(s) on the slow path: rset_find(dir_rsctx, s, 0, NULL, 0) is the oracle's (when dir_rsctx is not NULL); whatever
   index it answers, the result is the model's dir_context for that answer (cf = -1: no pattern matched, or there is no rset) *)
Theorem tr_dir_context_slow ext m sb s xtd rsctx cf m2 d fuel : ctx_world m sb s xtd rsctx -> ctx_fast s xtd = false ->
  (is_null rsctx = true -> cf = -1) ->
  (is_null rsctx = false ->
     ext X_rset_find [rsctx; VPtr sb 0; VInt 0; VInt 0; VInt 0] (m ++ [[VUndef]]) = Ok (VInt cf, m2) /\ int_ok cf /\
     mem_ext (m ++ [[VUndef]]) m2 []) ->
  exists m', callx ext cprog fuel (S (S d)) F_dir_context [VPtr sb 0] m = Ok (VInt (dir_context s xtd cf), m') /\ mem_ext m m' [].
Proof.
  intros [Hs H256 Hx Ix Hr Pr Ht] Hf Hnull Hext. pose proof Ix as Ix'. unfold int_ok in Ix.
  assert (Hxl : (G_xtd < length m)%nat) by (apply nth_error_Some; congruence).
  assert (Hrl : (G_dir_rsctx < length m)%nat) by (apply nth_error_Some; congruence).
  set (m1 := m ++ [[VUndef]]) in *.
  assert (Hx1 : nth_error m1 G_xtd = Some [VInt xtd]) by (unfold m1; rewrite nth_error_app_old by exact Hxl; exact Hx).
  assert (Hr1 : nth_error m1 G_dir_rsctx = Some [rsctx]) by (unfold m1; rewrite nth_error_app_old by exact Hrl; exact Hr).
  assert (Hs1 : str_at m1 sb s).
  { unfold str_at, m1 in *. rewrite nth_error_app_old; [exact Hs|]. apply nth_error_Some. congruence. }
  enterx F_dir_context cf_dir_context. xs. rewrite malloc_ok by lia. xs. change (Z.to_nat 1) with 1%nat. cbn [repeat]. fold m1.
  rewrite (ld_cell _ _ _ Hx1). xs. rewrite wrap_I32_id by lia.
  unfold ctx_fast in Hf. unfold dir_context.
  destruct (Z.ltb_spec 1 xtd); [discriminate Hf|]. xs.
  rewrite (ld_cell _ _ _ Hx1). xs. rewrite wrap_I32_id by lia.
  destruct (Z.ltb_spec xtd (-1)); [discriminate Hf|]. xs. cbn [orb] in Hf.
  rewrite (ld_cell _ _ _ Hx1). xs. rewrite wrap_I32_id by lia.
  assert (Hfast3 : (if xtd =? 0 then negb (bit (hd0 s) 128) else false) = false) by (destruct (xtd =? 0); exact Hf).
  assert (Fin : forall m3, mem_ext m1 m3 [] -> int_ok cf ->
            exists m', match exec (callx ext cprog fuel (S d)) fuel ctx_tail (mkst [VPtr sb 0; VInt cf; VPtr (length m) 0] m3) with
                       | OReturn v st => Ok (v, memm st) | ONormal st => Ok (VUndef, memm st) | OErr x => Err x | _ => Err EShape end
                       = Ok (VInt (match (if cf <? 0 then None else nth_error dircontexts (Z.to_nat cf)) with
                                   | Some (dir, _) => dir | None => if xtd <? 0 then -1 else 1 end), m') /\ mem_ext m m' []).
  { intros m3 E13 Icf. destruct (ctx_tail_ok ext fuel d m m3 xtd cf (VPtr sb 0) Hx Ix' Ht E13 Icf) as [m' [E M]].
    rewrite E. exists m'. split; [reflexivity|exact M]. }
  change (SSeq (SIf (ELNot (ECall F_conf_dircontext _)) _ _) _) with ctx_tail.
  destruct (Z.eqb_spec xtd 0) as [E0|E0]; xs.
  - rewrite (load_str _ sb s 0 0%nat Hs1) by lia. xs.
    rewrite (cc_notbit7 _ (nthb_lt256 s 0 H256)), <- hd0_nthb, Hfast3. xs.
    rewrite (ld_cell _ _ _ Hr1).
    destruct Pr as [->|[rb [ro ->]]]; xs.
    + specialize (Hnull eq_refl). subst cf. apply (Fin m1); [apply mem_ext_refl|unfold int_ok; lia].
    + rewrite (ld_cell _ _ _ Hr1). xs. rewrite callx_S, x_rset_find_none.
      destruct (Hext eq_refl) as [Ex [Icf E12]]. rewrite Ex. xs. apply (Fin m2); assumption.
  - rewrite (ld_cell _ _ _ Hr1).
    destruct Pr as [->|[rb [ro ->]]]; xs.
    + specialize (Hnull eq_refl). subst cf. apply (Fin m1); [apply mem_ext_refl|unfold int_ok; lia].
    + rewrite (ld_cell _ _ _ Hr1). xs. rewrite callx_S, x_rset_find_none.
      destruct (Hext eq_refl) as [Ex [Icf E12]]. rewrite Ex. xs. apply (Fin m2); assumption.
Qed.

(* ------------------------------------------------------------------ dir_match: the world, the oracle *)
Definition cptr (b k : nat) : val := VPtr b (Z.of_nat k).
(* chrs[]: character-start offsets into the line, weakly increasing, inside the string (uc_chop gives such an array) *)
Definition chrs_ok (s : bytes) (chrs : list nat) : Prop :=
  (forall i j, (i <= j < length chrs)%nat -> (nth i chrs 0 <= nth j chrs 0)%nat) /\
  (forall i, (i < length chrs)%nat -> (nth i chrs 0 <= length s)%nat).
(* the text between chrs[b] and chrs[e]: what dir_match copies into its sbuf (DirDefs.dir_match's `str`) *)
Definition substr (s : bytes) (chrs : list nat) (b e : nat) : bytes :=
  firstn (nth e chrs 0 - nth b chrs 0)%nat (skipn (nth b chrs 0%nat) s).
Definition rs_of (rslr rsrl : val) (ctx : Z) : val := if ctx <? 0 then rsrl else rslr.
(* the 2 * 16 cells rset_find stores for a match: the offsets the model reads with `nth k subs (-1)` *)
Definition subs_cells (subs : list Z) : list Z := map (fun k => nth k subs (-1)) (seq 0 32).

Record dir_world (m : mem) (sb : nat) (s : bytes) (cb : nat) (chrs : list nat) (rslr rsrl : val) : Prop := {
  dw_s : str_at m sb s;  dw_nn : nonul s;
  dw_chrs : nth_error m cb = Some (map (cptr sb) chrs);  dw_cok : chrs_ok s chrs;
  dw_lr : nth_error m G_dir_rslr = Some [rslr];  dw_lr_ok : ptr_val rslr;
  dw_rl : nth_error m G_dir_rsrl = Some [rsrl];  dw_rl_ok : ptr_val rsrl;
  dw_tab : nth_error m G_dirmarks = Some gb_dirmarks;
  dw_size : Z.of_nat (length s) + Z.of_nat (length chrs) <= 2147483000 }.
Definition world_blocks (sb cb : nat) : list nat := [sb; cb; G_dir_rslr; G_dir_rsrl; G_dirmarks].

(* the oracle answers rset_find(rs, str, 16, subs, flg) as the model's matcher `raw` says: whenever the string handed over is the
   text between chrs[b] and chrs[e] (terminated, at the start of some block), rs is the rset of the context's side and flg the
   flags of that span, the call returns the index of the mark (or -1), stores the 32 offsets into the array handed over when a
   mark matched, and changes no other block that existed (it may allocate) *)
Definition oracle_ok (ext : nat -> list val -> mem -> res (val * mem)) (s : bytes) (chrs : list nat) (rslr rsrl : val)
    (raw : nat -> nat -> Z -> Z -> option rawres) : Prop :=
  forall (m : mem) b e ctx strb gb gblk,
    (b <= e < length chrs)%nat -> is_null (rs_of rslr rsrl ctx) = false ->
    pstr_at m strb (substr s chrs b e) -> nth_error m gb = Some gblk -> length gblk = 32%nat -> gb <> strb ->
    exists m',
      ext X_rset_find [rs_of rslr rsrl ctx; VPtr strb 0; VInt 16; VPtr gb 0; VInt (dm_flags s chrs b e)] m
      = Ok (VInt (match raw b e ctx (dm_flags s chrs b e) with Some (found, _) => Z.of_nat found | None => -1 end), m') /\
      mem_ext m m' [gb] /\
      nth_error m' gb = Some (match raw b e ctx (dm_flags s chrs b e) with
                              | Some (_, subs) => map VInt (subs_cells subs) | None => gblk end).
(* what the theorems need of the matcher function itself: no rset, no match; the index is a row of dirmarks (conf_dirmark's
   result is not checked by dir_match: outside the table `grp` would be read uninitialised), the offsets are ints, the whole
   match has offsets >= 0 *)
Definition raw_ok (rslr rsrl : val) (raw : nat -> nat -> Z -> Z -> option rawres) : Prop :=
  forall b e ctx flg,
    (is_null (rs_of rslr rsrl ctx) = true -> raw b e ctx flg = None) /\
    (forall found subs, raw b e ctx flg = Some (found, subs) ->
       (found < length dirmarks)%nat /\ Forall int_ok (subs_cells subs) /\ 0 <= nth 0 subs (-1) /\ 0 <= nth 1 subs (-1)).

Lemma load_chrs (m : mem) cb sb chrs i : nth_error m cb = Some (map (cptr sb) chrs) -> (i < length chrs)%nat ->
  load m cb (0 + 1 * Z.of_nat i) = Ok (VPtr sb (Z.of_nat (nth i chrs 0%nat))).
Proof.
  intros H Hi. unfold load. rewrite H. destruct (Z.ltb_spec (0 + 1 * Z.of_nat i) 0); [lia|].
  replace (Z.to_nat (0 + 1 * Z.of_nat i)) with i by lia. rewrite nth_error_map, (nth_error_nth' chrs 0%nat Hi). reflexivity.
Qed.
Lemma substr_length s chrs b e : chrs_ok s chrs -> (b <= e < length chrs)%nat ->
  length (substr s chrs b e) = (nth e chrs 0 - nth b chrs 0)%nat /\ (nth b chrs 0 <= nth e chrs 0 <= length s)%nat.
Proof.
  intros [Hm Hl] Hbe. pose proof (Hm b e ltac:(lia)). pose proof (Hl e ltac:(lia)).
  unfold substr. rewrite firstn_length, skipn_length. lia.
Qed.
Lemma substr_nonul s chrs b e : nonul s -> nonul (substr s chrs b e).
Proof. intro H. unfold substr. apply Forall_firstn', Forall_skipn'. exact H. Qed.
Lemma firstn_cstr_zb (t : bytes) n : (n <= length t)%nat -> firstn n (cstr_block (zb t)) = map VInt (zb (firstn n t)).
Proof.
  intro H. unfold cstr_block, zb. rewrite firstn_app, !map_length. replace (n - length t)%nat with 0%nat by lia.
  cbn [firstn]. rewrite app_nil_r, !firstn_map. reflexivity.
Qed.
Lemma subs_cells_nth subs k : (k < 32)%nat -> nth_error (map VInt (subs_cells subs)) k = Some (VInt (nth k subs (-1))).
Proof.
  intro H. unfold subs_cells. rewrite !nth_error_map.
  replace (nth_error (seq 0 32) k) with (Some k); [reflexivity|].
  symmetry. rewrite (nth_error_nth' _ 0%nat) by (rewrite seq_length; exact H). rewrite seq_nth by exact H. reflexivity.
Qed.
Lemma subs_cells_len subs : length (map VInt (subs_cells subs)) = 32%nat.
Proof. unfold subs_cells. rewrite !map_length, seq_length. reflexivity. Qed.
Lemma subs_cells_int subs k : Forall int_ok (subs_cells subs) -> (k < 32)%nat -> int_ok (nth k subs (-1)).
Proof.
  intros H Hk. rewrite Forall_forall in H. apply H. unfold subs_cells. apply in_map_iff. exists k. split; [reflexivity|].
  apply in_seq. lia.
Qed.

Lemma rep_ext m m' p cs sz bs : sbuf_rep m p cs sz -> mem_ext m m' bs -> ~ In p bs -> (forall b, sbuf_datab m p = Some b -> ~ In b bs) ->
  sbuf_rep m' p cs sz /\ sbuf_datab m' p = sbuf_datab m p.
Proof.
  intros R E Hp Hd. pose proof (rep_p_lt _ _ _ _ R) as Hpl.
  assert (Ep : nth_error m' p = nth_error m p) by (destruct E as [_ F]; apply F; assumption).
  split; [|unfold sbuf_datab; rewrite Ep; reflexivity].
  destruct R as [[-> [-> H]]|[b [rest [Hb [H [Hdb R]]]]]].
  - left. split; [reflexivity|]. split; [reflexivity|]. rewrite Ep. exact H.
  - right. exists b, rest. split; [exact Hb|]. split; [rewrite Ep; exact H|]. split; [|exact R].
    apply (mem_ext_get _ _ _ _ _ E Hdb). apply Hd. eapply datab_of. exact H.
Qed.

Lemma world_ext m m' bs sb s cb chrs rslr rsrl : dir_world m sb s cb chrs rslr rsrl -> mem_ext m m' bs ->
  (forall p, In p bs -> ~ In p (world_blocks sb cb)) -> dir_world m' sb s cb chrs rslr rsrl.
Proof.
  intros [H1 H2 H3 H4 H5 H6 H7 H8 H9 H10] E D.
  assert (G : forall x blk, nth_error m x = Some blk -> In x (world_blocks sb cb) -> nth_error m' x = Some blk).
  { intros x blk Hx Hin. apply (mem_ext_get _ _ _ _ _ E Hx). intro Hb. exact (D x Hb Hin). }
  constructor; try assumption; [unfold str_at in *| | | |]; apply G; try assumption; unfold world_blocks; cbn [In]; auto 10.
Qed.

(* the memory inside dir_match, relative to the memory m at the call: block |m| is `subs`, |m|+1 the struct sbuf, |m|+2 `grp`,
   the sbuf's data block is a later one; every block of m other than the ones in chg is as it was; the result cells (outs) are
   one-cell blocks of m *)
Record mstate (m mc : mem) (outs chg : list nat) (sblk : block) (gv : val) (cs : list Z) (sz : Z) (bd : nat) : Prop := {
  ms_ext : mem_ext m mc chg;
  ms_subs : nth_error mc (length m) = Some sblk;
  ms_grp : nth_error mc (S (S (length m))) = Some [gv];
  ms_rep : sbuf_rep mc (S (length m)) cs sz;
  ms_datab : sbuf_datab mc (S (length m)) = Some bd;
  ms_bd : (S (S (S (length m))) <= bd)%nat;
  ms_outs : forall p, In p outs -> (p < length m)%nat /\ exists v, nth_error mc p = Some [v] }.

Lemma mem_ext_weaken' m m' bs bs' : mem_ext m m' bs -> (forall b, In b bs -> (b < length m)%nat -> In b bs') -> mem_ext m m' bs'.
Proof. intros [L F] I. split; [exact L|]. intros b Hb Hn. apply F; [exact Hb|]. intro X. apply Hn, I; assumption. Qed.

Lemma ms_len m mc outs chg sblk gv cs sz bd : mstate m mc outs chg sblk gv cs sz bd -> (S (S (S (length m))) <= length mc)%nat.
Proof. intros [_ _ H _ _ _ _]. assert (S (S (length m)) < length mc)%nat by (apply nth_error_Some; congruence). lia. Qed.

Lemma ms_step m mc mc' outs chg sblk gv cs sz bd cs' sz' bd' : mstate m mc outs chg sblk gv cs sz bd ->
  sbuf_step mc mc' (S (length m)) -> sbuf_rep mc' (S (length m)) cs' sz' -> sbuf_datab mc' (S (length m)) = Some bd' ->
  mstate m mc' outs chg sblk gv cs' sz' bd'.
Proof.
  intros MS St R' D'. pose proof (ms_len _ _ _ _ _ _ _ _ _ MS) as Hlen. destruct MS as [E Hs Hg R D Hbd Ho].
  pose proof St as [L [Dd F]].
  assert (G : forall x, (x < length mc)%nat -> x <> S (length m) -> x <> bd -> nth_error mc' x = nth_error mc x).
  { intros x Hx H1 H2. apply F; [exact Hx|exact H1|]. rewrite D. intro X. injection X as X. auto. }
  constructor.
  - apply (mem_ext_trans m mc mc' chg _ chg E (mem_ext_step _ _ _ St)); [apply incl_refl|].
    rewrite D. intros b [<-|[<-|[]]] Hb; exfalso; lia.
  - rewrite G by lia. exact Hs.
  - rewrite G by lia. exact Hg.
  - exact R'.
  - exact D'.
  - destruct Dd as [Dd|[b [Dd Hb]]]; rewrite Dd in D'; [rewrite D in D'|]; injection D' as <-; lia.
  - intros p Hp. destruct (Ho p Hp) as [Hl [v Hv]]. split; [exact Hl|]. exists v. rewrite G by lia. exact Hv.
Qed.

Lemma ms_extL m mc mc' outs chg sblk sblk' gv cs sz bd : mstate m mc outs chg sblk gv cs sz bd ->
  mem_ext mc mc' [length m] -> nth_error mc' (length m) = Some sblk' -> mstate m mc' outs chg sblk' gv cs sz bd.
Proof.
  intros MS E' Hs'. pose proof (ms_len _ _ _ _ _ _ _ _ _ MS) as Hlen. destruct MS as [E Hs Hg R D Hbd Ho].
  destruct (rep_ext mc mc' _ _ _ _ R E') as [R' D'].
  { intros [X|[]]. lia. }
  { intros b Hb [X|[]]. rewrite D in Hb. injection Hb as <-. lia. }
  constructor.
  - apply (mem_ext_trans m mc mc' chg _ chg E E'); [apply incl_refl|]. intros b [<-|[]] Hb. exfalso; lia.
  - exact Hs'.
  - apply (mem_ext_get _ _ _ _ _ E' Hg). intros [X|[]]. lia.
  - exact R'.
  - rewrite D'. exact D.
  - exact Hbd.
  - intros p Hp. destruct (Ho p Hp) as [Hl [v Hv]]. split; [exact Hl|]. exists v.
    apply (mem_ext_get _ _ _ _ _ E' Hv). intros [X|[]]. lia.
Qed.

Lemma ms_upd m mc outs chg sblk gv cs sz bd q v : mstate m mc outs chg sblk gv cs sz bd ->
  (In q outs \/ q = S (S (length m))) ->
  mstate m (upd mc q [v]) outs (q :: chg) sblk (if Nat.eqb q (S (S (length m))) then v else gv) cs sz bd.
Proof.
  intros MS Hq. pose proof (ms_len _ _ _ _ _ _ _ _ _ MS) as Hlen. destruct MS as [E Hs Hg R D Hbd Ho].
  assert (Hql : (q < length mc)%nat /\ q <> length m /\ q <> S (length m) /\ q <> bd).
  { destruct Hq as [Hq| ->]; [|lia]. destruct (Ho q Hq) as [Hl _]. lia. }
  destruct Hql as (Q1 & Q2 & Q3 & Q4).
  destruct (rep_upd_other mc _ _ _ q [v] R Q3) as [R' D']; [rewrite D; congruence|exact Q1|].
  constructor.
  - apply (mem_ext_trans m mc _ chg [q] (q :: chg) E); [apply mem_ext_upd; left; reflexivity|apply incl_tl, incl_refl|].
    intros b [<-|[]] Hb. left. reflexivity.
  - rewrite mem_upd_other by auto. exact Hs.
  - destruct (Nat.eqb_spec q (S (S (length m)))) as [->|Hne]; [apply mem_upd_same; lia|rewrite mem_upd_other by auto; exact Hg].
  - exact R'.
  - rewrite D'. exact D.
  - exact Hbd.
  - intros p Hp. destruct (Ho p Hp) as [Hl [w Hw]]. split; [exact Hl|].
    destruct (Nat.eq_dec p q) as [->|Hne]; [exists v; apply mem_upd_same; exact Q1|exists w; rewrite mem_upd_other by auto; exact Hw].
Qed.

(* ------------------------------------------------------------------ dir_match, phase by phase *)
Fixpoint seq_nth (k : nat) (s : stmt) : stmt :=
  match k, s with O, SSeq a _ => a | O, a => a | S k', SSeq _ r => seq_nth k' r | S _, _ => SSkip end.
Fixpoint seq_drop (k : nat) (s : stmt) : stmt :=
  match k with O => s | S k' => match s with SSeq _ r => seq_drop k' r | _ => SSkip end end.
Definition dm_body : stmt := fn_body cf_dir_match.
Definition dm_rs_expr : expr := match seq_nth 1 dm_body with SExpr (ESetLocal _ e) => e | _ => EConst 0 end.
Definition dm_flg_expr : expr := match seq_nth 4 dm_body with SExpr (ESetLocal _ e) => e | _ => EConst 0 end.

Definition dm_args (cb b e : nat) (ctx : Z) (prec prb pre pcb pce pdir : nat) : list val :=
  [VPtr cb 0; VInt (Z.of_nat b); VInt (Z.of_nat e); VInt ctx; VPtr prec 0; VPtr prb 0; VPtr pre 0; VPtr pcb 0; VPtr pce 0; VPtr pdir 0].

Lemma dm_rs_eval call (mc : mem) rslr rsrl ctx a0 a1 a2 rest :
  nth_error mc G_dir_rslr = Some [rslr] -> ptr_val rslr -> nth_error mc G_dir_rsrl = Some [rsrl] -> ptr_val rsrl ->
  let st := mkst (a0 :: a1 :: a2 :: VInt ctx :: rest) mc in
  eval call dm_rs_expr st = Ok (rs_of rslr rsrl ctx, st).
Proof.
  intros H1 P1 H2 P2 st. unfold dm_rs_expr, st, rs_of. cbn [dm_body seq_nth fn_body cf_dir_match]. xs.
  destruct (ctx <? 0); xs.
  - rewrite (ld_cell _ _ _ H2). destruct P2 as [->|[bb [oo ->]]]; reflexivity.
  - rewrite (ld_cell _ _ _ H1). destruct P1 as [->|[bb [oo ->]]]; reflexivity.
Qed.

Lemma lor_flags (x y : bool) : Z.lor (if x then 2 else 0) (if y then 4 else 0) = (if x then 2 else 0) + (if y then 4 else 0).
Proof. destruct x, y; reflexivity. Qed.

Lemma dm_flg_eval call (mc : mem) sb s cb chrs b e a3 rest :
  str_at mc sb s -> bytes_lt256 s -> nth_error mc cb = Some (map (cptr sb) chrs) -> chrs_ok s chrs -> (e < length chrs)%nat ->
  let st := mkst (VPtr cb 0 :: VInt (Z.of_nat b) :: VInt (Z.of_nat e) :: a3 :: rest) mc in
  eval call dm_flg_expr st = Ok (VInt (dm_flags s chrs b e), st).
Proof.
  intros Hs H256 Hc [_ Hl] He st. unfold dm_flg_expr, st, dm_flags. cbn [dm_body seq_nth fn_body cf_dir_match]. xs.
  assert (Eb : (if negb (Z.of_nat b =? 0) then 2 else 0) = (if (b =? 0)%nat then 0 else RE_NOTBOL)).
  { destruct (Nat.eqb_spec b 0) as [->|Hb]; [reflexivity|]. destruct (Z.eqb_spec (Z.of_nat b) 0); [lia|reflexivity]. }
  destruct (negb (Z.of_nat b =? 0)) eqn:Eb0; xs; rewrite (load_chrs mc cb sb chrs e Hc He); xs;
    rewrite (load_str mc sb s _ (nth e chrs 0%nat) Hs) by (try lia; apply Hl; exact He); xs;
    rewrite (cc_z0i _ (nthb_lt256 s _ H256)); rewrite <- Eb;
    destruct (nthb s (nth e chrs 0%nat) =? 0)%N; xs; reflexivity.
Qed.

(* the result cells: six distinct one-cell blocks of m, none of them a block of the world *)
Definition outs_ok (m : mem) (sb cb : nat) (outs : list nat) : Prop :=
  NoDup outs /\ (forall p, In p outs -> (exists v, nth_error m p = Some [v]) /\ ~ In p (world_blocks sb cb)).

(* phase 1: the declarations, the flags, the copy of the text between chrs[beg] and chrs[end] into the sbuf *)
Lemma dm_setup_ok ext fuel d (m : mem) sb s cb chrs rslr rsrl b e ctx prec prb pre pcb pce pdir :
  dir_world m sb s cb chrs rslr rsrl -> (b <= e < length chrs)%nat ->
  outs_ok m sb cb [prec; prb; pre; pcb; pce; pdir] ->
  let L := length m in
  let call := callx ext cprog fuel (S (S (S d))) in
  exists mc sz bd,
    exec call fuel dm_body (mkst (dm_args cb b e ctx prec prb pre pcb pce pdir ++ repeat VUndef 7) m)
    = exec call fuel (seq_drop 7 dm_body)
        (mkst (dm_args cb b e ctx prec prb pre pcb pce pdir ++
               [VPtr L 0; rs_of rslr rsrl ctx; VPtr (S L) 0; VPtr (S (S L)) 0; VInt (dm_flags s chrs b e); VInt (-1); VUndef]) mc) /\
    mstate m mc [prec; prb; pre; pcb; pce; pdir] [] (repeat VUndef 32) VUndef (zb (substr s chrs b e)) sz bd.
Proof.
  intros W Hbe [Hnd Ho] L call. subst call. pose proof W as [Hs Hnn Hc Hcok Hlr Plr Hrl Prl Htab Hsize].
  pose proof (nonul_lt256 s Hnn) as H256.
  destruct (substr_length s chrs b e Hcok Hbe) as [Hsl [Hcb Hce]].
  set (m1 := m ++ [repeat VUndef 32]). set (m2 := m1 ++ [[VInt 0; VInt 0; VInt 0]]). set (m3 := m2 ++ [[VUndef]]).
  assert (L1 : length m1 = S L) by (unfold m1; rewrite app_length; cbn [length]; lia).
  assert (L2 : length m2 = S (S L)) by (unfold m2; rewrite app_length; cbn [length]; lia).
  assert (L3 : length m3 = S (S (S L))) by (unfold m3; rewrite app_length; cbn [length]; lia).
  assert (E01 : mem_ext m m1 []) by apply mem_ext_app.
  assert (E02 : mem_ext m m2 []) by (apply (mem_ext_trans m m1 m2 [] [] []); [exact E01|apply mem_ext_app|apply incl_refl|intros ? []]).
  assert (E03 : mem_ext m m3 []) by (apply (mem_ext_trans m m2 m3 [] [] []); [exact E02|apply mem_ext_app|apply incl_refl|intros ? []]).
  assert (W1 : dir_world m1 sb s cb chrs rslr rsrl) by (apply (world_ext m m1 [] _ _ _ _ _ _ W E01); intros ? []).
  assert (W3 : dir_world m3 sb s cb chrs rslr rsrl) by (apply (world_ext m m3 [] _ _ _ _ _ _ W E03); intros ? []).
  unfold dm_body at 1. cbn [fn_body cf_dir_match dm_args app repeat].
  change (ECond (EBin OLt I32 (ELocal 3) (EConst 0)) (ELoad None (EGlob G_dir_rsrl)) (ELoad None (EGlob G_dir_rslr))) with dm_rs_expr.
  change (EBin OOr I32 (ECond (ELocal 1) (EConst 2) (EConst 0)) _) with dm_flg_expr.
  change (SSeq (SIf (ELocal 11) _ _) _) with (seq_drop 7 dm_body).
  xs. rewrite malloc_ok by lia. xs. change (Z.to_nat 32) with 32%nat. fold L. fold m1.
  destruct W1 as [_ _ _ _ Hlr1 _ Hrl1 _ _ _].
  rewrite (dm_rs_eval _ m1 rslr rsrl ctx _ _ _ _ Hlr1 Plr Hrl1 Prl). xs.
  rewrite (callx_mono ext _ _ _ _ _ _ _ (tr_sbuf_make m1 (S (S d)) fuel)). xs. rewrite L1. fold m2.
  rewrite malloc_ok by lia. xs. change (Z.to_nat 1) with 1%nat. cbn [repeat]. rewrite L2. fold m3.
  destruct W3 as [Hs3 _ Hc3 _ _ _ _ _ _ _].
  rewrite (dm_flg_eval _ m3 sb s cb chrs b e _ _ Hs3 H256 Hc3 Hcok ltac:(lia)). xs.
  rewrite (load_chrs m3 cb sb chrs b Hc3) by lia. xs.
  rewrite (load_chrs m3 cb sb chrs e Hc3) by lia. xs.
  rewrite (load_chrs m3 cb sb chrs b Hc3) by lia. xs. rewrite Nat.eqb_refl. xs.
  (* the call of sbuf_mem *)
  assert (R2 : sbuf_rep m2 (S L) [] 0) by (unfold m2; rewrite <- L1; apply rep_make).
  assert (D2 : sbuf_datab m2 (S L) = None) by (eapply datab_null; unfold m2; rewrite <- L1; apply nth_error_app_new).
  assert (R3 : sbuf_rep m3 (S L) [] 0) by (apply (rep_app m2 (S L) [] 0 [VUndef] R2)).
  assert (D3 : sbuf_datab m3 (S L) = None) by (rewrite <- D2; apply (rep_app m2 (S L) [] 0 [VUndef] R2)).
  set (str := substr s chrs b e) in *.
  assert (Hsrc : Z.quot (Z.of_nat (nth e chrs 0%nat) - Z.of_nat (nth b chrs 0%nat)) 1 = Z.of_nat (length (zb str))).
  { rewrite Z.quot_1_r. unfold zb. rewrite map_length, Hsl. lia. }
  rewrite Hsrc. rewrite wrap_I32_id by (unfold zb; rewrite map_length, Hsl; lia).
  assert (Hsbl : (sb < length m3)%nat) by (apply nth_error_Some; unfold str_at in Hs3; congruence).
  destruct (tr_sbuf_mem m3 (S L) [] 0 sb (Z.of_nat (nth b chrs 0%nat)) (cstr_block (zb s)) (zb str) (S d) fuel R3) as [m4 [E4 [R4 [_ S4]]]].
  - intros ->. destruct W as [X _ _ _ _ _ _ _ _ _]. unfold str_at in X. assert (S L < length m)%nat by (apply nth_error_Some; congruence). lia.
  - rewrite D3. discriminate.
  - exact Hs3.
  - lia.
  - unfold cstr_block, zb. rewrite app_length, !map_length, Hsl. cbn [length]. lia.
  - rewrite Nat2Z.id, skipn_cstr_block by lia. unfold zb at 1. rewrite map_length. unfold str at 1. unfold substr.
    rewrite firstn_length, skipn_length, Nat.min_l by lia. apply firstn_cstr_zb. rewrite skipn_length. lia.
  - unfold sbuf_fits. change SBUFSZ with 128. unfold zb. rewrite map_length, Hsl. lia.
  - cbn [app] in R4, E4. rewrite (callx_mono ext _ _ _ _ _ _ _ E4). xs.
    assert (D4 : exists bd, sbuf_datab m4 (S L) = Some bd).
    { destruct R4 as [[Z0 _]|[bb [rest [_ [Hp _]]]]]; [|exists bb; eapply datab_of; exact Hp].
      exfalso. revert Z0. unfold IoDefs.sbuf_mem, sb_model. cbn [sb_sz sb_n sb_data length]. rewrite Z.geb_leb.
      match goal with |- (if ?c then _ else _) = 0 -> _ => replace c with true by (symmetry; apply Z.leb_le; lia) end.
      intro Z0. pose proof (NEXTSZ_ge 0 (Z.of_nat (length (map byte_of (zb str))) + 1) ltac:(lia) ltac:(lia)). lia. }
    destruct D4 as [bd D4].
    eexists m4, _, bd. split; [reflexivity|].
    pose proof S4 as [Ll [Dd F]].
    assert (G : forall x, (x < length m3)%nat -> x <> S L -> nth_error m4 x = nth_error m3 x).
    { intros x Hx H1. apply F; [exact Hx|exact H1|]. rewrite D3. discriminate. }
    constructor.
    + apply (mem_ext_trans m m3 m4 [] _ _ E03 (mem_ext_step _ _ _ S4)); [intros ? []|].
      rewrite D3. intros x [<-|[]] Hx. exfalso. fold L in Hx. lia.
    + fold L. rewrite G by lia. unfold m3. rewrite nth_error_app_old by (rewrite L2; lia). unfold m2. rewrite nth_error_app_old by (rewrite L1; lia).
      unfold m1. apply nth_error_app_new.
    + fold L. rewrite G by lia. unfold m3. rewrite <- L2. apply nth_error_app_new.
    + exact R4.
    + exact D4.
    + fold L. destruct Dd as [Dd|[x [Dd Hx]]]; [rewrite D3 in Dd; congruence|]. rewrite Dd in D4. injection D4 as <-. lia.
    + intros p Hp. destruct (Ho p Hp) as [[v Hv] _].
      assert (p < length m)%nat by (apply nth_error_Some; congruence). split; [assumption|]. exists v.
      rewrite G by (rewrite ?L3; fold L in H; lia). apply (mem_ext_get _ _ _ _ _ E03 Hv). intros [].
Qed.

Definition dm_outs (prec prb pre pcb pce pdir : nat) : list nat := [prec; prb; pre; pcb; pce; pdir].
Definition dm_locals (L : nat) (rs : val) (flg found : Z) (sv : val) : list val :=
  [VPtr L 0; rs; VPtr (S L) 0; VPtr (S (S L)) 0; VInt flg; VInt found; sv].
Definition raw_found (r : option rawres) : Z := match r with Some (found, _) => Z.of_nat found | None => -1 end.

Lemma pstr_of_buf (m : mem) b (cs : bytes) rest : nth_error m b = Some (map VInt (zb cs) ++ VInt 0 :: rest) -> pstr_at m b cs.
Proof. intro H. exists rest. unfold cstr_block. rewrite <- app_assoc. exact H. Qed.
Lemma pstr_upd_other (m : mem) b s q blk : pstr_at m b s -> q <> b -> (q < length m)%nat -> pstr_at (upd m q blk) b s.
Proof. intros [rest H] Hne Hq. exists rest. rewrite mem_upd_other by auto. exact H. Qed.
Lemma rs_of_ptr rslr rsrl ctx : ptr_val rslr -> ptr_val rsrl -> ptr_val (rs_of rslr rsrl ctx).
Proof. intros H1 H2. unfold rs_of. destruct (ctx <? 0); assumption. Qed.

(* phase 2: rset_find on the copied text (the oracle), when there is an rset for the context's side *)
Lemma dm_find_ok ext fuel d (m mc : mem) sb s cb chrs rslr rsrl raw b e ctx prec prb pre pcb pce pdir sz bd :
  dir_world m sb s cb chrs rslr rsrl -> (b <= e < length chrs)%nat ->
  oracle_ok ext s chrs rslr rsrl raw -> raw_ok rslr rsrl raw ->
  let L := length m in
  let call := callx ext cprog fuel (S (S (S d))) in
  let outs := dm_outs prec prb pre pcb pce pdir in
  let str := substr s chrs b e in
  let flg := dm_flags s chrs b e in
  let r := raw b e ctx flg in
  mstate m mc outs [] (repeat VUndef 32) VUndef (zb str) sz bd ->
  exists mc' sz' bd',
    exec call fuel (seq_drop 7 dm_body) (mkst (dm_args cb b e ctx prec prb pre pcb pce pdir ++ dm_locals L (rs_of rslr rsrl ctx) flg (-1) VUndef) mc)
    = exec call fuel (seq_drop 8 dm_body)
        (mkst (dm_args cb b e ctx prec prb pre pcb pce pdir ++ dm_locals L (rs_of rslr rsrl ctx) flg (raw_found r) VUndef) mc') /\
    mstate m mc' outs [] (match r with Some (_, subs) => map VInt (subs_cells subs) | None => repeat VUndef 32 end) VUndef (zb str) sz' bd'.
Proof.
  intros W Hbe Hor Hraw L call outs str flg r MS. subst call.
  pose proof W as [Hs Hnn Hc Hcok Hlr Plr Hrl Prl Htab Hsize].
  pose proof (rs_of_ptr rslr rsrl ctx Plr Prl) as Prs.
  destruct (Hraw b e ctx flg) as [Hnull _]. fold r in Hnull.
  unfold dm_args, dm_locals. cbn [seq_drop dm_body fn_body cf_dir_match app].
  change (SSeq (SIf (EAndAlso _ _) _ _) _) with (seq_drop 8 dm_body).
  set (rs := rs_of rslr rsrl ctx) in *.
  destruct Prs as [E0|[rb [ro E0]]]; rewrite E0 in *; xs.
  - (* no rset for this side *)
    rewrite (Hnull eq_refl). exists mc, sz, bd. split; [reflexivity|exact MS].
  - pose proof (ms_len _ _ _ _ _ _ _ _ _ MS) as Hlen.
    destruct (tr_sbuf_buf mc (S L) (zb str) sz (S d) fuel (ms_rep _ _ _ _ _ _ _ _ _ MS)) as [b5 [m5 [rest [E5 [R5 [D5 [Hd5 [_ [_ [S5 _]]]]]]]]]].
    rewrite (callx_mono ext _ _ _ _ _ _ _ E5). xs.
    pose proof (ms_step _ _ _ _ _ _ _ _ _ _ _ _ _ MS S5 R5 D5) as MS5.
    pose proof (pstr_of_buf m5 b5 str rest Hd5) as P5.
    change (wrap U64 2) with 2. xs. change (wrap I32 16) with 16.
    rewrite callx_S, x_rset_find_none.
    destruct (Hor m5 b e ctx b5 L (repeat VUndef 32) Hbe) as [m6 [E6 [X6 H6]]].
    + fold rs. rewrite E0. reflexivity.
    + exact P5.
    + exact (ms_subs _ _ _ _ _ _ _ _ _ MS5).
    + apply repeat_length.
    + pose proof (ms_bd _ _ _ _ _ _ _ _ _ MS5). fold L in H. lia.
    + fold rs flg r in E6, H6. rewrite E0 in E6. rewrite E6. xs.
      exists m6, (sb_sz (IoDefs.sbuf_buf (sb_model (zb str) sz))), b5. split; [reflexivity|].
      apply (ms_extL _ _ _ _ _ _ _ _ _ _ _ MS5 X6). fold L. rewrite H6. destruct r as [[f subs]|]; reflexivity.
Qed.

(* phase 3: the byte offsets of the match and of its nested group become character indices *)
Definition dm_conv_then : stmt := match seq_nth 8 dm_body with SIf _ t _ => t | _ => SSkip end.
Definition dm_cbeg_expr : expr := match seq_nth 4 dm_conv_then with SExpr (EStore _ _ e) => e | _ => EConst 0 end.
Definition dm_cend_expr : expr := match seq_nth 5 dm_conv_then with SExpr (EStore _ _ e) => e | _ => EConst 0 end.

Lemma dm_off_call ext fuel d (mc : mem) b7 str sub : pstr_at mc b7 str -> nonul str -> (length str < fuel)%nat ->
  Z.of_nat (length str) <= 2147483647 -> 0 <= sub <= 2147483647 ->
  callx ext cprog fuel (S (S (S d))) F_uc_off [VPtr b7 0; VInt sub] mc = Ok (VInt (Z.of_nat (uc_off str (Z.to_nat sub))), mc).
Proof.
  intros P Hn Hf Hl Hs. rewrite <- (Z2Nat.id sub) at 1 by lia. apply callx_mono. apply tr_uc_offp; try assumption. lia.
Qed.

Ltac cexpr_tac Hg HL Hfb :=
  xs; rewrite (ld_cell _ _ _ Hg); xs;
  match goal with Ig : int_ok ?g |- _ => rewrite !(wrap_int_ok _ Ig) end;
  rewrite chk_I32 by lia; xs; rewrite chk_I32 by lia; xs.

Section CExpr.
  Variables (ext : nat -> list val -> mem -> res (val * mem)) (fuel d : nat) (mc : mem).
  Variables (cb b e : nat) (ctx : Z) (prec prb pre pcb pce pdir L : nat) (rs : val) (flg found : Z) (b7 : nat).
  Variables (subs : list Z) (grp : Z) (str : bytes) (vrb vre : Z).
  Hypothesis HL : nth_error mc L = Some (map VInt (subs_cells subs)).
  Hypothesis Hg : nth_error mc (S (S L)) = Some [VInt grp].
  Hypothesis Hgr : 0 <= grp <= 15.
  Hypothesis Hint : Forall int_ok (subs_cells subs).
  Hypothesis P : pstr_at mc b7 str.
  Hypothesis Hn : nonul str.
  Hypothesis Hf : (length str < fuel)%nat.
  Hypothesis Hl : Z.of_nat b + Z.of_nat (length str) <= 2147483647.
  Hypothesis Hrb : nth_error mc prb = Some [VInt vrb].
  Hypothesis Hre : nth_error mc pre = Some [VInt vre].
  Hypothesis Irb : int_ok vrb.
  Hypothesis Ire : int_ok vre.
  Let st := mkst (dm_args cb b e ctx prec prb pre pcb pce pdir ++ dm_locals L rs flg found (VPtr b7 0)) mc.
  Let sub (k : nat) := nth k subs (-1).
  Let g := Z.to_nat grp.

  Lemma ld_sub k z : z = Z.of_nat k -> (k < 32)%nat -> load mc L (0 + 1 * z) = Ok (VInt (sub k)).
  Proof.
    intros -> Hk. apply (ld_glob mc L _ _ _ HL); [apply Z.ltb_ge; lia|].
    replace (Z.to_nat (0 + 1 * Z.of_nat k)) with k by lia. apply subs_cells_nth. exact Hk.
  Qed.

  Lemma dm_cbeg_eval :
    eval (callx ext cprog fuel (S (S (S d)))) dm_cbeg_expr st
    = Ok (VInt (if 0 <=? sub (2 * g) then Z.of_nat (b + uc_off str (Z.to_nat (sub (2 * g)))) else vrb), st).
  Proof.
    assert (Ig : int_ok grp) by (unfold int_ok; lia).
    assert (Is : int_ok (sub (2 * g))) by (apply subs_cells_int; [exact Hint|unfold g; lia]).
    pose proof (uc_off_le str (Z.to_nat (sub (2 * g)))) as Hle.
    unfold dm_cbeg_expr, st, dm_args, dm_locals. cbn [dm_conv_then dm_body seq_nth fn_body cf_dir_match app].
    xs. rewrite (ld_cell _ _ _ Hg). xs. rewrite !(wrap_int_ok _ Ig). rewrite chk_I32 by lia. xs. rewrite chk_I32 by lia. xs.
    rewrite (ld_sub (2 * g)) by (unfold g; lia). xs. rewrite !(wrap_int_ok _ Is).
    destruct (Z.leb_spec 0 (sub (2 * g))) as [G|G]; xs.
    - rewrite (ld_cell _ _ _ Hg). xs. rewrite !(wrap_int_ok _ Ig). rewrite chk_I32 by lia. xs. rewrite chk_I32 by lia. xs.
      rewrite (ld_sub (2 * g)) by (unfold g; lia). xs. rewrite !(wrap_int_ok _ Is).
      rewrite (dm_off_call ext fuel d mc b7 str _ P Hn Hf) by (unfold int_ok in Is; lia). xs.
      rewrite chk_I32 by lia. xs. rewrite Nat2Z.inj_add. reflexivity.
    - rewrite (ld_cell _ _ _ Hrb). xs. rewrite (wrap_int_ok _ Irb). reflexivity.
  Qed.

  Lemma dm_cend_eval :
    eval (callx ext cprog fuel (S (S (S d)))) dm_cend_expr st
    = Ok (VInt (if 0 <=? sub (2 * g + 1) then Z.of_nat (b + uc_off str (Z.to_nat (sub (2 * g + 1)))) else vre), st).
  Proof.
    assert (Ig : int_ok grp) by (unfold int_ok; lia).
    assert (Is : int_ok (sub (2 * g + 1))) by (apply subs_cells_int; [exact Hint|unfold g; lia]).
    pose proof (uc_off_le str (Z.to_nat (sub (2 * g + 1)))) as Hle.
    unfold dm_cend_expr, st, dm_args, dm_locals. cbn [dm_conv_then dm_body seq_nth fn_body cf_dir_match app].
    xs. rewrite (ld_cell _ _ _ Hg). xs. rewrite !(wrap_int_ok _ Ig). rewrite chk_I32 by lia. xs. rewrite chk_I32 by lia. xs.
    rewrite (ld_sub (2 * g + 1)) by (unfold g; lia). xs. rewrite !(wrap_int_ok _ Is).
    destruct (Z.leb_spec 0 (sub (2 * g + 1))) as [G|G]; xs.
    - rewrite (ld_cell _ _ _ Hg). xs. rewrite !(wrap_int_ok _ Ig). rewrite chk_I32 by lia. xs. rewrite chk_I32 by lia. xs.
      rewrite (ld_sub (2 * g + 1)) by (unfold g; lia). xs. rewrite !(wrap_int_ok _ Is).
      rewrite (dm_off_call ext fuel d mc b7 str _ P Hn Hf) by (unfold int_ok in Is; lia). xs.
      rewrite chk_I32 by lia. xs. rewrite Nat2Z.inj_add. reflexivity.
    - rewrite (ld_cell _ _ _ Hre). xs. rewrite (wrap_int_ok _ Ire). reflexivity.
  Qed.
End CExpr.

Lemma ms_upd_out m mc outs chg sblk gv cs sz bd q v : mstate m mc outs chg sblk gv cs sz bd -> In q outs ->
  mstate m (upd mc q [v]) outs (q :: chg) sblk gv cs sz bd.
Proof.
  intros MS Hq. pose proof (ms_upd _ _ _ _ _ _ _ _ _ q v MS (or_introl Hq)) as X.
  destruct (ms_outs _ _ _ _ _ _ _ _ _ MS q Hq) as [Hl _].
  destruct (Nat.eqb_spec q (S (S (length m)))); [lia|exact X].
Qed.
Lemma ms_upd_grp m mc outs chg sblk gv cs sz bd v : mstate m mc outs chg sblk gv cs sz bd ->
  mstate m (upd mc (S (S (length m))) [v]) outs (S (S (length m)) :: chg) sblk v cs sz bd.
Proof. intro MS. pose proof (ms_upd _ _ _ _ _ _ _ _ _ _ v MS (or_intror eq_refl)) as X. rewrite Nat.eqb_refl in X. exact X. Qed.

Lemma nodup6 (a b c d e f : nat) : NoDup [a; b; c; d; e; f] ->
  a <> b /\ a <> c /\ a <> d /\ a <> e /\ a <> f /\ b <> c /\ b <> d /\ b <> e /\ b <> f /\ c <> d /\ c <> e /\ c <> f /\
  d <> e /\ d <> f /\ e <> f.
Proof.
  intro H. repeat match goal with H : NoDup (_ :: _) |- _ => inversion H; clear H; subst end.
  cbn [In] in *. repeat split; intro; subst; tauto.
Qed.

Lemma dir_match_some s chrs raw b e ctx found subs :
  raw b e ctx (dm_flags s chrs b e) = Some (found, subs) -> (found < length dirmarks)%nat ->
  let str := substr s chrs b e in
  let sub k := nth k subs (-1) in
  let g := Z.to_nat (dm_grp found) in
  let rb := (b + uc_off str (Z.to_nat (sub 0%nat)))%nat in
  let re := (b + uc_off str (Z.to_nat (sub 1%nat)))%nat in
  dir_match s chrs raw b e ctx
  = Some {| r_beg := rb; r_end := re;
            c_beg := if 0 <=? sub (2 * g)%nat then (b + uc_off str (Z.to_nat (sub (2 * g)%nat)))%nat else rb;
            c_end := if 0 <=? sub (2 * g + 1)%nat then (b + uc_off str (Z.to_nat (sub (2 * g + 1)%nat)))%nat else re;
            c_dir := dm_dir found; c_rec := (0 <? dm_grp found) |}.
Proof.
  intros H Hf. cbv zeta. unfold dir_match. rewrite H. rewrite (nth_error_nth' dirmarks (0, 0, 0, []) Hf).
  unfold dm_dir, dm_grp, dm_row. destruct (nth found dirmarks (0, 0, 0, [])) as [[[c dd] g] p]. reflexivity.
Qed.
