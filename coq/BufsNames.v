(* BufsNames.v -- C20: the THREE places that decide what a buffer is called agree.
   bufs_find (lookup) and bufs_open (creation) keep the path as typed, up to "/" = unnamed (canon); ec_write is the third
   place: `:w path` in the UNNAMED buffer gives the buffer the path as typed.  write_names: after a successful `:w p` in the
   unnamed buffer the buffer is found by bufs_find under exactly p (slot 0); nothing else in the table, the counter and the
   globals moves; the lbuf is the old one marked saved; the file p names (BufsDefs.fskey) holds the buffer's text.
   write_names_succeeds: the write is not refused when the file does not exist or the command is forced.
   open_names: bufs_open stores canon p, and bufs_find p finds a slot whose path is canon p afterwards.
   Definitions in BufsDefs.v; statements repeated in Properties_C20.v. *)
From Coq Require Import List ZArith NArith Bool Lia.
From NV Require Import GenConsts BufsDefs BufsProps.
Import ListNotations.
Open Scope Z_scope.

Lemma path_eqb_refl a : path_eqb a a = true.
Proof. apply path_eqb_eq. reflexivity. Qed.

Lemma fs_get_put fs p c : fs_get (fs_put fs p c) p = Some c.
Proof.
  induction fs as [|[q d] r IH]; cbn [fs_put fs_get].
  - rewrite path_eqb_refl. reflexivity.
  - destruct (path_eqb (fskey q) (fskey p)) eqn:K; cbn [fs_get]; rewrite K; [reflexivity|exact IH].
Qed.

(* two spellings of one file: what one wrote the other reads *)
Lemma fs_get_put_alias fs p q c : fskey q = fskey p -> fs_get (fs_put fs p c) q = Some c.
Proof.
  intro E. rewrite <- (fs_get_put fs p c).
  generalize (fs_put fs p c). intro f. induction f as [|[k d] r IH]; cbn [fs_get]; [reflexivity|]. rewrite E, IH. reflexivity.
Qed.

Lemma fs_get_put_other fs p q c : path_eqb (fskey p) (fskey q) = false -> fs_get (fs_put fs p c) q = fs_get fs q.
Proof.
  intro N. assert (N' : forall k, path_eqb (fskey k) (fskey p) = true -> path_eqb (fskey k) (fskey q) = false).
  { intros k H. apply path_eqb_eq in H. rewrite H. exact N. }
  induction fs as [|[k d] r IH]; cbn [fs_put fs_get].
  - rewrite N. reflexivity.
  - destruct (path_eqb (fskey k) (fskey p)) eqn:K; cbn [fs_get].
    + rewrite (N' k K). reflexivity.
    + rewrite IH. reflexivity.
Qed.

Section Names.
Context {L Op Out : Type}.
Variable Lo : lops L Op Out.
Notation buf := (buf L).
Notation st := (st L).

Lemma slot0_nth (s : st) b : slot0 s = Some b -> exists r, bufs s = Some b :: r.
Proof. unfold slot0. destruct (bufs s) as [|x r]; [discriminate|]. intro H. subst x. exists r. reflexivity. Qed.

Theorem write_names (s : st) (bang : bool) (p : path) (b : buf) (s' : st) (evs : list (ev Out)) :
  slot0 s = Some b -> b_path b = [] -> p <> [] -> canon p = p ->
  ec_write Lo s bang (Some p) = (s', evs) -> evs = [EvMsg MWrote] ->
  (exists b', slot0 s' = Some b' /\ b_path b' = p /\ b_id b' = b_id b /\ b_view b' = b_view b /\
              b_lb b' = lb_saved Lo false (b_lb b)) /\
  bufs_find s' p = Some 0%nat /\
  tl (bufs s') = tl (bufs s) /\ cnt s' = cnt s /\ xv s' = xv s /\ pct s' = p /\
  fs_get (fs s') p = Some (lb_text Lo (b_lb b)) /\
  (forall q, path_eqb (fskey p) (fskey q) = false -> fs_get (fs s') q = fs_get (fs s) q).
Proof.
  intros H0 Hp Hne Hc Hw Hev. destruct (slot0_nth s b H0) as [r Hr].
  unfold ec_write in Hw. rewrite H0 in Hw. rewrite Hp in Hw.
  destruct (negb bang && _) in Hw; [inversion Hw; subst; discriminate|].
  destruct (negb bang && _ && _) in Hw; [inversion Hw; subst; discriminate|].
  destruct p as [|c p']; [congruence|].
  cbn [set_path b_path] in Hw. rewrite path_eqb_refl in Hw. inversion Hw; subst s'. clear Hw.
  cbn [slot0 bufs set_pct set_fs set_bufs cnt xv pct fs]. rewrite Hr. cbn [upd0 upd_slot tl].
  split. { eexists. split; [reflexivity|]. cbn. auto. }
  split. { unfold bufs_find. cbn [bufs set_pct set_fs set_bufs]. cbn [upd0 upd_slot first_idx has_path]. rewrite Hc.
           cbn [b_path set_mtime set_lb set_path]. rewrite path_eqb_refl. reflexivity. }
  split; [reflexivity|]. split; [reflexivity|]. split; [reflexivity|]. split; [reflexivity|].
  split; [apply fs_get_put|]. intros q Hq. apply fs_get_put_other. exact Hq.
Qed.

Theorem write_names_succeeds (s : st) (bang : bool) (p : path) (b : buf) :
  slot0 s = Some b -> b_path b = [] -> p <> [] -> (bang = true \/ fs_get (fs s) p = None) ->
  snd (ec_write Lo s bang (Some p)) = [EvMsg MWrote].
Proof.
  intros H0 Hp Hne Hok. unfold ec_write. rewrite H0, Hp.
  assert (E : path_eqb [] p = false) by (destruct p; [congruence|reflexivity]). rewrite E.
  destruct Hok as [Hb|Hn].
  - subst bang. cbn [negb andb]. destruct p; [congruence|reflexivity].
  - unfold mtime. rewrite Hn. replace (-1 >? 0) with false by reflexivity. replace (-1 >=? 0) with false by reflexivity.
    rewrite !andb_false_r. destruct p; [congruence|reflexivity].
Qed.

(* creation and lookup use the same name *)
Theorem open_names (s : st) (p : path) :
  (bufs_findroom s < length (bufs s))%nat ->
  let s' := fst (bufs_open Lo s p) in
  (exists b, nth_error (bufs s') (bufs_findroom s) = Some (Some b) /\ b_path b = canon p) /\
  (exists i b, bufs_find s' p = Some i /\ nth_error (bufs s') i = Some (Some b) /\ b_path b = canon p).
Proof.
  intros Hl s'. unfold s', bufs_open. cbn [fst]. unfold bufs_init. cbn [bufs set_cnt set_bufs].
  assert (N : nth_error (set_nth (bufs s) (bufs_findroom s) (Some (mkbuf (cnt s + 1) (canon p) (lb_make Lo) view0 (-1)))) (bufs_findroom s)
              = Some (Some (mkbuf (cnt s + 1) (canon p) (lb_make Lo) view0 (-1)))).
  { revert Hl. generalize (bufs_findroom s) as k. generalize (bufs s) as l. induction l as [|x l IH]; intros [|k] Hk; cbn in *; try lia; [reflexivity|]. apply IH. lia. }
  split. { eexists. split; [exact N|reflexivity]. }
  unfold bufs_find. cbn [bufs set_cnt set_bufs].
  match goal with |- context [first_idx ?f ?l] => destruct (first_idx f l) as [i|] eqn:F end.
  - destruct (first_idx_some _ _ i F) as [x [Hx [Fx _]]]. destruct x as [bx|]; [|discriminate].
    exists i, bx. split; [reflexivity|]. split; [exact Hx|]. apply path_eqb_eq. exact Fx.
  - exfalso. eapply first_idx_found; [eapply nth_error_In; exact N| |exact F].
    cbn [has_path b_path]. apply path_eqb_refl.
Qed.

End Names.
