(* TrExParseTotal.v -- C06: for a class of oracles the run that TrExParse.tr_ex_exec is about EXISTS, for every NUL-free command line
   shorter than EXLEN: `oracle_ok` says of ex_txt, of the dispatched commands and of ex_show what the premises of `runs` need (the
   answer of ex_txt is the position the model computes; after each call the line, loc/cmd/arg, the command table and the literals are
   still there; the txt cell holds NULL or a pointer that free() accepts).  Then ex_exec returns, having run every command of the
   line left to right (at most one per byte), and the trace is ExDefs' parse of the line. *)
From Coq Require Import List ZArith NArith Bool Lia.
From NV Require Import Bytes GenConsts GenExCmds CLite CLiteProps GenCFuncs CLiteTac CLiteExt TrLbufBase TrEx TrExIdx TrExParse.
From NV Require CapDefs CapProps.
Import ListNotations.
Local Open Scope Z_scope.

Lemma G_small0 : (G_exloc < length cglobals)%nat /\ (G_excmds < length cglobals)%nat /\ (G_unknown < length cglobals)%nat.
Proof. vm_compute. repeat split; lia. Qed.
Lemma excmds_at_ext0 m mm : excmds_at m -> (forall g, (g < length cglobals)%nat -> nth_error mm g = nth_error m g) -> excmds_at mm.
Proof.
  intros (gblk & Hb & Htab) Hext. exists gblk. split; [rewrite Hext by apply G_small0; exact Hb|].
  intros k ab nm Hk. destruct (Htab k ab nm Hk) as (ga & gn & H1 & H2 & Sa & Sn & La & Ln). exists ga, gn.
  repeat split; try assumption; unfold str_at; rewrite Hext; assumption.
Qed.

Section Total.
  Variable ext : nat -> list val -> mem -> res (val * mem).
  Variables (bs : nat) (s : bytes) (bl bc ba : nat).
  Hypothesis Hnn : nonul s.
  Hypothesis Hlen : Z.of_nat (length s) < EXLEN.
  Hypothesis Hdist : bs <> bl /\ bs <> bc /\ bs <> ba /\ bl <> bc /\ bl <> ba /\ bc <> ba.
  Hypothesis Hglob : (length cglobals <= bl)%nat /\ (length cglobals <= bc)%nat /\ (length cglobals <= ba)%nat.
  Hypothesis Hbs : (length cglobals <= bs)%nat.

  Variable T : mem -> nat -> Prop.          (* what the oracles keep true of the txt cell between ex_txt and free(txt) *)
  Notation frame := (frame_ok bs s bl bc ba).
  Definition txt_ok (m : mem) (bt : nat) : Prop := exists vt, nth_error m bt = Some [vt] /\ (vt = VInt 0 \/ exists b o, vt = VPtr b o).
  Definition freeable (m : mem) (bt : nat) : Prop :=
    exists vt u m', nth_error m bt = Some [vt] /\ do_builtin_m BFree [vt] m = Ok (u, m') /\ frame m'.
  Record oracle_ok : Prop := mk_oracle_ok {
    o_txt : forall m i bt g e j, frame m -> nth_error m bt = Some [VInt 0] -> str_at m g e -> nonul e ->
      CapDefs.ex_txt_src s i (CapDefs.ch0 e) (CapDefs.ch1 e) = CapDefs.Ok j ->
      exists m', ext X_ex_txt [VPtr bs (Z.of_nat i); VPtr bt 0; VPtr g 0] m = Ok (VPtr bs (Z.of_nat j), m') /\ frame m' /\ txt_ok m' bt /\ T m' bt;
    o_cmd : forall m k bt vt, frame m -> T m bt -> nth_error m bt = Some [vt] -> (k < NCMDS)%nat ->
      exists r m', ext X_indirect [VPtr G_excmds (Z.of_nat (3 * k + 2)); VPtr bl 0; VPtr bc 0; VPtr ba 0; vt] m = Ok (VInt r, m') /\ freeable m' bt;
    o_show : forall m bt, frame m -> T m bt -> txt_ok m bt ->
      exists u m', ext X_ex_show [VPtr G_msg_unknown 0] m = Ok (u, m') /\ freeable m' bt
  }.

  Lemma frame_m4 m Lb Cb Ab w1 w2 w3 : frame m ->
    nth_error m bl = Some Lb -> nth_error m bc = Some Cb -> nth_error m ba = Some Ab ->
    (Z.of_nat (CapDefs.wlen w1) <= EXLEN) -> (Z.of_nat (CapDefs.wlen w2) <= EXLEN) -> (Z.of_nat (CapDefs.wlen w3) <= EXLEN) ->
    let m4 := upd (upd (upd (m ++ [[VInt 0]]) bl (dblock w1 Lb)) bc (dblock w2 Cb)) ba (dblock w3 Ab) in
    frame m4 /\ nth_error m4 (length m) = Some [VInt 0] /\ (forall g, (g < length cglobals)%nat -> nth_error m4 g = nth_error m g).
  Proof.
    intros F HL HC HA W1 W2 W3 m4. destruct (frame_lt bs s bl bc ba m F) as (Lbs & Lbl & Lbc & Lba).
    destruct Hdist as (D1 & D2 & D3 & D4 & D5 & D6). destruct Hglob as (G1 & G2 & G3).
    destruct (f_loc _ _ _ _ _ m F) as (xl & Hxl & LL). rewrite HL in Hxl. injection Hxl as <-.
    destruct (f_cmd _ _ _ _ _ m F) as (xc & Hxc & LC). rewrite HC in Hxc. injection Hxc as <-.
    destruct (f_arg _ _ _ _ _ m F) as (xa & Hxa & LA). rewrite HA in Hxa. injection Hxa as <-.
    set (m1 := m ++ [[VInt 0]]) in *. set (m2 := upd m1 bl (dblock w1 Lb)) in *. set (m3 := upd m2 bc (dblock w2 Cb)) in *.
    assert (Lm1 : length m1 = S (length m)) by (unfold m1; rewrite app_length; cbn [length]; lia).
    assert (Lm2 : length m2 = length m1) by (unfold m2; apply upd_length; lia).
    assert (Lm3 : length m3 = length m2) by (unfold m3; apply upd_length; lia).
    assert (Hother : forall b, (b < length m)%nat -> b <> bl -> b <> bc -> b <> ba -> nth_error m4 b = nth_error m b).
    { intros b Hb N1 N2 N3. unfold m4. rewrite mem_upd_other by (first [lia|assumption]). unfold m3. rewrite mem_upd_other by (first [lia|assumption]).
      unfold m2. rewrite mem_upd_other by (first [lia|assumption]). unfold m1. apply nth_error_app_old. exact Hb. }
    split; [|split].
    - constructor.
      + unfold str_at. rewrite Hother by (try lia; congruence). exact (f_line _ _ _ _ _ m F).
      + exists (dblock w1 Lb). split; [|rewrite dblock_length by lia; exact LL].
        unfold m4. rewrite mem_upd_other by (first [lia|congruence]). unfold m3. rewrite mem_upd_other by (first [lia|congruence]). unfold m2. apply mem_upd_same. lia.
      + exists (dblock w2 Cb). split; [|rewrite dblock_length by lia; exact LC].
        unfold m4. rewrite mem_upd_other by (first [lia|congruence]). unfold m3. apply mem_upd_same. lia.
      + exists (dblock w3 Ab). split; [|rewrite dblock_length by lia; exact LA]. unfold m4. apply mem_upd_same. lia.
      + apply (excmds_at_ext0 m); [exact (f_tab _ _ _ _ _ m F)|]. intros g Hg. apply Hother; lia.
      + destruct G_small0 as (Gs1 & _ & _). rewrite Hother by lia. exact (f_exloc _ _ _ _ _ m F).
      + destruct G_small0 as (_ & _ & Gs3). unfold str_at. rewrite Hother by lia. exact (f_unk _ _ _ _ _ m F).
    - unfold m4. rewrite mem_upd_other by lia. unfold m3. rewrite mem_upd_other by lia. unfold m2. rewrite mem_upd_other by lia. unfold m1. apply nth_error_app_new.
    - intros g Hg. apply Hother; lia.
  Qed.

  Theorem runs_total : oracle_ok -> forall k i ret m, (length s - i <= k)%nat -> (i <= length s)%nat -> frame m ->
    exists n tr ret' m', (n <= k)%nat /\ runs ext bs s bl bc ba n tr i ret m ret' m'.
  Proof.
    intros [Otxt Ocmd Oshow]. induction k as [|k IH]; intros i ret m Hk Hi F.
    - exists 0%nat, [], ret, m. split; [lia|]. apply runs_done; [exact F|lia].
    - destruct (Nat.eq_dec i (length s)) as [->|Hne]; [exists 0%nat, [], ret, m; split; [lia|]; apply runs_done; [exact F|reflexivity]|].
      destruct (f_loc _ _ _ _ _ m F) as (Lb & HL & LL). destruct (f_cmd _ _ _ _ _ m F) as (Cb & HC & LC). destruct (f_arg _ _ _ _ _ m F) as (Ab & HA & LA).
      destruct (CapProps.ex_parts_fit s i 0%N 0%N Hlen Hi) as ((i1 & w1 & E1 & A1 & A1' & _ & W1) & _).
      destruct (CapProps.ex_parts_fit s i1 0%N 0%N Hlen A1') as (_ & (i2 & w2 & E2 & A2 & A2' & _ & _ & W2) & _).
      set (cmd := CapDefs.wstr w2). set (e := CapDefs.excmd_of cmd).
      destruct (CapProps.ex_parts_fit s i2 (CapDefs.ch0 e) (CapDefs.ch1 e) Hlen A2') as (_ & _ & (i3 & w3 & E3 & A3 & A3' & _ & W3)).
      destruct (CapProps.ex_txt_src_spec s i3 (CapDefs.ch0 e) (CapDefs.ch1 e) A3') as (j & Etxt & A4 & A4').
      (* progress: the model's loop moves *)
      assert (Hprog : (i < j)%nat).
      { assert (Hrd : exists c, CapDefs.rd s i = CapDefs.Ok c /\ c <> 0%N).
        { exists (nthb s i). split; [|apply (nthb_nz0 s Hnn); lia]. unfold CapDefs.rd, nthb.
          destruct (nth_error s i) eqn:En; [erewrite nth_error_nth by exact En; reflexivity|apply nth_error_None in En; lia]. }
        destruct Hrd as (c & Hc & Hc0).
        destruct (CapProps.parse_one_spec s i c ltac:(rewrite <- CapProps.excap_EXLEN in Hlen; lia) Hi Hc Hc0) as (p & P & L1 & _).
        unfold CapDefs.parse_one in P. rewrite E1 in P. cbn [CapDefs.bind fst snd] in P. rewrite E2 in P. cbn [CapDefs.bind fst snd] in P.
        fold cmd in P. fold e in P. rewrite E3 in P. cbn [CapDefs.bind fst snd] in P. rewrite Etxt in P. cbn [CapDefs.bind] in P.
        injection P as <-. cbn [CapDefs.p_next] in L1. exact L1. }
      destruct (frame_m4 m Lb Cb Ab w1 w2 w3 F HL HC HA W1 W2 W3) as (F4 & T4 & G4).
      set (m4 := upd (upd (upd (m ++ [[VInt 0]]) bl (dblock w1 Lb)) bc (dblock w2 Cb)) ba (dblock w3 Ab)) in *.
      (* the abbreviation block *)
      assert (Hg : exists g, abbr_ptr m cmd g).
      { unfold abbr_ptr. destruct (CapDefs.ex_idx cmd) as [[k0 ab]|] eqn:Eidx; [|eauto].
        destruct (ex_idx_nth cmd k0 ab Eidx) as (nm & Hn). destruct (f_tab _ _ _ _ _ m F) as (gblk & Hb & Htab).
        destruct (Htab k0 ab nm Hn) as (ga & gn & H1 & _). exists ga, gblk. split; assumption. }
      destruct Hg as (g & Hg).
      destruct (abbr_info ext (2 * S (length s) + S (S NCMDS)) 0%nat bs s bl bc ba ltac:(lia) ltac:(lia) Hdist Hglob m cmd g F Hg) as (Sg & Lg & Ne & Ridx). fold e in Sg, Ne.
      assert (Sg4 : str_at m4 g e) by (unfold str_at; rewrite G4 by exact Lg; exact Sg).
      destruct (Otxt m4 i3 (length m) g e j F4 T4 Sg4 Ne Etxt) as (m5 & X1 & F5 & (vt & Ht & Hvt) & T5).
      assert (Hdisp : exists ret' u6 m6, match CapDefs.ex_idx cmd with
                | Some (k0, _) => ext X_indirect [VPtr G_excmds (Z.of_nat (3 * k0 + 2)); VPtr bl 0; VPtr bc 0; VPtr ba 0; vt] m5 = Ok (VInt ret', m6) /\ u6 = VInt ret'
                | None => ext X_ex_show [VPtr G_msg_unknown 0] m5 = Ok (u6, m6) /\ ret' = ret end /\ freeable m6 (length m)).
      { destruct (CapDefs.ex_idx cmd) as [[k0 ab]|] eqn:Eidx; cbn [idx_res] in Ridx.
        - destruct (Ocmd m5 k0 (length m) vt F5 T5 Ht ltac:(lia)) as (r & m6 & X2 & Hf). exists r, (VInt r), m6. split; [split; [exact X2|reflexivity]|exact Hf].
        - destruct (Oshow m5 (length m) F5 T5 (ex_intro _ vt (conj Ht Hvt))) as (u & m6 & X2 & Hf). exists ret, u, m6. split; [split; [exact X2|reflexivity]|exact Hf]. }
      destruct Hdisp as (ret1 & u6 & m6 & X2 & (vt' & u7 & m7 & Ht' & Hfree & F7)).
      destruct (IH j ret1 m7 ltac:(lia) A4' F7) as (n & tr & ret' & m' & Ln & Hrun).
      exists (S n), ((CapDefs.wstr w1, cmd, idx_res (CapDefs.ex_idx cmd), CapDefs.wstr w3) :: tr), ret', m'. split; [lia|].
      exact (runs_step ext bs s bl bc ba n tr i ret m Lb Cb Ab i1 w1 i2 w2 i3 w3 g j m5 vt u6 m6 vt' u7 m7 ret1 m'
               F ltac:(lia) HL HC HA E1 E2 E3 Hg Etxt X1 Ht Hvt X2 Ht' Hfree ret' Hrun).
  Qed.
End Total.

(* ex_exec on every NUL-free line shorter than EXLEN, for every well-behaved oracle: it returns, and what it fed the oracles is the
   record list of the model's parse loop *)
Theorem tr_ex_exec_total ext T m bs s d fuel : str_at m bs s -> nonul s -> Z.of_nat (length s) < EXLEN ->
  (length cglobals <= bs)%nat -> (2 * S (length s) <= fuel)%nat -> (S NCMDS < fuel)%nat ->
  oracle_ok ext bs s (length m) (S (length m)) (S (S (length m))) T ->
  frame_ok bs s (length m) (S (length m)) (S (S (length m))) (exec_mem m) ->
  exists n tr ret m', (n <= length s)%nat /\
    runs ext bs s (length m) (S (length m)) (S (S (length m))) n tr 0 0 (exec_mem m) ret m' /\
    callx ext cprog fuel (S (S d)) F_ex_exec [VPtr bs 0] m = Ok (VInt ret, m').
Proof.
  intros Hs Hn Hlen Hg Hf1 Hf2 Hok F.
  assert (Hbs : (bs < length m)%nat) by (apply nth_error_Some; unfold str_at in Hs; congruence).
  destruct (runs_total ext bs s (length m) (S (length m)) (S (S (length m))) Hn Hlen ltac:(lia) ltac:(lia) Hg T Hok (length s) 0%nat 0 (exec_mem m)
              ltac:(lia) ltac:(lia) F) as (n & tr & ret & m' & Ln & Hrun).
  exists n, tr, ret, m'. split; [exact Ln|]. split; [exact Hrun|].
  apply (tr_ex_exec ext m bs s d fuel n tr ret m' Hs Hn Hlen ltac:(lia) Hf1 Hf2 ltac:(lia) Hrun).
Qed.
Print Assumptions tr_ex_exec_total.

(* ------------------------------------------------------------------ the class is not empty: an oracle that answers ex_txt with the model's
   position (it reads the abbreviation back from memory), lets every command return 0 and leaves the memory alone *)
Definition back (m : mem) (g : nat) : bytes := map Z.to_N (str_of m g).
Definition ok_ext (s : bytes) (f : nat) (args : list val) (m : mem) : res (val * mem) :=
  if (f =? X_ex_txt)%nat then
    match args with
    | [VPtr b i; _; VPtr g _] =>
        match CapDefs.ex_txt_src s (Z.to_nat i) (CapDefs.ch0 (back m g)) (CapDefs.ch1 (back m g)) with
        | CapDefs.Ok j => Ok (VPtr b (Z.of_nat j), m)
        | _ => Err EShape
        end
    | _ => Err EShape
    end
  else if (f =? X_indirect)%nat then Ok (VInt 0, m)
  else if (f =? X_ex_show)%nat then Ok (VInt 0, m)
  else Err EShape.
Lemma back_ch m g e : str_at m g e -> bytes_lt256 e ->
  CapDefs.ch0 (back m g) = CapDefs.ch0 e /\ CapDefs.ch1 (back m g) = CapDefs.ch1 e.
Proof.
  intros H H256. unfold back, str_of. rewrite H. unfold CapDefs.ch0, CapDefs.ch1, nthb, cstr_block, zb.
  destruct e as [|a e]; [split; reflexivity|]. cbn [map app cells_to_nul nth].
  destruct a as [|pa]; [split; reflexivity|]. cbn [Z.of_N cells_to_nul map nth]. change (Z.to_N (Z.pos pa)) with (N.pos pa). cbn [N.eqb].
  split; [reflexivity|]. destruct e as [|b e]; [reflexivity|]. cbn [map app cells_to_nul nth].
  destruct b as [|pb]; [reflexivity|]. cbn [Z.of_N cells_to_nul map nth]. reflexivity.
Qed.
Theorem ok_ext_ok bs s bl bc ba : oracle_ok (ok_ext s) bs s bl bc ba (fun m bt => nth_error m bt = Some [VInt 0]).
Proof.
  constructor.
  - intros m i bt g e j F Ht Sg Ne E. exists m. unfold ok_ext. cbn [Nat.eqb]. rewrite Nat.eqb_refl. rewrite Nat2Z.id.
    pose proof (nonul_lt256 e Ne) as H256.
    destruct (back_ch m g e Sg H256) as [-> ->]. rewrite E. split; [reflexivity|]. split; [exact F|]. split; [|exact Ht]. exists (VInt 0). split; [exact Ht|left; reflexivity].
  - intros m k bt vt F Ht Hv Hk. rewrite Ht in Hv. injection Hv as <-. exists 0, m. split; [reflexivity|].
    exists (VInt 0), VUndef, m. split; [exact Ht|]. split; [reflexivity|exact F].
  - intros m bt F Ht _. exists (VInt 0), m. split; [reflexivity|]. exists (VInt 0), VUndef, m. split; [exact Ht|]. split; [reflexivity|exact F].
Qed.
Print Assumptions ok_ext_ok.
