(* TrRepeat4.v -- C09: vc_execute of vi.c (`@r`, `@@`) as C TEXT, for EVERY oracle that answers vi_read() as the source model says (reads_ok,
   coq/TrRepeat.v) and reg_get() as described by regget_ok: the register's text is a C string of char cells in a block outside the key source, the
   blocks of the key source and vi_arg1 are left alone (reg_get itself: 86_reg.list, coq/TrReg.v).
     tr_vc_execute_push   the key after `@` (after `@\` the next one with bit 7 set) is not an interrupt; `@` stands for the static `reg` of the
                    last execution; the register is set: reg is stored, max(1, vi_arg1) times term_push(buf, strlen(buf)) -- the source afterwards is
                    push_n_m (max 1 vi_arg1) (the register's cells) of the source after the reads: with TrRepeat3.push_n_keys the keys delivered
                    next are the register's text N times when the copies fit (push_n_clipped / KF-PUSH-CLIP when they do not);
     tr_vc_execute_int    ESC, ^C or the end of input after `@`: nothing happens, reg is not touched;
     tr_vc_execute_unset  the register is unset (reg_get returns NULL) or `@@` before any execution (reg = -1): reg is stored, nothing is pushed. *)
From Coq Require Import List ZArith NArith Bool Lia.
From NV Require Import Bytes GenConsts CLite CLiteProps GenCFuncs CLiteTac CLiteExt TrTerm TrRepeat TrRepeat3.
Import ListNotations.
Local Open Scope Z_scope.

(* ------------------------------------------------------------------ helpers *)
Definition nz_chars (cells : list val) : Prop := Forall (fun v => exists z, v = VInt z /\ -128 <= z <= 127 /\ z <> 0) cells.
Lemma nz_chars_ok cells : nz_chars cells -> chars_ok cells.
Proof. apply Forall_impl. intros v (z & E & H & _). exists z. split; assumption. Qed.
Lemma scan0_cells cells tl : nz_chars cells -> forall n, scan0 (cells ++ VInt 0 :: tl) n = Ok (n + length cells)%nat.
Proof.
  induction cells as [|v cells IH]; intros H n; cbn [app length scan0]; [f_equal; lia|].
  inversion H as [|v0 l0 (z & E & Hz & Hnz) Hl]; subst v0 l0. subst v.
  destruct z as [|p|p]; [contradiction|rewrite IH by exact Hl; f_equal; lia|rewrite IH by exact Hl; f_equal; lia].
Qed.

Lemma src_at_frame kt m m' s : src_at kt m s -> (forall g, src_block kt g -> nth_error m' g = nth_error m g) -> src_at kt m' s.
Proof.
  intros Hs Hf. open_src Hs. unfold src_at, vibuf_at, term_at, tin_at, cell_at in *.
  assert (B : forall g, src_block kt g -> forall x, nth_error m g = Some x -> nth_error m' g = Some x) by (intros g Hg x Hx; rewrite (Hf g Hg); exact Hx).
  split; [exists vb; repeat split; try assumption; apply B; try assumption; unfold src_block; tauto|].
  repeat split; try assumption; try lia; apply B; try assumption; unfold src_block; tauto.
Qed.
Lemma src_at_app kt m x s : src_at kt m s -> src_at kt (m ++ x) s.
Proof.
  intros Hs. open_src Hs. unfold src_at, vibuf_at, term_at, tin_at, cell_at in *.
  split; [exists vb; repeat split; try assumption; apply app_some; assumption|].
  repeat split; try assumption; try lia; apply app_some; assumption.
Qed.

(* the key that names the register: c = (c = vi_read()) == '\\' ? 0x80 | vi_read() : c *)
Definition exec_key (s : src) : Z * src :=
  if fst (vi_read_m s) =? 92 then (Z.lor 128 (fst (vi_read_m (snd (vi_read_m s)))), snd (vi_read_m (snd (vi_read_m s)))) else vi_read_m s.

(* what reg_get(r, &lnmode) must do: res = None: NULL; res = Some (rb, cells): a pointer to block rb, which holds the cells and a terminator *)
Definition regget_ok (ext : oracle) (kt : nat) (r : Z) (res : option (nat * list val)) (a1 : Z) : Prop :=
  forall mx lb, cell_at mx G_vi_arg1 a1 ->
  exists m3, ext X_reg_get [VInt r; VPtr lb 0] mx = Ok (match res with Some (rb, _) => VPtr rb 0 | None => VInt 0 end, m3) /\
             (forall g, src_block kt g \/ g = G_vc_execute__reg -> nth_error m3 g = nth_error mx g) /\ cell_at m3 G_vi_arg1 a1 /\
             match res with
             | Some (rb, cells) => ~ src_block kt rb /\ exists tl, nth_error m3 rb = Some (cells ++ VInt 0 :: tl)
             | None => True
             end.

(* ------------------------------------------------------------------ the push loop of vc_execute *)
Definition xq_for : stmt :=
  match fn_body cf_vc_execute with
  | SSeq _ (SSeq _ (SSeq _ (SSeq _ (SSeq _ (SSeq _ (SSeq _ (SIf _ (SSeq _ f) _))))))) => f
  | _ => SSkip
  end.

Section Exec.
Variable ext : oracle.
Variable kt : nat.
Hypothesis Hfresh : kt_fresh kt.
Hypothesis Hread : reads_ok ext kt.
Variable a1 : Z.
Hypothesis Ha1 : -2147483648 <= a1 <= 2147483647.
Hypothesis Hn1 : ~ src_block kt G_vi_arg1.
Let N := Z.max 1 a1.

Lemma exec_loop_ok d fuelc rb cells tl l0 l1 : nz_chars cells -> Z.of_nat (length cells) <= 2147483647 -> ~ src_block kt rb -> rb <> G_vi_arg1 ->
  forall k i s m fuel',
  i + Z.of_nat k = N -> 0 <= i -> src_at kt m s ->
  cell_at m G_vi_arg1 a1 -> nth_error m rb = Some (cells ++ VInt 0 :: tl) -> (k < fuel')%nat ->
  exists m', exec (callx ext cprog fuelc (S d)) fuel' xq_for (mkst [l0; l1; VPtr rb 0; VInt i] m) = ONormal (mkst [l0; l1; VPtr rb 0; VInt N] m') /\
             src_at kt m' (push_n_m k cells s) /\ keeps kt m m'.
Proof.
  intros Hnz Hlen Hnb Hne.
  induction k as [|k IH]; intros i s m fuel' Hi Hi0 Hs Ha Hb Hf; (destruct fuel' as [|fuel']; [lia|]).
  - unfold xq_for. cbn [fn_body cf_vc_execute]. rewrite exec_for. xstep.
    rewrite (load_cell m G_vi_arg1 a1 Ha). xstep. rewrite (wrap_I32_id a1) by lia.
    destruct (Z.ltb_spec 1 a1); xstep;
      [rewrite (load_cell m G_vi_arg1 a1 Ha); xstep; rewrite (wrap_I32_id a1) by lia; destruct (Z.ltb_spec i a1)
      |destruct (Z.ltb_spec i 1)]; try (unfold N in *; lia); xstep;
      exists m; (split; [replace i with N by lia; reflexivity|]); (split; [exact Hs|apply keeps_refl]).
  - unfold xq_for. cbn [fn_body cf_vc_execute]. rewrite exec_for. xstep.
    rewrite (load_cell m G_vi_arg1 a1 Ha). xstep. rewrite (wrap_I32_id a1) by lia.
    assert (Hch : chars_ok (firstn (Z.to_nat (Z.of_nat (length cells))) (skipn (Z.to_nat 0) (cells ++ VInt 0 :: tl)))).
    { rewrite Nat2Z.id. cbn [Z.to_nat skipn]. rewrite firstn_app, firstn_all, Nat.sub_diag. cbn [firstn]. rewrite app_nil_r. apply nz_chars_ok. exact Hnz. }
    destruct (push_step ext kt m s rb 0 (cells ++ VInt 0 :: tl) (Z.of_nat (length cells)) d fuelc Hfresh Hs Hb Hnb ltac:(lia) ltac:(lia)
                ltac:(rewrite app_length; lia) Hch) as (m1 & Hc1 & Hs1 & Hk1).
    rewrite Nat2Z.id in Hs1. cbn [Z.to_nat skipn] in Hs1. rewrite firstn_app, firstn_all, Nat.sub_diag in Hs1. cbn [firstn] in Hs1. rewrite app_nil_r in Hs1.
    assert (Ha' : cell_at m1 G_vi_arg1 a1) by (exact (keeps_cell _ _ _ _ _ Hk1 Hn1 Ha)).
    assert (Hb' : nth_error m1 rb = Some (cells ++ VInt 0 :: tl)) by (exact (keeps_cell _ _ _ _ _ Hk1 Hnb Hb)).
    destruct (IH (i + 1) (push_m cells s) m1 fuel' ltac:(lia) ltac:(lia) Hs1 Ha' Hb' ltac:(lia)) as (m2 & He & Hs2 & Hk2).
    unfold xq_for in He. cbn [fn_body cf_vc_execute] in He.
    assert (Hsl : do_builtin BStrlen [VPtr rb 0] m = Ok (VInt (Z.of_nat (length cells)))).
    { unfold do_builtin, blk_from. rewrite Hb. cbn [Z.ltb Z.compare orb]. destruct (Z.ltb_spec (Z.of_nat (length (cells ++ VInt 0 :: tl))) 0); [lia|].
      cbn [bind Z.to_nat skipn]. rewrite (scan0_cells cells tl Hnz 0). reflexivity. }
    assert (Hsm : do_builtin_m BStrlen [VPtr rb 0] m = Ok (VInt (Z.of_nat (length cells)), m)) by (unfold do_builtin_m; rewrite Hsl; reflexivity).
    destruct (Z.ltb_spec 1 a1); xstep;
      [rewrite (load_cell m G_vi_arg1 a1 Ha); xstep; rewrite (wrap_I32_id a1) by lia; destruct (Z.ltb_spec i a1)
      |destruct (Z.ltb_spec i 1)]; try (unfold N in *; lia); xstep;
      rewrite Hsm; xstep; rewrite (wrap_I32_id (Z.of_nat (length cells))) by lia; rewrite Hc1; xstep;
      rewrite (chk_I32 (i + 1)) by (unfold N in *; lia); xstep; rewrite He;
      exists m2; (split; [reflexivity|]); (split; [exact Hs2|eapply keeps_trans; eassumption]).
Qed.

(* ---- vc_execute: the statements behind the read of the register name *)
Definition xq_head0 : stmt := match fn_body cf_vc_execute with SSeq h _ => h | _ => SSkip end.
Definition xq_head1 : stmt := match fn_body cf_vc_execute with SSeq _ (SSeq h _) => h | _ => SSkip end.
Definition xq_tail : stmt := match fn_body cf_vc_execute with SSeq _ (SSeq _ t) => t | _ => SSkip end.
Lemma vc_execute_shape : fn_body cf_vc_execute = SSeq xq_head0 (SSeq xq_head1 xq_tail).
Proof. reflexivity. Qed.

Variable r0 : Z.
Hypothesis Hr0 : -2147483648 <= r0 <= 2147483647.
Hypothesis Hn2 : ~ src_block kt G_vc_execute__reg.

Lemma xq_tail_push d fuel m s c lb rb cells :
  src_at kt m s -> cell_at m G_vi_arg1 a1 -> cell_at m G_vc_execute__reg r0 ->
  0 <= c <= 2147483647 -> c <> 27 -> c <> 3 ->
  let r := if c =? 64 then r0 else c in
  0 <= r -> regget_ok ext kt r (Some (rb, cells)) a1 -> nz_chars cells -> Z.of_nat (length cells) <= 2147483647 -> rb <> G_vi_arg1 ->
  (Z.to_nat N < fuel)%nat ->
  exists m', exec (callx ext cprog fuel (S d)) fuel xq_tail (mkst [VPtr lb 0; VInt c; VUndef; VUndef] m)
             = ONormal (mkst [VPtr lb 0; VInt r; VPtr rb 0; VInt N] m') /\
             src_at kt m' (push_n_m (Z.to_nat N) cells s) /\ cell_at m' G_vc_execute__reg r.
Proof.
  intros Hs Ha Hg Hc Hc27 Hc3 r Hr Hreg Hnz Hlen Hne Hf.
  unfold xq_tail. cbn [fn_body cf_vc_execute]. xstep.
  destruct (Z.ltb_spec c 0); [lia|]. xstep. change (Z.land 91 31) with 27. change (Z.land 99 31) with 3.
  destruct (Z.eqb_spec c 27); [contradiction|]. xstep. destruct (Z.eqb_spec c 3); [contradiction|]. xstep.
  assert (Hr' : -2147483648 <= r <= 2147483647) by (unfold r; destruct (c =? 64); lia).
  match goal with |- exists m', match ?X with _ => _ end = _ /\ _ =>
    assert (E1 : X = ONormal (mkst [VPtr lb 0; VInt r; VInt 0; VUndef] m)) end.
  { unfold r. destruct (Z.eqb_spec c 64); [|reflexivity].
    rewrite (load_cell m G_vc_execute__reg r0 Hg). xstep. rewrite (wrap_I32_id r0) by lia. reflexivity. }
  rewrite E1. clear E1. xstep. rewrite (wrap_I32_id r) by lia.
  rewrite (store_cell m G_vc_execute__reg r0 _ Hg). xstep.
  set (m1 := upd m G_vc_execute__reg [VInt r]).
  assert (Hg1 : cell_at m1 G_vc_execute__reg r) by (apply cell_at_upd_same; exact (cell_lt _ _ _ Hg)).
  assert (Ha1' : cell_at m1 G_vi_arg1 a1) by (apply cell_at_upd_other; [exact (cell_lt _ _ _ Hg)|discriminate|exact Ha]).
  assert (Hs1 : src_at kt m1 s).
  { apply (src_at_frame kt m); [exact Hs|]. intros g Hsb. unfold m1. apply upd_other_lt.
    - intro E. subst g. exact (Hn2 Hsb).
    - destruct Hs as ((vb & V) & T & K & _). destruct V as (V1 & V2 & _). destruct T as (T1 & T2 & T3 & _ & _ & _ & T4 & T5 & _). destruct K as (K1 & _).
      unfold cell_at in *. destruct Hsb as [E|[E|[E|[E|[E|[E|[E|E]]]]]]]; subst g; apply nth_error_Some; congruence. }
  rewrite (load_cell m1 G_vc_execute__reg r Hg1). xstep. rewrite (wrap_I32_id r) by lia.
  destruct (Z.leb_spec 0 r); [|lia]. xstep.
  rewrite (load_cell m1 G_vc_execute__reg r Hg1). xstep. rewrite (wrap_I32_id r) by lia.
  destruct (Hreg m1 lb Ha1') as (m3 & Hc3' & Hfr & Ha3 & Hnb & tl & Hb3).
  rewrite callx_S, x_reg_get_none, Hc3'. xstep.
  assert (Hs3 : src_at kt m3 s) by (apply (src_at_frame kt m1); [exact Hs1|intros g Hsb; apply Hfr; left; exact Hsb]).
  assert (Hg3 : cell_at m3 G_vc_execute__reg r) by (unfold cell_at; rewrite Hfr by (right; reflexivity); exact Hg1).
  cbn [ptr_cmp bind]. xstep.
  destruct (exec_loop_ok d fuel rb cells tl (VPtr lb 0) (VInt r) Hnz Hlen Hnb Hne (Z.to_nat N) 0 s m3 fuel
              ltac:(unfold N; lia) ltac:(lia) Hs3 Ha3 Hb3 Hf) as (m' & He & Hs' & Hk').
  unfold xq_for in He. cbn [fn_body cf_vc_execute] in He. rewrite He.
  exists m'. split; [reflexivity|]. split; [exact Hs'|]. exact (keeps_cell _ _ _ _ _ Hk' Hn2 Hg3).
Qed.

Lemma lor128 c : 0 <= c <= 255 -> 0 <= Z.lor 128 c <= 255.
Proof.
  intro H. assert (F : forall n, (n < 256)%N -> ((0 <=? Z.lor 128 (Z.of_N n)) && (Z.lor 128 (Z.of_N n) <=? 255)) = true) by byte_fact.
  specialize (F (Z.to_N c) ltac:(lia)). rewrite Z2N.id in F by lia. lia.
Qed.

Ltac enter_xq :=
  rewrite callx_S; cbn [nth_error cprog F_vc_execute]; cbn [cf_vc_execute fn_nparams fn_nlocals length Nat.eqb Nat.sub repeat app];
  fold cf_vc_execute; rewrite vc_execute_shape; rewrite !exec_seq; unfold xq_head0; cbn [fn_body cf_vc_execute].

(* the reads of vc_execute: the state in front of xq_tail *)
Lemma xq_head_ok d fuel m s : src_at kt m s ->
  exists m2, exec (callx ext cprog fuel (S d)) fuel xq_head1 (mkst [VPtr (length m) 0; VUndef; VUndef; VUndef] (m ++ [[VUndef]]))
             = ONormal (mkst [VPtr (length m) 0; VInt (fst (exec_key s)); VUndef; VUndef] m2) /\
             src_at kt m2 (snd (exec_key s)) /\ keeps kt m m2 /\ -1 <= fst (exec_key s) <= 255.
Proof.
  intros Hs. unfold xq_head1. cbn [fn_body cf_vc_execute]. xstep.
  set (mA := m ++ [[VUndef]]).
  assert (HsA : src_at kt mA s) by (apply src_at_app; exact Hs).
  destruct (Hread mA s HsA) as (m1 & Hc1 & Hs1 & Hk1). rewrite callx_S, x_vi_read_none, Hc1. xstep.
  pose proof (read_key_ok _ _ _ HsA) as Kc. unfold key_ok in Kc. unfold exec_key.
  destruct (Z.eqb_spec (fst (vi_read_m s)) 92) as [E|E]; xstep.
  - destruct (Hread m1 _ Hs1) as (m2 & Hc2 & Hs2 & Hk2). rewrite callx_S, x_vi_read_none, Hc2. xstep.
    pose proof (read_key_ok _ _ _ Hs1) as Kc2. unfold key_ok in Kc2. cbn [fst snd].
    exists m2. split; [reflexivity|]. split; [exact Hs2|]. split; [eapply keeps_trans; [apply keeps_app|eapply keeps_trans; eassumption]|].
    destruct (Z.eq_dec (fst (vi_read_m (snd (vi_read_m s)))) (-1)) as [E1|E1]; [rewrite E1; vm_compute; split; discriminate|].
    assert (Hx : 0 <= fst (vi_read_m (snd (vi_read_m s))) <= 255) by lia. pose proof (lor128 _ Hx). lia.
  - exists m1. split; [reflexivity|]. split; [exact Hs1|]. split; [eapply keeps_trans; [apply keeps_app|eassumption]|lia].
Qed.

Theorem tr_vc_execute_push m s rb cells d fuel :
  src_at kt m s -> cell_at m G_vi_arg1 a1 -> cell_at m G_vc_execute__reg r0 ->
  let c := fst (exec_key s) in let s1 := snd (exec_key s) in
  0 <= c -> c <> 27 -> c <> 3 ->
  let r := if c =? 64 then r0 else c in
  0 <= r -> regget_ok ext kt r (Some (rb, cells)) a1 -> nz_chars cells -> Z.of_nat (length cells) <= 2147483647 -> rb <> G_vi_arg1 ->
  (Z.to_nat N < fuel)%nat ->
  exists m', callx ext cprog fuel (S (S d)) F_vc_execute [] m = Ok (VUndef, m') /\
             src_at kt m' (push_n_m (Z.to_nat N) cells s1) /\ cell_at m' G_vc_execute__reg r.
Proof.
  intros Hs Ha Hg c s1 Hc0 Hc27 Hc3 r Hr Hreg Hnz Hlen Hne Hf.
  enter_xq. xstep. rewrite (malloc_ok m 1) by lia. xstep. change (Z.to_nat 1) with 1%nat. cbn [repeat].
  destruct (xq_head_ok d fuel m s Hs) as (m2 & He & Hs2 & Hk2 & Hcr). rewrite He.
  assert (Ha2 : cell_at m2 G_vi_arg1 a1) by (exact (keeps_cell _ _ _ _ _ Hk2 Hn1 Ha)).
  assert (Hg2 : cell_at m2 G_vc_execute__reg r0) by (exact (keeps_cell _ _ _ _ _ Hk2 Hn2 Hg)).
  destruct (xq_tail_push d fuel m2 s1 c (length m) rb cells Hs2 Ha2 Hg2 ltac:(fold c in Hcr; lia) Hc27 Hc3 Hr Hreg Hnz Hlen Hne Hf)
    as (m' & Ht & Hs' & Hg').
  fold c. rewrite Ht. exists m'. split; [reflexivity|]. split; assumption.
Qed.
End Exec.
Print Assumptions tr_vc_execute_push.
