(* SubstEngineDefs.v -- C14 composed with the regex model: the matcher of ec_substitute over the MODEL of
   rstr_make / rstr_find (definitions only; the theorems are in ComposeSubst.v and SubstNotbol.v).
     re = rstr_make(pat, xic ? RE_ICASE : 0);
     rstr_find(re, ln, LEN(offs) / 2, offs, r ? RE_NOTBOL : 0) >= 0
   d = the recursion limit of re_rec (regex.c: NDEPT; ReVM.depth) -- the theorems hold for every d.
   A pattern that rstr_make refuses (NULL) makes ec_substitute return before the loop: no match.
   The model-only outcomes OOB / NoFuel of the engine (excluded for NUL-free lines by C11_regexec_total)
   read as "no match" here.  No proofs in this file (it is extracted: Extract_subst.v). *)
From Coq Require Import List NArith ZArith Bool.
From NV Require Import Bytes GenConsts ReSyntax ReParse ReEmit ReVM RsetDefs.
From NV Require RstrDefs.
From NV Require Import SubstDefs.
Import ListNotations.
Local Open Scope N_scope.

Definition icflag (ic : bool) : Z := if ic then RE_ICASE else 0%Z.
Definition nbflag (nb : bool) : Z := if nb then RE_NOTBOL else 0%Z.
Definition ngrps : nat := 16.                     (* LEN(offs) / 2 with int offs[32] *)

(* the rs->rs leg of rstr_find: rset_find(rs->rs, s, n, grps, flg) on the set of one pattern.  rstr_find hands
   flg over untouched: the lbeg shortcut of the literal leg is never consulted for a compiled pattern *)
Definition general_find (d : nat) (ic : bool) (pat : bytes) (ln : bytes) (nb : bool) : option (list grp) :=
  match rset_make [Some pat] (icflag ic) with
  | Ok (Some rs) =>
    match rset_find_d d rs ln ngrps (nbflag nb) with
    | (Ok (idx, g), _) => if (0 <=? idx)%Z then Some g else None
    | _ => None
    end
  | _ => None
  end.

Definition engine_find (d : nat) (ic : bool) (pat : bytes) (ln : bytes) (nb : bool) : option (list grp) :=
  match RstrDefs.rstr_make pat ic with
  | RstrDefs.Simple r =>
    match RstrDefs.rstr_find r ln nb false with
    | RstrDefs.Found so eo => Some (RstrDefs.rstr_groups ngrps so eo)
    | _ => None
    end
  | RstrDefs.General => general_find d ic pat ln nb
  end.

(* ---------------------------------------------------------------------------------------------- *)
(* for the correspondence run (probe_rstr tb): which path rstr_make takes -- 's' literal, 'g' compiled, 'x' refused --,
   the answers of the modelled matcher on every suffix of a line with and without RE_NOTBOL, and the number of
   depth cuts met on the way (answers are compared only when it is 0) *)
Definition engine_path (ic : bool) (pat : bytes) : N :=
  match RstrDefs.rstr_make pat ic with
  | RstrDefs.Simple _ => 115
  | RstrDefs.General => match rset_make [Some pat] (icflag ic) with Ok (Some _) => 103 | _ => 120 end
  end.

Definition engine_cuts (d : nat) (ic : bool) (pat : bytes) (ln : bytes) (nb : bool) : N :=
  match RstrDefs.rstr_make pat ic with
  | RstrDefs.Simple _ => 0
  | RstrDefs.General =>
    match rset_make [Some pat] (icflag ic) with
    | Ok (Some rs) => snd (rset_find_d d rs ln ngrps (nbflag nb))
    | _ => 0
    end
  end.

Fixpoint suffixes (k : nat) (ln : bytes) : list (nat * bytes) :=
  match ln with
  | [] => []
  | _ :: r => (k, ln) :: suffixes (S k) r
  end.

(* (byte offset k of the suffix, notbol, answer) for every suffix and flag on which something is found *)
Definition engine_table (d : nat) (ic : bool) (pat : bytes) (line : bytes) : list (nat * bool * list grp) * N :=
  fold_right (fun (e : nat * bytes) (acc : list (nat * bool * list grp) * N) =>
      let '(k, ln) := e in
      let add (nb : bool) (a : list (nat * bool * list grp) * N) :=
        (match engine_find d ic pat ln nb with Some g => (k, nb, g) :: fst a | None => fst a end,
         engine_cuts d ic pat ln nb + snd a) in
      add false (add true acc))
    ([], 0) (suffixes 0 line).

(* ---------------------------------------------------------------------------------------------- *)
(* vocabulary of the RE_NOTBOL theorems (SubstNotbol.v).  The flags of one search, re->flg | regexec's flags, as rset_find
   composes them from what rstr_find hands over (nb ? RE_NOTBOL : 0): *)
Definition search_flags (rs : rset) (nb : bool) : Z :=
  Z.lor (rs_cflg rs) (Z.lor REG_NEWLINE (Z.lor (if has (nbflag nb) RE_NOTBOL then REG_NOTBOL else 0%Z)
                                               (if has (nbflag nb) RE_NOTEOL then REG_NOTEOL else 0%Z))).
(* regexec's attempt at the first byte of the searched text, made WITHOUT the flag *)
Definition first_attempt (d : nat) (rs : rset) (ln : bytes) : out st * N :=
  re_recmatch d (code (rs_prog rs)) (search_flags rs false) ln 0.
(* "no match of the pattern at the first byte of the searched text needs ^ to hold there": the attempt there fails even
   though ^ may match, or the match it reports is reached by a choice path that is also a path of the semantics under
   RE_NOTBOL (no ^ atom is passed at offset 0 -- e.g. the match comes from an unanchored alternative) *)
Definition start_indifferent (d : nat) (rs : rset) (ln : bytes) : Prop :=
  (exists c, first_attempt d rs ln = (Fail, c)) \/
  (exists cs r c, first_attempt d rs ln = (Found cs r, c) /\
     path st (atom_step (search_flags rs true) ln) mark_step (code (rs_prog rs)) 0 (0%nat, repeat (-1)%Z nmarks) cs r).
