(* TrRstr.v -- the hand-written model of the literal fast path (RstrDefs.v: isword, tolower, match_case,
   wbeg_skip, wend_skip, find_at, scan, rstr_find, rstr_groups) is what the C text of /repo/rstr.c says:
   running the CLite terms that tools/c2clite.py generated from rstr.c (GenCFuncs.v: cf_rstr_isword,
   cf_match_case, cf_rstr_find) gives, for ALL inputs, the value of the model and the memory the model
   predicts -- and no checked load or store leaves its block, no signed operation overflows, no fuel
   runs out, the untranslated rset_find is not reached (rs->rs == NULL). *)
From Coq Require Import List ZArith NArith Bool Lia.
From NV Require Import Bytes GenConsts RstrDefs CLite CLiteProps GenCFuncs TrUc.
Import ListNotations.
Local Open Scope Z_scope.

(* ------------------------------------------------------------------ isword *)
Theorem tr_rstr_isword m b s o d fuel : str_at m b s -> bytes_lt256 s -> (o <= length s)%nat ->
  callf cprog fuel (S d) F_rstr_isword [VPtr b (Z.of_nat o)] m = Ok (VInt (b2z (isword (nthb s o))), m).
Proof.
  intros Hs H256 Ho. enter F_rstr_isword cf_rstr_isword. xstep.
  replace (Z.of_nat o + 1 * 0) with (Z.of_nat o) by lia. xload Hs H256 o.
  pose proof (nthb_lt256 s o H256) as Hc. generalize dependent (nthb s o). intros c Hc.
  sweep_byte c Hc.
Qed.

(* ------------------------------------------------------------------ match_case *)
Lemma sx_inj_eqb : forall a b, (a < 256)%N -> (b < 256)%N ->
  (wrap I32 (wrap I8 (Z.of_N a)) =? wrap I32 (wrap I8 (Z.of_N b))) = (a =? b)%N.
Proof.
  assert (L : forall c, (c < 256)%N -> wrap U8 (wrap I32 (wrap I8 (Z.of_N c))) = Z.of_N c) by byte_fact.
  intros a b Ha Hb. destruct (N.eqb_spec a b) as [->|Hne]; [apply Z.eqb_refl|].
  apply Z.eqb_neq. intro E. apply Hne. apply N2Z.inj. rewrite <- (L a Ha), <- (L b Hb), E. reflexivity.
Qed.
Lemma ct_tolower_N : forall c, (c < 256)%N ->
  (if ct_isupper (Z.of_N c) then Z.of_N c + 32 else Z.of_N c) = Z.of_N (tolower c).
Proof. byte_fact. Qed.
Lemma ct_arg_byte c : (c < 256)%N -> ct_arg (Z.of_N c) = Ok (Z.of_N c).
Proof. intro H. unfold ct_arg. destruct (Z.leb_spec (-1) (Z.of_N c)); [|lia]. destruct (Z.leb_spec (Z.of_N c) 255); [|lia]. reflexivity. Qed.
Lemma bi_tolower m c : (c < 256)%N -> do_builtin_m BTolower [VInt (Z.of_N c)] m = Ok (VInt (Z.of_N (tolower c)), m).
Proof. intro H. cbn [do_builtin_m do_builtin]. rewrite (ct_arg_byte c H). cbn [bind]. rewrite (ct_tolower_N c H). reflexivity. Qed.
Lemma of_N_eqb a b : (Z.of_N a =? Z.of_N b) = (a =? b)%N.
Proof. destruct (N.eqb_spec a b) as [->|H]; [apply Z.eqb_refl|]. apply Z.eqb_neq. lia. Qed.

Definition mc_loop : stmt := match fn_body cf_match_case with SSeq w _ => w | _ => SSkip end.
Definition mc_ret : stmt := match fn_body cf_match_case with SSeq _ r => r | _ => SSkip end.

Lemma mc_tail_ok call m sb S bs R ic fuel2 : str_at m sb S -> str_at m bs R -> nonul S -> nonul R ->
  forall k p q fuel, (length R - q <= k)%nat -> (p <= length S)%nat -> (q <= length R)%nat -> (k < fuel)%nat ->
  exists v st',
  match exec call fuel mc_loop (mkst [VPtr sb (Z.of_nat p); VPtr bs (Z.of_nat q); VInt ic] m) with
  | ONormal st1 => exec call fuel2 mc_ret st1
  | o => o
  end = OReturn (VInt v) st' /\ memm st' = m /\
  (v =? 0) = match_case (skipn p S) (skipn q R) (negb (ic =? 0)).
Proof.
  intros HS HR HnS HnR. pose proof (nonul_lt256 S HnS) as S256. pose proof (nonul_lt256 R HnR) as R256.
  induction k as [|k IH]; intros p q fuel Hk Hp Hq Hf; (destruct fuel as [|fuel]; [lia|]);
    unfold mc_loop, mc_ret; cbn [fn_body cf_match_case]; rewrite exec_for; xstep.
  - assert (q = length R) as -> by lia. xload HR R256 (length R). rewrite nthb_end by lia.
    change (wrap I32 (wrap I8 (Z.of_N 0)) =? 0) with true. xstep.
    xload HR R256 (length R). rewrite nthb_end by lia. rewrite (skipn_end R) by lia.
    eexists; eexists; split; [reflexivity|]. split; [reflexivity|]. destruct (skipn p S); reflexivity.
  - xload HR R256 q. rewrite (cc_z0i _ (nthb_lt256 R q R256)).
    destruct (Nat.eq_dec q (length R)) as [->|Hq'].
    { rewrite nthb_end by lia. cbn [N.eqb negb]. xstep.
      xload HR R256 (length R). rewrite nthb_end by lia. rewrite (skipn_end R) by lia.
      eexists; eexists; split; [reflexivity|]. split; [reflexivity|]. destruct (skipn p S); reflexivity. }
    rewrite nonul_nthb_nz by (auto; lia). cbn [negb]. xstep.
    xload HS S256 p. rewrite (cc_z0i _ (nthb_lt256 S p S256)).
    rewrite (skipn_cons_nthb R q) by lia.
    destruct (Nat.eq_dec p (length S)) as [->|Hp'].
    { rewrite nthb_end by lia. cbn [N.eqb negb b2z]. xstep.
      xload HR R256 q. rewrite (skipn_end S) by lia. cbn [match_case].
      eexists; eexists; split; [reflexivity|]. split; [reflexivity|].
      rewrite (cc_z0i _ (nthb_lt256 R q R256)). apply nonul_nthb_nz; [assumption|lia]. }
    rewrite nonul_nthb_nz by (auto; lia). cbn [negb b2z]. xstep.
    rewrite (skipn_cons_nthb S p) by lia. cbn [match_case].
    pose proof (nthb_lt256 S p S256) as Ha. pose proof (nthb_lt256 R q R256) as Hb.
    destruct (Z.eqb_spec ic 0) as [Eic|Eic]; cbn [negb]; xstep.
    + (* !icase: *s != *r *)
      xload HS S256 p. xload HR R256 q. rewrite (sx_inj_eqb _ _ Ha Hb).
      destruct (nthb S p =? nthb R q)%N; cbn [negb b2z]; xstep.
      * subst ic. xstep.
        replace (Z.of_nat p + 1) with (Z.of_nat (Datatypes.S p)) by lia.
        replace (Z.of_nat q + 1) with (Z.of_nat (Datatypes.S q)) by lia.
        change (SFor _ _ _) with mc_loop.
        change (SReturn (Some (ECast I32 (ELoad (Some I8) (ELocal 1))))) with mc_ret.
        apply IH; lia.
      * eexists; eexists; split; [reflexivity|]. split; reflexivity.
    + apply Z.eqb_neq in Eic. rewrite Eic. cbn [negb]. xstep. rewrite ?Eic. cbn [negb]. xstep.
      xload HS S256 p. rewrite (bi_tolower _ _ Ha). xstep.
      xload HR R256 q. rewrite (bi_tolower _ _ Hb). xstep. rewrite of_N_eqb.
      destruct (tolower (nthb S p) =? tolower (nthb R q))%N; cbn [negb b2z]; xstep.
      * replace (Z.of_nat p + 1) with (Z.of_nat (Datatypes.S p)) by lia.
        replace (Z.of_nat q + 1) with (Z.of_nat (Datatypes.S q)) by lia.
        change (SFor _ _ _) with mc_loop.
        change (SReturn (Some (ECast I32 (ELoad (Some I8) (ELocal 1))))) with mc_ret.
        apply IH; lia.
      * eexists; eexists; split; [reflexivity|]. split; reflexivity.
Qed.

(* the C function returns *r (a char, promoted to int) or 1: it is 0 exactly when the model says true *)
Theorem tr_match_case m sb S bs R p q ic d fuel : str_at m sb S -> str_at m bs R -> nonul S -> nonul R ->
  (p <= length S)%nat -> (q <= length R)%nat -> (length R < fuel)%nat ->
  exists v, callf cprog fuel (Datatypes.S d) F_match_case [VPtr sb (Z.of_nat p); VPtr bs (Z.of_nat q); VInt ic] m = Ok (VInt v, m) /\
            (v =? 0) = match_case (skipn p S) (skipn q R) (negb (ic =? 0)).
Proof.
  intros HS HR HnS HnR Hp Hq Hf. enter F_match_case cf_match_case.
  destruct (mc_tail_ok (callf cprog fuel d) m sb S bs R ic fuel HS HR HnS HnR (length R) p q fuel) as [v [st' [E1 [E2 E3]]]]; try lia.
  unfold mc_loop, mc_ret in E1; cbn [fn_body cf_match_case] in E1. rewrite exec_seq, E1, E2. exists v. split; [reflexivity|exact E3].
Qed.
