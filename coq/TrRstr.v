(* TrRstr.v -- the hand-written model of the literal fast path (RstrDefs.v: isword, tolower, match_case,
   wbeg_skip, wend_skip, find_at, scan, rstr_find, rstr_groups) is what the C text of /repo/rstr.c says:
   running the CLite terms that tools/c2clite.py generated from rstr.c (GenCFuncs.v: cf_rstr_isword,
   cf_match_case, cf_rstr_find) gives, for ALL inputs, the value of the model and the memory the model
   predicts -- and no checked load or store leaves its block, no signed operation overflows, no fuel
   runs out, the untranslated rset_find is not reached (rs->rs == NULL). *)
From Coq Require Import List ZArith NArith Bool Lia.
From NV Require Import Bytes GenConsts RstrDefs RstrProps CLite CLiteProps GenCFuncs CLiteTac.
Import ListNotations.
Local Open Scope Z_scope.

(* two byte facts (also in TrUc.v, which this file does not import: rstr.c calls nothing of uc.c) *)
Lemma cc_z0i : forall c, (c < 256)%N -> (wrap I32 (wrap I8 (Z.of_N c)) =? 0) = (c =? 0)%N.
Proof. byte_fact. Qed.
Lemma nonul_nthb_nz s p : nonul s -> (p < length s)%nat -> (nthb s p =? 0)%N = false.
Proof.
  intros H Hp. unfold nonul in H. rewrite Forall_forall in H.
  assert (byte_ok (nthb s p)) as [Hb _] by (apply H; unfold nthb; apply nth_In; exact Hp).
  apply N.eqb_neq. lia.
Qed.

(* ------------------------------------------------------------------ isword *)
Theorem tr_rstr_isword m b s o d fuel : str_at m b s -> bytes_lt256 s -> (o <= length s)%nat ->
  callf cprog fuel (S d) F_rstr_isword [VPtr b (Z.of_nat o)] m = Ok (VInt (b2z (isword (nthb s o))), m).
Proof.
  intros Hs H256 Ho. enter F_rstr_isword cf_rstr_isword. xstep.
  replace (Z.of_nat o + 1 * 0) with (Z.of_nat o) by lia. xload Hs H256 o.
  pose proof (nthb_lt256 s o H256) as Hc. generalize dependent (nthb s o). intros c Hc.
  sweep_byte c Hc.
Qed.

(* ------------------------------------------------------------------ match_case *)
Lemma sx_inj_eqb : forall a b, (a < 256)%N -> (b < 256)%N ->
  (wrap I32 (wrap I8 (Z.of_N a)) =? wrap I32 (wrap I8 (Z.of_N b))) = (a =? b)%N.
Proof.
  assert (L : forall c, (c < 256)%N -> wrap U8 (wrap I32 (wrap I8 (Z.of_N c))) = Z.of_N c) by byte_fact.
  intros a b Ha Hb. destruct (N.eqb_spec a b) as [->|Hne]; [apply Z.eqb_refl|].
  apply Z.eqb_neq. intro E. apply Hne. apply N2Z.inj. rewrite <- (L a Ha), <- (L b Hb), E. reflexivity.
Qed.
Lemma ct_tolower_N : forall c, (c < 256)%N ->
  (if ct_isupper (Z.of_N c) then Z.of_N c + 32 else Z.of_N c) = Z.of_N (tolower c).
Proof. byte_fact. Qed.
Lemma ct_arg_byte c : (c < 256)%N -> ct_arg (Z.of_N c) = Ok (Z.of_N c).
Proof. intro H. unfold ct_arg. destruct (Z.leb_spec (-1) (Z.of_N c)); [|lia]. destruct (Z.leb_spec (Z.of_N c) 255); [|lia]. reflexivity. Qed.
Lemma bi_tolower m c : (c < 256)%N -> do_builtin_m BTolower [VInt (Z.of_N c)] m = Ok (VInt (Z.of_N (tolower c)), m).
Proof. intro H. cbn [do_builtin_m do_builtin]. rewrite (ct_arg_byte c H). cbn [bind]. rewrite (ct_tolower_N c H). reflexivity. Qed.
Lemma of_N_eqb a b : (Z.of_N a =? Z.of_N b) = (a =? b)%N.
Proof. destruct (N.eqb_spec a b) as [->|H]; [apply Z.eqb_refl|]. apply Z.eqb_neq. lia. Qed.

Definition mc_loop : stmt := match fn_body cf_match_case with SSeq w _ => w | _ => SSkip end.
Definition mc_ret : stmt := match fn_body cf_match_case with SSeq _ r => r | _ => SSkip end.

Lemma mc_tail_ok call m sb S bs R ic fuel2 : str_at m sb S -> str_at m bs R -> nonul S -> nonul R ->
  forall k p q fuel, (length R - q <= k)%nat -> (p <= length S)%nat -> (q <= length R)%nat -> (k < fuel)%nat ->
  exists v st',
  match exec call fuel mc_loop (mkst [VPtr sb (Z.of_nat p); VPtr bs (Z.of_nat q); VInt ic] m) with
  | ONormal st1 => exec call fuel2 mc_ret st1
  | o => o
  end = OReturn (VInt v) st' /\ memm st' = m /\
  (v =? 0) = match_case (skipn p S) (skipn q R) (negb (ic =? 0)).
Proof.
  intros HS HR HnS HnR. pose proof (nonul_lt256 S HnS) as S256. pose proof (nonul_lt256 R HnR) as R256.
  induction k as [|k IH]; intros p q fuel Hk Hp Hq Hf; (destruct fuel as [|fuel]; [lia|]);
    unfold mc_loop, mc_ret; cbn [fn_body cf_match_case]; rewrite exec_for; xstep.
  - assert (q = length R) as -> by lia. xload HR R256 (length R). rewrite nthb_end by lia.
    change (wrap I32 (wrap I8 (Z.of_N 0)) =? 0) with true. xstep.
    xload HR R256 (length R). rewrite nthb_end by lia. rewrite (skipn_end R) by lia.
    eexists; eexists; split; [reflexivity|]. split; [reflexivity|]. destruct (skipn p S); reflexivity.
  - xload HR R256 q. rewrite (cc_z0i _ (nthb_lt256 R q R256)).
    destruct (Nat.eq_dec q (length R)) as [->|Hq'].
    { rewrite nthb_end by lia. cbn [N.eqb negb]. xstep.
      xload HR R256 (length R). rewrite nthb_end by lia. rewrite (skipn_end R) by lia.
      eexists; eexists; split; [reflexivity|]. split; [reflexivity|]. destruct (skipn p S); reflexivity. }
    rewrite nonul_nthb_nz by (auto; lia). cbn [negb]. xstep.
    xload HS S256 p. rewrite (cc_z0i _ (nthb_lt256 S p S256)).
    rewrite (skipn_cons_nthb R q) by lia.
    destruct (Nat.eq_dec p (length S)) as [->|Hp'].
    { rewrite nthb_end by lia. cbn [N.eqb negb b2z]. xstep.
      xload HR R256 q. rewrite (skipn_end S) by lia. cbn [match_case].
      eexists; eexists; split; [reflexivity|]. split; [reflexivity|].
      rewrite (cc_z0i _ (nthb_lt256 R q R256)). apply nonul_nthb_nz; [assumption|lia]. }
    rewrite nonul_nthb_nz by (auto; lia). cbn [negb b2z]. xstep.
    rewrite (skipn_cons_nthb S p) by lia. cbn [match_case].
    pose proof (nthb_lt256 S p S256) as Ha. pose proof (nthb_lt256 R q R256) as Hb.
    destruct (Z.eqb_spec ic 0) as [Eic|Eic]; cbn [negb]; xstep.
    + (* !icase: *s != *r *)
      xload HS S256 p. xload HR R256 q. rewrite (sx_inj_eqb _ _ Ha Hb).
      destruct (nthb S p =? nthb R q)%N; cbn [negb b2z]; xstep.
      * subst ic. xstep.
        replace (Z.of_nat p + 1) with (Z.of_nat (Datatypes.S p)) by lia.
        replace (Z.of_nat q + 1) with (Z.of_nat (Datatypes.S q)) by lia.
        change (SFor _ _ _) with mc_loop.
        change (SReturn (Some (ECast I32 (ELoad (Some I8) (ELocal 1))))) with mc_ret.
        apply IH; lia.
      * eexists; eexists; split; [reflexivity|]. split; reflexivity.
    + apply Z.eqb_neq in Eic. rewrite Eic. cbn [negb]. xstep. rewrite ?Eic. cbn [negb]. xstep.
      xload HS S256 p. rewrite (bi_tolower _ _ Ha). xstep.
      xload HR R256 q. rewrite (bi_tolower _ _ Hb). xstep. rewrite of_N_eqb.
      destruct (tolower (nthb S p) =? tolower (nthb R q))%N; cbn [negb b2z]; xstep.
      * replace (Z.of_nat p + 1) with (Z.of_nat (Datatypes.S p)) by lia.
        replace (Z.of_nat q + 1) with (Z.of_nat (Datatypes.S q)) by lia.
        change (SFor _ _ _) with mc_loop.
        change (SReturn (Some (ECast I32 (ELoad (Some I8) (ELocal 1))))) with mc_ret.
        apply IH; lia.
      * eexists; eexists; split; [reflexivity|]. split; reflexivity.
Qed.

(* the C function returns *r (a char, promoted to int) or 1: it is 0 exactly when the model says true *)
Theorem tr_match_case m sb S bs R p q ic d fuel : str_at m sb S -> str_at m bs R -> nonul S -> nonul R ->
  (p <= length S)%nat -> (q <= length R)%nat -> (length R < fuel)%nat ->
  exists v, callf cprog fuel (Datatypes.S d) F_match_case [VPtr sb (Z.of_nat p); VPtr bs (Z.of_nat q); VInt ic] m = Ok (VInt v, m) /\
            (v =? 0) = match_case (skipn p S) (skipn q R) (negb (ic =? 0)).
Proof.
  intros HS HR HnS HnR Hp Hq Hf. enter F_match_case cf_match_case.
  destruct (mc_tail_ok (callf cprog fuel d) m sb S bs R ic fuel HS HR HnS HnR (length R) p q fuel) as [v [st' [E1 [E2 E3]]]]; try lia.
  unfold mc_loop, mc_ret in E1; cbn [fn_body cf_match_case] in E1. rewrite exec_seq, E1, E2. exists v. split; [reflexivity|exact E3].
Qed.

(* ------------------------------------------------------------------ helpers for rstr_find *)
Lemma wrap_I32_id z : int_ok z -> wrap I32 z = z.
Proof. apply wrap_int_ok. Qed.
Lemma wrap_I64_id z : int_ok z -> wrap I64 z = z.
Proof.
  intro H. unfold int_ok in H. unfold wrap. cbn [ity_bits ity_signed andb].
  change (2 ^ 64) with 18446744073709551616. change (2 ^ (64 - 1)) with 9223372036854775808.
  destruct (Z.leb_spec 9223372036854775808 (z mod 18446744073709551616)) as [L|L].
  - assert (z < 0) by (destruct (Z.lt_ge_cases z 0); [assumption|rewrite Z.mod_small in L by lia; lia]).
    rewrite <- (Z.mod_add z 1 18446744073709551616) by lia. rewrite Z.mod_small by lia. lia.
  - assert (0 <= z) by (destruct (Z.lt_ge_cases z 0); [|assumption]; exfalso;
      rewrite <- (Z.mod_add z 1 18446744073709551616) in L by lia; rewrite Z.mod_small in L by lia; lia).
    apply Z.mod_small. lia.
Qed.
Lemma chk_I64 z : int_ok z -> chk I64 z = Ok z.
Proof.
  intro H. unfold int_ok in H. unfold chk, in_range, ity_min, ity_max, ity_signed, ity_bits.
  change (- 2 ^ (64 - 1)) with (-9223372036854775808). change (2 ^ (64 - 1) - 1) with 9223372036854775807.
  destruct (Z.leb_spec (-9223372036854775808) z); [|lia]. destruct (Z.leb_spec z 9223372036854775807); [|lia]. reflexivity.
Qed.

(* strlen on a C string in memory *)
Lemma scan0_cstr (s : bytes) : nonul s -> forall o n, (o <= length s)%nat ->
  scan0 (skipn o (cstr_block (zb s))) n = Ok (n + (length s - o))%nat.
Proof.
  intros Hn o. remember (length s - o)%nat as k eqn:Ek. revert o Ek.
  induction k as [|k IH]; intros o Ek n Ho.
  - assert (o = length s) as -> by lia. unfold cstr_block, zb.
    rewrite skipn_app, skipn_all2 by (rewrite !map_length; lia). rewrite !map_length, Nat.sub_diag. cbn. f_equal. lia.
  - assert (Hlt : (o < length s)%nat) by lia.
    assert (E : skipn o (cstr_block (zb s)) = VInt (Z.of_N (nthb s o)) :: skipn (Datatypes.S o) (cstr_block (zb s))).
    { unfold cstr_block, zb. rewrite !skipn_app, !map_length. replace (o - length s)%nat with 0%nat by lia.
      replace (Datatypes.S o - length s)%nat with 0%nat by lia. rewrite !skipn_map, (skipn_cons_nthb s o Hlt). reflexivity. }
    rewrite E. pose proof (nonul_nthb_nz s o Hn Hlt) as Hz. apply N.eqb_neq in Hz.
    cbn [scan0]. destruct (Z.of_N (nthb s o)) eqn:Ec; [lia| |]; rewrite (IH (Datatypes.S o)) by lia; f_equal; lia.
Qed.
Lemma bi_strlen m b s o : str_at m b s -> nonul s -> (o <= length s)%nat ->
  do_builtin_m BStrlen [VPtr b (Z.of_nat o)] m = Ok (VInt (Z.of_nat (length s - o)), m).
Proof.
  intros Hs Hn Ho. cbn [do_builtin_m do_builtin]. unfold blk_from. rewrite Hs.
  assert (length (cstr_block (zb s)) = Datatypes.S (length s)) as -> by (unfold cstr_block, zb; rewrite app_length, !map_length; cbn; lia).
  destruct (Z.ltb_spec (Z.of_nat o) 0); [lia|]. destruct (Z.ltb_spec (Z.of_nat (Datatypes.S (length s))) (Z.of_nat o)); [lia|].
  cbn [orb bind]. rewrite Nat2Z.id, (scan0_cstr s Hn o 0 Ho). reflexivity.
Qed.

(* the memory after rewriting a block *)
Lemma upd_app_hd {A} (pre : list A) x rest y : upd (pre ++ x :: rest) (length pre) y = pre ++ y :: rest.
Proof.
  unfold upd. rewrite firstn_app_exact. f_equal. f_equal.
  replace (Datatypes.S (length pre)) with (length (pre ++ [x])) by (rewrite app_length; cbn; lia).
  replace (pre ++ x :: rest) with ((pre ++ [x]) ++ rest) by (rewrite <- app_assoc; reflexivity).
  apply skipn_app_exact.
Qed.

(* ------------------------------------------------------------------ rstr_find: the pieces of the C text *)
Definition find_for : stmt :=
  match fn_body cf_rstr_find with
  | SSeq _ (SSeq _ (SSeq _ (SSeq _ (SSeq _ (SSeq _ (SSeq _ (SSeq _ (SSeq (SSeq _ w) _)))))))) => w | _ => SSkip end.
Definition find_ret : stmt :=
  match fn_body cf_rstr_find with
  | SSeq _ (SSeq _ (SSeq _ (SSeq _ (SSeq _ (SSeq _ (SSeq _ (SSeq _ (SSeq _ r)))))))) => r | _ => SSkip end.
Definition find_c1 : stmt := match find_for with SFor _ _ (SSeq c _) => c | _ => SSkip end.
Definition find_c2 : stmt := match find_for with SFor _ _ (SSeq _ (SSeq c _)) => c | _ => SSkip end.
Definition find_c3 : stmt := match find_for with SFor _ _ (SSeq _ (SSeq _ c)) => c | _ => SSkip end.
Definition grp_for : stmt :=
  match find_c3 with SIf _ (SSeq _ (SSeq (SSeq _ w) _)) _ => w | _ => SSkip end.

Lemma upd_0 {A} (x : A) l v : upd (x :: l) 0 v = v :: l.
Proof. reflexivity. Qed.
Lemma upd_1 {A} (x y : A) l v : upd (x :: y :: l) 1 v = x :: v :: l.
Proof. reflexivity. Qed.
(* grps[] as cells *)
Definition grp_block (g : list (Z * Z)) : block := flat_map (fun ab => [VInt (fst ab); VInt (snd ab)]) g.
Lemma grp_block_app a b : grp_block (a ++ b) = grp_block a ++ grp_block b.
Proof. apply flat_map_app. Qed.
Lemma grp_block_length g : length (grp_block g) = (2 * length g)%nat.
Proof. induction g as [|x g IH]; [reflexivity|]. unfold grp_block in *. cbn [flat_map app length]. rewrite IH. cbn [length]. lia. Qed.

(* for (i = 1; i < n; i++) { grps[i * 2] = -1; grps[i * 2 + 1] = -1; } *)
Lemma grp_for_ok call gb n a0 a1 a4 a5 a6 a7 a8 : 2 * n <= 2147483647 ->
  forall k i pre rest mm fuel, 1 <= i -> k = Z.to_nat (n - i) -> Z.of_nat (length pre) = 2 * i -> length rest = (2 * k)%nat ->
  nth_error mm gb = Some (pre ++ rest) -> (k < fuel)%nat ->
  exec call fuel grp_for (mkst [a0; a1; VInt n; VPtr gb 0; a4; a5; a6; a7; a8; VInt i] mm)
  = ONormal (mkst [a0; a1; VInt n; VPtr gb 0; a4; a5; a6; a7; a8; VInt (i + Z.of_nat k)]
                  (upd mm gb (pre ++ grp_block (repeat (-1, -1) k)))).
Proof.
  intros Hn. induction k as [|k IH]; intros i pre rest mm fuel Hi Hk Hpre Hrest Hm Hf; (destruct fuel as [|fuel]; [lia|]);
    unfold grp_for, find_c3, find_for; cbn [fn_body cf_rstr_find]; rewrite exec_for; xstep.
  - destruct (Z.ltb_spec i n); [lia|]. xstep. destruct rest; [|discriminate]. cbn [repeat grp_block flat_map].
    rewrite Z.add_0_r, upd_self by exact Hm. reflexivity.
  - destruct (Z.ltb_spec i n); [|lia]. xstep.
    destruct rest as [|x [|y rest]]; try (cbn in Hrest; lia).
    assert (Hgb : (gb < length mm)%nat) by (apply nth_error_Some; congruence).
    rewrite (chk_I32 (i * 2)) by lia. xstep. rewrite (chk_I32 (- (1))) by lia. xstep.
    change (wrap I32 (- (1))) with (-1).
    rewrite (store_ok mm gb (pre ++ x :: y :: rest)) by (try assumption; rewrite app_length; cbn [length]; lia).
    replace (Z.to_nat (0 + 1 * (i * 2))) with (length pre) by lia. rewrite upd_app_hd. xstep.
    rewrite (chk_I32 (i * 2)) by lia. xstep. rewrite (chk_I32 (i * 2 + 1)) by lia. xstep.
    rewrite (chk_I32 (- (1))) by lia. xstep. change (wrap I32 (- (1))) with (-1).
    rewrite (store_ok _ gb (pre ++ VInt (-1) :: y :: rest))
      by (try (apply mem_upd_same; exact Hgb); rewrite app_length; cbn [length]; lia).
    replace (Z.to_nat (0 + 1 * (i * 2 + 1))) with (length (pre ++ [VInt (-1)])) by (rewrite app_length; cbn [length]; lia).
    replace (pre ++ VInt (-1) :: y :: rest) with ((pre ++ [VInt (-1)]) ++ y :: rest) by (rewrite <- app_assoc; reflexivity).
    rewrite upd_app_hd, upd_upd by exact Hgb. xstep. rewrite (chk_I32 (i + 1)) by lia. xstep.
    change (SFor _ _ _) with grp_for.
    rewrite (IH (i + 1) ((pre ++ [VInt (-1)]) ++ [VInt (-1)]) rest); try lia.
    + rewrite upd_upd by exact Hgb. cbn [repeat grp_block flat_map fst snd]. rewrite <- !app_assoc. cbn [app].
      fold grp_block. replace (i + 1 + Z.of_nat k) with (i + Z.of_nat (S k)) by lia. reflexivity.
    + rewrite !app_length. cbn [length]. lia.
    + cbn in Hrest. lia.
    + rewrite mem_upd_same by exact Hgb. rewrite <- !app_assoc. reflexivity.
Qed.

Definition nz (z : Z) : bool := negb (z =? 0).
(* struct rstr { struct rset *rs; char *str; int icase; int lbeg, lend; int wbeg, wend; } with rs == NULL *)
Definition rstr_block (bs : nat) (ic lb le wb we : Z) : block :=
  [VInt 0; VPtr bs 0; VInt ic; VInt lb; VInt le; VInt wb; VInt we].
Definition rs_of (lit : bytes) (ic lb le wb we : Z) : rstr := mk_rstr lit (nz ic) (nz lb) (nz le) (nz wb) (nz we).

Section Find.
  Variables (F d : nat) (m : mem) (rb bs sb gb : nat) (lit L : bytes) (o : nat) (ic lb le wb we n flg : Z).
  Hypothesis Hrb : nth_error m rb = Some (rstr_block bs ic lb le wb we).
  Hypothesis HS : str_at m sb L.
  Hypothesis HR : str_at m bs lit.
  Hypothesis HnL : nonul L.
  Hypothesis Hnlit : nonul lit.
  Hypothesis Hic : int_ok ic.
  Hypothesis Hlb : int_ok lb.
  Hypothesis Hle : int_ok le.
  Hypothesis Hwb : int_ok wb.
  Hypothesis Hwe : int_ok we.
  Hypothesis Ho : (o <= length L)%nat.
  Hypothesis HFlit : (length lit < F)%nat.

  Definition lst (bo eo : Z) (r : nat) (iv : val) : list val :=
    [VPtr rb 0; VPtr sb (Z.of_nat o); VInt n; VPtr gb 0; VInt flg; VInt (Z.of_nat (length lit));
     VPtr sb bo; VPtr sb eo; VPtr sb (Z.of_nat (o + r)); iv].

  Lemma load_rb0 : load m rb 0 = Ok (VInt 0). Proof. unfold load. rewrite Hrb. reflexivity. Qed.
  Lemma load_rb1 : load m rb 1 = Ok (VPtr bs 0). Proof. unfold load. rewrite Hrb. reflexivity. Qed.
  Lemma load_rb2 : load m rb 2 = Ok (VInt ic). Proof. unfold load. rewrite Hrb. reflexivity. Qed.
  Lemma load_rb3 : load m rb 3 = Ok (VInt lb). Proof. unfold load. rewrite Hrb. reflexivity. Qed.
  Lemma load_rb4 : load m rb 4 = Ok (VInt le). Proof. unfold load. rewrite Hrb. reflexivity. Qed.
  Lemma load_rb5 : load m rb 5 = Ok (VInt wb). Proof. unfold load. rewrite Hrb. reflexivity. Qed.
  Lemma load_rb6 : load m rb 6 = Ok (VInt we). Proof. unfold load. rewrite Hrb. reflexivity. Qed.

  Let L256 : bytes_lt256 L := nonul_lt256 L HnL.

  Lemma rd_s k : (o + k <= length L)%nat -> rd (skipn o L) (Z.of_nat k) = Some (nthb L (o + k)).
  Proof. intro H. rewrite RstrProps.rd_in by (rewrite skipn_length; lia). fold (nthb (skipn o L) k). rewrite nthb_skipn. reflexivity. Qed.

  (* rs->wbeg && ((r > s && isword(r - 1)) || !isword(r)) *)
  Lemma c1_ok fuel bo eo r iv : (o + r <= length L)%nat ->
    exists b, (if nz wb then wbeg_skip (skipn o L) (Z.of_nat r) else Some false) = Some b /\
      exec (callf cprog F (S d)) fuel find_c1 (mkst (lst bo eo r iv) m)
      = if b then OContinue (mkst (lst bo eo r iv) m) else ONormal (mkst (lst bo eo r iv) m).
  Proof.
    intro Hr. unfold find_c1, find_for, lst. cbn [fn_body cf_rstr_find]. xstep.
    change (0 + 1 * 5) with 5. rewrite load_rb5. xstep. rewrite (wrap_I32_id wb Hwb). fold (nz wb).
    destruct (nz wb); xstep; [|exists false; split; reflexivity].
    cbn [ptr_cmp]. rewrite Nat.eqb_refl. xstep. unfold wbeg_skip. rewrite (rd_s r Hr).
    destruct (Z.ltb_spec (Z.of_nat o) (Z.of_nat (o + r))) as [Hlt|Hge]; cbn [b2z]; xstep.
    - destruct (Z.ltb_spec 0 (Z.of_nat r)); [|lia].
      replace (Z.of_nat r - 1) with (Z.of_nat (r - 1)) by lia. rewrite (rd_s (r - 1)) by lia.
      replace (Z.of_nat (o + r) + -1 * 1) with (Z.of_nat (o + (r - 1))) by lia.
      rewrite (tr_rstr_isword m sb L (o + (r - 1)) d F HS L256) by lia. xstep.
      destruct (isword (nthb L (o + (r - 1)))); cbn [b2z]; xstep; [exists true; split; reflexivity|].
      rewrite (tr_rstr_isword m sb L (o + r) d F HS L256) by lia. xstep.
      exists (negb (isword (nthb L (o + r)))). split; [reflexivity|]. destruct (isword (nthb L (o + r))); reflexivity.
    - destruct (Z.ltb_spec 0 (Z.of_nat r)); [lia|].
      rewrite (tr_rstr_isword m sb L (o + r) d F HS L256) by lia. xstep.
      exists (negb (isword (nthb L (o + r)))). split; [reflexivity|]. destruct (isword (nthb L (o + r))); reflexivity.
  Qed.

  (* rs->wend && r[len] && (r + len == s || !isword(r + len - 1) || isword(r + len)) *)
  Lemma c2_ok fuel bo eo r iv : (o + r + length lit <= length L)%nat ->
    exists b, (if nz we then wend_skip (skipn o L) (Z.of_nat r) (Z.of_nat (length lit)) else Some false) = Some b /\
      exec (callf cprog F (S d)) fuel find_c2 (mkst (lst bo eo r iv) m)
      = if b then OContinue (mkst (lst bo eo r iv) m) else ONormal (mkst (lst bo eo r iv) m).
  Proof.
    intro Hr. unfold find_c2, find_for, lst. cbn [fn_body cf_rstr_find]. xstep.
    change (0 + 1 * 6) with 6. rewrite load_rb6. xstep. rewrite (wrap_I32_id we Hwe). fold (nz we).
    destruct (nz we); xstep; [|exists false; split; reflexivity].
    set (j := (r + length lit)%nat).
    assert (Hj : Z.of_nat (o + r) + 1 * Z.of_nat (length lit) = Z.of_nat (o + j)) by lia.
    rewrite ?Hj. xload HS L256 (o + j)%nat. rewrite (cc_z0i _ (nthb_lt256 L (o + j) L256)).
    unfold wend_skip. replace (Z.of_nat r + Z.of_nat (length lit)) with (Z.of_nat j) by lia.
    rewrite (rd_s j) by lia.
    destruct (nthb L (o + j) =? 0)%N; cbn [negb b2z]; xstep; [exists false; split; reflexivity|].
    cbn [ptr_cmp]. rewrite Nat.eqb_refl. xstep. rewrite ?Hj.
    destruct (Z.eqb_spec (Z.of_nat (o + j)) (Z.of_nat o)) as [E0|E0]; xstep.
    { destruct (Z.eqb_spec (Z.of_nat j) 0); [|lia]. exists true; split; reflexivity. }
    destruct (Z.eqb_spec (Z.of_nat j) 0); [lia|].
    replace (Z.of_nat j - 1) with (Z.of_nat (j - 1)) by lia. rewrite (rd_s (j - 1)) by lia.
    replace (Z.of_nat (o + j) + -1 * 1) with (Z.of_nat (o + (j - 1))) by lia.
    rewrite (tr_rstr_isword m sb L (o + (j - 1)) d F HS L256) by lia. xstep.
    destruct (isword (nthb L (o + (j - 1)))); cbn [negb b2z]; xstep; [|exists true; split; reflexivity].
    rewrite ?Hj. rewrite (tr_rstr_isword m sb L (o + j) d F HS L256) by lia. xstep.
    exists (isword (nthb L (o + j))). split; [reflexivity|]. destruct (isword (nthb L (o + j))); reflexivity.
  Qed.

  Variable gold : block.
  Hypothesis Hgold : nth_error m gb = Some gold.
  Hypothesis Hgl : length gold = (2 * Z.to_nat n)%nat.
  Hypothesis Hn2 : 2 * n <= 2147483647.
  Hypothesis HLmax : Z.of_nat (length L) <= 2147483647.
  Hypothesis HFL : (length L < F)%nat.

  (* if (!match_case(r, rs->str, rs->icase)) { grps[..] = ..; return 0; } *)
  Lemma c3_ok fuel bo eo r iv : (o + r + length lit <= length L)%nat -> (Z.to_nat n < fuel)%nat ->
    exists st',
      exec (callf cprog F (S d)) fuel find_c3 (mkst (lst bo eo r iv) m)
      = (if match_case (skipn r (skipn o L)) lit (nz ic) then OReturn (VInt 0) st' else ONormal (mkst (lst bo eo r iv) m)) /\
      memm st' = upd m gb (grp_block (rstr_groups (Z.to_nat n) (Z.of_nat r) (Z.of_nat r + Z.of_nat (length lit)))).
  Proof.
    intros Hr Hf. unfold find_c3, find_for, lst. cbn [fn_body cf_rstr_find]. xstep.
    change (0 + 1 * 1) with 1. rewrite load_rb1. xstep. change (0 + 1 * 2) with 2. rewrite load_rb2. xstep.
    rewrite (wrap_I32_id ic Hic).
    destruct (tr_match_case m sb L bs lit (o + r) 0 ic d F HS HR HnL Hnlit ltac:(lia) ltac:(lia) HFlit) as [v [E1 E2]].
    change (Z.of_nat 0) with 0 in E1. rewrite E1. xstep. rewrite skipn_skipn. unfold nz.
    cbn [skipn] in E2. rewrite <- E2.
    destruct (v =? 0); cbn [negb b2z]; xstep;
      [|exists (mkst [] (upd m gb (grp_block (rstr_groups (Z.to_nat n) (Z.of_nat r) (Z.of_nat r + Z.of_nat (length lit)))))); split; reflexivity].
    assert (Hgb : (gb < length m)%nat) by (apply nth_error_Some; congruence).
    destruct (Z.leb_spec 1 n) as [Hn1|Hn1].
    - destruct gold as [|x [|y rest]] eqn:Eg; try (cbn [length] in Hgl; lia).
      rewrite Nat.eqb_refl. xstep.
      replace ((Z.of_nat (o + r) - Z.of_nat o) ÷ 1) with (Z.of_nat r) by (rewrite Z.quot_1_r; lia).
      rewrite !(wrap_I32_id (Z.of_nat r)) by (unfold int_ok; lia).
      change (0 + 1 * 0) with 0. rewrite (store_ok m gb (x :: y :: rest)) by (try assumption; cbn [length]; lia).
      change (Z.to_nat 0) with 0%nat. rewrite upd_0. xstep.
      rewrite Nat.eqb_refl. xstep.
      replace ((Z.of_nat (o + r) - Z.of_nat o) ÷ 1) with (Z.of_nat r) by (rewrite Z.quot_1_r; lia).
      rewrite (wrap_I64_id (Z.of_nat (length lit))) by (unfold int_ok; lia).
      rewrite (chk_I64 (Z.of_nat r + Z.of_nat (length lit))) by (unfold int_ok; lia). xstep.
      rewrite !(wrap_I32_id (Z.of_nat r + Z.of_nat (length lit))) by (unfold int_ok; lia).
      change (0 + 1 * 1) with 1.
      rewrite (store_ok _ gb (VInt (Z.of_nat r) :: y :: rest)) by (try (apply mem_upd_same; exact Hgb); cbn [length]; lia).
      change (Z.to_nat 1) with 1%nat. rewrite upd_1. rewrite upd_upd by exact Hgb. xstep.
      change (SFor _ _ _) with grp_for.
      rewrite (grp_for_ok _ gb n _ _ _ _ _ _ _ Hn2 (Z.to_nat (n - 1)) 1 [VInt (Z.of_nat r); VInt (Z.of_nat r + Z.of_nat (length lit))] rest);
        try lia; try reflexivity.
      + xstep. eexists; split; [reflexivity|]. cbn [memm]. rewrite upd_upd by exact Hgb.
        replace (Z.to_nat n) with (S (Z.to_nat (n - 1))) by lia. reflexivity.
      + cbn [length] in Hgl. lia.
      + rewrite mem_upd_same by exact Hgb. reflexivity.
    - xstep. destruct fuel as [|fuel]; [lia|]. rewrite exec_for. xstep.
      destruct (Z.ltb_spec 1 n); [lia|]. xstep. eexists; split; [reflexivity|]. cbn [memm].
      replace (Z.to_nat n) with 0%nat in * by lia. destruct gold; [|discriminate]. cbn [rstr_groups grp_block flat_map].
      symmetry. apply upd_self. exact Hgold.
  Qed.

  Definition ret_of (x : RstrDefs.res) : Z := match x with Found _ _ => 0 | _ => -1 end.
  Definition mem_of (x : RstrDefs.res) : mem :=
    match x with Found so eo => upd m gb (grp_block (rstr_groups (Z.to_nat n) so eo)) | _ => m end.
  Let rs := rs_of lit ic lb le wb we.

  Lemma find_for_eq : find_for =
    SFor (Some (EPtrCmp OLe (ELocal 8) (ELocal 7))) (Some (EIncLocal true 8 None 1)) (SSeq find_c1 (SSeq find_c2 find_c3)).
  Proof. reflexivity. Qed.

  (* for (r = beg; r <= end; r++) { ... }  return -1; *)
  Lemma find_for_ok fuel2 bo e' : (o + e' + length lit <= length L)%nat ->
    forall k r iv fuel, k = (S e' - r)%nat -> (k + Z.to_nat n < fuel)%nat ->
    exists st',
      match exec (callf cprog F (S d)) fuel find_for (mkst (lst bo (Z.of_nat (o + e')) r iv) m) with
      | ONormal st1 => exec (callf cprog F (S d)) fuel2 find_ret st1
      | x => x
      end = OReturn (VInt (ret_of (scan rs (skipn o L) (Z.of_nat r) k))) st' /\
      memm st' = mem_of (scan rs (skipn o L) (Z.of_nat r) k) /\
      scan rs (skipn o L) (Z.of_nat r) k <> OOB.
  Proof.
    intro He. induction k as [|k IH]; intros r iv fuel Hk Hf; (destruct fuel as [|fuel]; [lia|]);
      rewrite find_for_eq, exec_for; unfold lst at 1; xstep; cbn [ptr_cmp]; rewrite Nat.eqb_refl; xstep.
    - destruct (Z.leb_spec (Z.of_nat (o + r)) (Z.of_nat (o + e'))); [lia|]. xstep.
      unfold find_ret. cbn [fn_body cf_rstr_find]. xstep. rewrite (chk_I32 (- (1))) by lia. xstep.
      eexists; split; [reflexivity|]. split; [reflexivity|discriminate].
    - destruct (Z.leb_spec (Z.of_nat (o + r)) (Z.of_nat (o + e'))); [|lia]. xstep.
      destruct (IH (S r) iv fuel ltac:(lia) ltac:(lia)) as [stn N]. rewrite find_for_eq in N. unfold lst in N.
      replace (Z.of_nat (S r)) with (Z.of_nat r + 1) in N by lia.
      cbn [scan]. unfold find_at, rs. cbn [rs_of r_wbeg r_wend r_str r_icase]. fold rs.
      destruct (c1_ok (S fuel) bo (Z.of_nat (o + e')) r iv ltac:(lia)) as [b1 [M1 X1]]. unfold lst in X1. rewrite X1, M1.
      destruct b1; xstep.
      { replace (Z.of_nat (o + r) + 1) with (Z.of_nat (o + S r)) by lia. exists stn. exact N. }
      destruct (c2_ok (S fuel) bo (Z.of_nat (o + e')) r iv ltac:(lia)) as [b2 [M2 X2]]. unfold lst in X2. rewrite X2, M2.
      destruct b2; xstep.
      { replace (Z.of_nat (o + r) + 1) with (Z.of_nat (o + S r)) by lia. exists stn. exact N. }
      rewrite (rd_s r) by lia. rewrite Nat2Z.id.
      destruct (c3_ok (S fuel) bo (Z.of_nat (o + e')) r iv ltac:(lia) ltac:(lia)) as [st3 [X3 M3]]. unfold lst in X3. rewrite X3.
      destruct (match_case (skipn r (skipn o L)) lit (nz ic)); xstep.
      { exists st3. split; [reflexivity|]. split; [exact M3|discriminate]. }
      replace (Z.of_nat (o + r) + 1) with (Z.of_nat (o + S r)) by lia. exists stn. exact N.
  Qed.

  Hypothesis Hlitmax : Z.of_nat (length lit) <= 2147483647.
  Hypothesis HF : (length L + Z.to_nat n + 1 < F)%nat.

  Ltac finish_find bo b e' :=
    match goal with |- context [scan _ _ ?zb ?k] =>
      replace k with (S e' - b)%nat by lia end;
    let st' := fresh "st'" in let X1 := fresh "X1" in let X2 := fresh "X2" in let X3 := fresh "X3" in
    destruct (find_for_ok F bo e' ltac:(lia) (S e' - b)%nat b VUndef F eq_refl ltac:(lia)) as [st' [X1 [X2 X3]]];
    unfold lst, find_ret in X1; cbn [fn_body cf_rstr_find] in X1;
    rewrite ?Nat.add_0_r in X1; change (Z.of_nat 0) with 0 in X1, X2, X3; rewrite X1; split; [rewrite X2; reflexivity|exact X3].

  Theorem tr_rstr_find_sec noteol :
    callf cprog F (S (S d)) F_rstr_find [VPtr rb 0; VPtr sb (Z.of_nat o); VInt n; VPtr gb 0; VInt flg] m
    = Ok (VInt (ret_of (rstr_find rs (skipn o L) (nz (Z.land flg 2)) noteol)),
          mem_of (rstr_find rs (skipn o L) (nz (Z.land flg 2)) noteol)) /\
    rstr_find rs (skipn o L) (nz (Z.land flg 2)) noteol <> OOB.
  Proof.
    enter F_rstr_find cf_rstr_find. xstep. rewrite load_rb0. xstep.
    change (0 + 1 * 3) with 3. rewrite load_rb3. xstep. rewrite (wrap_I32_id lb Hlb). fold (nz lb).
    unfold rstr_find, rs. cbn [rs_of r_lbeg r_lend r_str]. fold rs.
    change (SFor (Some (EPtrCmp OLe (ELocal 8) (ELocal 7))) _ _) with find_for.
    assert (Hearly : forall st : state, (if nz lb then Ok (VInt (b2z (negb (Z.land flg 2 =? 0))), st) else Ok (VInt 0, st))
                     = @Ok (val * state) (VInt (b2z (nz lb && nz (Z.land flg 2))), st)) by (intro st; destruct (nz lb); reflexivity).
    rewrite Hearly. clear Hearly. xstep.
    destruct (nz lb && nz (Z.land flg 2)) eqn:Eearly; xstep.
    { rewrite (chk_I32 (- (1))) by lia. split; [reflexivity|discriminate]. }
    change (0 + 1 * 1) with 1. rewrite load_rb1. xstep.
    pose proof (bi_strlen m bs lit 0 HR Hnlit ltac:(lia)) as B0. change (Z.of_nat 0) with 0 in B0.
    rewrite B0. clear B0. xstep. rewrite Nat.sub_0_r.
    rewrite (wrap_I32_id (Z.of_nat (length lit))) by (unfold int_ok; lia).
    rewrite (bi_strlen m sb L o HS HnL Ho). xstep.
    cbn [ptr_cmp]. rewrite Nat.eqb_refl. xstep. rewrite skipn_length.
    set (E := Z.of_nat (length L - o) - Z.of_nat (length lit) - 1).
    replace (Z.of_nat o + 1 * Z.of_nat (length L - o) + -1 * Z.of_nat (length lit) + -1 * 1) with (Z.of_nat o + E) by (unfold E; lia).
    destruct (Z.ltb_spec (Z.of_nat o + E) (Z.of_nat o)) as [HE|HE]; (destruct (Z.ltb_spec E 0) as [HE'|HE']; try lia); xstep.
    { rewrite (chk_I32 (- (1))) by lia. split; [reflexivity|discriminate]. }
    set (en := (length L - o - length lit - 1)%nat).
    assert (Hen : (o + en + length lit + 1 = length L)%nat) by (unfold E, en in *; lia).
    assert (HEn : E = Z.of_nat en) by (unfold E, en in *; lia). rewrite HEn in *. clear E HEn.
    replace (Z.of_nat o + Z.of_nat en) with (Z.of_nat (o + en)) by lia.
    change (0 + 1 * 4) with 4. rewrite load_rb4. xstep. rewrite (wrap_I32_id le Hle). fold (nz le).
    destruct (nz le); xstep; change (0 + 1 * 3) with 3; rewrite load_rb3; xstep; rewrite (wrap_I32_id lb Hlb); fold (nz lb); destruct (nz lb); xstep.
    - finish_find (Z.of_nat (o + en)) en 0%nat.
    - finish_find (Z.of_nat (o + en)) en en.
    - finish_find (Z.of_nat o) 0%nat 0%nat.
    - finish_find (Z.of_nat o) 0%nat en.
  Qed.
End Find.

(* ------------------------------------------------------------------ rstr_find: the theorem *)
(* int rstr_find(struct rstr *rs, char *s, int n, int *grps, int flg) with rs->rs == NULL:
   rs points to a struct rstr block, rs->str to the literal, s into the line at any offset o (the model
   sees the suffix), grps to an array of 2 * n cells (their old contents are arbitrary, e.g. indeterminate).
   The call returns 0 / -1 exactly as the model says Found / NotFound; the memory afterwards is the memory
   before with the grps block holding rstr_groups n so eo when found, and is unchanged when not found;
   the model does not answer OOB, and the C text performs no load or store outside a block. *)
Theorem tr_rstr_find m rb bs sb gb lit L o ic lb le wb we n flg gold noteol d fuel :
  nth_error m rb = Some (rstr_block bs ic lb le wb we) ->
  str_at m bs lit -> str_at m sb L -> nth_error m gb = Some gold -> length gold = (2 * Z.to_nat n)%nat ->
  nonul lit -> nonul L -> (o <= length L)%nat ->
  int_ok ic -> int_ok lb -> int_ok le -> int_ok wb -> int_ok we -> 2 * n <= 2147483647 ->
  Z.of_nat (length lit) <= 2147483647 -> Z.of_nat (length L) <= 2147483647 ->
  (length lit < fuel)%nat -> (length L + Z.to_nat n + 1 < fuel)%nat ->
  let R := rstr_find (rs_of lit ic lb le wb we) (skipn o L) (nz (Z.land flg RE_NOTBOL)) noteol in
  callf cprog fuel (S (S d)) F_rstr_find [VPtr rb 0; VPtr sb (Z.of_nat o); VInt n; VPtr gb 0; VInt flg] m
  = Ok (VInt (ret_of R), mem_of m gb n R) /\ R <> OOB.
Proof.
  intros Hrb HR HS Hg Hgl Hnlit HnL Ho Hic Hlb Hle Hwb Hwe Hn2 Hlm HLm Hf1 Hf2 R.
  apply tr_rstr_find_sec with (bs := bs) (gold := gold); try assumption; lia.
Qed.

(* ------------------------------------------------------------------ composed with the model theorems *)
Lemma nz_b2z b : nz (b2z b) = b.
Proof. destruct b; reflexivity. Qed.
Lemma int_ok_b2z b : int_ok (b2z b).
Proof. destruct b; unfold int_ok; cbn; lia. Qed.
Lemma lit_in_pattern ic p rs : rstr_simple ic p = Some rs -> nonul p ->
  nonul (r_str rs) /\ (length (r_str rs) <= length p)%nat /\ r_icase rs = ic.
Proof.
  intros H Hp. destruct (rstr_simple_sound _ _ _ H) as (Ep & _ & Eic). split; [|split; [|exact Eic]].
  - unfold nonul in *. rewrite Ep in Hp. unfold spat_string, spat_of in Hp. cbn [p_lit] in Hp.
    apply Forall_app in Hp. destruct Hp as [_ Hp]. apply Forall_app in Hp. destruct Hp as [_ Hp].
    apply Forall_app in Hp. destruct Hp as [Hp _]. exact Hp.
  - apply (f_equal (@length _)) in Ep. unfold spat_string, spat_of in Ep. cbn [p_lit] in Ep. rewrite !app_length in Ep. lia.
Qed.

(* the C TEXT of the fast path returns the declarative spec: for every pattern the classifier accepts
   (compiled into a struct rstr as rstr_simple leaves it), every newline-terminated line, every flag word and
   every group count, the translated rstr_find returns 0 and writes group 0 = the leftmost position at which
   the spec holds (groups >= 1 unset), or returns -1 and leaves the memory alone.  The line's block is exactly
   content ++ "\n" ++ NUL: an Ok result means that no byte outside the line and its terminator was read. *)
Theorem tr_rstr_find_spec m rb bs sb gb ic p rs content n flg gold d fuel :
  rstr_simple ic p = Some rs -> nonul p -> ~ In 10%N p -> nonul content -> ~ In 10%N content ->
  nth_error m rb = Some (rstr_block bs (b2z (r_icase rs)) (b2z (r_lbeg rs)) (b2z (r_lend rs)) (b2z (r_wbeg rs)) (b2z (r_wend rs))) ->
  str_at m bs (r_str rs) -> str_at m sb (content ++ [10%N]) ->
  nth_error m gb = Some gold -> length gold = (2 * Z.to_nat n)%nat -> 2 * n <= 2147483647 ->
  Z.of_nat (length p) <= 2147483647 -> Z.of_nat (length content) < 2147483647 ->
  (length p < fuel)%nat -> (length content + Z.to_nat n + 2 < fuel)%nat ->
  callf cprog fuel (S (S d)) F_rstr_find [VPtr rb 0; VPtr sb 0; VInt n; VPtr gb 0; VInt flg] m =
  match spec_find (spat_of rs) ic (nz (Z.land flg RE_NOTBOL)) content with
  | Some i => Ok (VInt 0, upd m gb (grp_block (rstr_groups (Z.to_nat n) (Z.of_nat i) (Z.of_nat (i + length (r_str rs))))))
  | None => Ok (VInt (-1), m)
  end.
Proof.
  intros Hs Hp Hp10 Hc Hc10 Hrb HR HS Hg Hgl Hn2 Hpm Hcm Hf1 Hf2.
  destruct (lit_in_pattern ic p rs Hs Hp) as (Hnl & Hll & Eic).
  assert (HnL : nonul (content ++ [10%N])).
  { unfold nonul in *. apply Forall_app. split; [exact Hc|]. constructor; [unfold byte_ok; lia|constructor]. }
  assert (Hz : ~ In 0%N content).
  { intro Hin. unfold nonul in Hc. rewrite Forall_forall in Hc. specialize (Hc _ Hin). unfold byte_ok in Hc. lia. }
  assert (HLl : length (content ++ [10%N]) = S (length content)) by (rewrite app_length; cbn; lia).
  destruct (tr_rstr_find m rb bs sb gb (r_str rs) (content ++ [10%N]) 0 (b2z (r_icase rs)) (b2z (r_lbeg rs)) (b2z (r_lend rs))
              (b2z (r_wbeg rs)) (b2z (r_wend rs)) n flg gold false d fuel Hrb HR HS Hg Hgl Hnl HnL ltac:(lia)
              (int_ok_b2z _) (int_ok_b2z _) (int_ok_b2z _) (int_ok_b2z _) (int_ok_b2z _) Hn2 ltac:(lia) ltac:(lia) ltac:(lia) ltac:(lia))
    as [E _].
  change (Z.of_nat 0) with 0 in E. cbn [skipn] in E. rewrite E. clear E.
  unfold rs_of. rewrite !nz_b2z.
  replace (mk_rstr (r_str rs) (r_icase rs) (r_lbeg rs) (r_lend rs) (r_wbeg rs) (r_wend rs)) with rs by (destruct rs; reflexivity).
  rewrite (equiv_spec_pat ic p rs content _ false Hs Hz Hc10 Hp10). unfold spec_res. cbn [spat_of p_lit].
  destruct (spec_find _ _ _ _); reflexivity.
Qed.
