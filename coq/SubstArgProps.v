(* SubstArgProps.v -- C14 / C13: re_read on escape units; the g flag of :s is read from the text after the closing
   delimiter of the replacement and from nowhere else. *)
From Coq Require Import List NArith Bool Arith Lia.
From NV Require Import Bytes SubstDefs SubstProps SubstArgDefs.
Import ListNotations.
Local Open Scope N_scope.

Lemma eqb92 d : d <> 92 -> (92 =? d) = false.
Proof. intro H. destruct (N.eqb_spec 92 d); [now elim H|reflexivity]. Qed.

(* ------------------------------------------------------------------------------------------ *)
(* re_read_loop on units *)

(* units up to the closing delimiter: the text is what unesc says, the scan continues right after that delimiter *)
Lemma re_read_loop_units d s tail : d <> 92 -> units d s -> re_read_loop d (s ++ d :: tail) = (unesc d s, tail).
Proof.
  intros Hd. induction 1 as [|c s Hc Hb Hs IH|x s Hs IH]; cbn [app re_read_loop unesc].
  - now rewrite N.eqb_refl.
  - destruct (N.eqb_spec c d); [contradiction|]. destruct (N.eqb_spec c 92); [contradiction|]. now rewrite IH.
  - rewrite (eqb92 d Hd), N.eqb_refl, IH. destruct (x =? d); reflexivity.
Qed.

(* no closing delimiter: everything is the text, nothing is left *)
Lemma re_read_loop_open d s : d <> 92 -> units d s -> re_read_loop d s = (unesc d s, []).
Proof.
  intros Hd. induction 1 as [|c s Hc Hb Hs IH|x s Hs IH]; cbn [re_read_loop unesc].
  - reflexivity.
  - destruct (N.eqb_spec c d); [contradiction|]. destruct (N.eqb_spec c 92); [contradiction|]. now rewrite IH.
  - rewrite (eqb92 d Hd), N.eqb_refl, IH. destruct (x =? d); reflexivity.
Qed.

(* ... also when the last byte is a backslash with nothing behind it (copied as an ordinary byte) *)
Lemma re_read_loop_open_bs d s : d <> 92 -> units d s -> re_read_loop d (s ++ [92]) = (unesc d s ++ [92], []).
Proof.
  intros Hd. induction 1 as [|c s Hc Hb Hs IH|x s Hs IH]; cbn [app re_read_loop unesc].
  - now rewrite (eqb92 d Hd).
  - destruct (N.eqb_spec c d); [contradiction|]. destruct (N.eqb_spec c 92); [contradiction|]. now rewrite IH.
  - rewrite (eqb92 d Hd), N.eqb_refl, IH. destruct (x =? d); reflexivity.
Qed.

(* every text is of one of these three forms *)
Lemma decompose_len d : d <> 92 -> forall n s, (length s <= n)%nat ->
  exists u, units d u /\ (s = u \/ s = u ++ [92] \/ exists tail, s = u ++ d :: tail).
Proof.
  intros Hd. induction n as [n IHn] using lt_wf_ind. intros s Hl.
  destruct s as [|c s1].
  - exists []. split; [constructor|now left].
  - destruct (N.eq_dec c d) as [->|Hc].
    + exists []. split; [constructor|]. right; right. now exists s1.
    + destruct (N.eq_dec c 92) as [->|Hb].
      * destruct s1 as [|x s2].
        -- exists []. split; [constructor|]. right; now left.
        -- cbn [length] in Hl. destruct (IHn (length s2) ltac:(lia) s2 (le_n _)) as (u & Hu & Hs).
           exists (92 :: x :: u). split; [now apply U_esc|].
           destruct Hs as [->|[->|(tail & ->)]]; [now left|right; now left|right; right; now exists tail].
      * cbn [length] in Hl. destruct (IHn (length s1) ltac:(lia) s1 (le_n _)) as (u & Hu & Hs).
        exists (c :: u). split; [now apply U_chr|].
        destruct Hs as [->|[->|(tail & ->)]]; [now left|right; now left|right; right; now exists tail].
Qed.
Lemma decompose d s : d <> 92 ->
  exists u, units d u /\ (s = u \/ s = u ++ [92] \/ exists tail, s = u ++ d :: tail).
Proof. intro Hd. exact (decompose_len d Hd (length s) s (le_n _)). Qed.

Lemma units_app d a b : units d a -> units d b -> units d (a ++ b).
Proof. induction 1; intro Hb; cbn [app]; [exact Hb|apply U_chr; auto|apply U_esc; auto]. Qed.

Lemma unesc_app d a b : units d a -> unesc d (a ++ b) = unesc d a ++ unesc d b.
Proof.
  induction 1 as [|c s Hc Hb Hs IH|x s Hs IH]; cbn [app unesc].
  - reflexivity.
  - destruct (N.eqb_spec c 92); [contradiction|]. now rewrite IH.
  - rewrite N.eqb_refl, IH. destruct (x =? d); reflexivity.
Qed.

(* an even run of backslashes is a sequence of units (escaped backslashes) and is stored as it stands *)
Lemma units_bs_even d k : units d (bs (2 * k)).
Proof.
  induction k as [|k IH]; [constructor|]. replace (2 * S k)%nat with (S (S (2 * k))) by lia.
  unfold bs in *. cbn [repeat]. now apply U_esc.
Qed.
Lemma unesc_bs_even d k : d <> 92 -> unesc d (bs (2 * k)) = bs (2 * k).
Proof.
  intro Hd. induction k as [|k IH]; [reflexivity|]. replace (2 * S k)%nat with (S (S (2 * k))) by lia.
  unfold bs in *. cbn [repeat unesc]. rewrite N.eqb_refl, (eqb92 d Hd). now rewrite IH.
Qed.

(* the closing delimiter after an EVEN run of backslashes closes: the pattern ends in those backslashes *)
Theorem even_run_closes d u k tail : d <> 92 -> units d u ->
  re_read_loop d (u ++ bs (2 * k) ++ d :: tail) = (unesc d u ++ bs (2 * k), tail).
Proof.
  intros Hd Hu. rewrite app_assoc, (re_read_loop_units d _ tail Hd (units_app d _ _ Hu (units_bs_even d k))).
  now rewrite (unesc_app d _ _ Hu), (unesc_bs_even d k Hd).
Qed.

(* after an ODD run the last backslash escapes the delimiter: the delimiter becomes a byte of the text, the scan goes on *)
Theorem odd_run_escapes d u k tail : d <> 92 -> units d u ->
  re_read_loop d (u ++ bs (2 * k + 1) ++ tail) =
  match tail with
  | [] => (unesc d u ++ bs (2 * k + 1), [])
  | x :: tail' => let (t, r) := re_read_loop d tail' in
                  (unesc d u ++ bs (2 * k) ++ (if x =? d then [x] else [92; x]) ++ t, r)
  end.
Proof.
  intros Hd Hu.
  assert (Hb : bs (2 * k + 1) = bs (2 * k) ++ [92]).
  { unfold bs. now rewrite repeat_app. }
  rewrite Hb. destruct tail as [|x tail'].
  - rewrite app_nil_r, app_assoc.
    rewrite (re_read_loop_open_bs d _ Hd (units_app d _ _ Hu (units_bs_even d k))).
    now rewrite (unesc_app d _ _ Hu), (unesc_bs_even d k Hd), <- app_assoc.
  - rewrite <- app_assoc. cbn [app].
    (* generalise: reading units and then  \ x rest *)
    assert (G : forall v, units d v -> re_read_loop d (v ++ 92 :: x :: tail') =
              let (t, r) := re_read_loop d tail' in (unesc d v ++ (if x =? d then [x] else [92; x]) ++ t, r)).
    { induction 1 as [|c s Hc Hbb Hs IH|y s Hs IH]; cbn [app re_read_loop unesc].
      - rewrite (eqb92 d Hd), N.eqb_refl. destruct (re_read_loop d tail') as [t r]. destruct (x =? d); reflexivity.
      - destruct (N.eqb_spec c d); [contradiction|]. destruct (N.eqb_spec c 92); [contradiction|]. rewrite IH.
        destruct (re_read_loop d tail') as [t r]. reflexivity.
      - rewrite (eqb92 d Hd), N.eqb_refl, IH. destruct (re_read_loop d tail') as [t r]. destruct (y =? d); reflexivity. }
    rewrite app_assoc, (G _ (units_app d _ _ Hu (units_bs_even d k))).
    destruct (re_read_loop d tail') as [t r].
    now rewrite (unesc_app d _ _ Hu), (unesc_bs_even d k Hd), <- app_assoc.
Qed.

(* ------------------------------------------------------------------------------------------ *)
(* ec_substitute's three fields *)

Theorem subst_args_closed d p r flags : d <> 92 -> units d p -> units d r ->
  subst_args (d :: p ++ d :: r ++ d :: flags) = (Some (unesc d p), Some (unesc d r), flags).
Proof.
  intros Hd Hp Hr. unfold subst_args. rewrite (re_read_loop_units d p _ Hd Hp).
  destruct (r ++ d :: flags) as [|y l] eqn:E; [now destruct r|]. rewrite <- E.
  now rewrite (re_read_loop_units d r _ Hd Hr).
Qed.

(* no closing delimiter after the replacement: nothing is left for the flags, with or without a trailing backslash *)
Theorem subst_args_open d p r : d <> 92 -> units d p -> units d r -> r <> [] ->
  subst_args (d :: p ++ d :: r) = (Some (unesc d p), Some (unesc d r), []) /\
  subst_args (d :: p ++ d :: r ++ [92]) = (Some (unesc d p), Some (unesc d r ++ [92]), []).
Proof.
  intros Hd Hp Hr Hne. unfold subst_args. rewrite !(re_read_loop_units d p _ Hd Hp). split.
  - destruct r as [|y l] eqn:E; [contradiction|]. rewrite <- E in *. now rewrite (re_read_loop_open d r Hd Hr).
  - destruct (r ++ [92]) as [|y l] eqn:E; [now destruct r|]. rewrite <- E. now rewrite (re_read_loop_open_bs d r Hd Hr).
Qed.

(* no replacement at all: s/pat  and  s/pat/ *)
Theorem subst_args_norep d p : d <> 92 -> units d p ->
  subst_args (d :: p) = (Some (unesc d p), None, []) /\
  subst_args (d :: p ++ [92]) = (Some (unesc d p ++ [92]), None, []) /\
  subst_args (d :: p ++ [d]) = (Some (unesc d p), None, []) /\
  subst_args (d :: p ++ [d; 92]) = (Some (unesc d p), Some [92], []).
Proof.
  intros Hd Hp. unfold subst_args.
  rewrite (re_read_loop_open d p Hd Hp), (re_read_loop_open_bs d p Hd Hp), !(re_read_loop_units d p _ Hd Hp).
  cbn [re_read_loop]. rewrite (eqb92 d Hd), N.eqb_refl. repeat split; reflexivity.
Qed.

Lemma setup_g_args st arg : setup_g st arg = has_g (snd (subst_args arg)).
Proof. unfold setup_g, subst_setup. destruct (subst_args arg) as [[pat rep] flags]. reflexivity. Qed.

(* the g flag, closed form: whatever the pattern and the replacement are made of, g is on exactly when the byte g
   occurs AFTER the closing delimiter of the replacement *)
Theorem gflag_closed st d p r flags : d <> 92 -> units d p -> units d r ->
  setup_g st (d :: p ++ d :: r ++ d :: flags) = has_g flags /\
  setup_xrep st (d :: p ++ d :: r ++ d :: flags) = unesc d r.
Proof.
  intros Hd Hp Hr. unfold setup_g, setup_xrep, subst_setup. rewrite (subst_args_closed d p r flags Hd Hp Hr).
  split; reflexivity.
Qed.

(* two replacements, same flags: same g *)
Corollary gflag_indep_of_replacement st d p r r' flags : d <> 92 -> units d p -> units d r -> units d r' ->
  setup_g st (d :: p ++ d :: r ++ d :: flags) = setup_g st (d :: p ++ d :: r' ++ d :: flags).
Proof.
  intros Hd Hp Hr Hr'. destruct (gflag_closed st d p r flags Hd Hp Hr) as [-> _].
  now destruct (gflag_closed st d p r' flags Hd Hp Hr') as [-> _].
Qed.

(* without the closing delimiter of the replacement there is no g, whatever the replacement holds *)
Theorem gflag_open st d p r : d <> 92 -> units d p -> units d r ->
  setup_g st (d :: p ++ d :: r) = false /\ setup_g st (d :: p ++ d :: r ++ [92]) = false /\
  setup_g st (d :: p) = false /\ setup_g st (d :: p ++ [92]) = false.
Proof.
  intros Hd Hp Hr. rewrite !setup_g_args.
  destruct (subst_args_norep d p Hd Hp) as (E1 & E2 & E3 & E4).
  destruct r as [|y l] eqn:E.
  - cbn [app]. rewrite E1, E2, E3, E4. repeat split; reflexivity.
  - rewrite <- E in *. assert (Hne : r <> []) by (rewrite E; discriminate).
    destruct (subst_args_open d p r Hd Hp Hr Hne) as [F1 F2]. rewrite F1, F2, E1, E2. repeat split; reflexivity.
Qed.

(* ... and the complete statement: for EVERY argument string (delimiter not a backslash) g is on if and only if the
   argument has a pattern, a replacement, the closing delimiter of the replacement, and a g behind it *)
Theorem gflag_iff st d s : d <> 92 ->
  setup_g st (d :: s) = true <->
  exists p r flags, units d p /\ units d r /\ s = p ++ d :: r ++ d :: flags /\ In 103 flags.
Proof.
  intros Hd. split.
  - intro H. destruct (decompose d s Hd) as (p & Hp & [->|[->|(t1 & ->)]]).
    + destruct (gflag_open st d p [] Hd Hp (U_nil d)) as (_ & _ & E & _). rewrite E in H. discriminate.
    + destruct (gflag_open st d p [] Hd Hp (U_nil d)) as (_ & _ & _ & E). rewrite E in H. discriminate.
    + destruct (decompose d t1 Hd) as (r & Hr & [->|[->|(flags & ->)]]).
      * destruct (gflag_open st d p r Hd Hp Hr) as (E & _). rewrite E in H. discriminate.
      * destruct (gflag_open st d p r Hd Hp Hr) as (_ & E & _). rewrite E in H. discriminate.
      * destruct (gflag_closed st d p r flags Hd Hp Hr) as [E _]. rewrite E in H.
        exists p, r, flags. repeat split; try assumption.
        unfold has_g in H. apply existsb_exists in H. destruct H as (x & Hin & Hx).
        apply N.eqb_eq in Hx. now subst x.
  - intros (p & r & flags & Hp & Hr & -> & Hin).
    destruct (gflag_closed st d p r flags Hd Hp Hr) as [-> _].
    unfold has_g. apply existsb_exists. exists 103. split; [exact Hin|reflexivity].
Qed.
