(* CLiteExt.v -- calls to functions that are NOT translated (the X_<name> indices of GenCFuncs.v), relative to an oracle.

   `callf prog` gives a call to an index outside `prog` the meaning Err EShape, so a function whose body calls an
   untranslated function (bufs_load -> reg_put, bufs_free -> lbuf_free) has no successful run under callf.  `callx ext prog`
   is callf with ONE difference: a call to an index outside `prog` is `ext f args m` -- whatever the oracle `ext` says
   that function does to the memory.  Theorems about such functions are stated for EVERY oracle, with hypotheses about
   the oracle's answers on the calls that are reached ("if reg_put, called with these arguments on this memory, returns
   and leaves memory m', then bufs_load returns and leaves m'").

   * callf_callx0      callf is callx with the oracle that always fails (by conversion);
   * callx_mono        a call that succeeds under callf (so: reached no untranslated function) succeeds with the same
                       result under callx ext, for every oracle: the theorems proved about callf carry over;
   * eval_mono, exec_mono   the same for expressions and statements, for any two call semantics c1 <= c2. *)
From Coq Require Import List ZArith Bool Lia.
From NV Require Import CLite CLiteProps.
Import ListNotations.
Local Open Scope Z_scope.

Section Ext.
  Variable ext : nat -> list val -> mem -> res (val * mem).
  Fixpoint callx (prog : list cfunc) (fuel : nat) (depth : nat) (f : nat) (args : list val) (m : mem)
    : res (val * mem) :=
    match depth with
    | O => Err EFuel
    | S d =>
        match nth_error prog f with
        | None => ext f args m
        | Some fn =>
            if Nat.eqb (length args) (fn_nparams fn) then
              match exec (callx prog fuel d) fuel (fn_body fn)
                         (mkst (args ++ repeat VUndef (fn_nlocals fn - fn_nparams fn)) m) with
              | OReturn v st => Ok (v, memm st)
              | ONormal st => Ok (VUndef, memm st)
              | OErr x => Err x
              | _ => Err EShape
              end
            else Err EShape
        end
    end.
  Lemma callx_S prog fuel d f args m :
    callx prog fuel (S d) f args m =
    match nth_error prog f with
    | None => ext f args m
    | Some fn =>
        if Nat.eqb (length args) (fn_nparams fn) then
          match exec (callx prog fuel d) fuel (fn_body fn)
                     (mkst (args ++ repeat VUndef (fn_nlocals fn - fn_nparams fn)) m) with
          | OReturn v st => Ok (v, memm st)
          | ONormal st => Ok (VUndef, memm st)
          | OErr x => Err x
          | _ => Err EShape
          end
        else Err EShape
    end.
  Proof. reflexivity. Qed.
End Ext.

Definition ext_none : nat -> list val -> mem -> res (val * mem) := fun _ _ _ => Err EShape.
Lemma callf_callx0 : callf = callx ext_none.
Proof. reflexivity. Qed.

(* ---- one call semantics below another *)
Definition call_le (c1 c2 : nat -> list val -> mem -> res (val * mem)) : Prop :=
  forall f a m r, c1 f a m = Ok r -> c2 f a m = Ok r.
Definition ok_out (o : outcome) : Prop := match o with OErr _ => False | _ => True end.

Section Mono.
  Variables c1 c2 : nat -> list val -> mem -> res (val * mem).
  Hypothesis Hle : call_le c1 c2.

  Ltac mono IH :=
    repeat (cbn [bind] in *;
      match goal with
      | H : Err _ = Ok _ |- _ => discriminate H
      | H : Ok _ = Ok _ |- Ok _ = Ok _ => exact H
      | H : eval c1 ?a ?s = Ok _ |- eval c2 ?a ?s = Ok _ => exact (IH a _ _ H)
      | H : context [eval c1 ?a ?s] |- context [eval c2 ?a ?s] =>
          let E := fresh "E" in destruct (eval c1 a s) as [[? ?]|?] eqn:E; [rewrite (IH a _ _ E)|discriminate H]
      | H : bind ?x _ = Ok _ |- _ => destruct x eqn:?
      | H : (if ?x then _ else _) = Ok _ |- _ => destruct x eqn:?
      | H : match ?x with _ => _ end = Ok _ |- _ => destruct x eqn:?
      end).

  Fixpoint eval_mono (e : expr) : forall st r, eval c1 e st = Ok r -> eval c2 e st = Ok r.
  Proof.
    destruct e; intros st r H; cbn [eval] in H |- *.
    - exact H.
    - exact H.
    - exact H.
    - mono eval_mono.
    - mono eval_mono.
    - mono eval_mono.
    - mono eval_mono.
    - mono eval_mono.
    - mono eval_mono.
    - mono eval_mono.
    - mono eval_mono.
    - (* ECond *)
      destruct (eval c1 e1 st) as [[v s]|?] eqn:E; [rewrite (eval_mono e1 _ _ E)|discriminate H]. cbn [bind] in *.
      destruct (truth v) as [[|]|?]; cbn [bind] in *; [exact (eval_mono e2 _ _ H)|exact (eval_mono e3 _ _ H)|discriminate H].
    - (* EAndAlso *)
      destruct (eval c1 e1 st) as [[v s]|?] eqn:E; [rewrite (eval_mono e1 _ _ E)|discriminate H]. cbn [bind] in *.
      destruct (truth v) as [[|]|?]; cbn [bind] in *; [|exact H|discriminate H]. mono eval_mono.
    - (* EOrElse *)
      destruct (eval c1 e1 st) as [[v s]|?] eqn:E; [rewrite (eval_mono e1 _ _ E)|discriminate H]. cbn [bind] in *.
      destruct (truth v) as [[|]|?]; cbn [bind] in *; [exact H| |discriminate H]. mono eval_mono.
    - mono eval_mono.
    - mono eval_mono.
    - exact H.
    - (* ECall *)
      match type of H with bind (?ev args st) _ = _ => set (ev1 := ev) in * end.
      match goal with |- bind (?ev args st) _ = _ => set (ev2 := ev) in * end.
      assert (Hl : forall st r, ev1 args st = Ok r -> ev2 args st = Ok r).
      { clear H. induction args as [|a l IHl]; intros st0 r0 H0; cbn in H0 |- *; [exact H0|].
        destruct (eval c1 a st0) as [[v s]|?] eqn:E; [rewrite (eval_mono a _ _ E)|discriminate H0]. cbn [bind] in *.
        fold ev1 in H0. fold ev2. destruct (ev1 l s) as [[vs s2]|?] eqn:E2; [rewrite (IHl _ _ E2)|discriminate H0]. exact H0. }
      destruct (ev1 args st) as [[vs s]|?] eqn:E; [rewrite (Hl _ _ E)|discriminate H]. cbn [bind] in *.
      destruct (c1 f vs (memm s)) as [[v m']|?] eqn:E2; [rewrite (Hle _ _ _ _ E2)|discriminate H]. exact H.
    - (* EBuiltin *)
      match type of H with bind (?ev args st) _ = _ => set (ev1 := ev) in * end.
      match goal with |- bind (?ev args st) _ = _ => set (ev2 := ev) in * end.
      assert (Hl : forall st r, ev1 args st = Ok r -> ev2 args st = Ok r).
      { clear H. induction args as [|a l IHl]; intros st0 r0 H0; cbn in H0 |- *; [exact H0|].
        destruct (eval c1 a st0) as [[v s]|?] eqn:E; [rewrite (eval_mono a _ _ E)|discriminate H0]. cbn [bind] in *.
        fold ev1 in H0. fold ev2. destruct (ev1 l s) as [[vs s2]|?] eqn:E2; [rewrite (IHl _ _ E2)|discriminate H0]. exact H0. }
      destruct (ev1 args st) as [[vs s]|?] eqn:E; [rewrite (Hl _ _ E)|discriminate H]. exact H.
    - mono eval_mono.
    - mono eval_mono.
  Qed.
End Mono.

(* ---- the statement forms CLiteProps.v has no unfolding lemma for *)
Definition swx_has (z : Z) (segs : list (list (option Z) * stmt)) : bool :=
  existsb (fun seg => existsb (fun l => match l with Some k => k =? z | None => false end) (fst seg)) segs.
Definition swx_hit (z : Z) (segs : list (list (option Z) * stmt)) (labs : list (option Z)) : bool :=
  existsb (fun l => match l with Some k => swx_has z segs && (k =? z) | None => negb (swx_has z segs) end) labs.
Section SwRun.
  Variable go : stmt -> state -> outcome.
  Variable hit : list (option Z) -> bool.
  Fixpoint swx_run (l : list (list (option Z) * stmt)) (started : bool) (st : state) : outcome :=
    match l with
    | [] => ONormal st
    | (labs, s0) :: r =>
        if started || hit labs then
          match go s0 st with
          | ONormal st2 => swx_run r true st2
          | OBreak st2 => ONormal st2
          | o => o
          end
        else swx_run r false st
    end.
End SwRun.
Section ExecLemmas2.
  Variable call : nat -> list val -> mem -> res (val * mem).
  Lemma exec_switchx f e segs st :
    exec call f (SSwitch e segs) st =
    match eval call e st with
    | Ok (v, st1) => match as_int v with
                     | Ok z => swx_run (exec call f) (swx_hit z segs) segs false st1
                     | Err x => OErr x
                     end
    | Err x => OErr x
    end.
  Proof. destruct f; reflexivity. Qed.
  Lemma exec_dowhile f b c st :
    exec call (S f) (SDoWhile b c) st =
    match exec call (S f) b st with
    | ONormal st1 | OContinue st1 =>
        match eval call c st1 with
        | Ok (v, st2) => match truth v with
                         | Ok true => exec call f (SDoWhile b c) st2
                         | Ok false => ONormal st2
                         | Err x => OErr x
                         end
        | Err x => OErr x
        end
    | OBreak st1 => ONormal st1
    | o => o
    end.
  Proof. reflexivity. Qed.
  Lemma exec_while_O c b st : exec call 0 (SWhile c b) st = OErr EFuel.
  Proof. reflexivity. Qed.
  Lemma exec_dowhile_O b c st : exec call 0 (SDoWhile b c) st = OErr EFuel.
  Proof. reflexivity. Qed.
  Lemma exec_for_O c stp b st : exec call 0 (SFor c stp b) st = OErr EFuel.
  Proof. reflexivity. Qed.
End ExecLemmas2.

Section MonoExec.
  Variables c1 c2 : nat -> list val -> mem -> res (val * mem).
  Hypothesis Hle : call_le c1 c2.

  Lemma eval_opt_mono e st r : eval_opt c1 e st = Ok r -> eval_opt c2 e st = Ok r.
  Proof. destruct e; cbn [eval_opt]; [apply (eval_mono c1 c2 Hle)|auto]. Qed.

  Lemma swx_run_mono (go1 go2 : stmt -> state -> outcome) hit l :
    Forall (fun seg => forall st o, go1 (snd seg) st = o -> ok_out o -> go2 (snd seg) st = o) l ->
    forall started st o, swx_run go1 hit l started st = o -> ok_out o -> swx_run go2 hit l started st = o.
  Proof.
    induction 1 as [|[labs s0] r Hx Hr IH]; intros started st o H Ho; [exact H|].
    cbn [swx_run snd] in *. destruct (started || hit labs); [|exact (IH _ _ _ H Ho)].
    destruct (go1 s0 st) eqn:E; try (rewrite (Hx st _ E I); first [exact H|exact (IH _ _ _ H Ho)]). subst o; destruct Ho.
  Qed.

  (* a statement that ends without an error under c1 ends in the same way under c2 *)
  Lemma exec_mono : forall fuel s st o, exec c1 fuel s st = o -> ok_out o -> exec c2 fuel s st = o.
  Proof.
    induction fuel as [|f IHf].
    - fix IHs 1. intros s st o H Ho. destruct s as [|e|s1 s2|c sa sb|c sb|sb c|c stp sb|oe| | |e segs].
      + exact H.
      + rewrite exec_expr in H |- *. destruct (eval c1 e st) as [[v s]|?] eqn:E; [rewrite (eval_mono c1 c2 Hle _ _ _ E); exact H|subst o; destruct Ho].
      + rewrite exec_seq in H |- *. destruct (exec c1 0 s1 st) eqn:E; try (rewrite (IHs s1 st _ E I); first [exact H|exact (IHs _ _ _ H Ho)]); subst o; destruct Ho.
      + rewrite exec_if in H |- *. destruct (eval c1 c st) as [[v s]|?] eqn:E; [rewrite (eval_mono c1 c2 Hle _ _ _ E)|subst o; destruct Ho].
        destruct (truth v) as [[|]|?]; [exact (IHs _ _ _ H Ho)|exact (IHs _ _ _ H Ho)|subst o; destruct Ho].
      + subst o; destruct Ho.
      + subst o; destruct Ho.
      + subst o; destruct Ho.
      + destruct oe as [e|]; [|exact H]. rewrite exec_return in H |- *.
        destruct (eval c1 e st) as [[v s]|?] eqn:E; [rewrite (eval_mono c1 c2 Hle _ _ _ E); exact H|subst o; destruct Ho].
      + exact H.
      + exact H.
      + rewrite exec_switchx in H |- *. destruct (eval c1 e st) as [[v s]|?] eqn:E; [rewrite (eval_mono c1 c2 Hle _ _ _ E)|subst o; destruct Ho].
        destruct (as_int v) as [z|?]; [|subst o; destruct Ho].
        refine (swx_run_mono _ _ _ _ _ _ _ _ H Ho). clear H.
        induction segs as [|[labs s0] r IHr]; constructor; [intros st0 o0; apply IHs|exact IHr].
    - fix IHs 1. intros s st o H Ho. destruct s as [|e|s1 s2|c sa sb|c sb|sb c|c stp sb|oe| | |e segs].
      + exact H.
      + rewrite exec_expr in H |- *. destruct (eval c1 e st) as [[v s]|?] eqn:E; [rewrite (eval_mono c1 c2 Hle _ _ _ E); exact H|subst o; destruct Ho].
      + rewrite exec_seq in H |- *. destruct (exec c1 (S f) s1 st) eqn:E; try (rewrite (IHs s1 st _ E I); first [exact H|exact (IHs _ _ _ H Ho)]); subst o; destruct Ho.
      + rewrite exec_if in H |- *. destruct (eval c1 c st) as [[v s]|?] eqn:E; [rewrite (eval_mono c1 c2 Hle _ _ _ E)|subst o; destruct Ho].
        destruct (truth v) as [[|]|?]; [exact (IHs _ _ _ H Ho)|exact (IHs _ _ _ H Ho)|subst o; destruct Ho].
      + (* SWhile *)
        rewrite exec_while in H |- *. destruct (eval c1 c st) as [[v s]|?] eqn:E; [rewrite (eval_mono c1 c2 Hle _ _ _ E)|subst o; destruct Ho].
        destruct (truth v) as [[|]|?]; [|exact H|subst o; destruct Ho].
        destruct (exec c1 (S f) sb s) eqn:E2; try (rewrite (IHs sb s _ E2 I); first [exact H|exact (IHf _ _ _ H Ho)]); subst o; destruct Ho.
      + (* SDoWhile *)
        rewrite exec_dowhile in H |- *.
        destruct (exec c1 (S f) sb st) eqn:E2; try (rewrite (IHs sb st _ E2 I)); try exact H; try (subst o; destruct Ho);
        (destruct (eval c1 c st0) as [[v s]|?] eqn:E; [rewrite (eval_mono c1 c2 Hle _ _ _ E)|subst o; destruct Ho]);
        (destruct (truth v) as [[|]|?]; [exact (IHf _ _ _ H Ho)|exact H|subst o; destruct Ho]).
      + (* SFor *)
        rewrite exec_for in H |- *. destruct (eval_opt c1 c st) as [[v s]|?] eqn:E; [rewrite (eval_opt_mono _ _ _ E)|subst o; destruct Ho].
        destruct (truth v) as [[|]|?]; [|exact H|subst o; destruct Ho].
        destruct (exec c1 (S f) sb s) eqn:E2; try (rewrite (IHs sb s _ E2 I)); try exact H; try (subst o; destruct Ho);
        (destruct stp as [stp|]; [|exact (IHf _ _ _ H Ho)]);
        (destruct (eval c1 stp st0) as [[v' s']|?] eqn:E3; [rewrite (eval_mono c1 c2 Hle _ _ _ E3); exact (IHf _ _ _ H Ho)|subst o; destruct Ho]).
      + destruct oe as [e|]; [|exact H]. rewrite exec_return in H |- *.
        destruct (eval c1 e st) as [[v s]|?] eqn:E; [rewrite (eval_mono c1 c2 Hle _ _ _ E); exact H|subst o; destruct Ho].
      + exact H.
      + exact H.
      + rewrite exec_switchx in H |- *. destruct (eval c1 e st) as [[v s]|?] eqn:E; [rewrite (eval_mono c1 c2 Hle _ _ _ E)|subst o; destruct Ho].
        destruct (as_int v) as [z|?]; [|subst o; destruct Ho].
        refine (swx_run_mono _ _ _ _ _ _ _ _ H Ho). clear H.
        induction segs as [|[labs s0] r IHr]; constructor; [intros st0 o0; apply IHs|exact IHr].
  Qed.
End MonoExec.

(* a call that succeeds without reaching an untranslated function succeeds with the same result whatever the oracle *)
Theorem callx_mono ext prog fuel : forall d f args m r,
  callf prog fuel d f args m = Ok r -> callx ext prog fuel d f args m = Ok r.
Proof.
  induction d as [|d IH]; intros f args m r H; [discriminate H|].
  rewrite callf_S in H. rewrite callx_S. destruct (nth_error prog f) as [fn|]; [|discriminate H].
  destruct (Nat.eqb (length args) (fn_nparams fn)); [|discriminate H].
  destruct (exec (callf prog fuel d) fuel (fn_body fn) (mkst (args ++ repeat VUndef (fn_nlocals fn - fn_nparams fn)) m)) eqn:E;
    try discriminate H; rewrite (exec_mono _ _ IH _ _ _ _ E I); exact H.
Qed.
Print Assumptions callx_mono.
