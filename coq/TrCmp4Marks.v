(* TrCmp4Marks.v -- C04, composition (part 4): the mark helpers of lbuf_undo / lbuf_redo once more, this time with the VALUES they
   leave bounded: TrUndoBase.tr_markcopy / tr_loadpos / tr_loadmark say that the mark cells hold integers afterwards (mk_eq);
   here: if every mark row of the struct is an int <= B before (rows_le), the row lbuf_loadpos writes (lo->pos) is <= B and the
   saved rows lbuf_loadmark restores are <= B, then every row is an int <= B afterwards.  Same proof scripts, one more conclusion.
   With it one iteration of lbuf_undo / lbuf_redo keeps a bound on the rows (undo_step_b / redo_step_b), so the side conditions of
   the NEXT splice follow from a bound at the start of the call: TrCmp4Bound.v. *)
From Coq Require Import List ZArith NArith Bool Lia.
From NV Require Import Bytes GenConsts CLite CLiteProps GenCFuncs CLiteTac CLiteExt TrLbufBase UndoDefs TrUndoBase TrUndo.
From NV Require TrLbuf TrLbufMarks CapDefs2.
Import ListNotations.
Local Open Scope Z_scope.

Definition rows_le (B : Z) (blk : block) : Prop := forall k, (k < 32)%nat -> exists z, nth_error blk k = Some (VInt z) /\ i32 z /\ z <= B.
Lemma rows_le_upd_hi B (blk : block) j v : length blk = LBUF_CELLS -> (32 <= j < 75)%nat -> rows_le B blk -> rows_le B (upd blk j v).
Proof.
  intros L Hj H k Hk. destruct (H k Hk) as (z & Hz & R). exists z. split; [|exact R].
  rewrite nth_error_upd_other by (first [rewrite L; unfold LBUF_CELLS; lia | lia]). exact Hz.
Qed.
Lemma rows_le_upd_lo B (blk : block) j z : length blk = LBUF_CELLS -> (j < 32)%nat -> i32 z -> z <= B -> rows_le B blk -> rows_le B (upd blk j (VInt z)).
Proof.
  intros L Hj Iz Bz H k Hk. destruct (Nat.eq_dec k j) as [->|Hne].
  - exists z. split; [apply nth_error_upd_same; rewrite L; unfold LBUF_CELLS; lia|split; assumption].
  - destruct (H k Hk) as (z0 & Hz & R). exists z0. split; [|exact R].
    rewrite nth_error_upd_other by (first [rewrite L; unfold LBUF_CELLS; lia | lia]). exact Hz.
Qed.
Lemma rows_le_mono B B' blk : B <= B' -> rows_le B blk -> rows_le B' blk.
Proof. intros HB H k Hk. destruct (H k Hk) as (z & Hz & Iz & Bz). exists z. split; [exact Hz|split; [exact Iz|lia]]. Qed.
Lemma rows_le_ints B (blk : block) : rows_le B blk -> forall k, (k < 32)%nat -> exists z, nth_error blk k = Some (VInt z).
Proof. intros H k Hk. destruct (H k Hk) as (z & Hz & _). exists z. exact Hz. Qed.

(* ------------------------------------------------------------------ lbuf_markcopy(lb, '*', '^') *)
Theorem tr_markcopy_b (m : mem) bl (blk : block) d fuel : nth_error m bl = Some blk -> length blk = LBUF_CELLS -> ints_upto blk 64 ->
  exists blk', callf cprog fuel (S (S d)) F_lbuf_markcopy [VPtr bl 0; VInt 42; VInt 94] m = Ok (VUndef, upd m bl blk') /\ mk_eq blk blk' /\
               forall B, rows_le B blk -> rows_le B blk'.
Proof.
  intros Hb L I. destruct (I 30%nat ltac:(lia)) as [z30 C30]. destruct (I 62%nat ltac:(lia)) as [z62 C62].
  assert (Hbl : (bl < length m)%nat) by (apply nth_error_Some; congruence).
  set (b1 := upd blk 27 (VInt (wrap I32 (wrap I32 z30)))).
  assert (E1 : mk_eq blk b1) by (apply mk_eq_upd; try assumption; lia).
  assert (L1 : length b1 = LBUF_CELLS) by (apply (mk_eq_len _ _ E1 L)).
  exists (upd b1 59 (VInt (wrap I32 (wrap I32 z62)))). split; [|split].
  - enter F_lbuf_markcopy cf_lbuf_markcopy. xstep.
    rewrite (TrLbufMarks.tr_markidx m 42 d fuel ltac:(lia)), markidx_star. xstep.
    rewrite (TrLbufMarks.tr_markidx m 94 d fuel ltac:(lia)), markidx_caret. xstep.
    rewrite (fld_load m bl blk 30 _ _ Hb C30) by reflexivity. xstep.
    rewrite (fld_store m bl blk 27 _ _ Hb) by (try reflexivity; rewrite L; unfold LBUF_CELLS; lia). xstep. fold b1.
    rewrite (TrLbufMarks.tr_markidx _ 42 d fuel ltac:(lia)), markidx_star. xstep.
    rewrite (TrLbufMarks.tr_markidx _ 94 d fuel ltac:(lia)), markidx_caret. xstep.
    assert (C62' : nth_error b1 62 = Some (VInt z62)) by (unfold b1; rewrite nth_error_upd_other by (try lia; rewrite L; unfold LBUF_CELLS; lia); exact C62).
    rewrite (fld_load_upd m bl b1 62 _ _ Hbl C62') by reflexivity. xstep.
    rewrite (fld_store_upd m bl b1 59 _ _ Hbl) by (try reflexivity; rewrite L1; unfold LBUF_CELLS; lia). reflexivity.
  - apply (mk_eq_trans _ _ _ E1). apply mk_eq_upd; [exact L1|apply (mk_eq_ints _ _ E1)|lia].
  - intros B HB. destruct (HB 30%nat ltac:(lia)) as (z & Hz & Iz & Bz). rewrite C30 in Hz. injection Hz as <-.
    apply rows_le_upd_hi; [exact L1|lia|]. unfold b1. rewrite !(wrap_I32_id z30 Iz). apply rows_le_upd_lo; try assumption. lia.
Qed.

(* ------------------------------------------------------------------ lbuf_loadpos(lb, lo) *)
Theorem tr_loadpos_b (m : mem) bl bh (blk hblk : block) i p off d fuel : nth_error m bl = Some blk -> length blk = LBUF_CELLS -> ints_upto blk 64 ->
  bh <> bl -> nth_error m bh = Some hblk -> (9 * i + 9 <= length hblk)%nat ->
  hc hblk (9 * i + 2) = VInt p -> hc hblk (9 * i + 5) = VInt off ->
  exists blk', callf cprog fuel (S (S (S d))) F_lbuf_loadpos [VPtr bl 0; VPtr bh (Z.of_nat (9 * i))] m = Ok (VUndef, upd m bl blk') /\ mk_eq blk blk' /\
               forall B, rows_le B blk -> i32 p -> p <= B -> rows_le B blk'.
Proof.
  intros Hb L I Hne Hh Hlen Hp Ho.
  assert (Hbl : (bl < length m)%nat) by (apply nth_error_Some; congruence).
  set (b1 := upd blk 30 (VInt (wrap I32 (wrap I32 p)))).
  assert (E1 : mk_eq blk b1) by (apply mk_eq_upd; try assumption; lia).
  assert (L1 : length b1 = LBUF_CELLS) by (apply (mk_eq_len _ _ E1 L)).
  set (b2 := upd b1 62 (VInt (wrap I32 (wrap I32 off)))).
  assert (E2 : mk_eq b1 b2) by (apply mk_eq_upd; [exact L1|apply (mk_eq_ints _ _ E1)|lia]).
  assert (L2 : length b2 = LBUF_CELLS) by (apply (mk_eq_len _ _ E2 L1)).
  destruct (tr_markcopy_b (upd m bl b2) bl b2 d fuel (mem_upd_same m bl b2 Hbl) L2 (mk_eq_ints _ _ E2)) as (blk' & C & E3 & V3).
  exists blk'. split; [|split; [apply (mk_eq_trans _ _ _ E1), (mk_eq_trans _ _ _ E2), E3|]].
  - enter F_lbuf_loadpos cf_lbuf_loadpos. xstep.
    rewrite (TrLbufMarks.tr_markidx m 94 (S d) fuel ltac:(lia)), markidx_caret. xstep.
    rewrite (hc_load m bh hblk (9 * i + 2) _ Hh) by lia. rewrite Hp. xstep.
    rewrite (fld_store m bl blk 30 _ _ Hb) by (try reflexivity; rewrite L; unfold LBUF_CELLS; lia). xstep. fold b1.
    rewrite (TrLbufMarks.tr_markidx _ 94 (S d) fuel ltac:(lia)), markidx_caret. xstep.
    rewrite load_upd_other_block by assumption.
    rewrite (hc_load m bh hblk (9 * i + 5) _ Hh) by lia. rewrite Ho. xstep.
    rewrite (fld_store_upd m bl b1 62 _ _ Hbl) by (try reflexivity; rewrite L1; unfold LBUF_CELLS; lia). xstep. fold b2.
    rewrite C. xstep. rewrite upd_upd by exact Hbl. reflexivity.
  - intros B HB Ip Bp. apply V3. unfold b2. apply rows_le_upd_hi; [exact L1|lia|]. unfold b1. rewrite !(wrap_I32_id p Ip).
    apply rows_le_upd_lo; try assumption. lia.
Qed.

(* ------------------------------------------------------------------ lbuf_loadmark(lb, lo, j) *)
Definition saved_le (B : Z) (m : mem) (hblk : block) (i : nat) : Prop :=
  forall bm (mb : block) j z, hc hblk (9 * i + 7) = VPtr bm 0 -> nth_error m bm = Some mb -> nth_error mb j = Some (VInt z) -> z <= B.
Theorem tr_loadmark_b (m : mem) bl bh (blk hblk : block) i j d fuel : nth_error m bl = Some blk -> length blk = LBUF_CELLS -> ints_upto blk 64 ->
  bh <> bl -> nth_error m bh = Some hblk -> (9 * i + 9 <= length hblk)%nat -> mark_part m hblk i -> ~ In bl (mark_blocks hblk i) ->
  (j < 32)%nat ->
  exists blk', callf cprog fuel (S d) F_lbuf_loadmark [VPtr bl 0; VPtr bh (Z.of_nat (9 * i)); VInt (Z.of_nat j)] m = Ok (VUndef, upd m bl blk') /\ mk_eq blk blk' /\
               forall B, rows_le B blk -> saved_le B m hblk i -> rows_le B blk'.
Proof.
  intros Hb L I Hne Hh Hlen Hm Hnb Hj.
  assert (Hbl : (bl < length m)%nat) by (apply nth_error_Some; congruence).
  enter F_lbuf_loadmark cf_lbuf_loadmark. xstep.
  rewrite (hc_load m bh hblk (9 * i + 7) _ Hh) by lia.
  destruct Hm as [[H7 H8]|(bm & bo & H7 & H8 & Hne2 & mb & ob & Hmb & Hob & Lm & Lo & R)].
  - rewrite H7. xstep. exists blk. split; [rewrite (upd_self m bl blk Hb); reflexivity|split; [apply mk_eq_refl; exact I|auto]].
  - unfold mark_blocks in Hnb. rewrite H7, H8 in Hnb. cbn [ptr_block app In] in Hnb.
    assert (Nbm : bm <> bl) by tauto. assert (Nbo : bo <> bl) by tauto.
    rewrite H7. xstep. rewrite (hc_load m bh hblk (9 * i + 7) _ Hh) by lia. rewrite H7. xstep.
    destruct (R j Hj) as (z & Cz & Iz & Hw).
    rewrite (fld_load m bm mb j _ _ Hmb Cz) by lia. xstep. rewrite (wrap_I32_id _ Iz).
    destruct (Z.leb_spec 0 z) as [G|G]; xstep.
    + destruct (Hw G) as (w & Cw).
      rewrite (hc_load m bh hblk (9 * i + 7) _ Hh) by lia. rewrite H7. xstep.
      rewrite (fld_load m bm mb j _ _ Hmb Cz) by lia. xstep.
      rewrite (fld_store m bl blk j _ _ Hb) by (try lia; rewrite L; unfold LBUF_CELLS; lia). xstep.
      set (b1 := upd blk j _).
      assert (E1 : mk_eq blk b1) by (apply mk_eq_upd; try assumption; lia).
      assert (L1 : length b1 = LBUF_CELLS) by (apply (mk_eq_len _ _ E1 L)).
      rewrite load_upd_other_block by assumption.
      rewrite (hc_load m bh hblk (9 * i + 8) _ Hh) by lia. rewrite H8. xstep.
      rewrite load_upd_other_block by assumption.
      rewrite (fld_load m bo ob j _ _ Hob Cw) by lia. xstep.
      rewrite (fld_store_upd m bl b1 (32 + j) _ _ Hbl) by (try lia; rewrite L1; unfold LBUF_CELLS; lia). xstep.
      eexists. split; [reflexivity|]. split; [apply (mk_eq_trans _ _ _ E1); apply mk_eq_upd; [exact L1|apply (mk_eq_ints _ _ E1)|lia]|].
      intros B HB HS. apply rows_le_upd_hi; [exact L1|lia|]. unfold b1. rewrite ?(wrap_I32_id z Iz).
      apply rows_le_upd_lo; try assumption. apply (HS bm mb j z H7 Hmb Cz).
    + exists blk. split; [rewrite (upd_self m bl blk Hb); reflexivity|split; [apply mk_eq_refl; exact I|auto]].
Qed.

Lemma saved_le_keep B (m m' : mem) hblk i : saved_le B m hblk i ->
  (forall bm, hc hblk (9 * i + 7) = VPtr bm 0 -> nth_error m' bm = nth_error m bm) -> saved_le B m' hblk i.
Proof. intros H K bm mb j z H7 Hm Hz. rewrite (K bm H7) in Hm. apply (H bm mb j z H7 Hm Hz). Qed.

Section StepB.
  Variable ext : nat -> list val -> mem -> res (val * mem).
  Variable T : Tpred.
  Hypothesis TF : T_frame T.
  Variables (bl bh : nat) (hblk : block).
  Variables (d fuel : nat).
  Let cx := callx ext cprog fuel (S (S (S d))).

  Lemma undo_marks_ok_b q i : forall k j (m : mem) (blk : block) fuel', (j + k = 32)%nat ->
    nth_error m bl = Some blk -> length blk = LBUF_CELLS -> ints_upto blk 64 -> bh <> bl -> nth_error m bh = Some hblk ->
    (9 * i + 9 <= length hblk)%nat -> mark_part m hblk i -> ~ In bl (mark_blocks hblk i) -> (k < fuel')%nat ->
    exists blk', exec cx fuel' undo_marks (mkst [VPtr bl 0; VInt q; VInt (Z.of_nat j); VPtr bh (Z.of_nat (9 * i))] m)
                 = ONormal (mkst [VPtr bl 0; VInt q; VInt 32; VPtr bh (Z.of_nat (9 * i))] (upd m bl blk')) /\ mk_eq blk blk' /\
                 forall B, rows_le B blk -> saved_le B m hblk i -> rows_le B blk'.
  Proof.
    induction k as [|k IH]; intros j m blk fuel' Hjk Hb L I Hne Hh Hlen Hm Hnb Hf; (destruct fuel' as [|fuel']; [lia|]);
      unfold undo_marks, undo_body, undo_while; cbn [fn_body cf_lbuf_undo]; rewrite exec_for; xstep.
    - assert (j = 32)%nat by lia. subst j. div32. xstep. rewrite wrap_U64_id by lia. change (Z.of_nat 32 <? 32) with false. xstep.
      exists blk. split; [rewrite (upd_self m bl blk Hb); reflexivity|split; [apply mk_eq_refl; exact I|auto]].
    - div32. xstep. rewrite wrap_U64_id by lia. destruct (Z.ltb_spec (Z.of_nat j) 32); [|lia]. xstep.
      destruct (tr_loadmark_b m bl bh blk hblk i j (S (S d)) fuel Hb L I Hne Hh Hlen Hm Hnb ltac:(lia)) as (b1 & C1 & E1 & V1).
      unfold cx. rewrite (callx_mono ext _ _ _ _ _ _ _ C1). xstep. rewrite chk_I32 by lia. xstep.
      assert (Hbl : (bl < length m)%nat) by (apply nth_error_Some; congruence).
      replace (Z.of_nat j + 1) with (Z.of_nat (S j)) by lia.
      assert (Kb : forall bm, hc hblk (9 * i + 7) = VPtr bm 0 -> nth_error (upd m bl b1) bm = nth_error m bm).
      { intros bm H7. apply mem_upd_other; [exact Hbl|]. intro X. apply Hnb. unfold mark_blocks. rewrite H7. cbn [ptr_block app In]. left. exact X. }
      destruct (IH (S j) (upd m bl b1) b1 fuel' ltac:(lia) (mem_upd_same m bl b1 Hbl) (mk_eq_len _ _ E1 L) (mk_eq_ints _ _ E1) Hne) as (b2 & C2 & E2 & V2);
        try assumption; try lia.
      + rewrite mem_upd_other by assumption. exact Hh.
      + destruct Hm as [Hm|(bm & bo & H7 & H8 & Hm)]; [left; exact Hm|]. right. exists bm, bo. split; [exact H7|]. split; [exact H8|].
        unfold mark_blocks in Hnb. rewrite H7, H8 in Hnb. cbn [ptr_block app In] in Hnb.
        apply (marr_keeps m); [exact Hm| |]; apply mem_upd_other; try assumption; intro; subst; tauto.
      + unfold undo_marks, undo_body, undo_while in C2; cbn [fn_body cf_lbuf_undo] in C2. fold cx. rewrite C2.
        exists b2. rewrite upd_upd by exact Hbl. split; [reflexivity|split; [apply (mk_eq_trans _ _ _ E1 E2)|]].
        intros B HB HS. apply V2; [apply V1; assumption|]. apply (saved_le_keep B m); [exact HS|exact Kb].
  Qed.

  Lemma undo_step_b (m : mem) (blk : block) lb (q : Z) (l2 l3 : val) fuel' : urep T m bl blk bh hblk lb -> (0 < hist_u lb)%nat -> (32 < fuel')%nat ->
    let u := (hist_u lb - 1)%nat in let lo := nth u (hist lb) dflt in
    let blk1 := upd blk L_hist_u (VInt (Z.of_nat u)) in let m1 := upd m bl blk1 in
    forall r (m2 : mem) (blk2 : block) lb2,
      ext X_lbuf_replace [VPtr bl 0; hc hblk (9 * u + 1); VInt (Z.of_nat (pos lo)); VInt (Z.of_nat (n_ins lo))] m1 = Ok (r, m2) ->
      urep T m2 bl blk2 bh hblk lb2 -> (u < length (hist lb2))%nat ->
      exists m3 blk3, exec cx fuel' undo_body (mkst [VPtr bl 0; VInt q; l2; l3] m)
                      = ONormal (mkst [VPtr bl 0; VInt q; VInt 32; VPtr bh (Z.of_nat (9 * u))] m3) /\
                      urep T m3 bl blk3 bh hblk lb2 /\
                      (forall b, b <> bl -> nth_error m3 b = nth_error m2 b) /\
                      (forall B, rows_le B blk2 -> Z.of_nat (pos (nth u (hist lb2) dflt)) <= B -> saved_le B m2 hblk u -> rows_le B blk3) /\
                      (forall j, (64 <= j)%nat -> nth_error blk3 j = nth_error blk2 j).
  Proof.
    intros R Hu Hf u lo blk1 m1. pose proof R as [Hb L I Cn Rn Cq Ch Csz Cnn Cu Cz Cl Rg Hh Hl He Ho Ht].
    destruct Rg as (Rq & (Ru & Rs) & Rz & Rsz).
    assert (Hbl : (bl < length m)%nat) by (apply nth_error_Some; congruence).
    assert (R1 : urep T m1 bl blk1 bh hblk (set_hu lb u)).
    { apply (urep_struct T m bl blk blk1 bh hblk lb u TF R).
      - unfold blk1. rewrite upd_length; [exact L|rewrite L; unfold LBUF_CELLS, L_hist_u; lia].
      - intros j Hj. unfold blk1. rewrite nth_error_upd_other by (try (rewrite L; unfold LBUF_CELLS, L_hist_u; lia); unfold L_hist_u; lia). apply I. exact Hj.
      - intros j Hj Hne. unfold blk1. apply nth_error_upd_other; [rewrite L; unfold LBUF_CELLS, L_hist_u; lia|exact Hne].
      - unfold blk1. apply nth_error_upd_same. rewrite L; unfold LBUF_CELLS, L_hist_u; lia.
      - unfold u. lia. }
    assert (Hui : (u < length (hist lb))%nat) by (unfold u; lia).
    pose proof (u_ents _ _ _ _ _ _ _ R1 u Hui) as E1. cbn [set_hu hist] in E1. fold lo in E1.
    intros r m2 blk2 lb2 Hext R2 Hu2.
    pose proof R2 as [Hb2 L2 I2 Cn2 Rn2 Cq2 Ch2 Csz2 Cnn2 Cu2 Cz2 Cl2 Rg2 Hh2 Hl2 He2 Ho2 Ht2].
    assert (Nhl : bh <> bl) by (intro X; subst; inversion Ho as [|? ? Hn _]; apply Hn; left; reflexivity).
    assert (Hlen : (9 * u + 9 <= length hblk)%nat) by (rewrite Hl; lia).
    destruct E1 as [E1i E1d E1p E1ni E1nd [zo E1o] E1s E1m (Rp & Rni & Rnd & Rs1)].
    unfold undo_body, undo_while; cbn [fn_body cf_lbuf_undo]. xstep.
    xfld Hb Ch. xfld Hb Cu. rewrite wrap_I32_id by (unfold i31 in *; lia). rewrite chk_I32 by (unfold i31 in *; lia). xstep.
    replace (Z.of_nat (hist_u lb) + -1) with (Z.of_nat u) by (unfold u; lia).
    rewrite (fld_store m bl blk L_hist_u _ _ Hb) by (try reflexivity; rewrite L; unfold LBUF_CELLS, L_hist_u; lia). cbn [fst snd]. xstep.
    fold blk1. fold m1.
    replace (0 + 9 * Z.of_nat u) with (Z.of_nat (9 * u)) by lia.
    assert (Hh1 : nth_error m1 bh = Some hblk) by (apply (u_hblk _ _ _ _ _ _ _ R1)).
    rewrite (hc_load m1 bh hblk (9 * u + 1) _ Hh1) by lia.
    assert (Hd : exists vd, hc hblk (9 * u + 1) = vd /\ (vd = VInt 0 \/ exists b, vd = VPtr b 0)).
    { eexists. split; [reflexivity|]. destruct (del lo); cbn [sown] in E1d; [right; destruct E1d as (_ & b & -> & _); eauto|left; exact E1d]. }
    destruct Hd as (vd & Evd & Hvd). rewrite Evd in *.
    assert (Hbl2 : (bl < length m2)%nat) by (apply nth_error_Some; congruence).
    assert (Nmk : ~ In bl (mark_blocks hblk u)).
    { intro X. inversion Ho2 as [|? ? Hn _]. apply Hn. right. apply (in_log_blocks hblk u); [exact Hu2|apply mark_blocks_ent; exact X]. }
    pose proof (He2 u Hu2) as E2. destruct E2 as [_ _ E2p _ _ [zo2 E2o] _ E2m (Rp2 & _)].
    destruct (tr_loadpos_b m2 bl bh blk2 hblk u _ _ d fuel Hb2 L2 I2 Nhl Hh2 Hlen E2p E2o) as (b3 & C3 & E3 & V3).
    pose proof (urep_marks T m2 bl blk2 b3 bh hblk lb2 TF R2 E3) as R3.
    pose proof (u_ents _ _ _ _ _ _ _ R3 u Hu2) as E3'. destruct E3' as [_ _ _ _ _ _ _ E3m _].
    destruct (undo_marks_ok_b q u 32 0 (upd m2 bl b3) b3 fuel' ltac:(lia) (mem_upd_same m2 bl b3 Hbl2) (mk_eq_len _ _ E3 L2) (mk_eq_ints _ _ E3) Nhl
                (u_hblk _ _ _ _ _ _ _ R3) Hlen E3m Nmk Hf) as (b4 & C4 & E4 & V4).
    unfold undo_marks, undo_body, undo_while in C4; cbn [fn_body cf_lbuf_undo] in C4. change (Z.of_nat 0) with 0 in C4.
    exists (upd (upd m2 bl b3) bl b4), b4. split; [|split; [apply (urep_marks T _ bl b3 b4 bh hblk lb2 TF R3 E4)|split; [|split]]].
    - destruct Hvd as [->|[bd ->]]; xstep;
      (rewrite (hc_load m1 bh hblk (9 * u + 2) _ Hh1) by lia); rewrite E1p; xstep;
      (rewrite (hc_load m1 bh hblk (9 * u + 3) _ Hh1) by lia); rewrite E1ni; xstep;
      (rewrite !wrap_I32_id by (unfold i31 in *; lia));
      unfold cx at 1; rewrite callx_S, x_lbuf_replace_none; rewrite Hext; xstep;
      unfold cx at 1; rewrite (callx_mono ext _ _ _ _ _ _ _ C3); xstep;
      rewrite C4; reflexivity.
    - intros b Nb. rewrite !mem_upd_other by (rewrite ?upd_length by exact Hbl2; assumption). reflexivity.
    - intros B HB Hp HS. apply V4.
      + apply V3; [exact HB| |exact Hp]. unfold i32, i31 in *. lia.
      + apply (saved_le_keep B m2); [exact HS|]. intros bm H7. apply mem_upd_other; [exact Hbl2|].
        intro X. apply Nmk. unfold mark_blocks. rewrite H7. cbn [ptr_block app In]. left. exact X.
    - intros j Hj. destruct E3 as (_ & _ & X3). destruct E4 as (_ & _ & X4). rewrite X4, X3 by exact Hj. reflexivity.
  Qed.

  Lemma redo_step_b (m : mem) (blk : block) lb (q : Z) (l2 : val) fuel' : urep T m bl blk bh hblk lb -> (hist_u lb < length (hist lb))%nat ->
    let u := hist_u lb in let lo := nth u (hist lb) dflt in
    let blk1 := upd blk L_hist_u (VInt (Z.of_nat (S u))) in let m1 := upd m bl blk1 in
    forall r (m2 : mem) (blk2 : block) lb2,
      ext X_lbuf_replace [VPtr bl 0; hc hblk (9 * u); VInt (Z.of_nat (pos lo)); VInt (Z.of_nat (n_del lo))] m1 = Ok (r, m2) ->
      urep T m2 bl blk2 bh hblk lb2 -> (u < length (hist lb2))%nat ->
      exists (m3 : mem) (blk3 : block), exec cx fuel' redo_body (mkst [VPtr bl 0; VInt q; l2] m)
                      = ONormal (mkst [VPtr bl 0; VInt q; VPtr bh (Z.of_nat (9 * u))] m3) /\
                      urep T m3 bl blk3 bh hblk lb2 /\
                      (forall b, b <> bl -> nth_error m3 b = nth_error m2 b) /\
                      (forall B, rows_le B blk2 -> Z.of_nat (pos (nth u (hist lb2) dflt)) <= B -> rows_le B blk3) /\
                      (forall j, (64 <= j)%nat -> nth_error blk3 j = nth_error blk2 j).
  Proof.
    intros R Hu u lo blk1 m1. pose proof R as [Hb L I Cn Rn Cq Ch Csz Cnn Cu Cz Cl Rg Hh Hl He Ho Ht].
    destruct Rg as (Rq & (Ru & Rs) & Rz & Rsz).
    assert (Hbl : (bl < length m)%nat) by (apply nth_error_Some; congruence).
    assert (R1 : urep T m1 bl blk1 bh hblk (set_hu lb (S u))).
    { apply (urep_struct T m bl blk blk1 bh hblk lb (S u) TF R).
      - unfold blk1. rewrite upd_length; [exact L|rewrite L; unfold LBUF_CELLS, L_hist_u; lia].
      - intros j Hj. unfold blk1. rewrite nth_error_upd_other by (try (rewrite L; unfold LBUF_CELLS, L_hist_u; lia); unfold L_hist_u; lia). apply I. exact Hj.
      - intros j Hj Hne. unfold blk1. apply nth_error_upd_other; [rewrite L; unfold LBUF_CELLS, L_hist_u; lia|exact Hne].
      - unfold blk1. apply nth_error_upd_same. rewrite L; unfold LBUF_CELLS, L_hist_u; lia.
      - unfold u. lia. }
    assert (Hui : (u < length (hist lb))%nat) by (unfold u; lia).
    pose proof (u_ents _ _ _ _ _ _ _ R1 u Hui) as E1. cbn [set_hu hist] in E1. fold lo in E1.
    intros r m2 blk2 lb2 Hext R2 Hu2.
    pose proof R2 as [Hb2 L2 I2 Cn2 Rn2 Cq2 Ch2 Csz2 Cnn2 Cu2 Cz2 Cl2 Rg2 Hh2 Hl2 He2 Ho2 Ht2].
    assert (Nhl : bh <> bl) by (intro X; subst; inversion Ho as [|? ? Hn _]; apply Hn; left; reflexivity).
    assert (Hlen : (9 * u + 9 <= length hblk)%nat) by (rewrite Hl; lia).
    destruct E1 as [E1i E1d E1p E1ni E1nd [zo E1o] E1s E1m (Rp & Rni & Rnd & Rs1)].
    assert (Hh1 : nth_error m1 bh = Some hblk) by (apply (u_hblk _ _ _ _ _ _ _ R1)).
    assert (Hd : exists vd, hc hblk (9 * u) = vd /\ (vd = VInt 0 \/ exists b, vd = VPtr b 0)).
    { eexists. split; [reflexivity|]. destruct (ins lo); cbn [sown] in E1i; [right; destruct E1i as (_ & b & -> & _); eauto|left; exact E1i]. }
    destruct Hd as (vd & Evd & Hvd). rewrite Evd in *.
    assert (Hbl2 : (bl < length m2)%nat) by (apply nth_error_Some; congruence).
    pose proof (He2 u Hu2) as E2. destruct E2 as [_ _ E2p _ _ [zo2 E2o] _ E2m (Rp2 & _)].
    destruct (tr_loadpos_b m2 bl bh blk2 hblk u _ _ d fuel Hb2 L2 I2 Nhl Hh2 Hlen E2p E2o) as (b3 & C3 & E3 & V3).
    exists (upd m2 bl b3), b3. split; [|split; [apply (urep_marks T m2 bl blk2 b3 bh hblk lb2 TF R2 E3)|split; [|split]]].
    - unfold redo_body, redo_while; cbn [fn_body cf_lbuf_redo]. xstep.
      xfld Hb Ch. xfld Hb Cu. rewrite wrap_I32_id by (unfold i31 in *; lia). rewrite chk_I32 by (unfold i31 in *; lia). xstep.
      replace (Z.of_nat (hist_u lb) + 1) with (Z.of_nat (S u)) by (unfold u; lia).
      rewrite (fld_store m bl blk L_hist_u _ _ Hb) by (try reflexivity; rewrite L; unfold LBUF_CELLS, L_hist_u; lia). cbn [fst snd]. xstep.
      fold blk1. fold m1. fold u.
      replace (0 + 9 * Z.of_nat u) with (Z.of_nat (9 * u)) by lia.
      rewrite (hc_load m1 bh hblk (9 * u) _ Hh1) by lia. rewrite Evd.
      destruct Hvd as [->|[bd ->]]; xstep;
        (rewrite (hc_load m1 bh hblk (9 * u + 2) _ Hh1) by lia); rewrite E1p; xstep;
        (rewrite (hc_load m1 bh hblk (9 * u + 4) _ Hh1) by lia); rewrite E1nd; xstep;
        (rewrite !wrap_I32_id by (unfold i31 in *; lia));
        unfold cx at 1; rewrite callx_S, x_lbuf_replace_none; rewrite Hext; xstep;
        unfold cx at 1; rewrite (callx_mono ext _ _ _ _ _ _ _ C3); xstep; reflexivity.
    - intros b Nb. apply mem_upd_other; assumption.
    - intros B HB Hp. apply V3; [exact HB| |exact Hp]. unfold i32, i31 in *. lia.
    - intros j Hj. destruct E3 as (_ & _ & X3). apply X3. exact Hj.
  Qed.
End StepB.
