(* TrCmp4Ex.v -- C04: the ex commands `u` and `redo` of /repo/ex.c on the translated C text: ec_undo / ec_redo are
   `return lbuf_undo(xb)` / `return lbuf_redo(xb)` -- ex_lbuf() reads bufs[0].lb, then the call; whatever the translated
   lbuf_undo / lbuf_redo return and leave, the command returns and leaves (ec_undo_is_lbuf_undo, ec_redo_is_lbuf_redo), so with
   TrCmp4Loop.v: the commands leave a memory that represents UndoDefs.lbuf_undo / lbuf_redo of the current buffer's state, result 1
   exactly when there is nothing to undo / redo (tr_ec_undo_full, tr_ec_redo_full). *)
From Coq Require Import List ZArith NArith Bool Lia.
From NV Require Import Bytes GenConsts CLite CLiteProps GenCFuncs CLiteTac CLiteExt TrLbufBase UndoDefs TrUndoBase TrUndo.
From NV Require Import TrCmp4 TrCmp4Loop.
Import ListNotations.
Local Open Scope Z_scope.

Definition BUFS_LB : nat := 33.       (* struct buf: lb is cell 33; bufs[0] starts at cell 0 of G_bufs; xb is ex_lbuf() = bufs[0].lb *)
Lemma tr_ex_lbuf m gbufs bl d fuel : nth_error m G_bufs = Some gbufs -> nth_error gbufs BUFS_LB = Some (VPtr bl 0) ->
  callf cprog fuel (S d) F_ex_lbuf [] m = Ok (VPtr bl 0, m).
Proof.
  intros Hb Hc. enter F_ex_lbuf cf_ex_lbuf. xstep. rewrite (fld_load m G_bufs gbufs BUFS_LB _ _ Hb Hc) by reflexivity. reflexivity.
Qed.

Lemma ec_undo_is_lbuf_undo ext (m : mem) gbufs bl a0 a1 a2 a3 d fuel r : nth_error m G_bufs = Some gbufs -> nth_error gbufs BUFS_LB = Some (VPtr bl 0) ->
  callx ext cprog fuel (S d) F_lbuf_undo [VPtr bl 0] m = Ok r ->
  callx ext cprog fuel (S (S d)) F_ec_undo [a0; a1; a2; a3] m = Ok r.
Proof.
  intros Hb Hc H. rewrite callx_S. cbn [nth_error cprog F_ec_undo cf_ec_undo fn_nparams fn_nlocals fn_body length Nat.eqb Nat.sub repeat app].
  xstep. rewrite (callx_mono ext cprog fuel (S d) F_ex_lbuf _ _ _ (tr_ex_lbuf m gbufs bl d fuel Hb Hc)). xstep. rewrite H. destruct r. reflexivity.
Qed.
Lemma ec_redo_is_lbuf_redo ext (m : mem) gbufs bl a0 a1 a2 a3 d fuel r : nth_error m G_bufs = Some gbufs -> nth_error gbufs BUFS_LB = Some (VPtr bl 0) ->
  callx ext cprog fuel (S d) F_lbuf_redo [VPtr bl 0] m = Ok r ->
  callx ext cprog fuel (S (S d)) F_ec_redo [a0; a1; a2; a3] m = Ok r.
Proof.
  intros Hb Hc H. rewrite callx_S. cbn [nth_error cprog F_ec_redo cf_ec_redo fn_nparams fn_nlocals fn_body length Nat.eqb Nat.sub repeat app].
  xstep. rewrite (callx_mono ext cprog fuel (S d) F_ex_lbuf _ _ _ (tr_ex_lbuf m gbufs bl d fuel Hb Hc)). xstep. rewrite H. destruct r. reflexivity.
Qed.

Theorem tr_ec_undo_full ext fuelR dR (m : mem) gbufs bl (blk : block) bh (hblk : block) lb a0 a1 a2 a3 d fuel : ext_is_replace ext fuelR dR ->
  nth_error m G_bufs = Some gbufs -> nth_error gbufs BUFS_LB = Some (VPtr bl 0) ->
  urep Tc m bl blk bh hblk lb -> undo_ok lb -> undo_run_ok ext fuelR bl d fuel m lb -> (hist_u lb + 33 < fuel)%nat ->
  match UndoDefs.lbuf_undo lb with
  | None => callx ext cprog fuel (S (S (S (S (S d))))) F_ec_undo [a0; a1; a2; a3] m = Ok (VInt 1, m)
  | Some lb' => exists (m' : mem) (blk' : block),
                  callx ext cprog fuel (S (S (S (S (S d))))) F_ec_undo [a0; a1; a2; a3] m = Ok (VInt 0, m') /\ urep Tc m' bl blk' bh hblk lb'
  end.
Proof.
  intros Hext Hb Hc R Hok Hrun Hf. pose proof (tr_lbuf_undo_full ext fuelR dR Hext bl bh hblk d fuel m blk lb R Hok Hrun Hf) as U.
  destruct (UndoDefs.lbuf_undo lb) as [lb'|].
  - destruct U as (m' & blk' & C & R'). exists m', blk'. split; [|exact R']. apply (ec_undo_is_lbuf_undo ext m gbufs bl); assumption.
  - apply (ec_undo_is_lbuf_undo ext m gbufs bl); assumption.
Qed.
Theorem tr_ec_redo_full ext fuelR dR (m : mem) gbufs bl (blk : block) bh (hblk : block) lb a0 a1 a2 a3 d fuel : ext_is_replace ext fuelR dR ->
  nth_error m G_bufs = Some gbufs -> nth_error gbufs BUFS_LB = Some (VPtr bl 0) ->
  urep Tc m bl blk bh hblk lb -> redo_ok lb -> redo_run_ok ext fuelR bl d fuel m lb -> (length (hist lb) - hist_u lb < fuel)%nat ->
  match UndoDefs.lbuf_redo lb with
  | None => callx ext cprog fuel (S (S (S (S (S d))))) F_ec_redo [a0; a1; a2; a3] m = Ok (VInt 1, m)
  | Some lb' => exists (m' : mem) (blk' : block),
                  callx ext cprog fuel (S (S (S (S (S d))))) F_ec_redo [a0; a1; a2; a3] m = Ok (VInt 0, m') /\ urep Tc m' bl blk' bh hblk lb'
  end.
Proof.
  intros Hext Hb Hc R Hok Hrun Hf. pose proof (tr_lbuf_redo_full ext fuelR dR Hext bl bh hblk d fuel m blk lb R Hok Hrun Hf) as U.
  destruct (UndoDefs.lbuf_redo lb) as [lb'|].
  - destruct U as (m' & blk' & C & R'). exists m', blk'. split; [|exact R']. apply (ec_redo_is_lbuf_redo ext m gbufs bl); assumption.
  - apply (ec_redo_is_lbuf_redo ext m gbufs bl); assumption.
Qed.
