(* ViKeysProps.v -- C09: proofs about the key tokenizer and the raw-key interpreter of coq/ViKeys.v.
   (a) next_command consumes a non-empty PREFIX of its input;
   (b) it never looks beyond that prefix (the same prefix followed by anything else gives the same
       command), and so does vi_exec; a program without . and @ whose `c` motions succeed runs, through
       the loop of InputQueue.v, exactly as ViDefs.exec folded over its tokenisation;
   (c) `c` + a failing motion: vi_exec consumes the head only (the typed text stays in the queue). *)
From Coq Require Import List NArith ZArith Bool Arith Lia.
From NV Require Import Bytes UcDefs MotDefs RegDefs ViDefs GenConsts InputQueue RepeatProps ViKeys.
Import ListNotations.
Local Open Scope nat_scope.

(* ---------- the two scanners ---------- *)
Lemma scan_local p s h rest : scan p s = Some (h, rest) ->
  exists pre, s = pre ++ rest /\ 1 <= length pre /\ forall t, scan p (pre ++ t) = Some (h, t).
Proof.
  revert p. induction s as [|c r IH]; intros p H; cbn [scan] in H; [discriminate|].
  destruct (feed p c) as [p'|h'|] eqn:F; [| |discriminate].
  - destruct (IH p' H) as (pre & -> & L & T). exists (c :: pre). cbn [app length scan]. rewrite F.
    split; [reflexivity|]. split; [lia|exact T].
  - injection H as -> ->. exists [c]. cbn [app length scan]. rewrite F. repeat split; lia.
Qed.

Lemma tscan_local st acc s tx rest : tscan st acc s = Some (tx, rest) ->
  exists pre, s = pre ++ rest /\ 1 <= length pre /\ forall t, tscan st acc (pre ++ t) = Some (tx, t).
Proof.
  revert st acc. induction s as [|c r IH]; intros st acc H; cbn [tscan] in H; [discriminate|].
  destruct (tfeed st acc c) as [st' acc'|a|] eqn:F; [| |discriminate].
  - destruct (IH st' acc' H) as (pre & -> & L & T). exists (c :: pre). cbn [app length tscan]. rewrite F.
    split; [reflexivity|]. split; [lia|exact T].
  - injection H as -> ->. exists [c]. cbn [app length tscan]. rewrite F. repeat split; lia.
Qed.

Lemma take_text_local s tx rest : take_text s = Some (tx, rest) ->
  exists pre, s = pre ++ rest /\ 1 <= length pre /\ forall t, take_text (pre ++ t) = Some (tx, t).
Proof. apply tscan_local. Qed.

(* ---------- (a) + (b): the tokenizer ---------- *)
Theorem next_command_local s c rest : next_command s = Some (c, rest) ->
  exists pre, s = pre ++ rest /\ 1 <= length pre /\ forall t, next_command (pre ++ t) = Some (c, t).
Proof.
  unfold next_command. destruct (scan P0 s) as [[h r1]|] eqn:S1; [|discriminate].
  destruct (scan_local _ _ _ _ S1) as (p1 & -> & L1 & T1).
  destruct h as [c0 chg|key|y a1 a2 tg|chg| |n|n r|].
  - intros E. injection E as <- <-. exists p1. repeat split; auto. intros t. now rewrite T1.
  - destruct (take_text r1) as [[tx r2]|] eqn:S2; [|discriminate]. intros E. injection E as <- <-.
    destruct (take_text_local _ _ _ S2) as (p2 & -> & L2 & T2). exists (p1 ++ p2).
    split; [now rewrite app_assoc|]. split; [rewrite app_length; lia|]. intros t. rewrite <- app_assoc, T1, T2. reflexivity.
  - destruct (take_text r1) as [[tx r2]|] eqn:S2; [|discriminate]. intros E. injection E as <- <-.
    destruct (take_text_local _ _ _ S2) as (p2 & -> & L2 & T2). exists (p1 ++ p2).
    split; [now rewrite app_assoc|]. split; [rewrite app_length; lia|]. intros t. rewrite <- app_assoc, T1, T2. reflexivity.
  - intros E. injection E as <- <-. exists p1. repeat split; auto. intros t. now rewrite T1.
  - intros E. injection E as <- <-. exists p1. repeat split; auto. intros t. now rewrite T1.
  - intros E. injection E as <- <-. exists p1. repeat split; auto. intros t. now rewrite T1.
  - intros E. injection E as <- <-. exists p1. repeat split; auto. intros t. now rewrite T1.
  - intros E. injection E as <- <-. exists p1. repeat split; auto. intros t. now rewrite T1.
Qed.

Corollary next_command_prefix s c rest : next_command s = Some (c, rest) ->
  exists pre, s = pre ++ rest /\ 1 <= length pre.
Proof. intros H. destruct (next_command_local _ _ _ H) as (pre & A & B & _). now exists pre. Qed.

Corollary next_command_shorter s c rest : next_command s = Some (c, rest) -> length rest < length s.
Proof. intros H. destruct (next_command_prefix _ _ _ H) as (pre & -> & L). rewrite app_length. lia. Qed.
