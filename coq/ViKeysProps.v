(* ViKeysProps.v -- C09: proofs about the key tokenizer and the raw-key interpreter of coq/ViKeys.v.
   (a) next_command consumes a non-empty PREFIX of its input;
   (b) it never looks beyond that prefix (the same prefix followed by anything else gives the same
       command), and so does vi_exec; a program without . and @ whose `c` motions succeed runs, through
       the loop of InputQueue.v, exactly as ViDefs.exec folded over its tokenisation;
   (c) `c` + a failing motion: vi_exec consumes the head only (the typed text stays in the queue). *)
From Coq Require Import List NArith ZArith Bool Arith Lia.
From NV Require Import Bytes UcDefs MotDefs RegDefs ViDefs GenConsts InputQueue RepeatProps ViKeys.
Import ListNotations.
Local Open Scope nat_scope.

(* ---------- the two scanners ---------- *)
Lemma scan_local p s h rest : scan p s = Some (h, rest) ->
  exists pre, s = pre ++ rest /\ 1 <= length pre /\ forall t, scan p (pre ++ t) = Some (h, t).
Proof.
  revert p. induction s as [|c r IH]; intros p H; cbn [scan] in H; [discriminate|].
  destruct (feed p c) as [p'|h'|] eqn:F; [| |discriminate].
  - destruct (IH p' H) as (pre & -> & L & T). exists (c :: pre). cbn [app length scan]. rewrite F.
    split; [reflexivity|]. split; [lia|exact T].
  - injection H as -> ->. exists [c]. cbn [app length scan]. rewrite F. repeat split; lia.
Qed.

Lemma tscan_local st acc s tx rest : tscan st acc s = Some (tx, rest) ->
  exists pre, s = pre ++ rest /\ 1 <= length pre /\ forall t, tscan st acc (pre ++ t) = Some (tx, t).
Proof.
  revert st acc. induction s as [|c r IH]; intros st acc H; cbn [tscan] in H; [discriminate|].
  destruct (tfeed st acc c) as [st' acc'|a|] eqn:F; [| |discriminate].
  - destruct (IH st' acc' H) as (pre & -> & L & T). exists (c :: pre). cbn [app length tscan]. rewrite F.
    split; [reflexivity|]. split; [lia|exact T].
  - injection H as -> ->. exists [c]. cbn [app length tscan]. rewrite F. repeat split; lia.
Qed.

Lemma take_text_local s tx rest : take_text s = Some (tx, rest) ->
  exists pre, s = pre ++ rest /\ 1 <= length pre /\ forall t, take_text (pre ++ t) = Some (tx, t).
Proof. apply tscan_local. Qed.

(* ---------- (a) + (b): the tokenizer, syntactic (next_command) and as the editor reads (parse) ---------- *)
Lemma with_text_local {A} (g : list chr -> A) r1 c rest :
  match take_text r1 with Some (tx, rest') => Some (g tx, rest') | None => None end = Some (c, rest) ->
  exists p2, r1 = p2 ++ rest /\ 1 <= length p2 /\
    forall t, match take_text (p2 ++ t) with Some (tx, rest') => Some (g tx, rest') | None => None end = Some (c, t).
Proof.
  destruct (take_text r1) as [[tx r2]|] eqn:S2; [|discriminate]. intros E. injection E as <- <-.
  destruct (take_text_local _ _ _ S2) as (p2 & -> & L2 & T2). exists p2. split; [reflexivity|]. split; [exact L2|]. intros t. now rewrite T2.
Qed.

Lemma complete_local f s c rest : complete f s = Some (c, rest) ->
  exists pre, s = pre ++ rest /\ 1 <= length pre /\ forall t, complete f (pre ++ t) = Some (c, t).
Proof.
  unfold complete. destruct (scan P0 s) as [[h r1]|] eqn:S1; [|discriminate].
  destruct (scan_local _ _ _ _ S1) as (p1 & -> & L1 & T1).
  destruct h as [c0 chg|key|y a1 a2 tg|chg| |n|n r|].
  - intros E. injection E as <- <-. exists p1. repeat split; auto. intros t. now rewrite T1.
  - intros E. destruct (with_text_local _ _ _ _ E) as (p2 & -> & L2 & T2). exists (p1 ++ p2).
    split; [now rewrite app_assoc|]. split; [rewrite app_length; lia|]. intros t. rewrite <- app_assoc, T1. apply T2.
  - destruct (f a1 a2 tg) eqn:Ef.
    + intros E. injection E as <- <-. exists p1. repeat split; auto. intros t. now rewrite T1, Ef.
    + intros E. destruct (with_text_local _ _ _ _ E) as (p2 & -> & L2 & T2). exists (p1 ++ p2).
      split; [now rewrite app_assoc|]. split; [rewrite app_length; lia|]. intros t. rewrite <- app_assoc, T1, Ef. apply T2.
  - intros E. injection E as <- <-. exists p1. repeat split; auto. intros t. now rewrite T1.
  - intros E. injection E as <- <-. exists p1. repeat split; auto. intros t. now rewrite T1.
  - intros E. injection E as <- <-. exists p1. repeat split; auto. intros t. now rewrite T1.
  - intros E. injection E as <- <-. exists p1. repeat split; auto. intros t. now rewrite T1.
  - intros E. injection E as <- <-. exists p1. repeat split; auto. intros t. now rewrite T1.
Qed.

Theorem next_command_local s c rest : next_command s = Some (c, rest) ->
  exists pre, s = pre ++ rest /\ 1 <= length pre /\ forall t, next_command (pre ++ t) = Some (c, t).
Proof. apply complete_local. Qed.

Corollary next_command_prefix s c rest : next_command s = Some (c, rest) ->
  exists pre, s = pre ++ rest /\ 1 <= length pre.
Proof. intros H. destruct (next_command_local _ _ _ H) as (pre & A & B & _). now exists pre. Qed.

Corollary next_command_shorter s c rest : next_command s = Some (c, rest) -> length rest < length s.
Proof. intros H. destruct (next_command_prefix _ _ _ H) as (pre & -> & L). rewrite app_length. lia. Qed.

Lemma parse_local rows e s c rest : parse rows e s = Some (c, rest) ->
  exists pre, s = pre ++ rest /\ 1 <= length pre /\ forall t, parse rows e (pre ++ t) = Some (c, t).
Proof. apply complete_local. Qed.

(* the editor reads the head of the input as the syntactic tokenizer does, unless a `c` meets a failing motion *)
Definition failing_change (rows : Z) (e : est) (c : command) : bool :=
  match c with KCmd (COp _ a1 Oc a2 t _) _ => target_fails rows e a1 a2 t | _ => false end.

Lemma parse_next_command rows e s c rest : next_command s = Some (c, rest) -> failing_change rows e c = false ->
  parse rows e s = Some (c, rest).
Proof.
  unfold parse, next_command, complete. destruct (scan P0 s) as [[h r1]|]; [|discriminate].
  destruct h as [c0 chg|key|y a1 a2 tg|chg| |n|n r|]; try (intros E _; exact E).
  destruct (take_text r1) as [[tx r2]|]; [|discriminate]. intros E. injection E as <- <-. cbn [failing_change].
  now intros ->.
Qed.

(* (c) the known exception: the head of `c` + failing motion is a command by itself; the typed text stays *)
Lemma parse_failing_change rows e s y a1 a2 t rest : scan P0 s = Some (HChange y a1 a2 t, rest) ->
  target_fails rows e a1 a2 t = true -> parse rows e s = Some (KCmd (COp y a1 Oc a2 t []) true, rest).
Proof. intros S F. unfold parse, complete. now rewrite S, F. Qed.

(* ---------- vi_exec ---------- *)
Lemma vi_exec_bound rows v s v' k a : vi_exec rows v s = (v', k, a) -> k <= length s /\ (s <> [] -> 1 <= k).
Proof.
  unfold vi_exec. destruct (vi_est v) as [e|].
  - destruct (parse rows e s) as [[c rest]|] eqn:P.
    + destruct (parse_local _ _ _ _ _ P) as (pre & -> & L & _). destruct (apply_cmd rows v e c) as [v1 a1].
      intros E. injection E as <- <- <-. rewrite app_length. split; lia.
    + intros E. injection E as <- <- <-. split; [lia|]. destruct s; [congruence|cbn; lia].
  - intros E. injection E as <- <- <-. split; [lia|]. destruct s; [congruence|cbn; lia].
Qed.

(* vi_exec never inspects the queue beyond the keys it consumed *)
Theorem vi_exec_local rows v s v' k a : vi_exec rows v s = (v', k, a) -> vi_est v' <> None ->
  forall t, vi_exec rows v (firstn k s ++ t) = (v', k, a).
Proof.
  unfold vi_exec. destruct (vi_est v) as [e|] eqn:Ev.
  - destruct (parse rows e s) as [[c rest]|] eqn:P.
    + destruct (parse_local _ _ _ _ _ P) as (pre & -> & L & T). destruct (apply_cmd rows v e c) as [v1 a1] eqn:A.
      intros E _ t. injection E as <- <- <-.
      assert (K : length (pre ++ rest) - length rest = length pre) by (rewrite app_length; lia).
      rewrite K, firstn_app, firstn_all, Nat.sub_diag. cbn [firstn]. rewrite app_nil_r, T, A.
      rewrite app_length. repeat f_equal. lia.
    + intros E N. injection E as <- <- <-. now cbn in N.
  - intros E N. injection E as <- <- <-. congruence.
Qed.

(* the number of keys a command takes is a function of the keys alone, in every state in which it is
   not a `c` whose motion fails: the keys of one command are read as that one command again *)
Theorem vi_exec_syntax_directed rows v e pre c t : vi_est v = Some e -> next_command pre = Some (c, []) ->
  failing_change rows e c = false ->
  vi_exec rows v (pre ++ t) = (fst (apply_cmd rows v e c), length pre, snd (apply_cmd rows v e c)).
Proof.
  intros Ev N F. destruct (next_command_local _ _ _ N) as (p & E & _ & T). rewrite app_nil_r in E. subst p.
  unfold vi_exec. rewrite Ev, (parse_next_command rows e _ _ _ (T t) F).
  destruct (apply_cmd rows v e c) as [v1 a1]. cbn [fst snd]. rewrite app_length. repeat f_equal. lia.
Qed.

(* ---------- running a program = folding ViDefs.exec over its tokenisation ---------- *)
Notation vrun rows := (run (vi_exec rows)).

Lemma step_stream rows (s : st N vis) v' k a : vi_exec rows (ed s) (stream (q s)) = (v', k, a) ->
  (a = ANone \/ a = AChange) ->
  ed (step (vi_exec rows) s) = v' /\ stream (q (step (vi_exec rows) s)) = skipn k (stream (q s)) /\
  fits (vi_exec rows) s = true.
Proof.
  intros E A. unfold step, fits. rewrite E.
  destruct (read_n_stream N k (snd (term_cmd (q s)))) as [S1 _].
  destruct (reset_stream N (q s)) as (R1 & _). rewrite R1 in S1.
  destruct A as [-> | ->]; cbn [ed q]; auto.
Qed.

(* outside the model nothing more happens *)
Lemma run_out rows fuel (s : st N vis) : vi_est (ed s) = None -> length (stream (q s)) <= fuel ->
  vrun rows fuel s = Some (ed s).
Proof.
  intros O L. destruct fuel as [|f]; cbn [run].
  - destruct (stream (q s)); [reflexivity|cbn in L; lia].
  - destruct (stream (q s)) as [|c r] eqn:Es; [reflexivity|].
    assert (X : vi_exec rows (ed s) (stream (q s)) = (ed s, length (stream (q s)), ANone)) by (unfold vi_exec; now rewrite O).
    destruct (step_stream rows s _ _ _ X (or_introl eq_refl)) as (A & B & C). rewrite C.
    rewrite skipn_all in B. destruct f; cbn [run]; rewrite B, A; reflexivity.
Qed.

Theorem run_is_exec rows : forall fuel keys ks cs e (s : st N vis) lr n,
  tokens fuel keys = Some ks -> cmds_of ks = Some cs -> changes_ok rows cs e = true ->
  stream (q s) = keys -> ed s = mk_vis (Some e) lr -> length keys <= n ->
  vrun rows n s = Some (mk_vis (exec rows cs e) lr).
Proof.
  induction fuel as [|f IH]; intros keys ks cs e s lr n T C O Sq Ed Ln.
  - destruct keys; [|discriminate]. injection T as <-. injection C as <-. destruct n; cbn [run]; rewrite Sq, Ed; reflexivity.
  - destruct keys as [|c0 r0] eqn:EK.
    { cbn [tokens] in T. injection T as <-. injection C as <-. destruct n; cbn [run]; rewrite Sq, Ed; reflexivity. }
    rewrite <- EK in *. assert (NE : keys <> []) by (rewrite EK; discriminate).
    assert (T' : match next_command keys with
                 | Some (c, rest) => match tokens f rest with Some cs => Some (c :: cs) | None => None end
                 | None => None end = Some ks) by (rewrite EK in *; exact T). clear T.
    destruct (next_command keys) as [[k rest]|] eqn:NC; [|discriminate].
    destruct (tokens f rest) as [ks'|] eqn:TR; [|discriminate]. injection T' as <-.
    destruct (next_command_local _ _ _ NC) as (pre & Ek & Lp & _).
    assert (LEN : length keys = length pre + length rest) by (rewrite Ek; apply app_length).
    destruct n as [|m]; [lia|]. cbn [run]. rewrite Sq. destruct keys as [|c1 r1] eqn:EK2; [congruence|]. rewrite <- EK2 in *.
    destruct k as [c chg|chg| |nn|nn r|]; cbn [cmds_of] in C; try discriminate.
    + destruct (cmds_of ks') as [cs'|] eqn:C'; [|discriminate]. injection C as <-.
      cbn [changes_ok] in O. apply andb_prop in O as [O1 O2].
      assert (F : failing_change rows e (KCmd c chg) = false).
      { cbn [failing_change]. destruct c; try reflexivity. destruct op; try reflexivity. now apply negb_true_iff in O1. }
      assert (X : vi_exec rows (ed s) (stream (q s)) = (mk_vis (exec1 rows c e) lr, length pre, act_of chg)).
      { rewrite Sq, Ed. unfold vi_exec. cbn [vi_est]. rewrite (parse_next_command rows e _ _ _ NC F). cbn [apply_cmd vi_lastreg].
        repeat f_equal. lia. }
      destruct (step_stream rows s _ _ _ X) as (A & B & Fi); [destruct chg; cbn; auto|].
      rewrite Sq, Ek, skipn_app, skipn_all, Nat.sub_diag in B. cbn [skipn app] in B.
      rewrite Fi. cbn [exec].
      destruct (exec1 rows c e) as [e'|] eqn:X1.
      * apply (IH rest ks' cs' e' _ lr m TR C' O2 B A). lia.
      * rewrite run_out; [now rewrite A|now rewrite A|rewrite B; lia].
    + assert (X : vi_exec rows (ed s) (stream (q s)) = (mk_vis (Some e) lr, length pre, ANone)).
      { rewrite Sq, Ed. unfold vi_exec. cbn [vi_est]. rewrite (parse_next_command rows e _ _ _ NC eq_refl). cbn [apply_cmd].
        repeat f_equal. lia. }
      destruct (step_stream rows s _ _ _ X (or_introl eq_refl)) as (A & B & Fi).
      rewrite Sq, Ek, skipn_app, skipn_all, Nat.sub_diag in B. cbn [skipn app] in B.
      rewrite Fi. apply (IH rest ks' cs e _ lr m TR C O B A). lia.
Qed.
