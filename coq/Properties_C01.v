(* Properties_C01.v -- C01: write-out equals buffer text; read-then-write reproduces the file.
   Statements only; every proof is `exact <lemma>`; Print Assumptions under each.
   Model: coq/IoDefs.v (sbuf.c sbuf_mem/sbuf_buf, lbuf.c lbuf_rd/lbuf_replace/lbuf_wr, file = byte list). *)
From Coq Require Import List NArith ZArith.
From NV Require Import Bytes GenConsts IoDefs IoProps.
Import ListNotations.

(* splitting re-terminates: the lines concatenate to the text plus at most one newline, and every
   line is non-empty, ends in a newline and contains no other one *)
Theorem C01_split_concat : forall f, nonul f ->
  concat (split_lines f) = norm f /\ Forall line_wf (split_lines f).
Proof. exact split_spec. Qed.
Print Assumptions C01_split_concat.

(* whatever sizes read(2) returns, an empty buffer ends up holding the split of the whole file
   (the growth loop of the line table never runs out of fuel), and a read into any buffer
   position depends only on the concatenation of the chunks *)
Theorem C01_read_any_chunking : forall chunks b e,
  (exists lb, lbuf_rd lbuf_make chunks b e = Some lb /\ ln lb = split_lines (concat chunks)) /\
  (forall lb chunks', concat chunks = concat chunks' -> lbuf_rd lb chunks b e = lbuf_rd lb chunks' b e).
Proof. exact read_any_chunking. Qed.
Print Assumptions C01_read_any_chunking.

(* the written file is exactly the addressed lines, for every previous content of the target
   (shorter, equal, longer: `old` is arbitrary) *)
Theorem C01_write_range : forall lines b e old, b <= e <= length lines ->
  save_file lines b e old = want lines b e.
Proof. exact save_file_want. Qed.
Print Assumptions C01_write_range.

(* for EVERY batch size B: no memcpy overflows the batch, the byte count is the length of the
   lines, and the write payloads partition the lines into consecutive groups, each one a batch of
   at most B bytes or a single line of at least B bytes *)
Theorem C01_batches : forall B lines b e, Forall (fun l : list N => l <> []) lines ->
  let w := lbuf_wr_gen B lines b e in
  ovf w = false /\ wsz w = length (want lines b e) /\
  exists gs, concat gs = slice b e lines /\ map (@concat N) gs = outp w /\ Forall (group_ok B) gs.
Proof. exact lbuf_wr_groups. Qed.
Print Assumptions C01_batches.

(* read-then-write: the file, delivered in any chunks, written over any previous target *)
Theorem C01_roundtrip : forall f chunks old, nonul f -> concat chunks = f ->
  read_then_write chunks old = Some (norm f).
Proof. exact roundtrip. Qed.
Print Assumptions C01_roundtrip.

(* capacity: after every lbuf_replace the line table has a spare slot (ln_n < ln_sz); after every
   sbuf_mem / sbuf_chr there is room for the terminator, and sbuf_buf's store is in bounds *)
Theorem C01_capacity :
  (forall lb s pos n_del, lbuf_ok lb -> pos + n_del <= length (ln lb) ->
     exists lb', lbuf_replace lb s pos n_del = Some lb' /\ lbuf_ok lb' /\ (Z.of_nat (length (ln lb')) < ln_sz lb')%Z) /\
  (forall sb s, sbuf_ok sb -> sbuf_ok (sbuf_mem sb s) /\ (sb_n (sbuf_mem sb s) + 1 <= sb_sz (sbuf_mem sb s))%Z) /\
  (forall sb c, sbuf_ok sb -> sbuf_ok (sbuf_chr sb c) /\ (sb_n (sbuf_chr sb c) + 1 <= sb_sz (sbuf_chr sb c))%Z) /\
  (forall chunks, (0 <= sb_n (rd_sbuf chunks) < sb_sz (rd_sbuf chunks))%Z).
Proof. exact (conj lbuf_replace_cap (conj sbuf_mem_ok (conj sbuf_chr_ok rd_sbuf_room))). Qed.
Print Assumptions C01_capacity.

(* the hypotheses are satisfiable and the functions compute *)
Example C01_nonvacuous :
  nonul [97; 10; 98]%N /\ read_then_write [[97]; [10; 98]]%N [1; 2; 3; 4; 5; 6; 7; 8; 9]%N = Some [97; 10; 98; 10]%N /\
  outp (lbuf_wr_gen 3 [[97; 10]; [98; 10]; [99; 99; 99; 10]; [10]]%N 0 4) = [[97; 10]; [98; 10]; [99; 99; 99; 10]; [10]]%N /\
  lbuf_ok lbuf_make /\ sbuf_ok sbuf_make.
Proof.
  split; [repeat constructor|]. split; [reflexivity|]. split; [reflexivity|]. split; [exact lbuf_make_ok | exact sbuf_make_ok].
Qed.

(* ------------------------------------------------------------------------------------------ *)
(* THE MODEL IS THE C TEXT (coq/TrLbufLines.v): linelength and linecount of /repo/lbuf.c -- the two helpers with which lbuf_replace
   splits a text into lines --, translated by tools/c2clite.py into CLite terms (coq/GenCFuncs.v, whitelist
   tools/c2clite.d/50_lbuf.list; strchr / strlen are builtins of CLite.v), RUN on a memory in which block b holds the
   NUL-terminated string s: from EVERY offset o inside s, linecount returns IoDefs.linecount of the rest of the text
   (= the number of lines of split_lines, C01_split_concat / linecount_len) and linelength returns `linelen` of it, the number
   of bytes of the first line of the model's split (C01_tr_linelen_is_the_split).  Memory unchanged, every load inside the
   block, no overflow: the one bound needed is that the text is shorter than 2 GB (both functions return int). *)
From NV Require CLite CLiteProps GenCFuncs TrLbufLines.
Section C01_translated.
Import CLite CLiteProps GenCFuncs TrLbufLines.

Theorem C01_tr_linelen_is_the_split : forall t : bytes, t <> [] ->
  split_lines t = norm (firstn (linelen t) t) :: split_lines (skipn (linelen t) t) /\
  linecount t = S (linecount (skipn (linelen t) t)) /\ (1 <= linelen t <= length t)%nat.
Proof. exact (fun t H => conj (split_lines_step t H) (conj (linecount_step t H) (conj (linelen_pos t H) (linelen_le t)))). Qed.
Print Assumptions C01_tr_linelen_is_the_split.

Theorem C01_tr_linelength : forall m b s o d fuel,
  str_at m b s -> nonul s -> (o <= length s)%nat -> (Z.of_nat (length s) <= 2147483647)%Z ->
  callf cprog fuel (S d) F_lbuf_linelength [VPtr b (Z.of_nat o)] m = Ok (VInt (Z.of_nat (linelen (skipn o s))), m).
Proof. exact tr_linelength. Qed.
Print Assumptions C01_tr_linelength.

Theorem C01_tr_linecount : forall m b s o d fuel,
  str_at m b s -> nonul s -> (o <= length s)%nat -> (Z.of_nat (length s) <= 2147483647)%Z ->
  (linecount (skipn o s) < fuel)%nat ->
  callf cprog fuel (S (S d)) F_lbuf_linecount [VPtr b (Z.of_nat o)] m = Ok (VInt (Z.of_nat (linecount (skipn o s))), m).
Proof. exact tr_linecount. Qed.
Print Assumptions C01_tr_linecount.

(* linecount(NULL) = 0 (lbuf_replace is called with s = NULL for a pure deletion) *)
Theorem C01_tr_linecount_null : forall m d fuel, (0 < fuel)%nat ->
  callf cprog fuel (S (S d)) F_lbuf_linecount [VInt 0] m = Ok (VInt 0, m).
Proof. exact tr_linecount_null. Qed.
Print Assumptions C01_tr_linecount_null.

(* not vacuous, and the translated functions RUN: the text "ab\ncd\n\nef" (no final newline) in block 12: four lines;
   linelength is 3 at offset 0, 1 at the empty line (offset 6), 2 on the unterminated last line (offset 7), 0 at the
   terminator; linecount from offset 3 is 3; NULL gives 0; the model splits it into the same four lines *)
Example C01_tr_nonvacuous :
  let s := [97; 98; 10; 99; 100; 10; 10; 101; 102]%N in
  let m0 := repeat [] 12 ++ [cstr_block (zb s)] in
  let ll (o : Z) := callf cprog 10 3 F_lbuf_linelength [VPtr 12 o] m0 in
  let lc (o : Z) := callf cprog 10 3 F_lbuf_linecount [VPtr 12 o] m0 in
  str_at m0 12 s /\ nonul s /\
  lc 0%Z = Ok (VInt 4, m0) /\ linecount s = 4%nat /\ length (split_lines s) = 4%nat /\
  split_lines s = [[97; 98; 10]; [99; 100; 10]; [10]; [101; 102; 10]]%N /\
  ll 0%Z = Ok (VInt 3, m0) /\ linelen s = 3%nat /\ ll 6%Z = Ok (VInt 1, m0) /\ ll 7%Z = Ok (VInt 2, m0) /\ ll 9%Z = Ok (VInt 0, m0) /\
  lc 3%Z = Ok (VInt 3, m0) /\ lc 9%Z = Ok (VInt 0, m0) /\
  callf cprog 10 3 F_lbuf_linecount [VInt 0] m0 = Ok (VInt 0, m0) /\
  ll 10%Z = Err EOob.
Proof.
  cbv zeta. split; [reflexivity|]. split; [repeat constructor|]. vm_compute. repeat split.
Qed.
End C01_translated.
