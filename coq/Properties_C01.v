(* Properties_C01.v -- C01: write-out equals buffer text; read-then-write reproduces the file.
   Statements only; every proof is `exact <lemma>`; Print Assumptions under each.
   Model: coq/IoDefs.v (sbuf.c sbuf_mem/sbuf_buf, lbuf.c lbuf_rd/lbuf_replace/lbuf_wr, file = byte list). *)
From Coq Require Import List NArith ZArith.
From NV Require Import Bytes GenConsts IoDefs IoProps.
Import ListNotations.

(* splitting re-terminates: the lines concatenate to the text plus at most one newline, and every
   line is non-empty, ends in a newline and contains no other one *)
Theorem C01_split_concat : forall f, nonul f ->
  concat (split_lines f) = norm f /\ Forall line_wf (split_lines f).
Proof. exact split_spec. Qed.
Print Assumptions C01_split_concat.

(* whatever sizes read(2) returns, an empty buffer ends up holding the split of the whole file
   (the growth loop of the line table never runs out of fuel), and a read into any buffer
   position depends only on the concatenation of the chunks *)
Theorem C01_read_any_chunking : forall chunks b e,
  (exists lb, lbuf_rd lbuf_make chunks b e = Some lb /\ ln lb = split_lines (concat chunks)) /\
  (forall lb chunks', concat chunks = concat chunks' -> lbuf_rd lb chunks b e = lbuf_rd lb chunks' b e).
Proof. exact read_any_chunking. Qed.
Print Assumptions C01_read_any_chunking.

(* the written file is exactly the addressed lines, for every previous content of the target
   (shorter, equal, longer: `old` is arbitrary) *)
Theorem C01_write_range : forall lines b e old, b <= e <= length lines ->
  save_file lines b e old = want lines b e.
Proof. exact save_file_want. Qed.
Print Assumptions C01_write_range.

(* for EVERY batch size B: no memcpy overflows the batch, the byte count is the length of the
   lines, and the write payloads partition the lines into consecutive groups, each one a batch of
   at most B bytes or a single line of at least B bytes *)
Theorem C01_batches : forall B lines b e, Forall (fun l : list N => l <> []) lines ->
  let w := lbuf_wr_gen B lines b e in
  ovf w = false /\ wsz w = length (want lines b e) /\
  exists gs, concat gs = slice b e lines /\ map (@concat N) gs = outp w /\ Forall (group_ok B) gs.
Proof. exact lbuf_wr_groups. Qed.
Print Assumptions C01_batches.

(* read-then-write: the file, delivered in any chunks, written over any previous target *)
Theorem C01_roundtrip : forall f chunks old, nonul f -> concat chunks = f ->
  read_then_write chunks old = Some (norm f).
Proof. exact roundtrip. Qed.
Print Assumptions C01_roundtrip.

(* capacity: after every lbuf_replace the line table has a spare slot (ln_n < ln_sz); after every
   sbuf_mem / sbuf_chr there is room for the terminator, and sbuf_buf's store is in bounds *)
Theorem C01_capacity :
  (forall lb s pos n_del, lbuf_ok lb -> pos + n_del <= length (ln lb) ->
     exists lb', lbuf_replace lb s pos n_del = Some lb' /\ lbuf_ok lb' /\ (Z.of_nat (length (ln lb')) < ln_sz lb')%Z) /\
  (forall sb s, sbuf_ok sb -> sbuf_ok (sbuf_mem sb s) /\ (sb_n (sbuf_mem sb s) + 1 <= sb_sz (sbuf_mem sb s))%Z) /\
  (forall sb c, sbuf_ok sb -> sbuf_ok (sbuf_chr sb c) /\ (sb_n (sbuf_chr sb c) + 1 <= sb_sz (sbuf_chr sb c))%Z) /\
  (forall chunks, (0 <= sb_n (rd_sbuf chunks) < sb_sz (rd_sbuf chunks))%Z).
Proof. exact (conj lbuf_replace_cap (conj sbuf_mem_ok (conj sbuf_chr_ok rd_sbuf_room))). Qed.
Print Assumptions C01_capacity.

(* the hypotheses are satisfiable and the functions compute *)
Example C01_nonvacuous :
  nonul [97; 10; 98]%N /\ read_then_write [[97]; [10; 98]]%N [1; 2; 3; 4; 5; 6; 7; 8; 9]%N = Some [97; 10; 98; 10]%N /\
  outp (lbuf_wr_gen 3 [[97; 10]; [98; 10]; [99; 99; 99; 10]; [10]]%N 0 4) = [[97; 10]; [98; 10]; [99; 99; 99; 10]; [10]]%N /\
  lbuf_ok lbuf_make /\ sbuf_ok sbuf_make.
Proof.
  split; [repeat constructor|]. split; [reflexivity|]. split; [reflexivity|]. split; [exact lbuf_make_ok | exact sbuf_make_ok].
Qed.
