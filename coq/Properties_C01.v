(* Properties_C01.v -- C01: write-out equals buffer text; read-then-write reproduces the file.
   Statements only; every proof is `exact <lemma>`; Print Assumptions under each.
   Model: coq/IoDefs.v (sbuf.c sbuf_mem/sbuf_buf, lbuf.c lbuf_rd/lbuf_replace/lbuf_wr, file = byte list). *)
From Coq Require Import List NArith ZArith.
From NV Require Import Bytes GenConsts IoDefs IoProps.
Import ListNotations.

(* splitting re-terminates: the lines concatenate to the text plus at most one newline, and every
   line is non-empty, ends in a newline and contains no other one *)
Theorem C01_split_concat : forall f, nonul f ->
  concat (split_lines f) = norm f /\ Forall line_wf (split_lines f).
Proof. exact split_spec. Qed.
Print Assumptions C01_split_concat.

(* whatever sizes read(2) returns, an empty buffer ends up holding the split of the whole file
   (the growth loop of the line table never runs out of fuel), and a read into any buffer
   position depends only on the concatenation of the chunks *)
Theorem C01_read_any_chunking : forall chunks b e,
  (exists lb, lbuf_rd lbuf_make chunks b e = Some lb /\ ln lb = split_lines (concat chunks)) /\
  (forall lb chunks', concat chunks = concat chunks' -> lbuf_rd lb chunks b e = lbuf_rd lb chunks' b e).
Proof. exact read_any_chunking. Qed.
Print Assumptions C01_read_any_chunking.

(* the written file is exactly the addressed lines, for every previous content of the target
   (shorter, equal, longer: `old` is arbitrary) *)
Theorem C01_write_range : forall lines b e old, b <= e <= length lines ->
  save_file lines b e old = want lines b e.
Proof. exact save_file_want. Qed.
Print Assumptions C01_write_range.

(* for EVERY batch size B: no memcpy overflows the batch, the byte count is the length of the
   lines, and the write payloads partition the lines into consecutive groups, each one a batch of
   at most B bytes or a single line of at least B bytes *)
Theorem C01_batches : forall B lines b e, Forall (fun l : list N => l <> []) lines ->
  let w := lbuf_wr_gen B lines b e in
  ovf w = false /\ wsz w = length (want lines b e) /\
  exists gs, concat gs = slice b e lines /\ map (@concat N) gs = outp w /\ Forall (group_ok B) gs.
Proof. exact lbuf_wr_groups. Qed.
Print Assumptions C01_batches.

(* read-then-write: the file, delivered in any chunks, written over any previous target *)
Theorem C01_roundtrip : forall f chunks old, nonul f -> concat chunks = f ->
  read_then_write chunks old = Some (norm f).
Proof. exact roundtrip. Qed.
Print Assumptions C01_roundtrip.

(* capacity: after every lbuf_replace the line table has a spare slot (ln_n < ln_sz); after every
   sbuf_mem / sbuf_chr there is room for the terminator, and sbuf_buf's store is in bounds *)
Theorem C01_capacity :
  (forall lb s pos n_del, lbuf_ok lb -> pos + n_del <= length (ln lb) ->
     exists lb', lbuf_replace lb s pos n_del = Some lb' /\ lbuf_ok lb' /\ (Z.of_nat (length (ln lb')) < ln_sz lb')%Z) /\
  (forall sb s, sbuf_ok sb -> sbuf_ok (sbuf_mem sb s) /\ (sb_n (sbuf_mem sb s) + 1 <= sb_sz (sbuf_mem sb s))%Z) /\
  (forall sb c, sbuf_ok sb -> sbuf_ok (sbuf_chr sb c) /\ (sb_n (sbuf_chr sb c) + 1 <= sb_sz (sbuf_chr sb c))%Z) /\
  (forall chunks, (0 <= sb_n (rd_sbuf chunks) < sb_sz (rd_sbuf chunks))%Z).
Proof. exact (conj lbuf_replace_cap (conj sbuf_mem_ok (conj sbuf_chr_ok rd_sbuf_room))). Qed.
Print Assumptions C01_capacity.

(* the hypotheses are satisfiable and the functions compute *)
Example C01_nonvacuous :
  nonul [97; 10; 98]%N /\ read_then_write [[97]; [10; 98]]%N [1; 2; 3; 4; 5; 6; 7; 8; 9]%N = Some [97; 10; 98; 10]%N /\
  outp (lbuf_wr_gen 3 [[97; 10]; [98; 10]; [99; 99; 99; 10]; [10]]%N 0 4) = [[97; 10]; [98; 10]; [99; 99; 99; 10]; [10]]%N /\
  lbuf_ok lbuf_make /\ sbuf_ok sbuf_make.
Proof.
  split; [repeat constructor|]. split; [reflexivity|]. split; [reflexivity|]. split; [exact lbuf_make_ok | exact sbuf_make_ok].
Qed.

(* ------------------------------------------------------------------------------------------ *)
(* THE MODEL IS THE C TEXT (coq/TrLbufLines.v): linelength and linecount of /repo/lbuf.c -- the two helpers with which lbuf_replace
   splits a text into lines --, translated by tools/c2clite.py into CLite terms (coq/GenCFuncs.v, whitelist
   tools/c2clite.d/50_lbuf.list; strchr / strlen are builtins of CLite.v), RUN on a memory in which block b holds the
   NUL-terminated string s: from EVERY offset o inside s, linecount returns IoDefs.linecount of the rest of the text
   (= the number of lines of split_lines, C01_split_concat / linecount_len) and linelength returns `linelen` of it, the number
   of bytes of the first line of the model's split (C01_tr_linelen_is_the_split).  Memory unchanged, every load inside the
   block, no overflow: the one bound needed is that the text is shorter than 2 GB (both functions return int). *)
From NV Require CLite CLiteProps GenCFuncs TrLbufLines.
Section C01_translated.
Import CLite CLiteProps GenCFuncs TrLbufLines.

Theorem C01_tr_linelen_is_the_split : forall t : bytes, t <> [] ->
  split_lines t = norm (firstn (linelen t) t) :: split_lines (skipn (linelen t) t) /\
  linecount t = S (linecount (skipn (linelen t) t)) /\ (1 <= linelen t <= length t)%nat.
Proof. exact (fun t H => conj (split_lines_step t H) (conj (linecount_step t H) (conj (linelen_pos t H) (linelen_le t)))). Qed.
Print Assumptions C01_tr_linelen_is_the_split.

Theorem C01_tr_linelength : forall m b s o d fuel,
  str_at m b s -> nonul s -> (o <= length s)%nat -> (Z.of_nat (length s) <= 2147483647)%Z ->
  callf cprog fuel (S d) F_lbuf_linelength [VPtr b (Z.of_nat o)] m = Ok (VInt (Z.of_nat (linelen (skipn o s))), m).
Proof. exact tr_linelength. Qed.
Print Assumptions C01_tr_linelength.

Theorem C01_tr_linecount : forall m b s o d fuel,
  str_at m b s -> nonul s -> (o <= length s)%nat -> (Z.of_nat (length s) <= 2147483647)%Z ->
  (linecount (skipn o s) < fuel)%nat ->
  callf cprog fuel (S (S d)) F_lbuf_linecount [VPtr b (Z.of_nat o)] m = Ok (VInt (Z.of_nat (linecount (skipn o s))), m).
Proof. exact tr_linecount. Qed.
Print Assumptions C01_tr_linecount.

(* linecount(NULL) = 0 (lbuf_replace is called with s = NULL for a pure deletion) *)
Theorem C01_tr_linecount_null : forall m d fuel, (0 < fuel)%nat ->
  callf cprog fuel (S (S d)) F_lbuf_linecount [VInt 0] m = Ok (VInt 0, m).
Proof. exact tr_linecount_null. Qed.
Print Assumptions C01_tr_linecount_null.

(* not vacuous, and the translated functions RUN: the text "ab\ncd\n\nef" (no final newline) in block 12: four lines;
   linelength is 3 at offset 0, 1 at the empty line (offset 6), 2 on the unterminated last line (offset 7), 0 at the
   terminator; linecount from offset 3 is 3; NULL gives 0; the model splits it into the same four lines *)
Example C01_tr_nonvacuous :
  let s := [97; 98; 10; 99; 100; 10; 10; 101; 102]%N in
  let m0 := repeat [] 12 ++ [cstr_block (zb s)] in
  let ll (o : Z) := callf cprog 10 3 F_lbuf_linelength [VPtr 12 o] m0 in
  let lc (o : Z) := callf cprog 10 3 F_lbuf_linecount [VPtr 12 o] m0 in
  str_at m0 12 s /\ nonul s /\
  lc 0%Z = Ok (VInt 4, m0) /\ linecount s = 4%nat /\ length (split_lines s) = 4%nat /\
  split_lines s = [[97; 98; 10]; [99; 100; 10]; [10]; [101; 102; 10]]%N /\
  ll 0%Z = Ok (VInt 3, m0) /\ linelen s = 3%nat /\ ll 6%Z = Ok (VInt 1, m0) /\ ll 7%Z = Ok (VInt 2, m0) /\ ll 9%Z = Ok (VInt 0, m0) /\
  lc 3%Z = Ok (VInt 3, m0) /\ lc 9%Z = Ok (VInt 0, m0) /\
  callf cprog 10 3 F_lbuf_linecount [VInt 0] m0 = Ok (VInt 0, m0) /\
  ll 10%Z = Err EOob.
Proof.
  cbv zeta. split; [reflexivity|]. split; [repeat constructor|]. vm_compute. repeat split.
Qed.
End C01_translated.

(* ------------------------------------------------------------------------------------------ *)
(* THE MODEL IS THE C TEXT (coq/TrSbuf.v): the growable string buffer /repo/sbuf.c -- sbuf_make, sbuf_len, sbuf_cut, sbuf_extend,
   sbuf_mem, sbuf_str, sbuf_chr, sbuf_buf, sbuf_done, sbuf_free --, translated by tools/c2clite.py (coq/GenCFuncs.v, whitelist
   tools/c2clite.d/90_sbuf.list) and RUN by the checked semantics of coq/CLite.v, in which malloc appends a fresh block of
   indeterminate cells, free empties a block (any later access through the pointer is Err EOob), memcpy/memset read and write
   cell by cell, checked.  `struct sbuf { char *s; int s_n; int s_sz; }` is a block of three cells;
   sbuf_rep m p cs sz: block p of m is a live struct sbuf holding the char cells cs (as the ints the C code stored; the byte the
   model sees is the cell modulo 256: byte_of, sb_model) in an allocation of EXACTLY sz cells, |cs| < sz, or s = NULL with
   s_n = s_sz = 0.  Every theorem: for ALL memories satisfying sbuf_rep the call returns Ok -- so every load, store, memcpy and
   free it made was inside a live block --, the new memory satisfies sbuf_rep for the MODEL's new contents and capacity
   (IoDefs.sbuf_mem / sbuf_chr / sbuf_buf, NEXTSZ / ALIGN / SBUFSZ), and sbuf_step: memory only grew, the data block is the old
   one or a fresh one, every other block that existed before is unchanged.  The one side condition is sbuf_fits: the size
   computation of NEXTSZ stays inside int (discharged below 500 MB by C01_tr_sbuf_from_make). *)
From NV Require TrSbuf.
Section C01_translated_sbuf.
Import CLite CLiteProps GenCFuncs TrSbuf.

Theorem C01_tr_sbuf_make : forall m d fuel,
  callf cprog fuel (S d) F_sbuf_make [] m = Ok (VPtr (length m) 0, m ++ [[VInt 0; VInt 0; VInt 0]]) /\
  sbuf_rep (m ++ [[VInt 0; VInt 0; VInt 0]]) (length m) [] 0.
Proof. exact (fun m d fuel => conj (tr_sbuf_make m d fuel) (rep_make m)). Qed.
Print Assumptions C01_tr_sbuf_make.

Theorem C01_tr_sbuf_len : forall m p cs sz d fuel, sbuf_rep m p cs sz ->
  callf cprog fuel (S d) F_sbuf_len [VPtr p 0] m = Ok (VInt (Z.of_nat (length cs)), m).
Proof. exact tr_sbuf_len. Qed.
Print Assumptions C01_tr_sbuf_len.

Theorem C01_tr_sbuf_cut : forall m p cs sz len d fuel, sbuf_rep m p cs sz -> (0 <= len <= 2147483647)%Z ->
  exists m', callf cprog fuel (S d) F_sbuf_cut [VPtr p 0; VInt len] m = Ok (VUndef, m') /\
    sbuf_rep m' p (firstn (Z.to_nat len) cs) sz /\ sbuf_step m m' p /\ sbuf_datab m' p = sbuf_datab m p /\ length m' = length m.
Proof. exact tr_sbuf_cut. Qed.
Print Assumptions C01_tr_sbuf_cut.

(* sbuf_extend: a bigger block is allocated, the old contents copied, the old block freed (emptied) *)
Theorem C01_tr_sbuf_extend : forall m p cs sz newsz d fuel,
  sbuf_rep m p cs sz -> (Z.of_nat (length cs) < newsz <= 2147483647)%Z ->
  exists m', callf cprog fuel (S d) F_sbuf_extend [VPtr p 0; VInt newsz] m = Ok (VUndef, m') /\
    sbuf_rep m' p cs newsz /\ sbuf_step m m' p /\ sbuf_datab m' p = Some (length m) /\ length m' = S (length m) /\
    (forall bo, sbuf_datab m p = Some bo -> nth_error m' bo = Some []).
Proof. exact tr_sbuf_extend. Qed.
Print Assumptions C01_tr_sbuf_extend.

(* sbuf_mem(sb, s, len): the source is `len` int cells at offset os of a block other than the struct and its data block *)
Theorem C01_tr_sbuf_mem : forall m p cs sz bs os sblk src d fuel,
  sbuf_rep m p cs sz -> bs <> p -> sbuf_datab m p <> Some bs -> nth_error m bs = Some sblk -> (0 <= os)%Z ->
  (os + Z.of_nat (length src) <= Z.of_nat (length sblk))%Z ->
  firstn (length src) (skipn (Z.to_nat os) sblk) = map VInt src ->
  sbuf_fits sz (Z.of_nat (length src) + 1) ->
  let sb' := IoDefs.sbuf_mem (sb_model cs sz) (map byte_of src) in
  exists m', callf cprog fuel (S (S d)) F_sbuf_mem [VPtr p 0; VPtr bs os; VInt (Z.of_nat (length src))] m = Ok (VUndef, m') /\
    sbuf_rep m' p (cs ++ src) (sb_sz sb') /\ sb' = sb_model (cs ++ src) (sb_sz sb') /\ sbuf_step m m' p.
Proof. exact tr_sbuf_mem. Qed.
Print Assumptions C01_tr_sbuf_mem.

(* sbuf_str(sb, s): s points into a NUL-terminated string (strlen is a builtin of CLite.v) *)
Theorem C01_tr_sbuf_str : forall m p cs sz bs s o d fuel,
  sbuf_rep m p cs sz -> bs <> p -> sbuf_datab m p <> Some bs -> str_at m bs s -> nonul s -> (o <= length s)%nat ->
  (Z.of_nat (length s) <= 2147483647)%Z ->
  let t := skipn o s in
  sbuf_fits sz (Z.of_nat (length t) + 1) ->
  let sb' := IoDefs.sbuf_mem (sb_model cs sz) t in
  exists m', callf cprog fuel (S (S (S d))) F_sbuf_str [VPtr p 0; VPtr bs (Z.of_nat o)] m = Ok (VUndef, m') /\
    sbuf_rep m' p (cs ++ zb t) (sb_sz sb') /\ sb' = sb_model (cs ++ zb t) (sb_sz sb') /\ sbuf_step m m' p.
Proof. exact tr_sbuf_str. Qed.
Print Assumptions C01_tr_sbuf_str.

(* sbuf_chr(sb, c): `sbuf->s[sbuf->s_n++] = c` -- the ++ on the field is CLite's EIncMem; the cell holds (char) c *)
Theorem C01_tr_sbuf_chr : forall m p cs sz c d fuel,
  sbuf_rep m p cs sz -> sbuf_fits sz 1 ->
  let sb' := IoDefs.sbuf_chr (sb_model cs sz) (byte_of c) in
  exists m', callf cprog fuel (S (S d)) F_sbuf_chr [VPtr p 0; VInt c] m = Ok (VUndef, m') /\
    sbuf_rep m' p (cs ++ [wrap I8 c]) (sb_sz sb') /\ sb' = sb_model (cs ++ [wrap I8 c]) (sb_sz sb') /\ sbuf_step m m' p.
Proof. exact tr_sbuf_chr. Qed.
Print Assumptions C01_tr_sbuf_chr.

(* sbuf_buf: the terminator is stored INSIDE the allocation (index |cs| < sz' = the length of the data block), the pointer
   returned is the start of the data block; a buffer that never held anything gets one cell *)
Theorem C01_tr_sbuf_buf : forall m p cs sz d fuel,
  sbuf_rep m p cs sz ->
  let sz' := sb_sz (IoDefs.sbuf_buf (sb_model cs sz)) in
  exists b m' rest, callf cprog fuel (S (S d)) F_sbuf_buf [VPtr p 0] m = Ok (VPtr b 0, m') /\
    sbuf_rep m' p cs sz' /\ sbuf_datab m' p = Some b /\
    nth_error m' b = Some (map VInt cs ++ VInt 0 :: rest) /\ Z.of_nat (length cs + S (length rest)) = sz' /\
    (Z.of_nat (length cs) < sz')%Z /\
    sbuf_step m m' p /\ (sbuf_datab m p = Some b \/ (length m <= b)%nat).
Proof. exact tr_sbuf_buf. Qed.
Print Assumptions C01_tr_sbuf_buf.

(* sbuf_done: the terminated string is returned, the struct is freed, nothing else changes *)
Theorem C01_tr_sbuf_done : forall m p cs sz d fuel,
  sbuf_rep m p cs sz ->
  exists b m' rest, callf cprog fuel (S (S (S d))) F_sbuf_done [VPtr p 0] m = Ok (VPtr b 0, m') /\
    nth_error m' b = Some (map VInt cs ++ VInt 0 :: rest) /\ nth_error m' p = Some [] /\ b <> p /\
    (sbuf_datab m p = Some b \/ (length m <= b)%nat) /\ (length m <= length m')%nat /\
    forall b', (b' < length m)%nat -> b' <> p -> sbuf_datab m p <> Some b' -> nth_error m' b' = nth_error m b'.
Proof. exact tr_sbuf_done. Qed.
Print Assumptions C01_tr_sbuf_done.

(* sbuf_free: the data block and the struct are freed, nothing else changes *)
Theorem C01_tr_sbuf_free : forall m p cs sz d fuel,
  sbuf_rep m p cs sz ->
  exists m', callf cprog fuel (S d) F_sbuf_free [VPtr p 0] m = Ok (VUndef, m') /\
    nth_error m' p = Some [] /\ (forall bo, sbuf_datab m p = Some bo -> nth_error m' bo = Some []) /\
    length m' = length m /\
    forall b', b' <> p -> sbuf_datab m p <> Some b' -> nth_error m' b' = nth_error m b'.
Proof. exact tr_sbuf_free. Qed.
Print Assumptions C01_tr_sbuf_free.

(* ANY sequence of sbuf_chr / sbuf_mem / sbuf_str calls on the C text is the fold of the model over the same operations *)
Theorem C01_tr_sbuf_ops : forall m p cs sz ops d fuel,
  sbuf_rep m p cs sz -> Forall (op_src_ok m p) ops -> ops_fit (sb_model cs sz) ops ->
  let sbk := fold_left op_model ops (sb_model cs sz) in
  let csk := cs ++ flat_map op_cells ops in
  exists m', run_ops fuel (S (S (S d))) p ops m = Ok m' /\
    sbuf_rep m' p csk (sb_sz sbk) /\ sbk = sb_model csk (sb_sz sbk) /\ sbuf_step m m' p.
Proof. exact tr_sbuf_ops. Qed.
Print Assumptions C01_tr_sbuf_ops.

(* C01_capacity ON THE C TEXT: after ANY such sequence, the terminator written by sbuf_buf lies inside the allocation -- the
   call returns Ok (a store outside its block is Err EOob), the data block is cells ++ 0 :: rest and is exactly as long as
   the model's capacity sb_sz, and sb_n < sb_sz *)
Theorem C01_tr_sbuf_terminator_inside : forall m p cs sz ops d fuel,
  sbuf_rep m p cs sz -> Forall (op_src_ok m p) ops -> ops_fit (sb_model cs sz) ops ->
  let sbk := IoDefs.sbuf_buf (fold_left op_model ops (sb_model cs sz)) in
  let csk := cs ++ flat_map op_cells ops in
  exists m1 b m2 rest, run_ops fuel (S (S (S d))) p ops m = Ok m1 /\
    callf cprog fuel (S (S d)) F_sbuf_buf [VPtr p 0] m1 = Ok (VPtr b 0, m2) /\
    nth_error m2 b = Some (map VInt csk ++ VInt 0 :: rest) /\
    Z.of_nat (length (map VInt csk ++ VInt 0 :: rest)) = sb_sz sbk /\ sb_n sbk = Z.of_nat (length csk) /\ (0 <= sb_n sbk < sb_sz sbk)%Z /\
    sbuf_rep m2 p csk (sb_sz sbk) /\ sbuf_step m m2 p /\ sbuf_datab m2 p = Some b /\ sbk = sb_model csk (sb_sz sbk).
Proof. exact tr_sbuf_terminator_inside. Qed.
Print Assumptions C01_tr_sbuf_terminator_inside.

(* from sbuf_make on, with less than 500 MB of text, no hypothesis about sizes is left: make, any operations, buf *)
Theorem C01_tr_sbuf_from_make : forall (m0 : mem) ops d fuel,
  let p := length m0 in
  let m : mem := m0 ++ [[VInt 0; VInt 0; VInt 0]] in
  Forall (op_src_ok m p) ops -> (ops_total ops <= 500000000)%Z ->
  let sbk := IoDefs.sbuf_buf (fold_left op_model ops IoDefs.sbuf_make) in
  let csk := flat_map op_cells ops in
  callf cprog fuel (S d) F_sbuf_make [] m0 = Ok (VPtr p 0, m) /\
  exists m1 b m2 rest, run_ops fuel (S (S (S d))) p ops m = Ok m1 /\
    callf cprog fuel (S (S d)) F_sbuf_buf [VPtr p 0] m1 = Ok (VPtr b 0, m2) /\
    nth_error m2 b = Some (map VInt csk ++ VInt 0 :: rest) /\
    Z.of_nat (length (map VInt csk ++ VInt 0 :: rest)) = sb_sz sbk /\ sb_data sbk = map byte_of csk /\ (0 <= sb_n sbk < sb_sz sbk)%Z /\
    (length m0 < b)%nat /\ forall b', (b' < length m0)%nat -> nth_error m2 b' = nth_error m0 b'.
Proof. exact tr_sbuf_from_make. Qed.
Print Assumptions C01_tr_sbuf_from_make.

(* not vacuous, and the translated functions RUN.  Memory: one block, the string "abc".  sbuf_make allocates the struct (block 1);
   sbuf_str(sb, "abc") allocates 128 cells (block 2) and copies; sbuf_chr(sb, 'd'); sbuf_buf terminates and returns block 2.
   The resulting blocks are shown; the model computes the same contents and capacity; sbuf_rep holds of the result;
   sbuf_done then frees the struct, and a second free of it is an error of the semantics *)
Example C01_tr_sbuf_nonvacuous :
  let m0 : mem := [cstr_block (zb [97; 98; 99]%N)] in
  let m1 : mem := m0 ++ [[VInt 0; VInt 0; VInt 0]] in
  let data := map VInt [97; 98; 99; 100; 0]%Z ++ repeat VUndef 123 in
  let m4 : mem := [cstr_block (zb [97; 98; 99]%N); [VPtr 2 0; VInt 4; VInt 128]; data] in
  callf cprog 1 3 F_sbuf_make [] m0 = Ok (VPtr 1 0, m1) /\
  (do (_, m2) <- callf cprog 1 3 F_sbuf_str [VPtr 1 0; VPtr 0 0] m1;
   do (_, m3) <- callf cprog 1 3 F_sbuf_chr [VPtr 1 0; VInt 100] m2;
   callf cprog 1 3 F_sbuf_buf [VPtr 1 0] m3) = Ok (VPtr 2 0, m4) /\
  run_ops 1 3 1 [OpStr 0 0 [97; 98; 99]%N; OpChr 100] m1 = Ok [cstr_block (zb [97; 98; 99]%N); [VPtr 2 0; VInt 4; VInt 128]; map VInt [97; 98; 99; 100]%Z ++ repeat VUndef 124] /\
  IoDefs.sbuf_buf (IoDefs.sbuf_chr (IoDefs.sbuf_mem IoDefs.sbuf_make [97; 98; 99]%N) 100%N) = {| sb_data := [97; 98; 99; 100]%N; sb_n := 4; sb_sz := 128 |} /\
  sbuf_rep m4 1 [97; 98; 99; 100]%Z 128 /\ sbuf_rep m1 1 [] 0 /\
  Forall (op_src_ok m1 1) [OpStr 0 0 [97; 98; 99]%N; OpChr 100] /\ ops_fit IoDefs.sbuf_make [OpStr 0 0 [97; 98; 99]%N; OpChr 100] /\
  callf cprog 1 3 F_sbuf_len [VPtr 1 0] m4 = Ok (VInt 4, m4) /\
  callf cprog 1 3 F_sbuf_done [VPtr 1 0] m4 = Ok (VPtr 2 0, [cstr_block (zb [97; 98; 99]%N); []; data]) /\
  callf cprog 1 3 F_sbuf_free [VPtr 1 0] [cstr_block (zb [97; 98; 99]%N); []; data] = Err EOob.
Proof.
  cbv zeta. split; [vm_compute; reflexivity|]. split; [vm_compute; reflexivity|].
  split; [vm_compute; reflexivity|]. split; [vm_compute; reflexivity|].
  split; [right; exists 2%nat, (VInt 0 :: repeat VUndef 123); split; [discriminate|]; split; [reflexivity|]; split; [reflexivity|];
          split; [reflexivity|]; split; [vm_compute; repeat constructor|vm_compute; discriminate]|].
  split; [left; repeat split|].
  split; [repeat constructor; try discriminate; vm_compute; discriminate|].
  split; [cbn [ops_fit]; unfold sbuf_fits; repeat split; vm_compute; discriminate|].
  split; [vm_compute; reflexivity|]. split; vm_compute; reflexivity.
Qed.
End C01_translated_sbuf.

(* ------------------------------------------------------------------------------------------ *)
(* THE MODEL IS THE C TEXT (coq/TrWrite.v): the WRITE path of /repo/lbuf.c -- write_fully and lbuf_wr --, translated by
   tools/c2clite.py (coq/GenCFuncs.v, whitelist tools/c2clite.d/99a_write.list; `buf + nw` on the void pointer scales by one cell,
   GNU C's sizeof(void) == 1) and RUN by the checked semantics of coq/CLite.v.  write(2) and ftruncate(2) are not C text of /repo:
   they are calls to untranslated functions, answered by an ORACLE (coq/CLiteExt.v: callx).  kernel_oracle ext ks kl: on those two
   calls ext is the kernel of the model -- block ks of the memory holds the schedule of write outcomes still to come
   (IoDefs.outcome: full, error, short count k; one consumed per call, in order; exhausted = success in full), block kl the LOG of
   the calls made (TrWrite.event: EvWrite fd bytes result / EvTrunc fd length); write(2) reads the n cells at its pointer CHECKED
   inside their block and refuses a cell that is not a byte value (an indeterminate cell of the batch buffer would be Err EUndef).
   For EVERY such oracle, EVERY schedule s, EVERY log so far:
     C01_tr_write_fully   write_fully(fd, buf, sz) on sz bytes p standing in a block makes exactly the calls of wf_run fd p s --
                          each call from the pointer advanced by the counts accepted so far --, returns sz or -1, and the
                          bytes that reached the file, the success flag and the schedule left are IoDefs.write_fully p s;
     C01_tr_lbuf_wr       lbuf_wr(lb, fd, beg, end) on a buffer in memory (lines_at: struct lbuf -> line table -> one
                          NUL-terminated block per line) hands write_fully exactly the payloads outp (IoDefs.lbuf_wr lines beg end)
                          -- by C01_batches: batches of at most 4096 bytes, or single lines of at least 4096 bytes, partitioning
                          the range in order --, stops at the first that fails, returns 0 iff none failed and only then calls
                          ftruncate(fd, wsz) with the model's byte count (= the length of the range, C01_batches).  That the call
                          returns Ok says: the 4096-cell batch block (the local char buf[4096]) was never overrun by a memcpy
                          and no cell beyond the batched bytes was handed to write. *)
From NV Require CLite CLiteProps GenCFuncs CLiteExt TrWrite.
Section C01_translated_write.
Import CLite CLiteProps GenCFuncs CLiteExt TrWrite.

Theorem C01_tr_write_fully : forall ext ks kl fd b o (blk : block) (p : bytes) s lg m d fuel,
  kernel_oracle ext ks kl -> world_at ks kl m s lg -> nth_error m b = Some blk -> b <> ks -> b <> kl ->
  (0 <= o)%Z -> bytes_in blk (Z.to_nat o) p -> bytes_lt256 p -> (Z.of_nat (length p) <= 4611686018427387904)%Z ->
  (length s + 2 <= fuel)%nat ->
  let '(ev, ok, r) := wf_run fd p s in
  callx ext cprog fuel (S (S d)) F_lbuf_write_fully [VInt fd; VPtr b o; VInt (Z.of_nat (length p))] m
  = Ok (VInt (if ok then Z.of_nat (length p) else -1), set_world ks kl m r (lg ++ ev)) /\
  IoDefs.write_fully p s = (reached ev, ok, r) /\
  exists used, s = used ++ r /\ (ok = false <-> In IoDefs.OErr used).
Proof. exact tr_write_fully_full. Qed.
Print Assumptions C01_tr_write_fully.

Theorem C01_tr_lbuf_wr : forall ext ks kl m lb bln lbs lines fd beg en s lg d fuel,
  kernel_oracle ext ks kl -> world_at ks kl m s lg -> lines_at ks kl m lb bln lbs lines ->
  (en <= length lines)%nat -> (Z.of_nat (length lines) <= 2147483647)%Z ->
  (Z.of_nat (length (concat lines)) <= 4611686018427387904)%Z ->
  (length s + 2 <= fuel)%nat -> (en - beg + 2 <= fuel)%nat ->
  let w := IoDefs.lbuf_wr lines beg en in
  let '(ev, ok, r) := wa_run fd (outp w) s in
  exists bufblk',
    callx ext cprog fuel (S (S (S d))) F_lbuf_wr [VPtr lb 0; VInt fd; VInt (Z.of_nat beg); VInt (Z.of_nat en)] m
    = Ok (VInt (if ok then 0 else 1),
          wm ks kl m bufblk' r (lg ++ ev ++ if ok then [EvTrunc fd (Z.of_nat (wsz w))] else [])).
Proof. exact tr_lbuf_wr. Qed.
Print Assumptions C01_tr_lbuf_wr.

(* not vacuous, and the translated write_fully RUNS (ex_wf: fd 5, block 0 holds the bytes, block 1 the schedule, block 2 the log) *)
Example C01_tr_write_nonvacuous :
  let p := [97; 98; 99; 10]%N in
  kernel_oracle (sys 1 2) 1 2 /\ world_at 1 2 [cstr_block (zb p); enc_sch [OShort 1; OOk]; []] [OShort 1; OOk] [] /\
  bytes_in (cstr_block (zb p)) 0 p /\ bytes_lt256 p /\
  (* a short count, then success: two calls, the second from the advanced pointer *)
  ex_wf (cstr_block (zb p)) 4%Z [OShort 1; OOk]
    = Ok (VInt 4, [cstr_block (zb p); []; enc_log [EvWrite 5 p 1; EvWrite 5 [98; 99; 10]%N 3]]) /\
  IoDefs.write_fully p [OShort 1; OOk] = (p, true, []) /\
  (* a short count, then an error: -1, the third outcome is not consumed *)
  ex_wf (cstr_block (zb p)) 4%Z [OShort 2; IoDefs.OErr; OOk]
    = Ok (VInt (-1), [cstr_block (zb p); enc_sch [OOk]; enc_log [EvWrite 5 p 2; EvWrite 5 [99; 10]%N (-1)]]) /\
  IoDefs.write_fully p [OShort 2; IoDefs.OErr; OOk] = ([97; 98]%N, false, [OOk]) /\
  (* a count that leaves the block, and an indeterminate cell handed to write(2), are errors of the semantics *)
  ex_wf (cstr_block (zb p)) 6%Z [] = Err EOob /\ ex_wf [VInt 97; VUndef] 2%Z [] = Err EUndef.
Proof.
  cbv zeta. split; [apply sys_kernel; discriminate|]. split; [split; reflexivity|].
  split; [apply bytes_in_cstr|]. split; [repeat constructor|]. vm_compute. repeat split.
Qed.

(* lbuf_wr RUNS (ex_wr: the buffer ex_lines = "ab\n", "c\n" and a line of 4096 bytes, fd 7, range 0..3) *)
Example C01_tr_lbuf_wr_nonvacuous :
  lines_at 5 6 (ex_mem []) 0 1 [2; 3; 4]%nat ex_lines /\ world_at 5 6 (ex_mem []) [] [] /\
  outp (IoDefs.lbuf_wr ex_lines 0 3) = [[97; 98; 10; 99; 10]%N; ex_long] /\ wsz (IoDefs.lbuf_wr ex_lines 0 3) = 4101%nat /\
  (* no fault: the batch, the long line written directly from its own block, the truncation *)
  ex_wr [] = Some (VInt 0, enc_log [EvWrite 7 [97; 98; 10; 99; 10]%N 5; EvWrite 7 ex_long 4096; EvTrunc 7 4101]) /\
  (* the flush fails: 1 is returned at once, the long line is not written, no truncation *)
  ex_wr [IoDefs.OErr; OOk] = Some (VInt 1, enc_log [EvWrite 7 [97; 98; 10; 99; 10]%N (-1)]) /\
  (* the direct write of the long line is cut short and then fails *)
  ex_wr [OOk; OShort 4000; IoDefs.OErr]
    = Some (VInt 1, enc_log [EvWrite 7 [97; 98; 10; 99; 10]%N 5; EvWrite 7 ex_long 4000; EvWrite 7 (skipn 4000 ex_long) (-1)]).
Proof.
  split; [apply ex_lines_at|]. split; [split; reflexivity|]. vm_compute. repeat split.
Qed.
End C01_translated_write.

(* ------------------------------------------------------------------------------------------ *)
(* THE MODEL IS THE C TEXT (coq/TrSplice.v, TrSpliceMove.v, TrSpliceCut.v, TrSpliceMarks.v, TrSpliceAll.v, TrSpliceModels.v):
   lbuf_replace of /repo/lbuf.c -- the splice every edit, read, undo and redo goes through --, translated by tools/c2clite.py
   (coq/GenCFuncs.v, whitelist tools/c2clite.d/55_splice.list) and RUN by the checked semantics of coq/CLite.v (malloc appends a
   fresh block of indeterminate cells, free empties a block so that any later access through the pointer is Err EOob, memcpy /
   memmove read and write cell by cell, checked).
   lbuf_at m lb blk bln bgl lbs lines globs mk cap: block lb of m is the struct lbuf blk (75 cells), ln points to the start of
   block bln (cap pointer cells, the first |lines| point at offset 0 to the blocks lbs), ln_glob to the start of block bgl (cap
   cells, the first |lines| hold globs), block (nth i lbs) holds line i with its newline as a C string, lb / bln / bgl / lbs
   pairwise distinct, ln_n = |lines|, ln_sz = cap > 0, mark[] holds the rows mk.
   C01_tr_lbuf_replace: from ANY memory with lbuf_at, any pos + n_del <= |lines|, s NULL or a NUL-terminated text in a block
   outside the buffer, the call returns Ok -- every load, store, memcpy, memmove inside a live block, no double free, no signed
   overflow, no fuel exhausted (splice_fuel) -- and the new memory satisfies lbuf_at for
     lines' = firstn pos lines ++ split_lines s ++ skipn (pos + n_del) lines   (IoDefs: every inserted line newline-terminated),
     capacity' = IoDefs.grow (C01_tr_splice_is_io: exactly the result of the model's lbuf_replace),
     globs' / marks' as ExDefs says (Properties_C04.v: C04_tr_splice_is_ex),
   the blocks of the deleted lines are freed, the old arrays are freed exactly when the table grew (arr_kept), every block that
   existed before and is not part of the buffer is unchanged, the struct's cells 68.. (useq, hist, ...) are unchanged.
   Side conditions, all exact: the sizes fit an int (|lines| + n_ins, the final capacity, |s| + 2), the mark rows fit (row_fits:
   lb->mark[i] += n_ins - n_del does not overflow).  NOT covered: a buffer with ln == NULL (as lbuf_make leaves it): its first
   growth calls memcpy(nln, NULL, 0), undefined in C11 (7.24.1p2) and rejected by CLite.v (Err EShape, see the Example). *)
From NV Require TrSplice TrSpliceMarks TrSpliceAll TrSpliceModels.
Section C01_translated_splice.
Import CLite CLiteProps GenCFuncs TrSplice TrSpliceMarks TrSpliceAll TrSpliceModels.
Local Open Scope Z_scope.

Theorem C01_tr_lbuf_replace : forall (m : mem) lb blk bln bgl lbs lines globs mk cap sv t nul pos nd cap' d fuel,
  let n := length lines in let ni := linecount t in
  let need := Z.of_nat n + Z.of_nat ni - Z.of_nat nd in
  lbuf_at m lb blk bln bgl lbs lines globs mk cap ->
  s_text m (lb :: bln :: bgl :: lbs) sv t nul ->
  (pos + nd <= n)%nat ->
  Z.of_nat n + Z.of_nat ni <= 2147483647 ->
  grow (grow_fuel need) need (Z.of_nat cap) = Some cap' -> cap' <= 2147483647 ->
  Forall (row_fits (Z.of_nat pos) (Z.of_nat nd) (Z.of_nat ni)) mk ->
  (splice_fuel n ni nd <= fuel)%nat ->
  exists m' blk' bln' bgl' base,
    callf cprog fuel (S (S (S d))) F_lbuf_replace [VPtr lb 0; sv; VInt (Z.of_nat pos); VInt (Z.of_nat nd)] m = Ok (VUndef, m')
    /\ lbuf_at m' lb blk' bln' bgl' (splice lbs (seq base ni) pos nd) (splice lines (split_lines t) pos nd)
         (splice_globs globs pos nd ni) (splice_marks nul pos nd ni mk) (Z.to_nat cap')
    /\ need < cap' /\ Z.of_nat cap <= cap'
    /\ (length m <= base)%nat /\ (length m <= length m')%nat
    /\ (forall c, (c < length m)%nat -> ~ In c (lb :: bln :: bgl :: lbs) -> nth_error m' c = nth_error m c)
    /\ (forall b, In b (firstn nd (skipn pos lbs)) -> nth_error m' b = Some [])
    /\ arr_kept m m' bln bln' /\ arr_kept m m' bgl bgl'
    /\ (forall j, (68 <= j)%nat -> nth_error blk' j = nth_error blk j).
Proof. exact tr_lbuf_replace. Qed.
Print Assumptions C01_tr_lbuf_replace.

(* the lines and the capacity of that memory are the result of the model's lbuf_replace (with its growth loop) *)
Theorem C01_tr_splice_is_io : forall lines cap t pos nd cap',
  let need := Z.of_nat (length lines) + Z.of_nat (linecount t) - Z.of_nat nd in
  grow (grow_fuel need) need (Z.of_nat cap) = Some cap' ->
  lbuf_replace {| ln := lines; ln_sz := Z.of_nat cap |} t pos nd
  = Some {| ln := splice lines (split_lines t) pos nd; ln_sz := cap' |}.
Proof. exact splice_is_io. Qed.
Print Assumptions C01_tr_splice_is_io.

(* not vacuous, and the translated lbuf_replace RUNS: the buffer "a\n", "b\n" (capacity 3, ln_glob 0, 2) in the blocks behind the
   program's globals, the text "x\ny" in a block of its own; lbuf_replace(lb, "x\ny", 1, 1): the table must grow (2 + 2 - 1 >= 3),
   so the old arrays (blocks G+1, G+2) and the deleted line (G+4) are freed, the new arrays are G+6, G+7, the new lines G+8 = "x\n",
   G+9 = "y\n" (the newline supplied); ln_glob of the replaced line is inherited (2), of the added line cleared; ln_n = 3,
   ln_sz = 6; marks '[' = 1, ']' = 2.  A buffer with ln == NULL is rejected (memcpy from NULL). *)
Example C01_tr_lbuf_replace_runs :
  let G := ex_G in
  lbuf_at ex_mem G ex_blk (G + 1) (G + 2) [G + 3; G + 4]%nat ex_lines [0; 2] (repeat (-1) 32) 3 /\
  s_text ex_mem [G; G + 1; G + 2; G + 3; G + 4]%nat (VPtr (G + 5) 0) ex_text false /\
  grow (grow_fuel 3) 3 3 = Some 6 /\ splice_fuel 2 2 1 = 38%nat /\
  match callf cprog 38 3 F_lbuf_replace [VPtr G 0; VPtr (G + 5) 0; VInt 1; VInt 1] ex_mem with
  | Ok (v, m') => Some (v, skipn (G + 1) m', firstn 4 (skipn 64 (nth G m' [])), firstn 2 (skipn 28 (nth G m' [])))
  | Err _ => None
  end = Some (VUndef,
              [ []; []; cstr_block (zb [97; 10]%N); []; cstr_block (zb ex_text);
                [VPtr (G + 3) 0; VPtr (G + 8) 0; VPtr (G + 9) 0; VUndef; VUndef; VUndef];
                [VInt 0; VInt 2; VInt 0; VUndef; VUndef; VUndef];
                cstr_block (zb [120; 10]%N); cstr_block (zb [121; 10]%N) ],
              [VPtr (G + 6) 0; VPtr (G + 7) 0; VInt 3; VInt 6], [VInt 1; VInt 2]) /\
  splice ex_lines (split_lines ex_text) 1 1 = [[97; 10]; [120; 10]; [121; 10]]%N /\
  splice_globs [0; 2] 1 1 2 = [0; 2; 0] /\
  callf cprog 38 3 F_lbuf_replace [VPtr G 0; VPtr (G + 1) 0; VInt 0; VInt 0] ex_fresh = Err EShape.
Proof.
  cbv zeta. split; [exact ex_at|]. split; [exact ex_s|]. vm_compute. repeat split.
Qed.
End C01_translated_splice.

(* ------------------------------------------------------------------------------------------ *)
(* THE READ PATH IS THE C TEXT (coq/TrRead.v, model coq/IoReadDefs.v): lbuf_rd of /repo/lbuf.c, translated by tools/c2clite.py
   (whitelist tools/c2clite.d/99zzzzz_read.list) and run by coq/CLite.v, with read(2) as an ORACLE in the style of the write path:
   read_oracle ext rs rl says that ext answers X_read as the kernel whose state lives in two memory blocks -- block rs the READ
   SCHEDULE still to come (IoReadDefs.rout: RChunk bs = a read that delivers the bytes bs, a short read of any size; REof = 0;
   RErr = -1; exhausted = end of file), one result consumed per call, block rl the log of the calls (fd, count asked for, result).
   The whole 1024-cell buffer handed to read must lie inside one live block (Err EOob otherwise).  sbuf_make / sbuf_mem /
   sbuf_buf / sbuf_free are the translated sbuf.c (the C01_tr_sbuf theorems); lbuf_edit is the oracle index X_lbuf_edit (edit_oracle: called
   with a pointer to the start of a block holding the text t and its terminator it returns, relates the memories by E, leaves the
   younger blocks alone; asked for the one text t the schedule delivers only).
   C01_tr_lbuf_rd: for EVERY schedule of results read(fd, buf, 1024) can have (rout_ok 1024: 1..1024 bytes, 0, -1), below 500 MB
   of text: lbuf_rd makes exactly the read(fd, buf, 1024) calls rd_log of the schedule up to its first result <= 0 and leaves the
   rest of the schedule (rd_rest);
     - that result is 0 (rd_ok): lbuf_edit is called ONCE, with lb, beg, end as given and a block that holds EXACTLY the
       concatenation of the chunks delivered (rd_chunks) followed by the terminator; 0 is returned; the struct sbuf and its data
       block are freed; the caller's blocks other than the kernel's are as they were when lbuf_edit was called;
     - that result is -1: 1 is returned, lbuf_edit is NOT called -- the text read so far is DROPPED, the buffer stays as it was
       (the statement holds for every oracle, so no call other than read can have happened).
   C01_read_sched_model: the model of this (IoReadDefs.lbuf_rd_sched) is IoDefs.lbuf_edit on the concatenation of the chunks
   delivered -- whatever the chunking --, i.e. for beg <= end <= |lines| the lines become
   firstn beg lines ++ split_lines text ++ skipn end lines; 0 is returned iff no consumed result is an error. *)
From NV Require IoReadDefs TrRead.
Section C01_translated_read.
Import CLite CLiteProps GenCFuncs CLiteExt IoReadDefs TrRead.

Theorem C01_tr_lbuf_rd : forall ext rs rl m0 lb lo fd beg en s lg d fuel E,
  read_oracle ext rs rl -> rworld_at rs rl m0 s lg -> Forall (rout_ok 1024) s ->
  (Z.of_nat (length (concat (rd_chunks s))) <= 500000000)%Z -> (length s + 2 <= fuel)%nat ->
  let t := concat (rd_chunks s) in
  (rd_ok s = true -> edit_oracle ext lb lo beg en (length m0) t E) ->
  let old m := forall k, (k < length m0)%nat -> k <> rs -> k <> rl -> nth_error m k = nth_error m0 k in
  if rd_ok s then
    exists m1 m2 tb rest,
      callx ext cprog fuel (S (S (S d))) F_lbuf_rd [VPtr lb lo; VInt fd; VInt beg; VInt en] m0
      = Ok (VInt 0, upd (upd m2 tb []) (S (length m0)) []) /\
      nth_error m1 tb = Some (map VInt (zb t) ++ VInt 0 :: rest) /\ (length m0 + 2 <= tb)%nat /\ (length m0 + 2 <= length m1)%nat /\
      rworld_at rs rl m1 (rd_rest s) (lg ++ rd_log fd s) /\ old m1 /\ E m1 m2 /\
      (forall k, (length m0 <= k < length m1)%nat -> nth_error m2 k = nth_error m1 k)
  else
    exists mf,
      callx ext cprog fuel (S (S (S d))) F_lbuf_rd [VPtr lb lo; VInt fd; VInt beg; VInt en] m0 = Ok (VInt 1, mf) /\
      rworld_at rs rl mf (rd_rest s) (lg ++ rd_log fd s) /\ old mf.
Proof. exact tr_lbuf_rd. Qed.
Print Assumptions C01_tr_lbuf_rd.

Theorem C01_read_sched_model : forall lb s b e,
  lbuf_rd_sched lb s b e = (if rd_ok s then (IoDefs.lbuf_edit lb (concat (rd_chunks s)) b e, 0%Z) else (Some lb, 1%Z)) /\
  s = rd_used s ++ rd_rest s /\ (rd_ok s = false <-> In RErr (rd_used s)) /\ rd_chunks (rd_used s) = rd_chunks s /\
  (rd_ok s = true -> (0 <= ln_sz lb)%Z -> (b <= e <= length (ln lb))%nat ->
   exists lb', lbuf_rd_sched lb s b e = (Some lb', 0%Z) /\
     ln lb' = firstn b (ln lb) ++ split_lines (concat (rd_chunks s)) ++ skipn e (ln lb)) /\
  (forall chunks, rd_chunks (sched_of chunks REof) = chunks /\ rd_ok (sched_of chunks REof) = true /\
                  rd_chunks (sched_of chunks RErr) = chunks /\ rd_ok (sched_of chunks RErr) = false).
Proof.
  intros lb s b e. split; [apply lbuf_rd_sched_spec|]. split; [apply rd_used_rest|]. split; [apply rd_ok_iff|].
  split; [apply rd_chunks_used|]. split; [apply lbuf_rd_sched_lines|].
  intro chunks. destruct (rd_sched_of chunks REof) as (A & _ & _ & B); [discriminate|].
  destruct (rd_sched_of chunks RErr) as (C & _ & _ & D); [discriminate|]. repeat split; assumption.
Qed.
Print Assumptions C01_read_sched_model.

(* not vacuous, and the translated lbuf_rd RUNS (ex_rd: lbuf_rd(block 0, 7, 2, 2); block 1 the schedule, block 2 the read log,
   block 3 the log of a logging lbuf_edit oracle: 9, beg, end, the cells of the C string it was handed) *)
Example C01_tr_lbuf_rd_nonvacuous :
  let s1 := [RChunk [97; 98; 10; 99]%N; RChunk [100; 10]%N; REof; RChunk [122]%N] in
  let s2 := [RChunk [97; 98; 10; 99]%N; RErr; REof] in
  read_oracle (rsys 1 2 3) 1 2 /\ edit_oracle (rsys 1 2 3) 0 0 2 2 4 (concat (rd_chunks s1)) (logged 3 2 2 (concat (rd_chunks s1))) /\
  rworld_at 1 2 [[VInt 0]; enc_rs s1; []; []] s1 [] /\ Forall (rout_ok 1024) s1 /\ Forall (rout_ok 1024) s2 /\
  (* two short reads, then end of file: one lbuf_edit with the concatenation "ab\ncd\n", 0 returned, the fourth result not consumed *)
  ex_rd s1 = Some (VInt 0, enc_rs [RChunk [122]%N], enc_rlog [EvRead 7 1024 4; EvRead 7 1024 2; EvRead 7 1024 0],
                   [VInt 9; VInt 2; VInt 2; VInt 97; VInt 98; VInt 10; VInt 99; VInt 100; VInt 10]) /\
  rd_chunks s1 = [[97; 98; 10; 99]%N; [100; 10]%N] /\ rd_ok s1 = true /\
  (* a short read, then an error: 1 returned, NO lbuf_edit (the partial text "ab\nc" is dropped) *)
  ex_rd s2 = Some (VInt 1, enc_rs [REof], enc_rlog [EvRead 7 1024 4; EvRead 7 1024 (-1)], []) /\ rd_ok s2 = false /\
  (* an empty file: lbuf_edit with the empty string *)
  ex_rd [] = Some (VInt 0, [], enc_rlog [EvRead 7 1024 0], [VInt 9; VInt 2; VInt 2]).
Proof.
  cbv zeta. split; [apply rsys_read_oracle; discriminate|]. split; [apply rsys_edit_oracle; repeat constructor|].
  split; [split; reflexivity|].
  split; [repeat constructor|]. split; [repeat constructor|]. vm_compute. repeat split.
Qed.
End C01_translated_read.

(* ------------------------------------------------------------------------------------------ *)
(* READ-THEN-WRITE ON THE C TEXT (coq/TrReadWrite.v): the translated lbuf_rd followed by the translated lbuf_wr (C01_tr_lbuf_wr)
   under ONE oracle: read(2) the read kernel (blocks rs, rl), write(2) / ftruncate(2) the write kernel (blocks ks, kl), lbuf_edit
   an oracle that installs the lines of the model's split of the text it is handed (installs: afterwards lines_at holds for
   IoDefs.split_lines of the text, in blocks older than the call of lbuf_rd or made by lbuf_edit, the kernel blocks untouched;
   lbuf_edit itself: Properties_C04.v C04_tr_lbuf_edit, the splice under it: C01_tr_lbuf_replace above).
   C01_tr_read_then_write: for EVERY read schedule that reaches end of file (short reads of any sizes 1..1024) and EVERY write
   schedule without an error (short writes of any sizes), below 500 MB: lbuf_rd returns 0, lbuf_wr over all lines returns 0, the
   bytes that reached the file (reached ev: what the write(2) calls accepted, in order) are norm f for f = the concatenation of
   the chunks read -- f itself or f plus ONE newline --, the log ends with ftruncate(fd, |norm f|), and that is what the model
   (IoReadDefs.read_then_write_sched, whatever the previous content of the target) computes; the read schedule is consumed up
   to its first 0.  A schedule with a failing read: C01_tr_lbuf_rd (1 returned, buffer untouched), the model gives None. *)
From NV Require TrReadWrite.
Section C01_translated_roundtrip.
Import CLite CLiteProps GenCFuncs CLiteExt IoReadDefs TrRead TrWrite TrReadWrite.

Theorem C01_tr_read_then_write : forall ext ks kl rs rl m0 lb rfd wfd s lgr ws lgw d fuel,
  read_oracle ext rs rl -> kernel_oracle ext ks kl -> ks <> rs -> ks <> rl -> kl <> rs -> kl <> rl ->
  rworld_at rs rl m0 s lgr -> world_at ks kl m0 ws lgw ->
  Forall (rout_ok 1024) s -> rd_ok s = true -> ~ In IoDefs.OErr ws ->
  let f := concat (rd_chunks s) in
  (Z.of_nat (length f) <= 500000000)%Z ->
  (length s + 2 <= fuel)%nat -> (length ws + 2 <= fuel)%nat -> (length (split_lines f) + 2 <= fuel)%nat ->
  edit_oracle ext lb 0 0 0 (length m0) f (installs ks kl rs rl lb (length m0) f) ->
  exists m3 m4 ev,
    callx ext cprog fuel (S (S (S d))) F_lbuf_rd [VPtr lb 0; VInt rfd; VInt 0; VInt 0] m0 = Ok (VInt 0, m3) /\
    callx ext cprog fuel (S (S (S d))) F_lbuf_wr [VPtr lb 0; VInt wfd; VInt 0; VInt (Z.of_nat (length (split_lines f)))] m3 = Ok (VInt 0, m4) /\
    nth_error m4 kl = Some (enc_log (lgw ++ ev ++ [EvTrunc wfd (Z.of_nat (length (norm f)))])) /\
    reached ev = norm f /\ (norm f = f \/ norm f = f ++ [NL]) /\
    (forall old, read_then_write_sched s old = Some (reached ev)) /\
    rworld_at rs rl m4 (rd_rest s) (lgr ++ rd_log rfd s).
Proof. exact tr_read_then_write. Qed.
Print Assumptions C01_tr_read_then_write.

(* not vacuous (an lbuf_edit that installs the lines satisfies the hypothesis), and the two translated functions RUN one after the
   other (ex_rw: block 0 the struct lbuf, 1 / 2 the read kernel, 3 / 4 the write kernel; lbuf_edit splits the C string it is handed) *)
Example C01_tr_read_then_write_nonvacuous :
  let s := [RChunk [97; 98; 10; 99]%N; RChunk [100; 10; 101]%N; REof] in
  let f := [97; 98; 10; 99; 100; 10; 101]%N in
  let ext := rwsys 1 2 3 4 (fun _ m => Ok (VUndef, edit_fixed 0 (split_lines f) m)) in
  read_oracle ext 1 2 /\ kernel_oracle ext 3 4 /\ concat (rd_chunks s) = f /\ rd_ok s = true /\ Forall (rout_ok 1024) s /\
  edit_oracle ext 0 0 0 0 5 f (installs 3 4 1 2 0 5 f) /\
  (* "ab\nc" + "d\ne" read in two short reads; written as "ab\ncd\ne\n" (one newline added) by a short write of 3 and a write of the
     other 5 bytes, then ftruncate(8, 8) *)
  ex_rw s [OShort 3; OOk] 3
  = Some (VInt 0, VInt 0, enc_log [EvWrite 8 [97; 98; 10; 99; 100; 10; 101; 10]%N 3; EvWrite 8 [99; 100; 10; 101; 10]%N 5; EvTrunc 8 8]) /\
  read_then_write_sched s [1; 2; 3; 4; 5; 6; 7; 8; 9; 10; 11; 12]%N = Some [97; 98; 10; 99; 100; 10; 101; 10]%N /\
  (* a failing read: nothing is written by the model *)
  read_then_write_sched [RChunk [97]%N; RErr] [] = None.
Proof.
  cbv zeta. split; [apply rwsys_read; discriminate|]. split; [apply rwsys_kernel; discriminate|].
  split; [reflexivity|]. split; [reflexivity|]. split; [repeat constructor|].
  split.
  - apply fixed_edit_oracle; try (repeat constructor; fail).
    cbn [In]. intros [X|[X|[X|[X|[]]]]]; discriminate.
  - vm_compute. repeat split.
Qed.
End C01_translated_roundtrip.

(* ------------------------------------------------------------------------------------------ *)
(* `:r file` IS THE C TEXT (coq/TrReadCmd.v): ex.c ec_read, translated by tools/c2clite.py (tools/c2clite.d/99zzzzz_read.list), run by
   coq/CLite.v.  Oracle indices (CLiteExt.callx): ex_pathexpand, open, lbuf_rd (C01_tr_lbuf_rd is the theorem about it), close, ex_show,
   snprintf -- one hypothesis `ext X_f [args] m = Ok (.., m')` per call reached, on the explicit memory and with the explicit arguments,
   so each theorem says WHICH calls are made with WHAT; ex_region is the translated function (its run is a hypothesis, as in
   Properties_C06.v; Properties_C05.v / C06.v prove it; an address other than "" and "%" has no run in CLite because ex_region reads the
   caller's indeterminate `end` once -- design.d/C06.md); ex_lbuf / lbuf_len are translated and run.
   For a file name in arg (arg[0] != 0), path = ex_pathexpand(arg, 1) not starting with '!', n = lbuf_len(xb) at entry:
     C01_tr_ec_read_rejected  ex_region rejects and the address is not 0: 1 is returned, nothing is opened;
     C01_tr_ec_read_noopen    open(path, O_RDONLY) < 0: ex_show("read failed"), 1; lbuf_rd and close are not called;
     C01_tr_ec_read_rdfail    lbuf_rd(xb, fd, pos, pos) != 0: ex_show("read failed"), close(fd), 1;
     C01_tr_ec_read_ok        lbuf_rd(xb, fd, pos, pos) == 0: close(fd), xrow = MAX(0, end + lbuf_len(xb) - n - 1), the message
                              snprintf(msg, 128, "\"%s\"  [=%d]  [r]", path, lbuf_len(xb) - n), ex_show(msg), 0;
   with pos = rd_pos = (lbuf_len(xb) ? end : 0): the text lands BEHIND the last addressed line, at 0 in an empty buffer, and the
   descriptor is closed exactly once on every path behind a successful open. *)
From NV Require TrReadCmd.
Section C01_translated_read_cmd.
Import CLite CLiteProps GenCFuncs CLiteExt TrLbufBase TrReadCmd.
Local Open Scope Z_scope.

Theorem C01_tr_ec_read_rejected : forall ext d fuel (m : mem) lb ab pp bl lo ao cmd txt n (ablk : block) c (mB mC : mem) bad beg en,
  xb_at bl m -> len_at bl m n -> nth_error m ab = Some ablk -> nth_error ablk (Z.to_nat ao) = Some (VInt c) -> 0 <= ao ->
  wrap I32 (wrap I8 c) <> 0 -> ext X_ex_pathexpand [VPtr ab ao; VInt 1] (er_mem m) = Ok (VPtr pp 0, mB) ->
  callx ext cprog fuel (S (S d)) F_ex_region [VPtr lb lo; VPtr (S (length m)) 0; VPtr (S (S (length m))) 0] mB = Ok (VInt bad, mC) ->
  nth_error mC (S (length m)) = Some [VInt beg] -> nth_error mC (S (S (length m))) = Some [VInt en] -> i32 beg -> i32 en ->
  rejected bad beg en = true ->
  callx ext cprog fuel (S (S (S d))) F_ec_read [VPtr lb lo; cmd; VPtr ab ao; txt] m = Ok (VInt 1, mC).
Proof. exact tr_ec_read_rejected. Qed.
Print Assumptions C01_tr_ec_read_rejected.

Theorem C01_tr_ec_read_noopen : forall ext d fuel (m : mem) lb ab pp bl lo ao cmd txt n (ablk : block) c (mB mC : mem) bad beg en,
  xb_at bl m -> len_at bl m n -> nth_error m ab = Some ablk -> nth_error ablk (Z.to_nat ao) = Some (VInt c) -> 0 <= ao ->
  wrap I32 (wrap I8 c) <> 0 -> ext X_ex_pathexpand [VPtr ab ao; VInt 1] (er_mem m) = Ok (VPtr pp 0, mB) ->
  callx ext cprog fuel (S (S d)) F_ex_region [VPtr lb lo; VPtr (S (length m)) 0; VPtr (S (S (length m))) 0] mB = Ok (VInt bad, mC) ->
  nth_error mC (S (length m)) = Some [VInt beg] -> nth_error mC (S (S (length m))) = Some [VInt en] -> i32 beg -> i32 en ->
  forall len (pblk : block) c' fd (mD : mem),
  rejected bad beg en = false -> xb_at bl mC -> len_at bl mC len ->
  nth_error mC pp = Some pblk -> nth_error pblk 0 = Some (VInt c') -> wrap I8 c' <> 33 ->
  ext X_open [VPtr pp 0; VInt 0] mC = Ok (VInt fd, mD) ->
  forall u mE, fd < 0 -> ext X_ex_show [VPtr G_rdfail 0] mD = Ok (u, mE) ->
  callx ext cprog fuel (S (S (S d))) F_ec_read [VPtr lb lo; cmd; VPtr ab ao; txt] m = Ok (VInt 1, mE).
Proof. exact tr_ec_read_noopen. Qed.
Print Assumptions C01_tr_ec_read_noopen.

Theorem C01_tr_ec_read_rdfail : forall ext d fuel (m : mem) lb ab pp bl lo ao cmd txt n (ablk : block) c (mB mC : mem) bad beg en,
  xb_at bl m -> len_at bl m n -> nth_error m ab = Some ablk -> nth_error ablk (Z.to_nat ao) = Some (VInt c) -> 0 <= ao ->
  wrap I32 (wrap I8 c) <> 0 -> ext X_ex_pathexpand [VPtr ab ao; VInt 1] (er_mem m) = Ok (VPtr pp 0, mB) ->
  callx ext cprog fuel (S (S d)) F_ex_region [VPtr lb lo; VPtr (S (length m)) 0; VPtr (S (S (length m))) 0] mB = Ok (VInt bad, mC) ->
  nth_error mC (S (length m)) = Some [VInt beg] -> nth_error mC (S (S (length m))) = Some [VInt en] -> i32 beg -> i32 en ->
  forall len (pblk : block) c' fd (mD : mem),
  rejected bad beg en = false -> xb_at bl mC -> len_at bl mC len ->
  nth_error mC pp = Some pblk -> nth_error pblk 0 = Some (VInt c') -> wrap I8 c' <> 33 ->
  ext X_open [VPtr pp 0; VInt 0] mC = Ok (VInt fd, mD) ->
  forall r mE u mF u' mG, 0 <= fd -> xb_at bl mD -> r <> 0 ->
  ext X_lbuf_rd [VPtr bl 0; VInt fd; VInt (rd_pos en len); VInt (rd_pos en len)] mD = Ok (VInt r, mE) ->
  ext X_ex_show [VPtr G_rdfail 0] mE = Ok (u, mF) -> ext X_close [VInt fd] mF = Ok (u', mG) ->
  callx ext cprog fuel (S (S (S d))) F_ec_read [VPtr lb lo; cmd; VPtr ab ao; txt] m = Ok (VInt 1, mG).
Proof. exact tr_ec_read_rdfail. Qed.
Print Assumptions C01_tr_ec_read_rdfail.

Theorem C01_tr_ec_read_ok : forall ext d fuel (m : mem) lb ab pp bl lo ao cmd txt n (ablk : block) c (mB mC : mem) bad beg en,
  xb_at bl m -> len_at bl m n -> nth_error m ab = Some ablk -> nth_error ablk (Z.to_nat ao) = Some (VInt c) -> 0 <= ao ->
  wrap I32 (wrap I8 c) <> 0 -> ext X_ex_pathexpand [VPtr ab ao; VInt 1] (er_mem m) = Ok (VPtr pp 0, mB) ->
  callx ext cprog fuel (S (S d)) F_ex_region [VPtr lb lo; VPtr (S (length m)) 0; VPtr (S (S (length m))) 0] mB = Ok (VInt bad, mC) ->
  nth_error mC (S (length m)) = Some [VInt beg] -> nth_error mC (S (S (length m))) = Some [VInt en] -> i32 beg -> i32 en ->
  forall len (pblk : block) c' fd (mD : mem),
  rejected bad beg en = false -> xb_at bl mC -> len_at bl mC len ->
  nth_error mC pp = Some pblk -> nth_error pblk 0 = Some (VInt c') -> wrap I8 c' <> 33 ->
  ext X_open [VPtr pp 0; VInt 0] mC = Ok (VInt fd, mD) ->
  forall mE u' mF len1 xr0 u3 mH u4 mI, 0 <= fd -> xb_at bl mD ->
  ext X_lbuf_rd [VPtr bl 0; VInt fd; VInt (rd_pos en len); VInt (rd_pos en len)] mD = Ok (VInt 0, mE) ->
  ext X_close [VInt fd] mE = Ok (u', mF) ->
  nth_error mF (S (S (length m))) = Some [VInt en] -> xb_at bl mF -> len_at bl mF len1 -> cell_at mF G_xrow xr0 -> bl <> G_xrow ->
  i32 n -> i32 (en + len1) -> i32 (en + len1 - n) -> i32 (en + len1 - n - 1) -> i32 (len1 - n) ->
  ext X_snprintf [VPtr (length m) 0; VInt 128; VPtr G_rdfmt 0; VPtr pp 0; VInt (len1 - n)]
      (upd mF G_xrow [VInt (Z.max 0 (en + len1 - n - 1))]) = Ok (u3, mH) ->
  ext X_ex_show [VPtr (length m) 0] mH = Ok (u4, mI) ->
  callx ext cprog fuel (S (S (S d))) F_ec_read [VPtr lb lo; cmd; VPtr ab ao; txt] m = Ok (VInt 0, mI).
Proof. exact tr_ec_read_ok. Qed.
Print Assumptions C01_tr_ec_read_ok.

(* `:r f` RUNS, on the translated ec_read, ex_region, lbuf_rd and sbuf.c together (ex_ecread: a buffer of 2 lines, xrow = 0; the oracle
   exsys copies the path, gives fd 3, logs ex_show's argument block behind an 8; lbuf_rd is the translated one under the read kernel and
   the logging lbuf_edit): the value returned, xrow, the schedule left, the read log, the edit log *)
Example C01_tr_ec_read_runs :
  let s1 := [IoReadDefs.RChunk [97; 98; 10; 99]%N; IoReadDefs.RChunk [100; 10]%N; IoReadDefs.REof] in
  let s2 := [IoReadDefs.RChunk [97; 98; 10; 99]%N; IoReadDefs.RErr] in
  (* two short reads and EOF: lbuf_edit(xb, "ab\ncd\n", 1, 1) -- behind line 1 --, the message block (msg, the 7th block behind the globals) shown, 0 *)
  ex_ecread s1 = Some (VInt 0, [VInt 0], [], TrRead.enc_rlog [TrRead.EvRead 3 1024 4; TrRead.EvRead 3 1024 2; TrRead.EvRead 3 1024 0],
                       [VInt 9; VInt 1; VInt 1; VInt 97; VInt 98; VInt 10; VInt 99; VInt 100; VInt 10; VInt 8; VInt (Z.of_nat (ex_L + 6))]) /\
  (* a failing read: no lbuf_edit, "read failed" shown, 1 *)
  ex_ecread s2 = Some (VInt 1, [VInt 0], [], TrRead.enc_rlog [TrRead.EvRead 3 1024 4; TrRead.EvRead 3 1024 (-1)],
                       [VInt 8; VInt (Z.of_nat G_rdfail)]).
Proof. vm_compute. split; reflexivity. Qed.
End C01_translated_read_cmd.

(* ------------------------------------------------------------------------------------------ *)
(* THE LOADING PART OF `:e file` IS THE C TEXT (coq/TrEditLoad.v): the statements
     fd = open(ex_path(), O_RDONLY); if (fd >= 0) { rd = lbuf_rd(xb, fd, 0, lbuf_len(xb)); close(fd); snprintf(msg, ..); if (rd) ex_show("read failed"); else ex_show(msg); }
   cut out of the translated ec_edit (tools/c2clite.d/87_quit.list; coq/TrQuit.v proves the guard in front of them), followed by
   lbuf_saved(xb, path[0] != '\0') (C01_tr_ee_load_shape says that these are the statements; lbuf_saved itself: Properties_C02.v).
   C01_tr_ee_load_ok: after a successful open, lbuf_rd is called with (xb, fd, 0, lbuf_len(xb)) -- the file REPLACES the whole buffer --,
   the descriptor is closed once, the message is built from ex_path() and the new lbuf_len(xb), and "read failed" is shown instead iff
   lbuf_rd returned non-zero (by C01_tr_lbuf_rd the buffer is then untouched).  C01_tr_ee_load_noopen: a failing open reads nothing. *)
From NV Require TrEditLoad.
Section C01_translated_edit_load.
Import CLite CLiteProps GenCFuncs CLiteExt TrLbufBase TrReadCmd TrEditLoad.
Local Open Scope Z_scope.

Theorem C01_tr_ee_load_shape :
  ee_open = SExpr (ESetLocal 7 (ECall X_open [ECall F_ex_path []; EConst 0])) /\
  ee_if = SIf (EBin OGe I32 (ELocal 7) (EConst 0))
            (SSeq (SExpr (ESetLocal 8 (ECall X_lbuf_rd [ECall F_ex_lbuf []; ELocal 7; EConst 0; ECall F_lbuf_len [ECall F_ex_lbuf []]])))
               (SSeq (SExpr (ECall X_close [ELocal 7]))
                  (SSeq (SExpr (ECall X_snprintf [ELocal 5; EConst 128; EGlob G_rdfmt; ECall F_ex_path []; ECall F_lbuf_len [ECall F_ex_lbuf []]]))
                     (SIf (ELocal 8) (SExpr (ECall X_ex_show [EGlob G_rdfail])) (SExpr (ECall X_ex_show [ELocal 5]))))))
            SSkip /\
  ee_saved = SExpr (ECall F_lbuf_saved [ECall F_ex_lbuf []; EBin ONe I32 (ECast I32 (ELoad (Some I8) (EPtrAdd 1 (ELocal 6) (EConst 0)))) (EConst 0)]).
Proof. exact ee_load_shape. Qed.
Print Assumptions C01_tr_ee_load_shape.

Theorem C01_tr_ee_load_noopen : forall ext d fuel loc cmd arg txt pls path pmsg pa po (M : mem) fd0 rd0 fd mD f,
  path_at pa po M -> fd < 0 -> ext X_open [VPtr pa po; VInt 0] M = Ok (VInt fd, mD) ->
  exec (callx ext cprog fuel (S (S d))) f ee_load (ee_st loc cmd arg txt pls path pmsg fd0 rd0 M)
  = ONormal (ee_st loc cmd arg txt pls path pmsg (VInt fd) rd0 mD).
Proof. exact ee_load_noopen. Qed.
Print Assumptions C01_tr_ee_load_noopen.

Theorem C01_tr_ee_load_ok : forall ext d fuel loc cmd arg txt pls path pmsg bl pa po (M : mem) fd0 rd0 fd mD len r mE u mF len1 u2 mG u3 mH f,
  path_at pa po M -> 0 <= fd -> ext X_open [VPtr pa po; VInt 0] M = Ok (VInt fd, mD) ->
  xb_at bl mD -> len_at bl mD len ->
  ext X_lbuf_rd [VPtr bl 0; VInt fd; VInt 0; VInt len] mD = Ok (VInt r, mE) ->
  ext X_close [VInt fd] mE = Ok (u, mF) ->
  path_at pa po mF -> xb_at bl mF -> len_at bl mF len1 ->
  ext X_snprintf [VPtr pmsg 0; VInt 128; VPtr G_rdfmt 0; VPtr pa po; VInt len1] mF = Ok (u2, mG) ->
  ext X_ex_show [if r =? 0 then VPtr pmsg 0 else VPtr G_rdfail 0] mG = Ok (u3, mH) ->
  exec (callx ext cprog fuel (S (S d))) f ee_load (ee_st loc cmd arg txt pls path pmsg fd0 rd0 M)
  = ONormal (ee_st loc cmd arg txt pls path pmsg (VInt fd) (VInt r) mH).
Proof. exact ee_load_ok. Qed.
Print Assumptions C01_tr_ee_load_ok.

(* the fragment RUNS (ex_editload: the memory of C01_tr_ec_read_runs with bufs[0].path = "f"; lbuf_rd is the translated one):
   fd, rd, the read log, the edit log *)
Example C01_tr_ee_load_runs :
  ex_editload [IoReadDefs.RChunk [97; 98; 10; 99]%N; IoReadDefs.RChunk [100; 10]%N; IoReadDefs.REof]
  = Some (VInt 3, VInt 0, TrRead.enc_rlog [TrRead.EvRead 3 1024 4; TrRead.EvRead 3 1024 2; TrRead.EvRead 3 1024 0],
          (* lbuf_edit(xb, "ab\ncd\n", 0, 2): both lines of the buffer replaced; then the message block shown *)
          [VInt 9; VInt 0; VInt 2; VInt 97; VInt 98; VInt 10; VInt 99; VInt 100; VInt 10; VInt 8; VInt (Z.of_nat (ex_L + 6))]) /\
  ex_editload [IoReadDefs.RChunk [97; 98; 10; 99]%N; IoReadDefs.RErr]
  = Some (VInt 3, VInt 1, TrRead.enc_rlog [TrRead.EvRead 3 1024 4; TrRead.EvRead 3 1024 (-1)], [VInt 8; VInt (Z.of_nat G_rdfail)]).
Proof. vm_compute. split; reflexivity. Qed.
End C01_translated_edit_load.
