(* TrExAddr.v -- C06/C05: the address resolution of the ex command line, ex_lineno and ex_region of /repo/ex.c as
   translated by tools/c2clite.py (GenCFuncs.v), does what the models say (CapDefs.ex_lineno / CapDefs.ex_region, the
   position-based checked models of C05; ExDefs.ex_lineno / ExDefs.ex_region, the models of C06), for ALL address strings.

   Memory: the address string s (any bytes, NUL-terminated) in block bs; `char **num` of ex_lineno points to a block of its
   own that holds the pointer into s (every variable whose address is taken lives in a block of its own); xrow in the
   block of the global; bufs[0].lb points to the struct lbuf in block bl (mark[] in cells 0..31, ln_n in cell 66).
   ex_lineno keeps its `n` in a fresh block (its address goes to lbuf_jump), which stays behind in the memory returned.

   atoi is the builtin BAtoi of CLite.v (every cell read checked, a value that int cannot hold is EOverflow);
   ex_search is NOT translated (X_ex_search): Section Body is stated for an arbitrary `call` that either never reaches it
   (no '/' and '?' in the string) or answers it the way a search oracle says and changes nothing but *pat.

   Signed overflow: the C text computes atoi(..), atoi(..) - 1, n += atoi(..), lbuf_len(xb) - 1, ex_lineno(..) + 1 in int.
   lineno_fit / region_fit say exactly that each of these values is inside int; under them the call returns Ok. *)
From Coq Require Import List ZArith NArith Bool Lia.
From NV Require Import Bytes GenConsts CLite CLiteProps GenCFuncs CLiteTac TrLbufBase TrLbufMarks.
From NV Require CapDefs CapDefs2 CapProps ExDefs.
From NV Require Import ExAddrDefs.
Import ListNotations.
Local Open Scope Z_scope.

Ltac xs := repeat (progress (xstep; cbn [b2z fst snd]; try change (0 =? 0) with true; try change (1 =? 0) with false; cbn [negb])).

(* ------------------------------------------------------------------ bytes *)
Lemma u8_byte : forall c, (c < 256)%N -> wrap U8 (Z.of_N c) = Z.of_N c.
Proof. byte_fact. Qed.
Lemma isdigit_byte : forall c, (c < 256)%N -> ct_isdigit (Z.of_N c) = CapDefs.c_isdigit c.
Proof. byte_fact. Qed.
Lemma ct_arg_byte c : (c < 256)%N -> ct_arg (Z.of_N c) = Ok (Z.of_N c).
Proof.
  intro H. unfold ct_arg. destruct (Z.leb_spec (-1) (Z.of_N c)); [|lia]. destruct (Z.leb_spec (Z.of_N c) 255); [|lia]. reflexivity.
Qed.
Lemma builtin_isdigit c mm : (c < 256)%N ->
  do_builtin_m BIsdigit [VInt (Z.of_N c)] mm = Ok (VInt (b2z (CapDefs.c_isdigit c)), mm).
Proof. intro H. cbn [do_builtin_m do_builtin]. rewrite (ct_arg_byte c H). cbn [bind]. rewrite (isdigit_byte c H). reflexivity. Qed.
(* a char compared with '-' and '+' *)
Lemma sx_eqb_45 : forall c, (c < 256)%N -> (wrap I32 (wrap I8 (Z.of_N c)) =? 45) = (c =? 45)%N.
Proof. byte_fact. Qed.
Lemma sx_eqb_43 : forall c, (c < 256)%N -> (wrap I32 (wrap I8 (Z.of_N c)) =? 43) = (c =? 43)%N.
Proof. byte_fact. Qed.
Lemma sx_eqb_59 : forall c, (c < 256)%N -> (wrap I32 (wrap I8 (Z.of_N c)) =? 59) = (c =? 59)%N.
Proof. byte_fact. Qed.
Lemma sx_eqb_44 : forall c, (c < 256)%N -> (wrap I32 (wrap I8 (Z.of_N c)) =? 44) = (c =? 44)%N.
Proof. byte_fact. Qed.
Lemma sx_eqb_0 : forall c, (c < 256)%N -> (wrap I32 (wrap I8 (Z.of_N c)) =? 0) = (c =? 0)%N.
Proof. byte_fact. Qed.
Lemma sc_eqb_0 : forall c, (c < 256)%N -> (wrap I8 (Z.of_N c) =? 0) = (c =? 0)%N.
Proof. byte_fact. Qed.
(* a digit is neither white space nor a sign *)
Lemma digit_first : forall c, (c < 256)%N ->
  (if CapDefs.c_isdigit c then negb (ct_isspace (Z.of_N c)) && negb (Z.of_N c =? 45) && negb (Z.of_N c =? 43) else true) = true.
Proof. byte_fact. Qed.

(* ------------------------------------------------------------------ the model's reads *)
Lemma rd_ok s i : (i <= length s)%nat -> CapDefs.rd s i = CapDefs.Ok (nthb s i).
Proof.
  intro H. unfold CapDefs.rd, nthb. destruct (nth_error s i) eqn:E.
  - f_equal. symmetry. apply nth_error_nth. exact E.
  - apply nth_error_None in E. replace i with (length s) by lia. rewrite Nat.eqb_refl, nth_overflow by lia. reflexivity.
Qed.
Lemma nthb_nz_lt s i : nthb s i <> 0%N -> (i < length s)%nat.
Proof. intro H. destruct (Nat.lt_ge_cases i (length s)); [assumption|]. rewrite nthb_end in H by assumption. congruence. Qed.
Lemma cstr_block_cons c t : cstr_block (zb (c :: t)) = VInt (Z.of_N c) :: cstr_block (zb t).
Proof. reflexivity. Qed.

Definition int_ok (z : Z) : Prop := -2147483648 <= z <= 2147483647.
Lemma int_ok_wrap z : int_ok z -> wrap I32 z = z.
Proof. apply wrap_I32_id. Qed.
Lemma int_ok_chk z : int_ok z -> chk I32 z = Ok z.
Proof. apply chk_I32. Qed.

(* ------------------------------------------------------------------ atoi *)
Lemma atoi_digits_ok s : bytes_lt256 s -> forall fuel i acc v j, (i <= length s)%nat ->
  CapDefs.digits_val fuel s i acc = CapDefs.Ok (v, j) -> atoi_digits (cstr_block (zb (skipn i s))) acc = Ok v.
Proof.
  intros H256. induction fuel as [|fuel IH]; intros i acc v j Hi H; [discriminate|].
  cbn [CapDefs.digits_val] in H. rewrite (rd_ok s i Hi) in H. cbn [CapDefs.bind] in H.
  pose proof (nthb_lt256 s i H256) as Hc.
  destruct (Nat.eq_dec i (length s)) as [->|Hne].
  - rewrite nthb_end in H by lia. cbn in H. injection H as <- _. rewrite skipn_end by lia. reflexivity.
  - rewrite skipn_cons_nthb by lia. rewrite cstr_block_cons. cbn [atoi_digits]. rewrite (u8_byte _ Hc), (isdigit_byte _ Hc).
    destruct (CapDefs.c_isdigit (nthb s i)).
    + apply (IH (S i) _ v j); [lia|exact H].
    + injection H as <- _. reflexivity.
Qed.
Lemma builtin_atoi_digit mm bs s i v j : str_at mm bs s -> bytes_lt256 s -> (i <= length s)%nat ->
  CapDefs.c_isdigit (nthb s i) = true -> CapDefs.digits_val (S (length s)) s i 0 = CapDefs.Ok (v, j) -> int_ok v ->
  do_builtin_m BAtoi [VPtr bs (Z.of_nat i)] mm = Ok (VInt v, mm).
Proof.
  intros Hs H256 Hi Hd H Hv. cbn [do_builtin_m do_builtin]. rewrite (blk_from_str mm bs s i Hs Hi). cbn [bind].
  assert (i < length s)%nat as Hlt by (apply nthb_nz_lt; intro E; rewrite E in Hd; discriminate).
  pose proof (atoi_digits_ok s H256 _ i 0 v j Hi H) as A.
  rewrite skipn_cons_nthb in * by lia. rewrite cstr_block_cons in *. cbn [atoi_cells].
  pose proof (nthb_lt256 s i H256) as Hc. pose proof (digit_first _ Hc) as F. rewrite Hd in F.
  rewrite (u8_byte _ Hc).
  destruct (ct_isspace (Z.of_N (nthb s i))); [discriminate|]. destruct (Z.of_N (nthb s i) =? 45); [discriminate|].
  destruct (Z.of_N (nthb s i) =? 43); [discriminate|]. rewrite A. cbn [bind]. rewrite (int_ok_chk v Hv). reflexivity.
Qed.
Lemma builtin_atoi_sign mm bs s i d j : str_at mm bs s -> bytes_lt256 s -> (i < length s)%nat ->
  (nthb s i = 45%N \/ nthb s i = 43%N) -> CapDefs.digits_val (S (length s)) s (S i) 0 = CapDefs.Ok (d, j) ->
  int_ok (if (nthb s i =? 45)%N then - d else d) ->
  do_builtin_m BAtoi [VPtr bs (Z.of_nat i)] mm = Ok (VInt (if (nthb s i =? 45)%N then - d else d), mm).
Proof.
  intros Hs H256 Hi Hc H Hv. cbn [do_builtin_m do_builtin]. rewrite (blk_from_str mm bs s i Hs ltac:(lia)). cbn [bind].
  pose proof (atoi_digits_ok s H256 _ (S i) 0 d j ltac:(lia) H) as A.
  rewrite skipn_cons_nthb by lia. rewrite cstr_block_cons. cbn [atoi_cells].
  destruct Hc as [E|E]; rewrite E in *; change (wrap U8 (Z.of_N 45)) with 45; change (wrap U8 (Z.of_N 43)) with 43; cbn [ct_isspace Z.eqb Z.leb Z.compare Pos.compare Pos.compare_cont andb orb Pos.eqb N.eqb] in *;
    rewrite A; cbn [bind]; rewrite (int_ok_chk _ Hv); reflexivity.
Qed.

(* ------------------------------------------------------------------ the marks as ex_lineno sees them *)
(* lbuf_jump(xb, c, &n, NULL) on the struct in lblk: None = "return 1" (no such mark or mark unset) *)
Definition mark_of (lblk : block) (c : N) : option Z :=
  let k := CapDefs2.markidx (Z.of_N c) in
  let row := cellz lblk (Z.to_nat k) in
  if (k <? 0) || (row <? 0) then None else Some row.
Lemma mark_of_0 lblk : mark_of lblk 0%N = None.
Proof. reflexivity. Qed.
(* what the extern ex_search hands back for an oracle answer *)
Definition sres (r : option Z) : Z := match r with Some n => n | None => -1 end.
Lemma nosearch_nthb s i : nosearch s -> (i < length s)%nat -> nthb s i <> 47%N /\ nthb s i <> 63%N.
Proof. intros H Hi. unfold nosearch in H. rewrite Forall_forall in H. apply H. apply nth_In. exact Hi. Qed.

(* ------------------------------------------------------------------ the values the C text computes in int *)
Fixpoint offsets_fit (fuel : nat) (s : bytes) (i : nat) (n : Z) : Prop :=
  match fuel with
  | O => True
  | S f =>
      let c := nthb s i in
      if ((c =? 45) || (c =? 43))%N then
        match CapDefs.digits_val (S (length s)) s (S i) 0 with
        | CapDefs.Ok d => let v := if (c =? 45)%N then - fst d else fst d in
                          int_ok v /\ int_ok (n + v) /\ offsets_fit f s (snd d) (n + v)
        | _ => True
        end
      else True
  end.
Definition lineno_fit (len : Z) (mark : N -> option Z) (search : Z -> bytes -> nat -> option Z * nat)
    (xrow : Z) (s : bytes) (i : nat) : Prop :=
  let c := nthb s i in
  let F := S (length s) in
  if (c =? 46)%N then offsets_fit F s (S i) xrow
  else if (c =? 36)%N then int_ok (len - 1) /\ offsets_fit F s (S i) (len - 1)
  else if (c =? 39)%N then match mark (nthb s (S i)) with Some n => offsets_fit F s (S (S i)) n | None => True end
  else if ((c =? 47) || (c =? 63))%N then
    int_ok (sres (fst (search xrow s i))) /\ offsets_fit F s (snd (search xrow s i)) (sres (fst (search xrow s i)))
  else if CapDefs.c_isdigit c then
    match CapDefs.digits_val F s i 0 with
    | CapDefs.Ok d => int_ok (fst d) /\ int_ok (fst d - 1) /\ offsets_fit F s (snd d) (fst d - 1)
    | _ => True
    end
  else offsets_fit F s i xrow.

(* ------------------------------------------------------------------ ex_lineno *)
Definition dig_cond : expr := EBuiltin BIsdigit [ECast I32 (ECast U8 (ELoad (Some I8) (ELoad None (ELocal 0))))].
Definition dig_loop (post : bool) : stmt := SWhile dig_cond (SExpr (EIncMem post None 1 (ELocal 0))).
Definition C_is (k : Z) : expr := EBin OEq I32 (ECast I32 (ELoad (Some I8) (ELoad None (ELocal 0)))) (EConst k).
Definition off_cond : expr := EOrElse (C_is 45) (C_is 43).
Definition off_body : stmt :=
  SSeq (SExpr (EStore (Some I32) (ELocal 1) (EBin OAdd I32 (ELoad (Some I32) (ELocal 1)) (EBuiltin BAtoi [EIncMem true None 1 (ELocal 0)]))))
       (dig_loop true).
Definition neg2 : stmt := SReturn (Some (EUn ONeg I32 (EConst 2))).
Definition inc_num : stmt := SExpr (EIncMem false None 1 (ELocal 0)).
Definition seg_dot : stmt := SSeq inc_num SBreak.
Definition seg_dollar : stmt :=
  SSeq (SExpr (EStore (Some I32) (ELocal 1) (EBin OSub I32 (ECall F_lbuf_len [ECall F_ex_lbuf []]) (EConst 1)))) (SSeq inc_num SBreak).
Definition seg_mark : stmt :=
  SSeq (SIf (ECall F_lbuf_jump [ECall F_ex_lbuf []; ECast I32 (ECast U8 (ELoad (Some I8) (EIncMem false None 1 (ELocal 0)))); ELocal 1; EConst 0])
            neg2 SSkip) (SSeq inc_num SBreak).
Definition seg_search : stmt :=
  SSeq (SExpr (EStore (Some I32) (ELocal 1) (ECall X_ex_search [ELocal 0])))
       (SSeq (SIf (EBin OLt I32 (ELoad (Some I32) (ELocal 1)) (EConst 0)) neg2 SSkip) SBreak).
Definition seg_default : stmt :=
  SIf dig_cond (SSeq (SExpr (EStore (Some I32) (ELocal 1) (EBin OSub I32 (EBuiltin BAtoi [ELoad None (ELocal 0)]) (EConst 1)))) (dig_loop false)) SSkip.
Definition lineno_segs : list (list (option Z) * stmt) :=
  [([Some 46], seg_dot); ([Some 36], seg_dollar); ([Some 39], seg_mark); ([Some 47; Some 63], seg_search); ([None], seg_default)].
Definition lineno_switch : stmt := SSwitch (ECast I32 (ECast U8 (ELoad (Some I8) (ELoad None (ELocal 0))))) lineno_segs.
Definition lineno_tail : stmt := SSeq (SWhile off_cond off_body) (SReturn (Some (ELoad (Some I32) (ELocal 1)))).
Lemma ex_lineno_shape : fn_body cf_ex_lineno =
  SSeq (SSeq (SExpr (ESetLocal 1 (EBuiltin BMalloc [EConst 1]))) (SExpr (EStore (Some I32) (ELocal 1) (ELoad (Some I32) (EGlob G_xrow)))))
       (SSeq lineno_switch lineno_tail).
Proof. reflexivity. Qed.

Section Lineno.
  (* the memory at the call: s in block bs, the char* that num points to in block bn (one cell), the globals *)
  Variables (m : mem) (bs bn bl : nat) (s : bytes) (i0 : nat) (xrow len : Z) (gbufs lblk : block).
  Hypothesis Hs : str_at m bs s.
  Hypothesis H256 : bytes_lt256 s.
  Hypothesis Hn : nth_error m bn = Some [VPtr bs (Z.of_nat i0)].
  Hypothesis Hx : cell_at m G_xrow xrow.
  Hypothesis Hb : nth_error m G_bufs = Some gbufs.
  Hypothesis Hl : nth_error m bl = Some lblk.
  Hypothesis Hne : bs <> bn /\ G_xrow <> bn /\ G_bufs <> bn /\ bl <> bn.
  Hypothesis Hxr : int_ok xrow.
  Hypothesis Hints : marks_ints lblk.

  (* num at position i, n in the fresh block behind m *)
  Definition MM (i : nat) (n : Z) : mem := upd m bn [VPtr bs (Z.of_nat i)] ++ [[VInt n]].
  Local Notation ST i n := (mkst [VPtr bn 0; VPtr (length m) 0] (MM i n)).

  Lemma bn_lt : (bn < length m)%nat.
  Proof. apply nth_error_Some. congruence. Qed.
  Lemma updm_len i : length (upd m bn [VPtr bs (Z.of_nat i)]) = length m.
  Proof. apply upd_length, bn_lt. Qed.
  Lemma MM_num i n : nth_error (MM i n) bn = Some [VPtr bs (Z.of_nat i)].
  Proof. unfold MM. rewrite nth_error_app1 by (rewrite updm_len; apply bn_lt). apply mem_upd_same, bn_lt. Qed.
  Lemma MM_n i n : nth_error (MM i n) (length m) = Some [VInt n].
  Proof. unfold MM. rewrite <- (updm_len i). apply nth_error_app_new. Qed.
  Lemma MM_other i n b blk : b <> bn -> nth_error m b = Some blk -> nth_error (MM i n) b = Some blk.
  Proof.
    intros Hne' Hb'. unfold MM. assert (b < length m)%nat by (apply nth_error_Some; congruence).
    rewrite nth_error_app1 by (rewrite updm_len; assumption). rewrite mem_upd_other by (auto using bn_lt). exact Hb'.
  Qed.
  Lemma MM_str i n : str_at (MM i n) bs s.
  Proof. apply MM_other; [apply Hne|exact Hs]. Qed.
  Lemma MM_start : m ++ [[VInt xrow]] = MM i0 xrow.
  Proof. unfold MM. rewrite upd_self by exact Hn. reflexivity. Qed.
  Lemma load_num i n : load (MM i n) bn 0 = Ok (VPtr bs (Z.of_nat i)).
  Proof. unfold load. rewrite MM_num. reflexivity. Qed.
  Lemma load_byte i n o z : (o <= length s)%nat -> z = Z.of_nat o -> load (MM i n) bs z = Ok (VInt (Z.of_N (nthb s o))).
  Proof. intros Ho ->. apply (load_str _ bs s _ o (MM_str i n) eq_refl Ho). Qed.
  Lemma load_n i n : load (MM i n) (length m) 0 = Ok (VInt n).
  Proof. unfold load. rewrite MM_n. reflexivity. Qed.
  Lemma updMM_num i n i' : upd (MM i n) bn [VPtr bs (Z.of_nat i')] = MM i' n.
  Proof. unfold MM. rewrite upd_app_old by (rewrite updm_len; apply bn_lt). rewrite upd_upd by apply bn_lt. reflexivity. Qed.
  Lemma updMM_n i n n' : upd (MM i n) (length m) [VInt n'] = MM i n'.
  Proof. unfold MM. rewrite <- (updm_len i). apply upd_app_new. Qed.
  Lemma store_num i n z i' : z = Z.of_nat i' -> store (MM i n) bn 0 (VPtr bs z) = Ok (MM i' n).
  Proof. intros ->. rewrite (store_ok _ bn _ 0 _ (MM_num i n)) by (cbn; lia). f_equal. apply updMM_num. Qed.
  Lemma store_n i n n' : store (MM i n) (length m) 0 (VInt n') = Ok (MM i n').
  Proof. rewrite (store_ok _ (length m) _ 0 _ (MM_n i n)) by (cbn; lia). f_equal. apply updMM_n. Qed.

  Variable call : nat -> list val -> mem -> res (val * mem).

  Lemma eval_byte i n : (i <= length s)%nat ->
    eval call (ELoad (Some I8) (ELoad None (ELocal 0))) (ST i n) = Ok (VInt (wrap I8 (Z.of_N (nthb s i))), ST i n).
  Proof. intro Hi. xs. rewrite load_num. xs. rewrite (load_byte i n i _ Hi eq_refl). xs. reflexivity. Qed.
  Lemma eval_dig_cond i n : (i <= length s)%nat ->
    eval call dig_cond (ST i n) = Ok (VInt (b2z (CapDefs.c_isdigit (nthb s i))), ST i n).
  Proof.
    intro Hi. unfold dig_cond. xs. rewrite load_num. xs. rewrite (load_byte i n i _ Hi eq_refl). xs.
    rewrite (wrap_byte_chain _ (nthb_lt256 s i H256)), (builtin_isdigit _ _ (nthb_lt256 s i H256)). xs. reflexivity.
  Qed.
  Lemma eval_inc post i n :
    eval call (EIncMem post None 1 (ELocal 0)) (ST i n) = Ok (VPtr bs (Z.of_nat (if post then i else S i)), ST (S i) n).
  Proof.
    xs. rewrite load_num. xs. rewrite (store_num i n _ (S i)) by lia. xs.
    destruct post; [reflexivity|]. rewrite Nat2Z.inj_succ. reflexivity.
  Qed.

  (* while (isdigit((unsigned char) **num)) ++*num; *)
  Lemma dig_loop_ok post : forall fm i acc v j n fuel, (i <= length s)%nat ->
    CapDefs.digits_val fm s i acc = CapDefs.Ok (v, j) -> (fm <= fuel)%nat ->
    exec call fuel (dig_loop post) (ST i n) = ONormal (ST j n) /\ (i <= j)%nat /\ (j <= length s)%nat.
  Proof.
    induction fm as [|fm IH]; intros i acc v j n fuel Hi H Hf; [discriminate|].
    destruct fuel as [|fuel]; [lia|]. cbn [CapDefs.digits_val] in H. rewrite (rd_ok s i Hi) in H. cbn [CapDefs.bind] in H.
    unfold dig_loop. rewrite exec_while, (eval_dig_cond i n Hi). xcbn. rewrite nb2z.
    destruct (CapDefs.c_isdigit (nthb s i)) eqn:Ed.
    - assert (i < length s)%nat by (apply nthb_nz_lt; intro E; rewrite E in Ed; discriminate).
      rewrite exec_expr, eval_inc.
      destruct (IH (S i) _ v j n fuel ltac:(lia) H ltac:(lia)) as (E & L1 & L2). fold (dig_loop post). rewrite E. repeat split; lia.
    - injection H as _ <-. repeat split; lia.
  Qed.

  Lemma eval_off_cond i n : (i <= length s)%nat ->
    eval call off_cond (ST i n) = Ok (VInt (b2z ((nthb s i =? 45) || (nthb s i =? 43))%N), ST i n).
  Proof.
    intro Hi. pose proof (nthb_lt256 s i H256) as Hc. unfold off_cond, C_is. xs. rewrite load_num. xs.
    rewrite (load_byte i n i _ Hi eq_refl). xs. rewrite (sx_eqb_45 _ Hc). destruct (nthb s i =? 45)%N; xs; [reflexivity|].
    rewrite load_num. xs. rewrite (load_byte i n i _ Hi eq_refl). xs. rewrite (sx_eqb_43 _ Hc). destruct (nthb s i =? 43)%N; reflexivity.
  Qed.

  (* while ( **num == '-' || **num == '+') { n += atoi(( *num)++); while (isdigit(..)) ( *num)++; } *)
  Lemma off_loop_ok : forall fm i n n' j fuel, (i <= length s)%nat -> int_ok n ->
    CapDefs.offsets fm s i n = CapDefs.Ok (n', j) -> offsets_fit fm s i n -> (fm + S (length s) <= fuel)%nat ->
    exec call fuel (SWhile off_cond off_body) (ST i n) = ONormal (ST j n') /\ (i <= j)%nat /\ (j <= length s)%nat /\ int_ok n'.
  Proof.
    induction fm as [|fm IH]; intros i n n' j fuel Hi Hn0 H Hfit Hf; [discriminate|].
    destruct fuel as [|fuel]; [lia|]. cbn [CapDefs.offsets] in H. rewrite (rd_ok s i Hi) in H. cbn [CapDefs.bind] in H.
    cbn [offsets_fit] in Hfit. cbv zeta in Hfit.
    rewrite exec_while, (eval_off_cond i n Hi). xcbn. rewrite nb2z.
    destruct ((nthb s i =? 45) || (nthb s i =? 43))%N eqn:Ec.
    - destruct (CapDefs.digits_val (S (length s)) s (S i) 0) as [[d jd]| | |] eqn:Hd; cbn [CapDefs.bind fst snd] in H; try discriminate.
      cbn [fst snd] in Hfit. destruct Hfit as (Fv & Fs & Ff).
      assert (i < length s)%nat as Hlt by (apply nthb_nz_lt; intro E; rewrite E in Ec; discriminate).
      assert (nthb s i = 45%N \/ nthb s i = 43%N) as Hsign
        by (destruct (N.eqb_spec (nthb s i) 45); [left; assumption|]; destruct (N.eqb_spec (nthb s i) 43); [right; assumption|discriminate]).
      unfold off_body at 1. rewrite exec_seq, exec_expr. xs. rewrite load_n. xs. rewrite (int_ok_wrap n Hn0).
      rewrite load_num. xs. rewrite (store_num i n _ (S i)) by lia. xs.
      rewrite (builtin_atoi_sign (MM (S i) n) bs s i d jd (MM_str _ _) H256 Hlt Hsign Hd Fv). xs.
      rewrite (int_ok_chk _ Fs). xs. rewrite (int_ok_wrap _ Fs), store_n. xs.
      destruct (dig_loop_ok true _ (S i) 0 d jd (n + (if (nthb s i =? 45)%N then - d else d)) (S fuel) ltac:(lia) Hd ltac:(lia)) as (E1 & L1 & L2).
      rewrite E1.
      replace (if (nthb s i =? 45)%N then n - d else n + d) with (n + (if (nthb s i =? 45)%N then - d else d)) in H
        by (destruct (nthb s i =? 45)%N; lia).
      destruct (IH jd _ n' j fuel L2 Fs H Ff ltac:(lia)) as (E2 & L3 & L4 & L5).
      rewrite E2. split; [reflexivity|]. split; [lia|]. split; [lia|exact L5].
    - injection H as <- <-. split; [reflexivity|]. split; [lia|]. split; [lia|exact Hn0].
  Qed.

  Lemma tail_ok fuel i n n' j : (i <= length s)%nat -> int_ok n ->
    CapDefs.offsets (S (length s)) s i n = CapDefs.Ok (n', j) -> offsets_fit (S (length s)) s i n -> (2 * S (length s) <= fuel)%nat ->
    exec call fuel lineno_tail (ST i n) = OReturn (VInt n') (ST j n') /\ (i <= j)%nat /\ (j <= length s)%nat /\ int_ok n'.
  Proof.
    intros Hi Hn0 H Hfit Hf. destruct (off_loop_ok _ i n n' j fuel Hi Hn0 H Hfit ltac:(lia)) as (E & L1 & L2 & L3).
    unfold lineno_tail. rewrite exec_seq, E, exec_return. xs. rewrite load_n. xs. rewrite (int_ok_wrap _ L3). split; [reflexivity|]. split; [exact L1|]. split; [exact L2|exact L3].
  Qed.

  (* the callees, as `call` answers them *)
  Hypothesis Hc_lbuf : forall mm, nth_error mm G_bufs = Some gbufs -> call F_ex_lbuf [] mm = Ok (VPtr bl 0, mm).
  Hypothesis Hc_len : forall mm, nth_error mm bl = Some lblk -> call F_lbuf_len [VPtr bl 0] mm = Ok (VInt len, mm).
  Hypothesis Hc_jump : forall mm c bp pblk, nth_error mm bl = Some lblk -> (c < 256)%N -> bp <> bl ->
    nth_error mm bp = Some pblk -> (0 < length pblk)%nat ->
    call F_lbuf_jump [VPtr bl 0; VInt (Z.of_N c); VPtr bp 0; VInt 0] mm
    = match mark_of lblk c with None => Ok (VInt 1, mm) | Some row => Ok (VInt 0, upd mm bp (upd pblk 0 (VInt row))) end.
  Variable search : Z -> bytes -> nat -> option Z * nat.
  (* either no search is ever reached, or the extern answers as the oracle says, moves *pat inside the string and changes nothing else *)
  Hypothesis Hsearch : nosearch s \/
    ((forall i n, (i < length s)%nat ->
        call X_ex_search [VPtr bn 0] (MM i n) = Ok (VInt (sres (fst (search xrow s i))), MM (snd (search xrow s i)) n)) /\
     (forall i, (i < length s)%nat -> (i <= snd (search xrow s i))%nat /\ (snd (search xrow s i) <= length s)%nat)).

  Lemma mark_of_int c row : (c < 256)%N -> mark_of lblk c = Some row -> int_ok row /\ c <> 0%N.
  Proof.
    intros Hc H. split; [|intro E; subst c; discriminate H]. unfold mark_of in H. cbv zeta in H.
    pose proof (markidx_range (Z.of_N c) ltac:(lia)) as Hk.
    destruct (Z.ltb_spec (CapDefs2.markidx (Z.of_N c)) 0) as [K|K]; cbn [orb] in H; [discriminate|].
    destruct (Hints (Z.to_nat (CapDefs2.markidx (Z.of_N c))) ltac:(lia)) as (z & Hz & Iz).
    destruct (cellz lblk _ <? 0) eqn:Er; [discriminate|]. injection H as <-. unfold cellz. rewrite Hz. exact Iz.
  Qed.

  Lemma sw_has_default c : c <> 46%N -> c <> 36%N -> c <> 39%N -> c <> 47%N -> c <> 63%N -> sw_has (Z.of_N c) lineno_segs = false.
  Proof.
    intros. unfold sw_has, lineno_segs. cbn [existsb fst].
    repeat match goal with |- context [?k =? Z.of_N c] => destruct (Z.eqb_spec k (Z.of_N c)); [exfalso; lia|] end. reflexivity.
  Qed.

  Lemma exec_inc_num fuel i n : exec call fuel inc_num (ST i n) = ONormal (ST (S i) n).
  Proof. unfold inc_num. rewrite exec_expr, eval_inc. reflexivity. Qed.
  Lemma exec_neg2 fuel st : exec call fuel neg2 st = OReturn (VInt (-2)) st.
  Proof. unfold neg2. rewrite exec_return. xs. rewrite int_ok_chk by (unfold int_ok; lia). reflexivity. Qed.

  Lemma lineno_body_ok fuel n j : (i0 <= length s)%nat ->
    CapDefs.ex_lineno len (mark_of lblk) search xrow s i0 = CapDefs.Ok (n, j) ->
    lineno_fit len (mark_of lblk) search xrow s i0 -> (2 * S (length s) <= fuel)%nat ->
    exists j' nb, exec call fuel (fn_body cf_ex_lineno) (mkst [VPtr bn 0; VUndef] m) = OReturn (VInt n) (ST j' nb) /\
                  (j' = j \/ n = -2) /\ (i0 <= j')%nat /\ (j' <= length s)%nat /\ int_ok n.
  Proof.
    intros Hi H Hfit Hf. pose proof bn_lt as Hbn. destruct Hne as (N1 & N2 & N3 & N4).
    assert (Nbl : length m <> bl) by (intro E; assert (bl < length m)%nat by (apply nth_error_Some; congruence); lia).
    assert (Hxl : (G_xrow < length m)%nat) by (apply nth_error_Some; unfold cell_at in Hx; congruence).
    rewrite ex_lineno_shape. rewrite exec_seq, exec_seq, exec_expr. xs. rewrite malloc_ok by lia. xs.
    change (repeat VUndef (Z.to_nat 1)) with [VUndef].
    assert (L0 : load (m ++ [[VUndef]]) G_xrow 0 = Ok (VInt xrow)) by (unfold load; rewrite nth_error_app_old by exact Hxl; rewrite Hx; reflexivity).
    rewrite L0. xs. rewrite (int_ok_wrap _ Hxr).
    rewrite (store_ok (m ++ [[VUndef]]) (length m) [VUndef] 0 _ (nth_error_app_new m _)) by (cbn; lia). xs.
    rewrite upd_app_new, ?(int_ok_wrap _ Hxr). change (upd [VUndef] (Z.to_nat 0) (VInt xrow)) with [VInt xrow].
    match goal with |- context [m ++ ?x] => replace (m ++ x) with (MM i0 xrow) by (symmetry; exact MM_start) end.
    (* the switch *)
    pose proof (nthb_lt256 s i0 H256) as Hc.
    rewrite ?exec_seq. unfold lineno_switch. rewrite exec_switch. xs. rewrite load_num. xs.
    rewrite (load_byte i0 xrow i0 _ Hi eq_refl). xs. rewrite (wrap_byte_chain _ Hc).
    unfold CapDefs.ex_lineno in H. rewrite (rd_ok s i0 Hi) in H. cbn [CapDefs.bind] in H.
    unfold lineno_fit in Hfit. cbv zeta in Hfit.
    set (c := nthb s i0) in *.
    revert H Hfit. destruct (c =? 46)%N eqn:E46; [apply N.eqb_eq in E46|apply N.eqb_neq in E46].
    { (* . *) intros H Hfit. cbn [CapDefs.bind] in H. rewrite E46. change (sw_has (Z.of_N 46) lineno_segs) with true.
      assert (i0 < length s)%nat by (apply nthb_nz_lt; fold c; rewrite E46; discriminate).
      cbn [lineno_segs sw_run sw_hit existsb orb andb Z.eqb Z.of_N Pos.eqb]. unfold seg_dot. rewrite ?exec_seq, exec_inc_num, ?exec_break.
      destruct (tail_ok fuel (S i0) xrow n j ltac:(lia) Hxr H Hfit Hf) as (E & L1 & L2 & L3). rewrite E.
      exists j, n; split; [reflexivity|]; split; [left; reflexivity|]; split; [lia|]; split; [lia|assumption]. }
    destruct (c =? 36)%N eqn:E36; [apply N.eqb_eq in E36|apply N.eqb_neq in E36].
    { (* $ *) intros H Hfit. cbn [CapDefs.bind] in H. destruct Hfit as (Fl & Fo). rewrite E36. change (sw_has (Z.of_N 36) lineno_segs) with true.
      assert (i0 < length s)%nat by (apply nthb_nz_lt; fold c; rewrite E36; discriminate).
      cbn [lineno_segs sw_run sw_hit existsb orb andb Z.eqb Z.of_N Pos.eqb]. unfold seg_dollar. rewrite exec_seq, exec_expr. xs.
      rewrite Hc_lbuf by (apply MM_other; [exact N3|exact Hb]). xs.
      rewrite Hc_len by (apply MM_other; [exact N4|exact Hl]). xs.
      rewrite (int_ok_chk _ Fl). xs. rewrite (int_ok_wrap _ Fl), store_n. xs. rewrite ?exec_seq, exec_inc_num, ?exec_break.
      destruct (tail_ok fuel (S i0) (len - 1) n j ltac:(lia) Fl H Fo Hf) as (E & L1 & L2 & L3). rewrite E.
      exists j, n; split; [reflexivity|]; split; [left; reflexivity|]; split; [lia|]; split; [lia|assumption]. }
    destruct (c =? 39)%N eqn:E39; [apply N.eqb_eq in E39|apply N.eqb_neq in E39].
    { (* 'x *) intros H Hfit. rewrite E39. change (sw_has (Z.of_N 39) lineno_segs) with true.
      assert (i0 < length s)%nat as Hlt by (apply nthb_nz_lt; fold c; rewrite E39; discriminate).
      rewrite (rd_ok s (S i0) ltac:(lia)) in H. cbn [CapDefs.bind] in H.
      pose proof (nthb_lt256 s (S i0) H256) as Hc1.
      cbn [lineno_segs sw_run sw_hit existsb orb andb Z.eqb Z.of_N Pos.eqb]. unfold seg_mark. rewrite exec_seq, exec_if. xs.
      rewrite Hc_lbuf by (apply MM_other; [exact N3|exact Hb]). xs.
      rewrite load_num. xs. rewrite (store_num i0 xrow _ (S i0)) by lia. xs.
      rewrite (load_byte (S i0) xrow (S i0) (Z.of_nat i0 + 1) ltac:(lia) ltac:(lia)). xs. rewrite (wrap_byte_chain _ Hc1).
      rewrite (Hc_jump (MM (S i0) xrow) (nthb s (S i0)) (length m) [VInt xrow]);
        [|apply MM_other; [exact N4|exact Hl]|exact Hc1|exact Nbl|apply MM_n|cbn; lia].
      destruct (mark_of lblk (nthb s (S i0))) as [row|] eqn:Em.
      - destruct (mark_of_int _ row Hc1 Em) as (Ir & Nz). xs. change (upd [VInt xrow] 0 (VInt row)) with [VInt row]. rewrite updMM_n.
        rewrite ?exec_skip, ?exec_seq, exec_inc_num, ?exec_break.
        assert (S i0 < length s)%nat by (apply nthb_nz_lt; exact Nz).
        destruct (tail_ok fuel (S (S i0)) row n j ltac:(lia) Ir H Hfit Hf) as (E & L1 & L2 & L3). rewrite E.
        exists j, n; split; [reflexivity|]; split; [left; reflexivity|]; split; [lia|]; split; [lia|assumption].
      - xs. rewrite exec_neg2. injection H as <- <-. exists (S i0), xrow; split; [reflexivity|]; split; [right; reflexivity|]; split; [lia|]; split; [lia|unfold int_ok; lia]. }
    destruct ((c =? 47) || (c =? 63))%N eqn:E47.
    { (* /re/ ?re? *) intros H (Fr & Fo).
      assert (i0 < length s)%nat as Hlt by (apply nthb_nz_lt; fold c; intro E; rewrite E in E47; discriminate).
      destruct Hsearch as [Hno|[Hsr Hinside]]; [exfalso; destruct (nosearch_nthb s i0 Hno Hlt) as (A & B); fold c in A, B;
        destruct (N.eqb_spec c 47); [congruence|]; destruct (N.eqb_spec c 63); [congruence|discriminate]|].
      destruct (Hinside i0 Hlt) as (I1 & I2).
      assert (Hsw : sw_run call fuel (sw_has (Z.of_N c) lineno_segs) (Z.of_N c) lineno_segs false (ST i0 xrow)
                    = match exec call fuel seg_search (ST i0 xrow) with ONormal st2 => sw_run call fuel true (Z.of_N c) [([None], seg_default)] true st2 | OBreak st2 => ONormal st2 | o => o end).
      { destruct (N.eqb_spec c 47) as [E|E]; [rewrite E; reflexivity|]. destruct (N.eqb_spec c 63) as [E'|E']; [rewrite E'; reflexivity|discriminate]. }
      rewrite Hsw. unfold seg_search. rewrite exec_seq, exec_expr. xs. rewrite (Hsr i0 xrow Hlt). xs.
      rewrite (int_ok_wrap _ Fr), store_n. xs. rewrite load_n. xs. rewrite (int_ok_wrap _ Fr).
      destruct (search xrow s i0) as [ro js] eqn:Es. cbn [fst snd sres] in *.
      destruct ro as [r|]; cbn [sres] in *.
      - destruct (r <? 0) eqn:Er; xs.
        + rewrite exec_neg2. injection H as <- <-. exists js, r; split; [reflexivity|]; split; [right; reflexivity|]; split; [lia|]; split; [lia|unfold int_ok; lia].
        + rewrite ?exec_skip, ?exec_break.
          destruct (tail_ok fuel js r n j I2 Fr H Fo Hf) as (E & L1 & L2 & L3). rewrite E.
          exists j, n; split; [reflexivity|]; split; [left; reflexivity|]; split; [lia|]; split; [lia|assumption].
      - change (-1 <? 0) with true. xs. rewrite exec_neg2. injection H as <- <-. exists js, (-1); split; [reflexivity|]; split; [right; reflexivity|]; split; [lia|]; split; [lia|unfold int_ok; lia]. }
    (* default *)
    intros H Hfit.
    assert (c <> 47%N /\ c <> 63%N) as (E47a & E63) by (destruct (N.eqb_spec c 47); [discriminate|]; destruct (N.eqb_spec c 63); [discriminate|]; split; assumption).
    rewrite (sw_has_default c E46 E36 E39 E47a E63).
    cbn [lineno_segs sw_run sw_hit existsb orb andb negb]. unfold seg_default. rewrite exec_if, (eval_dig_cond i0 xrow Hi). xcbn. rewrite nb2z. fold c.
    destruct (CapDefs.c_isdigit c) eqn:Ed.
    - destruct (CapDefs.digits_val (S (length s)) s i0 0) as [[d jd]| | |] eqn:Hd; cbn [CapDefs.bind fst snd] in H; try discriminate.
      cbn [fst snd] in Hfit. destruct Hfit as (F1 & F2 & F3).
      rewrite exec_seq, exec_expr. xs. rewrite load_num. xs.
      rewrite (builtin_atoi_digit (MM i0 xrow) bs s i0 d jd (MM_str _ _) H256 Hi Ed Hd F1). xs.
      rewrite (int_ok_chk _ F2). xs. rewrite (int_ok_wrap _ F2), store_n. xs.
      destruct (dig_loop_ok false _ i0 0 d jd (d - 1) fuel Hi Hd ltac:(lia)) as (E1 & L1 & L2). rewrite E1.
      destruct (tail_ok fuel jd (d - 1) n j L2 F2 H F3 Hf) as (E & L3 & L4 & L5). rewrite E.
      exists j, n; split; [reflexivity|]; split; [left; reflexivity|]; split; [lia|]; split; [lia|assumption].
    - cbn [CapDefs.bind] in H. rewrite exec_skip.
      destruct (tail_ok fuel i0 xrow n j Hi Hxr H Hfit Hf) as (E & L3 & L4 & L5). rewrite E.
      exists j, n; split; [reflexivity|]; split; [left; reflexivity|]; split; [lia|]; split; [lia|assumption].
  Qed.
End Lineno.

(* ------------------------------------------------------------------ the callees *)
Definition BUFS_LB : nat := 33.     (* bufs[0].lb *)
Lemma body_ex_lbuf call fuel mm gbufs bl : nth_error mm G_bufs = Some gbufs -> nth_error gbufs BUFS_LB = Some (VPtr bl 0) ->
  exec call fuel (fn_body cf_ex_lbuf) (mkst [] mm) = OReturn (VPtr bl 0) (mkst [] mm).
Proof.
  intros Hb Hc. cbn [cf_ex_lbuf fn_body]. xstep. rewrite (fld_load mm G_bufs gbufs BUFS_LB _ _ Hb Hc) by reflexivity. reflexivity.
Qed.
Lemma body_lbuf_len call fuel mm bl lblk len : nth_error mm bl = Some lblk -> nth_error lblk L_ln_n = Some (VInt len) -> int_ok len ->
  exec call fuel (fn_body cf_lbuf_len) (mkst [VPtr bl 0] mm) = OReturn (VInt len) (mkst [VPtr bl 0] mm).
Proof.
  intros Hb Hc Hi. cbn [cf_lbuf_len fn_body]. xstep. rewrite (fld_load mm bl lblk L_ln_n _ _ Hb Hc) by reflexivity. xstep.
  rewrite (int_ok_wrap _ Hi). reflexivity.
Qed.
Lemma call_ex_lbuf mm gbufs bl d fuel : nth_error mm G_bufs = Some gbufs -> nth_error gbufs BUFS_LB = Some (VPtr bl 0) ->
  callf cprog fuel (S d) F_ex_lbuf [] mm = Ok (VPtr bl 0, mm).
Proof. intros Hb Hc. enter F_ex_lbuf cf_ex_lbuf. fold (fn_body cf_ex_lbuf). rewrite (body_ex_lbuf _ _ mm gbufs bl Hb Hc). reflexivity. Qed.
Lemma call_lbuf_len mm bl lblk len d fuel : nth_error mm bl = Some lblk -> nth_error lblk L_ln_n = Some (VInt len) -> int_ok len ->
  callf cprog fuel (S d) F_lbuf_len [VPtr bl 0] mm = Ok (VInt len, mm).
Proof. intros Hb Hc Hi. enter F_lbuf_len cf_lbuf_len. fold (fn_body cf_lbuf_len). rewrite (body_lbuf_len _ _ mm bl lblk len Hb Hc Hi). reflexivity. Qed.
Lemma call_lbuf_jump mm bl lblk c bp pblk d fuel : nth_error mm bl = Some lblk -> marks_ints lblk -> (c < 256)%N -> bp <> bl ->
  nth_error mm bp = Some pblk -> (0 < length pblk)%nat ->
  callf cprog fuel (S (S d)) F_lbuf_jump [VPtr bl 0; VInt (Z.of_N c); VPtr bp 0; VInt 0] mm
  = match mark_of lblk c with None => Ok (VInt 1, mm) | Some row => Ok (VInt 0, upd mm bp (upd pblk 0 (VInt row))) end.
Proof.
  intros Hb Hm Hc Hne Hp Hl.
  rewrite (tr_lbuf_jump mm bl lblk (Z.of_N c) bp 0 pblk None d fuel Hb Hm ltac:(lia) Hne Hp ltac:(lia) I).
  unfold mark_of. cbv zeta. destruct ((CapDefs2.markidx (Z.of_N c) <? 0) || (cellz lblk (Z.to_nat (CapDefs2.markidx (Z.of_N c))) <? 0)); reflexivity.
Qed.

(* ------------------------------------------------------------------ ex_lineno on addresses without a search *)
(* For every address string (any bytes) without '/' and '?', from any position i, any buffer length and current line inside
   int, any mark table: the model returns a value (n, j) (C05_lineno_stays_inside), and if the numbers the C text
   computes on the way fit into int (lineno_fit) the call returns n, leaves *num at j (after an unset mark: behind the mark
   letter, and n = -2) -- inside the string -- and changes nothing else; its own `n` stays behind in a fresh block.
   Returning Ok means: every load was inside the string and its terminator, no signed overflow. *)
Theorem tr_ex_lineno m bs bn bl s i xrow len gbufs lblk search d fuel :
  str_at m bs s -> bytes_lt256 s -> nth_error m bn = Some [VPtr bs (Z.of_nat i)] -> cell_at m G_xrow xrow ->
  nth_error m G_bufs = Some gbufs -> nth_error gbufs BUFS_LB = Some (VPtr bl 0) ->
  nth_error m bl = Some lblk -> nth_error lblk L_ln_n = Some (VInt len) -> marks_ints lblk ->
  bs <> bn /\ G_xrow <> bn /\ G_bufs <> bn /\ bl <> bn -> int_ok xrow -> int_ok len ->
  nosearch s -> (i <= length s)%nat -> (2 * S (length s) <= fuel)%nat ->
  exists n j, CapDefs.ex_lineno len (mark_of lblk) search xrow s i = CapDefs.Ok (n, j) /\ (i <= j)%nat /\ (j <= length s)%nat /\
    (lineno_fit len (mark_of lblk) search xrow s i ->
     exists j' nb, callf cprog fuel (S (S (S d))) F_ex_lineno [VPtr bn 0] m
                   = Ok (VInt n, upd m bn [VPtr bs (Z.of_nat j')] ++ [[VInt nb]]) /\
                   (j' = j \/ n = -2) /\ (i <= j')%nat /\ (j' <= length s)%nat /\ int_ok n).
Proof.
  intros Hs H256 Hn Hx Hb Hbl Hl Hln Hm Hne Hxr Hlen Hno Hi Hf.
  (* a search is never reached: the model agrees with the model over an oracle that stays inside *)
  set (search0 := fun (_ : Z) (_ : bytes) (k : nat) => (@None Z, k)).
  assert (Hmodel : CapDefs.ex_lineno len (mark_of lblk) search xrow s i = CapDefs.ex_lineno len (mark_of lblk) search0 xrow s i).
  { unfold CapDefs.ex_lineno. rewrite (rd_ok s i Hi). cbn [CapDefs.bind].
    destruct ((nthb s i =? 47) || (nthb s i =? 63))%N eqn:E; [|reflexivity].
    assert (i < length s)%nat as Hlt by (apply nthb_nz_lt; intro E0; rewrite E0 in E; discriminate).
    destruct (nosearch_nthb s i Hno Hlt) as (A & B).
    destruct (N.eqb_spec (nthb s i) 47); [congruence|]. destruct (N.eqb_spec (nthb s i) 63); [congruence|discriminate]. }
  destruct (CapProps.ex_lineno_ok len (mark_of lblk) search0 (mark_of_0 lblk)
              ltac:(intros; unfold search0; cbn [snd]; lia) xrow s i Hi) as (n & j & E & L1 & L2).
  exists n, j. rewrite Hmodel. split; [exact E|]. split; [exact L1|]. split; [exact L2|]. intro Hfit.
  rewrite <- Hmodel in E.
  destruct (lineno_body_ok m bs bn bl s i xrow len gbufs lblk Hs H256 Hn Hx Hb Hl Hne Hxr Hm (callf cprog fuel (S (S d)))
              (fun mm H => call_ex_lbuf mm gbufs bl (S d) fuel H Hbl)
              (fun mm H => call_lbuf_len mm bl lblk len (S d) fuel H Hln Hlen)
              (fun mm c bp pblk H1 H2 H3 H4 H5 => call_lbuf_jump mm bl lblk c bp pblk d fuel H1 Hm H2 H3 H4 H5)
              search (or_introl Hno) fuel n j Hi E Hfit Hf) as (j' & nb & Ex & R).
  exists j', nb. split; [|exact R].
  rewrite callf_S. cbn [nth_error cprog F_ex_lineno]. change (fn_nparams cf_ex_lineno) with 1%nat. change (fn_nlocals cf_ex_lineno) with 2%nat.
  cbn [length Nat.eqb Nat.sub repeat app]. rewrite Ex. reflexivity.
Qed.

(* ================================================================== ex_region *)
(* the position-based model of CapDefs.ex_region with everything the C function leaves behind: the value returned
   (true = 1), *beg, *end (also when the address is rejected: the callers a/i/r/pu look at them) and xrow *)
Lemma rloop_first lineno f s i xr b e b' e' : (i <= length s)%nat -> nthb s i <> 0%N ->
  rloop lineno (S f) s i xr O b e = rloop lineno (S f) s i xr O b' e'.
Proof.
  intros Hi Hc. cbn [rloop]. rewrite (rd_ok s i Hi). cbn [CapDefs.bind]. destruct (N.eqb_spec (nthb s i) 0); [contradiction|]. reflexivity.
Qed.
(* the values ex_region computes in int on top of those of ex_lineno: ex_lineno(..) + 1, and xrow + 1 for the empty address *)
Fixpoint rloop_fit (len : Z) (mark : N -> option Z) (search : Z -> bytes -> nat -> option Z * nat)
    (fuel : nat) (s : bytes) (i : nat) (xrow : Z) : Prop :=
  match fuel with
  | O => True
  | S f =>
      if (nthb s i =? 0)%N then True else
      lineno_fit len mark search xrow s i /\
      match CapDefs.ex_lineno len mark search xrow s i with
      | CapDefs.Ok r =>
          let e1 := fst r + 1 in
          int_ok e1 /\
          (if e1 <? 0 then True else
           match CapDefs.skip_while (S (length s)) sep_pre s (snd r) with
           | CapDefs.Ok j => if (nthb s j =? 0)%N then True
                             else rloop_fit len mark search f s (S j) (if (nthb s j =? 59)%N then e1 - 1 else xrow)
           | _ => True
           end)
      | _ => True
      end
  end.
Definition region_fit (len : Z) (mark : N -> option Z) (search : Z -> bytes -> nat -> option Z * nat) (s : bytes) (xrow : Z) : Prop :=
  if CapDefs.bytes_eqb s [37%N] then True
  else if (nthb s 0 =? 0)%N then xrow <> len -> int_ok (xrow + 1)
  else rloop_fit len mark search (S (length s)) s 0 xrow.

(* strcmp("%", loc) == 0 exactly when loc is "%" *)
Lemma strcmp_pct mm g bs s : nth_error mm g = Some (cstr_block [37]) -> str_at mm bs s -> nonul s ->
  exists r, do_builtin_m BStrcmp [VPtr g 0; VPtr bs 0] mm = Ok (VInt r, mm) /\ (r =? 0) = CapDefs.bytes_eqb s [37%N].
Proof.
  intros Hg Hs Hn. cbn [do_builtin_m do_builtin]. unfold blk_from. rewrite Hg, Hs. cbn [Z.ltb Z.compare orb].
  change (Z.of_nat (length (cstr_block [37])) <? 0) with false.
  destruct (Z.ltb_spec (Z.of_nat (length (cstr_block (zb s)))) 0); [lia|]. cbn [bind skipn Z.to_nat].
  destruct s as [|c t].
  - eexists. split; [reflexivity|reflexivity].
  - inversion Hn as [|? ? [Hc0 Hc] Ht]; subst. rewrite cstr_block_cons.
    change (cstr_block [37]) with [VInt 37; VInt 0]. cbn [length cmp_cells Nat.max]. change (wrap U8 37) with 37. rewrite (u8_byte c Hc).
    destruct (Z.ltb_spec 37 (Z.of_N c)).
    { eexists. split; [reflexivity|]. cbn [CapDefs.bytes_eqb]. destruct (N.eqb_spec c 37); [lia|reflexivity]. }
    destruct (Z.ltb_spec (Z.of_N c) 37).
    { eexists. split; [reflexivity|]. cbn [CapDefs.bytes_eqb]. destruct (N.eqb_spec c 37); [lia|reflexivity]. }
    assert (c = 37%N) by lia. subst c. change (37 =? 0) with false. cbv iota.
    destruct t as [|c2 t2].
    + unfold cstr_block, zb. cbn [map app length Nat.max cmp_cells]. eexists. split; [reflexivity|reflexivity].
    + inversion Ht as [|? ? [Hd0 Hd] Ht2]; subst. rewrite cstr_block_cons. cbn [length Nat.max cmp_cells].
      change (wrap U8 0) with 0. rewrite (u8_byte c2 Hd). destruct (Z.ltb_spec 0 (Z.of_N c2)); [|lia].
      eexists. split; [reflexivity|]. cbn [CapDefs.bytes_eqb N.eqb Pos.eqb andb]. reflexivity.
Qed.

Lemma load1 (mm : mem) b v : nth_error mm b = Some ([v] : block) -> load mm b 0 = Ok v.
Proof. intro H. unfold load. rewrite H. reflexivity. Qed.
Lemma store1 (mm : mem) b v w : nth_error mm b = Some ([v] : block) -> store mm b 0 w = Ok (upd mm b ([w] : block)).
Proof. intro H. rewrite (store_ok mm b ([v] : block) 0 w H) by (cbn; lia). reflexivity. Qed.

Definition rbyte : expr := ELoad (Some I8) (ELoad None (ELocal 3)).
Definition sep_cond : expr :=
  EAndAlso (EAndAlso (ECast I32 rbyte) (EBin ONe I32 (ECast I32 rbyte) (EConst 59))) (EBin ONe I32 (ECast I32 rbyte) (EConst 44)).
Definition inc_loc : expr := EIncMem true None 1 (ELocal 3).
Definition sep_loop : stmt := SWhile sep_cond (SExpr inc_loc).
Definition lbuf_len_call : expr := ECall F_lbuf_len [ECall F_ex_lbuf []].
Definition rb_end0 : stmt := SExpr (ESetLocal 5 (ELoad (Some I32) (ELocal 2))).
Definition rb_lineno : stmt := SExpr (EStore (Some I32) (ELocal 2) (EBin OAdd I32 (ECall F_ex_lineno [ELocal 3]) (EConst 1))).
Definition rb_beg : stmt :=
  SExpr (EStore (Some I32) (ELocal 1) (ECond (EIncLocal true 4 (Some I32) 1) (EBin OSub I32 (ELocal 5) (EConst 1)) (EBin OSub I32 (ELoad (Some I32) (ELocal 2)) (EConst 1)))).
Definition rb_beg2 : stmt :=
  SIf (ELNot (EIncLocal true 4 (Some I32) 1)) (SExpr (EStore (Some I32) (ELocal 1) (EBin OSub I32 (ELoad (Some I32) (ELocal 2)) (EConst 1)))) SSkip.
Definition rb_neg : stmt := SIf (EBin OLt I32 (ELoad (Some I32) (ELocal 2)) (EConst 0)) (SReturn (Some (EConst 1))) SSkip.
Definition rb_brk : stmt := SIf (ELNot rbyte) SBreak SSkip.
Definition rb_semi : stmt :=
  SIf (EBin OEq I32 (ECast I32 rbyte) (EConst 59)) (SExpr (EStore (Some I32) (EGlob G_xrow) (EBin OSub I32 (ELoad (Some I32) (ELocal 2)) (EConst 1)))) SSkip.
Definition rbody : stmt :=
  SSeq rb_end0 (SSeq rb_lineno (SSeq rb_beg (SSeq rb_beg2 (SSeq rb_neg (SSeq sep_loop (SSeq rb_brk (SSeq rb_semi (SExpr inc_loc)))))))).
Definition rtail : stmt :=
  SSeq (SIf (EAndAlso (EBin OLt I32 (ELoad (Some I32) (ELocal 1)) (EConst 0)) (EBin OEq I32 (ELoad (Some I32) (ELocal 2)) (EConst 0))) (SExpr (EStore (Some I32) (ELocal 1) (EConst 0))) SSkip)
 (SSeq (SIf (EOrElse (EBin OLt I32 (ELoad (Some I32) (ELocal 1)) (EConst 0)) (EBin OGe I32 (ELoad (Some I32) (ELocal 1)) lbuf_len_call)) (SReturn (Some (EConst 1))) SSkip)
 (SSeq (SIf (EOrElse (EBin OLt I32 (ELoad (Some I32) (ELocal 2)) (ELoad (Some I32) (ELocal 1))) (EBin OGt I32 (ELoad (Some I32) (ELocal 2)) lbuf_len_call)) (SReturn (Some (EConst 1))) SSkip)
       (SReturn (Some (EConst 0))))).
Definition rpct : stmt :=
  SIf (ELNot (EBuiltin BStrcmp [EGlob G_lit_25_1; ELoad None (ELocal 3)]))
    (SSeq (SExpr (EStore (Some I32) (ELocal 1) (EConst 0)))
    (SSeq (SExpr (EStore (Some I32) (ELocal 2) (ECond (EBin OLt I32 (EConst 0) lbuf_len_call) lbuf_len_call (EConst 0)))) (SReturn (Some (EConst 0))))) SSkip.
Definition xrow_ld : expr := ELoad (Some I32) (EGlob G_xrow).
Definition re_beg : stmt := SExpr (EStore (Some I32) (ELocal 1) xrow_ld).
Definition re_end : stmt := SExpr (EStore (Some I32) (ELocal 2) (ECond (EBin OEq I32 xrow_ld lbuf_len_call) xrow_ld (EBin OAdd I32 xrow_ld (EConst 1)))).
Definition re_ret : stmt := SReturn (Some (EOrElse (EBin OLt I32 xrow_ld (EConst 0)) (EBin OGt I32 xrow_ld lbuf_len_call))).
Definition rempty : stmt := SIf (ELNot rbyte) (SSeq re_beg (SSeq re_end re_ret)) SSkip.
Lemma ex_region_shape : fn_body cf_ex_region =
  SSeq (SExpr (ESetLocal 3 (EBuiltin BMalloc [EConst 1]))) (SSeq (SExpr (EStore None (ELocal 3) (ELocal 0))) (SSeq (SExpr (ESetLocal 4 (EConst 0)))
  (SSeq rpct (SSeq rempty (SSeq (SWhile rbyte rbody) rtail))))).
Proof. reflexivity. Qed.

Lemma lt_ne a b : (a < b)%nat -> a <> b.
Proof. lia. Qed.
(* the blocks ex_region stores into (beg, end, xrow) are different from each other and from the blocks it only reads
   (a definition, so that lia does not look inside) *)
Definition rdist (bs bb be bl : nat) : Prop :=
  bb <> be /\ bb <> bs /\ bb <> bl /\ bb <> G_xrow /\ bb <> G_bufs /\
  be <> bs /\ be <> bl /\ be <> G_xrow /\ be <> G_bufs /\ G_xrow <> bs /\ G_xrow <> bl.

Section Region.
  (* the memory at the call of ex_region(loc, &beg, &end): loc = the start of s in block bs, beg and end in blocks of their own *)
  Variables (m : mem) (bs bb be bl : nat) (s : bytes) (gbufs lblk : block) (len : Z).
  Hypothesis Hnn : nonul s.
  Hypothesis Hlt : (bs < length m)%nat /\ (bb < length m)%nat /\ (be < length m)%nat /\ (bl < length m)%nat /\
                   (G_xrow < length m)%nat /\ (G_bufs < length m)%nat.
  Hypothesis Hdist : rdist bs bb be bl.
  Hypothesis Hints : marks_ints lblk.
  Hypothesis Hlen : int_ok len.
  Let H256 : bytes_lt256 s := nonul_lt256 s Hnn.
  Local Notation bn := (length m).

  (* what stays true of the memory while ex_region runs: loc (in the fresh block bn) at position i, xrow, *beg, *end, and the
     blocks of m that ex_region never stores into *)
  Record RInv (mm : mem) (i : nat) (xr : Z) (vb : val) (e : Z) : Prop := mkRInv {
    ri_loc : nth_error mm bn = Some ([VPtr bs (Z.of_nat i)] : block);
    ri_str : str_at mm bs s;
    ri_xrow : cell_at mm G_xrow xr;
    ri_beg : nth_error mm bb = Some ([vb] : block);
    ri_end : nth_error mm be = Some ([VInt e] : block);
    ri_bufs : nth_error mm G_bufs = Some gbufs;
    ri_lbuf : nth_error mm bl = Some lblk;
    ri_frame : forall b', (b' < length m)%nat -> b' <> bb -> b' <> be -> b' <> G_xrow -> nth_error mm b' = nth_error m b' }.

  Lemma lt_of (mm : mem) b (x : block) : nth_error mm b = Some x -> (b < length mm)%nat.
  Proof. intro H. apply nth_error_Some. congruence. Qed.

  Ltac dist := destruct Hlt as (L1 & L2 & L3 & L4 & L5 & L6); destruct Hdist as (D1 & D2 & D3 & D4 & D5 & D6 & D7 & D8 & D9 & D10 & D11).
  Ltac ne := first [assumption | apply not_eq_sym; assumption | apply lt_ne; assumption | apply not_eq_sym, lt_ne; assumption
                    | (unfold G_bufs, G_xrow; congruence)].

  Lemma RInv_loc mm i xr vb e i' : RInv mm i xr vb e -> RInv (upd mm bn ([VPtr bs (Z.of_nat i')] : block)) i' xr vb e.
  Proof.
    intros [A B C D E F G H]. dist. pose proof (lt_of _ _ _ A) as LA.
    constructor; unfold str_at, cell_at in *.
    - apply mem_upd_same. exact LA.
    - rewrite mem_upd_other by (try exact LA; ne). exact B.
    - rewrite mem_upd_other by (try exact LA; ne). exact C.
    - rewrite mem_upd_other by (try exact LA; ne). exact D.
    - rewrite mem_upd_other by (try exact LA; ne). exact E.
    - rewrite mem_upd_other by (try exact LA; ne). exact F.
    - rewrite mem_upd_other by (try exact LA; ne). exact G.
    - intros b' Hb' N1 N2 N3. rewrite mem_upd_other by (try exact LA; ne). apply H; assumption.
  Qed.
  Lemma RInv_beg mm i xr vb e v : RInv mm i xr vb e -> RInv (upd mm bb ([v] : block)) i xr v e.
  Proof.
    intros [A B C D E F G H]. dist. pose proof (lt_of _ _ _ D) as LA.
    constructor; unfold str_at, cell_at in *.
    - rewrite mem_upd_other by (try exact LA; ne). exact A.
    - rewrite mem_upd_other by (try exact LA; ne). exact B.
    - rewrite mem_upd_other by (try exact LA; ne). exact C.
    - apply mem_upd_same. exact LA.
    - rewrite mem_upd_other by (try exact LA; ne). exact E.
    - rewrite mem_upd_other by (try exact LA; ne). exact F.
    - rewrite mem_upd_other by (try exact LA; ne). exact G.
    - intros b' Hb' N1 N2 N3. rewrite mem_upd_other by (try exact LA; ne). apply H; assumption.
  Qed.
  Lemma RInv_end mm i xr vb e e' : RInv mm i xr vb e -> RInv (upd mm be ([VInt e'] : block)) i xr vb e'.
  Proof.
    intros [A B C D E F G H]. dist. pose proof (lt_of _ _ _ E) as LA.
    constructor; unfold str_at, cell_at in *.
    - rewrite mem_upd_other by (try exact LA; ne). exact A.
    - rewrite mem_upd_other by (try exact LA; ne). exact B.
    - rewrite mem_upd_other by (try exact LA; ne). exact C.
    - rewrite mem_upd_other by (try exact LA; ne). exact D.
    - apply mem_upd_same. exact LA.
    - rewrite mem_upd_other by (try exact LA; ne). exact F.
    - rewrite mem_upd_other by (try exact LA; ne). exact G.
    - intros b' Hb' N1 N2 N3. rewrite mem_upd_other by (try exact LA; ne). apply H; assumption.
  Qed.
  Lemma RInv_xrow mm i xr vb e xr' : RInv mm i xr vb e -> RInv (upd mm G_xrow ([VInt xr'] : block)) i xr' vb e.
  Proof.
    intros [A B C D E F G H]. dist. pose proof (lt_of _ _ _ C) as LA.
    constructor; unfold str_at, cell_at in *.
    - rewrite mem_upd_other by (try exact LA; ne). exact A.
    - rewrite mem_upd_other by (try exact LA; ne). exact B.
    - apply mem_upd_same. exact LA.
    - rewrite mem_upd_other by (try exact LA; ne). exact D.
    - rewrite mem_upd_other by (try exact LA; ne). exact E.
    - rewrite mem_upd_other by (try exact LA; ne). exact F.
    - rewrite mem_upd_other by (try exact LA; ne). exact G.
    - intros b' Hb' N1 N2 N3. rewrite mem_upd_other by (try exact LA; ne). apply H; assumption.
  Qed.
  Lemma RInv_app mm i xr vb e (x : block) : RInv mm i xr vb e -> RInv (mm ++ [x]) i xr vb e.
  Proof.
    intros [A B C D E F G H].
    constructor; unfold str_at, cell_at in *; try (rewrite nth_error_app_old by (eapply lt_of; eassumption); assumption).
    intros b' Hb' N1 N2 N3. rewrite nth_error_app_old by (pose proof (lt_of _ _ _ A); clear - Hb' H0; lia). apply H; assumption.
  Qed.

  Variable call : nat -> list val -> mem -> res (val * mem).
  Local Notation LC v0 na v5 := [v0; VPtr bb 0; VPtr be 0; VPtr bn 0; VInt na; v5].

  Lemma eval_rbyte mm i xr vb e v0 na v5 : RInv mm i xr vb e -> (i <= length s)%nat ->
    eval call rbyte (mkst (LC v0 na v5) mm) = Ok (VInt (wrap I8 (Z.of_N (nthb s i))), mkst (LC v0 na v5) mm).
  Proof.
    intros R Hi. unfold rbyte. xs. rewrite (load1 mm bn _ (ri_loc _ _ _ _ _ R)). xs.
    rewrite (load_str mm bs s _ i (ri_str _ _ _ _ _ R) eq_refl Hi). xs. reflexivity.
  Qed.
  Lemma eval_inc_loc mm i xr vb e v0 na v5 : RInv mm i xr vb e ->
    eval call inc_loc (mkst (LC v0 na v5) mm)
    = Ok (VPtr bs (Z.of_nat i), mkst (LC v0 na v5) (upd mm bn ([VPtr bs (Z.of_nat (S i))] : block))).
  Proof.
    intros R. unfold inc_loc. xs. rewrite (load1 mm bn _ (ri_loc _ _ _ _ _ R)). xs.
    rewrite (store1 mm bn _ _ (ri_loc _ _ _ _ _ R)). xs. rewrite Nat2Z.inj_succ. reflexivity.
  Qed.
  Lemma eval_sep_cond mm i xr vb e v0 na v5 : RInv mm i xr vb e -> (i <= length s)%nat ->
    eval call sep_cond (mkst (LC v0 na v5) mm) = Ok (VInt (b2z (sep_pre (nthb s i))), mkst (LC v0 na v5) mm).
  Proof.
    intros R Hi. pose proof (nthb_lt256 s i H256) as Hc. unfold sep_cond, sep_pre.
    cbn [eval]. rewrite (eval_rbyte mm i xr vb e v0 na v5 R Hi). xs. rewrite (sx_eqb_0 _ Hc).
    destruct (nthb s i =? 0)%N; xs; [reflexivity|].
    rewrite (eval_rbyte mm i xr vb e v0 na v5 R Hi). xs. rewrite (sx_eqb_59 _ Hc).
    destruct (nthb s i =? 59)%N; xs; [reflexivity|].
    rewrite (eval_rbyte mm i xr vb e v0 na v5 R Hi). xs. rewrite (sx_eqb_44 _ Hc).
    destruct (nthb s i =? 44)%N; reflexivity.
  Qed.
  (* while ( *loc && *loc != ';' && *loc != ',') loc++; *)
  Lemma sep_loop_ok xr vb e v0 na v5 : forall fm i j fuel mm, RInv mm i xr vb e -> (i <= length s)%nat ->
    CapDefs.skip_while fm sep_pre s i = CapDefs.Ok j -> (fm <= fuel)%nat ->
    exists mm', exec call fuel sep_loop (mkst (LC v0 na v5) mm) = ONormal (mkst (LC v0 na v5) mm') /\
                RInv mm' j xr vb e /\ (i <= j)%nat /\ (j <= length s)%nat.
  Proof.
    induction fm as [|fm IH]; intros i j fuel mm R Hi H Hf; [discriminate|].
    destruct fuel as [|fuel]; [lia|]. cbn [CapDefs.skip_while] in H. rewrite (rd_ok s i Hi) in H. cbn [CapDefs.bind] in H.
    unfold sep_loop. rewrite exec_while, (eval_sep_cond mm i xr vb e v0 na v5 R Hi). xcbn. rewrite nb2z.
    destruct (sep_pre (nthb s i)) eqn:Ep.
    - assert (i < length s)%nat by (apply nthb_nz_lt; intro E; rewrite E in Ep; discriminate).
      rewrite exec_expr, (eval_inc_loc mm i xr vb e v0 na v5 R).
      destruct (IH (S i) j fuel _ (RInv_loc mm i xr vb e (S i) R) ltac:(lia) H ltac:(lia)) as (mm' & E & R' & L1 & L2).
      fold sep_loop. rewrite E. exists mm'. split; [reflexivity|]. split; [exact R'|]. split; lia.
    - injection H as <-. exists mm. split; [reflexivity|]. split; [exact R|]. split; lia.
  Qed.

  Hypothesis Hc_lbuf : forall mm, nth_error mm G_bufs = Some gbufs -> call F_ex_lbuf [] mm = Ok (VPtr bl 0, mm).
  Hypothesis Hc_len : forall mm, nth_error mm bl = Some lblk -> call F_lbuf_len [VPtr bl 0] mm = Ok (VInt len, mm).
  Lemma eval_len mm i xr vb e L : RInv mm i xr vb e -> eval call lbuf_len_call (mkst L mm) = Ok (VInt len, mkst L mm).
  Proof.
    intro R. unfold lbuf_len_call. xs. rewrite (Hc_lbuf mm (ri_bufs _ _ _ _ _ R)). xs. rewrite (Hc_len mm (ri_lbuf _ _ _ _ _ R)). xs. reflexivity.
  Qed.

  (* the checks behind the loop: address 0 stands for "before the first line", beg and end must lie inside the buffer *)
  Definition rfinal (b e : Z) : bool * Z :=
    let b1 := if (b <? 0) && (e =? 0) then 0 else b in
    (((b1 <? 0) || (len <=? b1)) || ((e <? b1) || (len <? e)), b1).
  Lemma rtail_ok fuel mm i xr b e v0 na v5 : RInv mm i xr (VInt b) e -> int_ok b -> int_ok e ->
    exists mm', exec call fuel rtail (mkst (LC v0 na v5) mm) = OReturn (VInt (b2z (fst (rfinal b e)))) (mkst (LC v0 na v5) mm') /\
                RInv mm' i xr (VInt (snd (rfinal b e))) e /\ int_ok (snd (rfinal b e)).
  Proof.
    intros R Ib Ie. unfold rtail, rfinal. cbv zeta. cbn [fst snd].
    set (b1 := if (b <? 0) && (e =? 0) then 0 else b).
    assert (exists mm1, exec call fuel (SIf (EAndAlso (EBin OLt I32 (ELoad (Some I32) (ELocal 1)) (EConst 0)) (EBin OEq I32 (ELoad (Some I32) (ELocal 2)) (EConst 0))) (SExpr (EStore (Some I32) (ELocal 1) (EConst 0))) SSkip) (mkst (LC v0 na v5) mm)
              = ONormal (mkst (LC v0 na v5) mm1) /\ RInv mm1 i xr (VInt b1) e /\ int_ok b1) as (mm1 & E1 & R1 & I1).
    { xs. rewrite (load1 mm bb _ (ri_beg _ _ _ _ _ R)). xs. rewrite (int_ok_wrap _ Ib). unfold b1.
      destruct (b <? 0); xs.
      - rewrite (load1 mm be _ (ri_end _ _ _ _ _ R)). xs. rewrite (int_ok_wrap _ Ie). destruct (e =? 0); xs.
        + rewrite (store1 mm bb _ _ (ri_beg _ _ _ _ _ R)). xs. eexists. split; [reflexivity|]. split; [exact (RInv_beg _ _ _ _ _ _ R)|unfold int_ok; lia].
        + exists mm. split; [reflexivity|]. split; assumption.
      - exists mm. split; [reflexivity|]. split; assumption. }
    rewrite exec_seq, E1. xs. rewrite (load1 mm1 bb _ (ri_beg _ _ _ _ _ R1)). xs. rewrite (int_ok_wrap _ I1).
    destruct (b1 <? 0) eqn:Eb; xs.
    { exists mm1. split; [reflexivity|]. split; assumption. }
    rewrite (load1 mm1 bb _ (ri_beg _ _ _ _ _ R1)). xs. rewrite (int_ok_wrap _ I1).
    fold lbuf_len_call. rewrite (eval_len mm1 i xr _ e _ R1). xs.
    destruct (len <=? b1) eqn:El; xs.
    { exists mm1. split; [reflexivity|]. split; assumption. }
    rewrite (load1 mm1 be _ (ri_end _ _ _ _ _ R1)). xs. rewrite (int_ok_wrap _ Ie).
    rewrite (load1 mm1 bb _ (ri_beg _ _ _ _ _ R1)). xs. rewrite (int_ok_wrap _ I1).
    destruct (e <? b1) eqn:Ee; xs.
    { exists mm1. split; [reflexivity|]. split; assumption. }
    rewrite (load1 mm1 be _ (ri_end _ _ _ _ _ R1)). xs. rewrite (int_ok_wrap _ Ie).
    fold lbuf_len_call. rewrite (eval_len mm1 i xr _ e _ R1). xs.
    destruct (len <? e) eqn:El2; xs.
    { exists mm1. split; [reflexivity|]. split; assumption. }
    exists mm1. split; [reflexivity|]. split; assumption.
  Qed.

  Variable search : Z -> bytes -> nat -> option Z * nat.
  Local Notation lineno := (CapDefs.ex_lineno len (mark_of lblk) search).
  (* what one call of ex_lineno does (lineno_body_ok, for the `call` at hand) *)
  Hypothesis Hc_lineno : forall mm i xr vb e n j, RInv mm i xr vb e -> (i <= length s)%nat -> int_ok xr ->
    lineno xr s i = CapDefs.Ok (n, j) -> lineno_fit len (mark_of lblk) search xr s i ->
    exists j' nb, call F_ex_lineno [VPtr bn 0] mm
                  = Ok (VInt n, upd mm bn ([VPtr bs (Z.of_nat j')] : block) ++ [([VInt nb] : block)]) /\
                  (j' = j \/ n = -2) /\ (i <= j')%nat /\ (j' <= length s)%nat /\ int_ok n.

  Lemma exec_end0 fuel mm i xr vb e v0 na v5 : RInv mm i xr vb e -> int_ok e ->
    exec call fuel rb_end0 (mkst (LC v0 na v5) mm) = ONormal (mkst (LC v0 na (VInt e)) mm).
  Proof. intros R Ie. unfold rb_end0. xs. rewrite (load1 mm be _ (ri_end _ _ _ _ _ R)). xs. rewrite (int_ok_wrap _ Ie). reflexivity. Qed.
  Lemma exec_lineno fuel mm i xr vb e v0 na v5 n j : RInv mm i xr vb e -> (i <= length s)%nat -> int_ok xr ->
    lineno xr s i = CapDefs.Ok (n, j) -> lineno_fit len (mark_of lblk) search xr s i -> int_ok (n + 1) ->
    exists mm' j', exec call fuel rb_lineno (mkst (LC v0 na v5) mm) = ONormal (mkst (LC v0 na v5) mm') /\
                   RInv mm' j' xr vb (n + 1) /\ (j' = j \/ n = -2) /\ (i <= j')%nat /\ (j' <= length s)%nat /\ int_ok n.
  Proof.
    intros R Hi Ixr El Fl Fe1. destruct (Hc_lineno mm i xr vb e n j R Hi Ixr El Fl) as (j' & nb & Ecall & Rj & I1 & I2 & In).
    set (mm1 := upd mm bn ([VPtr bs (Z.of_nat j')] : block) ++ [([VInt nb] : block)]) in *.
    assert (R1 : RInv mm1 j' xr vb e) by (apply RInv_app; exact (RInv_loc _ _ _ _ _ _ R)).
    unfold rb_lineno. xs. rewrite Ecall. xs. rewrite (int_ok_chk _ Fe1). xs. rewrite (int_ok_wrap _ Fe1).
    rewrite (store1 mm1 be _ _ (ri_end _ _ _ _ _ R1)). xs.
    eexists _, j'. split; [reflexivity|]. split; [exact (RInv_end _ _ _ _ _ _ R1)|]. repeat (split; [assumption|]). assumption.
  Qed.
  Lemma exec_beg fuel mm i xr vb e1 e v0 na : RInv mm i xr vb e1 -> int_ok e1 -> int_ok e -> -2147483648 < e1 -> 0 <= na < 2147483647 ->
    (na = 0 \/ 0 <= e) ->
    exec call fuel rb_beg (mkst (LC v0 na (VInt e)) mm)
    = ONormal (mkst (LC v0 (na + 1) (VInt e)) (upd mm bb ([VInt (if na =? 0 then e1 - 1 else e - 1)] : block))).
  Proof.
    intros R I1 Ie Hlo Hna Hk. unfold rb_beg. xs. rewrite (int_ok_chk (na + 1)) by (unfold int_ok; lia). xs.
    destruct (Z.eqb_spec na 0) as [->|Hne]; xs.
    - rewrite (load1 mm be _ (ri_end _ _ _ _ _ R)). xs. rewrite (int_ok_wrap _ I1).
      rewrite (int_ok_chk (e1 - 1)) by (unfold int_ok in *; lia). xs. rewrite (int_ok_wrap (e1 - 1)) by (unfold int_ok in *; lia).
      rewrite (store1 mm bb _ _ (ri_beg _ _ _ _ _ R)). xs. reflexivity.
    - destruct Hk as [Hk|Hk]; [lia|].
      rewrite (int_ok_chk (e - 1)) by (unfold int_ok in *; lia). xs. rewrite (int_ok_wrap (e - 1)) by (unfold int_ok in *; lia).
      rewrite (store1 mm bb _ _ (ri_beg _ _ _ _ _ R)). xs. reflexivity.
  Qed.
  Lemma exec_beg2 fuel mm v0 na v5 : 0 < na < 2147483647 ->
    exec call fuel rb_beg2 (mkst (LC v0 na v5) mm) = ONormal (mkst (LC v0 (na + 1) v5) mm).
  Proof.
    intros Hna. unfold rb_beg2. xs. rewrite (int_ok_chk (na + 1)) by (unfold int_ok; lia). xs.
    destruct (Z.eqb_spec na 0); [lia|]. xs. reflexivity.
  Qed.
  Lemma exec_neg fuel mm i xr vb e1 v0 na v5 : RInv mm i xr vb e1 -> int_ok e1 ->
    exec call fuel rb_neg (mkst (LC v0 na v5) mm)
    = if e1 <? 0 then OReturn (VInt 1) (mkst (LC v0 na v5) mm) else ONormal (mkst (LC v0 na v5) mm).
  Proof.
    intros R I1. unfold rb_neg. xs. rewrite (load1 mm be _ (ri_end _ _ _ _ _ R)). xs. rewrite (int_ok_wrap _ I1).
    destruct (e1 <? 0); xs; reflexivity.
  Qed.
  Lemma exec_brk fuel mm i xr vb e v0 na v5 : RInv mm i xr vb e -> (i <= length s)%nat ->
    exec call fuel rb_brk (mkst (LC v0 na v5) mm)
    = if (nthb s i =? 0)%N then OBreak (mkst (LC v0 na v5) mm) else ONormal (mkst (LC v0 na v5) mm).
  Proof.
    intros R Hi. unfold rb_brk. rewrite exec_if. cbn [eval]. rewrite (eval_rbyte mm i xr vb e v0 na v5 R Hi). xs.
    rewrite (sc_eqb_0 _ (nthb_lt256 s i H256)). destruct (nthb s i =? 0)%N; xs; reflexivity.
  Qed.
  Lemma exec_semi fuel mm i xr vb e v0 na v5 : RInv mm i xr vb e -> (i <= length s)%nat -> int_ok e -> -2147483648 < e ->
    exec call fuel rb_semi (mkst (LC v0 na v5) mm)
    = ONormal (mkst (LC v0 na v5) (if (nthb s i =? 59)%N then upd mm G_xrow ([VInt (e - 1)] : block) else mm)).
  Proof.
    intros R Hi Ie Hlo. unfold rb_semi. rewrite exec_if. cbn [eval]. rewrite (eval_rbyte mm i xr vb e v0 na v5 R Hi). xs.
    rewrite (sx_eqb_59 _ (nthb_lt256 s i H256)). destruct (nthb s i =? 59)%N; xs; [|reflexivity].
    rewrite (load1 mm be _ (ri_end _ _ _ _ _ R)). xs. rewrite (int_ok_wrap _ Ie).
    rewrite (int_ok_chk (e - 1)) by (unfold int_ok in *; lia). xs. rewrite (int_ok_wrap (e - 1)) by (unfold int_ok in *; lia).
    rewrite (store1 mm G_xrow _ _ (ri_xrow _ _ _ _ _ R)). xs. reflexivity.
  Qed.

  Lemma rloop_ok v0 : forall fm i xr k b e r fuel mm na v5 vb,
    RInv mm i xr vb e -> (i <= length s)%nat -> int_ok xr -> int_ok e ->
    (k = O /\ na = 0 /\ nthb s i <> 0%N \/ k <> O /\ 0 < na /\ vb = VInt b /\ int_ok b /\ 0 <= e) ->
    na + 2 * Z.of_nat fm <= 2147483647 ->
    rloop lineno fm s i xr k b e = CapDefs.Ok r -> rloop_fit len (mark_of lblk) search fm s i xr ->
    (fm + S (length s) <= fuel)%nat ->
    exists mm' i' na' v5', RInv mm' i' (snd r) (VInt (snd (fst (fst r)))) (snd (fst r)) /\
      int_ok (snd (fst (fst r))) /\ int_ok (snd (fst r)) /\ int_ok (snd r) /\
      exec call fuel (SWhile rbyte rbody) (mkst (LC v0 na v5) mm)
      = if fst (fst (fst r)) then OReturn (VInt 1) (mkst (LC v0 na' v5') mm') else ONormal (mkst (LC v0 na' v5') mm').
  Proof.
    induction fm as [|fm IH]; intros i xr k b e r fuel mm na v5 vb R Hi Ixr Ie Hk Hna Hr Hfit Hf; [discriminate|].
    destruct fuel as [|fuel]; [lia|]. cbn [rloop] in Hr. rewrite (rd_ok s i Hi) in Hr. cbn [CapDefs.bind] in Hr.
    cbn [rloop_fit] in Hfit. pose proof (nthb_lt256 s i H256) as Hc.
    rewrite exec_while, (eval_rbyte mm i xr vb e v0 na v5 R Hi). xcbn. rewrite (sc_eqb_0 _ Hc).
    destruct (nthb s i =? 0)%N eqn:E0; cbn [negb].
    { injection Hr as <-. cbn [fst snd]. destruct Hk as [(_ & _ & Hk)|(_ & _ & -> & Ib & _)]; [apply N.eqb_eq in E0; congruence|].
      exists mm, i, na, v5. repeat (split; [assumption|]). reflexivity. }
    destruct Hfit as (Fl & Hfit).
    destruct (lineno xr s i) as [[n j]| | |] eqn:El; cbn [CapDefs.bind fst snd] in Hr; try discriminate.
    cbv zeta in Hfit. cbn [fst snd] in Hfit. destruct Hfit as (Fe1 & Hfit).
    assert (Hna0 : 0 <= na) by (destruct Hk as [(_ & -> & _)|(_ & H0 & _)]; lia).
    unfold rbody at 1. rewrite exec_seq, (exec_end0 (S fuel) mm i xr vb e v0 na v5 R Ie).
    destruct (exec_lineno (S fuel) mm i xr vb e v0 na (VInt e) n j R Hi Ixr El Fl Fe1) as (mm2 & j' & E2 & R2 & Rj & J1 & J2 & In).
    rewrite exec_seq, E2.
    set (e1 := n + 1) in *.
    assert (He1lo : -2147483648 < e1) by (unfold e1, int_ok in *; lia).
    rewrite exec_seq, (exec_beg (S fuel) mm2 j' xr vb e1 e v0 na R2 Fe1 Ie He1lo ltac:(lia)
                         ltac:(destruct Hk as [(_ & -> & _)|(_ & _ & _ & _ & He)]; [left; reflexivity|right; exact He])).
    set (b1 := match k with O => e1 - 1 | S _ => e - 1 end) in *.
    assert (Eb1 : (if na =? 0 then e1 - 1 else e - 1) = b1).
    { unfold b1. destruct Hk as [(-> & -> & _)|(Hk & H0 & _)]; [reflexivity|]. destruct (Z.eqb_spec na 0); [lia|]. destruct k; [congruence|reflexivity]. }
    rewrite Eb1.
    assert (Ib1 : int_ok b1).
    { unfold b1, e1 in *. destruct Hk as [(-> & _)|(Hk & _ & _ & _ & He)]; [unfold int_ok in *; lia|]. destruct k; [congruence|]. unfold int_ok in *; lia. }
    set (mm3 := upd mm2 bb ([VInt b1] : block)).
    assert (R3 : RInv mm3 j' xr (VInt b1) e1) by (exact (RInv_beg _ _ _ _ _ _ R2)).
    rewrite exec_seq, (exec_beg2 (S fuel) mm3 v0 (na + 1) (VInt e) ltac:(lia)).
    rewrite exec_seq, (exec_neg (S fuel) mm3 j' xr (VInt b1) e1 v0 (na + 1 + 1) (VInt e) R3 Fe1).
    destruct (e1 <? 0) eqn:Eneg.
    { injection Hr as <-. cbn [fst snd]. exists mm3, j', (na + 1 + 1), (VInt e). repeat (split; [assumption|]). reflexivity. }
    assert (j' = j) as -> by (destruct Rj as [Rj|Rj]; [exact Rj|apply Z.ltb_ge in Eneg; unfold e1 in Eneg; lia]).
    destruct (CapDefs.skip_while (S (length s)) sep_pre s j) as [jsep| | |] eqn:Esk; cbn [CapDefs.bind] in Hr; try discriminate.
    destruct (sep_loop_ok xr (VInt b1) e1 v0 (na + 1 + 1) (VInt e) _ j jsep (S fuel) mm3 R3 J2 Esk ltac:(lia)) as (mm4 & E4 & R4 & K1 & K2).
    rewrite exec_seq, E4.
    rewrite (rd_ok s jsep K2) in Hr. cbn [CapDefs.bind] in Hr.
    rewrite exec_seq, (exec_brk (S fuel) mm4 jsep xr (VInt b1) e1 v0 (na + 1 + 1) (VInt e) R4 K2).
    destruct (nthb s jsep =? 0)%N eqn:Ec2.
    { injection Hr as <-. cbn [fst snd]. exists mm4, jsep, (na + 1 + 1), (VInt e). repeat (split; [assumption|]). reflexivity. }
    rewrite exec_seq, (exec_semi (S fuel) mm4 jsep xr (VInt b1) e1 v0 (na + 1 + 1) (VInt e) R4 K2 Fe1 He1lo).
    set (xr2 := if (nthb s jsep =? 59)%N then e1 - 1 else xr) in *.
    match goal with |- context [exec call (S fuel) (SExpr inc_loc) (mkst _ ?mmx)] => set (mm5 := mmx) end.
    assert (R5 : RInv mm5 jsep xr2 (VInt b1) e1) by (unfold mm5, xr2; destruct (nthb s jsep =? 59)%N; [exact (RInv_xrow _ _ _ _ _ _ R4)|exact R4]).
    assert (Ixr2 : int_ok xr2) by (unfold xr2; destruct (nthb s jsep =? 59)%N; [unfold e1, int_ok in *; lia|exact Ixr]).
    rewrite exec_expr, (eval_inc_loc mm5 jsep xr2 (VInt b1) e1 v0 (na + 1 + 1) (VInt e) R5).
    assert (jsep < length s)%nat by (apply nthb_nz_lt; intro E; rewrite E in Ec2; discriminate).
    apply (IH (S jsep) xr2 (S k) b1 e1 r fuel _ (na + 1 + 1) (VInt e) (VInt b1) (RInv_loc _ _ _ _ _ (S jsep) R5) ltac:(lia) Ixr2 Fe1).
    - right. split; [discriminate|]. split; [lia|]. split; [reflexivity|]. split; [exact Ib1|]. apply Z.ltb_ge in Eneg. exact Eneg.
    - lia.
    - exact Hr.
    - exact Hfit.
    - lia.
  Qed.

  Lemma exec_re_beg fuel mm i xr vb e v0 na v5 : RInv mm i xr vb e -> int_ok xr ->
    exec call fuel re_beg (mkst (LC v0 na v5) mm) = ONormal (mkst (LC v0 na v5) (upd mm bb ([VInt xr] : block))).
  Proof.
    intros R Ix. unfold re_beg, xrow_ld. xs. rewrite (load1 mm G_xrow _ (ri_xrow _ _ _ _ _ R)). xs. rewrite !(int_ok_wrap _ Ix).
    rewrite (store1 mm bb _ _ (ri_beg _ _ _ _ _ R)). xs. reflexivity.
  Qed.
  Lemma exec_re_end fuel mm i xr vb e v0 na v5 : RInv mm i xr vb e -> int_ok xr -> (xr <> len -> int_ok (xr + 1)) ->
    exec call fuel re_end (mkst (LC v0 na v5) mm)
    = ONormal (mkst (LC v0 na v5) (upd mm be ([VInt (if xr =? len then xr else xr + 1)] : block))).
  Proof.
    intros R Ix Hfit. unfold re_end, xrow_ld. xs. rewrite (load1 mm G_xrow _ (ri_xrow _ _ _ _ _ R)). xs. rewrite !(int_ok_wrap _ Ix).
    rewrite (eval_len mm i xr vb e _ R). xs.
    destruct (Z.eqb_spec xr len) as [E|E]; xs.
    - rewrite (load1 mm G_xrow _ (ri_xrow _ _ _ _ _ R)). xs. rewrite !(int_ok_wrap _ Ix).
      rewrite (store1 mm be _ _ (ri_end _ _ _ _ _ R)). xs. reflexivity.
    - rewrite (load1 mm G_xrow _ (ri_xrow _ _ _ _ _ R)). xs. rewrite !(int_ok_wrap _ Ix).
      rewrite (int_ok_chk _ (Hfit E)). xs. rewrite (int_ok_wrap _ (Hfit E)).
      rewrite (store1 mm be _ _ (ri_end _ _ _ _ _ R)). xs. reflexivity.
  Qed.
  Lemma exec_re_ret fuel mm i xr vb e L : RInv mm i xr vb e -> int_ok xr ->
    exec call fuel re_ret (mkst L mm) = OReturn (VInt (b2z ((xr <? 0) || (len <? xr)))) (mkst L mm).
  Proof.
    intros R Ix. unfold re_ret, xrow_ld. xs. rewrite (load1 mm G_xrow _ (ri_xrow _ _ _ _ _ R)). xs. rewrite !(int_ok_wrap _ Ix).
    destruct (xr <? 0); xs; [reflexivity|].
    rewrite (load1 mm G_xrow _ (ri_xrow _ _ _ _ _ R)). xs. rewrite !(int_ok_wrap _ Ix).
    rewrite (eval_len mm i xr vb e _ R). xs. destruct (len <? xr); reflexivity.
  Qed.

  (* ---- the whole function *)
  Variables (xrow : Z) (vb0 : val) (e0 : Z).
  Hypothesis Hs : str_at m bs s.
  Hypothesis Hx : cell_at m G_xrow xrow.
  Hypothesis Hbeg : nth_error m bb = Some ([vb0] : block).
  Hypothesis Hend : nth_error m be = Some ([VInt e0] : block).
  Hypothesis Hb : nth_error m G_bufs = Some gbufs.
  Hypothesis Hl : nth_error m bl = Some lblk.
  Hypothesis Hlit : nth_error m G_lit_25_1 = Some gb_lit_25_1.
  Hypothesis Hxr : int_ok xrow.
  Hypothesis He0 : int_ok e0.
  Hypothesis Hbig : 2 * Z.of_nat (S (length s)) <= 2147483647.

  Lemma RInv_start : RInv (m ++ [([VPtr bs 0] : block)]) 0 xrow vb0 e0.
  Proof.
    constructor; unfold str_at, cell_at in *; try (rewrite nth_error_app_old by (eapply lt_of; eassumption); assumption).
    - apply nth_error_app_new.
    - intros b' Hb' _ _ _. apply nth_error_app_old. exact Hb'.
  Qed.

  Lemma region_body_ok fuel r : region_full len lineno s xrow = CapDefs.Ok r -> region_fit len (mark_of lblk) search s xrow ->
    (2 * S (length s) <= fuel)%nat ->
    exists st' i', exec call fuel (fn_body cf_ex_region) (mkst [VPtr bs 0; VPtr bb 0; VPtr be 0; VUndef; VUndef; VUndef] m)
                   = OReturn (VInt (b2z (fst (fst (fst r))))) st' /\
                   RInv (memm st') i' (snd r) (VInt (snd (fst (fst r)))) (snd (fst r)) /\
                   int_ok (snd (fst (fst r))) /\ int_ok (snd (fst r)) /\ int_ok (snd r).
  Proof.
    intros Hr Hfit Hf. pose proof RInv_start as R0. set (mm0 := m ++ [([VPtr bs 0] : block)]) in *.
    rewrite ex_region_shape. rewrite exec_seq, exec_expr. xcbn. rewrite malloc_ok by lia. xcbn.
    change (repeat VUndef (Z.to_nat 1)) with [VUndef].
    rewrite exec_seq, exec_expr. xcbn.
    rewrite (store1 (m ++ [[VUndef]]) bn VUndef _ (nth_error_app_new m _)). xcbn. rewrite upd_app_new. fold mm0.
    rewrite exec_seq, exec_expr. xcbn.
    (* "%" *)
    destruct (strcmp_pct mm0 G_lit_25_1 bs s ltac:(unfold mm0; rewrite nth_error_app_old by (eapply lt_of; eassumption); exact Hlit)
                (ri_str _ _ _ _ _ R0) Hnn) as (rr & Ecmp & Hrr).
    unfold region_full in Hr. unfold region_fit in Hfit.
    rewrite exec_seq. unfold rpct. rewrite exec_if. xs. rewrite (load1 mm0 bn _ (ri_loc _ _ _ _ _ R0)). xs.
    change (Z.of_nat 0) with 0. rewrite Ecmp. xs. rewrite negb_involutive, Hrr.
    destruct (CapDefs.bytes_eqb s [37%N]) eqn:Epct; xs.
    { injection Hr as <-. cbn [fst snd b2z].
      rewrite (store1 mm0 bb _ _ (ri_beg _ _ _ _ _ R0)). xs. pose proof (RInv_beg _ _ _ _ _ (VInt (wrap I32 0)) R0) as R1.
      fold lbuf_len_call. rewrite (eval_len _ 0%nat xrow _ e0 _ R1). xs.
      assert (Emax : (if 0 <? len then len else 0) = Z.max 0 len) by (destruct (Z.ltb_spec 0 len); lia).
      destruct (0 <? len) eqn:E0l; xs.
      - rewrite (eval_len _ 0%nat xrow _ e0 _ R1). xs. rewrite (int_ok_wrap _ Hlen), (store1 _ be _ _ (ri_end _ _ _ _ _ R1)). xs.
        eexists _, 0%nat. split; [reflexivity|]. cbn [memm]. rewrite <- Emax.
        split; [exact (RInv_end _ _ _ _ _ _ R1)|]. unfold int_ok in *. repeat split; lia.
      - rewrite (store1 _ be _ _ (ri_end _ _ _ _ _ R1)). xs.
        eexists _, 0%nat. split; [reflexivity|]. cbn [memm]. rewrite <- Emax.
        split; [exact (RInv_end _ _ _ _ _ _ R1)|]. unfold int_ok in *. repeat split; lia. }
    (* "" *)
    rewrite (rd_ok s 0 ltac:(lia)) in Hr. cbn [CapDefs.bind] in Hr.
    rewrite ?exec_seq. unfold rempty. rewrite exec_if. cbn [eval]. rewrite (eval_rbyte mm0 0 xrow vb0 e0 _ _ _ R0 ltac:(lia)). xs.
    rewrite (sc_eqb_0 _ (nthb_lt256 s 0 H256)).
    destruct (nthb s 0 =? 0)%N eqn:Ec0; xs.
    { injection Hr as <-. cbn [fst snd].
      rewrite ?exec_seq, (exec_re_beg fuel mm0 0%nat xrow vb0 e0 _ _ _ R0 Hxr).
      pose proof (RInv_beg _ _ _ _ _ (VInt xrow) R0) as R1.
      rewrite ?exec_seq, (exec_re_end fuel _ 0%nat xrow _ e0 _ _ _ R1 Hxr Hfit).
      pose proof (RInv_end _ _ _ _ _ (if xrow =? len then xrow else xrow + 1) R1) as R2.
      rewrite (exec_re_ret fuel _ 0%nat xrow _ _ _ R2 Hxr).
      eexists _, 0%nat. split; [reflexivity|]. cbn [memm]. split; [exact R2|]. split; [exact Hxr|]. split; [|exact Hxr].
      destruct (Z.eqb_spec xrow len); [exact Hxr|apply Hfit; assumption]. }
    (* the address loop *)
    destruct (rloop lineno (S (length s)) s 0 xrow 0 0 0) as [r1| | |] eqn:Er1; cbn [CapDefs.bind] in Hr; try discriminate.
    rewrite ?exec_seq.
    assert (Er1' : rloop lineno (S (length s)) s 0 xrow 0 0 e0 = CapDefs.Ok r1)
      by (rewrite <- Er1; apply rloop_first; [lia|intro E; rewrite E in Ec0; discriminate]).
    destruct (rloop_ok (VPtr bs 0) (S (length s)) 0%nat xrow O 0 e0 r1 fuel mm0 0 VUndef vb0 R0 ltac:(lia) Hxr He0
                ltac:(left; split; [reflexivity|]; split; [reflexivity|]; intro E; rewrite E in Ec0; discriminate)
                ltac:(lia) Er1' Hfit ltac:(lia)) as (mm1 & i1 & na1 & v51 & R1 & Ib & Ie & Ixr & E1).
    rewrite E1. destruct r1 as [[[bad b] e] xr]. cbn [fst snd] in *.
    destruct bad.
    { injection Hr as <-. cbn [fst snd b2z]. eexists _, i1. split; [reflexivity|]. cbn [memm]. split; [exact R1|]. split; [exact Ib|]. split; [exact Ie|exact Ixr]. }
    destruct (rtail_ok fuel mm1 i1 xr b e (VPtr bs 0) na1 v51 R1 Ib Ie) as (mm2 & E2 & R2 & Ib2).
    rewrite E2. unfold rfinal in *. cbv zeta in *. cbn [fst snd] in *.
    set (b1 := if (b <? 0) && (e =? 0) then 0 else b) in *.
    assert (Er : r = (((b1 <? 0) || (len <=? b1)) || ((e <? b1) || (len <? e)), b1, e, xr)).
    { destruct ((b1 <? 0) || (len <=? b1)); [injection Hr as <-; reflexivity|].
      destruct ((e <? b1) || (len <? e)); injection Hr as <-; reflexivity. }
    subst r. cbn [fst snd]. eexists _, i1. split; [reflexivity|]. cbn [memm]. split; [exact R2|]. split; [exact Ib2|]. split; [exact Ie|exact Ixr].
  Qed.
End Region.

(* ------------------------------------------------------------------ region_full and the capacity model *)
(* CapDefs.ex_region is region_full with *beg, *end forgotten when the address is rejected *)
Definition proj_res {A B} (f : A -> B) (r : CapDefs.res A) : CapDefs.res B :=
  match r with CapDefs.Ok a => CapDefs.Ok (f a) | CapDefs.OobRd => CapDefs.OobRd | CapDefs.OobWr => CapDefs.OobWr | CapDefs.NoFuel => CapDefs.NoFuel end.
Lemma rloop_proj lineno : forall fuel s i xrow k b e,
  CapDefs.region_loop lineno fuel s i xrow k b e
  = proj_res (fun r : bool * Z * Z * Z => let '(bad, b', e', xr) := r in (if bad then None else Some (b', e'), xr))
             (rloop lineno fuel s i xrow k b e).
Proof.
  induction fuel as [|fuel IH]; intros s i xrow k b e; [reflexivity|]. cbn [CapDefs.region_loop rloop].
  destruct (CapDefs.rd s i) as [c| | |]; cbn [CapDefs.bind proj_res]; try reflexivity.
  destruct (c =? 0)%N; [reflexivity|].
  destruct (lineno xrow s i) as [[n j]| | |]; cbn [CapDefs.bind proj_res fst snd]; try reflexivity.
  destruct (n + 1 <? 0); [reflexivity|]. unfold sep_pre.
  destruct (CapDefs.skip_while (S (length s)) _ s j) as [j2| | |]; cbn [CapDefs.bind proj_res]; try reflexivity.
  destruct (CapDefs.rd s j2) as [c2| | |]; cbn [CapDefs.bind proj_res]; try reflexivity.
  destruct (c2 =? 0)%N; [reflexivity|]. apply IH.
Qed.
Lemma region_proj len lineno loc xrow :
  CapDefs.ex_region len lineno loc xrow
  = proj_res (fun r : bool * Z * Z * Z => let '(bad, b, e, xr) := r in (if bad then CapDefs.RFail else CapDefs.ROk b e, xr))
             (region_full len lineno loc xrow).
Proof.
  unfold CapDefs.ex_region, region_full. destruct (CapDefs.bytes_eqb loc [37%N]); [reflexivity|].
  destruct (CapDefs.rd loc 0) as [c| | |]; cbn [CapDefs.bind proj_res]; try reflexivity.
  destruct (c =? 0)%N; [cbn [proj_res]; destruct ((xrow <? 0) || (len <? xrow)); reflexivity|].
  rewrite rloop_proj. destruct (rloop lineno (S (length loc)) loc 0 xrow 0 0 0) as [[[[bad b] e] xr]| | |]; cbn [CapDefs.bind proj_res fst snd]; try reflexivity.
  destruct bad; [reflexivity|].
  repeat match goal with |- context [if ?c then _ else _] => destruct c end; reflexivity.
Qed.
Lemma rloop_ext l1 l2 s : (forall xr i, l1 xr s i = l2 xr s i) -> forall fuel i xrow k b e, rloop l1 fuel s i xrow k b e = rloop l2 fuel s i xrow k b e.
Proof.
  intro H. induction fuel as [|fuel IH]; intros; [reflexivity|]. cbn [rloop]. rewrite H.
  destruct (CapDefs.rd s i); cbn [CapDefs.bind]; try reflexivity. destruct (_ =? 0)%N; [reflexivity|].
  destruct (l2 xrow s i) as [[n j]| | |]; cbn [CapDefs.bind fst snd]; try reflexivity. destruct (n + 1 <? 0); [reflexivity|].
  destruct (CapDefs.skip_while _ _ s j); cbn [CapDefs.bind]; try reflexivity.
  destruct (CapDefs.rd s _); cbn [CapDefs.bind]; try reflexivity. destruct (_ =? 0)%N; [reflexivity|]. apply IH.
Qed.
Lemma region_full_ext len l1 l2 s xrow : (forall xr i, l1 xr s i = l2 xr s i) -> region_full len l1 s xrow = region_full len l2 s xrow.
Proof. intro H. unfold region_full. rewrite (rloop_ext l1 l2 s H). reflexivity. Qed.
(* without '/' and '?' in the string the search oracle is never consulted *)
Definition search0 : Z -> bytes -> nat -> option Z * nat := fun _ _ k => (None, k).
Lemma lineno_nosearch len mark search s : nosearch s -> forall xr i,
  CapDefs.ex_lineno len mark search xr s i = CapDefs.ex_lineno len mark search0 xr s i.
Proof.
  intros Hno xr i. unfold CapDefs.ex_lineno. destruct (CapDefs.rd s i) as [c| | |] eqn:Hc; cbn [CapDefs.bind]; try reflexivity.
  destruct ((c =? 47) || (c =? 63))%N eqn:E; [|reflexivity]. exfalso.
  unfold CapDefs.rd in Hc. destruct (nth_error s i) as [c'|] eqn:En.
  - injection Hc as ->. apply nth_error_In in En. unfold nosearch in Hno. rewrite Forall_forall in Hno. destruct (Hno c En) as (A & B).
    destruct (N.eqb_spec c 47); [congruence|]. destruct (N.eqb_spec c 63); [congruence|discriminate].
  - destruct (i =? length s)%nat; [|discriminate]. injection Hc as <-. discriminate.
Qed.
Lemma cap_bytes_eqb_eq : forall a b, CapDefs.bytes_eqb a b = true -> a = b.
Proof.
  induction a as [|x a IH]; destruct b as [|y b]; cbn; try discriminate; [reflexivity|]. intro H. apply andb_true_iff in H as [H1 H2].
  apply N.eqb_eq in H1. subst. f_equal. apply IH. exact H2.
Qed.
Lemma cap_bytes_eqb_refl : forall a, CapDefs.bytes_eqb a a = true.
Proof. induction a as [|x t IH]; [reflexivity|]. cbn. rewrite N.eqb_refl. exact IH. Qed.
Lemma region_full_total len mark search s xrow : mark 0%N = None ->
  (forall xr i, (i < length s)%nat -> (i <= snd (search xr s i))%nat /\ (snd (search xr s i) <= length s)%nat) ->
  exists r, region_full len (CapDefs.ex_lineno len mark search) s xrow = CapDefs.Ok r.
Proof.
  intros Hm Hin.
  (* an oracle that agrees with search on s and stays inside every string *)
  set (search1 := fun xr (t : bytes) i => if CapDefs.bytes_eqb t s then search xr t i else (@None Z, i)).
  pose proof cap_bytes_eqb_eq as Hb. pose proof (cap_bytes_eqb_refl s) as Hrefl.
  assert (Hext : forall xr i, CapDefs.ex_lineno len mark search xr s i = CapDefs.ex_lineno len mark search1 xr s i).
  { intros. unfold CapDefs.ex_lineno, search1. rewrite Hrefl. reflexivity. }
  rewrite (region_full_ext len _ _ s xrow Hext).
  destruct (CapProps.ex_region_total len (CapDefs.ex_lineno len mark search1)
              (CapProps.ex_lineno_ok len mark search1 Hm ltac:(intros xr t i Hi; unfold search1; destruct (CapDefs.bytes_eqb t s) eqn:E; [apply Hb in E; subst t; apply Hin; exact Hi|cbn [snd]; lia]))
              s xrow) as (r & E).
  rewrite region_proj in E. destruct (region_full len (CapDefs.ex_lineno len mark search1) s xrow) as [r'| | |]; try discriminate. eauto.
Qed.

(* ------------------------------------------------------------------ ex_region on addresses without a search *)
(* one call of the translated ex_lineno, in the form ex_region's loop uses it *)
Lemma call_ex_lineno m bs bn bl s i xrow len gbufs lblk search d fuel n j :
  str_at m bs s -> bytes_lt256 s -> nth_error m bn = Some [VPtr bs (Z.of_nat i)] -> cell_at m G_xrow xrow ->
  nth_error m G_bufs = Some gbufs -> nth_error gbufs BUFS_LB = Some (VPtr bl 0) ->
  nth_error m bl = Some lblk -> nth_error lblk L_ln_n = Some (VInt len) -> marks_ints lblk ->
  bs <> bn /\ G_xrow <> bn /\ G_bufs <> bn /\ bl <> bn -> int_ok xrow -> int_ok len ->
  nosearch s -> (i <= length s)%nat -> (2 * S (length s) <= fuel)%nat ->
  CapDefs.ex_lineno len (mark_of lblk) search xrow s i = CapDefs.Ok (n, j) -> lineno_fit len (mark_of lblk) search xrow s i ->
  exists j' nb, callf cprog fuel (S (S (S d))) F_ex_lineno [VPtr bn 0] m
                = Ok (VInt n, upd m bn [VPtr bs (Z.of_nat j')] ++ [[VInt nb]]) /\
                (j' = j \/ n = -2) /\ (i <= j')%nat /\ (j' <= length s)%nat /\ int_ok n.
Proof.
  intros Hs H256 Hn Hx Hb Hbl Hl Hln Hm Hne Hxr Hlen Hno Hi Hf E Hfit.
  destruct (lineno_body_ok m bs bn bl s i xrow len gbufs lblk Hs H256 Hn Hx Hb Hl Hne Hxr Hm (callf cprog fuel (S (S d)))
              (fun mm H => call_ex_lbuf mm gbufs bl (S d) fuel H Hbl)
              (fun mm H => call_lbuf_len mm bl lblk len (S d) fuel H Hln Hlen)
              (fun mm c bp pblk H1 H2 H3 H4 H5 => call_lbuf_jump mm bl lblk c bp pblk d fuel H1 Hm H2 H3 H4 H5)
              search (or_introl Hno) fuel n j Hi E Hfit Hf) as (j' & nb & Ex & R).
  exists j', nb. split; [|exact R].
  rewrite callf_S. cbn [nth_error cprog F_ex_lineno]. change (fn_nparams cf_ex_lineno) with 1%nat. change (fn_nlocals cf_ex_lineno) with 2%nat.
  cbn [length Nat.eqb Nat.sub repeat app]. rewrite Ex. reflexivity.
Qed.

(* For every NUL-free address string without '/' and '?', every buffer length, current line and mark table inside int:
   the model returns a value r = (rejected, beg, end, xrow') (so does CapDefs.ex_region: C05_region_reads_safe), and when the
   numbers computed on the way fit into int (region_fit) the call ex_region(loc, &beg, &end) returns 1 or 0 as the model
   says, has stored the model's beg and end through its out-parameters and the model's xrow' in xrow, and has left every
   other block of the memory it was given as it was (what it allocated stays behind the end of m).
   *end must hold an int at the call: the C text reads it (`int end0 = *end`) before it writes it. *)
Theorem tr_ex_region m bs bb be bl s xrow len gbufs lblk vb0 e0 search d fuel :
  str_at m bs s -> nonul s -> cell_at m G_xrow xrow ->
  nth_error m bb = Some [vb0] -> nth_error m be = Some [VInt e0] ->
  nth_error m G_bufs = Some gbufs -> nth_error gbufs BUFS_LB = Some (VPtr bl 0) ->
  nth_error m bl = Some lblk -> nth_error lblk L_ln_n = Some (VInt len) -> marks_ints lblk ->
  nth_error m G_lit_25_1 = Some gb_lit_25_1 -> rdist bs bb be bl ->
  int_ok xrow -> int_ok len -> int_ok e0 -> 2 * Z.of_nat (S (length s)) <= 2147483647 ->
  nosearch s -> (2 * S (length s) <= fuel)%nat ->
  exists r, region_full len (CapDefs.ex_lineno len (mark_of lblk) search) s xrow = CapDefs.Ok r /\
    (region_fit len (mark_of lblk) search s xrow ->
     exists m', callf cprog fuel (S (S (S (S d)))) F_ex_region [VPtr bs 0; VPtr bb 0; VPtr be 0] m
                = Ok (VInt (b2z (fst (fst (fst r)))), m') /\
       nth_error m' bb = Some [VInt (snd (fst (fst r)))] /\ nth_error m' be = Some [VInt (snd (fst r))] /\
       cell_at m' G_xrow (snd r) /\
       (forall b', (b' < length m)%nat -> b' <> bb -> b' <> be -> b' <> G_xrow -> nth_error m' b' = nth_error m b')).
Proof.
  intros Hs Hnn Hx Hbeg Hend Hb Hbl Hl Hln Hm Hlit Hdist Hxr Hlen He0 Hbig Hno Hf.
  pose proof (nonul_lt256 s Hnn) as H256.
  assert (Hlt : (bs < length m)%nat /\ (bb < length m)%nat /\ (be < length m)%nat /\ (bl < length m)%nat /\
                (G_xrow < length m)%nat /\ (G_bufs < length m)%nat).
  { unfold str_at, cell_at in *. repeat split; apply nth_error_Some; congruence. }
  destruct (region_full_total len (mark_of lblk) search0 s xrow (mark_of_0 lblk) ltac:(intros; unfold search0; cbn [snd]; lia)) as (r & Er).
  rewrite <- (region_full_ext len _ _ s xrow (lineno_nosearch len (mark_of lblk) search s Hno)) in Er.
  exists r. split; [exact Er|]. intro Hfit.
  destruct Hlt as (L1 & L2 & L3 & L4 & L5 & L6).
  destruct (region_body_ok m bs bb be bl s gbufs lblk len Hnn (conj L1 (conj L2 (conj L3 (conj L4 (conj L5 L6))))) Hdist Hlen
              (callf cprog fuel (S (S (S d))))
              (fun mm H => call_ex_lbuf mm gbufs bl (S (S d)) fuel H Hbl)
              (fun mm H => call_lbuf_len mm bl lblk len (S (S d)) fuel H Hln Hlen)
              search
              (fun mm i xr vb e n j R Hi Ixr El Fl =>
                 call_ex_lineno mm bs (length m) bl s i xr len gbufs lblk search d fuel n j
                   (ri_str _ _ _ _ _ _ _ _ _ _ _ _ _ R) H256 (ri_loc _ _ _ _ _ _ _ _ _ _ _ _ _ R) (ri_xrow _ _ _ _ _ _ _ _ _ _ _ _ _ R)
                   (ri_bufs _ _ _ _ _ _ _ _ _ _ _ _ _ R) Hbl (ri_lbuf _ _ _ _ _ _ _ _ _ _ _ _ _ R) Hln Hm
                   (conj (lt_ne _ _ L1) (conj (lt_ne _ _ L5) (conj (lt_ne _ _ L6) (lt_ne _ _ L4)))) Ixr Hlen Hno Hi Hf El Fl)
              xrow vb0 e0 Hs Hx Hbeg Hend Hb Hl Hlit Hxr He0 Hbig fuel r Er Hfit Hf) as (st' & i' & Ex & R & _).
  exists (memm st'). split.
  - rewrite callf_S. cbn [nth_error cprog F_ex_region]. change (fn_nparams cf_ex_region) with 3%nat. change (fn_nlocals cf_ex_region) with 6%nat.
    cbn [length Nat.eqb Nat.sub repeat app]. rewrite Ex. reflexivity.
  - destruct R as [A B C D E F G H]. repeat split; assumption.
Qed.

(* the same against CapDefs.ex_region itself (the text of C05_region_reads_safe): the model returns a value, so the model
   read no byte behind the terminator; the translated C text returns Ok, so neither did it *)
Theorem tr_ex_region_safe m bs bb be bl s xrow len gbufs lblk vb0 e0 search d fuel :
  str_at m bs s -> nonul s -> cell_at m G_xrow xrow ->
  nth_error m bb = Some [vb0] -> nth_error m be = Some [VInt e0] ->
  nth_error m G_bufs = Some gbufs -> nth_error gbufs BUFS_LB = Some (VPtr bl 0) ->
  nth_error m bl = Some lblk -> nth_error lblk L_ln_n = Some (VInt len) -> marks_ints lblk ->
  nth_error m G_lit_25_1 = Some gb_lit_25_1 -> rdist bs bb be bl ->
  int_ok xrow -> int_ok len -> int_ok e0 -> 2 * Z.of_nat (S (length s)) <= 2147483647 ->
  nosearch s -> (2 * S (length s) <= fuel)%nat ->
  exists reg xr, CapDefs.ex_region len (CapDefs.ex_lineno len (mark_of lblk) search) s xrow = CapDefs.Ok (reg, xr) /\
    (region_fit len (mark_of lblk) search s xrow ->
     exists m', callf cprog fuel (S (S (S (S d)))) F_ex_region [VPtr bs 0; VPtr bb 0; VPtr be 0] m
                = Ok (VInt (match reg with CapDefs.RFail => 1 | CapDefs.ROk _ _ => 0 end), m') /\
       match reg with
       | CapDefs.ROk b e => nth_error m' bb = Some [VInt b] /\ nth_error m' be = Some [VInt e]
       | CapDefs.RFail => True
       end /\ cell_at m' G_xrow xr).
Proof.
  intros Hs Hnn Hx Hbeg Hend Hb Hbl Hl Hln Hm Hlit Hdist Hxr Hlen He0 Hbig Hno Hf.
  destruct (tr_ex_region m bs bb be bl s xrow len gbufs lblk vb0 e0 search d fuel Hs Hnn Hx Hbeg Hend Hb Hbl Hl Hln Hm Hlit Hdist Hxr Hlen He0 Hbig Hno Hf)
    as ([[[bad b] e] xr] & Er & H).
  exists (if bad then CapDefs.RFail else CapDefs.ROk b e), xr. split.
  - rewrite region_proj, Er. reflexivity.
  - intro Hfit. destruct (H Hfit) as (m' & E & B & En & X & _). cbn [fst snd] in *. exists m'.
    destruct bad; cbn [b2z] in E; (split; [exact E|]); (split; [|exact X]); [exact I|split; assumption].
Qed.

(* ------------------------------------------------------------------ a memory to RUN the translated functions on *)
(* the program's globals with xrow set and bufs[0].lb pointing to a struct lbuf of `lines` lines without marks, then the
   address string, then beg (indeterminate) and end in blocks of their own *)
Definition lbuf_blk (lines : Z) : block :=
  repeat (VInt (-1)) 32 ++ repeat (VInt 0) 32 ++ [VInt 0; VInt 0; VInt lines] ++ repeat (VInt 0) 8.
Definition ex_mem (lines xrow : Z) (addr : list Z) : mem :=
  upd (upd cglobals G_xrow [VInt xrow]) G_bufs (upd gb_bufs BUFS_LB (VPtr (length cglobals) 0))
  ++ [lbuf_blk lines; cstr_block addr; [VUndef]; [VInt 0]].
(* ex_region(addr, &beg, &end): (value returned, *beg, *end, xrow) *)
Definition run_region (lines xrow : Z) (addr : list Z) : res (Z * Z * Z * Z) :=
  let bl := length cglobals in
  match callf cprog 100 10 F_ex_region [VPtr (S bl) 0; VPtr (S (S bl)) 0; VPtr (S (S (S bl))) 0] (ex_mem lines xrow addr) with
  | Ok (VInt r, m') =>
      match nth_error m' (S (S bl)), nth_error m' (S (S (S bl))), nth_error m' G_xrow with
      | Some [VInt b], Some [VInt e], Some [VInt x] => Ok (r, b, e, x)
      | _, _, _ => Err EShape
      end
  | Ok _ => Err EShape
  | Err x => Err x
  end.

(* ================================================================== searches, RELATIVE to the extern ex_search *)
(* cprog linked with a function ext in the place of the untranslated ex_search *)
Fixpoint callfx (ext : list val -> mem -> res (val * mem)) (fuel depth f : nat) (args : list val) (m : mem) : res (val * mem) :=
  match depth with
  | O => Err EFuel
  | S d =>
      if Nat.eqb f X_ex_search then ext args m else
      match nth_error cprog f with
      | None => Err EShape
      | Some fn =>
          if Nat.eqb (length args) (fn_nparams fn) then
            match exec (callfx ext fuel d) fuel (fn_body fn) (mkst (args ++ repeat VUndef (fn_nlocals fn - fn_nparams fn)) m) with
            | OReturn v st => Ok (v, memm st)
            | ONormal st => Ok (VUndef, memm st)
            | OErr x => Err x
            | _ => Err EShape
            end
          else Err EShape
      end
  end.
Lemma callfx_S ext fuel d f args m : Nat.eqb f X_ex_search = false ->
  callfx ext fuel (S d) f args m =
  match nth_error cprog f with
  | None => Err EShape
  | Some fn =>
      if Nat.eqb (length args) (fn_nparams fn) then
        match exec (callfx ext fuel d) fuel (fn_body fn) (mkst (args ++ repeat VUndef (fn_nlocals fn - fn_nparams fn)) m) with
        | OReturn v st => Ok (v, memm st)
        | ONormal st => Ok (VUndef, memm st)
        | OErr x => Err x
        | _ => Err EShape
        end
      else Err EShape
  end.
Proof. intro H. cbn [callfx]. rewrite H. reflexivity. Qed.
Lemma callfx_ext ext fuel d args m : callfx ext fuel (S d) X_ex_search args m = ext args m.
Proof. cbn [callfx]. rewrite Nat.eqb_refl. reflexivity. Qed.

(* the bodies of markidx and lbuf_jump for any `call` (the proofs of TrLbufMarks.tr_markidx / tr_lbuf_jump, which are stated for callf cprog) *)
Lemma body_markidx call fuel mm c : -1 <= c <= 255 ->
  exec call fuel (fn_body cf_markidx) (mkst [VInt c] mm) = OReturn (VInt (CapDefs2.markidx c)) (mkst [VInt c] mm).
Proof.
  intro Hc. cbn [cf_markidx fn_body]. xstep. cbn [do_builtin_m do_builtin]. unfold ct_arg.
  destruct (Z.leb_spec (-1) c); [|lia]. destruct (Z.leb_spec c 255); [|lia]. cbn [andb bind]. xstep.
  unfold CapDefs2.markidx, CapDefs2.z_islower, ct_islower, GenCap.markidx_lower_base, GenCap.markidx_special. cbn [find fst snd].
  destruct ((97 <=? c) && (c <=? 122)) eqn:E1.
  - xstep. rewrite chk_I32 by lia. reflexivity.
  - xstep.
    repeat (match goal with |- context [c =? ?k] => rewrite (Z.eqb_sym c k); destruct (k =? c) eqn:? end; xstep; try reflexivity).
Qed.
Lemma body_lbuf_jump call fuel mm bl lblk c bp pblk : nth_error mm bl = Some lblk -> marks_ints lblk -> (c < 256)%N -> bp <> bl ->
  nth_error mm bp = Some pblk -> (0 < length pblk)%nat ->
  (forall mm', call F_markidx [VInt (Z.of_N c)] mm' = Ok (VInt (CapDefs2.markidx (Z.of_N c)), mm')) ->
  exists st, exec call fuel (fn_body cf_lbuf_jump) (mkst [VPtr bl 0; VInt (Z.of_N c); VPtr bp 0; VInt 0; VUndef] mm)
             = match mark_of lblk c with
               | None => OReturn (VInt 1) (mkst (locals st) mm)
               | Some row => OReturn (VInt 0) (mkst (locals st) (upd mm bp (upd pblk 0 (VInt row))))
               end.
Proof.
  intros Hb Hints Hc Hbp Hp Hl Hmk. set (k := CapDefs2.markidx (Z.of_N c)). pose proof (markidx_range (Z.of_N c) ltac:(lia)) as Hk. fold k in Hk.
  cbn [cf_lbuf_jump fn_body]. xstep. rewrite Hmk. fold k. xstep. unfold mark_of. cbv zeta. fold k.
  destruct (Z.ltb_spec k 0) as [K|K]; xstep; [eexists (mkst _ mm); reflexivity|].
  destruct (Hints (Z.to_nat k) ltac:(lia)) as (zr & Hzr & Ir).
  assert (Er : cellz lblk (Z.to_nat k) = zr) by (unfold cellz; rewrite Hzr; reflexivity). rewrite Er.
  replace (0 + 1 * k) with k by lia.
  rewrite (fld_load mm bl lblk (Z.to_nat k) _ k Hb Hzr) by lia. xstep. rewrite (wrap_I32_id _ Ir).
  destruct (Z.ltb_spec zr 0) as [R|R]; xstep; [eexists (mkst _ mm); reflexivity|].
  replace (0 + 1 * k) with k by lia.
  rewrite (fld_load mm bl lblk (Z.to_nat k) _ k Hb Hzr) by lia. xstep. rewrite (wrap_I32_id _ Ir).
  rewrite (store_ok mm bp pblk 0 _ Hp) by lia. xstep. rewrite (wrap_I32_id zr Ir).
  eexists (mkst _ mm). reflexivity.
Qed.

Lemma callfx_ex_lbuf ext mm gbufs bl d fuel : nth_error mm G_bufs = Some gbufs -> nth_error gbufs BUFS_LB = Some (VPtr bl 0) ->
  callfx ext fuel (S d) F_ex_lbuf [] mm = Ok (VPtr bl 0, mm).
Proof.
  intros Hb Hc. rewrite callfx_S by reflexivity. cbn [nth_error cprog F_ex_lbuf cf_ex_lbuf fn_nparams fn_nlocals length Nat.eqb Nat.sub repeat app].
  fold (fn_body cf_ex_lbuf). rewrite (body_ex_lbuf _ _ mm gbufs bl Hb Hc). reflexivity.
Qed.
Lemma callfx_lbuf_len ext mm bl lblk len d fuel : nth_error mm bl = Some lblk -> nth_error lblk L_ln_n = Some (VInt len) -> int_ok len ->
  callfx ext fuel (S d) F_lbuf_len [VPtr bl 0] mm = Ok (VInt len, mm).
Proof.
  intros Hb Hc Hi. rewrite callfx_S by reflexivity. cbn [nth_error cprog F_lbuf_len cf_lbuf_len fn_nparams fn_nlocals length Nat.eqb Nat.sub repeat app].
  fold (fn_body cf_lbuf_len). rewrite (body_lbuf_len _ _ mm bl lblk len Hb Hc Hi). reflexivity.
Qed.
Lemma callfx_markidx ext mm c d fuel : -1 <= c <= 255 -> callfx ext fuel (S d) F_markidx [VInt c] mm = Ok (VInt (CapDefs2.markidx c), mm).
Proof.
  intro Hc. rewrite callfx_S by reflexivity. cbn [nth_error cprog F_markidx]. change (fn_nparams cf_markidx) with 1%nat. change (fn_nlocals cf_markidx) with 1%nat.
  cbn [length Nat.eqb Nat.sub repeat app]. rewrite (body_markidx _ _ mm c Hc). reflexivity.
Qed.
Lemma callfx_lbuf_jump ext mm bl lblk c bp pblk d fuel : nth_error mm bl = Some lblk -> marks_ints lblk -> (c < 256)%N -> bp <> bl ->
  nth_error mm bp = Some pblk -> (0 < length pblk)%nat ->
  callfx ext fuel (S (S d)) F_lbuf_jump [VPtr bl 0; VInt (Z.of_N c); VPtr bp 0; VInt 0] mm
  = match mark_of lblk c with None => Ok (VInt 1, mm) | Some row => Ok (VInt 0, upd mm bp (upd pblk 0 (VInt row))) end.
Proof.
  intros Hb Hm Hc Hne Hp Hl. rewrite callfx_S by reflexivity. cbn [nth_error cprog F_lbuf_jump].
  change (fn_nparams cf_lbuf_jump) with 4%nat. change (fn_nlocals cf_lbuf_jump) with 5%nat. cbn [length Nat.eqb Nat.sub repeat app].
  destruct (body_lbuf_jump (callfx ext fuel (S d)) fuel mm bl lblk c bp pblk Hb Hm Hc Hne Hp Hl
              (fun mm' => callfx_markidx ext mm' (Z.of_N c) d fuel ltac:(lia))) as (st & E).
  rewrite E. destruct (mark_of lblk c); reflexivity.
Qed.

(* what is assumed of ext, the function in the place of ex_search: called with pat = &p, p at position i of s, it returns the
   row the oracle gives (or -1), moves p to the position the oracle gives and changes nothing else; the oracle stays inside s *)
Definition search_ext (ext : list val -> mem -> res (val * mem)) (search : Z -> bytes -> nat -> option Z * nat) (bs bn : nat) (s : bytes) : Prop :=
  (forall mm i xr, str_at mm bs s -> nth_error mm bn = Some [VPtr bs (Z.of_nat i)] -> cell_at mm G_xrow xr -> (i < length s)%nat ->
     ext [VPtr bn 0] mm = Ok (VInt (sres (fst (search xr s i))), upd mm bn [VPtr bs (Z.of_nat (snd (search xr s i)))])) /\
  (forall xr i, (i < length s)%nat -> (i <= snd (search xr s i))%nat /\ (snd (search xr s i) <= length s)%nat).

Lemma callx_ex_lineno ext m bs bn bl s i xrow len gbufs lblk search d fuel n j :
  str_at m bs s -> bytes_lt256 s -> nth_error m bn = Some [VPtr bs (Z.of_nat i)] -> cell_at m G_xrow xrow ->
  nth_error m G_bufs = Some gbufs -> nth_error gbufs BUFS_LB = Some (VPtr bl 0) ->
  nth_error m bl = Some lblk -> nth_error lblk L_ln_n = Some (VInt len) -> marks_ints lblk ->
  bs <> bn /\ G_xrow <> bn /\ G_bufs <> bn /\ bl <> bn -> int_ok xrow -> int_ok len ->
  search_ext ext search bs bn s -> (i <= length s)%nat -> (2 * S (length s) <= fuel)%nat ->
  CapDefs.ex_lineno len (mark_of lblk) search xrow s i = CapDefs.Ok (n, j) -> lineno_fit len (mark_of lblk) search xrow s i ->
  exists j' nb, callfx ext fuel (S (S (S d))) F_ex_lineno [VPtr bn 0] m
                = Ok (VInt n, upd m bn [VPtr bs (Z.of_nat j')] ++ [[VInt nb]]) /\
                (j' = j \/ n = -2) /\ (i <= j')%nat /\ (j' <= length s)%nat /\ int_ok n.
Proof.
  intros Hs H256 Hn Hx Hb Hbl Hl Hln Hm Hne Hxr Hlen [Hext Hin] Hi Hf E Hfit.
  destruct (lineno_body_ok m bs bn bl s i xrow len gbufs lblk Hs H256 Hn Hx Hb Hl Hne Hxr Hm (callfx ext fuel (S (S d)))
              (fun mm H => callfx_ex_lbuf ext mm gbufs bl (S d) fuel H Hbl)
              (fun mm H => callfx_lbuf_len ext mm bl lblk len (S d) fuel H Hln Hlen)
              (fun mm c bp pblk H1 H2 H3 H4 H5 => callfx_lbuf_jump ext mm bl lblk c bp pblk d fuel H1 Hm H2 H3 H4 H5)
              search
              (or_intror (conj
                 (fun i' n' Hi' => eq_trans (callfx_ext ext fuel (S d) _ _)
                    (eq_trans (Hext (MM m bs bn i' n') i' xrow (MM_str m bs bn bl s i Hs Hn Hne i' n') (MM_num m bs bn i Hn i' n')
                                 (MM_other m bs bn i Hn i' n' G_xrow _ (proj1 (proj2 Hne)) Hx) Hi')
                              (f_equal (fun mm => Ok (VInt (sres (fst (search xrow s i'))), mm)) (updMM_num m bs bn i Hn i' n' _))))
                 (Hin xrow)))
              fuel n j Hi E Hfit Hf) as (j' & nb & Ex & R).
  exists j', nb. split; [|exact R].
  rewrite callfx_S by reflexivity. cbn [nth_error cprog F_ex_lineno]. change (fn_nparams cf_ex_lineno) with 1%nat. change (fn_nlocals cf_ex_lineno) with 2%nat.
  cbn [length Nat.eqb Nat.sub repeat app]. rewrite Ex. reflexivity.
Qed.

(* ex_lineno and ex_region with searches, RELATIVE to ext: the statements of tr_ex_lineno / tr_ex_region for every address
   string, about cprog linked with any ext that satisfies search_ext *)
Theorem tr_ex_lineno_rel ext m bs bn bl s i xrow len gbufs lblk search d fuel :
  str_at m bs s -> bytes_lt256 s -> nth_error m bn = Some [VPtr bs (Z.of_nat i)] -> cell_at m G_xrow xrow ->
  nth_error m G_bufs = Some gbufs -> nth_error gbufs BUFS_LB = Some (VPtr bl 0) ->
  nth_error m bl = Some lblk -> nth_error lblk L_ln_n = Some (VInt len) -> marks_ints lblk ->
  bs <> bn /\ G_xrow <> bn /\ G_bufs <> bn /\ bl <> bn -> int_ok xrow -> int_ok len ->
  search_ext ext search bs bn s -> (i <= length s)%nat -> (2 * S (length s) <= fuel)%nat ->
  exists n j, CapDefs.ex_lineno len (mark_of lblk) search xrow s i = CapDefs.Ok (n, j) /\ (i <= j)%nat /\ (j <= length s)%nat /\
    (lineno_fit len (mark_of lblk) search xrow s i ->
     exists j' nb, callfx ext fuel (S (S (S d))) F_ex_lineno [VPtr bn 0] m
                   = Ok (VInt n, upd m bn [VPtr bs (Z.of_nat j')] ++ [[VInt nb]]) /\
                   (j' = j \/ n = -2) /\ (i <= j')%nat /\ (j' <= length s)%nat /\ int_ok n).
Proof.
  intros Hs H256 Hn Hx Hb Hbl Hl Hln Hm Hne Hxr Hlen Hext Hi Hf.
  (* an oracle that agrees with search on s and stays inside every string *)
  set (search1 := fun xr (t : bytes) k => if CapDefs.bytes_eqb t s then search xr t k else (@None Z, k)).
  assert (Hm1 : forall xr k, CapDefs.ex_lineno len (mark_of lblk) search xr s k = CapDefs.ex_lineno len (mark_of lblk) search1 xr s k)
    by (intros; unfold CapDefs.ex_lineno, search1; rewrite (cap_bytes_eqb_refl s); reflexivity).
  destruct (CapProps.ex_lineno_ok len (mark_of lblk) search1 (mark_of_0 lblk)
              ltac:(intros xr t k Hk; unfold search1; destruct (CapDefs.bytes_eqb t s) eqn:E; [apply cap_bytes_eqb_eq in E; subst t; apply (proj2 Hext); exact Hk|cbn [snd]; lia])
              xrow s i Hi) as (n & j & E & L1 & L2).
  rewrite <- Hm1 in E. exists n, j. split; [exact E|]. split; [exact L1|]. split; [exact L2|]. intro Hfit.
  exact (callx_ex_lineno ext m bs bn bl s i xrow len gbufs lblk search d fuel n j Hs H256 Hn Hx Hb Hbl Hl Hln Hm Hne Hxr Hlen Hext Hi Hf E Hfit).
Qed.

Theorem tr_ex_region_rel ext m bs bb be bl s xrow len gbufs lblk vb0 e0 search d fuel :
  str_at m bs s -> nonul s -> cell_at m G_xrow xrow ->
  nth_error m bb = Some [vb0] -> nth_error m be = Some [VInt e0] ->
  nth_error m G_bufs = Some gbufs -> nth_error gbufs BUFS_LB = Some (VPtr bl 0) ->
  nth_error m bl = Some lblk -> nth_error lblk L_ln_n = Some (VInt len) -> marks_ints lblk ->
  nth_error m G_lit_25_1 = Some gb_lit_25_1 -> rdist bs bb be bl ->
  int_ok xrow -> int_ok len -> int_ok e0 -> 2 * Z.of_nat (S (length s)) <= 2147483647 ->
  search_ext ext search bs (length m) s -> (2 * S (length s) <= fuel)%nat ->
  exists r, region_full len (CapDefs.ex_lineno len (mark_of lblk) search) s xrow = CapDefs.Ok r /\
    (region_fit len (mark_of lblk) search s xrow ->
     exists m', callfx ext fuel (S (S (S (S d)))) F_ex_region [VPtr bs 0; VPtr bb 0; VPtr be 0] m
                = Ok (VInt (b2z (fst (fst (fst r)))), m') /\
       nth_error m' bb = Some [VInt (snd (fst (fst r)))] /\ nth_error m' be = Some [VInt (snd (fst r))] /\
       cell_at m' G_xrow (snd r) /\
       (forall b', (b' < length m)%nat -> b' <> bb -> b' <> be -> b' <> G_xrow -> nth_error m' b' = nth_error m b')).
Proof.
  intros Hs Hnn Hx Hbeg Hend Hb Hbl Hl Hln Hm Hlit Hdist Hxr Hlen He0 Hbig Hext Hf.
  pose proof (nonul_lt256 s Hnn) as H256.
  assert (Hlt : (bs < length m)%nat /\ (bb < length m)%nat /\ (be < length m)%nat /\ (bl < length m)%nat /\
                (G_xrow < length m)%nat /\ (G_bufs < length m)%nat).
  { unfold str_at, cell_at in *. repeat split; apply nth_error_Some; congruence. }
  destruct (region_full_total len (mark_of lblk) search s xrow (mark_of_0 lblk) (proj2 Hext)) as (r & Er).
  exists r. split; [exact Er|]. intro Hfit.
  destruct Hlt as (L1 & L2 & L3 & L4 & L5 & L6).
  destruct (region_body_ok m bs bb be bl s gbufs lblk len Hnn (conj L1 (conj L2 (conj L3 (conj L4 (conj L5 L6))))) Hdist Hlen
              (callfx ext fuel (S (S (S d))))
              (fun mm H => callfx_ex_lbuf ext mm gbufs bl (S (S d)) fuel H Hbl)
              (fun mm H => callfx_lbuf_len ext mm bl lblk len (S (S d)) fuel H Hln Hlen)
              search
              (fun mm i xr vb e n j R Hi Ixr El Fl =>
                 callx_ex_lineno ext mm bs (length m) bl s i xr len gbufs lblk search d fuel n j
                   (ri_str _ _ _ _ _ _ _ _ _ _ _ _ _ R) H256 (ri_loc _ _ _ _ _ _ _ _ _ _ _ _ _ R) (ri_xrow _ _ _ _ _ _ _ _ _ _ _ _ _ R)
                   (ri_bufs _ _ _ _ _ _ _ _ _ _ _ _ _ R) Hbl (ri_lbuf _ _ _ _ _ _ _ _ _ _ _ _ _ R) Hln Hm
                   (conj (lt_ne _ _ L1) (conj (lt_ne _ _ L5) (conj (lt_ne _ _ L6) (lt_ne _ _ L4)))) Ixr Hlen Hext Hi Hf El Fl)
              xrow vb0 e0 Hs Hx Hbeg Hend Hb Hl Hlit Hxr He0 Hbig fuel r Er Hfit Hf) as (st' & i' & Ex & R & _).
  exists (memm st'). split.
  - rewrite callfx_S by reflexivity. cbn [nth_error cprog F_ex_region]. change (fn_nparams cf_ex_region) with 3%nat. change (fn_nlocals cf_ex_region) with 6%nat.
    cbn [length Nat.eqb Nat.sub repeat app]. rewrite Ex. reflexivity.
  - destruct R as [A B C D E F G H]. repeat split; assumption.
Qed.
