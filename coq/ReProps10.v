(* ReProps10.v -- C11_terminates at the level of regexec: on the program of every accepted pattern and
   every NUL-free line the start-position loop finishes within its fuel |line|+2 (every step advances
   by uc_len >= 1 until the terminator) and no attempt runs out of fuel. *)
From Coq Require Import List Arith Lia Bool ZArith NArith ZifyN ZifyBool ZifyNat.
From NV Require Import Bytes GenConsts ReSyntax ReParse ReEmit ReVM ReSem RsetDefs ReProps ReProps2 ReProps3 ReProps5 ReProps6 ReProps7.
Import ListNotations.

Lemma rdk_val w s k b : rdk w s k = Ok b -> b = nthb s k /\ k <= length s.
Proof.
  unfold rdk, nthb. destruct (nth_error s k) eqn:E.
  - intro H; inversion H; subst. split; [symmetry; apply nth_error_nth; exact E|]. assert (k < length s) by (apply nth_error_Some; congruence). lia.
  - destruct (Nat.eqb k (length s)) eqn:Q; [|discriminate]. intro H; inversion H; subst. apply Nat.eqb_eq in Q. subst k.
    split; [rewrite nth_overflow by lia; reflexivity | lia].
Qed.
Lemma nz_nthb s k : nz s -> k < length s -> nthb s k <> 0%N.
Proof. intros H Hk. unfold nz in H. rewrite Forall_forall in H. apply H. unfold nthb. apply nth_In. exact Hk. Qed.

Section Loop.
Variable d : nat.
Variable P : list instr.
Variable flg : Z.
Variable line : bytes.
Hypothesis Hz : nz line.
Hypothesis Hrec : forall s, fst (rec st (atom_step flg line) mark_step P d 0 s) <> Abort.

Lemma re_loop_nf : forall k o s, o <= length line -> s <= length line ->
  (o = length line -> 1 <= k) -> (o < length line -> length line - s + 2 <= k) ->
  fst (re_loop d P flg line k o s) <> NoFuel.
Proof.
  induction k as [|k IH]; intros o s Ho Hs K1 K2.
  { exfalso. destruct (Nat.eq_dec o (length line)); [specialize (K1 e); lia | specialize (K2 ltac:(lia)); lia]. }
  cbn [re_loop].
  destruct (rdk_in SUcLen line o Ho) as [co Ro]. rewrite Ro. destruct (rdk_val _ _ _ _ Ro) as [Eco _].
  destruct (co =? 0)%N eqn:Z0; [cbn; discriminate|].
  assert (Holt : o < length line). { destruct (Nat.eq_dec o (length line)) as [->|]; [|lia]. rewrite nthb_beyond in Eco by lia. subst co. discriminate. }
  specialize (K2 Holt).
  destruct (rdk_in SUcLen line s Hs) as [cs Rs]. rewrite Rs.
  unfold re_recmatch. pose proof (Hrec (s, repeat (-1)%Z nmarks)) as HA.
  destruct (rec st (atom_step flg line) mark_step P d 0 (s, repeat (-1)%Z nmarks)) as [[cs1 r1| | |w] c1]; cbn [fst] in *; try (cbn; discriminate); try congruence.
  assert (Hs' : s + re_uclen_at line s <= length line).
  { unfold re_uclen_at. pose proof (re_uclen_le (skipn s line)). rewrite skipn_length in H. lia. }
  specialize (IH s (s + re_uclen_at line s) Hs Hs').
  destruct (re_loop d P flg line k s (s + re_uclen_at line s)) as [x c'] eqn:L. cbn [fst] in *. apply IH.
  - intro. lia.
  - intro Hlt. assert (1 <= re_uclen_at line s). { unfold re_uclen_at. apply re_uclen_pos. rewrite hd0_skipn. apply nz_nthb; assumption. } lia.
Qed.
End Loop.

Theorem regexec_terminates pat p cflg line nsub eflg d : regcomp pat = Ok (Some p) -> nz line ->
  fst (regexec_d d p cflg line nsub eflg) <> NoFuel.
Proof.
  intros Hc Hz. unfold regexec_d.
  assert (Hrec : forall s, fst (rec st (atom_step (Z.lor cflg eflg) line) mark_step (code p) d 0 s) <> Abort).
  { intro s. apply (terminates pat p (Z.lor cflg eflg) line Hc). destruct (regcomp_prog_wf _ _ Hc) as (_ & L & _). exact L. }
  pose proof (re_loop_nf d (code p) (Z.lor cflg eflg) line Hz Hrec (length line + 2) 0 0 ltac:(lia) ltac:(lia) ltac:(lia) ltac:(lia)) as H.
  destruct (re_loop d (code p) (Z.lor cflg eflg) line (length line + 2) 0 0) as [[[r|]| |] c]; cbn [fst] in *; try discriminate. congruence.
Qed.
