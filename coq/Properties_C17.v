(* Properties_C17.v -- C17: screen-column layout is a gap-free tiling; the cursor/column mapping
   round-trips.  Statements only; every proof is `exact <lemma>`; Print Assumptions under each.
   Model: RenDefs.v (ren.c and the width classes of uc.c over the GENERATED tables).  The
   reordering function of dir.c is the parameter `dr`; "ord is a permutation" is the hypothesis
   dr_perm, discharged for the model of dir.c by C18_permutation. *)
From Coq Require Import List NArith ZArith Bool Permutation.
From NV Require Import Bytes UcDefs UcSpec GenUcTables GenConf GenConsts DirDefs RenDefs RenProps.
Import ListNotations.
Local Open Scope Z_scope.

(* find() of uc.c: bisection over a sorted table of disjoint ranges is membership (never out of fuel) *)
Theorem C17_find_is_membership : forall tab c, sorted tab -> tfind c tab = Some (mem tab c).
Proof. exact tfind_is_membership. Qed.
Print Assumptions C17_find_is_membership.

(* the generated tables are sorted and disjoint, and the thresholds tested before the bisection
   lie below their first rows -- recomputed from what uc.c says now *)
Theorem C17_tables_sorted : sorted dwchars /\ sorted zwchars /\ sorted bchars /\
  dw_min <= fst (nthp dwchars 0) /\ zw_min <= fst (nthp zwchars 0).
Proof. exact tables_sorted. Qed.
Print Assumptions C17_tables_sorted.

(* so the width class of every code point is the one its tables list *)
Theorem C17_width_class : forall s,
  (forall c, uc_isdw c = mem dwchars c) /\ (forall c, uc_iszw c = mem zwchars c) /\
  uc_wid s = (let c := Z.of_N (uc_code s) in if mem zwchars c then 0 else if mem dwchars c then 2 else 1) /\
  uc_isbell s = (if plain_ascii (hd0 s) then false else let c := Z.of_N (uc_code s) in mem zwchars c || mem bchars c).
Proof. exact width_class. Qed.
Print Assumptions C17_width_class.

(* ... and it cannot change between two consecutive bounds (a, b + 1 of the rows) of the four tables: this is
   what lets the correspondence run print the model's width classes as runs, evaluating the extracted
   functions at the ends of every piece between two bounds instead of at each of the 1 114 111 code points
   (the implementation is still evaluated at every code point) *)
Theorem C17_width_class_runs : forall c c', c <= c' ->
  (forall x, In x class_bounds -> ~ (c < x <= c')) ->
  uc_isdw c = uc_isdw c' /\ uc_iszw c = uc_iszw c' /\ tfind c bchars = tfind c' bchars /\ uc_acomb c = uc_acomb c' /\
  forall s s', Z.of_N (uc_code s) = c -> Z.of_N (uc_code s') = c' -> plain_ascii (hd0 s) = plain_ascii (hd0 s') ->
    uc_wid s = uc_wid s' /\ uc_isbell s = uc_isbell s'.
Proof. exact width_class_const. Qed.
Print Assumptions C17_width_class_runs.

(* every character occupies between 1 and 8 cells (a zero-width character is drawn as a one-cell
   placeholder; every configured placeholder is at least one cell wide) *)
Theorem C17_cwid_range : forall s p, 0 <= p -> 1 <= ren_cwid s p <= 8.
Proof. exact ren_cwid_range. Qed.
Print Assumptions C17_cwid_range.

(* a tab reaches the next multiple of 8; any other character has the declared width of its
   placeholder, else two cells if the tables list it as wide, else one *)
Theorem C17_cwid_class : forall s p,
  (0 <= p -> hd0 s = 9%N -> (p + ren_cwid s p) mod 8 = 0 /\ 1 <= ren_cwid s p <= 8) /\
  (hd0 s <> 9%N ->
     ren_cwid s p = match ren_placeholder s with
                    | (Some _, w) => w
                    | (None, _) => if mem dwchars (Z.of_N (uc_code s)) then 2 else 1
                    end
     /\ (fst (ren_placeholder s) = None -> uc_isbell s = false)).
Proof. exact cwid_class. Qed.
Print Assumptions C17_cwid_class.

(* tiling: the column table has n + 1 entries; taking the characters in visual order (a
   permutation of 0..n-1: the logical order on the fast path, the inverse of ord on the
   reordering path) each one starts where the previous one ended, the first in column 0, and
   pos[n] is where the last one ends *)
Theorem C17_tiling : forall dr o,
  (forall s, Permutation (dr s (seq 0 (uc_slen s))) (seq 0 (uc_slen s))) ->
  forall s,
  let n := uc_slen s in
  let pos := ren_position dr o s in
  length pos = S n /\
  Permutation (vis_order dr o s) (seq 0 n) /\
  tiles (fun j c => ren_cwid (chr_of o s j) c) pos (vis_order dr o s) 0 (nth n pos 0) /\
  (use_reorder o s = false -> vis_order dr o s = seq 0 n) /\
  (use_reorder o s = true -> forall i, (i < n)%nat -> nth (nth i (the_ord dr o s) 0%nat) (vis_order dr o s) 0%nat = i).
Proof. exact ren_tiling. Qed.
Print Assumptions C17_tiling.

(* round trip: offset -> column -> offset is the identity for every character; column -> offset
   gives the character whose cells contain the column *)
Theorem C17_roundtrip : forall dr o,
  (forall s, Permutation (dr s (seq 0 (uc_slen s))) (seq 0 (uc_slen s))) ->
  forall s,
  (forall off, 0 <= off < Z.of_nat (uc_slen s) -> Z.of_nat (ren_off dr o s (ren_pos dr o s off)) = off) /\
  (forall p, 0 <= p -> (0 < uc_slen s)%nat ->
     let k := ren_off dr o s p in
     (k < uc_slen s)%nat /\ ren_pos dr o s (Z.of_nat k) <= p /\
     (p < ren_wid dr o s -> p < ren_pos dr o s (Z.of_nat k) + ren_cwid (chr_of o s k) (ren_pos dr o s (Z.of_nat k)))).
Proof. exact roundtrip. Qed.
Print Assumptions C17_roundtrip.

(* moving right (left) from column p goes to the start of the character displayed immediately to
   the right (left) of the character at p, and yields -1 at the line ends and before the terminator *)
Theorem C17_next : forall dr o,
  (forall s, Permutation (dr s (seq 0 (uc_slen s))) (seq 0 (uc_slen s))) ->
  forall s p l1 l2, 0 <= p -> (0 < uc_slen s)%nat ->
  vis_order dr o s = l1 ++ ren_off dr o s p :: l2 ->
  ren_next dr o s p 1 = match l2 with
                        | [] => -1
                        | j2 :: _ => if is_nl s j2 then -1 else ren_pos dr o s (Z.of_nat j2)
                        end /\
  ren_next dr o s p (-1) = match rev l1 with
                           | [] => -1
                           | j1 :: _ => if is_nl s j1 then -1 else ren_pos dr o s (Z.of_nat j1)
                           end.
Proof. exact ren_next_spec. Qed.
Print Assumptions C17_next.

(* the cursor column of the character at p (other than the terminator) is its last cell *)
Theorem C17_cursor : forall dr o,
  (forall s, Permutation (dr s (seq 0 (uc_slen s))) (seq 0 (uc_slen s))) ->
  forall s p, 0 <= p -> (0 < uc_slen s)%nat ->
  let k := ren_off dr o s p in
  (uc_code (chr_suffix s k) =? 10)%N = false ->
  ren_cursor dr o s p = ren_pos dr o s (Z.of_nat k) + ren_cwid (chr_of o s k) (ren_pos dr o s (Z.of_nat k)) - 1.
Proof. exact ren_cursor_spec. Qed.
Print Assumptions C17_cursor.

(* on valid UTF-8 the characters of both paths of ren_position are the code points of the line (C16),
   so the tiling, round-trip and neighbour theorems speak about the line's characters *)
Theorem C17_chars_valid : forall o cs j, Forall scalar cs -> (j <= length cs)%nat ->
  chr_of o (chars cs) j = chars (skipn j cs).
Proof. exact chr_of_valid. Qed.
Print Assumptions C17_chars_valid.

(* the hypothesis is satisfiable (no reordering), and the functions compute: "a<TAB>中b" *)
Example C17_nonvacuous :
  (forall s, Permutation ((fun _ ord => ord) s (seq 0 (uc_slen s))) (seq 0 (uc_slen s))) /\
  ren_position (fun _ ord => ord) {| xorder := 2; xlim := 256 |} [97; 9; 228; 184; 173; 98]%N = [0; 1; 8; 10; 11] /\
  (* a piece without a table bound: U+4E00..U+4E10 *)
  forallb (fun x => negb ((19968 <? x) && (x <=? 19984))) class_bounds = true.
Proof. split; [intro s; apply Permutation_refl | split; vm_compute; reflexivity]. Qed.

(* ---------------------------------------------------------------------------------------------
   THE WIDTH-CLASS MODEL IS THE C TEXT.  GenCFuncs.v is regenerated from /repo's uc.c by
   tools/c2clite.py on every run (functions as terms of the deep embedding CLite.v, the range
   tables from their initializers); for every input, running the translated find(), uc_isdw(),
   uc_iszw(), uc_acomb(), uc_wid() and uc_isbell() returns the value of the model RenDefs.v that the
   theorems above speak about, with every table access inside its table. *)
From NV Require Import CLite CLiteProps GenCFuncs CLiteTac TrUcCode TrUcTab.

(* the bisection, for ANY table in memory (not only the three of uc.c) *)
Theorem C17_tr_find : forall m g tab c r d fuel,
  nth_error m g = Some (tab_block tab) -> tab_ok tab -> int_ok c ->
  (1 <= length tab)%nat -> Z.of_nat (length tab) <= 1073741823 -> (length tab < fuel)%nat ->
  tfind c tab = Some r ->
  callf cprog fuel (S d) F_find [VInt c; VPtr g 0; VInt (Z.of_nat (length tab))] m = Ok (VInt (b2z r), m).
Proof. exact tr_find. Qed.
Print Assumptions C17_tr_find.

(* the tables c2clite.py read from the initializers are the ones translate.py dumped by running the C compiler *)
Theorem C17_tr_tables : gb_dwchars = tab_block dwchars /\ gb_zwchars = tab_block zwchars /\ gb_bchars = tab_block bchars.
Proof. exact (conj gb_dwchars_eq (conj gb_zwchars_eq gb_bchars_eq)). Qed.
Print Assumptions C17_tr_tables.

Theorem C17_tr_width_class : forall m c d fuel, globals_at m -> int_ok c -> (fuel_tabs <= fuel)%nat ->
  callf cprog fuel (S (S d)) F_uc_isdw [VInt c] m = Ok (VInt (b2z (uc_isdw c)), m) /\
  callf cprog fuel (S (S d)) F_uc_iszw [VInt c] m = Ok (VInt (b2z (uc_iszw c)), m) /\
  callf cprog fuel (S d) F_uc_acomb [VInt c] m = Ok (VInt (b2z (uc_acomb c)), m).
Proof. exact tr_width_class. Qed.
Print Assumptions C17_tr_width_class.

(* on a string in memory: decode, then classify (the decode reads only inside the string + terminator) *)
Theorem C17_tr_uc_wid : forall m b s o d fuel, globals_at m ->
  str_at m b s -> bytes_lt256 s -> (o + uc_len_b (nthb s o) - 1 <= length s)%nat -> (o <= length s)%nat ->
  (fuel_tabs <= fuel)%nat ->
  callf cprog fuel (S (S (S d))) F_uc_wid [VPtr b (Z.of_nat o)] m = Ok (VInt (uc_wid (skipn o s)), m).
Proof. exact tr_uc_wid. Qed.
Print Assumptions C17_tr_uc_wid.

Theorem C17_tr_uc_isbell : forall m b s o d fuel, globals_at m ->
  str_at m b s -> bytes_lt256 s -> (o + uc_len_b (nthb s o) - 1 <= length s)%nat -> (o <= length s)%nat ->
  (fuel_tabs <= fuel)%nat ->
  callf cprog fuel (S (S (S d))) F_uc_isbell [VPtr b (Z.of_nat o)] m = Ok (VInt (b2z (uc_isbell (skipn o s))), m).
Proof. exact tr_uc_isbell. Qed.
Print Assumptions C17_tr_uc_isbell.

Example C17_tr_nonvacuous :
  let s := [228; 184; 150; 97]%N in            (* U+4E16 (wide) and a *)
  let m := cglobals ++ [cstr_block (zb s)] in
  globals_at m /\ str_at m (length cglobals) s /\
  callf cprog 500 6 F_uc_wid [VPtr (length cglobals) 0] m = Ok (VInt 2, m) /\
  callf cprog 500 6 F_uc_wid [VPtr (length cglobals) 3] m = Ok (VInt 1, m) /\
  callf cprog 500 6 F_uc_isbell [VPtr (length cglobals) 0] m = Ok (VInt 0, m).
Proof.
  cbv zeta. split; [intros g blk H; rewrite nth_error_app1; [exact H|apply nth_error_Some; congruence]|].
  split; [reflexivity|]. vm_compute. repeat split; reflexivity.
Qed.

(* ---------------------------------------------------------------------------------------------
   THE NEIGHBOUR SEARCH OVER THE COLUMN ARRAY IS THE C TEXT.  pos_next / pos_prev of ren.c (the two
   static functions ren_off, ren_cursor and ren_next are built from; RenDefs.pos_next / pos_prev are what
   C17_roundtrip, C17_next and C17_cursor speak about) are translated by tools/c2clite.py on every run.
   For EVERY int array in memory (l, at least n entries -- ren_position allocates n + 1), every p and cur:
   the call returns the value of the model, the memory is unchanged, and every load is inside the
   array.  next_ok / prev_ok is what the C text needs for `pos[i] - !cur` / `pos[i] + !cur` to stay inside
   int (columns are never INT_MIN / INT_MAX; without it the C expression is undefined, see the Example). *)
From NV Require Import TrRen.

Theorem C17_tr_pos_next : forall m b l n p c d fuel, int_arr_at m b l -> ints_ok l -> (n <= length l)%nat ->
  Z.of_nat n <= 2147483647 -> next_ok (firstn n l) (negb (c =? 0)) -> (n < fuel)%nat ->
  callf cprog fuel (S d) F_pos_next [VPtr b 0; VInt (Z.of_nat n); VInt p; VInt c] m
  = Ok (VInt (pos_next l n p (negb (c =? 0))), m).
Proof. exact tr_pos_next. Qed.
Print Assumptions C17_tr_pos_next.

Theorem C17_tr_pos_prev : forall m b l n p c d fuel, int_arr_at m b l -> ints_ok l -> (n <= length l)%nat ->
  Z.of_nat n <= 2147483647 -> prev_ok (firstn n l) (negb (c =? 0)) -> (n < fuel)%nat ->
  callf cprog fuel (S d) F_pos_prev [VPtr b 0; VInt (Z.of_nat n); VInt p; VInt c] m
  = Ok (VInt (pos_prev l n p (negb (c =? 0))), m).
Proof. exact tr_pos_prev. Qed.
Print Assumptions C17_tr_pos_prev.

(* the translated functions RUN on the column array of "a<TAB>中b" (C17_nonvacuous: [0; 1; 8; 10; 11], n = 4):
   after column 1 comes 8; at or before 9 is 8; nothing after 10 among the first four; one entry
   beyond the array is a checked error; INT_MIN - 1 is a checked error (the precondition is not idle) *)
Example C17_tr_pos_nonvacuous :
  let l := [0; 1; 8; 10; 11] in
  let g := length cglobals in
  let m := cglobals ++ [map VInt l] in
  int_arr_at m g l /\ ints_ok l /\ next_ok (firstn 4 l) false /\ prev_ok (firstn 4 l) false /\
  callf cprog 10 1 F_pos_next [VPtr g 0; VInt 4; VInt 1; VInt 0] m = Ok (VInt 8, m) /\
  callf cprog 10 1 F_pos_prev [VPtr g 0; VInt 4; VInt 9; VInt 1] m = Ok (VInt 8, m) /\
  callf cprog 10 1 F_pos_next [VPtr g 0; VInt 4; VInt 10; VInt 0] m = Ok (VInt (-1), m) /\
  pos_next l 4 1 false = 8 /\ pos_prev l 4 9 true = 8 /\
  callf cprog 10 1 F_pos_next [VPtr g 0; VInt 6; VInt 1; VInt 0] m = Err EOob /\
  callf cprog 10 1 F_pos_next [VPtr 0 0; VInt 1; VInt 0; VInt 0] [map VInt [-2147483648]] = Err EOverflow.
Proof.
  cbv zeta. split; [reflexivity|]. split; [apply ints_ok_dec; reflexivity|].
  split; [apply next_ok_dec; reflexivity|]. split; [apply prev_ok_dec; reflexivity|].
  vm_compute. repeat split; reflexivity.
Qed.

(* ---------------------------------------------------------------------------------------------
   THE FUNCTIONS BUILT ON THE COLUMN ARRAY ARE THE C TEXT, RELATIVE TO ren_position (coq/TrRen2.v).
   ren_noeol is proved as a whole (it calls uc_slen and uc_chr only).  ren_off, ren_pos, ren_next and ren_cursor
   are `pos = ren_position(s); ... ; free(pos)`: they are proved as whole functions under the hypothesis
   pos_call, which says of ONE call of the translated ren_position (on the memory at hand) that it returns a
   pointer to a block holding the int array l and leaves the string and uc_chr's static "" in place.  With
   l = ren_position of the model the results are the model's ren_off / ren_pos / ren_next / ren_cursor
   (C17_tr_ren_models, by reflexivity).  ren_position itself (the widths, the reordering) has no translation
   theorem: it stays tied by correspondence; the Example discharges pos_call by RUNNING the translated
   ren_position (getg / getm name the pointer and the memory a call returns, retv its value). *)
From NV Require Import TrRen2.

Theorem C17_tr_ren_noeol : forall m b s off d fuel, globals_at m ->
  str_at m b s -> nonul s -> (length s < fuel)%nat -> Z.of_nat (length s) <= 2147483647 -> off <= 2147483647 ->
  callf cprog fuel (S (S (S (S d)))) F_ren_noeol [VPtr b 0; VInt off] m = Ok (VInt (ren_noeol s off), m).
Proof. exact tr_ren_noeol. Qed.
Print Assumptions C17_tr_ren_noeol.

(* the part of ren_off after `pos = ren_position(s)`, for EVERY int array pos may point to: the inclusive
   pos_prev, the search for the last index holding that column, free(pos), the return *)
Theorem C17_tr_ren_off_tail : forall m g l n sv p d fuel, int_arr_at m g l -> ints_ok l -> (n < length l)%nat ->
  Z.of_nat n <= 2147483647 -> (n < fuel)%nat ->
  exists loc', exec (callf cprog fuel (S d)) fuel ro_tail
                 (mkst [sv; VInt p; VInt (-1); VInt (Z.of_nat n); VPtr g 0; VUndef] m)
               = OReturn (VInt (Z.of_nat (ren_off_pos l n p))) (mkst loc' (CLiteProps.upd m g [])).
Proof. exact tr_ren_off_tail. Qed.
Print Assumptions C17_tr_ren_off_tail.

Theorem C17_tr_ren_off_rel : forall m m1 b s g l p d fuel,
  str_at m b s -> nonul s -> (length s < fuel)%nat -> Z.of_nat (length s) <= 2147483647 ->
  callf cprog fuel (S (S d)) F_ren_position [VPtr b 0] m = Ok (VPtr g 0, m1) ->
  int_arr_at m1 g l -> ints_ok l -> (uc_slen s < length l)%nat ->
  callf cprog fuel (S (S (S d))) F_ren_off [VPtr b 0; VInt p] m
  = Ok (VInt (Z.of_nat (ren_off_pos l (uc_slen s) p)), CLiteProps.upd m1 g []).
Proof. exact tr_ren_off_rel. Qed.
Print Assumptions C17_tr_ren_off_rel.

Theorem C17_tr_ren_pos_rel : forall m m1 b s g l off d fuel,
  str_at m b s -> nonul s -> (length s < fuel)%nat -> Z.of_nat (length s) <= 2147483647 ->
  callf cprog fuel (S (S d)) F_ren_position [VPtr b 0] m = Ok (VPtr g 0, m1) ->
  int_arr_at m1 g l -> ints_ok l -> (uc_slen s < length l)%nat -> 0 <= off ->
  callf cprog fuel (S (S (S d))) F_ren_pos [VPtr b 0; VInt off] m
  = Ok (VInt (if off <? Z.of_nat (uc_slen s) then nthz l off else 0), CLiteProps.upd m1 g []).
Proof. exact tr_ren_pos_rel. Qed.
Print Assumptions C17_tr_ren_pos_rel.

Theorem C17_tr_ren_next_rel : forall m m1 m3 b s g g' l p dir d fuel,
  str_at m b s -> nonul s -> (length s < fuel)%nat -> Z.of_nat (length s) <= 2147483647 ->
  pos_call fuel (S (S (S d))) m b s l g m1 ->
  pos_call fuel (S (S d)) (CLiteProps.upd m1 g []) b s l g' m3 ->
  ints_ok l -> (uc_slen s < length l)%nat -> next_ok l false -> prev_ok l false ->
  callf cprog fuel (S (S (S (S d)))) F_ren_next [VPtr b 0; VInt p; VInt dir] m
  = Ok (VInt (ren_next_l l s p dir), CLiteProps.upd m3 g' []).
Proof. exact tr_ren_next_rel. Qed.
Print Assumptions C17_tr_ren_next_rel.

(* the extra hypothesis: no truncated multi-byte sequence at the end of the line -- uc_code reads uc_len(s) bytes *)
Theorem C17_tr_ren_cursor_rel : forall m m1 m3 b s g g' l p d fuel,
  str_at m b s -> nonul s -> (length s < fuel)%nat -> Z.of_nat (length s) <= 2147483647 ->
  (forall q, (q <= length s)%nat -> (q + uc_len_b (nthb s q) - 1 <= length s)%nat) ->
  pos_call fuel (S (S (S d))) m b s l g m1 ->
  pos_call fuel (S (S d)) m1 b s l g' m3 -> int_arr_at m3 g l -> g <> g' ->
  ints_ok l -> (uc_slen s < length l)%nat -> next_ok l false -> prev_ok l false ->
  callf cprog fuel (S (S (S (S d)))) F_ren_cursor [VPtr b 0; VInt p] m
  = Ok (VInt (ren_cursor_l l s p), CLiteProps.upd (CLiteProps.upd m3 g' []) g []).
Proof. exact tr_ren_cursor_rel. Qed.
Print Assumptions C17_tr_ren_cursor_rel.

(* on the model's column array these are the model's functions *)
Theorem C17_tr_ren_models : forall dr o s p dir off, 0 <= off ->
  Z.of_nat (ren_off_pos (ren_position dr o s) (uc_slen s) p) = Z.of_nat (ren_off dr o s p) /\
  (if off <? Z.of_nat (uc_slen s) then nthz (ren_position dr o s) off else 0) = ren_pos dr o s off /\
  ren_next_l (ren_position dr o s) s p dir = ren_next dr o s p dir /\
  ren_cursor_l (ren_position dr o s) s p = ren_cursor dr o s p.
Proof. exact (fun dr o s p dir off H => conj (ren_off_model dr o s p) (conj (ren_pos_model dr o s off H) (conj (ren_next_model dr o s p dir) (ren_cursor_model dr o s p)))). Qed.
Print Assumptions C17_tr_ren_models.

(* the hypotheses hold and everything RUNS on "a<TAB>b": the translated ren_position returns the model's array
   [0; 1; 8; 9] in a fresh block (pos_call for the three memories the functions call it on), and the translated
   ren_noeol / ren_off / ren_pos / ren_next / ren_cursor return what the theorems say *)
Example C17_tr_ren_rel_nonvacuous :
  let s := [97; 9; 98]%N in
  let b := length cglobals in
  let m := cglobals ++ [cstr_block (zb s)] in
  let l := [0; 1; 8; 9] in
  let r1 := callf cprog 100 9 F_ren_position [VPtr b 0] m in                                   (* the call made by ren_next / ren_cursor *)
  let r2 := callf cprog 100 8 F_ren_position [VPtr b 0] (CLiteProps.upd (getm r1) (getg r1) []) in   (* by ren_off inside ren_next (pos freed) *)
  let r3 := callf cprog 100 8 F_ren_position [VPtr b 0] (getm r1) in                           (* by ren_off inside ren_cursor (pos live) *)
  l = ren_position (fun _ ord => ord) {| xorder := 1; xlim := 256 |} s /\
  globals_at m /\ str_at m b s /\ nonul s /\ ints_ok l /\ next_ok l false /\ prev_ok l false /\
  (forall q, (q <= length s)%nat -> (q + uc_len_b (nthb s q) - 1 <= length s)%nat) /\
  (pos_call 100 9 m b s l (getg r1) (getm r1) /\
   pos_call 100 8 (CLiteProps.upd (getm r1) (getg r1) []) b s l (getg r2) (getm r2) /\
   pos_call 100 8 (getm r1) b s l (getg r3) (getm r3) /\ int_arr_at (getm r3) (getg r1) l /\ getg r1 <> getg r3) /\
  retv (callf cprog 100 10 F_ren_off [VPtr b 0; VInt 5] m) = Ok (VInt 1) /\
  retv (callf cprog 100 10 F_ren_pos [VPtr b 0; VInt 2] m) = Ok (VInt 8) /\
  retv (callf cprog 100 10 F_ren_next [VPtr b 0; VInt 1; VInt 1] m) = Ok (VInt 8) /\
  retv (callf cprog 100 10 F_ren_cursor [VPtr b 0; VInt 5] m) = Ok (VInt 7) /\
  retv (callf cprog 100 10 F_ren_noeol [VPtr b 0; VInt 7] m) = Ok (VInt 2) /\
  ren_off (fun _ ord => ord) {| xorder := 1; xlim := 256 |} s 5 = 1%nat /\
  ren_next (fun _ ord => ord) {| xorder := 1; xlim := 256 |} s 1 1 = 8 /\
  ren_cursor (fun _ ord => ord) {| xorder := 1; xlim := 256 |} s 5 = 7 /\ ren_noeol s 7 = 2.
Proof.
  cbv zeta.
  split; [vm_compute; reflexivity|].
  split; [intros g blk H; rewrite nth_error_app1; [exact H|apply nth_error_Some; congruence]|].
  split; [reflexivity|]. split; [repeat constructor; discriminate|].
  split; [apply ints_ok_dec; reflexivity|]. split; [apply next_ok_dec; reflexivity|]. split; [apply prev_ok_dec; reflexivity|].
  split; [intros [|[|[|[|q]]]] H; vm_compute in H |- *; try (repeat constructor); exfalso; repeat (apply le_S_n in H); inversion H|].
  split.
  { unfold pos_call.
    repeat split; try (apply okptr_eq); try (vm_compute; reflexivity); vm_compute; intro H; discriminate H. }
  repeat split; vm_compute; reflexivity.
Qed.

(* ---------------------------------------------------------------------------------------------
   ren_position's FAST PATH IS THE C TEXT (coq/TrRenPos.v, coq/TrRenPos2.v): uc_chop, conf_placeholder,
   ren_placeholder, ren_cwid and the fast path of ren_position are proved equal to the model on the translated C
   text, which discharges the hypothesis pos_call of the theorems above for every line that is NOT reordered:
   ren_off, ren_pos, ren_next, ren_cursor are then the model's functions with no hypothesis about ren_position.
   Vocabulary (definitions in TrRenPos.v / TrRenPos2.v):
     ro_at m        the read-only data ren_cwid uses (dwchars, zwchars, bchars, the placeholder table and its
                    string literals, "" and the bell glyph) are in m where the program put them (weaker than
                    globals_at: the static `bits` of ren_placeholder and the options may have any value);
     bits_ok m      that static holds 0xffff (never computed) or the common bits of the placeholder sources;
     ren_frame m M  M is m with blocks appended (the semantics never reclaims the address-taken locals wid, src,
                    dst), every older block but `bits` untouched, bits_ok M;
     no_trunc s     every multi-byte sequence of s is complete (uc_len(s) bytes before the terminator);
     fast_mem o m b s   ro_at, bits_ok, the line s in block b, xlim / xorder hold the options o;
     fast_line o s  s is NUL-free, no_trunc, at most 2^28 - 2 bytes (8 columns per character fit an int), and
                    RenDefs.use_reorder o s = false: the C condition `n <= xlim && (xorder == 2 || (xorder == 1 &&
                    n < strlen(s)))` that selects ren_position_reorder is false.
   ren_position_reorder (dir_reorder, i.e. the regex engine) stays outside: X_ren_position_reorder is an extern of
   the translated program, and a call of it is an error of the semantics. *)
From NV Require Import TrRenPos TrRenPos2.

(* uc_chop(s, &n): *n = uc_slen(s); the result is a FRESH block holding the n + 1 character-start pointers of the model
   (the last one points at the terminator); no other block changes *)
Theorem C17_tr_uc_chop : forall m b s nb nblk no d fuel, str_at m b s -> nonul s ->
  nth_error m nb = Some nblk -> 0 <= no < Z.of_nat (length nblk) -> nb <> b ->
  (S (length s) < fuel)%nat -> Z.of_nat (length s) < 2147483647 ->
  callf cprog fuel (S (S (S d))) F_uc_chop [VPtr b 0; VPtr nb no] m
  = Ok (VPtr (length m) 0,
        CLiteProps.upd m nb (CLiteProps.upd nblk (Z.to_nat no) (VInt (Z.of_nat (uc_slen s)))) ++ [map (cptr b) (uc_chop s)]).
Proof. exact tr_uc_chop. Qed.
Print Assumptions C17_tr_uc_chop.

(* ren_placeholder(s, &wid) with the placeholder table READ FROM conf.h's initializer: the returned string, *wid and the
   static bits are the model's; two one-cell blocks (src, dst) are appended *)
Theorem C17_tr_ren_placeholder : forall m b s o wb vw0 d fuel,
  ro_at m -> bits_ok m -> str_at m b s -> bytes_lt256 s -> (o + uc_len_b (nthb s o) - 1 <= length s)%nat -> (o <= length s)%nat ->
  nth_error m wb = Some [vw0] -> wb <> G_bits -> ro_g wb = false -> wb <> b ->
  (nph < fuel)%nat -> (fuel_tabs <= fuel)%nat ->
  exists v M, callf cprog fuel (S (S (S (S d)))) F_ren_placeholder [VPtr b (Z.of_nat o); VPtr wb 0] m = Ok (v, M) /\
    length M = (length m + 2)%nat /\
    (forall g, (g < length m)%nat -> g <> wb -> g <> G_bits -> nth_error M g = nth_error m g) /\
    nth_error M wb = Some [VInt (snd (ren_placeholder (skipn o s)))] /\
    cell_at M G_bits (Z.of_N ph_bits) /\
    match fst (ren_placeholder (skipn o s)) with
    | Some dm => exists g, v = VPtr g 0 /\ str_at M g dm
    | None => v = VInt 0
    end.
Proof. exact tr_ren_placeholder. Qed.
Print Assumptions C17_tr_ren_placeholder.

(* ren_cwid(s, pos) for EVERY character: a tab reaches the next multiple of 8, a placeholder character has its declared
   width, anything else uc_wid -- the value of RenDefs.ren_cwid (C17_cwid_class, C17_tiling speak about it) *)
Theorem C17_tr_ren_cwid : forall m b s o pos d fuel,
  ro_at m -> bits_ok m -> str_at m b s -> bytes_lt256 s -> (o + uc_len_b (nthb s o) - 1 <= length s)%nat -> (o <= length s)%nat ->
  (nph < fuel)%nat -> (fuel_tabs <= fuel)%nat ->
  exists M, callf cprog fuel (S (S (S (S (S d))))) F_ren_cwid [VPtr b (Z.of_nat o); VInt pos] m
            = Ok (VInt (ren_cwid (skipn o s) pos), M) /\ ren_frame m M.
Proof. exact tr_ren_cwid. Qed.
Print Assumptions C17_tr_ren_cwid.

(* ren_position(s) on the fast path: a fresh block holding the n + 1 columns of the model; with use_reorder o s = false
   that IS RenDefs.ren_position dr o s for every dr (second statement) *)
Theorem C17_tr_ren_position_fast : forall o m b s d fuel, fast_mem o m b s -> fast_line o s ->
  (length s < fuel)%nat -> (nph < fuel)%nat -> (fuel_tabs <= fuel)%nat ->
  exists M, callf cprog fuel (S (S (S (S (S (S d)))))) F_ren_position [VPtr b 0] m = Ok (VPtr (length m) 0, M) /\
            int_arr_at M (length m) (ren_fast (uc_slen s) s 0) /\ ren_frame m M.
Proof. exact tr_ren_position_fast. Qed.
Print Assumptions C17_tr_ren_position_fast.
Theorem C17_tr_ren_position_model : forall dr o s, use_reorder o s = false -> ren_position dr o s = ren_fast (uc_slen s) s 0.
Proof. exact ren_position_is_fast. Qed.
Print Assumptions C17_tr_ren_position_model.

(* UNCONDITIONAL on lines that are not reordered: the whole translated functions return the model's values *)
Theorem C17_tr_ren_off_fast : forall dr o m b s p d fuel, fast_mem o m b s -> fast_line o s ->
  (length s < fuel)%nat -> (nph < fuel)%nat -> (fuel_tabs <= fuel)%nat ->
  exists M, callf cprog fuel (S (S (S (S (S (S (S d))))))) F_ren_off [VPtr b 0; VInt p] m
            = Ok (VInt (Z.of_nat (ren_off dr o s p)), M) /\ ren_frame m M.
Proof. exact tr_ren_off_fast. Qed.
Print Assumptions C17_tr_ren_off_fast.
Theorem C17_tr_ren_pos_fast : forall dr o m b s off d fuel, fast_mem o m b s -> fast_line o s -> 0 <= off ->
  (length s < fuel)%nat -> (nph < fuel)%nat -> (fuel_tabs <= fuel)%nat ->
  exists M, callf cprog fuel (S (S (S (S (S (S (S d))))))) F_ren_pos [VPtr b 0; VInt off] m
            = Ok (VInt (ren_pos dr o s off), M) /\ ren_frame m M.
Proof. exact tr_ren_pos_fast. Qed.
Print Assumptions C17_tr_ren_pos_fast.
Theorem C17_tr_ren_next_fast : forall dr o m b s p dir d fuel, fast_mem o m b s -> fast_line o s ->
  (length s < fuel)%nat -> (nph < fuel)%nat -> (fuel_tabs <= fuel)%nat ->
  exists M, callf cprog fuel (S (S (S (S (S (S (S (S d)))))))) F_ren_next [VPtr b 0; VInt p; VInt dir] m
            = Ok (VInt (ren_next dr o s p dir), M) /\ ren_frame m M.
Proof. exact tr_ren_next_fast. Qed.
Print Assumptions C17_tr_ren_next_fast.
Theorem C17_tr_ren_cursor_fast : forall dr o m b s p d fuel, fast_mem o m b s -> fast_line o s ->
  (length s < fuel)%nat -> (nph < fuel)%nat -> (fuel_tabs <= fuel)%nat ->
  exists M, callf cprog fuel (S (S (S (S (S (S (S (S d)))))))) F_ren_cursor [VPtr b 0; VInt p] m
            = Ok (VInt (ren_cursor dr o s p), M) /\ ren_frame m M.
Proof. exact tr_ren_cursor_fast. Qed.
Print Assumptions C17_tr_ren_cursor_fast.

(* C17_roundtrip on the C text: the column the translated ren_pos returns for character off, handed to the translated
   ren_off (in the memory the first call left), comes back as off *)
Theorem C17_tr_roundtrip_fast : forall o m b s off d fuel, fast_mem o m b s -> fast_line o s -> 0 <= off < Z.of_nat (uc_slen s) ->
  (length s < fuel)%nat -> (nph < fuel)%nat -> (fuel_tabs <= fuel)%nat ->
  exists v M1 M2,
    callf cprog fuel (S (S (S (S (S (S (S d))))))) F_ren_pos [VPtr b 0; VInt off] m = Ok (VInt v, M1) /\
    callf cprog fuel (S (S (S (S (S (S (S d))))))) F_ren_off [VPtr b 0; VInt v] M1 = Ok (VInt off, M2) /\ ren_frame m M2.
Proof. exact tr_roundtrip_fast. Qed.
Print Assumptions C17_tr_roundtrip_fast.

(* the hypotheses hold and everything RUNS: the translated ren_position on "a<TAB>b" (default options) and on
   "中<TAB>ـَb" = wide character, tab, placeholder character (fatha), letter, with order=0 (with the default order=1 a line with
   a multi-byte character is reordered); uc_chop and ren_cwid on the second line; and no_trunc is not idle: on the line
   f0 c3 0a (a 4-byte lead byte followed by 2 bytes) the translated ren_position leaves the string block (EOob) *)
Example C17_tr_ren_position_nonvacuous :
  let idr := fun (_ : bytes) (ord : list nat) => ord in
  let b := length cglobals in
  let s1 := [97; 9; 98]%N in
  let m1 := cglobals ++ [cstr_block (zb s1)] in
  let o1 := {| xorder := 1; xlim := 256 |} in
  let s2 := [228; 184; 173; 9; 217; 142; 98]%N in
  let m2 := CLiteProps.upd cglobals G_xorder [VInt 0] ++ [cstr_block (zb s2)] in
  let o2 := {| xorder := 0; xlim := 256 |} in
  let r1 := callf cprog 100 6 F_ren_position [VPtr b 0] m1 in
  let r2 := callf cprog 100 6 F_ren_position [VPtr b 0] m2 in
  let m3 := m2 ++ [[VUndef]] in
  let r3 := callf cprog 100 3 F_uc_chop [VPtr b 0; VPtr (length m2) 0] m3 in
  let s4 := [240; 195; 10]%N in
  (fast_mem o1 m1 b s1 /\ fast_line o1 s1 /\ fast_mem o2 m2 b s2 /\ fast_line o2 s2) /\
  (retv r1 = Ok (VPtr (length m1) 0) /\ nth_error (getm r1) (length m1) = Some (map VInt [0; 1; 8; 9]) /\
   ren_position idr o1 s1 = [0; 1; 8; 9]) /\
  (retv r2 = Ok (VPtr (length m2) 0) /\ nth_error (getm r2) (length m2) = Some (map VInt [0; 2; 8; 9; 10]) /\
   ren_position idr o2 s2 = [0; 2; 8; 9; 10]) /\
  (retv r3 = Ok (VPtr (length m3) 0) /\ nth_error (getm r3) (length m2) = Some [VInt 4] /\
   nth_error (getm r3) (length m3) = Some [VPtr b 0; VPtr b 3; VPtr b 4; VPtr b 6; VPtr b 7] /\ uc_chop s2 = [0; 3; 4; 6; 7]%nat) /\
  (retv (callf cprog 100 5 F_ren_cwid [VPtr b 3; VInt 2] m2) = Ok (VInt 6) /\
   retv (callf cprog 100 5 F_ren_cwid [VPtr b 0; VInt 0] m2) = Ok (VInt 2) /\
   retv (callf cprog 100 5 F_ren_cwid [VPtr b 4; VInt 8] m2) = Ok (VInt 1)) /\
  (retv (callf cprog 100 8 F_ren_off [VPtr b 0; VInt 5] m2) = Ok (VInt 1) /\
   retv (callf cprog 100 8 F_ren_cursor [VPtr b 0; VInt 3] m2) = Ok (VInt 7)) /\
  (~ no_trunc s4 /\ nonul s4 /\
   callf cprog 100 6 F_ren_position [VPtr b 0] (cglobals ++ [cstr_block (zb s4)]) = Err EOob).
Proof.
  cbv zeta.
  assert (R1 : ro_at cglobals) by (apply ro_at_globals, globals_at_self).
  assert (B1 : forall r, bits_ok (cglobals ++ r)) by (intro r; left; reflexivity).
  split.
  { repeat split; try (vm_compute; reflexivity); try (vm_compute; intro H; discriminate H).
    - apply ro_at_app. exact R1.
    - apply B1.
    - apply byte_okb_nonul. reflexivity.
    - apply no_trunc_dec. reflexivity.
    - apply ro_at_app, ro_at_upd; [exact R1|reflexivity].
    - left. reflexivity.
    - apply byte_okb_nonul. reflexivity.
    - apply no_trunc_dec. reflexivity. }
  split; [repeat split; vm_compute; reflexivity|].
  split; [repeat split; vm_compute; reflexivity|].
  split; [repeat split; vm_compute; reflexivity|].
  split; [repeat split; vm_compute; reflexivity|].
  split; [repeat split; vm_compute; reflexivity|].
  split; [|split; [apply byte_okb_nonul; reflexivity|vm_compute; reflexivity]].
  intro H. specialize (H 0%nat ltac:(vm_compute; repeat constructor)). vm_compute in H.
  repeat (apply le_S_n in H). inversion H.
Qed.
