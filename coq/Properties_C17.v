(* Properties_C17.v -- C17: screen-column layout is a gap-free tiling; the cursor/column mapping
   round-trips.  Statements only; every proof is `exact <lemma>`; Print Assumptions under each.
   Model: RenDefs.v (ren.c and the width classes of uc.c over the GENERATED tables).  The
   reordering function of dir.c is the parameter `dr`; "ord is a permutation" is the hypothesis
   dr_perm, discharged for the model of dir.c by C18_permutation. *)
From Coq Require Import List NArith ZArith Bool Permutation.
From NV Require Import Bytes UcDefs UcSpec GenUcTables GenConf GenConsts DirDefs RenDefs RenProps.
Import ListNotations.
Local Open Scope Z_scope.

(* find() of uc.c: bisection over a sorted table of disjoint ranges is membership (never out of fuel) *)
Theorem C17_find_is_membership : forall tab c, sorted tab -> tfind c tab = Some (mem tab c).
Proof. exact tfind_is_membership. Qed.
Print Assumptions C17_find_is_membership.

(* the generated tables are sorted and disjoint, and the thresholds tested before the bisection
   lie below their first rows -- recomputed from what uc.c says now *)
Theorem C17_tables_sorted : sorted dwchars /\ sorted zwchars /\ sorted bchars /\
  dw_min <= fst (nthp dwchars 0) /\ zw_min <= fst (nthp zwchars 0).
Proof. exact tables_sorted. Qed.
Print Assumptions C17_tables_sorted.

(* so the width class of every code point is the one its tables list *)
Theorem C17_width_class : forall s,
  (forall c, uc_isdw c = mem dwchars c) /\ (forall c, uc_iszw c = mem zwchars c) /\
  uc_wid s = (let c := Z.of_N (uc_code s) in if mem zwchars c then 0 else if mem dwchars c then 2 else 1) /\
  uc_isbell s = (if plain_ascii (hd0 s) then false else let c := Z.of_N (uc_code s) in mem zwchars c || mem bchars c).
Proof. exact width_class. Qed.
Print Assumptions C17_width_class.

(* ... and it cannot change between two consecutive bounds (a, b + 1 of the rows) of the four tables: this is
   what lets the correspondence run print the model's width classes as runs, evaluating the extracted
   functions at the ends of every piece between two bounds instead of at each of the 1 114 111 code points
   (the implementation is still evaluated at every code point) *)
Theorem C17_width_class_runs : forall c c', c <= c' ->
  (forall x, In x class_bounds -> ~ (c < x <= c')) ->
  uc_isdw c = uc_isdw c' /\ uc_iszw c = uc_iszw c' /\ tfind c bchars = tfind c' bchars /\ uc_acomb c = uc_acomb c' /\
  forall s s', Z.of_N (uc_code s) = c -> Z.of_N (uc_code s') = c' -> plain_ascii (hd0 s) = plain_ascii (hd0 s') ->
    uc_wid s = uc_wid s' /\ uc_isbell s = uc_isbell s'.
Proof. exact width_class_const. Qed.
Print Assumptions C17_width_class_runs.

(* every character occupies between 1 and 8 cells (a zero-width character is drawn as a one-cell
   placeholder; every configured placeholder is at least one cell wide) *)
Theorem C17_cwid_range : forall s p, 0 <= p -> 1 <= ren_cwid s p <= 8.
Proof. exact ren_cwid_range. Qed.
Print Assumptions C17_cwid_range.

(* a tab reaches the next multiple of 8; any other character has the declared width of its
   placeholder, else two cells if the tables list it as wide, else one *)
Theorem C17_cwid_class : forall s p,
  (0 <= p -> hd0 s = 9%N -> (p + ren_cwid s p) mod 8 = 0 /\ 1 <= ren_cwid s p <= 8) /\
  (hd0 s <> 9%N ->
     ren_cwid s p = match ren_placeholder s with
                    | (Some _, w) => w
                    | (None, _) => if mem dwchars (Z.of_N (uc_code s)) then 2 else 1
                    end
     /\ (fst (ren_placeholder s) = None -> uc_isbell s = false)).
Proof. exact cwid_class. Qed.
Print Assumptions C17_cwid_class.

(* tiling: the column table has n + 1 entries; taking the characters in visual order (a
   permutation of 0..n-1: the logical order on the fast path, the inverse of ord on the
   reordering path) each one starts where the previous one ended, the first in column 0, and
   pos[n] is where the last one ends *)
Theorem C17_tiling : forall dr o,
  (forall s, Permutation (dr s (seq 0 (uc_slen s))) (seq 0 (uc_slen s))) ->
  forall s,
  let n := uc_slen s in
  let pos := ren_position dr o s in
  length pos = S n /\
  Permutation (vis_order dr o s) (seq 0 n) /\
  tiles (fun j c => ren_cwid (chr_of o s j) c) pos (vis_order dr o s) 0 (nth n pos 0) /\
  (use_reorder o s = false -> vis_order dr o s = seq 0 n) /\
  (use_reorder o s = true -> forall i, (i < n)%nat -> nth (nth i (the_ord dr o s) 0%nat) (vis_order dr o s) 0%nat = i).
Proof. exact ren_tiling. Qed.
Print Assumptions C17_tiling.

(* round trip: offset -> column -> offset is the identity for every character; column -> offset
   gives the character whose cells contain the column *)
Theorem C17_roundtrip : forall dr o,
  (forall s, Permutation (dr s (seq 0 (uc_slen s))) (seq 0 (uc_slen s))) ->
  forall s,
  (forall off, 0 <= off < Z.of_nat (uc_slen s) -> Z.of_nat (ren_off dr o s (ren_pos dr o s off)) = off) /\
  (forall p, 0 <= p -> (0 < uc_slen s)%nat ->
     let k := ren_off dr o s p in
     (k < uc_slen s)%nat /\ ren_pos dr o s (Z.of_nat k) <= p /\
     (p < ren_wid dr o s -> p < ren_pos dr o s (Z.of_nat k) + ren_cwid (chr_of o s k) (ren_pos dr o s (Z.of_nat k)))).
Proof. exact roundtrip. Qed.
Print Assumptions C17_roundtrip.

(* moving right (left) from column p goes to the start of the character displayed immediately to
   the right (left) of the character at p, and yields -1 at the line ends and before the terminator *)
Theorem C17_next : forall dr o,
  (forall s, Permutation (dr s (seq 0 (uc_slen s))) (seq 0 (uc_slen s))) ->
  forall s p l1 l2, 0 <= p -> (0 < uc_slen s)%nat ->
  vis_order dr o s = l1 ++ ren_off dr o s p :: l2 ->
  ren_next dr o s p 1 = match l2 with
                        | [] => -1
                        | j2 :: _ => if is_nl s j2 then -1 else ren_pos dr o s (Z.of_nat j2)
                        end /\
  ren_next dr o s p (-1) = match rev l1 with
                           | [] => -1
                           | j1 :: _ => if is_nl s j1 then -1 else ren_pos dr o s (Z.of_nat j1)
                           end.
Proof. exact ren_next_spec. Qed.
Print Assumptions C17_next.

(* the cursor column of the character at p (other than the terminator) is its last cell *)
Theorem C17_cursor : forall dr o,
  (forall s, Permutation (dr s (seq 0 (uc_slen s))) (seq 0 (uc_slen s))) ->
  forall s p, 0 <= p -> (0 < uc_slen s)%nat ->
  let k := ren_off dr o s p in
  (uc_code (chr_suffix s k) =? 10)%N = false ->
  ren_cursor dr o s p = ren_pos dr o s (Z.of_nat k) + ren_cwid (chr_of o s k) (ren_pos dr o s (Z.of_nat k)) - 1.
Proof. exact ren_cursor_spec. Qed.
Print Assumptions C17_cursor.

(* on valid UTF-8 the characters of both paths of ren_position are the code points of the line (C16),
   so the tiling, round-trip and neighbour theorems speak about the line's characters *)
Theorem C17_chars_valid : forall o cs j, Forall scalar cs -> (j <= length cs)%nat ->
  chr_of o (chars cs) j = chars (skipn j cs).
Proof. exact chr_of_valid. Qed.
Print Assumptions C17_chars_valid.

(* the hypothesis is satisfiable (no reordering), and the functions compute: "a<TAB>中b" *)
Example C17_nonvacuous :
  (forall s, Permutation ((fun _ ord => ord) s (seq 0 (uc_slen s))) (seq 0 (uc_slen s))) /\
  ren_position (fun _ ord => ord) {| xorder := 2; xlim := 256 |} [97; 9; 228; 184; 173; 98]%N = [0; 1; 8; 10; 11] /\
  (* a piece without a table bound: U+4E00..U+4E10 *)
  forallb (fun x => negb ((19968 <? x) && (x <=? 19984))) class_bounds = true.
Proof. split; [intro s; apply Permutation_refl | split; vm_compute; reflexivity]. Qed.

(* ---------------------------------------------------------------------------------------------
   THE WIDTH-CLASS MODEL IS THE C TEXT.  GenCFuncs.v is regenerated from /repo's uc.c by
   tools/c2clite.py on every run (functions as terms of the deep embedding CLite.v, the range
   tables from their initializers); for every input, running the translated find(), uc_isdw(),
   uc_iszw(), uc_acomb(), uc_wid() and uc_isbell() returns the value of the model RenDefs.v that the
   theorems above speak about, with every table access inside its table. *)
From NV Require Import CLite CLiteProps GenCFuncs CLiteTac TrUcCode TrUcTab.

(* the bisection, for ANY table in memory (not only the three of uc.c) *)
Theorem C17_tr_find : forall m g tab c r d fuel,
  nth_error m g = Some (tab_block tab) -> tab_ok tab -> int_ok c ->
  (1 <= length tab)%nat -> Z.of_nat (length tab) <= 1073741823 -> (length tab < fuel)%nat ->
  tfind c tab = Some r ->
  callf cprog fuel (S d) F_find [VInt c; VPtr g 0; VInt (Z.of_nat (length tab))] m = Ok (VInt (b2z r), m).
Proof. exact tr_find. Qed.
Print Assumptions C17_tr_find.

(* the tables c2clite.py read from the initializers are the ones translate.py dumped by running the C compiler *)
Theorem C17_tr_tables : gb_dwchars = tab_block dwchars /\ gb_zwchars = tab_block zwchars /\ gb_bchars = tab_block bchars.
Proof. exact (conj gb_dwchars_eq (conj gb_zwchars_eq gb_bchars_eq)). Qed.
Print Assumptions C17_tr_tables.

Theorem C17_tr_width_class : forall m c d fuel, globals_at m -> int_ok c -> (fuel_tabs <= fuel)%nat ->
  callf cprog fuel (S (S d)) F_uc_isdw [VInt c] m = Ok (VInt (b2z (uc_isdw c)), m) /\
  callf cprog fuel (S (S d)) F_uc_iszw [VInt c] m = Ok (VInt (b2z (uc_iszw c)), m) /\
  callf cprog fuel (S d) F_uc_acomb [VInt c] m = Ok (VInt (b2z (uc_acomb c)), m).
Proof. exact tr_width_class. Qed.
Print Assumptions C17_tr_width_class.

(* on a string in memory: decode, then classify (the decode reads only inside the string + terminator) *)
Theorem C17_tr_uc_wid : forall m b s o d fuel, globals_at m ->
  str_at m b s -> bytes_lt256 s -> (o + uc_len_b (nthb s o) - 1 <= length s)%nat -> (o <= length s)%nat ->
  (fuel_tabs <= fuel)%nat ->
  callf cprog fuel (S (S (S d))) F_uc_wid [VPtr b (Z.of_nat o)] m = Ok (VInt (uc_wid (skipn o s)), m).
Proof. exact tr_uc_wid. Qed.
Print Assumptions C17_tr_uc_wid.

Theorem C17_tr_uc_isbell : forall m b s o d fuel, globals_at m ->
  str_at m b s -> bytes_lt256 s -> (o + uc_len_b (nthb s o) - 1 <= length s)%nat -> (o <= length s)%nat ->
  (fuel_tabs <= fuel)%nat ->
  callf cprog fuel (S (S (S d))) F_uc_isbell [VPtr b (Z.of_nat o)] m = Ok (VInt (b2z (uc_isbell (skipn o s))), m).
Proof. exact tr_uc_isbell. Qed.
Print Assumptions C17_tr_uc_isbell.

Example C17_tr_nonvacuous :
  let s := [228; 184; 150; 97]%N in            (* U+4E16 (wide) and a *)
  let m := cglobals ++ [cstr_block (zb s)] in
  globals_at m /\ str_at m (length cglobals) s /\
  callf cprog 500 6 F_uc_wid [VPtr (length cglobals) 0] m = Ok (VInt 2, m) /\
  callf cprog 500 6 F_uc_wid [VPtr (length cglobals) 3] m = Ok (VInt 1, m) /\
  callf cprog 500 6 F_uc_isbell [VPtr (length cglobals) 0] m = Ok (VInt 0, m).
Proof.
  cbv zeta. split; [intros g blk H; rewrite nth_error_app1; [exact H|apply nth_error_Some; congruence]|].
  split; [reflexivity|]. vm_compute. repeat split; reflexivity.
Qed.

(* ---------------------------------------------------------------------------------------------
   THE NEIGHBOUR SEARCH OVER THE COLUMN ARRAY IS THE C TEXT.  pos_next / pos_prev of ren.c (the two
   static functions ren_off, ren_cursor and ren_next are built from; RenDefs.pos_next / pos_prev are what
   C17_roundtrip, C17_next and C17_cursor speak about) are translated by tools/c2clite.py on every run.
   For EVERY int array in memory (l, at least n entries -- ren_position allocates n + 1), every p and cur:
   the call returns the value of the model, the memory is unchanged, and every load is inside the
   array.  next_ok / prev_ok is what the C text needs for `pos[i] - !cur` / `pos[i] + !cur` to stay inside
   int (columns are never INT_MIN / INT_MAX; without it the C expression is undefined, see the Example). *)
From NV Require Import TrRen.

Theorem C17_tr_pos_next : forall m b l n p c d fuel, int_arr_at m b l -> ints_ok l -> (n <= length l)%nat ->
  Z.of_nat n <= 2147483647 -> next_ok (firstn n l) (negb (c =? 0)) -> (n < fuel)%nat ->
  callf cprog fuel (S d) F_pos_next [VPtr b 0; VInt (Z.of_nat n); VInt p; VInt c] m
  = Ok (VInt (pos_next l n p (negb (c =? 0))), m).
Proof. exact tr_pos_next. Qed.
Print Assumptions C17_tr_pos_next.

Theorem C17_tr_pos_prev : forall m b l n p c d fuel, int_arr_at m b l -> ints_ok l -> (n <= length l)%nat ->
  Z.of_nat n <= 2147483647 -> prev_ok (firstn n l) (negb (c =? 0)) -> (n < fuel)%nat ->
  callf cprog fuel (S d) F_pos_prev [VPtr b 0; VInt (Z.of_nat n); VInt p; VInt c] m
  = Ok (VInt (pos_prev l n p (negb (c =? 0))), m).
Proof. exact tr_pos_prev. Qed.
Print Assumptions C17_tr_pos_prev.

(* the translated functions RUN on the column array of "a<TAB>中b" (C17_nonvacuous: [0; 1; 8; 10; 11], n = 4):
   after column 1 comes 8; at or before 9 is 8; nothing after 10 among the first four; one entry
   beyond the array is a checked error; INT_MIN - 1 is a checked error (the precondition is not idle) *)
Example C17_tr_pos_nonvacuous :
  let l := [0; 1; 8; 10; 11] in
  let g := length cglobals in
  let m := cglobals ++ [map VInt l] in
  int_arr_at m g l /\ ints_ok l /\ next_ok (firstn 4 l) false /\ prev_ok (firstn 4 l) false /\
  callf cprog 10 1 F_pos_next [VPtr g 0; VInt 4; VInt 1; VInt 0] m = Ok (VInt 8, m) /\
  callf cprog 10 1 F_pos_prev [VPtr g 0; VInt 4; VInt 9; VInt 1] m = Ok (VInt 8, m) /\
  callf cprog 10 1 F_pos_next [VPtr g 0; VInt 4; VInt 10; VInt 0] m = Ok (VInt (-1), m) /\
  pos_next l 4 1 false = 8 /\ pos_prev l 4 9 true = 8 /\
  callf cprog 10 1 F_pos_next [VPtr g 0; VInt 6; VInt 1; VInt 0] m = Err EOob /\
  callf cprog 10 1 F_pos_next [VPtr 0 0; VInt 1; VInt 0; VInt 0] [map VInt [-2147483648]] = Err EOverflow.
Proof.
  cbv zeta. split; [reflexivity|]. split; [apply ints_ok_dec; reflexivity|].
  split; [apply next_ok_dec; reflexivity|]. split; [apply prev_ok_dec; reflexivity|].
  vm_compute. repeat split; reflexivity.
Qed.

(* ---------------------------------------------------------------------------------------------
   THE FUNCTIONS BUILT ON THE COLUMN ARRAY ARE THE C TEXT, RELATIVE TO ren_position (coq/TrRen2.v).
   ren_noeol is proved as a whole (it calls uc_slen and uc_chr only).  ren_off, ren_pos, ren_next and ren_cursor
   are `pos = ren_position(s); ... ; free(pos)`: they are proved as whole functions under the hypothesis
   pos_call, which says of ONE call of the translated ren_position (on the memory at hand) that it returns a
   pointer to a block holding the int array l and leaves the string and uc_chr's static "" in place.  With
   l = ren_position of the model the results are the model's ren_off / ren_pos / ren_next / ren_cursor
   (C17_tr_ren_models, by reflexivity).  ren_position itself (the widths, the reordering) has no translation
   theorem: it stays tied by correspondence; the Example discharges pos_call by RUNNING the translated
   ren_position (getg / getm name the pointer and the memory a call returns, retv its value). *)
From NV Require Import TrRen2.

Theorem C17_tr_ren_noeol : forall m b s off d fuel, globals_at m ->
  str_at m b s -> nonul s -> (length s < fuel)%nat -> Z.of_nat (length s) <= 2147483647 -> off <= 2147483647 ->
  callf cprog fuel (S (S (S (S d)))) F_ren_noeol [VPtr b 0; VInt off] m = Ok (VInt (ren_noeol s off), m).
Proof. exact tr_ren_noeol. Qed.
Print Assumptions C17_tr_ren_noeol.

(* the part of ren_off after `pos = ren_position(s)`, for EVERY int array pos may point to: the inclusive
   pos_prev, the search for the last index holding that column, free(pos), the return *)
Theorem C17_tr_ren_off_tail : forall m g l n sv p d fuel, int_arr_at m g l -> ints_ok l -> (n < length l)%nat ->
  Z.of_nat n <= 2147483647 -> (n < fuel)%nat ->
  exists loc', exec (callf cprog fuel (S d)) fuel ro_tail
                 (mkst [sv; VInt p; VInt (-1); VInt (Z.of_nat n); VPtr g 0; VUndef] m)
               = OReturn (VInt (Z.of_nat (ren_off_pos l n p))) (mkst loc' (CLiteProps.upd m g [])).
Proof. exact tr_ren_off_tail. Qed.
Print Assumptions C17_tr_ren_off_tail.

Theorem C17_tr_ren_off_rel : forall m m1 b s g l p d fuel,
  str_at m b s -> nonul s -> (length s < fuel)%nat -> Z.of_nat (length s) <= 2147483647 ->
  callf cprog fuel (S (S d)) F_ren_position [VPtr b 0] m = Ok (VPtr g 0, m1) ->
  int_arr_at m1 g l -> ints_ok l -> (uc_slen s < length l)%nat ->
  callf cprog fuel (S (S (S d))) F_ren_off [VPtr b 0; VInt p] m
  = Ok (VInt (Z.of_nat (ren_off_pos l (uc_slen s) p)), CLiteProps.upd m1 g []).
Proof. exact tr_ren_off_rel. Qed.
Print Assumptions C17_tr_ren_off_rel.

Theorem C17_tr_ren_pos_rel : forall m m1 b s g l off d fuel,
  str_at m b s -> nonul s -> (length s < fuel)%nat -> Z.of_nat (length s) <= 2147483647 ->
  callf cprog fuel (S (S d)) F_ren_position [VPtr b 0] m = Ok (VPtr g 0, m1) ->
  int_arr_at m1 g l -> ints_ok l -> (uc_slen s < length l)%nat -> 0 <= off ->
  callf cprog fuel (S (S (S d))) F_ren_pos [VPtr b 0; VInt off] m
  = Ok (VInt (if off <? Z.of_nat (uc_slen s) then nthz l off else 0), CLiteProps.upd m1 g []).
Proof. exact tr_ren_pos_rel. Qed.
Print Assumptions C17_tr_ren_pos_rel.

Theorem C17_tr_ren_next_rel : forall m m1 m3 b s g g' l p dir d fuel,
  str_at m b s -> nonul s -> (length s < fuel)%nat -> Z.of_nat (length s) <= 2147483647 ->
  pos_call fuel (S (S (S d))) m b s l g m1 ->
  pos_call fuel (S (S d)) (CLiteProps.upd m1 g []) b s l g' m3 ->
  ints_ok l -> (uc_slen s < length l)%nat -> next_ok l false -> prev_ok l false ->
  callf cprog fuel (S (S (S (S d)))) F_ren_next [VPtr b 0; VInt p; VInt dir] m
  = Ok (VInt (ren_next_l l s p dir), CLiteProps.upd m3 g' []).
Proof. exact tr_ren_next_rel. Qed.
Print Assumptions C17_tr_ren_next_rel.

(* the extra hypothesis: no truncated multi-byte sequence at the end of the line -- uc_code reads uc_len(s) bytes *)
Theorem C17_tr_ren_cursor_rel : forall m m1 m3 b s g g' l p d fuel,
  str_at m b s -> nonul s -> (length s < fuel)%nat -> Z.of_nat (length s) <= 2147483647 ->
  (forall q, (q <= length s)%nat -> (q + uc_len_b (nthb s q) - 1 <= length s)%nat) ->
  pos_call fuel (S (S (S d))) m b s l g m1 ->
  pos_call fuel (S (S d)) m1 b s l g' m3 -> int_arr_at m3 g l -> g <> g' ->
  ints_ok l -> (uc_slen s < length l)%nat -> next_ok l false -> prev_ok l false ->
  callf cprog fuel (S (S (S (S d)))) F_ren_cursor [VPtr b 0; VInt p] m
  = Ok (VInt (ren_cursor_l l s p), CLiteProps.upd (CLiteProps.upd m3 g' []) g []).
Proof. exact tr_ren_cursor_rel. Qed.
Print Assumptions C17_tr_ren_cursor_rel.

(* on the model's column array these are the model's functions *)
Theorem C17_tr_ren_models : forall dr o s p dir off, 0 <= off ->
  Z.of_nat (ren_off_pos (ren_position dr o s) (uc_slen s) p) = Z.of_nat (ren_off dr o s p) /\
  (if off <? Z.of_nat (uc_slen s) then nthz (ren_position dr o s) off else 0) = ren_pos dr o s off /\
  ren_next_l (ren_position dr o s) s p dir = ren_next dr o s p dir /\
  ren_cursor_l (ren_position dr o s) s p = ren_cursor dr o s p.
Proof. exact (fun dr o s p dir off H => conj (ren_off_model dr o s p) (conj (ren_pos_model dr o s off H) (conj (ren_next_model dr o s p dir) (ren_cursor_model dr o s p)))). Qed.
Print Assumptions C17_tr_ren_models.

(* the hypotheses hold and everything RUNS on "a<TAB>b": the translated ren_position returns the model's array
   [0; 1; 8; 9] in a fresh block (pos_call for the three memories the functions call it on), and the translated
   ren_noeol / ren_off / ren_pos / ren_next / ren_cursor return what the theorems say *)
Example C17_tr_ren_rel_nonvacuous :
  let s := [97; 9; 98]%N in
  let b := length cglobals in
  let m := cglobals ++ [cstr_block (zb s)] in
  let l := [0; 1; 8; 9] in
  let r1 := callf cprog 100 9 F_ren_position [VPtr b 0] m in                                   (* the call made by ren_next / ren_cursor *)
  let r2 := callf cprog 100 8 F_ren_position [VPtr b 0] (CLiteProps.upd (getm r1) (getg r1) []) in   (* by ren_off inside ren_next (pos freed) *)
  let r3 := callf cprog 100 8 F_ren_position [VPtr b 0] (getm r1) in                           (* by ren_off inside ren_cursor (pos live) *)
  l = ren_position (fun _ ord => ord) {| xorder := 1; xlim := 256 |} s /\
  globals_at m /\ str_at m b s /\ nonul s /\ ints_ok l /\ next_ok l false /\ prev_ok l false /\
  (forall q, (q <= length s)%nat -> (q + uc_len_b (nthb s q) - 1 <= length s)%nat) /\
  (pos_call 100 9 m b s l (getg r1) (getm r1) /\
   pos_call 100 8 (CLiteProps.upd (getm r1) (getg r1) []) b s l (getg r2) (getm r2) /\
   pos_call 100 8 (getm r1) b s l (getg r3) (getm r3) /\ int_arr_at (getm r3) (getg r1) l /\ getg r1 <> getg r3) /\
  retv (callf cprog 100 10 F_ren_off [VPtr b 0; VInt 5] m) = Ok (VInt 1) /\
  retv (callf cprog 100 10 F_ren_pos [VPtr b 0; VInt 2] m) = Ok (VInt 8) /\
  retv (callf cprog 100 10 F_ren_next [VPtr b 0; VInt 1; VInt 1] m) = Ok (VInt 8) /\
  retv (callf cprog 100 10 F_ren_cursor [VPtr b 0; VInt 5] m) = Ok (VInt 7) /\
  retv (callf cprog 100 10 F_ren_noeol [VPtr b 0; VInt 7] m) = Ok (VInt 2) /\
  ren_off (fun _ ord => ord) {| xorder := 1; xlim := 256 |} s 5 = 1%nat /\
  ren_next (fun _ ord => ord) {| xorder := 1; xlim := 256 |} s 1 1 = 8 /\
  ren_cursor (fun _ ord => ord) {| xorder := 1; xlim := 256 |} s 5 = 7 /\ ren_noeol s 7 = 2.
Proof.
  cbv zeta.
  split; [vm_compute; reflexivity|].
  split; [intros g blk H; rewrite nth_error_app1; [exact H|apply nth_error_Some; congruence]|].
  split; [reflexivity|]. split; [repeat constructor; discriminate|].
  split; [apply ints_ok_dec; reflexivity|]. split; [apply next_ok_dec; reflexivity|]. split; [apply prev_ok_dec; reflexivity|].
  split; [intros [|[|[|[|q]]]] H; vm_compute in H |- *; try (repeat constructor); exfalso; repeat (apply le_S_n in H); inversion H|].
  split.
  { unfold pos_call.
    repeat split; try (apply okptr_eq); try (vm_compute; reflexivity); vm_compute; intro H; discriminate H. }
  repeat split; vm_compute; reflexivity.
Qed.

(* ======================================================================================================================
   The table functions of /repo/ex.c ON THE C TEXT.  tools/c2clite.py translates bufs_find, bufs_findroom, bufs_save, bufs_load,
   bufs_switch, bufs_shift, bufs_number, bufs_free, ex_path, ex_filetype (tools/c2clite.d/85_bufs.list) into CLite terms
   (coq/GenCFuncs.v); coq/TrBufs.v proves what running them does to a memory in which block G_bufs holds ANY table `t`
   (16 slots of 41 cells: TrBufs.cslot / tab_cells), the one-cell blocks G_xrow G_xoff G_xtop G_xleft G_xtd hold the cursor and
   G_bufs_cnt the counter -- every load and store checked, no signed overflow, explicit resulting memory.  reg_put (called by
   bufs_load) and lbuf_free (called by bufs_free) are NOT translated: those theorems are about CLiteExt.callx, which is callf
   with an oracle `ext` for the untranslated functions, and hold for EVERY oracle under a hypothesis about its answer on the one
   call that is reached.  tab_rep relates the C table to the model table `bufs s` of BufsDefs.v. *)
From NV Require Import Bytes CLite CLiteProps GenCFuncs CLiteTac CLiteExt TrBufs.
Local Open Scope Z_scope.

(* the oracle semantics: with the oracle that always fails it is callf; whatever succeeds under callf succeeds, with the same
   result, under every oracle *)
Theorem C20_tr_oracle : callf = callx ext_none /\
  (forall ext prog fuel d f args m r, callf prog fuel d f args m = Ok r -> callx ext prog fuel d f args m = Ok r).
Proof. split; [exact callf_callx0|exact callx_mono]. Qed.
Print Assumptions C20_tr_oracle.

(* bufs_find(path): for ANY table whose path cells are NULL or point to C strings (ps lists them) and any path string p: the index
   of the first slot whose path equals p ("/" standing for ""), or -1; memory unchanged *)
Theorem C20_tr_bufs_find : forall m t ps pb p d fuel, tab_at m t -> tab_ok t -> paths_at m t ps ->
  str_at m pb p -> nonul p -> str_at m G_lit__0 [] -> (16 < fuel)%nat ->
  callf cprog fuel (S d) F_bufs_find [VPtr pb 0] m = Ok (VInt (idx_z (first_idx (path_hit (canon p)) ps)), m).
Proof. exact tr_bufs_find. Qed.
Print Assumptions C20_tr_bufs_find.
(* ... and that is the model's bufs_find when the table represents the model table *)
Theorem C20_tr_bufs_find_model : forall (L : Type) m t (s : st L) pb p d fuel, tab_at m t -> tab_ok t -> tab_rep m t (bufs s) ->
  str_at m pb p -> nonul p -> str_at m G_lit__0 [] -> (16 < fuel)%nat ->
  callf cprog fuel (S d) F_bufs_find [VPtr pb 0] m = Ok (VInt (idx_z (bufs_find s p)), m).
Proof. intro L. exact (@tr_bufs_find_model L). Qed.
Print Assumptions C20_tr_bufs_find_model.

(* bufs_findroom(): the first of the slots 0..14 with lb == NULL, else 15 *)
Theorem C20_tr_bufs_findroom : forall m t d fuel, tab_at m t -> tab_ok t -> lbs_ok t -> (15 < fuel)%nat ->
  callf cprog fuel (S d) F_bufs_findroom [] m = Ok (VInt (Z.of_nat (room_of t)), m).
Proof. exact tr_bufs_findroom. Qed.
Print Assumptions C20_tr_bufs_findroom.
Theorem C20_tr_bufs_findroom_model : forall (L : Type) m t (s : st L) d fuel, tab_at m t -> tab_ok t -> tab_rep m t (bufs s) -> (15 < fuel)%nat ->
  callf cprog fuel (S d) F_bufs_findroom [] m = Ok (VInt (Z.of_nat (bufs_findroom s)), m).
Proof. intro L. exact (@tr_bufs_findroom_model L). Qed.
Print Assumptions C20_tr_bufs_findroom_model.

(* bufs_save(): xrow xoff xtop xleft xtd go into row off top left td of slot 0 (td is a short), nothing else changes; and the
   table then represents the model's bufs_save when slot 0 is occupied *)
Theorem C20_tr_bufs_save : forall m t r o tp l td d fuel, tab_at m t -> tab_ok t -> globs_at m r o tp l td ->
  int_ok r -> int_ok o -> int_ok tp -> int_ok l -> int_ok td ->
  callf cprog fuel (S d) F_bufs_save [] m = Ok (VUndef, upd m G_bufs (tab_cells (save0 t r o tp l td))).
Proof. exact tr_bufs_save. Qed.
Print Assumptions C20_tr_bufs_save.
Theorem C20_tr_save_is_model : forall (L : Type) m t (s : st L) r o tp l td b0, tab_rep m t (bufs s) -> xv s = mkview r o tp l td -> short_ok td ->
  nth_error (bufs s) 0 = Some (Some b0) -> tab_rep m (save0 t r o tp l td) (bufs (bufs_save s)).
Proof. intro L. exact (@rep_save L). Qed.
Print Assumptions C20_tr_save_is_model.

(* bufs_load(): the globals are set from slot 0, then reg_put('%', path or "", 0) is called on exactly that memory *)
Theorem C20_tr_bufs_load : forall ext m t r0 o0 tp0 l0 td0 u m' d fuel, tab_at m t -> tab_ok t -> globs_at m r0 o0 tp0 l0 td0 ->
  slot_ints (nths t 0) -> ptr_val (cs_path (nths t 0)) ->
  let s := nths t 0 in
  ext X_reg_put [VInt 37; path_arg (cs_path s); VInt 0] (set_globs m (cs_row s) (cs_off s) (cs_top s) (cs_left s) (cs_td s)) = Ok (u, m') ->
  callx ext cprog fuel (S (S d)) F_bufs_load [] m = Ok (VUndef, m').
Proof. exact tr_bufs_load. Qed.
Print Assumptions C20_tr_bufs_load.

(* bufs_switch(idx) -- C20_switch_permutes on the C text.  A struct buf tmp is allocated (a fresh block at the end of memory);
   bufs_save; if bufs[0].lb is not NULL the translated lbuf_modified runs on exactly that pointer (hypothesis bump_call: it
   leaves m2; TrBufsLbuf.v shows m2 = useq + 1 on that struct); tmp = bufs[idx]; bufs[1..idx] = bufs[0..idx-1]; bufs[0] = tmp
   -- the table is BufsDefs.switch of the saved table, every slot moved as a whole; bufs_load.  For any table, 0 <= idx < 16. *)
Theorem C20_tr_bufs_switch : forall ext m t r o tp l td i m2 u m' d fuel,
  tab_at m t -> tab_ok t -> globs_at m r o tp l td -> int_ok r -> int_ok o -> int_ok tp -> int_ok l -> int_ok td ->
  (i < 16)%nat -> ptr_val (cs_lb (nths t 0)) ->
  let t1 := save0 t r o tp l td in
  let m1 := upd (m ++ [repeat VUndef 41]) G_bufs (tab_cells t1) in
  bump_call ext fuel d (cs_lb (nths t 0)) m1 m2 -> length m2 = length m1 ->
  same_on [G_bufs; length m; G_xrow; G_xoff; G_xtop; G_xleft; G_xtd] m1 m2 ->
  let sx := nths t1 i in
  slot_ints sx -> ptr_val (cs_path sx) ->
  let m4 := upd (upd m2 (length m) (slot_cells sx)) G_bufs (tab_cells (switch t1 i)) in
  ext X_reg_put [VInt 37; path_arg (cs_path sx); VInt 0] (set_globs m4 (cs_row sx) (cs_off sx) (cs_top sx) (cs_left sx) (cs_td sx)) = Ok (u, m') ->
  callx ext cprog fuel (S (S (S d))) F_bufs_switch [VInt (Z.of_nat i)] m = Ok (VUndef, m').
Proof. exact tr_bufs_switch. Qed.
Print Assumptions C20_tr_bufs_switch.
(* ... against the model: the table handed to reg_put represents bufs (bufs_switch Lo s i), the globals are xv (bufs_switch Lo s i),
   every other block below the old end of memory is what lbuf_modified left *)
Theorem C20_tr_bufs_switch_model : forall (L Op Out : Type) (Lo : lops L Op Out) ext m t (s : st L) i b0 m2 u m' d fuel,
  tab_at m t -> tab_ok t -> tab_rep m t (bufs s) -> Forall slot_ints t ->
  let r := v_row (xv s) in let o := v_off (xv s) in let tp := v_top (xv s) in let l := v_left (xv s) in let td := v_td (xv s) in
  globs_at m r o tp l td -> int_ok r -> int_ok o -> int_ok tp -> int_ok l -> short_ok td ->
  (i < 16)%nat -> nth_error (bufs s) 0 = Some (Some b0) ->
  let t1 := save0 t r o tp l td in
  let m1 := upd (m ++ [repeat VUndef 41]) G_bufs (tab_cells t1) in
  bump_call ext fuel d (cs_lb (nths t 0)) m1 m2 -> length m2 = length m1 ->
  same_on [G_bufs; length m; G_xrow; G_xoff; G_xtop; G_xleft; G_xtd] m1 m2 ->
  let s' := bufs_switch Lo s i in
  let t2 := switch t1 i in
  let m5 := set_globs (upd (upd m2 (length m) (slot_cells (nths t1 i))) G_bufs (tab_cells t2))
                      (v_row (xv s')) (v_off (xv s')) (v_top (xv s')) (v_left (xv s')) (v_td (xv s')) in
  ext X_reg_put [VInt 37; path_arg (cs_path (nths t2 0)); VInt 0] m5 = Ok (u, m') ->
  callx ext cprog fuel (S (S (S d))) F_bufs_switch [VInt (Z.of_nat i)] m = Ok (VUndef, m') /\
  tab_at m5 t2 /\ tab_rep m t2 (bufs s') /\
  globs_at m5 (v_row (xv s')) (v_off (xv s')) (v_top (xv s')) (v_left (xv s')) (v_td (xv s')) /\
  (forall b, (b < length m)%nat -> ~ In b [G_bufs; G_xrow; G_xoff; G_xtop; G_xleft; G_xtd] -> nth_error m5 b = nth_error m2 b).
Proof. intros L Op Out Lo. exact (@tr_bufs_switch_model L Op Out Lo). Qed.
Print Assumptions C20_tr_bufs_switch_model.

(* bufs_free(i): nothing when lb is NULL; else free(path), lbuf_free(lb) (oracle; it must keep the table block), the slot zeroed *)
Theorem C20_tr_bufs_free : forall ext m t i mc d fuel, tab_at m t -> tab_ok t -> (i < 16)%nat ->
  ptr_val (cs_lb (nths t i)) -> ptr_val (cs_path (nths t i)) -> freed ext t i m mc ->
  callx ext cprog fuel (S (S d)) F_bufs_free [VInt (Z.of_nat i)] m = Ok (VUndef, mc).
Proof. exact tr_bufs_free. Qed.
Print Assumptions C20_tr_bufs_free.
(* bufs_shift(): after bufs_free(0) (which left mc with table t'), slots 1..15 move down by one and slot 15 is zeroed
   (tl t' ++ [zero] -- the model's tl (bufs s) ++ [None]), then bufs_load *)
Theorem C20_tr_bufs_shift : forall ext m mc t' r0 o0 tp0 l0 td0 uf u m' d fuel,
  callx ext cprog fuel (S (S d)) F_bufs_free [VInt 0] m = Ok (uf, mc) ->
  tab_at mc t' -> tab_ok t' -> globs_at mc r0 o0 tp0 l0 td0 ->
  let t2 := tl t' ++ [cs_zero] in
  let sx := nths t2 0 in
  slot_ints sx -> ptr_val (cs_path sx) ->
  ext X_reg_put [VInt 37; path_arg (cs_path sx); VInt 0]
      (set_globs (upd mc G_bufs (tab_cells t2)) (cs_row sx) (cs_off sx) (cs_top sx) (cs_left sx) (cs_td sx)) = Ok (u, m') ->
  callx ext cprog fuel (S (S (S d))) F_bufs_shift [] m = Ok (VUndef, m').
Proof. exact tr_bufs_shift. Qed.
Print Assumptions C20_tr_bufs_shift.
Theorem C20_tr_shift_is_model : forall (L : Type) m t (s : st L), tab_rep m t (bufs s) ->
  let t2 := tl t ++ [cs_zero] in tab_rep m t2 (bufs (bufs_shift s)) /\ xv (bufs_shift s) = view_of (nths t2 0).
Proof. intro L. exact (@rep_shift L). Qed.
Print Assumptions C20_tr_shift_is_model.

(* bufs_number(): ids 1, 2, ... for the occupied slots in slot order, bufs_cnt their number -- the model's renum *)
Theorem C20_tr_bufs_number : forall m t c0 d fuel, tab_at m t -> tab_ok t -> lbs_ok t -> cell_at m G_bufs_cnt c0 -> (16 < fuel)%nat ->
  callf cprog fuel (S d) F_bufs_number [] m
  = Ok (VUndef, upd (upd m G_bufs (tab_cells (fst (c_renum t 0)))) G_bufs_cnt [VInt (snd (c_renum t 0))]).
Proof. exact tr_bufs_number. Qed.
Print Assumptions C20_tr_bufs_number.
Theorem C20_tr_number_is_model : forall (L : Type) m t (s : st L), tab_rep m t (bufs s) ->
  tab_rep m (fst (c_renum t 0)) (bufs (bufs_number s)) /\ snd (c_renum t 0) = cnt (bufs_number s).
Proof. intro L. exact (@rep_number L). Qed.
Print Assumptions C20_tr_number_is_model.

(* ex_path(): the path cell of slot 0 *)
Theorem C20_tr_ex_path : forall m t d fuel, tab_at m t -> tab_ok t -> ptr_val (cs_path (nths t 0)) ->
  callf cprog fuel (S d) F_ex_path [] m = Ok (cs_path (nths t 0), m).
Proof. exact tr_ex_path. Qed.
Print Assumptions C20_tr_ex_path.

(* ---- the translated functions RUN: three buffers a, b, c in slots 0..2 of a table in memory (the program's global blocks with
   G_bufs and the cursor cells filled in, three path strings and three struct lbuf of 75 cells behind them) *)
Definition exN : nat := length cglobals.
Definition ex_lb (useq : Z) : block := repeat (VInt 0) 68 ++ [VInt useq; VInt 0; VInt 0; VInt 0; VInt 0; VInt 0; VInt 0].
Definition ex_slot (k : nat) (row off top left id td mt : Z) : cslot :=
  mkcs (repeat (VInt 0) 32) (VPtr (exN + k) 0) (VPtr (exN + 3 + k) 0) row off top left id td mt.
Definition ex_tab : list cslot :=
  [ex_slot 0 10 1 5 0 1 1 100; ex_slot 1 20 2 15 0 2 (-1) 200; ex_slot 2 30 3 25 4 3 1 300] ++ repeat cs_zero 13.
Definition ex_mem : mem :=
  upd (upd (upd (upd (upd (upd cglobals G_bufs (tab_cells ex_tab)) G_xrow [VInt 11]) G_xoff [VInt 7]) G_xtop [VInt 6]) G_xleft [VInt 2]) G_xtd [VInt 1]
  ++ [cstr_block [97]; cstr_block [98]; cstr_block [99]; ex_lb 5; ex_lb 6; ex_lb 7].
Definition ex_view (r o tp l td : Z) := mkview r o tp l td.
Definition ex_st : st unit :=
  BufsDefs.mkst [Some (mkbuf 1 [97%N] tt (ex_view 10 1 5 0 1) 100); Some (mkbuf 2 [98%N] tt (ex_view 20 2 15 0 (-1)) 200);
                 Some (mkbuf 3 [99%N] tt (ex_view 30 3 25 4 1) 300); None; None; None; None; None; None; None; None; None; None; None; None; None]
                3 (ex_view 11 7 6 2 1) [] [] 0 false false [].
(* reg_put answers "done, memory as it was"; everything else is untranslated *)
Definition ex_ext : nat -> list val -> mem -> res (val * mem) := fun f _ m => if Nat.eqb f X_reg_put then Ok (VUndef, m) else Err EShape.

Example C20_tr_nonvacuous :
  tab_at ex_mem ex_tab /\ tab_ok ex_tab /\ tab_rep ex_mem ex_tab (bufs ex_st) /\ Forall slot_ints ex_tab /\
  globs_at ex_mem 11 7 6 2 1 /\ str_at ex_mem G_lit__0 [] /\
  (* bufs_find("c") = 2, bufs_find("/") = -1, bufs_findroom() = 3, memory unchanged *)
  callf cprog 20 1 F_bufs_find [VPtr (exN + 2) 0] ex_mem = Ok (VInt 2, ex_mem) /\
  callf cprog 20 1 F_bufs_findroom [] ex_mem = Ok (VInt 3, ex_mem) /\
  (* bufs_switch(2): the table is c, a (with the cursor saved), b; a's struct lbuf has useq 6; the cursor is c's saved view *)
  match callx ex_ext cprog 20 3 F_bufs_switch [VInt 2] ex_mem with
  | Ok (_, m') =>
      nth_error m' G_bufs = Some (tab_cells ([ex_slot 2 30 3 25 4 3 1 300; ex_slot 0 11 7 6 2 1 1 100; ex_slot 1 20 2 15 0 2 (-1) 200] ++ repeat cs_zero 13)) /\
      nth_error m' (exN + 3) = Some (ex_lb 6) /\ nth_error m' (exN + 4) = Some (ex_lb 6) /\ nth_error m' (exN + 5) = Some (ex_lb 7) /\
      globs_at m' 30 3 25 4 1
  | Err _ => False
  end /\
  (* the same table from the model *)
  map (fun x => match x with Some b => Some (b_id b, b_view b) | None => None end) (firstn 3 (bufs (bufs_switch clb_ops
     (BufsDefs.mkst (map (fun x => match x with Some b => Some (mkbuf (b_id b) (b_path b) clb_make (b_view b) (b_mtime b)) | None => None end) (bufs ex_st))
                    3 (xv ex_st) [] [] 0 false false []) 2)))
  = [Some (3, ex_view 30 3 25 4 1); Some (1, ex_view 11 7 6 2 1); Some (2, ex_view 20 2 15 0 (-1))].
Proof.
  split; [vm_compute; reflexivity|]. split; [split; [reflexivity|repeat constructor]|].
  split.
  { unfold tab_rep, ex_tab, ex_st. cbn [bufs app repeat].
    repeat (apply Forall2_cons; [first [ cbn [slot_rep]; split; [apply path_str; [vm_compute; reflexivity|repeat constructor; vm_compute; reflexivity]|];
                                          split; [eexists; eexists; reflexivity|]; repeat split
                                        | cbn [slot_rep]; repeat split ]|]).
    apply Forall2_nil. }
  split; [repeat constructor; vm_compute; intro H; discriminate H|].
  split; [constructor; vm_compute; reflexivity|]. split; [vm_compute; reflexivity|].
  split; [vm_compute; reflexivity|]. split; [vm_compute; reflexivity|].
  split; [|vm_compute; reflexivity].
  vm_compute. repeat split.
Qed.
