(* ViTargetProps.v -- C08: every target of a successful motion is a position of the buffer (built on the C07
   specifications of MotWordProps.v), hence the character-wise delete theorem without side conditions. *)
From Coq Require Import List NArith ZArith Lia Bool ZifyN ZifyBool ZifyNat.
From NV Require Import Bytes UcDefs UcSpec UcSegProps MotDefs MotProps MotWordProps RegDefs RegProps ViDefs ViProps ViExecProps.
Import ListNotations.
Local Open Scope Z_scope.

(* ====================================================================================== *)
(* every target of a successful motion is a position of the buffer                          *)
(* ====================================================================================== *)
Lemma vpos_row b r o : vpos b r o -> 0 <= r < blen b.
Proof. intros (l & E & _). apply getl_some in E. lia. Qed.
Lemma vpos_intro b r o l : getl b r = Some l -> 0 <= o < slen l -> vpos b r o.
Proof. intros. exists l. auto. Qed.

Lemma findchar_vpos b cs cmd n r o o' : vpos b r o -> lbuf_findchar b cs cmd n r o = Some o' -> vpos b r o'.
Proof.
  intros (l & El & Ho) E. unfold lbuf_findchar in E. rewrite El in E.
  destruct (Z.abs n =? 0); [inversion E; subst; eapply vpos_intro; eassumption|].
  set (dir := if n <? 0 then - (if is_ft cmd then 1 else -1) else if is_ft cmd then 1 else -1) in E.
  destruct (0 <? dir).
  - destruct (find_nth cs (Z.to_nat (Z.abs n)) (skipn (Z.to_nat (o + 1)) l) 0) as [k|] eqn:F; [|discriminate].
    apply find_nth_bounds in F. rewrite skipn_length in F. unfold slen in Ho. inversion E; subst.
    apply (vpos_intro b r _ l El). unfold slen. destruct (is_tT cmd); lia.
  - destruct (find_nth cs (Z.to_nat (Z.abs n)) (rev (firstn (Z.to_nat o) l)) 0) as [k|] eqn:F; [|discriminate].
    apply find_nth_bounds in F. rewrite rev_length, firstn_length in F. unfold slen in Ho. inversion E; subst.
    apply (vpos_intro b r _ l El). unfold slen. destruct (is_tT cmd); lia.
Qed.

Lemma ren_off_lt l p : 1 <= slen l -> 0 <= ren_off l p < slen l.
Proof.
  intro H. unfold ren_off. set (ps := positions l). set (p' := pos_prev ps p true).
  destruct (last_index_spec p' ps 0 (-1)) as [[E _]|(k & Hk & E & _)]; rewrite E.
  - cbn. lia.
  - unfold ps in Hk. rewrite positions_len in Hk. unfold slen. destruct (Z.leb_spec 0 (0 + Z.of_nat k)); lia.
Qed.
Lemma para_step_range b dir r : 1 <= blen b -> 0 <= fst (lbuf_paragraphbeg b dir r) < blen b /\ snd (lbuf_paragraphbeg b dir r) = 0.
Proof. intro H. unfold lbuf_paragraphbeg. cbn [fst snd]. split; [lia|reflexivity]. Qed.
Lemma para_iter_vpos b dir : b <> [] -> buf_wf b -> forall n p, 0 <= fst p < blen b ->
  let q := Nat.iter n (fun p => lbuf_paragraphbeg b dir (fst p)) p in (n <> 0%nat -> vpos b (fst q) (snd q)) /\ 0 <= fst q < blen b.
Proof.
  intros NE HW.
  assert (Hb : 1 <= blen b) by (unfold blen; destruct b; [contradiction|cbn [length]; lia]).
  induction n as [|n IH]; intros p Hp; cbv zeta; [split; [congruence|exact Hp]|].
  change (Nat.iter (S n) (fun p0 : Z * Z => lbuf_paragraphbeg b dir (fst p0)) p) with (lbuf_paragraphbeg b dir (fst (Nat.iter n (fun p0 : Z * Z => lbuf_paragraphbeg b dir (fst p0)) p))).
  set (q := Nat.iter n _ p).
  destruct (para_step_range b dir (fst q) Hb) as [Hr Hs]. split; [|exact Hr]. intros _.
  destruct (getl_in_range b _ Hr) as (l & El). rewrite Hs. apply (vpos_intro b _ 0 l El).
  pose proof (wf_slen_pos l (getl_wf _ _ _ HW El)). lia.
Qed.

Lemma vi_motion_vpos b rows top cl cc pc has cnt k row off r o cl' cc' pc' :
  buf_wf b -> vpos b row off -> vi_motion b rows top cl cc pc has cnt k row off = MvOk r o cl' cc' pc' -> o = -1 \/ vpos b r o.
Proof.
  intros HW V E. pose proof (buf_wf_ne b HW) as NE. destruct V as (l & El & Ho). assert (V : vpos b row off) by (exists l; auto).
  assert (Hne : b <> []) by (intro; subst b; unfold getl in El; destruct (row <? 0); [discriminate|destruct (Z.to_nat row); discriminate]).
  pose proof (getl_wf _ _ _ HW El) as Wl. pose proof (wf_slen_pos l Wl) as Hp.
  (* word motions, h l, { } through their specifications *)
  destruct (word_key k) eqn:WK.
  { destruct (word_motion_spec b rows top cl cc pc has cnt k row off NE V WK) as (r' & o' & E' & V' & _).
    rewrite E' in E. inversion E; subst. right. exact V'. }
  assert (HL : k = Kh \/ k = Kl -> o = -1 \/ vpos b r o).
  { intros [->| ->]; destruct (hl_motion_spec b rows top cl cc pc has cnt row off l HW El Ho) as [E1 E2].
    - rewrite E1 in E. inversion E; subst. right. apply (vpos_intro b r _ l El). lia.
    - rewrite E2 in E. inversion E; subst. right. apply (vpos_intro b r _ l El). lia. }
  assert (PA : k = Krbrace \/ k = Klbrace -> o = -1 \/ vpos b r o).
  { intros K. assert (exists fwd : bool, k = if fwd then Krbrace else Klbrace) as (fwd & ->) by (destruct K; [exists true|exists false]; assumption).
    rewrite para_motion_spec in E. cbv zeta in E. inversion E; subst. right.
    destruct (Z.to_nat cnt) as [|n] eqn:EN.
    - cbn [Nat.iter fst snd]. exact V.
    - apply (para_iter_vpos b (if fwd then 1 else -1) Hne HW (S n) (row, off)); [cbn [fst]; apply (vpos_row b row off V)|discriminate]. }
  unfold vi_motion in E.
  destruct (vi_motionln b rows top has cnt k row) as [[r1|]|] eqn:ML; [inversion E; left; reflexivity|discriminate|].
  assert (FC : forall cs cmd n, match lbuf_findchar b cs cmd n row off with Some o0 => MvOk row o0 cs cmd pc | None => MvFail cs cmd end
                 = MvOk r o cl' cc' pc' -> o = -1 \/ vpos b r o).
  { intros cs cmd n E1. destruct (lbuf_findchar b cs cmd n row off) eqn:F; [|discriminate]. inversion E1; subst.
    right. eapply findchar_vpos; eassumption. }
  destruct k; try discriminate; try (apply HL; auto; fail); try (apply PA; auto; fail); try (eapply FC; exact E).
  - (* 0 *) inversion E; subst. right. apply (vpos_intro b r 0 l El). lia.
  - (* ^ *) inversion E; subst. right. apply (vpos_intro b r _ l El). rewrite (lbuf_eol_some b r l El Wl).
    pose proof (lbuf_indents_nonneg b r). lia.
  - (* $ *) inversion E; subst. right. apply (vpos_intro b r _ l El). rewrite (lbuf_eol_some b r l El Wl). lia.
  - (* | *) inversion E; subst. right. apply (vpos_intro b r _ l El). unfold vi_col2off. rewrite El. apply ren_off_lt, Hp.
  - (* ; *) destruct cl; [discriminate|]. eapply FC; exact E.
  - (* , *) destruct cl; [discriminate|]. eapply FC; exact E.
  - (* % *) destruct (lbuf_pair (mfuel b) b row off) as [[[r0 o0]|]|] eqn:P; try discriminate. inversion E; subst.
    pose proof (pair_spec b row off NE V) as PS. rewrite P in PS. destruct PS as (o1 & c & pidx & _ & V' & _). right. exact V'.
  - (* space *) rewrite (nextoff_fwd b row l El) in E by exact Ho. inversion E; subst. right. apply (vpos_intro b r _ l El). lia.
  - (* ^H *) rewrite (nextoff_bwd b row l El) in E by exact Ho. inversion E; subst. right. apply (vpos_intro b r _ l El). lia.
Qed.

Lemma op_target_vpos b rows s a1 a2 t k r2 o2 cl cc pc : buf_wf b -> b <> [] -> cursor_ok b (v_row s) (v_off s) ->
  op_target b rows s a1 a2 t (ren_noeol (getl b (v_row s)) (v_off s)) = TOk k r2 o2 cl cc pc -> o2 = -1 \/ vpos b r2 o2.
Proof.
  intros HW NE HC E. pose proof (cursor_ok_vpos b _ _ NE HC) as V. destruct V as (l & El & Ho).
  assert (RN : ren_noeol (getl b (v_row s)) (v_off s) = v_off s).
  { rewrite El. apply ren_noeol_id; [apply (getl_wf _ _ _ HW El)|]. unfold cursor_ok in HC. rewrite El in HC. exact HC. }
  rewrite RN in E. unfold op_target in E. destruct t as [k0|]; [|inversion E; left; reflexivity].
  destruct (vi_motion _ _ _ _ _ _ _ _ _ _ _) eqn:M; try discriminate. inversion E; subst.
  eapply vi_motion_vpos; [exact HW| |exact M]. exists l. auto.
Qed.

(* character-wise delete, without side conditions on the region: the two rows exist and the region ends at or before
   the terminator of its last line, for every motion *)
Lemma delete_chars_total rows e y a1 a2 t k r2 o2 cl cc pc e1 : plain_reg y ->
  let b := s_buf e in let s := s_vs e in
  let o1 := ren_noeol (getl b (v_row s)) (v_off s) in
  buf_wf b -> buf_valid b -> b <> [] -> cursor_ok b (v_row s) (v_off s) ->
  op_target b rows s a1 a2 t o1 = TOk k r2 o2 cl cc pc ->
  let g := vc_region b k (v_row s) o1 r2 o2 in
  g_ln g = false ->
  exec_op rows e y a1 Od a2 t [] = Some e1 ->
  exists l1 l2, getl b (g_r1 g) = Some l1 /\ getl b (g_r2 g) = Some l2 /\ g_o2 g <= slen l2 - 1 /\
  let nl := sub_l l1 0 (g_o1 g) ++ sub_l l2 (g_o2 g) (-1) in
  let txt := lbuf_region b (g_r1 g) (g_o1 g) (g_r2 g) (g_o2 g) in
  reg_get (s_regs e1) y = Some (flat txt, false) /\
  s_buf e1 = firstn (Z.to_nat (g_r1 g)) b ++ [nl] ++ skipn (Z.to_nat (g_r2 g + 1)) b /\
  v_row (s_vs e1) = g_r1 g /\
  (off_ok nl (g_o1 g) -> flat txt <> [] -> v_off (s_vs e1) = g_o1 g /\ s_buf (exec_put rows e1 y 0 false) = b).
Proof.
  intros Hy b s o1 HW HV NE HC E g Hln X.
  pose proof (cursor_ok_off _ _ _ HC) as H0.
  pose proof (cursor_ok_vpos b _ _ NE HC) as (lc & Elc & Hoc).
  assert (RN : o1 = v_off s).
  { unfold o1. rewrite Elc. apply ren_noeol_id; [apply (getl_wf _ _ _ HW Elc)|]. unfold cursor_ok in HC. rewrite Elc in HC. exact HC. }
  destruct (op_target_vpos b rows s a1 a2 t k r2 o2 cl cc pc HW NE HC E) as [Hm|(lt & Elt & Hot)].
  { exfalso. destruct (vc_region_rows b k (v_row s) o1 r2 o2) as (_ & _ & C). fold g in C. rewrite Hln, Hm in C. discriminate. }
  assert (H1 : 0 <= o1) by (rewrite RN; exact H0).
  destruct (vc_region_spec b k (v_row s) o1 r2 o2 HW H1) as [_ S]. specialize (S ltac:(lia)). fold g in S.
  assert (ROWS : exists l1 l2, getl b (g_r1 g) = Some l1 /\ getl b (g_r2 g) = Some l2 /\ g_o2 g <= slen l2 - 1).
  { unfold ends in S. destruct (lex_leb (v_row s) o1 r2 o2); destruct S as (_ & Ea & Eb & _ & Eo2 & _); rewrite Ea, Eb, Eo2.
    - exists lc, lt. repeat split; try assumption. rewrite (lbuf_eol_some b r2 lt Elt (getl_wf _ _ _ HW Elt)).
      destruct (incl_key k); cbn [andb]; [|lia]. destruct (Z.ltb_spec o2 (slen lt - 1)); lia.
    - exists lt, lc. repeat split; try assumption. rewrite (lbuf_eol_some b (v_row s) lc Elc (getl_wf _ _ _ HW Elc)).
      destruct (incl_key k); cbn [andb]; [|lia]. destruct (Z.ltb_spec o1 (slen lc - 1)); lia. }
  destruct ROWS as (l1 & l2 & G1 & G2 & G3). exists l1, l2. split; [exact G1|]. split; [exact G2|]. split; [exact G3|].
  exact (delete_chars_spec rows e y a1 a2 t k r2 o2 cl cc pc e1 l1 l2 Hy HW HV H0 E Hln G1 G2 G3 X).
Qed.

(* ====================================================================================== *)
(* line-wise targets                                                                         *)
(* ====================================================================================== *)
Lemma vi_motion_off_nonline b rows top cl cc pc has cnt k row off r o cl' cc' pc' :
  0 <= off -> vi_motionln b rows top has cnt k row = None ->
  vi_motion b rows top cl cc pc has cnt k row off = MvOk r o cl' cc' pc' -> 0 <= o.
Proof.
  intros H ML E. unfold vi_motion in E. rewrite ML in E.
  assert (OK : forall p : option (Z * Z), (forall y, p = Some y -> 0 <= snd y) ->
     match p with Some (r0, o0) => MvOk r0 o0 cl cc pc | None => MvFuel end = MvOk r o cl' cc' pc' -> 0 <= o).
  { intros p Hp E1. destruct p as [[r0 o0]|]; [|discriminate]. inversion E1; subst. apply (Hp (r, o) eq_refl). }
  assert (FC : forall cs cmd n, match lbuf_findchar b cs cmd n row off with Some o0 => MvOk row o0 cs cmd pc | None => MvFail cs cmd end
                 = MvOk r o cl' cc' pc' -> 0 <= o).
  { intros cs cmd n E1. destruct (lbuf_findchar b cs cmd n row off) eqn:F; [|discriminate]. inversion E1; subst.
    eapply findchar_nn; eauto. }
  assert (W : forall f : Z -> Z -> option st3, (forall r o, 0 <= o -> nn3 (f r o)) ->
            forall y, iter_break (Z.to_nat cnt) (wstep f) (row, off) = Some y -> 0 <= snd y).
  { intros f Hf y Ey. eapply (iter_break_inv (fun x => 0 <= snd x)); [apply wstep_nn, Hf| |exact Ey]. exact H. }
  destruct k; try discriminate; try (eapply FC; exact E);
    try (eapply OK; [|exact E]; intros y Ey; eapply W; [|exact Ey]; intros; first [apply wordend_nn|apply wordbeg_nn]; assumption).
  - (* h *) eapply OK; [|exact E]. intros y Ey. eapply (iter_break_inv (fun x => 0 <= snd x)); [| |exact Ey]; [|exact H].
    intros [r0 o0] s y0 Hx Es. unfold vi_nextcol in Es. destruct (getl b r0); [|inversion Es; subst; exact Hx].
    destruct (_ <? 0); inversion Es; subst; [exact Hx|]. cbn. apply ren_off_nonneg.
  - (* l *) eapply OK; [|exact E]. intros y Ey. eapply (iter_break_inv (fun x => 0 <= snd x)); [| |exact Ey]; [|exact H].
    intros [r0 o0] s y0 Hx Es. unfold vi_nextcol in Es. destruct (getl b r0); [|inversion Es; subst; exact Hx].
    destruct (_ <? 0); inversion Es; subst; [exact Hx|]. cbn. apply ren_off_nonneg.
  - (* 0 *) inversion E; lia.
  - (* ^ *) inversion E; subst. pose proof (lbuf_eol_nonneg b r). assert (0 <= lbuf_indents b r) by (unfold lbuf_indents; destruct (getl b _); [apply count_space_nonneg|lia]). lia.
  - (* $ *) inversion E. apply lbuf_eol_nonneg.
  - (* | *) inversion E; subst. unfold vi_col2off. destruct (getl b _); [apply ren_off_nonneg|lia].
  - (* ; *) destruct cl; [discriminate|]. eapply FC; exact E.
  - (* , *) destruct cl; [discriminate|]. eapply FC; exact E.
  - (* % *) destruct (lbuf_pair (mfuel b) b row off) as [[[r0 o0]|]|] eqn:P; try discriminate. inversion E; subst.
    unfold lbuf_pair in P. destruct (pair_scan _ b row off) as [[o1 c]|] eqn:S1; [|discriminate].
    apply pair_scan_nn in S1; [|exact H]. destruct (index_of c pairs 0); [|discriminate].
    eapply pair_loop_nn; [|exact P]. exact S1.
  - (* { *) eapply OK; [|exact E]. intros y Ey. eapply (iter_break_inv (fun x => 0 <= snd x)); [| |exact Ey]; [|exact H].
    intros x s y0 _ Es. inversion Es. cbn. lia.
  - (* } *) eapply OK; [|exact E]. intros y Ey. eapply (iter_break_inv (fun x => 0 <= snd x)); [| |exact Ey]; [|exact H].
    intros x s y0 _ Es. inversion Es. cbn. lia.
  - (* space *) eapply OK; [|exact E]. intros y Ey. eapply (iter_break_inv (fun x => 0 <= snd x)); [| |exact Ey]; [|exact H].
    intros [r0 o0] s y0 Hx Es. unfold vi_nextoff, lbuf_lnnext in Es. destruct (getl b r0); [|inversion Es; subst; exact Hx].
    destruct ((_ <? 0) || _) eqn:B; inversion Es; subst; [exact Hx|]. cbn. apply orb_false_iff in B. lia.
  - (* ^H *) eapply OK; [|exact E]. intros y Ey. eapply (iter_break_inv (fun x => 0 <= snd x)); [| |exact Ey]; [|exact H].
    intros [r0 o0] s y0 Hx Es. unfold vi_nextoff, lbuf_lnnext in Es. destruct (getl b r0); [|inversion Es; subst; exact Hx].
    destruct ((_ <? 0) || _) eqn:B; inversion Es; subst; [exact Hx|]. cbn. apply orb_false_iff in B. lia.
Qed.

(* ---------- line-wise targets are rows of the buffer ---------- *)
Lemma motionln_range b rows top has cnt k row r : 0 <= row < blen b -> 0 <= cnt ->
  vi_motionln b rows top has cnt k row = Some (Some r) -> 0 <= r < blen b.
Proof.
  intros Hr Hc E. unfold vi_motionln in E. cbv zeta in E.
  destruct k; try discriminate; try (destruct has; try discriminate);
    repeat match type of E with context [if ?c then _ else _] => destruct c eqn:? end; try discriminate;
    inversion E; subst; clear E; try lia.
  all: try (assert (Z.max 0 (blen b - 1) * cnt / 100 <= blen b - 1) by (apply Z.div_le_upper_bound; nia);
            assert (0 <= Z.max 0 (blen b - 1) * cnt / 100) by (apply Z.div_pos; nia); lia).
Qed.
Lemma op_target_row b rows s a1 a2 t k r2 cl cc pc o1 : 0 <= v_row s < blen b -> 0 <= a1 -> 0 <= a2 -> 0 <= o1 ->
  op_target b rows s a1 a2 t o1 = TOk k r2 (-1) cl cc pc -> 0 <= r2 < blen b.
Proof.
  intros Hr H1 H2 Ho1 E. unfold op_target in E.
  set (cnt := (if a1 =? 0 then 1 else a1) * (if a2 =? 0 then 1 else a2)) in *.
  assert (Hc : 1 <= cnt) by (unfold cnt; destruct (Z.eqb_spec a1 0); destruct (Z.eqb_spec a2 0); nia).
  destruct t as [k0|].
  - destruct (vi_motion _ _ _ _ _ _ _ _ _ _ _) eqn:M; try discriminate. inversion E; subst. clear E.
    unfold vi_motion in M. destruct (vi_motionln b rows (v_top s) _ cnt k (v_row s)) as [[r1|]|] eqn:ML.
    + inversion M; subst. eapply motionln_range; [exact Hr| |exact ML]. lia.
    + discriminate.
    + exfalso. assert (0 <= -1); [|lia].
      eapply (vi_motion_off_nonline b rows (v_top s) (v_cl s) (v_cc s) (v_pcol s) _ cnt k (v_row s) o1); [exact Ho1|exact ML|].
      unfold vi_motion. rewrite ML. exact M.
  - inversion E; subst. destruct (Z.ltb_spec (Z.min (v_row s + cnt - 1) (blen b - 1)) 0); lia.
Qed.

(* line-wise delete without side conditions on the region *)
Lemma delete_lines_total rows e y a1 a2 t k r2 o2 cl cc pc e1 : plain_reg y ->
  let b := s_buf e in let s := s_vs e in
  let o1 := ren_noeol (getl b (v_row s)) (v_off s) in
  buf_wf b -> buf_valid b -> b <> [] -> cursor_ok b (v_row s) (v_off s) -> 0 <= a1 -> 0 <= a2 ->
  op_target b rows s a1 a2 t o1 = TOk k r2 o2 cl cc pc ->
  let g := vc_region b k (v_row s) o1 r2 o2 in
  g_ln g = true ->
  exec_op rows e y a1 Od a2 t [] = Some e1 ->
  0 <= g_r1 g /\ g_r1 g <= g_r2 g /\ g_r2 g < blen b /\
  reg_get (s_regs e1) y = Some (ViDefs.flat (concat (rows_between b (g_r1 g) (g_r2 g + 1))), true) /\
  s_buf e1 = firstn (Z.to_nat (g_r1 g)) b ++ skipn (Z.to_nat (g_r2 g + 1)) b /\
  (g_r2 g + 1 < blen b -> v_row (s_vs e1) = g_r1 g /\ s_buf (exec_put rows e1 y 0 false) = b).
Proof.
  intros Hy b s o1 HW HV NE HC Ha1 Ha2 E g Hln X.
  pose proof (cursor_ok_off _ _ _ HC) as H0. pose proof (cursor_ok_vpos b _ _ NE HC) as V. pose proof (vpos_row _ _ _ V) as Hr.
  assert (Ho1 : 0 <= o1) by (apply ren_noeol_nonneg, H0).
  destruct (vc_region_rows b k (v_row s) o1 r2 o2) as (A & B & C). fold g in A, B, C. rewrite Hln in C.
  assert (Hm : o2 = -1).
  { destruct (op_target_off b rows s a1 a2 t o1 k r2 o2 cl cc pc Ho1 E) as [P|P]; [|exact P]. destruct (Z.ltb_spec o2 0); [lia|discriminate]. }
  subst o2. pose proof (op_target_row b rows s a1 a2 t k r2 cl cc pc o1 Hr Ha1 Ha2 Ho1 E) as Hr2.
  assert (R1 : 0 <= g_r1 g) by lia. assert (R2 : g_r2 g < blen b) by lia.
  split; [exact R1|]. split; [lia|]. split; [exact R2|].
  exact (delete_lines_spec rows e y a1 a2 t k r2 (-1) cl cc pc e1 Hy HW HV E Hln R1 R2 X).
Qed.

(* ====================================================================================== *)
(* totality                                                                                  *)
(* ====================================================================================== *)
(* ---------- no command runs out of fuel on a non-empty buffer ---------- *)
Lemma exec1_total rows c e : est_inv e -> s_buf e <> [] -> exec1 rows c e <> None.
Proof.
  intros (HV & HW & HC) NE. pose proof (cursor_ok_vpos _ _ _ NE HC) as V. destruct V as (l & El & Ho).
  assert (RN : ren_noeol (getl (s_buf e) (v_row (s_vs e))) (v_off (s_vs e)) = v_off (s_vs e)).
  { rewrite El. apply ren_noeol_id; [apply (getl_wf _ _ _ HW El)|]. unfold cursor_ok in HC. rewrite El in HC. exact HC. }
  assert (NF : forall top cl cc pc has cnt k, vi_motion (s_buf e) rows top cl cc pc has cnt k (v_row (s_vs e)) (v_off (s_vs e)) <> MvFuel).
  { intros. apply vi_motion_total_wf; [exact HW|]. exists l. auto. }
  destruct c; cbn [exec1]; try discriminate.
  - unfold do_motion. rewrite RN. destruct (vi_motion _ _ _ _ _ _ _ _ _ _ _) eqn:M; try discriminate. exfalso. eapply NF, M.
  - unfold exec_op. rewrite RN. unfold op_target. destruct t as [k|]; [|discriminate].
    destruct (vi_motion _ _ _ _ _ _ _ _ _ _ _) eqn:M; try discriminate. exfalso. eapply NF, M.
Qed.

Lemma getl_nil r : getl [] r = None.
Proof. unfold getl. destruct (r <? 0); [reflexivity|]. destruct (Z.to_nat r); reflexivity. Qed.
Lemma lchr_nil r o : lchr [] r o = [].
Proof. unfold lchr. rewrite getl_nil. reflexivity. Qed.
Lemma lbuf_next_nil dir r o : exists r', lbuf_next [] dir r o = (true, r', o).
Proof.
  unfold lbuf_next, lbuf_lnnext. rewrite !getl_nil. eexists. reflexivity.
Qed.
Lemma iter_break_first {A} (step : A -> option (bool * A)) x : (forall y, exists z, step y = Some (true, z)) ->
  forall n, exists z, iter_break n step x = Some z.
Proof. intros H n. destruct n; cbn [iter_break]; [eexists; reflexivity|]. destruct (H x) as (z & ->). eexists. reflexivity. Qed.

Lemma vi_motion_empty rows top cl cc pc has cnt k row off : vi_motion [] rows top cl cc pc has cnt k row off <> MvFuel.
Proof.
  unfold vi_motion. destruct (vi_motionln [] rows top has cnt k row) as [[r1|]|]; try discriminate.
  assert (WL : forall kind dir r o, exists s r', lbuf_wordlast (mfuel []) [] kind dir r o = Some (s, r', o)).
  { intros. unfold lbuf_wordlast. destruct (N.eqb kind 0 || negb (kmatch [] kind r o)); [do 2 eexists; reflexivity|].
    change (mfuel []) with 2%nat. cbn [wordlast_loop]. destruct (kmatch [] kind r o).
    - destruct (lbuf_next_nil dir r o) as (r' & ->). do 2 eexists. reflexivity.
    - destruct (lbuf_next_nil (- dir) r o) as (r' & ->). do 2 eexists. reflexivity. }
  assert (WB : forall big r o, exists z, wstep (lbuf_wordbeg (mfuel []) [] big 1) (r, o) = Some (true, z)).
  { intros. unfold wstep, lbuf_wordbeg. cbn [fst snd].
    destruct (WL (if big then 3%N else kindof [] r o) 1 r o) as (s0 & r' & ->). rewrite lchr_nil.
    destruct (lbuf_next_nil 1 r' o) as (r'' & ->). eexists. reflexivity. }
  assert (WE : forall big dir r o, exists z, wstep (lbuf_wordend (mfuel []) [] big dir) (r, o) = Some (true, z)).
  { intros. unfold wstep, lbuf_wordend. cbn [fst snd]. rewrite lchr_nil. cbn [uc_isspace hd0 negb]. 
    change (uc_isspace []) with false. cbn [negb]. destruct (lbuf_next_nil dir r o) as (r' & E). rewrite E. eexists. reflexivity. }
  assert (NO : forall dir p, exists z, vi_nextoff [] dir p = Some (true, z)).
  { intros dir [r o]. unfold vi_nextoff, lbuf_lnnext. rewrite getl_nil. eexists. reflexivity. }
  assert (NC : forall dir p, exists z, vi_nextcol [] dir p = Some (true, z)).
  { intros dir [r o]. unfold vi_nextcol. rewrite getl_nil. eexists. reflexivity. }
  assert (WB' : forall big y, exists z, wstep (lbuf_wordbeg (mfuel []) [] big 1) y = Some (true, z)) by (intros big [r o]; apply WB).
  assert (WE' : forall big dir y, exists z, wstep (lbuf_wordend (mfuel []) [] big dir) y = Some (true, z)) by (intros big dir [r o]; apply WE).
  assert (IB : forall (st : Z * Z -> option (bool * (Z * Z))), (forall y, exists z, st y = Some (true, z)) ->
     match iter_break (Z.to_nat cnt) st (row, off) with Some (r, o) => MvOk r o cl cc pc | None => MvFuel end <> MvFuel).
  { intros st H. destruct (iter_break_first st (row, off) H (Z.to_nat cnt)) as ([r' o'] & ->). discriminate. }
  destruct k; try discriminate;
    try (unfold lbuf_findchar; rewrite getl_nil; discriminate);
    try (apply IB; first [apply WB'|apply WE'|apply NO|apply NC]).
  - destruct cl; [discriminate|]. unfold lbuf_findchar. rewrite getl_nil. discriminate.
  - destruct cl; [discriminate|]. unfold lbuf_findchar. rewrite getl_nil. discriminate.
  - unfold lbuf_pair. rewrite getl_nil. cbn [pair_scan]. rewrite lchr_nil. cbn. discriminate.
  - rewrite iter_nobreak. destruct (Nat.iter _ _ _). discriminate.
  - rewrite iter_nobreak. destruct (Nat.iter _ _ _). discriminate.
Qed.

Lemma exec1_total_all rows c e : est_inv e -> exec1 rows c e <> None.
Proof.
  intro HI. destruct (s_buf e) as [|l0 b0] eqn:Eb; [|apply exec1_total; [exact HI|rewrite Eb; discriminate]].
  destruct c; cbn [exec1]; try discriminate.
  - unfold do_motion. rewrite Eb. destruct (vi_motion [] _ _ _ _ _ _ _ _ _ _) eqn:M; try discriminate. exfalso. eapply vi_motion_empty, M.
  - unfold exec_op, op_target. rewrite Eb. destruct t as [k|]; [|discriminate].
    destruct (vi_motion [] _ _ _ _ _ _ _ _ _ _) eqn:M; try discriminate. exfalso. eapply vi_motion_empty, M.
Qed.
Lemma exec_total rows cs : forall e, est_inv e -> Forall cmd_valid cs -> exists e', exec rows cs e = Some e' /\ est_inv e'.
Proof.
  induction cs as [|c cs IH]; intros e HI Hc; cbn [exec]; [exists e; auto|].
  inversion Hc; subst. destruct (exec1 rows c e) as [e1|] eqn:E1; [|exfalso; eapply exec1_total_all; eassumption].
  apply IH; [eapply exec1_inv; eassumption|assumption].
Qed.

(* ---------- >> and << with a count ---------- *)
Lemma shift_line_wf right l : line_wf l -> line_wf (shift_line right l).
Proof.
  intros (body & -> & Hb). unfold shift_line. destruct right.
  - destruct body as [|c body']; cbn [app]; [exists []; split; [reflexivity|constructor]|].
    inversion Hb; subst. unfold is_nlb. destruct (N.eqb_spec (b0 c) 10); [contradiction|].
    exists ([9%N] :: c :: body'). split; [reflexivity|]. constructor; [cbn; lia|exact Hb].
  - destruct body as [|c body']; cbn [app].
    + change (is_blankc [10%N]) with false. cbv iota. exists []. split; [reflexivity|constructor].
    + destruct (is_blankc c); [inversion Hb; subst; exists body'; auto|exists (c :: body'); auto].
Qed.
Lemma shift_rows_map right : forall (x : buf) (pre post : buf), buf_wf x ->
  shift_rows right (length x) (Z.of_nat (length pre)) (pre ++ x ++ post) = pre ++ map (shift_line right) x ++ post.
Proof.
  induction x as [|l x IH]; intros pre post Hx; cbn [length shift_rows map app]; [reflexivity|].
  inversion Hx; subst.
  assert (G : getl (pre ++ l :: x ++ post) (Z.of_nat (length pre)) = Some l).
  { rewrite getl_app_r by lia. rewrite Z.sub_diag. reflexivity. }
  rewrite G.
  replace (Z.of_nat (length pre) + 1) with (Z.of_nat (length pre) + Z.of_nat (@length line [l])) by (cbn [length]; lia).
  rewrite lbuf_edit_some by (try lia; rewrite !blen_app; unfold blen; cbn [length]; lia).
  rewrite (split_text_line _ (shift_line_wf right l ltac:(assumption))).
  change (pre ++ l :: x ++ post) with (pre ++ [l] ++ (x ++ post)). rewrite set_row_decomp.
  rewrite (app_assoc pre _ (x ++ post)).
  match goal with |- context [shift_rows _ _ _ (?p ++ x ++ post)] =>
    replace (Z.of_nat (length pre) + Z.of_nat (length [l])) with (Z.of_nat (length p)) by (rewrite app_length; cbn [length]; lia);
    rewrite (IH p post) by assumption end.
  rewrite <- app_assoc. reflexivity.
Qed.

Lemma shift_rows_range right (b : buf) r1 r2 : buf_wf b -> 0 <= r1 <= r2 -> r2 < blen b ->
  shift_rows right (Z.to_nat (r2 - r1 + 1)) r1 b =
  firstn (Z.to_nat r1) b ++ map (shift_line right) (rows_between b r1 (r2 + 1)) ++ skipn (Z.to_nat (r2 + 1)) b.
Proof.
  intros HW H1 H2. destruct (range_split b r1 r2 H1 H2) as (pre & x & post & -> & Lp & Lx).
  apply buf_wf_app in HW. destruct HW as [_ HW]. apply buf_wf_app in HW. destruct HW as [HWx _].
  subst r1. replace (Z.to_nat (r2 - Z.of_nat (length pre) + 1)) with (length x) by lia.
  rewrite shift_rows_map by exact HWx.
  replace (r2 + 1) with (Z.of_nat (length pre) + Z.of_nat (length x)) by lia. rewrite rows_between_decomp.
  rewrite Nat2Z.id, firstn_app_exact. f_equal. f_equal.
  replace (Z.to_nat (Z.of_nat (length pre) + Z.of_nat (length x))) with (length (pre ++ x)) by (rewrite app_length; lia).
  rewrite app_assoc, skipn_app_exact. reflexivity.
Qed.

Lemma refines_shift rows e (right : bool) cnt e1 l0 :
  let b := s_buf e in let s := s_vs e in
  buf_wf b -> cursor_ok b (v_row s) (v_off s) -> getl b (v_row s) = Some l0 -> 0 <= cnt ->
  exec1 rows (COp 0%N cnt (if right then Ogt else Olt) 0 TDbl []) e = Some e1 ->
  let r2 := Z.min (v_row s + Z.max 1 cnt - 1) (blen b - 1) in
  let b' := firstn (Z.to_nat (v_row s)) b ++ map (shift_line right) (rows_between b (v_row s) (r2 + 1)) ++ skipn (Z.to_nat (r2 + 1)) b in
  s_buf e1 = b' /\ s_regs e1 = s_regs e /\ v_row (s_vs e1) = v_row s /\
  v_off (s_vs e1) = ren_noeol (getl b' (v_row s)) (lbuf_indents b' (v_row s)).
Proof.
  intros b s HW Hc El Hn X r2 b'.
  assert (Hr : 0 <= v_row s < blen b) by (apply getl_some in El; lia).
  assert (Ecnt : (if cnt =? 0 then 1 else cnt) * (if 0 =? 0 then 1 else 0) = Z.max 1 cnt) by (destruct (Z.eqb_spec cnt 0); cbn; lia).
  set (o1 := ren_noeol (getl b (v_row s)) (v_off s)).
  assert (T : op_target b rows s cnt 0 TDbl o1 = TOk Kunder r2 (-1) (v_cl s) (v_cc s) (v_pcol s)).
  { unfold op_target. rewrite Ecnt. fold r2. destruct (Z.ltb_spec r2 0); [unfold r2 in *; lia|]. reflexivity. }
  cbn [exec1] in X. unfold exec_op in X. fold b s o1 in X. rewrite T in X.
  change (v_row (vs_mot s (v_cl s) (v_cc s) (v_pcol s))) with (v_row s) in X.
  destruct (vc_region_line b Kunder (v_row s) o1 r2 (-1) ltac:(lia)) as (G1 & G2 & G3).
  set (g := vc_region b Kunder (v_row s) o1 r2 (-1)) in *.
  assert (Hr2 : v_row s <= r2 < blen b) by (unfold r2; lia).
  rewrite Z.min_l in G2 by lia. rewrite Z.max_r in G3 by lia.
  assert (EB : shift_rows right (Z.to_nat (g_r2 g - g_r1 g + 1)) (g_r1 g) b = b').
  { rewrite G2, G3. apply shift_rows_range; [exact HW|lia|lia]. }
  assert (XX : e1 = finish rows b' (s_regs e) (vs_pos (vs_mot s (v_cl s) (v_cc s) (v_pcol s)) (v_row s) (lbuf_indents b' (v_row s))) true).
  { destruct right; unfold vi_shift in X; rewrite EB, G2 in X; inversion X; reflexivity. }
  subst e1. set (st := vs_pos _ _ _).
  assert (Hb' : blen b' = blen b).
  { unfold b', blen, rows_between in *. rewrite !app_length, map_length, !firstn_length, !skipn_length. lia. }
  assert (Hrow : 0 <= v_row st < blen b') by (unfold st; cbn [vs_pos v_row]; lia).
  rewrite finish_buf, finish_regs, finish_row, finish_off by exact Hrow. unfold st. cbn [vs_pos v_row v_off]. repeat split; reflexivity.
Qed.

(* ---------- S / cc with plain text ---------- *)
Lemma span_blank_nonl l : Forall (fun c : chr => b0 c <> 10%N) (fst (span_blank l)).
Proof.
  induction l as [|c r IH]; cbn [span_blank]; [constructor|].
  destruct (is_blankc c) eqn:E; [|constructor]. destruct (span_blank r) as [a z]. cbn [fst] in *. constructor; [|exact IH].
  unfold is_blankc in E. apply orb_true_iff in E. destruct E as [E|E]; apply N.eqb_eq in E; lia.
Qed.

Lemma refines_S_plain rows e y cnt typed e1 l0 : plain_reg y ->
  let b := s_buf e in let s := s_vs e in
  buf_wf b -> cursor_ok b (v_row s) (v_off s) -> getl b (v_row s) = Some l0 -> 0 <= cnt ->
  forallb plain_key typed = true -> existsb (fun c => negb (is_blankc c)) typed = true ->
  exec1 rows (c_S y cnt typed) e = Some e1 ->
  let r2 := Z.min (v_row s + Z.max 1 cnt - 1) (blen b - 1) in
  let ind := fst (span_blank l0) in
  s_buf e1 = firstn (Z.to_nat (v_row s)) b ++ [ind ++ typed ++ [nlc]] ++ skipn (Z.to_nat (r2 + 1)) b /\
  reg_get (s_regs e1) y = Some (ViDefs.flat (concat (rows_between b (v_row s) (r2 + 1))), true) /\
  v_row (s_vs e1) = v_row s /\ v_off (s_vs e1) = slen ind + slen typed - 1.
Proof.
  intros [Hy Hq] b s HW Hc El Hn Hp Hnb X r2 ind.
  assert (Hr : 0 <= v_row s < blen b) by (apply getl_some in El; lia).
  assert (Hlt : (1 <= length typed)%nat) by (destruct typed; [discriminate|cbn; lia]).
  pose proof (plain_nonl typed Hp) as Ht.
  assert (Ecnt : (if cnt =? 0 then 1 else cnt) * (if 0 =? 0 then 1 else 0) = Z.max 1 cnt) by (destruct (Z.eqb_spec cnt 0); cbn; lia).
  set (o1 := ren_noeol (getl b (v_row s)) (v_off s)).
  assert (T : op_target b rows s cnt 0 TDbl o1 = TOk Kunder r2 (-1) (v_cl s) (v_cc s) (v_pcol s)).
  { unfold op_target. rewrite Ecnt. fold r2. destruct (Z.ltb_spec r2 0); [unfold r2 in *; lia|]. reflexivity. }
  change (exec1 rows (c_S y cnt typed) e) with (exec_op rows e y cnt Oc 0 TDbl typed) in X.
  unfold exec_op in X. fold b s o1 in X. rewrite T in X.
  change (v_row (vs_mot s (v_cl s) (v_cc s) (v_pcol s))) with (v_row s) in X.
  destruct (vc_region_line b Kunder (v_row s) o1 r2 (-1) ltac:(lia)) as (G1 & G2 & G3).
  set (g := vc_region b Kunder (v_row s) o1 r2 (-1)) in *.
  assert (Hr2 : v_row s <= r2 < blen b) by (unfold r2; lia).
  rewrite Z.min_l in G2 by lia. rewrite Z.max_r in G3 by lia.
  unfold vi_change, region_text in X. rewrite G1, G2, G3 in X. cbn [orb] in X. rewrite El in X. unfold vi_indents in X. cbn [optl] in X. fold ind in X.
  rewrite vi_input_plain in X; try assumption; [|apply span_blank_nonl|exists []; split; [reflexivity|constructor]].
  cbn [nextlines snd] in X. replace (v_row s + 1 - 1) with (v_row s) in X by lia.
  destruct (range_split b (v_row s) r2 ltac:(lia) ltac:(lia)) as (pre & x & post & Eb & Lp & Lx).
  assert (Hx : x <> []) by (intro; subst x; cbn [length] in Lx; lia).
  assert (ET : lbuf_region b (v_row s) 0 r2 (-1) = concat x).
  { rewrite Eb, <- Lp. replace r2 with (Z.of_nat (length pre) + Z.of_nat (length x) - 1) by lia. apply region_lines, Hx. }
  assert (ER : rows_between b (v_row s) (r2 + 1) = x).
  { rewrite Eb, <- Lp. replace (r2 + 1) with (Z.of_nat (length pre) + Z.of_nat (length x)) by lia. apply rows_between_decomp. }
  rewrite ET in X. rewrite ER.
  set (nb := ind ++ typed).
  assert (ENB : ind ++ typed ++ [nlc] = nb ++ [nlc]) by (unfold nb; rewrite <- app_assoc; reflexivity).
  rewrite ENB in *.
  assert (Wn : line_wf (nb ++ [nlc])).
  { apply body_wf. unfold nb. apply Forall_app. split; [apply span_blank_nonl|exact Ht]. }
  replace (r2 + 1) with (v_row s + Z.of_nat (length x)) in X by lia.
  rewrite lbuf_edit_some in X by lia. rewrite (split_text_line _ Wn) in X.
  assert (EG : firstn (Z.to_nat (v_row s)) b ++ [nb ++ [nlc]] ++ skipn (Z.to_nat (r2 + 1)) b = pre ++ [nb ++ [nlc]] ++ post).
  { rewrite Eb, <- Lp, Nat2Z.id, firstn_app_exact. f_equal. f_equal.
    replace (Z.of_nat (length pre) + Z.of_nat (length x) - 1 + 1) with (Z.of_nat (length (pre ++ x))) by (rewrite app_length; lia).
    replace (r2 + 1) with (Z.of_nat (length (pre ++ x))) by (rewrite app_length; lia).
    rewrite Nat2Z.id, app_assoc, skipn_app_exact. reflexivity. }
  rewrite EG.
  match type of X with context [set_row b (v_row s) ?ls (Z.of_nat (length x))] =>
    assert (EB : set_row b (v_row s) ls (Z.of_nat (length x)) = pre ++ ls ++ post) by (rewrite Eb, <- Lp; apply set_row_decomp);
    rewrite EB in X end.
  match type of X with context [finish rows ?bb _ _ _] => remember bb as b' eqn:Eb' end.
  assert (G : getl b' (v_row s) = Some (nb ++ [nlc])).
  { rewrite Eb'. rewrite getl_app_r by lia. rewrite <- Lp, Z.sub_diag. reflexivity. }
  assert (Hb' : v_row s < blen b') by (rewrite Eb', !blen_app; unfold blen; cbn [length]; lia).
  inversion X; subst e1. clear X. set (st := vs_top _ _).
  assert (Hrow : 0 <= v_row st < blen b') by (unfold st; cbn [vs_top vs_pos v_row]; lia).
  rewrite finish_buf, finish_regs, finish_row, finish_off by exact Hrow. unfold st. cbn [vs_top vs_pos v_row v_off]. rewrite G.
  replace (Z.max 0 (slen ind + slen typed - 1)) with (slen ind + slen typed - 1) by (unfold slen; lia).
  repeat split; try reflexivity; [exact Eb'|apply put_get_plain; assumption|].
  apply ren_noeol_id; [exact Wn|]. unfold off_ok, slen. rewrite app_length. unfold nb. rewrite !app_length. cbn [length]. lia.
Qed.

(* ---------- o / O with plain text ---------- *)
Lemma nextlines_row rows n : forall r t, fst (nextlines rows n (r, t)) = r + Z.of_nat n.
Proof.
  induction n as [|n IH]; intros r t; cbn [nextlines]; [cbn; lia|].
  destruct (r =? t + rows - 1); rewrite IH; lia.
Qed.
Lemma refines_open_plain rows e (below : bool) typed e1 l0 :
  let b := s_buf e in let s := s_vs e in
  buf_wf b -> cursor_ok b (v_row s) (v_off s) -> getl b (v_row s) = Some l0 ->
  forallb plain_key typed = true -> existsb (fun c => negb (is_blankc c)) typed = true ->
  exec1 rows (CIns (if below then Io else IO) typed) e = Some e1 ->
  let r' := if below then v_row s + 1 else v_row s in
  let ind := fst (span_blank l0) in
  s_buf e1 = firstn (Z.to_nat r') b ++ [ind ++ typed ++ [nlc]] ++ skipn (Z.to_nat r') b /\
  s_regs e1 = s_regs e /\ v_row (s_vs e1) = r' /\ v_off (s_vs e1) = slen ind + slen typed - 1.
Proof.
  intros b s HW Hc El Hp Hnb X r' ind.
  assert (Hr : 0 <= v_row s < blen b) by (apply getl_some in El; lia).
  assert (Hlt : (1 <= length typed)%nat) by (destruct typed; [discriminate|cbn; lia]).
  pose proof (plain_nonl typed Hp) as Ht.
  cbn [exec1] in X. unfold exec_insert in X. fold b s in X. rewrite El in X.
  assert (EI : is_oO (if below then Io else IO) = true) by (destruct below; reflexivity).
  rewrite EI in X. cbn [negb] in X. unfold vi_indents in X. cbn [optl] in X. fold ind in X.
  rewrite vi_input_plain in X; try assumption; [|apply span_blank_nonl|exists []; split; [reflexivity|constructor]].
  destruct (Z.eqb_spec (blen b) 0); [lia|]. cbn [andb] in X.
  set (rt := match (if below then Io else IO) with Io => nextlines rows 1 (v_row s, v_top s) | _ => (v_row s, v_top s) end) in X.
  assert (Ert : fst rt = r') by (unfold rt, r'; destruct below; [rewrite nextlines_row; lia|reflexivity]).
  cbn [nextlines] in X. destruct rt as [xrow top']. cbn [fst] in Ert. subst xrow.
  replace (r' - 1 + 1) with r' in X by lia. rewrite Z.add_0_r in X.
  set (nb := ind ++ typed).
  assert (ENB : ind ++ typed ++ [nlc] = nb ++ [nlc]) by (unfold nb; rewrite <- app_assoc; reflexivity).
  rewrite ENB in *.
  assert (Wn : line_wf (nb ++ [nlc])).
  { apply body_wf. unfold nb. apply Forall_app. split; [apply span_blank_nonl|exact Ht]. }
  assert (Hr' : 0 <= r' <= blen b) by (unfold r'; destruct below; lia).
  assert (EB : lbuf_edit b (Some (nb ++ [nlc])) r' r' = firstn (Z.to_nat r') b ++ [nb ++ [nlc]] ++ skipn (Z.to_nat r') b).
  { unfold lbuf_edit. rewrite !Z.min_l by lia. rewrite Z.sub_diag, (split_text_line _ Wn). unfold set_row. rewrite Z.add_0_r. reflexivity. }
  rewrite EB in X.
  match type of X with context [finish rows ?bb _ _ _] => remember bb as b' eqn:Eb' end.
  assert (Hlen : blen b' = blen b + 1).
  { rewrite Eb'. unfold blen in *. rewrite !app_length, firstn_length, skipn_length. cbn [length]. lia. }
  assert (G : getl b' r' = Some (nb ++ [nlc])).
  { rewrite Eb'. unfold getl. destruct (Z.ltb_spec r' 0); [lia|]. unfold blen in *.
    rewrite nth_error_app2 by (rewrite firstn_length; lia). rewrite firstn_length, Nat.min_l by lia. rewrite Nat.sub_diag. reflexivity. }
  inversion X; subst e1. clear X. set (st := vs_top _ _).
  assert (Hrow : 0 <= v_row st < blen b') by (unfold st; cbn [vs_top vs_pos v_row]; lia).
  rewrite finish_buf, finish_regs, finish_row, finish_off by exact Hrow. unfold st. cbn [vs_top vs_pos v_row v_off]. rewrite G.
  replace (Z.max 0 (slen ind + slen typed - 1)) with (slen ind + slen typed - 1) by (unfold slen; lia).
  repeat split; try reflexivity; try (exact Eb').
  all: apply ren_noeol_id; [exact Wn|]; unfold off_ok, slen; rewrite app_length; unfold nb; rewrite !app_length; cbn [length]; lia.
Qed.

(* ---------- A with plain text ---------- *)
Lemma refines_A_plain rows e typed e1 body :
  let b := s_buf e in let s := s_vs e in
  buf_wf b -> cursor_ok b (v_row s) (v_off s) -> getl b (v_row s) = Some (body ++ [nlc]) ->
  forallb plain_key typed = true -> existsb (fun c => negb (is_blankc c)) typed = true ->
  exec1 rows (CIns IA typed) e = Some e1 ->
  s_buf e1 = set_row b (v_row s) [body ++ typed ++ [nlc]] 1 /\
  s_regs e1 = s_regs e /\ v_row (s_vs e1) = v_row s /\ v_off (s_vs e1) = slen body + slen typed - 1.
Proof.
  intros b s HW Hc El Hp Hnb X.
  set (l := body ++ [nlc]) in *. pose proof (getl_wf _ _ _ HW El) as Wl. pose proof (wf_body body Wl) as Hb.
  assert (Hs : slen l = Z.of_nat (length body) + 1) by (unfold l, slen; rewrite app_length; cbn [length]; lia).
  assert (Hr : 0 <= v_row s < blen b) by (apply getl_some in El; lia).
  assert (Hlt : (1 <= length typed)%nat) by (destruct typed; [discriminate|cbn; lia]).
  pose proof (plain_nonl typed Hp) as Ht.
  cbn [exec1] in X. unfold exec_insert in X. fold b s in X. rewrite El in X. cbn [is_oO negb andb optl] in X.
  rewrite (lbuf_eol_some b (v_row s) l El Wl) in X.
  assert (RN' : ren_noeol (Some l) (slen l - 1) = Z.max 0 (slen l - 2)) by (apply ren_noeol_eol, Wl).
  rewrite RN' in X.
  assert (EF : (let off0 := Z.max 0 (slen l - 2) + 1 in match Some l with Some (c :: _) => if is_nlb c then 0 else off0 | _ => off0 end) = slen body).
  { unfold l. destruct body as [|c0 body']; cbn [app].
    - reflexivity.
    - inversion Hb; subst. unfold is_nlb. destruct (N.eqb_spec (b0 c0) 10); [contradiction|]. unfold slen. cbn [length]. rewrite app_length. cbn [length]. lia. }
  cbv zeta in EF. cbv zeta in X. rewrite EF in X.
  assert (E1 : sub_l l 0 (slen body) = body) by (unfold l; apply sub_l_app_left).
  assert (E2 : sub_l l (slen body) (-1) = [nlc]) by (unfold l; apply sub_l_app_right).
  rewrite E1, E2 in X.
  rewrite vi_input_plain in X; try assumption; [|exists []; split; [reflexivity|constructor]].
  cbn [nextlines] in X. replace (v_row s - 1 + 1) with (v_row s) in X by lia.
  set (nb := body ++ typed).
  assert (ENB : body ++ typed ++ [nlc] = nb ++ [nlc]) by (unfold nb; rewrite <- app_assoc; reflexivity).
  rewrite ENB in *.
  assert (Wn : line_wf (nb ++ [nlc])).
  { apply body_wf. unfold nb. apply Forall_app. split; assumption. }
  replace (v_row s + 1) with (v_row s + Z.of_nat 1) in X by lia.
  rewrite lbuf_edit_some in X by (cbn; lia). rewrite (split_text_line _ Wn) in X. change (Z.of_nat 1) with 1 in X.
  match type of X with context [finish rows ?bb _ _ _] => remember bb as b' eqn:Eb' end.
  assert (Hb' : blen b' = blen b).
  { rewrite Eb'. unfold set_row, blen in *. rewrite !app_length, firstn_length, skipn_length. cbn [length]. lia. }
  assert (G : getl b' (v_row s) = Some (nb ++ [nlc])).
  { rewrite Eb'. unfold getl, set_row. destruct (Z.ltb_spec (v_row s) 0); [lia|]. unfold blen in Hr.
    rewrite nth_error_app2 by (rewrite firstn_length; lia). rewrite firstn_length, Nat.min_l by lia. rewrite Nat.sub_diag. reflexivity. }
  inversion X; subst e1. clear X. set (st := vs_top _ _).
  assert (Hrow : 0 <= v_row st < blen b') by (unfold st; cbn [vs_top vs_pos v_row]; lia).
  rewrite finish_buf, finish_regs, finish_row, finish_off by exact Hrow. unfold st. cbn [vs_top vs_pos v_row v_off]. rewrite G.
  replace (Z.max 0 (slen body + slen typed - 1)) with (slen body + slen typed - 1) by (unfold slen; lia).
  repeat split; try reflexivity; try (exact Eb').
  all: apply ren_noeol_id; [exact Wn|]; unfold off_ok, slen; rewrite app_length; unfold nb; rewrite !app_length; cbn [length]; lia.
Qed.

(* ---------- J (two lines) ---------- *)
Lemma span_blank_body body : span_blank (body ++ [nlc]) = (fst (span_blank body), snd (span_blank body) ++ [nlc]).
Proof.
  induction body as [|c r IH]; cbn [app span_blank]; [reflexivity|].
  destruct (is_blankc c); [|reflexivity]. rewrite IH. destruct (span_blank r) as [a z]. reflexivity.
Qed.
Lemma refines_J rows e cnt e1 body1 body2 :
  let b := s_buf e in let s := s_vs e in
  buf_wf b -> cursor_ok b (v_row s) (v_off s) ->
  getl b (v_row s) = Some (body1 ++ [nlc]) -> getl b (v_row s + 1) = Some (body2 ++ [nlc]) -> 0 <= cnt <= 2 ->
  exec1 rows (CJoin cnt) e = Some e1 ->
  let rest := snd (span_blank body2) in
  let nb := body1 ++ repeat [32%N] (join_spaces body1 (rest ++ [nlc])) ++ rest in
  s_buf e1 = set_row b (v_row s) [nb ++ [nlc]] 2 /\ s_regs e1 = s_regs e /\
  v_row (s_vs e1) = v_row s /\ v_off (s_vs e1) = ren_noeol (Some (nb ++ [nlc])) (slen body1).
Proof.
  intros b s HW Hc El1 El2 Hn X rest nb.
  assert (Hr : 0 <= v_row s /\ v_row s + 1 < blen b) by (apply getl_some in El1; apply getl_some in El2; lia).
  pose proof (wf_body body1 (getl_wf _ _ _ HW El1)) as Hb1. pose proof (wf_body body2 (getl_wf _ _ _ HW El2)) as Hb2.
  cbn [exec1] in X. unfold exec_join in X. fold b s in X.
  assert (Ec : (if cnt <=? 1 then 2 else cnt) = 2) by (destruct (Z.leb_spec cnt 1); lia).
  rewrite Ec in X. rewrite El1 in X. replace (v_row s + 2 - 1) with (v_row s + 1) in X by lia. rewrite El2 in X.
  destruct (getl_split2 b (v_row s) (v_row s + 1) _ _ El1 El2 ltac:(lia)) as (pre & mid & post & Eb & Lp & Lm).
  assert (mid = []) by (destruct mid; [reflexivity|cbn [length] in Lm; lia]). subst mid. cbn [app] in Eb.
  assert (ER : rows_between b (v_row s) (v_row s + 2) = [body1 ++ [nlc]; body2 ++ [nlc]]).
  { rewrite Eb, <- Lp. change (pre ++ (body1 ++ [nlc]) :: (body2 ++ [nlc]) :: post) with (pre ++ [body1 ++ [nlc]; body2 ++ [nlc]] ++ post).
    replace (Z.of_nat (length pre) + 2) with (Z.of_nat (length pre) + Z.of_nat (@length line [body1 ++ [nlc]; body2 ++ [nlc]])) by (cbn [length]; lia).
    apply rows_between_decomp. }
  rewrite ER in X. cbn [join_loop] in X. rewrite span_blank_body in X. cbn [snd] in X. fold rest in X.
  unfold body_of in X. rewrite !removelast_last in X. cbn [app repeat] in X. fold nb in X.
  assert (Wn : line_wf (nb ++ [nlc])).
  { apply body_wf. unfold nb. apply Forall_app. split; [exact Hb1|]. apply Forall_app. split.
    - apply Forall_forall. intros c Hin. apply repeat_spec in Hin. subst c. cbn. lia.
    - unfold rest. pose proof (span_blank_valid) as _. clear -Hb2. induction Hb2 as [|c r Hc Hr IH]; cbn [span_blank snd]; [constructor|].
      destruct (is_blankc c); [destruct (span_blank r); exact IH|constructor; assumption]. }
  replace (v_row s + 2) with (v_row s + Z.of_nat 2) in X by lia.
  rewrite lbuf_edit_some in X by (cbn; lia). rewrite (split_text_line _ Wn) in X. change (Z.of_nat 2) with 2 in X.
  match type of X with context [finish rows ?bb _ _ _] => remember bb as b' eqn:Eb' end.
  assert (Hb' : blen b' = blen b - 1).
  { rewrite Eb'. unfold set_row, blen in *. rewrite !app_length, firstn_length, skipn_length. cbn [length]. lia. }
  assert (G : getl b' (v_row s) = Some (nb ++ [nlc])).
  { rewrite Eb'. unfold getl, set_row. destruct (Z.ltb_spec (v_row s) 0); [lia|]. unfold blen in Hr.
    rewrite nth_error_app2 by (rewrite firstn_length; lia). rewrite firstn_length, Nat.min_l by lia. rewrite Nat.sub_diag. reflexivity. }
  inversion X; subst e1. clear X. set (st := vs_pos _ _ _).
  assert (Hrow : 0 <= v_row st < blen b') by (unfold st; cbn [vs_pos v_row]; lia).
  rewrite finish_buf, finish_regs, finish_row, finish_off by exact Hrow. unfold st. cbn [vs_pos v_row v_off]. rewrite G.
  repeat split; try reflexivity; try (exact Eb').
Qed.

(* ---------- g~~ guu gUU with a count ---------- *)
Lemma case_line_wf op l : line_wf l -> line_wf (map (case_chr op) l).
Proof.
  intros (body & -> & Hb). rewrite map_app. exists (map (case_chr op) body). split; [|apply nonl_map_case, Hb].
  f_equal. destruct op; reflexivity.
Qed.
Lemma refines_case_lines rows e (op : okey) cnt e1 l0 : (op = Otilde \/ op = Ogu \/ op = OgU) ->
  let b := s_buf e in let s := s_vs e in
  buf_wf b -> cursor_ok b (v_row s) (v_off s) -> getl b (v_row s) = Some l0 -> 0 <= cnt ->
  exec1 rows (COp 0%N cnt op 0 TDbl []) e = Some e1 ->
  let r2 := Z.min (v_row s + Z.max 1 cnt - 1) (blen b - 1) in
  let b' := firstn (Z.to_nat (v_row s)) b ++ map (map (case_chr op)) (rows_between b (v_row s) (r2 + 1)) ++ skipn (Z.to_nat (r2 + 1)) b in
  s_buf e1 = b' /\ s_regs e1 = s_regs e /\ v_row (s_vs e1) = r2 /\
  v_off (s_vs e1) = ren_noeol (getl b' r2) (lbuf_indents b' r2).
Proof.
  intros Hop b s HW Hc El Hn X r2 b'.
  assert (Hr : 0 <= v_row s < blen b) by (apply getl_some in El; lia).
  assert (Ecnt : (if cnt =? 0 then 1 else cnt) * (if 0 =? 0 then 1 else 0) = Z.max 1 cnt) by (destruct (Z.eqb_spec cnt 0); cbn; lia).
  set (o1 := ren_noeol (getl b (v_row s)) (v_off s)).
  assert (T : op_target b rows s cnt 0 TDbl o1 = TOk Kunder r2 (-1) (v_cl s) (v_cc s) (v_pcol s)).
  { unfold op_target. rewrite Ecnt. fold r2. destruct (Z.ltb_spec r2 0); [unfold r2 in *; lia|]. reflexivity. }
  cbn [exec1] in X. unfold exec_op in X. fold b s o1 in X. rewrite T in X.
  change (v_row (vs_mot s (v_cl s) (v_cc s) (v_pcol s))) with (v_row s) in X.
  destruct (vc_region_line b Kunder (v_row s) o1 r2 (-1) ltac:(lia)) as (G1 & G2 & G3).
  set (g := vc_region b Kunder (v_row s) o1 r2 (-1)) in *.
  assert (Hr2 : v_row s <= r2 < blen b) by (unfold r2; lia).
  rewrite Z.min_l in G2 by lia. rewrite Z.max_r in G3 by lia.
  assert (XX : Some (vi_case rows b (s_regs e) (vs_mot s (v_cl s) (v_cc s) (v_pcol s)) g op) = Some e1)
    by (destruct Hop as [->|[->| ->]]; exact X).
  clear X. unfold vi_case, region_text in XX. rewrite G1, G2, G3 in XX.
  destruct (range_split b (v_row s) r2 ltac:(lia) ltac:(lia)) as (pre & x & post & Eb & Lp & Lx).
  assert (Hx : x <> []) by (intro; subst x; cbn [length] in Lx; lia).
  assert (ET : lbuf_region b (v_row s) 0 r2 (-1) = concat x).
  { rewrite Eb, <- Lp. replace r2 with (Z.of_nat (length pre) + Z.of_nat (length x) - 1) by lia. apply region_lines, Hx. }
  assert (ER : rows_between b (v_row s) (r2 + 1) = x).
  { rewrite Eb, <- Lp. replace (r2 + 1) with (Z.of_nat (length pre) + Z.of_nat (length x)) by lia. apply rows_between_decomp. }
  rewrite ET in XX.
  pose proof HW as HW0. rewrite Eb in HW0. apply buf_wf_app in HW0. destruct HW0 as [_ HW0]. apply buf_wf_app in HW0. destruct HW0 as [HWx _].
  assert (ES : split_text (map (case_chr op) (concat x)) = map (map (case_chr op)) x).
  { rewrite concat_map. apply split_text_concat. unfold buf_wf in *. clear -HWx. induction HWx; cbn [map]; constructor; [apply case_line_wf; assumption|assumption]. }
  assert (EBB : lbuf_edit b (Some (map (case_chr op) (concat x))) (v_row s) (r2 + 1) = b').
  { unfold b'. rewrite ER. replace (r2 + 1) with (v_row s + Z.of_nat (length x)) by lia. rewrite lbuf_edit_some by lia. rewrite ES.
    reflexivity. }
  rewrite EBB in XX. inversion XX; subst e1. clear XX. set (st := vs_pos _ _ _).
  assert (Hb' : blen b' = blen b).
  { unfold b', blen, rows_between in *. rewrite !app_length, map_length, !firstn_length, !skipn_length. lia. }
  assert (Hrow : 0 <= v_row st < blen b') by (unfold st; cbn [vs_pos v_row]; lia).
  rewrite finish_buf, finish_regs, finish_row, finish_off by exact Hrow. unfold st. cbn [vs_pos v_row v_off]. repeat split; reflexivity.
Qed.
