(* TrSearch.v -- the search scan of /repo/mot.c (property C13): the hand-written model SearchDefs.lbuf_search_g
   (forward: first row with a match at / after the scan start; backward: the enumeration of the successive
   matches of a row keeping the last one that begins before the cursor; no wrap; the character-wise step after
   an empty match; the terminator rule) is what the C text of lbuf_search says, RELATIVE TO THE MATCHER.

   int lbuf_search(struct lbuf *lb, char *kw, int dir, int *r, int *o, int *len)

   The CLite term tools/c2clite.py generated from mot.c (GenCFuncs.cf_lbuf_search; its local `int offs[2]` is a
   block of two cells allocated on entry) calls
     * rstr_make, rstr_free : not translated -- the oracle `ext` of CLiteExt.callx answers them;
     * rstr_find            : translated (rstr.c), but for a pattern that is not a plain literal its body hands
                              over to the untranslated rset_find -- so its answers, too, depend on the oracle;
     * uc_chr, uc_off, uc_len, lbuf_get, lbuf_len : translated and proved (TrUc.v, TrUcCode.v, TrMot.v).
   The theorems are stated for EVERY oracle.  What they assume about the matcher is `find_ans`: on every memory
   the scan can reach, rstr_find called on the suffix of a line at byte `off`, with RE_NOTBOL exactly when
   off > 0, answers what a function  find : suffix -> notbol -> option (b, e)  says -- a value >= 0 and offs[] =
   {b, e} when find says Some (b, e), a value < 0 (offs[] arbitrary) when it says None -- and touches nothing
   else; and `find_wf`: b <= e <= length of the suffix.  This is exactly how the model is parametric
   (SearchDefs.fm_suffix).  For a literal pattern the assumption is discharged from TrRstr.tr_rstr_find
   (Properties_C13.v, Example), so that case needs no oracle for rstr_find at all.

   Memory: the line table of struct lbuf as in TrMot.v (lbuf_at); three one-cell blocks for *r, *o, *len; the
   offs block.  Every load is inside a line (up to its terminator) or one of these blocks; the blocks of the
   buffer are never written. *)
From Coq Require Import List ZArith NArith Bool Lia Arith.
From NV Require Import Bytes UcDefs CLite CLiteProps GenCFuncs CLiteTac CLiteExt TrLbufBase TrUcCode TrUc TrMot.
From NV Require Import SearchDefs SearchProps.
From NV Require MotDefs.
Import ListNotations.
Local Open Scope Z_scope.

(* ------------------------------------------------------------------ small facts *)
Lemma cc_eq10 : forall c, (c < 256)%N -> (wrap I32 (wrap I8 (Z.of_N c)) =? 10) = (c =? 10)%N.
Proof. byte_fact. Qed.
Lemma leb_nat a b : (Z.of_nat a <=? Z.of_nat b) = (a <=? b)%nat.
Proof. destruct (Z.leb_spec (Z.of_nat a) (Z.of_nat b)); destruct (Nat.leb_spec a b); try reflexivity; lia. Qed.
Lemma ltb_nat a b : (Z.of_nat a <? Z.of_nat b) = (a <? b)%nat.
Proof. destruct (Z.ltb_spec (Z.of_nat a) (Z.of_nat b)); destruct (Nat.ltb_spec a b); try reflexivity; lia. Qed.
Lemma eqb_nat a b : (Z.of_nat a =? Z.of_nat b) = (a =? b)%nat.
Proof. destruct (Z.eqb_spec (Z.of_nat a) (Z.of_nat b)); destruct (Nat.eqb_spec a b); try reflexivity; lia. Qed.
Lemma uc_off_f_le f : forall s pos e, (uc_off_f f s pos e <= f)%nat.
Proof.
  induction f as [|f IH]; intros s pos e; cbn [uc_off_f]; [lia|]. destruct s; [lia|].
  destruct (pos <? e)%nat; [|lia]. specialize (IH (skipn (uc_next (n :: s)) (n :: s)) (pos + uc_next (n :: s))%nat e). lia.
Qed.
Lemma uc_off_le s e : (uc_off s e <= length s)%nat.
Proof. apply uc_off_f_le. Qed.
Lemma firstn_S_nth {A} (l : list A) i d : (i < length l)%nat -> firstn (S i) l = firstn i l ++ [nth i l d].
Proof.
  revert l; induction i as [|i IH]; intros [|x l] H; cbn [length] in H; try lia; [reflexivity|].
  cbn [firstn nth app]. f_equal. apply IH. lia.
Qed.
Lemma skipn_nth_cons {A} (l : list A) i d : (i < length l)%nat -> skipn i l = nth i l d :: skipn (S i) l.
Proof.
  revert l; induction i as [|i IH]; intros [|x l] H; cbn [length] in H; try lia; [reflexivity|].
  cbn [skipn nth]. apply IH. lia.
Qed.
Lemma uc_chr_le s off q : uc_chr s off = Some q -> (q <= length s)%nat.
Proof.
  unfold uc_chr. generalize (length s) at 1. intros f.
  assert (G : forall f t i base q, uc_chr_f f t i off base = Some q -> (q <= base + length t)%nat).
  { clear. induction f as [|f IH]; intros t i base q; destruct t as [|x t]; cbn [uc_chr_f].
    - destruct (_ || _); [|discriminate]. intros [= <-]. cbn; lia.
    - destruct (i =? off)%Z; [|discriminate]. intros [= <-]. lia.
    - destruct (_ || _); [|discriminate]. intros [= <-]. cbn; lia.
    - destruct (i =? off)%Z; [intros [= <-]; lia|]. intro H. apply IH in H. rewrite skipn_length in H.
      pose proof (uc_end_lt (x :: t) ltac:(discriminate)). unfold uc_next in H. destruct (nthb (x :: t) (uc_end (x :: t)) =? 0)%N; cbn [length] in *; lia. }
  intro H. apply G in H. lia.
Qed.
Lemma store_one (m : mem) g (v w : val) : nth_error m g = Some [v] -> store m g 0 w = Ok (upd m g [w]).
Proof. intro H. rewrite (store_ok m g [v]); [reflexivity|exact H|cbn; lia]. Qed.
Lemma load_two0 (m : mem) g (a b : val) : nth_error m g = Some [a; b] -> load m g 0 = Ok a.
Proof. intro H. unfold load. rewrite H. reflexivity. Qed.
Lemma load_two1 (m : mem) g (a b : val) : nth_error m g = Some [a; b] -> load m g 1 = Ok b.
Proof. intro H. unfold load. rewrite H. reflexivity. Qed.

(* ------------------------------------------------------------------ the loop of one row, as one function for both directions *)
Definition is_some {A} (x : option A) : bool := match x with Some _ => true | None => false end.
(* the while loop of lbuf_search on one line: fwd = (dir > 0); lim = Some o0 on the cursor row of a backward search;
   acc = the match stored last.  None = out of fuel *)
Fixpoint row_loop (fm : bytes -> nat -> option (nat * nat)) (fuel : nat) (fwd : bool) (s : bytes) (off : nat)
    (lim : option nat) (acc : option (nat * nat)) : option (option (nat * nat)) :=
  match fuel with
  | O => None
  | S f =>
    match fm s off with
    | None => Some acc
    | Some (b, e) =>
      let beg := (off + b)%nat in
      if phantom s beg then Some acc
      else if (match lim with Some o0 => (o0 <=? uc_off s beg)%nat | None => false end) then Some acc
      else
        let acc' := Some (conv s beg (e - b)) in
        let off' := (off + (if (b <? e)%nat then e else e + uc_len (skipn (off + e) s)))%nat in
        if fwd || (nthb s off' =? 0)%N || (nthb s off' =? 10)%N then Some acc'
        else row_loop fm f fwd s off' lim acc'
    end
  end.
Lemma row_loop_bwd fm f : forall s off lim acc, row_loop fm f false s off lim acc = bwd_row fm f s off lim acc.
Proof.
  induction f as [|f IH]; intros s off lim acc; [reflexivity|]. cbn [row_loop bwd_row].
  destruct (fm s off) as [[b e]|]; [|reflexivity]. destruct (phantom s (off + b)); [reflexivity|].
  destruct (match lim with Some o0 => (o0 <=? uc_off s (off + b))%nat | None => false end); [reflexivity|].
  cbn [orb]. destruct (_ || _); [reflexivity|]. apply IH.
Qed.
Lemma row_loop_fwd fm f s off : row_loop fm (S f) true s off None None = Some (fwd_row fm s off).
Proof.
  cbn [row_loop]. unfold fwd_row. destruct (fm s off) as [[b e]|]; [|reflexivity].
  destruct (phantom s (off + b)); reflexivity.
Qed.

(* ------------------------------------------------------------------ the statements of lbuf_search *)
Definition srch_for : stmt :=
  match fn_body cf_lbuf_search with SSeq _ (SSeq _ (SSeq _ (SSeq _ (SSeq _ (SSeq (SSeq _ f) _))))) => f | _ => SSkip end.
Definition srch_tail : stmt :=
  match fn_body cf_lbuf_search with SSeq _ (SSeq _ (SSeq _ (SSeq _ (SSeq _ (SSeq _ t))))) => t | _ => SSkip end.
Definition srch_while : stmt := match srch_for with SFor _ _ (SSeq _ (SSeq _ w)) => w | _ => SSkip end.
Definition ph_e : expr := match srch_while with SWhile _ (SSeq _ (SSeq (SIf c _ _) _)) => c | _ => EConst 0 end.
Definition brk_e : expr :=
  match srch_while with
  | SWhile _ (SSeq _ (SSeq _ (SSeq _ (SSeq _ (SSeq _ (SSeq _ (SSeq _ (SSeq _ (SIf c _ _))))))))) => c
  | _ => EConst 0
  end.

Definition srch_cond : expr := match srch_while with SWhile c _ => c | _ => EConst 0 end.
Definition srch_body : stmt := match srch_while with SWhile _ b => b | _ => SSkip end.
Definition sb_beg : stmt := match srch_body with SSeq a _ => a | _ => SSkip end.
Definition lim_e : expr := match srch_body with SSeq _ (SSeq _ (SSeq (SIf c _ _) _)) => c | _ => EConst 0 end.
Definition sb_found : stmt := match srch_body with SSeq _ (SSeq _ (SSeq _ (SSeq a _))) => a | _ => SSkip end.
Definition sb_o : stmt := match srch_body with SSeq _ (SSeq _ (SSeq _ (SSeq _ (SSeq a _)))) => a | _ => SSkip end.
Definition sb_r : stmt := match srch_body with SSeq _ (SSeq _ (SSeq _ (SSeq _ (SSeq _ (SSeq a _))))) => a | _ => SSkip end.
Definition sb_len : stmt := match srch_body with SSeq _ (SSeq _ (SSeq _ (SSeq _ (SSeq _ (SSeq _ (SSeq a _)))))) => a | _ => SSkip end.
Definition sb_off : stmt := match srch_body with SSeq _ (SSeq _ (SSeq _ (SSeq _ (SSeq _ (SSeq _ (SSeq _ (SSeq a _))))))) => a | _ => SSkip end.
Lemma while_eq : srch_while = SWhile srch_cond srch_body.
Proof. reflexivity. Qed.
Lemma body_eq : srch_body = SSeq sb_beg (SSeq (SIf ph_e SBreak SSkip) (SSeq (SIf lim_e SBreak SSkip)
                  (SSeq sb_found (SSeq sb_o (SSeq sb_r (SSeq sb_len (SSeq sb_off (SIf brk_e SBreak SSkip)))))))).
Proof. reflexivity. Qed.
Definition for_cond : expr := match srch_for with SFor (Some c) _ _ => c | _ => EConst 0 end.
Definition for_step : expr := match srch_for with SFor _ (Some e) _ => e | _ => EConst 0 end.
Definition sb_get : stmt := match srch_for with SFor _ _ (SSeq a _) => a | _ => SSkip end.
Definition sb_setoff : stmt := match srch_for with SFor _ _ (SSeq _ (SSeq a _)) => a | _ => SSkip end.
Lemma for_eq : srch_for = SFor (Some for_cond) (Some for_step) (SSeq sb_get (SSeq sb_setoff srch_while)).
Proof. reflexivity. Qed.
Ltac open_sb x := unfold x, srch_body, srch_cond, srch_while, srch_for; cbn [fn_body cf_lbuf_search].

(* the lines of a buffer never run a multi-byte character over their end: from every byte the length its lead byte
   announces stays inside the line (true of valid UTF-8; needed because after an empty match the scan steps by uc_len) *)
Definition line_fit (s : bytes) : Prop := forall q, (q <= length s)%nat -> (q + uc_len (skipn q s) <= length s)%nat.
Definition lines_fit (lines : list bytes) : Prop := Forall line_fit lines.
Lemma nthl_fit lines i : lines_fit lines -> line_fit (nthl lines i).
Proof.
  intro H. unfold nthl. destruct (Nat.lt_ge_cases i (length lines)) as [L|L].
  - unfold lines_fit in H. rewrite Forall_forall in H. apply H. apply nth_In. exact L.
  - rewrite nth_overflow by exact L. intros q Hq. cbn in Hq. assert (q = O) as -> by lia. cbn. lia.
Qed.

(* the matcher as the model takes it: the suffix at byte off, NOTBOL when off > 0 *)
Definition fm_of (find : bytes -> bool -> option (nat * nat)) (s : bytes) (off : nat) : option (nat * nat) :=
  find (skipn off s) (negb (off =? 0)%nat).
Definition find_wf (find : bytes -> bool -> option (nat * nat)) : Prop :=
  forall t nb b e, find t nb = Some (b, e) -> (b <= e <= length t)%nat.
Lemma fm_of_suffix rfind kw : fm_of (rfind kw) = fm_suffix rfind kw.
Proof. reflexivity. Qed.

Section Scan.
  Variable ext : nat -> list val -> mem -> res (val * mem).
  Variables (F D : nat).
  Variable m1 : mem.                                     (* the memory after rstr_make *)
  Variables (lb bln : nat) (lbs : list nat) (lines : list bytes).
  Variables (boffs br bo bl : nat).
  Variables (kb : nat) (ko : Z) (rb : nat) (ro : Z).
  Notation kwv := (VPtr kb ko).
  Notation rep := (VPtr rb ro).
  Variable find : bytes -> bool -> option (nat * nat).
  Variables (dir : Z) (r0 o0 : nat).

  Notation cx := (callx ext cprog F (S (S (S D)))).
  Definition fwd : bool := 0 <? dir.

  (* the memories of a scan: m1 with the offs block holding c and the cells *r, *o, *len holding r, o, vl *)
  Record smem (m : mem) (c : block) (r o : Z) (vl : val) : Prop := mk_smem {
    sm_len : length m = length m1;
    sm_other : forall k, k <> boffs -> k <> br -> k <> bo -> k <> bl -> nth_error m k = nth_error m1 k;
    sm_offs : nth_error m boffs = Some c;
    sm_r : nth_error m br = Some [VInt r];
    sm_o : nth_error m bo = Some [VInt o];
    sm_l : nth_error m bl = Some [vl]
  }.

  Hypothesis HR : lbuf_at m1 lb bln lbs lines.
  Hypothesis Hsm : lines_small lines.
  Hypothesis HF : (length lines + maxlen lines + 4 < F)%nat.
  Hypothesis Hfit : lines_fit lines.
  Hypothesis Hwf : find_wf find.
  Hypothesis Hdir : dir_ok dir.
  Hypothesis Hnd : NoDup [boffs; br; bo; bl].
  Hypothesis Hout : forall k, In k [boffs; br; bo; bl] -> ~ In k (lb :: bln :: lbs).
  Hypothesis Hlt : forall k, In k [boffs; br; bo; bl] -> (k < length m1)%nat.
  Hypothesis Hr0 : Z.of_nat r0 <= 2147483647.
  Hypothesis Ho0 : Z.of_nat o0 < 2147483647.

  (* what the oracle-dependent rstr_find answers on the memories of the scan *)
  Definition find_ans : Prop :=
    forall m c r o vl i off, smem m c r o vl -> length c = 2%nat -> (i < length lines)%nat -> (off <= length (nthl lines i))%nat ->
    match find (skipn off (nthl lines i)) (negb (off =? 0)%nat) with
    | Some (b, e) => exists rv, 0 <= rv /\
        cx F_rstr_find [rep; VPtr (nth i lbs O) (Z.of_nat off); VInt 1; VPtr boffs 0; VInt (if (off =? 0)%nat then 0 else 2)] m
        = Ok (VInt rv, upd m boffs [VInt (Z.of_nat b); VInt (Z.of_nat e)])
    | None => exists rv c', rv < 0 /\ length c' = 2%nat /\
        cx F_rstr_find [rep; VPtr (nth i lbs O) (Z.of_nat off); VInt 1; VPtr boffs 0; VInt (if (off =? 0)%nat then 0 else 2)] m
        = Ok (VInt rv, upd m boffs c')
    end.
  Hypothesis Hfind : find_ans.

  Lemma ne_offs_r : boffs <> br. Proof. inversion Hnd as [|? ? H _]; subst. intro E. apply H. left. exact (eq_sym E). Qed.
  Lemma ne_offs_o : boffs <> bo. Proof. inversion Hnd as [|? ? H _]; subst. intro E. apply H. right; left. exact (eq_sym E). Qed.
  Lemma ne_offs_l : boffs <> bl. Proof. inversion Hnd as [|? ? H _]; subst. intro E. apply H. right; right; left. exact (eq_sym E). Qed.
  Lemma ne_r_o : br <> bo.
  Proof. inversion Hnd as [|? ? _ H]; subst. inversion H as [|? ? H2 _]; subst. intro E. apply H2. left. exact (eq_sym E). Qed.
  Lemma ne_r_l : br <> bl.
  Proof. inversion Hnd as [|? ? _ H]; subst. inversion H as [|? ? H2 _]; subst. intro E. apply H2. right; left. exact (eq_sym E). Qed.
  Lemma ne_o_l : bo <> bl.
  Proof.
    inversion Hnd as [|? ? _ H]; subst. inversion H as [|? ? _ H2]; subst. inversion H2 as [|? ? H3 _]; subst.
    intro E. apply H3. left. exact (eq_sym E).
  Qed.

  (* the buffer is intact in every memory of the scan *)
  Lemma smem_rep m c r o vl : smem m c r o vl -> lbuf_at m lb bln lbs lines.
  Proof.
    intros [_ Ho _ _ _ _]. apply (lbuf_at_other m1); [exact HR|]. intros k Hk. apply Ho; intros ->; (eapply Hout; [|exact Hk]); cbn; tauto.
  Qed.
  Lemma smem_lt m c r o vl k : smem m c r o vl -> In k [boffs; br; bo; bl] -> (k < length m)%nat.
  Proof. intros [Hl _ _ _ _ _] Hk. rewrite Hl. apply Hlt. exact Hk. Qed.

  Lemma smem_set_offs m c r o vl c' : smem m c r o vl -> smem (upd m boffs c') c' r o vl.
  Proof.
    intros S. pose proof (smem_lt _ _ _ _ _ boffs S ltac:(cbn; tauto)) as L. destruct S as [Hl Ho Hc Hr Hoo Hll].
    constructor.
    - rewrite upd_length by exact L. exact Hl.
    - intros k N1 N2 N3 N4. rewrite mem_upd_other by assumption. apply Ho; assumption.
    - apply mem_upd_same. exact L.
    - rewrite mem_upd_other; [exact Hr|exact L|]. intro E. exact (ne_offs_r (eq_sym E)).
    - rewrite mem_upd_other; [exact Hoo|exact L|]. intro E. exact (ne_offs_o (eq_sym E)).
    - rewrite mem_upd_other; [exact Hll|exact L|]. intro E. exact (ne_offs_l (eq_sym E)).
  Qed.
  Lemma smem_set_r m c r o vl r' : smem m c r o vl -> smem (upd m br [VInt r']) c r' o vl.
  Proof.
    intros S. pose proof (smem_lt _ _ _ _ _ br S ltac:(cbn; tauto)) as L. destruct S as [Hl Ho Hc Hr Hoo Hll].
    constructor.
    - rewrite upd_length by exact L. exact Hl.
    - intros k N1 N2 N3 N4. rewrite mem_upd_other by assumption. apply Ho; assumption.
    - rewrite mem_upd_other; [exact Hc|exact L|exact ne_offs_r].
    - apply mem_upd_same. exact L.
    - rewrite mem_upd_other; [exact Hoo|exact L|]. intro E. exact (ne_r_o (eq_sym E)).
    - rewrite mem_upd_other; [exact Hll|exact L|]. intro E. exact (ne_r_l (eq_sym E)).
  Qed.
  Lemma smem_set_o m c r o vl o' : smem m c r o vl -> smem (upd m bo [VInt o']) c r o' vl.
  Proof.
    intros S. pose proof (smem_lt _ _ _ _ _ bo S ltac:(cbn; tauto)) as L. destruct S as [Hl Ho Hc Hr Hoo Hll].
    constructor.
    - rewrite upd_length by exact L. exact Hl.
    - intros k N1 N2 N3 N4. rewrite mem_upd_other by assumption. apply Ho; assumption.
    - rewrite mem_upd_other; [exact Hc|exact L|exact ne_offs_o].
    - rewrite mem_upd_other; [exact Hr|exact L|exact ne_r_o].
    - apply mem_upd_same. exact L.
    - rewrite mem_upd_other; [exact Hll|exact L|]. intro E. exact (ne_o_l (eq_sym E)).
  Qed.
  Lemma smem_set_l m c r o vl vl' : smem m c r o vl -> smem (upd m bl [vl']) c r o vl'.
  Proof.
    intros S. pose proof (smem_lt _ _ _ _ _ bl S ltac:(cbn; tauto)) as L. destruct S as [Hl Ho Hc Hr Hoo Hll].
    constructor.
    - rewrite upd_length by exact L. exact Hl.
    - intros k N1 N2 N3 N4. rewrite mem_upd_other by assumption. apply Ho; assumption.
    - rewrite mem_upd_other; [exact Hc|exact L|exact ne_offs_l].
    - rewrite mem_upd_other; [exact Hr|exact L|exact ne_r_l].
    - rewrite mem_upd_other; [exact Hoo|exact L|exact ne_o_l].
    - apply mem_upd_same. exact L.
  Qed.

  (* facts about line i in a memory of the scan *)
  Lemma line_facts m c r o vl i : smem m c r o vl -> (i < length lines)%nat ->
    str_at m (nth i lbs O) (nthl lines i) /\ nonul (nthl lines i) /\ (length (nthl lines i) < F)%nat /\
    Z.of_nat (length (nthl lines i)) <= 2147483647 /\ line_fit (nthl lines i).
  Proof.
    intros S Hi. pose proof (smem_rep _ _ _ _ _ S) as R. split; [apply (la_str _ _ _ _ _ R i Hi)|].
    split; [apply nthl_nonul; apply (la_nonul _ _ _ _ _ R)|]. split; [pose proof (maxlen_ge lines i); lia|].
    split; [apply nthl_small; exact Hsm|apply nthl_fit; exact Hfit].
  Qed.

  (* the locals of lbuf_search inside the row loop *)
  Definition lst (i found : Z) (sv voff vbeg : val) : list val :=
    [VPtr lb 0; kwv; VInt dir; VPtr br 0; VPtr bo 0; VPtr bl 0; VPtr boffs 0; VInt found;
     VInt (Z.of_nat r0); VInt (Z.of_nat o0); VInt i; rep; sv; voff; vbeg].

  (* "beg > 0 && !s[beg] && s[beg - 1] == '\n'" is the model's phantom *)
  Lemma ph_ok m c r o vl i found off beg : smem m c r o vl -> (i < length lines)%nat -> (beg <= length (nthl lines i))%nat ->
    eval cx ph_e (mkst (lst (Z.of_nat i) found (VPtr (nth i lbs O) 0) (VInt off) (VInt (Z.of_nat beg))) m)
    = Ok (VInt (b2z (phantom (nthl lines i) beg)), mkst (lst (Z.of_nat i) found (VPtr (nth i lbs O) 0) (VInt off) (VInt (Z.of_nat beg))) m).
  Proof.
    intros S Hi Hb. destruct (line_facts m c r o vl i S Hi) as (Hs & Hnn & _ & Hmax & _). pose proof (nonul_lt256 _ Hnn) as H256.
    unfold ph_e, srch_while, srch_for; cbn [fn_body cf_lbuf_search]. unfold lst. xstep. unfold phantom.
    change (0 <? Z.of_nat beg) with (Z.of_nat 0 <? Z.of_nat beg). rewrite ltb_nat.
    destruct (0 <? beg)%nat eqn:E0; xstep; [|reflexivity]. apply Nat.ltb_lt in E0.
    replace (0 + 1 * Z.of_nat beg) with (Z.of_nat beg) by lia.
    rewrite (load_str m _ _ _ beg Hs) by lia. xstep. rewrite negb_involutive, (cc_z0 _ (nthb_lt256 _ beg H256)).
    destruct (nthb (nthl lines i) beg =? 0)%N; xstep; [|reflexivity].
    rewrite chk_I32 by lia. xstep. replace (0 + 1 * (Z.of_nat beg - 1)) with (Z.of_nat (beg - 1)) by lia.
    rewrite (load_str m _ _ _ (beg - 1)%nat Hs) by lia. xstep. rewrite (cc_eq10 _ (nthb_lt256 _ _ H256)).
    destruct (nthb (nthl lines i) (beg - 1) =? 10)%N; reflexivity.
  Qed.

  (* "dir > 0 || !s[off] || s[off] == '\n'" *)
  Lemma brk_ok m c r o vl i found off vbeg : smem m c r o vl -> (i < length lines)%nat -> (off <= length (nthl lines i))%nat ->
    eval cx brk_e (mkst (lst (Z.of_nat i) found (VPtr (nth i lbs O) 0) (VInt (Z.of_nat off)) vbeg) m)
    = Ok (VInt (b2z (fwd || (nthb (nthl lines i) off =? 0)%N || (nthb (nthl lines i) off =? 10)%N)),
          mkst (lst (Z.of_nat i) found (VPtr (nth i lbs O) 0) (VInt (Z.of_nat off)) vbeg) m).
  Proof.
    intros S Hi Hb. destruct (line_facts m c r o vl i S Hi) as (Hs & Hnn & _ & Hmax & _). pose proof (nonul_lt256 _ Hnn) as H256.
    unfold brk_e, srch_while, srch_for; cbn [fn_body cf_lbuf_search]. unfold lst, fwd. xstep.
    destruct (0 <? dir); xstep; [reflexivity|].
    replace (0 + 1 * Z.of_nat off) with (Z.of_nat off) by lia.
    rewrite (load_str m _ _ _ off Hs) by lia. xstep. rewrite negb_involutive, (cc_z0 _ (nthb_lt256 _ off H256)).
    destruct (nthb (nthl lines i) off =? 0)%N; xstep; [reflexivity|].
    rewrite (load_str m _ _ _ off Hs) by lia. xstep. rewrite (cc_eq10 _ (nthb_lt256 _ _ H256)).
    destruct (nthb (nthl lines i) off =? 10)%N; reflexivity.
  Qed.

  (* the translated callees, under the oracle *)
  Lemma x_uc_off m sb s o off : str_at m sb s -> nonul s -> (o <= length s)%nat -> (length s < F)%nat ->
    Z.of_nat (length s) <= 2147483647 -> Z.of_nat off <= 2147483647 ->
    cx F_uc_off [VPtr sb (Z.of_nat o); VInt (Z.of_nat off)] m = Ok (VInt (Z.of_nat (uc_off (skipn o s) off)), m).
  Proof. intros. apply callx_mono. apply tr_uc_off; assumption. Qed.
  Lemma x_uc_len m sb s o : str_at m sb s -> bytes_lt256 s -> (o <= length s)%nat ->
    cx F_uc_len [VPtr sb (Z.of_nat o)] m = Ok (VInt (Z.of_nat (uc_len (skipn o s))), m).
  Proof. intros. unfold uc_len. rewrite hd0_skipn. apply callx_mono. apply tr_uc_len; assumption. Qed.
  Lemma x_uc_chr m sb s off : str_at m sb s -> nonul s -> (length s < F)%nat -> Z.of_nat (length s) <= 2147483647 ->
    cx F_uc_chr [VPtr sb 0; VInt off] m = Ok (chr_val sb (uc_chr s off), m).
  Proof.
    intros Hs Hn Hf Hm. apply callx_mono. pose proof (tr_uc_chr m sb s 0 off D F Hs Hn ltac:(lia) Hf Hm) as H.
    cbn [skipn Z.of_nat] in H. rewrite H. destruct (uc_chr s off); reflexivity.
  Qed.

  Definition cr (acc : option (nat * nat)) (i : nat) (r : Z) : Z := match acc with Some _ => Z.of_nat i | None => r end.
  Definition co (acc : option (nat * nat)) (o : Z) : Z := match acc with Some (a, _) => Z.of_nat a | None => o end.
  Definition cl (acc : option (nat * nat)) (vl : val) : val := match acc with Some (_, l) => VInt (Z.of_nat l) | None => vl end.
  (* the limit of a backward search on the cursor row *)
  Definition lim_of (i : nat) : option nat := if fwd then None else if (r0 =? i)%nat then Some o0 else None.

  (* one round of the while loop after rstr_find answered (b, e) *)
  Ltac ld0 H := change (0 + 1 * 0) with 0; rewrite (load_two0 _ _ _ _ H); xstep; rewrite ?wrap_I32_id by lia.
  Ltac ld1 H := change (0 + 1 * 1) with 1; rewrite (load_two1 _ _ _ _ H); xstep; rewrite ?wrap_I32_id by lia.
  Lemma body_ok i m r o vl found off b e vbeg fuel : (i < length lines)%nat ->
    let s := nthl lines i in let sv := VPtr (nth i lbs O) 0 in let beg := (off + b)%nat in
    smem m [VInt (Z.of_nat b); VInt (Z.of_nat e)] r o vl -> (b <= e)%nat -> (off + e <= length s)%nat ->
    let st0 := mkst (lst (Z.of_nat i) found sv (VInt (Z.of_nat off)) vbeg) m in
    let stb := mkst (lst (Z.of_nat i) found sv (VInt (Z.of_nat off)) (VInt (Z.of_nat beg))) m in
    let limt := match lim_of i with Some o1 => (o1 <=? uc_off s beg)%nat | None => false end in
    (phantom s beg = true -> exec cx fuel srch_body st0 = OBreak stb) /\
    (phantom s beg = false -> limt = true -> exec cx fuel srch_body st0 = OBreak stb) /\
    (phantom s beg = false -> limt = false ->
     let off' := (off + (if (b <? e)%nat then e else e + uc_len (skipn (off + e) s)))%nat in
     exists m', smem m' [VInt (Z.of_nat b); VInt (Z.of_nat e)] (Z.of_nat i) (Z.of_nat (uc_off s beg)) (VInt (Z.of_nat (uc_off (skipn beg s) (e - b)))) /\
       (off' <= length s)%nat /\
       exec cx fuel srch_body st0 =
       (if fwd || (nthb s off' =? 0)%N || (nthb s off' =? 10)%N then OBreak else ONormal)
         (mkst (lst (Z.of_nat i) 1 sv (VInt (Z.of_nat off')) (VInt (Z.of_nat beg))) m')).
  Proof.
    intros Hi s sv beg S Hbe Hoe st0 stb limt.
    destruct (line_facts m _ _ _ _ i S Hi) as (Hs & Hnn & HFs & Hmax & Hft). fold s in Hs, Hnn, HFs, Hmax, Hft.
    pose proof (nonul_lt256 _ Hnn) as H256. pose proof (sm_offs _ _ _ _ _ S) as Hc.
    assert (E1 : exec cx fuel sb_beg st0 = ONormal stb).
    { open_sb sb_beg. unfold st0, stb, lst, sv. xstep. change (0 + 1 * 0) with 0. rewrite (load_two0 m boffs _ _ Hc). xstep.
      rewrite wrap_I32_id by lia. rewrite chk_I32 by lia. xstep. unfold beg. rewrite Nat2Z.inj_add. reflexivity. }
    assert (E2 : eval cx ph_e stb = Ok (VInt (b2z (phantom s beg)), stb)).
    { apply (ph_ok m _ r o vl i found (Z.of_nat off) beg S Hi). unfold beg. fold s. lia. }
    assert (Hbeg : (beg <= length s)%nat) by (unfold beg; lia).
    assert (E3 : eval cx lim_e stb = Ok (VInt (b2z limt), stb)).
    { open_sb lim_e. unfold stb, lst, sv, limt, lim_of, fwd. destruct Hdir as [-> | ->]; xstep; [reflexivity|].
      rewrite eqb_nat. destruct (r0 =? i)%nat; xstep; [|reflexivity].
      ld0 Hc. rewrite chk_I32 by lia. xstep.
      rewrite <- Nat2Z.inj_add. change (VPtr (nth i lbs 0%nat) 0) with (VPtr (nth i lbs 0%nat) (Z.of_nat 0)).
      rewrite (x_uc_off m _ s 0 (off + b) Hs Hnn) by lia. xstep. cbn [skipn]. rewrite leb_nat. reflexivity. }
    rewrite body_eq, exec_seq, E1, exec_seq, exec_if, E2, truth_b2z.
    split; [intros ->; rewrite exec_break; reflexivity|]. split.
    - intros -> HL. rewrite exec_skip, exec_seq, exec_if, E3, truth_b2z, HL, exec_break. reflexivity.
    - intros -> HL off'. rewrite exec_skip, exec_seq, exec_if, E3, truth_b2z, HL, exec_skip.
      set (ov := uc_off s beg). set (lv := uc_off (skipn beg s) (e - b)).
      pose proof (uc_off_le s beg) as Hov. pose proof (uc_off_le (skipn beg s) (e - b)) as Hlv. rewrite skipn_length in Hlv.
      (* found = 1 *)
      rewrite exec_seq. replace (exec cx fuel sb_found stb) with (ONormal (mkst (lst (Z.of_nat i) 1 sv (VInt (Z.of_nat off)) (VInt (Z.of_nat beg))) m))
        by (open_sb sb_found; unfold stb, lst, sv; xstep; reflexivity).
      (* *o = uc_off(s, off + offs[0]) *)
      set (m2 := upd m bo [VInt (Z.of_nat ov)]).
      assert (S2 : smem m2 [VInt (Z.of_nat b); VInt (Z.of_nat e)] r (Z.of_nat ov) vl) by (exact (smem_set_o _ _ _ _ _ _ S)).
      rewrite exec_seq. replace (exec cx fuel sb_o _) with (ONormal (mkst (lst (Z.of_nat i) 1 sv (VInt (Z.of_nat off)) (VInt (Z.of_nat beg))) m2)).
      2:{ open_sb sb_o. unfold lst, sv. xstep.
          ld0 Hc. rewrite chk_I32 by lia. xstep.
          rewrite <- Nat2Z.inj_add. change (VPtr (nth i lbs 0%nat) 0) with (VPtr (nth i lbs 0%nat) (Z.of_nat 0)).
          rewrite (x_uc_off m _ s 0 (off + b) Hs Hnn) by lia. xstep. cbn [skipn]. fold beg ov. rewrite wrap_I32_id by lia.
          rewrite (store_one m bo _ _ (sm_o _ _ _ _ _ S)). xstep. reflexivity. }
      (* *r = i *)
      set (m3 := upd m2 br [VInt (Z.of_nat i)]).
      assert (S3 : smem m3 [VInt (Z.of_nat b); VInt (Z.of_nat e)] (Z.of_nat i) (Z.of_nat ov) vl) by (exact (smem_set_r _ _ _ _ _ _ S2)).
      assert (Hi32 : Z.of_nat i <= 2147483647) by (destruct Hsm; lia).
      rewrite exec_seq. replace (exec cx fuel sb_r _) with (ONormal (mkst (lst (Z.of_nat i) 1 sv (VInt (Z.of_nat off)) (VInt (Z.of_nat beg))) m3)).
      2:{ open_sb sb_r. unfold lst, sv. xstep. rewrite wrap_I32_id by lia.
          rewrite (store_one m2 br _ _ (sm_r _ _ _ _ _ S2)). xstep. reflexivity. }
      (* *len = uc_off(s + off + offs[0], offs[1] - offs[0]) *)
      set (m4 := upd m3 bl [VInt (Z.of_nat lv)]).
      assert (S4 : smem m4 [VInt (Z.of_nat b); VInt (Z.of_nat e)] (Z.of_nat i) (Z.of_nat ov) (VInt (Z.of_nat lv))) by (exact (smem_set_l _ _ _ _ _ _ S3)).
      destruct (line_facts m3 _ _ _ _ i S3 Hi) as (Hs3 & _). fold s in Hs3. pose proof (sm_offs _ _ _ _ _ S3) as Hc3.
      rewrite exec_seq. replace (exec cx fuel sb_len _) with (ONormal (mkst (lst (Z.of_nat i) 1 sv (VInt (Z.of_nat off)) (VInt (Z.of_nat beg))) m4)).
      2:{ open_sb sb_len. unfold lst, sv. xstep.
          ld0 Hc3.
          ld1 Hc3.
          ld0 Hc3. rewrite chk_I32 by lia. xstep.
          replace (0 + 1 * Z.of_nat off + 1 * Z.of_nat b) with (Z.of_nat beg) by (unfold beg; lia).
          replace (Z.of_nat e - Z.of_nat b) with (Z.of_nat (e - b)) by lia.
          rewrite (x_uc_off m3 _ s beg (e - b) Hs3 Hnn) by lia. xstep. fold lv. rewrite wrap_I32_id by lia.
          rewrite (store_one m3 bl _ _ (sm_l _ _ _ _ _ S3)). xstep. reflexivity. }
      (* off += offs[1] > offs[0] ? offs[1] : offs[1] + uc_len(s + off + offs[1]) *)
      destruct (line_facts m4 _ _ _ _ i S4 Hi) as (Hs4 & _). fold s in Hs4. pose proof (sm_offs _ _ _ _ _ S4) as Hc4.
      assert (Hoff' : (off' <= length s)%nat).
      { unfold off'. destruct (b <? e)%nat; [lia|]. pose proof (Hft (off + e)%nat Hoe). lia. }
      rewrite exec_seq. replace (exec cx fuel sb_off _) with (ONormal (mkst (lst (Z.of_nat i) 1 sv (VInt (Z.of_nat off')) (VInt (Z.of_nat beg))) m4)).
      2:{ open_sb sb_off. unfold lst, sv. xstep.
          ld1 Hc4.
          ld0 Hc4.
          rewrite ltb_nat. unfold off'. destruct (b <? e)%nat eqn:Ebe; xstep.
          - ld1 Hc4. rewrite chk_I32 by lia. xstep.
            rewrite Nat2Z.inj_add. reflexivity.
          - ld1 Hc4.
            ld1 Hc4.
            replace (0 + 1 * Z.of_nat off + 1 * Z.of_nat e) with (Z.of_nat (off + e)) by lia.
            rewrite (x_uc_len m4 _ s (off + e) Hs4 H256 Hoe). xstep.
            pose proof (Hft (off + e)%nat Hoe). rewrite chk_I32 by lia. xstep. rewrite chk_I32 by lia. xstep.
            rewrite !Nat2Z.inj_add. reflexivity. }
      exists m4. split; [exact S4|]. split; [exact Hoff'|].
      rewrite exec_if, (brk_ok m4 _ _ _ _ i 1 off' _ S4 Hi Hoff'), truth_b2z.
      destruct (fwd || _ || _); [apply exec_break|apply exec_skip].
  Qed.

  (* the loop condition: rstr_find(re, s + off, 1, offs, off ? RE_NOTBOL : 0) >= 0 *)
  Lemma cond_ok i m c r o vl found off vbeg : smem m c r o vl -> length c = 2%nat -> (i < length lines)%nat ->
    (off <= length (nthl lines i))%nat ->
    let l := lst (Z.of_nat i) found (VPtr (nth i lbs O) 0) (VInt (Z.of_nat off)) vbeg in
    match fm_of find (nthl lines i) off with
    | Some (b, e) => eval cx srch_cond (mkst l m) = Ok (VInt 1, mkst l (upd m boffs [VInt (Z.of_nat b); VInt (Z.of_nat e)]))
    | None => exists c', length c' = 2%nat /\ eval cx srch_cond (mkst l m) = Ok (VInt 0, mkst l (upd m boffs c'))
    end.
  Proof.
    intros S Hc Hi Hoff l. pose proof (Hfind m c r o vl i off S Hc Hi Hoff) as HA. unfold fm_of.
    assert (E : forall rv c', cx F_rstr_find [rep; VPtr (nth i lbs O) (Z.of_nat off); VInt 1; VPtr boffs 0; VInt (if (off =? 0)%nat then 0 else 2)] m
                              = Ok (VInt rv, upd m boffs c') ->
                eval cx srch_cond (mkst l m) = Ok (VInt (b2z (0 <=? rv)), mkst l (upd m boffs c'))).
    { intros rv c' H. open_sb srch_cond. unfold l, lst. xstep.
      replace (Z.of_nat off =? 0) with (off =? 0)%nat by (destruct off; reflexivity).
      replace (0 + 1 * Z.of_nat off) with (Z.of_nat off) by lia.
      destruct (off =? 0)%nat; xstep; rewrite H; xstep; reflexivity. }
    destruct (find (skipn off (nthl lines i)) (negb (off =? 0)%nat)) as [[b e]|].
    - destruct HA as (rv & Hrv & HA). rewrite (E _ _ HA). destruct (Z.leb_spec 0 rv); [reflexivity|lia].
    - destruct HA as (rv & c' & Hrv & Hc' & HA). exists c'. split; [exact Hc'|]. rewrite (E _ _ HA).
      destruct (Z.leb_spec 0 rv); [lia|reflexivity].
  Qed.

  (* pieces (1) and (2): the while loop on one row -- one step forward, the enumeration backward *)
  Lemma while_ok i r o vl : (i < length lines)%nat ->
    forall f off acc res m c fuel vbeg,
    row_loop (fm_of find) f fwd (nthl lines i) off (lim_of i) acc = Some res ->
    (off <= length (nthl lines i))%nat -> (f < fuel)%nat -> length c = 2%nat ->
    smem m c (cr acc i r) (co acc o) (cl acc vl) ->
    exists m' c' voff vbeg',
      exec cx fuel srch_while (mkst (lst (Z.of_nat i) (b2z (is_some acc)) (VPtr (nth i lbs O) 0) (VInt (Z.of_nat off)) vbeg) m)
      = ONormal (mkst (lst (Z.of_nat i) (b2z (is_some res)) (VPtr (nth i lbs O) 0) voff vbeg') m') /\
      length c' = 2%nat /\ smem m' c' (cr res i r) (co res o) (cl res vl).
  Proof.
    intro Hi. set (s := nthl lines i). set (sb := nth i lbs O).
    induction f as [|f IH]; intros off acc res m c fuel vbeg Hres Hoff Hf Hc S; [discriminate|].
    destruct fuel as [|fuel]; [lia|]. cbn [row_loop] in Hres.
    rewrite while_eq, exec_while.
    pose proof (cond_ok i m c _ _ _ (b2z (is_some acc)) off vbeg S Hc Hi Hoff) as HC. fold s sb in HC. cbv zeta in HC.
    destruct (fm_of find s off) as [[b e]|] eqn:Efm.
    2:{ destruct HC as (c' & Hc' & HC). rewrite HC. injection Hres as <-. cbn [truth Z.eqb negb].
        exists (upd m boffs c'), c', (VInt (Z.of_nat off)), vbeg. split; [reflexivity|]. split; [exact Hc'|].
        exact (smem_set_offs _ _ _ _ _ _ S). }
    rewrite HC. cbn [truth Z.eqb negb]. clear HC.
    pose proof (Hwf _ _ _ _ Efm) as Hbe. rewrite skipn_length in Hbe.
    set (m0 := upd m boffs [VInt (Z.of_nat b); VInt (Z.of_nat e)]).
    assert (S0 : smem m0 [VInt (Z.of_nat b); VInt (Z.of_nat e)] (cr acc i r) (co acc o) (cl acc vl)) by (exact (smem_set_offs _ _ _ _ _ _ S)).
    destruct (body_ok i m0 _ _ _ (b2z (is_some acc)) off b e vbeg (Datatypes.S fuel) Hi S0 ltac:(lia) ltac:(fold s; lia)) as (B1 & B2 & B3).
    fold s sb in B1, B2, B3. cbv zeta in B1, B2, B3.
    destruct (phantom s (off + b)) eqn:Eph.
    { rewrite (B1 eq_refl). injection Hres as <-. do 4 eexists. split; [reflexivity|]. split; [|exact S0]. reflexivity. }
    destruct (match lim_of i with Some o1 => (o1 <=? uc_off s (off + b))%nat | None => false end) eqn:Elim.
    { rewrite (B2 eq_refl eq_refl). injection Hres as <-. do 4 eexists. split; [reflexivity|]. split; [|exact S0]. reflexivity. }
    destruct (B3 eq_refl eq_refl) as (m' & S' & Hoff' & B). rewrite B. clear B B1 B2 B3.
    set (off' := (off + (if (b <? e)%nat then e else e + uc_len (skipn (off + e) s)))%nat) in *.
    destruct (fwd || (nthb s off' =? 0)%N || (nthb s off' =? 10)%N).
    { injection Hres as <-. do 4 eexists. split; [reflexivity|]. split; [|exact S']. reflexivity. }
    rewrite <- while_eq.
    apply (IH off' (Some (conv s (off + b) (e - b))) res m' [VInt (Z.of_nat b); VInt (Z.of_nat e)] fuel (VInt (Z.of_nat (off + b))) Hres Hoff' ltac:(lia) eq_refl S').
  Qed.

  (* piece (1): the forward scan of one row -- at most one round; the row's result is the model's fwd_row *)
  Lemma fwd_row_ok i r o vl : dir = 1 -> (i < length lines)%nat ->
    forall off m c fuel vbeg, (off <= length (nthl lines i))%nat -> (1 < fuel)%nat -> length c = 2%nat -> smem m c r o vl ->
    let res := fwd_row (fm_of find) (nthl lines i) off in
    exists m' c' voff vbeg',
      exec cx fuel srch_while (mkst (lst (Z.of_nat i) 0 (VPtr (nth i lbs O) 0) (VInt (Z.of_nat off)) vbeg) m)
      = ONormal (mkst (lst (Z.of_nat i) (b2z (is_some res)) (VPtr (nth i lbs O) 0) voff vbeg') m') /\
      length c' = 2%nat /\ smem m' c' (cr res i r) (co res o) (cl res vl).
  Proof.
    intros Hd Hi off m c fuel vbeg Hoff Hf Hc S res.
    apply (while_ok i r o vl Hi 1 off None res m c fuel vbeg); try assumption.
    unfold lim_of, fwd. rewrite Hd. change (0 <? 1) with true. apply row_loop_fwd.
  Qed.

  (* piece (2): the backward enumeration of one row, with the step after an empty match and the cursor limit *)
  Lemma bwd_row_ok i r o vl : dir = -1 -> (i < length lines)%nat ->
    forall f off acc res m c fuel vbeg,
    bwd_row (fm_of find) f (nthl lines i) off (if (r0 =? i)%nat then Some o0 else None) acc = Some res ->
    (off <= length (nthl lines i))%nat -> (f < fuel)%nat -> length c = 2%nat ->
    smem m c (cr acc i r) (co acc o) (cl acc vl) ->
    exists m' c' voff vbeg',
      exec cx fuel srch_while (mkst (lst (Z.of_nat i) (b2z (is_some acc)) (VPtr (nth i lbs O) 0) (VInt (Z.of_nat off)) vbeg) m)
      = ONormal (mkst (lst (Z.of_nat i) (b2z (is_some res)) (VPtr (nth i lbs O) 0) voff vbeg') m') /\
      length c' = 2%nat /\ smem m' c' (cr res i r) (co res o) (cl res vl).
  Proof.
    intros Hd Hi f off acc res m c fuel vbeg Hres. apply (while_ok i r o vl Hi f off acc res m c fuel vbeg).
    unfold lim_of, fwd. rewrite Hd. change (0 <? -1) with false. rewrite row_loop_bwd. exact Hres.
  Qed.

  (* ------------------------------------------------------------------ piece (3): the row loop, no wrap *)
  Lemma x_lbuf_len m c r o vl : smem m c r o vl -> cx F_lbuf_len [VPtr lb 0] m = Ok (VInt (Z.of_nat (length lines)), m).
  Proof.
    intro S. apply callx_mono. rewrite (tr_lbuf_len m lb bln lbs lines _ F (smem_rep _ _ _ _ _ S) Hsm).
    unfold MotDefs.blen. rewrite map_length. reflexivity.
  Qed.
  Lemma x_lbuf_get m c r o vl i : smem m c r o vl -> (i < length lines)%nat ->
    cx F_lbuf_get [VPtr lb 0; VInt (Z.of_nat i)] m = Ok (VPtr (nth i lbs O) 0, m).
  Proof.
    intros S Hi. apply callx_mono. rewrite (tr_lbuf_get m lb bln lbs lines _ _ F (smem_rep _ _ _ _ _ S) Hsm).
    unfold line_ptr, rowidx. destruct (Z.leb_spec 0 (Z.of_nat i)); [|lia].
    destruct (Z.ltb_spec (Z.of_nat i) (Z.of_nat (length lines))); [|lia]. cbn [andb]. rewrite Nat2Z.id. reflexivity.
  Qed.

  (* the loop condition  !found && i >= 0 && i < lbuf_len(lb) *)
  Lemma for_cond_found m i sv voff vbeg :
    eval cx for_cond (mkst (lst i 1 sv voff vbeg) m) = Ok (VInt 0, mkst (lst i 1 sv voff vbeg) m).
  Proof. open_sb for_cond. unfold lst. xstep. reflexivity. Qed.
  Lemma for_cond_0 m c r o vl i sv voff vbeg : smem m c r o vl ->
    eval cx for_cond (mkst (lst i 0 sv voff vbeg) m)
    = Ok (VInt (b2z ((0 <=? i) && (i <? Z.of_nat (length lines)))), mkst (lst i 0 sv voff vbeg) m).
  Proof.
    intro S. open_sb for_cond. unfold lst. xstep. destruct (0 <=? i); xstep; [|reflexivity].
    rewrite (x_lbuf_len m c r o vl S). xstep. destruct (i <? Z.of_nat (length lines)); reflexivity.
  Qed.
  Lemma for_exit_found m i sv voff vbeg fuel :
    exec cx (S fuel) srch_for (mkst (lst i 1 sv voff vbeg) m) = ONormal (mkst (lst i 1 sv voff vbeg) m).
  Proof. rewrite for_eq, exec_for. cbn [eval_opt]. rewrite for_cond_found. reflexivity. Qed.
  Lemma for_exit_range m c r o vl i sv voff vbeg fuel : smem m c r o vl -> (i < 0 \/ Z.of_nat (length lines) <= i) ->
    exec cx (S fuel) srch_for (mkst (lst i 0 sv voff vbeg) m) = ONormal (mkst (lst i 0 sv voff vbeg) m).
  Proof.
    intros S Hi. rewrite for_eq, exec_for. cbn [eval_opt]. rewrite (for_cond_0 m c r o vl _ _ _ _ S), truth_b2z.
    destruct (Z.leb_spec 0 i); destruct (Z.ltb_spec i (Z.of_nat (length lines))); try lia; reflexivity.
  Qed.
  Lemma for_exit_range_pos m c r o vl i sv voff vbeg fuel : (0 < fuel)%nat -> smem m c r o vl -> (i < 0 \/ Z.of_nat (length lines) <= i) ->
    exec cx fuel srch_for (mkst (lst i 0 sv voff vbeg) m) = ONormal (mkst (lst i 0 sv voff vbeg) m).
  Proof. intro H. destruct fuel; [lia|]. apply for_exit_range. Qed.
  (* s = lbuf_get(lb, i) *)
  Lemma get_ok m c r o vl i found sv voff vbeg fuel : smem m c r o vl -> (i < length lines)%nat ->
    exec cx fuel sb_get (mkst (lst (Z.of_nat i) found sv voff vbeg) m)
    = ONormal (mkst (lst (Z.of_nat i) found (VPtr (nth i lbs O) 0) voff vbeg) m).
  Proof. intros S Hi. open_sb sb_get. unfold lst. xstep. rewrite (x_lbuf_get m c r o vl i S Hi). xstep. reflexivity. Qed.
  (* i += dir *)
  Lemma step_ok m i found sv voff vbeg : -2147483647 <= i <= 2147483646 ->
    eval cx for_step (mkst (lst i found sv voff vbeg) m)
    = Ok (VInt (i + dir), mkst (lst (i + dir) found sv voff vbeg) m).
  Proof. intro Hi. open_sb for_step. unfold lst. xstep. rewrite chk_I32 by (destruct Hdir as [-> | ->]; lia). xstep. reflexivity. Qed.

  (* forward: row i, then the rows after it; the cursor row is scanned from the byte after the cursor character *)
  Lemma fwd_for_ok off0 : dir = 1 ->
    ((r0 < length lines)%nat -> uc_chr (nthl lines r0) (Z.of_nat o0 + 1) = Some off0) ->
    forall n i m c r o vl fuel sv voff vbeg,
    (length lines - i <= n)%nat -> (r0 <= i)%nat -> (n + maxlen lines + 3 < fuel)%nat -> length c = 2%nat -> smem m c r o vl ->
    exists m' c' i' found' sv' voff' vbeg',
      exec cx fuel srch_for (mkst (lst (Z.of_nat i) 0 sv voff vbeg) m) = ONormal (mkst (lst i' found' sv' voff' vbeg') m') /\
      length c' = 2%nat /\
      match fwd_rows (fm_of find) (skipn i lines) i (if (i =? r0)%nat then off0 else 0%nat) with
      | SFound rr oo ll => found' = 1 /\ smem m' c' (Z.of_nat rr) (Z.of_nat oo) (VInt (Z.of_nat ll))
      | SNotFound => found' = 0 /\ smem m' c' r o vl
      | _ => False
      end.
  Proof.
    intros Hd Hoff0. pose proof Hsm as [Hsm1 _].
    assert (Hout_range : forall i m c r o vl fuel sv voff vbeg, (length lines <= i)%nat -> length c = 2%nat -> smem m c r o vl ->
      exists m' c' i' found' sv' voff' vbeg',
        exec cx (Datatypes.S fuel) srch_for (mkst (lst (Z.of_nat i) 0 sv voff vbeg) m) = ONormal (mkst (lst i' found' sv' voff' vbeg') m') /\
        length c' = 2%nat /\
        match fwd_rows (fm_of find) (skipn i lines) i (if (i =? r0)%nat then off0 else 0%nat) with
        | SFound rr oo ll => found' = 1 /\ smem m' c' (Z.of_nat rr) (Z.of_nat oo) (VInt (Z.of_nat ll))
        | SNotFound => found' = 0 /\ smem m' c' r o vl
        | _ => False
        end).
    { intros i m c r o vl fuel sv voff vbeg Hi Hc S. rewrite (for_exit_range m c r o vl _ _ _ _ _ S) by lia.
      rewrite skipn_all2 by lia. cbn [fwd_rows]. do 7 eexists. split; [reflexivity|]. split; [exact Hc|]. split; [reflexivity|exact S]. }
    induction n as [|n IH]; intros i m c r o vl fuel sv voff vbeg Hn Hri Hf Hc S; (destruct fuel as [|fuel]; [lia|]).
    { apply (Hout_range i m c r o vl fuel sv voff vbeg); try assumption; lia. }
    destruct (Nat.lt_ge_cases i (length lines)) as [Hi|Hi]; [|apply (Hout_range i m c r o vl fuel sv voff vbeg); assumption].
    set (s := nthl lines i). set (sb := nth i lbs O).
    destruct (line_facts m c r o vl i S Hi) as (Hs & Hnn & HFs & Hmax & _). fold s sb in Hs, Hnn, HFs, Hmax.
    set (first := if (i =? r0)%nat then off0 else 0%nat).
    assert (Hfirst : (first <= length s)%nat).
    { unfold first. destruct (Nat.eqb_spec i r0) as [->|_]; [|lia]. apply (uc_chr_le _ _ _ (Hoff0 Hi)). }
    rewrite for_eq, exec_for. cbn [eval_opt]. rewrite (for_cond_0 m c r o vl _ _ _ _ S), truth_b2z.
    destruct (Z.leb_spec 0 (Z.of_nat i)); [|lia]. destruct (Z.ltb_spec (Z.of_nat i) (Z.of_nat (length lines))); [|lia]. cbn [andb].
    rewrite exec_seq, (get_ok m c r o vl i 0 sv voff vbeg _ S Hi). fold sb.
    rewrite exec_seq.
    replace (exec cx (Datatypes.S fuel) sb_setoff _) with (ONormal (mkst (lst (Z.of_nat i) 0 (VPtr sb 0) (VInt (Z.of_nat first)) vbeg) m)).
    2:{ open_sb sb_setoff. unfold lst. rewrite Hd. xstep. rewrite eqb_nat, Nat.eqb_sym. unfold first.
        destruct (Nat.eqb_spec i r0) as [E|E]; xstep.
        - rewrite chk_I32 by lia. xstep. rewrite (x_uc_chr m sb s _ Hs Hnn HFs Hmax). xstep.
          subst i. fold s in Hoff0. rewrite (Hoff0 Hi). cbn [chr_val]. xstep. rewrite Nat.eqb_refl. xstep.
          rewrite Z.sub_0_r, Z.quot_1_r. rewrite wrap_I32_id by lia. reflexivity.
        - reflexivity. }
    destruct (fwd_row_ok i r o vl Hd Hi first m c (Datatypes.S fuel) vbeg Hfirst ltac:(lia) Hc S) as (m' & c' & voff' & vbeg' & E & Hc' & S').
    fold s sb in E, S'. cbv zeta in E, S'. rewrite E. clear E.
    rewrite (step_ok m' (Z.of_nat i)) by lia. rewrite Hd.
    rewrite (skipn_nth_cons lines i []) by exact Hi. fold (nthl lines i). fold s. cbn [fwd_rows]. fold first.
    destruct (fwd_row (fm_of find) s first) as [[oo ll]|] eqn:Er; cbn [is_some b2z cr co cl] in *.
    - destruct fuel as [|fuel]; [lia|]. rewrite for_exit_found. do 7 eexists. split; [reflexivity|]. split; [exact Hc'|]. split; [reflexivity|exact S'].
    - replace (Z.of_nat i + 1) with (Z.of_nat (Datatypes.S i)) by lia.
      destruct (IH (Datatypes.S i) m' c' r o vl fuel (VPtr sb 0) voff' vbeg' ltac:(lia) ltac:(lia) ltac:(lia) Hc' S')
        as (m2 & c2 & i2 & f2 & sv2 & vo2 & vb2 & E2 & Hc2 & R2).
      rewrite <- for_eq, E2. destruct (Nat.eqb_spec (Datatypes.S i) r0) as [E|_]; [lia|].
      do 7 eexists. split; [reflexivity|]. split; [exact Hc2|exact R2].
  Qed.

  (* backward: row i, then the rows before it, down to row 0 and no further; only the cursor row has the limit *)
  Lemma bwd_for_ok : dir = -1 ->
    forall i m c r o vl fuel sv voff vbeg,
    (i <= r0)%nat -> (i < length lines)%nat -> (i + maxlen lines + 4 < fuel)%nat -> length c = 2%nat -> smem m c r o vl ->
    exists m' c' i' found' sv' voff' vbeg',
      exec cx fuel srch_for (mkst (lst (Z.of_nat i) 0 sv voff vbeg) m) = ONormal (mkst (lst i' found' sv' voff' vbeg') m') /\
      length c' = 2%nat /\
      match bwd_rows (fm_of find) (rev (firstn (Datatypes.S i) lines)) i (if (i =? r0)%nat then Some o0 else None) with
      | SFound rr oo ll => found' = 1 /\ smem m' c' (Z.of_nat rr) (Z.of_nat oo) (VInt (Z.of_nat ll))
      | SNotFound => found' = 0 /\ smem m' c' r o vl
      | _ => False
      end.
  Proof.
    intros Hd. pose proof Hsm as [Hsm1 _].
    induction i as [|i IH]; intros m c r o vl fuel sv voff vbeg Hri Hi Hf Hc SM; (destruct fuel as [|fuel]; [lia|]).
    - (* row 0: the last one *)
      set (s := nthl lines 0). set (sb := nth 0%nat lbs O).
      destruct (line_facts m c r o vl 0%nat SM Hi) as (Hs & Hnn & HFs & Hmax & _). fold s sb in Hs, Hnn, HFs, Hmax.
      rewrite for_eq, exec_for. cbn [eval_opt]. rewrite (for_cond_0 m c r o vl _ _ _ _ SM), truth_b2z.
      destruct (Z.leb_spec 0 (Z.of_nat 0)); [|lia]. destruct (Z.ltb_spec (Z.of_nat 0) (Z.of_nat (length lines))); [|lia]. cbn [andb].
      rewrite exec_seq, (get_ok m c r o vl 0%nat 0 sv voff vbeg _ SM Hi). fold sb. rewrite exec_seq.
      replace (exec cx (Datatypes.S fuel) sb_setoff _) with (ONormal (mkst (lst (Z.of_nat 0) 0 (VPtr sb 0) (VInt (Z.of_nat 0)) vbeg) m))
        by (open_sb sb_setoff; unfold lst; rewrite Hd; xstep; reflexivity).
      pose proof (maxlen_ge lines 0%nat) as Hml. fold s in Hml.
      destruct (bwd_row (fm_of find) (Datatypes.S (length s)) s 0 (if (r0 =? 0)%nat then Some o0 else None) None) as [res|] eqn:Eb.
      2:{ exfalso. revert Eb. apply bwd_row_fuel; [|lia]. intros k b e Hk. apply (Hwf _ _ _ _ Hk). }
      destruct (bwd_row_ok 0%nat r o vl Hd Hi _ 0%nat None res m c (Datatypes.S fuel) vbeg Eb ltac:(lia) ltac:(fold s; lia) Hc SM)
        as (m' & c' & voff' & vbeg' & E & Hc' & S').
      fold s sb in E, S'. cbn [is_some b2z] in E. rewrite E. clear E.
      rewrite (step_ok m' (Z.of_nat 0)) by lia. rewrite Hd.
      rewrite (firstn_S_nth lines 0%nat []) by exact Hi. cbn [firstn app rev]. fold (nthl lines 0). fold s. cbn [bwd_rows].
      rewrite (Nat.eqb_sym 0%nat r0), Eb.
      destruct res as [[oo ll]|]; cbn [is_some b2z cr co cl] in *.
      + destruct fuel as [|fuel]; [lia|]. rewrite <- for_eq, for_exit_found. do 7 eexists. split; [reflexivity|]. split; [exact Hc'|]. split; [reflexivity|exact S'].
      + destruct fuel as [|fuel]; [lia|]. rewrite <- for_eq, (for_exit_range m' c' r o vl _ _ _ _ _ S') by (cbn; lia).
        do 7 eexists. split; [reflexivity|]. split; [exact Hc'|]. split; [reflexivity|exact S'].
    - set (s := nthl lines (Datatypes.S i)). set (sb := nth (Datatypes.S i) lbs O).
      destruct (line_facts m c r o vl (Datatypes.S i) SM Hi) as (Hs & Hnn & HFs & Hmax & _). fold s sb in Hs, Hnn, HFs, Hmax.
      rewrite for_eq, exec_for. cbn [eval_opt]. rewrite (for_cond_0 m c r o vl _ _ _ _ SM), truth_b2z.
      destruct (Z.leb_spec 0 (Z.of_nat (Datatypes.S i))); [|lia].
      destruct (Z.ltb_spec (Z.of_nat (Datatypes.S i)) (Z.of_nat (length lines))); [|lia]. cbn [andb].
      rewrite exec_seq, (get_ok m c r o vl (Datatypes.S i) 0 sv voff vbeg _ SM Hi). fold sb. rewrite exec_seq.
      replace (exec cx (Datatypes.S fuel) sb_setoff _) with (ONormal (mkst (lst (Z.of_nat (Datatypes.S i)) 0 (VPtr sb 0) (VInt (Z.of_nat 0)) vbeg) m))
        by (open_sb sb_setoff; unfold lst; rewrite Hd; xstep; reflexivity).
      pose proof (maxlen_ge lines (Datatypes.S i)) as Hml. fold s in Hml.
      destruct (bwd_row (fm_of find) (Datatypes.S (length s)) s 0 (if (r0 =? Datatypes.S i)%nat then Some o0 else None) None) as [res|] eqn:Eb.
      2:{ exfalso. revert Eb. apply bwd_row_fuel; [|lia]. intros k b e Hk. apply (Hwf _ _ _ _ Hk). }
      destruct (bwd_row_ok (Datatypes.S i) r o vl Hd Hi _ 0%nat None res m c (Datatypes.S fuel) vbeg Eb ltac:(lia) ltac:(fold s; lia) Hc SM)
        as (m' & c' & voff' & vbeg' & E & Hc' & S').
      fold s sb in E, S'. cbn [is_some b2z] in E. rewrite E. clear E.
      rewrite (step_ok m' (Z.of_nat (Datatypes.S i))) by lia. rewrite Hd.
      rewrite (firstn_S_nth lines (Datatypes.S i) []) by exact Hi. rewrite rev_app_distr. cbn [rev app]. fold (nthl lines (Datatypes.S i)). fold s.
      cbn [bwd_rows]. rewrite (Nat.eqb_sym (Datatypes.S i) r0), Eb.
      destruct res as [[oo ll]|]; cbn [is_some b2z cr co cl] in *.
      + destruct fuel as [|fuel]; [lia|]. rewrite <- for_eq, for_exit_found. do 7 eexists. split; [reflexivity|]. split; [exact Hc'|]. split; [reflexivity|exact S'].
      + replace (Z.of_nat (Datatypes.S i) + -1) with (Z.of_nat i) by lia. cbn [pred].
        destruct (IH m' c' r o vl fuel (VPtr sb 0) voff' vbeg' ltac:(lia) ltac:(lia) ltac:(lia) Hc' S')
          as (m2 & c2 & i2 & f2 & sv2 & vo2 & vb2 & E2 & Hc2 & R2).
        rewrite <- for_eq, E2. destruct (Nat.eqb_spec i r0) as [E|_]; [lia|].
        do 7 eexists. split; [reflexivity|]. split; [exact Hc2|exact R2].
  Qed.

  (* ------------------------------------------------------------------ piece (4): the function, from the call of rstr_make on *)
  Definition sres_ret (x : sres) : Z := match x with SFound _ _ _ => 0 | _ => 1 end.
  Definition sres_r (x : sres) (r : Z) : Z := match x with SFound rr _ _ => Z.of_nat rr | _ => r end.
  Definition sres_o (x : sres) (o : Z) : Z := match x with SFound _ oo _ => Z.of_nat oo | _ => o end.
  Definition sres_l (x : sres) (vl : val) : val := match x with SFound _ _ ll => VInt (Z.of_nat ll) | _ => vl end.

  Lemma x_rstr_make_none : nth_error cprog X_rstr_make = None.
  Proof. vm_compute. reflexivity. Qed.
  Lemma x_rstr_free_none : nth_error cprog X_rstr_free = None.
  Proof. vm_compute. reflexivity. Qed.

  (* the loop as a whole: the model's scan, for both directions *)
  Lemma for_ok m c vl sv voff vbeg : length c = 2%nat -> smem m c (Z.of_nat r0) (Z.of_nat o0) vl ->
    let res := lbuf_search_g (fm_of find) lines fwd r0 o0 in
    res <> SOOB ->
    exists m' c' i' found' sv' voff' vbeg',
      exec cx F srch_for (mkst (lst (Z.of_nat r0) 0 sv voff vbeg) m) = ONormal (mkst (lst i' found' sv' voff' vbeg') m') /\
      length c' = 2%nat /\ found' = 1 - sres_ret res /\
      smem m' c' (sres_r res (Z.of_nat r0)) (sres_o res (Z.of_nat o0)) (sres_l res vl).
  Proof.
    intros Hc SM res Hres. unfold res, lbuf_search_g in Hres |- *. unfold fwd in Hres |- *.
    destruct (Nat.lt_ge_cases r0 (length lines)) as [Hi|Hi].
    - rewrite (nth_error_nth' lines [] Hi) in Hres |- *. fold (nthl lines r0) in Hres |- *.
      pose proof Hdir as Hd'. destruct Hd' as [Hd|Hd]; rewrite Hd in Hres |- *.
      + change (0 <? 1) with true in Hres |- *. cbv iota in Hres |- *.
        destruct (uc_chr (nthl lines r0) (Z.of_nat o0 + 1)) as [off0|] eqn:Eo; [|congruence].
        destruct (fwd_for_ok off0 Hd (fun _ => Eo) (length lines - r0) r0 m c _ _ vl F sv voff vbeg ltac:(lia) ltac:(lia) ltac:(lia) Hc SM)
          as (m' & c' & i' & f' & sv' & vo' & vb' & E & Hc' & R).
        rewrite Nat.eqb_refl in R. rewrite E.
        destruct (fwd_rows (fm_of find) (skipn r0 lines) r0 off0) as [rr oo ll| | |]; try contradiction; destruct R as [-> R];
          do 7 eexists; (split; [reflexivity|]); (split; [exact Hc'|]); (split; [reflexivity|exact R]).
      + change (0 <? -1) with false in Hres |- *. cbv iota in Hres |- *.
        destruct (bwd_for_ok Hd r0 m c _ _ vl F sv voff vbeg ltac:(lia) Hi ltac:(lia) Hc SM)
          as (m' & c' & i' & f' & sv' & vo' & vb' & E & Hc' & R).
        rewrite Nat.eqb_refl in R. rewrite E.
        destruct (bwd_rows (fm_of find) (rev (firstn (Datatypes.S r0) lines)) r0 (Some o0)) as [rr oo ll| | |]; try contradiction; destruct R as [-> R];
          do 7 eexists; (split; [reflexivity|]); (split; [exact Hc'|]); (split; [reflexivity|exact R]).
    - replace (nth_error lines r0) with (@None bytes) in Hres |- * by (symmetry; apply nth_error_None; lia).
      rewrite (for_exit_range_pos m c _ _ vl _ _ _ _ F ltac:(lia) SM) by lia.
      do 7 eexists. split; [reflexivity|]. split; [exact Hc|]. split; [reflexivity|exact SM].
  Qed.

  Variables (m : mem) (xic : Z) (vl : val).
  Hypothesis Hb : boffs = length m.
  Hypothesis Hxic : cell_at m G_xic xic.
  Hypothesis Ixic : i32 xic.
  Hypothesis Hmr : nth_error m br = Some [VInt (Z.of_nat r0)].
  Hypothesis Hmo : nth_error m bo = Some [VInt (Z.of_nat o0)].
  Hypothesis S1 : smem m1 [VUndef; VUndef] (Z.of_nat r0) (Z.of_nat o0) vl.
  Hypothesis Hmake : ext X_rstr_make [kwv; VInt (if xic =? 0 then 0 else 1)] (m ++ [[VUndef; VUndef]]) = Ok (rep, m1).

  (* lbuf_search when rstr_make returned a compiled pattern: the value and the memory handed to rstr_free are the model's;
     what rstr_free does with that memory is the oracle's answer *)
  Lemma search_run :
    let res := lbuf_search_g (fm_of find) lines fwd r0 o0 in
    res <> SOOB ->
    exists mf c, length c = 2%nat /\
      smem mf c (sres_r res (Z.of_nat r0)) (sres_o res (Z.of_nat o0)) (sres_l res vl) /\
      callx ext cprog F (S (S (S (S D)))) F_lbuf_search [VPtr lb 0; kwv; VInt dir; VPtr br 0; VPtr bo 0; VPtr bl 0] m
      = (do (_, m') <- ext X_rstr_free [rep] mf; Ok (VInt (sres_ret res), m')).
  Proof.
    intros res Hres.
    destruct (for_ok m1 [VUndef; VUndef] vl VUndef VUndef VUndef eq_refl S1 Hres) as (mf & c & i' & f' & sv' & vo' & vb' & E & Hc & Hf' & SF).
    fold res in Hf', SF. exists mf, c. split; [exact Hc|]. split; [exact SF|].
    assert (Lr : (br < length m)%nat) by (apply nth_error_Some; congruence).
    assert (Lo : (bo < length m)%nat) by (apply nth_error_Some; congruence).
    assert (Lx : (G_xic < length m)%nat) by (apply nth_error_Some; unfold cell_at in Hxic; congruence).
    rewrite callx_S. cbn [nth_error cprog F_lbuf_search cf_lbuf_search fn_nparams fn_nlocals fn_body length Nat.eqb Nat.sub repeat app].
    xstep. rewrite malloc_ok by lia. xstep. change (repeat VUndef (Z.to_nat 2)) with [VUndef; VUndef]. rewrite <- Hb.
    set (m0 := m ++ [[VUndef; VUndef]]) in *.
    try change (0 + 1 * 0) with 0. rewrite (fld_load m0 br [VInt (Z.of_nat r0)] 0 _ 0) by (try reflexivity; unfold m0; rewrite nth_error_app_old by exact Lr; exact Hmr). xstep.
    try change (0 + 1 * 0) with 0. rewrite (fld_load m0 bo [VInt (Z.of_nat o0)] 0 _ 0) by (try reflexivity; unfold m0; rewrite nth_error_app_old by exact Lo; exact Hmo). xstep.
    rewrite !wrap_I32_id by lia.
    rewrite (fld_load m0 G_xic [VInt xic] 0 _ 0) by (try reflexivity; unfold m0; rewrite nth_error_app_old by exact Lx; exact Hxic). xstep.
    rewrite wrap_I32_id by exact Ixic.
    assert (Emk : callx ext cprog F (S (S (S D))) X_rstr_make [kwv; VInt (if xic =? 0 then 0 else 1)] m0 = Ok (rep, m1))
      by (rewrite callx_S, x_rstr_make_none; exact Hmake).
    destruct (xic =? 0); xstep; rewrite Emk; xstep;
      (let t := eval cbv [srch_for fn_body cf_lbuf_search] in srch_for in change t with srch_for);
      fold (lst (Z.of_nat r0) 0 VUndef VUndef VUndef); rewrite E; unfold lst; xstep;
      rewrite callx_S, x_rstr_free_none; destruct (ext X_rstr_free [rep] mf) as [[u m']|e]; xstep; try reflexivity;
      rewrite Hf'; destruct res; reflexivity.
  Qed.
End Scan.

(* ------------------------------------------------------------------ the theorem *)
Lemma lbuf_at_lt m lb bln lbs lines k : lbuf_at m lb bln lbs lines -> In k (lb :: bln :: lbs) -> (k < length m)%nat.
Proof.
  intros [(blk & Hb & _) (lnblk & Hl & _) Hlbs Hstr _ _] [<-|[<-|Hk]].
  - apply nth_error_Some. congruence.
  - apply nth_error_Some. congruence.
  - destruct (In_nth lbs k O Hk) as (i & Hi & <-). specialize (Hstr i ltac:(lia)). unfold str_at in Hstr.
    apply nth_error_Some. congruence.
Qed.

(* int lbuf_search(lb, kw, dir, &r, &o, &len), after rstr_make(kw, xic ? RE_ICASE : 0) returned the compiled pattern (rb, ro) and
   left memory m1 (= the memory at the call with the offs block appended, plus whatever rstr_make allocated behind it):

   for EVERY oracle whose rstr_find answers on the memories of the scan are described by `find` (find_ans) with offsets inside the
   searched suffix (find_wf), every buffer in memory, every cursor (r0, o0) and both directions, the call
     - hands rstr_free the memory mf in which *r, *o, *len hold the model's result when it is SFound r o len and are untouched
       otherwise, the offs block holds two cells, and every other block is as in m1 (smem): the blocks of the buffer are never
       written, and the offs block (index length m) is the only block the function itself allocated;
     - returns 0 when the model says SFound and 1 otherwise -- with the memory rstr_free leaves.
   All loads are checked by the semantics (an Ok result means none left its block), so the scan reads the lines only up to their
   terminators.  The model's SOOB (the cursor offset lies beyond the line: uc_chr returns its static "") is excluded. *)
Theorem tr_lbuf_search ext F D m lb bln lbs lines br bo bl kb ko rb ro find dir r0 o0 xic vl m1 :
  lbuf_at m lb bln lbs lines -> lines_small lines -> lines_fit lines -> (length lines + maxlen lines + 4 < F)%nat ->
  find_wf find -> dir_ok dir -> Z.of_nat r0 <= 2147483647 -> Z.of_nat o0 < 2147483647 ->
  NoDup [br; bo; bl] -> (forall k, In k [br; bo; bl] -> ~ In k (lb :: bln :: lbs)) ->
  nth_error m br = Some [VInt (Z.of_nat r0)] -> nth_error m bo = Some [VInt (Z.of_nat o0)] -> nth_error m bl = Some [vl] ->
  cell_at m G_xic xic -> i32 xic ->
  ext X_rstr_make [VPtr kb ko; VInt (if xic =? 0 then 0 else 1)] (m ++ [[VUndef; VUndef]]) = Ok (VPtr rb ro, m1) ->
  (S (length m) <= length m1)%nat -> (forall k, (k <= length m)%nat -> nth_error m1 k = nth_error (m ++ [[VUndef; VUndef]]) k) ->
  find_ans ext F D m1 lbs lines (length m) br bo bl rb ro find ->
  let res := lbuf_search_g (fm_of find) lines (0 <? dir) r0 o0 in
  res <> SOOB ->
  exists mf c, length c = 2%nat /\
    smem m1 (length m) br bo bl mf c (sres_r res (Z.of_nat r0)) (sres_o res (Z.of_nat o0)) (sres_l res vl) /\
    callx ext cprog F (S (S (S (S D)))) F_lbuf_search [VPtr lb 0; VPtr kb ko; VInt dir; VPtr br 0; VPtr bo 0; VPtr bl 0] m
    = (do (_, m') <- ext X_rstr_free [VPtr rb ro] mf; Ok (VInt (sres_ret res), m')).
Proof.
  intros R Hsm Hfit HF Hwf Hdir Hr0 Ho0 Hnd Hout Hmr Hmo Hml Hxic Ixic Hmake Hlen Hsame Hfind res Hres.
  assert (Lr : (br < length m)%nat) by (apply nth_error_Some; congruence).
  assert (Lo : (bo < length m)%nat) by (apply nth_error_Some; congruence).
  assert (Ll : (bl < length m)%nat) by (apply nth_error_Some; congruence).
  assert (Hold : forall k, (k < length m)%nat -> nth_error m1 k = nth_error m k).
  { intros k Hk. rewrite Hsame by lia. apply nth_error_app_old. exact Hk. }
  assert (R1 : lbuf_at m1 lb bln lbs lines).
  { apply (lbuf_at_other m); [exact R|]. intros k Hk. apply Hold. apply (lbuf_at_lt _ _ _ _ _ _ R Hk). }
  inversion Hnd as [|? ? N1 Hnd2]; subst. inversion Hnd2 as [|? ? N2 Hnd3]; subst.
  assert (Hnd' : NoDup [length m; br; bo; bl]).
  { constructor; [|exact Hnd]. cbn. intros [E|[E|[E|[]]]]; lia. }
  assert (Hout' : forall k, In k [length m; br; bo; bl] -> ~ In k (lb :: bln :: lbs)).
  { intros k [<-|Hk]; [|apply Hout; exact Hk]. intro Hin. pose proof (lbuf_at_lt _ _ _ _ _ _ R Hin). lia. }
  assert (Hlt' : forall k, In k [length m; br; bo; bl] -> (k < length m1)%nat).
  { intros k [<-|[<-|[<-|[<-|[]]]]]; lia. }
  assert (S1 : smem m1 (length m) br bo bl m1 [VUndef; VUndef] (Z.of_nat r0) (Z.of_nat o0) vl).
  { constructor; [reflexivity|reflexivity| | | |].
    - rewrite Hsame by lia. apply nth_error_app_new.
    - rewrite Hold by exact Lr. exact Hmr.
    - rewrite Hold by exact Lo. exact Hmo.
    - rewrite Hold by exact Ll. exact Hml. }
  exact (search_run ext F D m1 lb bln lbs lines (length m) br bo bl kb ko rb ro find dir r0 o0 R1 Hsm HF Hfit Hwf Hdir
           Hnd' Hout' Hlt' Hr0 Ho0 Hfind m xic vl eq_refl Hxic Ixic Hmr Hmo S1 Hmake Hres).
Qed.

(* rstr_make returned NULL (the pattern does not compile): the function returns 1 at once; *r, *o, *len are not written and
   rstr_free is not called (SearchDefs.lbuf_search: rcomp kw = false -> SNotFound) *)
Theorem tr_lbuf_search_null ext F D (m : mem) lb kb ko dir br bo bl r0 o0 xic m1 :
  nth_error m br = Some [VInt r0] -> nth_error m bo = Some [VInt o0] -> i32 r0 -> i32 o0 -> cell_at m G_xic xic -> i32 xic ->
  ext X_rstr_make [VPtr kb ko; VInt (if xic =? 0 then 0 else 1)] (m ++ [[VUndef; VUndef]]) = Ok (VInt 0, m1) ->
  callx ext cprog F (S (S D)) F_lbuf_search [VPtr lb 0; VPtr kb ko; VInt dir; VPtr br 0; VPtr bo 0; VPtr bl 0] m = Ok (VInt 1, m1).
Proof.
  intros Hmr Hmo Ir Io Hxic Ixic Hmake.
  assert (Lr : (br < length m)%nat) by (apply nth_error_Some; congruence).
  assert (Lo : (bo < length m)%nat) by (apply nth_error_Some; congruence).
  assert (Lx : (G_xic < length m)%nat) by (apply nth_error_Some; unfold cell_at in Hxic; congruence).
  rewrite callx_S. cbn [nth_error cprog F_lbuf_search cf_lbuf_search fn_nparams fn_nlocals fn_body length Nat.eqb Nat.sub repeat app].
  xstep. rewrite malloc_ok by lia. xstep. change (repeat VUndef (Z.to_nat 2)) with [VUndef; VUndef].
  set (m0 := m ++ [[VUndef; VUndef]]) in *.
  try change (0 + 1 * 0) with 0. rewrite (fld_load m0 br [VInt r0] 0 _ 0) by (try reflexivity; unfold m0; rewrite nth_error_app_old by exact Lr; exact Hmr). xstep.
  try change (0 + 1 * 0) with 0. rewrite (fld_load m0 bo [VInt o0] 0 _ 0) by (try reflexivity; unfold m0; rewrite nth_error_app_old by exact Lo; exact Hmo). xstep.
  rewrite (fld_load m0 G_xic [VInt xic] 0 _ 0) by (try reflexivity; unfold m0; rewrite nth_error_app_old by exact Lx; exact Hxic). xstep.
  rewrite wrap_I32_id by exact Ixic.
  assert (Emk : callx ext cprog F (S D) X_rstr_make [VPtr kb ko; VInt (if xic =? 0 then 0 else 1)] m0 = Ok (VInt 0, m1))
    by (rewrite callx_S, x_rstr_make_none; exact Hmake).
  destruct (xic =? 0); xstep; rewrite Emk; xstep; reflexivity.
Qed.

(* ------------------------------------------------------------------ a concrete run (used by the Examples of Properties_C13.v) *)
(* the program's globals, a struct lbuf with two lines, the cells *r *o *len, the pattern string *)
Definition ex_G : nat := length cglobals.
Definition ex_lbuf_blk : block := repeat (VInt 0) 64 ++ [VPtr (ex_G + 1) 0; VInt 0; VInt 2; VInt 2] ++ repeat (VInt 0) 7.
Definition ex_mem (l0 l1 : bytes) (r0 o0 : Z) (kw : bytes) : mem :=
  cglobals ++ [ex_lbuf_blk; [VPtr (ex_G + 2) 0; VPtr (ex_G + 3) 0]; cstr_block (zb l0); cstr_block (zb l1);
               [VInt r0]; [VInt o0]; [VUndef]; cstr_block (zb kw)].
Definition ex_args (dir : Z) : list val :=
  [VPtr ex_G 0; VPtr (ex_G + 7) 0; VInt dir; VPtr (ex_G + 4) 0; VPtr (ex_G + 5) 0; VPtr (ex_G + 6) 0].
(* an oracle: rstr_make "compiles" into a struct rstr with rs == NULL (the literal lit, anchored by ^ when lbeg = 1), so the
   translated rstr_find runs its literal scan; rstr_free frees the two blocks *)
Definition ex_ext (lbeg : Z) (lit : bytes) : nat -> list val -> mem -> res (val * mem) := fun f args m =>
  if Nat.eqb f X_rstr_make then
    match args with
    | [_; VInt flg] => Ok (VPtr (length m) 0, m ++ [[VInt 0; VPtr (S (length m)) 0; VInt flg; VInt lbeg; VInt 0; VInt 0; VInt 0]; cstr_block (zb lit)])
    | _ => Err EShape
    end
  else if Nat.eqb f X_rstr_free then
    match args with [VPtr b 0] => Ok (VUndef, upd (upd m b []) (S b) []) | _ => Err EShape end
  else Err EShape.
(* the observable result: the value, the three cells, the number of blocks *)
Definition ex_out (x : res (val * mem)) : res (val * option block * option block * option block * nat) :=
  match x with
  | Ok (v, m') => Ok (v, nth_error m' (ex_G + 4)%nat, nth_error m' (ex_G + 5)%nat, nth_error m' (ex_G + 6)%nat, length m')
  | Err e => Err e
  end.
