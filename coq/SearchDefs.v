(* SearchDefs.v -- C13: model of mot.c lbuf_search, vi.c vi_search / vi_curword, rset.c re_read, and the
   whole-line specification of searching.  Parametric in the matcher (Section variables); a small reference
   matcher for the pattern subset the check generates follows the Section (rstr.c fast path + a
   backtracking matcher with the engine's anchors).  No proofs in this file.

   The model mirrors the code WITH the C13 fix: commits of /repo (7370ec1 count loop, c3b62b2 phantom line) and fixes/C13-empty-step.patch. *)
From Coq Require Import List NArith ZArith Bool Arith.
From NV Require Import Bytes UcDefs GenConsts.
Import ListNotations.
Local Open Scope nat_scope.

(* ---------------------------------------------------------------------------------------------- *)
(* generic part: one row matcher  fm s off = the match found in line s when the scan stands at byte off
   (offsets relative to off), as lbuf_search uses rstr_find(re, s + off, 1, offs, off ? RE_NOTBOL : 0) *)

Inductive sres := SFound (r o len : nat) | SNotFound | SOOB | SFuel.

Section Rows.
Variable fm : bytes -> nat -> option (nat * nat).

(* "beg > 0 && !s[beg] && s[beg - 1] == '\n'": the terminator after the newline is no position of the line *)
Definition phantom (s : bytes) (beg : nat) : bool :=
  (0 <? beg) && (nthb s beg =? 0)%N && (nthb s (beg - 1) =? 10)%N.

Definition conv (s : bytes) (beg e_b : nat) : nat * nat :=
  (uc_off s beg, uc_off (skipn beg s) e_b).

(* forward: at most one match per row *)
Definition fwd_row (s : bytes) (off : nat) : option (nat * nat) :=
  match fm s off with
  | Some (b, e) => if phantom s (off + b) then None else Some (conv s (off + b) (e - b))
  | None => None
  end.

Fixpoint fwd_rows (rows : list bytes) (i : nat) (first : nat) : sres :=
  match rows with
  | [] => SNotFound
  | s :: rest => match fwd_row s first with
                 | Some (o, l) => SFound i o l
                 | None => fwd_rows rest (S i) 0
                 end
  end.

(* backward: enumerate the successive matches of the row; lim = Some o0 on the cursor row.
   None = out of fuel (unreachable with fuel = S (length s), see SearchProps.bwd_row_fuel) *)
Fixpoint bwd_row (fuel : nat) (s : bytes) (off : nat) (lim : option nat) (acc : option (nat * nat))
  : option (option (nat * nat)) :=
  match fuel with
  | O => None
  | S f =>
    match fm s off with
    | None => Some acc
    | Some (b, e) =>
      let beg := off + b in
      if phantom s beg then Some acc
      else if (match lim with Some o0 => o0 <=? uc_off s beg | None => false end) then Some acc
      else
        let acc' := Some (conv s beg (e - b)) in
        let off' := off + (if b <? e then e else e + uc_len (skipn (off + e) s)) in
        if (nthb s off' =? 0)%N || (nthb s off' =? 10)%N then Some acc'
        else bwd_row f s off' lim acc'
    end
  end.

Fixpoint bwd_rows (rows : list bytes) (i : nat) (lim : option nat) : sres :=
  match rows with
  | [] => SNotFound
  | s :: rest => match bwd_row (S (length s)) s 0 lim None with
                 | None => SFuel
                 | Some (Some (o, l)) => SFound i o l
                 | Some None => bwd_rows rest (pred i) None
                 end
  end.

(* mot.c lbuf_search after rstr_make succeeded; fwd = (dir > 0) *)
Definition lbuf_search_g (lb : list bytes) (fwd : bool) (r0 o0 : nat) : sres :=
  match nth_error lb r0 with
  | None => SNotFound
  | Some s =>
    if fwd then
      match uc_chr s (Z.of_nat o0 + 1) with
      | None => SOOB                        (* uc_chr returned its static "": wild pointer difference *)
      | Some off => fwd_rows (skipn r0 lb) r0 off
      end
    else bwd_rows (rev (firstn (S r0) lb)) r0 (Some o0)
  end.

(* all successive matches of a row (character offsets), as the backward enumeration produces them
   when no cursor limits it: the property's "successive matches" *)
Fixpoint occ (fuel : nat) (s : bytes) (off : nat) : list (nat * nat) :=
  match fuel with
  | O => []
  | S f =>
    match fm s off with
    | None => []
    | Some (b, e) =>
      let beg := off + b in
      if phantom s beg then []
      else
        let off' := off + (if b <? e then e else e + uc_len (skipn (off + e) s)) in
        conv s beg (e - b) :: (if (nthb s off' =? 0)%N || (nthb s off' =? 10)%N then [] else occ f s off')
    end
  end.
End Rows.

(* ---------------------------------------------------------------------------------------------- *)
(* the editor's side: pattern string, direction, line offset *)

Record sstate := { kwd : bytes; kdir : Z; soset : bool; so : Z }.
Definition sstate0 : sstate := {| kwd := []; kdir := 0%Z; soset := false; so := 0%Z |}.

Inductive scmd :=
| CSlash (typed : bytes)      (* /typed<CR> *)
| CQuest (typed : bytes)      (* ?typed<CR> *)
| CNext | CPrev               (* n N *)
| CWord.                      (* ^A *)

(* rset.c re_read on delim :: typed : (pattern, rest after the closing delimiter) *)
Fixpoint re_read_f (fuel : nat) (delim : N) (s : bytes) (acc : bytes) : bytes * bytes :=
  match fuel with
  | O => (rev acc, s)
  | S f =>
    match s with
    | [] => (rev acc, [])
    | c :: s1 =>
      if (c =? delim)%N then (rev acc, s1)
      else if (c =? 92)%N then
        match s1 with
        | [] => re_read_f f delim s1 (c :: acc)
        | d :: s2 => if (d =? delim)%N then re_read_f f delim s2 (d :: acc)
                     else re_read_f f delim s2 (d :: 92%N :: acc)
        end
      else re_read_f f delim s1 (c :: acc)
    end
  end.
Definition re_read (delim : N) (typed : bytes) : bytes * bytes := re_read_f (S (length typed)) delim typed [].

Fixpoint skip_spaces (s : bytes) : bytes :=
  match s with c :: r => if c_isspace c then skip_spaces r else s | [] => [] end.
Fixpoint digits_val (s : bytes) (acc : Z) : Z :=
  match s with c :: r => if c_isdigit c then digits_val r (acc * 10 + Z.of_N c - 48)%Z else acc | [] => acc end.
(* atoi after the blanks have been skipped *)
Definition c_atoi (s : bytes) : Z :=
  match s with
  | 45%N :: r => (- digits_val r 0)%Z
  | 43%N :: r => digits_val r 0
  | _ => digits_val s 0
  end.

(* ren.c ren_noeol on a line with its newline *)
Definition ren_noeol (s : bytes) (o : nat) : nat :=
  let n := uc_slen s in
  let o1 := if n <=? o then n - 1 else o in
  match uc_chr s (Z.of_nat o1) with
  | Some p => if (0 <? o1) && (nthb s p =? 10)%N then o1 - 1 else o1
  | None => o1
  end.

(* mot.c lbuf_indents *)
Fixpoint indents_f (fuel : nat) (s : bytes) : nat :=
  match fuel with
  | O => 0
  | S f => if uc_isspace s then S (indents_f f (skipn (uc_next s) s)) else 0
  end.
Definition lbuf_indents (s : bytes) : nat := indents_f (length s) s.

(* vi.c vi_curword with ext = "": byte span [beg, end) of the word at / before the cursor *)
Fixpoint word_end (fuel : nat) (s : bytes) (p : nat) : nat :=
  match fuel with
  | O => p
  | S f => let t := skipn p s in
           match t with
           | [] => p
           | _ => if (uc_kind t =? 1)%N then word_end f s (p + uc_next t) else p
           end
  end.
Fixpoint word_beg (fuel : nat) (s : bytes) (p : nat) : nat :=
  match fuel with
  | O => p
  | S f => if p =? 0 then p
           else let q := p - 1 - uc_beg (rev (firstn (p - 1) s)) (nthb s (p - 1)) in
                if (uc_kind (skipn q s) =? 1)%N then word_beg f s q else p
  end.
Definition vi_curword (s : bytes) (off : nat) : option bytes :=
  match uc_chr s (Z.of_nat (ren_noeol s off)) with
  | None => None
  | Some p =>
    let e := word_end (length s) s p in
    let b := word_beg (length s) s p in
    if e <=? b then None
    else Some (firstn (Nat.min 119 (e - b)) (skipn b s))
  end.

(* the row matcher the code uses: rstr_find(re, s + off, 1, offs, off ? RE_NOTBOL : 0), where
   rfind kw t notbol = rstr_find(rstr_make(kw, xic ? RE_ICASE : 0), t, 1, offs, notbol ? RE_NOTBOL : 0) *)
Definition fm_suffix (rfind : bytes -> bytes -> bool -> option (nat * nat)) (kw : bytes) (s : bytes) (off : nat)
  : option (nat * nat) := rfind kw (skipn off s) (negb (off =? 0)).

Section Search.
(* fmk kw = the row matcher for pattern kw: fm_suffix rfind for the code, a whole-line matcher for the specification *)
Variable fmk : bytes -> bytes -> nat -> option (nat * nat).
Variable rcomp : bytes -> bool.                 (* rstr_make(kw) != NULL *)

Definition lbuf_search (kw : bytes) (lb : list bytes) (fwd : bool) (r0 o0 : nat) : sres :=
  if rcomp kw then lbuf_search_g (fmk kw) lb fwd r0 o0 else SNotFound.

(* the count loop of vi_search: every further search continues from the match just found *)
Fixpoint search_iter (cnt : nat) (kw : bytes) (lb : list bytes) (fwd : bool) (r o : nat) : sres :=
  match cnt with
  | O => SFound r o 0
  | S c => match lbuf_search kw lb fwd r o with
           | SFound r1 o1 _ => search_iter c kw lb fwd r1 o1
           | x => x
           end
  end.

(* ex_kwdset(re[0] ? re : NULL, dir) *)
Definition kwdset (st : sstate) (re : option bytes) (dir : Z) : sstate :=
  {| kwd := match re with Some k => firstn (Z.to_nat EXLEN - 1) k | None => kwd st end;
     kdir := dir; soset := soset st; so := so st |}.

Definition prompt_search (st : sstate) (delim : N) (typed : bytes) : sstate :=
  let '(re, rest) := re_read delim typed in
  let st1 := kwdset st (match re with [] => None | _ => Some re end) (if (delim =? 47)%N then 1%Z else (-1)%Z) in
  let rest' := skip_spaces rest in
  {| kwd := kwd st1; kdir := kdir st1;
     soset := match rest' with [] => false | _ => true end; so := c_atoi rest' |}.

(* vi.c vi_search: result Some (row, off) with off = None for "first non-blank" (the line offset form) *)
Definition vi_search (st : sstate) (lb : list bytes) (cmd : scmd) (cnt : nat) (row off : nat)
  : sstate * option (nat * option nat) :=
  let st1 := match cmd with
             | CSlash t => prompt_search st 47%N t
             | CQuest t => prompt_search st 63%N t
             | _ => st
             end in
  match lb with
  | [] => (st1, None)
  | _ =>
    if (kdir st1 =? 0)%Z then (st1, None)
    else
      let d := match cmd with CPrev => (- kdir st1)%Z | _ => kdir st1 end in
      match search_iter cnt (kwd st1) lb (0 <? d)%Z row off with
      | SFound r o _ =>
        if soset st1 then
          let r' := (Z.of_nat r + so st1)%Z in
          if (r' <? 0)%Z || (Z.of_nat (length lb) <=? r')%Z then (st1, None)
          else (st1, Some (Z.to_nat r', None))
        else (st1, Some (r, Some o))
      | _ => (st1, None)
      end
  end.

(* one search command as vi() runs it: the cursor (xrow, xoff) before and after *)
Definition search_cmd (st : sstate) (lb : list bytes) (cmd : scmd) (cnt : nat) (xrow xoff : nat)
  : sstate * bool * (nat * nat) :=
  let ln := nth xrow lb [] in
  let noff := ren_noeol ln xoff in
  let '(st0, ok0) :=
    match cmd with
    | CWord => match vi_curword ln noff with
               | Some w => ({| kwd := firstn (Z.to_nat EXLEN - 1) ([92; 60]%N ++ w ++ [92; 62]%N);
                               kdir := 1%Z; soset := false; so := so st |}, true)
               | None => (st, false)
               end
    | _ => (st, true)
    end in
  if negb ok0 then (st0, false, (xrow, xoff))
  else
    let '(st1, res) := vi_search st0 lb (match cmd with CWord => CNext | c => c end) cnt xrow noff in
    match res with
    | None => (st1, false, (xrow, xoff))
    | Some (r, oo) =>
      let s := nth r lb [] in
      let o := match oo with Some o => o | None => lbuf_indents s end in
      (st1, true, (r, ren_noeol s o))
    end.

Fixpoint run_cmds (st : sstate) (lb : list bytes) (cmds : list (scmd * nat)) (xrow xoff : nat)
  : list (bool * (nat * nat)) :=
  match cmds with
  | [] => []
  | (c, n) :: rest =>
    let '(st1, ok, (r, o)) := search_cmd st lb c n xrow xoff in
    (ok, (r, o)) :: run_cmds st1 lb rest r o
  end.
End Search.

(* ---------------------------------------------------------------------------------------------- *)
(* reference matcher for the generated pattern subset: literals, \x, ., [..] with ranges and ^,
   ^ $ \< \>, postfix * on a consuming atom.  prev = the byte before the subject as the matcher
   sees it: None when the subject is handed over as a string of its own (the code), Some c when
   the subject is the tail of a line whose previous byte is c (the whole-line reading). *)

Inductive atom := AChr (c : N) | AAny | ABrk (neg : bool) (items : list (N * N)) | ABol | AEol | AWBeg | AWEnd.
Definition item := (atom * bool)%type.

Definition zero_width (a : atom) : bool :=
  match a with ABol | AEol | AWBeg | AWEnd => true | _ => false end.
Definition word_atom (a : atom) : bool :=
  match a with AWBeg | AWEnd => true | _ => false end.

Definition isword_b (c : N) : bool := c_isalnum c || (c =? 95)%N || (127 <? c)%N.
Definition low (ic : bool) (c : N) : N := if ic && (c <? 128)%N && c_isupper c then c + 32 else c.
(* regex.c RA_BEG: at the start of the subject unless NOTBOL; after a newline inside the subject, but not at its end *)
Definition bol_ok (prev : option N) (notbol : bool) (s : bytes) : bool :=
  match prev with None => negb notbol | Some p => (p =? 10)%N && match s with [] => false | _ => true end end.
Definition prev_word (prev : option N) : bool :=
  match prev with None => false | Some p => isword_b p end.

Definition atom_zero (a : atom) (prev : option N) (notbol : bool) (s : bytes) : bool :=
  match a with
  | ABol => bol_ok prev notbol s
  | AEol => match s with [] => true | c :: _ => (c =? 10)%N end
  | AWBeg => negb (prev_word prev) && match s with [] => false | c :: _ => isword_b c end
  | AWEnd => prev_word prev && match s with [] => true | c :: _ => negb (isword_b c) end
  | _ => false
  end.

Fixpoint brk_in (ic : bool) (c : N) (items : list (N * N)) : bool :=
  match items with
  | [] => false
  | (b, e) :: r => ((low ic b <=? c)%N && (c <=? low ic e)%N) || brk_in ic c r
  end.

Definition clen (s : bytes) : nat := Nat.max 1 (Nat.min (uc_len s) (length s)).

Definition atom_step (ic : bool) (a : atom) (s : bytes) : option nat :=
  match s with
  | [] => None
  | _ =>
    let c := uc_code s in
    match a with
    | AChr x => if (low ic c =? low ic x)%N then Some (clen s) else None
    | AAny => if (c =? 10)%N then None else Some (clen s)
    | ABrk neg items =>
        if neg && (c =? 10)%N then None
        else if xorb neg (brk_in ic (low ic c) items) then Some (clen s) else None
    | _ => None
    end
  end.

Definition lastb (n : nat) (s : bytes) (prev : option N) : option N :=
  match n with O => prev | S k => Some (nthb s k) end.

Section RefMatch.
Variable ic notbol : bool.

Section Star.
Variable k : option N -> bytes -> option nat.       (* the rest of the pattern *)
Variable a : atom.
(* greedy x*: as many as possible first, then give back; fuel = length s, every step consumes *)
Fixpoint star_loop (fuel : nat) (prev : option N) (s : bytes) : option nat :=
  match fuel with
  | O => k prev s
  | S f => match atom_step ic a s with
           | Some n => match star_loop f (lastb n s prev) (skipn n s) with
                       | Some m => Some (n + m)
                       | None => k prev s
                       end
           | None => k prev s
           end
  end.
End Star.

Fixpoint mt (its : list item) (prev : option N) (s : bytes) : option nat :=
  match its with
  | [] => Some 0
  | (a, false) :: r =>
      if zero_width a then (if atom_zero a prev notbol s then mt r prev s else None)
      else match atom_step ic a s with
           | Some n => match mt r (lastb n s prev) (skipn n s) with
                       | Some m => Some (n + m)
                       | None => None
                       end
           | None => None
           end
  | (a, true) :: r => star_loop (mt r) a (length s) prev s
  end.

(* regex.c regexec: try every character start including the terminator, none on an empty subject *)
Fixpoint scan (fuel : nat) (its : list item) (prev : option N) (s : bytes) (j : nat) : option (nat * nat) :=
  match fuel with
  | O => None
  | S f =>
    match mt its prev s with
    | Some n => Some (j, j + n)
    | None => match s with
              | [] => None
              | _ => let l := clen s in scan f its (lastb l s prev) (skipn l s) (j + l)
              end
    end
  end.
Definition engine_find (its : list item) (prev : option N) (s : bytes) : option (nat * nat) :=
  match s with [] => None | _ => scan (S (length s)) its prev s 0 end.
End RefMatch.

(* rstr.c: the fast path.  rstr_simple: ^? (\<)? literal (\>)? $? *)
Record simple := { lbeg : bool; wbeg : bool; lit : bytes; wend : bool; lend : bool }.

Fixpoint take_lit (s : bytes) : bytes * bytes :=
  match s with
  | c :: r => if existsb (N.eqb c) rstr_meta then ([], s) else let '(l, t) := take_lit r in (c :: l, t)
  | [] => ([], [])
  end.
Definition rstr_simple (re : bytes) : option simple :=
  let '(lb, r1) := match re with 94%N :: r => (true, r) | _ => (false, re) end in
  let '(wb, r2) := match r1 with 92%N :: 60%N :: r => (true, r) | _ => (false, r1) end in
  let '(l, r3) := take_lit r2 in
  let '(we, r4) := match r3 with 92%N :: 62%N :: r => (true, r) | _ => (false, r3) end in
  let '(le, r5) := match r4 with 36%N :: r => (true, r) | _ => (false, r4) end in
  match r5 with
  | [] => Some {| lbeg := lb; wbeg := wb; lit := l; wend := we; lend := le |}
  | _ => None
  end.

Fixpoint match_case (ic : bool) (s r : bytes) : bool :=     (* true = mismatch, as in the C code *)
  match r, s with
  | [], _ => false
  | _ :: _, [] => true
  | x :: r', c :: s' =>
      if ic then (if (c_tolower c =? c_tolower x)%N then match_case ic s' r' else true)
      else (if (c =? x)%N then match_case ic s' r' else true)
  end.

(* positions r = beg .. end of rstr_find; prev = byte before the subject (None: none is seen) *)
Fixpoint rstr_loop (ic : bool) (sp : simple) (prev : option N) (s : bytes) (r : nat) (cnt : nat) : option (nat * nat) :=
  match cnt with
  | O => None
  | S k =>
    let len := length (lit sp) in
    let t := skipn r s in
    let before := match r with O => prev | S q => Some (nthb s q) end in
    let skip_wbeg := wbeg sp && (prev_word before || negb (isword_b (nthb s r))) in
    let skip_wend := wend sp && negb (nthb s (r + len) =? 0)%N &&
                     ((match r + len with O => negb (prev_word prev) | S q => negb (isword_b (nthb s q)) end)
                      || isword_b (nthb s (r + len))) in
    if skip_wbeg || skip_wend then rstr_loop ic sp prev s (S r) k
    else if negb (match_case ic t (lit sp)) then Some (r, r + len)
    else rstr_loop ic sp prev s (S r) k
  end.

Definition rstr_find_simple (ic notbol : bool) (sp : simple) (prev : option N) (s : bytes) : option (nat * nat) :=
  if lbeg sp && negb (bol_ok prev notbol s) then None
  else
    let len := length (lit sp) in
    if length s <? len + 1 then None               (* end < beg *)
    else
      let e := length s - len - 1 in
      let b := if lend sp then e else 0 in
      let e' := if lbeg sp then 0 else e in
      if e' <? b then None else rstr_loop ic sp prev s b (S (e' - b)).

(* parser of the subset; None = not in the subset (the driver reports it, the check skips it) *)
Fixpoint parse_brk (fuel : nat) (s : bytes) (first : bool) (acc : list (N * N)) : option (list (N * N) * bytes) :=
  match fuel with
  | O => None
  | S f =>
    match s with
    | [] => None
    | 93%N :: r => if first then parse_brk_item f s acc else Some (rev acc, r)
    | 91%N :: 58%N :: _ => None                    (* named classes are outside the subset *)
    | _ => parse_brk_item f s acc
    end
  end
with parse_brk_item (fuel : nat) (s : bytes) (acc : list (N * N)) : option (list (N * N) * bytes) :=
  match fuel with
  | O => None
  | S f =>
    match s with
    | [] => None
    | _ =>
      let l := clen s in
      let c := uc_code s in
      let r := skipn l s in
      match r with
      | 45%N :: d :: r2 =>
          if (d =? 93)%N then parse_brk f r false ((c, c) :: acc)
          else let t := d :: r2 in parse_brk f (skipn (clen t) t) false ((c, uc_code t) :: acc)
      | _ => parse_brk f r false ((c, c) :: acc)
      end
    end
  end.

Definition star_follows (s : bytes) : bool * bytes :=
  match s with 42%N :: r => (true, r) | _ => (false, s) end.

Fixpoint parse_re (fuel : nat) (s : bytes) (acc : list item) : option (list item) :=
  match fuel with
  | O => None
  | S f =>
    match s with
    | [] => Some (rev acc)
    | 94%N :: r => parse_re f r ((ABol, false) :: acc)
    | 36%N :: r => parse_re f r ((AEol, false) :: acc)
    | 46%N :: r => let '(st, r') := star_follows r in parse_re f r' ((AAny, st) :: acc)
    | 92%N :: 60%N :: r => parse_re f r ((AWBeg, false) :: acc)
    | 92%N :: 62%N :: r => parse_re f r ((AWEnd, false) :: acc)
    | 92%N :: r =>
        match r with
        | [] => None
        | _ => let l := clen r in
               let '(st, r') := star_follows (skipn l r) in parse_re f r' ((AChr (uc_code r), st) :: acc)
        end
    | 91%N :: r =>
        let '(neg, r1) := match r with 94%N :: t => (true, t) | _ => (false, r) end in
        match parse_brk (S (length r1)) r1 true [] with
        | Some (items, r2) => let '(st, r') := star_follows r2 in parse_re f r' ((ABrk neg items, st) :: acc)
        | None => None
        end
    | c :: _ =>
        if existsb (N.eqb c) re_meta then None       (* ( | ) * ? + { at this place: outside the subset *)
        else let l := clen s in
             let '(st, r') := star_follows (skipn l s) in parse_re f r' ((AChr (uc_code s), st) :: acc)
    end
  end.

Definition ref_items (kw : bytes) : option (list item) := parse_re (S (length kw)) kw [].

(* the reference matcher with an explicit left neighbour *)
Definition ref_find (ic : bool) (kw : bytes) (prev : option N) (notbol : bool) (s : bytes) : option (nat * nat) :=
  match rstr_simple kw with
  | Some sp => rstr_find_simple ic notbol sp prev s
  | None => match ref_items kw with
            | Some its => engine_find ic notbol its prev s
            | None => None
            end
  end.

Definition ref_rcomp (kw : bytes) : bool :=
  match rstr_simple kw with Some _ => true | None => match ref_items kw with Some _ => true | None => false end end.
(* what the code computes: the subject is a string of its own *)
Definition ref_rfind (ic : bool) (kw : bytes) (s : bytes) (notbol : bool) : option (nat * nat) :=
  ref_find ic kw None notbol s.
(* the whole-line reading: the scan stands at byte k of line s and sees the byte before it *)
Definition prev_of (s : bytes) (k : nat) : option N :=
  match k with O => None | S q => Some (nthb s q) end.
Definition ref_wfind (ic : bool) (kw : bytes) (s : bytes) (k : nat) : option (nat * nat) :=
  ref_find ic kw (prev_of s k) (negb (k =? 0)) (skipn k s).

Definition no_word_atoms (kw : bytes) : bool :=
  match rstr_simple kw with
  | Some sp => negb (wbeg sp) && negb (wend sp)
  | None => match ref_items kw with
            | Some its => forallb (fun it => negb (word_atom (fst it))) its
            | None => true
            end
  end.

(* the model and the specification instantiated with the reference matcher *)
Definition ref_run (ic : bool) := run_cmds (fm_suffix (ref_rfind ic)) ref_rcomp.
Definition ref_spec_run (ic : bool) := run_cmds (ref_wfind ic) ref_rcomp.
Definition ref_spec_search (ic : bool) (kw : bytes) (lb : list bytes) (fwd : bool) (r0 o0 : nat) : sres :=
  if ref_rcomp kw then lbuf_search_g (ref_wfind ic kw) lb fwd r0 o0 else SNotFound.
Definition line_ok (s : bytes) : Prop := exists body, s = body ++ [10%N] /\ ~ In 10%N body.
