(* RstrEngine3.v -- C12, part 3: what the atoms of a simple pattern mean on a newline-terminated
   valid UTF-8 line: the chain of atom matches at a start position is RstrDefs.sat_b. *)
From Coq Require Import List NArith ZArith Bool Arith Lia ZifyBool ZifyNat ZifyN.
From NV Require Import Bytes GenConsts UcDefs UcSpec UcProps UcSegProps RstrDefs RstrProps ReSyntax ReParse ReEmit ReVM RsetDefs RstrEngine RstrEngine2.
Import ListNotations.
Local Open Scope N_scope.

(* ------------------------------------------------------------------------------------------ *)
(* bytes of an encoded scalar *)
Definition contb (b : N) : Prop := 128 <= b < 192.

Lemma enc_decomp c : scalar c -> exists l t, encode c = l :: t /\ Forall contb t /\
  ((0 < l < 128 /\ t = [] /\ l = c) \/ (192 <= l < 256 /\ t <> [])).
Proof.
  intro Hs. destruct (encode_shape c Hs) as [H | l t H El Et Hl Ht | l t1 t2 H El E1 E2 Hl H1 H2 | l t1 t2 t3 H El E1 E2 E3 Hl H1 H2 H3].
  - exists c, []. split; [reflexivity|]. split; [constructor|]. left. repeat split; lia.
  - exists l, [t]. split; [reflexivity|]. split; [repeat constructor; unfold contb; lia|]. right. split; [lia|discriminate].
  - exists l, [t1; t2]. split; [reflexivity|]. split; [repeat constructor; unfold contb; lia|]. right. split; [lia|discriminate].
  - exists l, [t1; t2; t3]. split; [reflexivity|]. split; [repeat constructor; unfold contb; lia|]. right. split; [lia|discriminate].
Qed.

Lemma is_cont_yes b : contb b -> ReVM.is_cont b = true.
Proof. intro H. destruct (cls_cont b H) as (_ & K & _). exact K. Qed.
Lemma is_cont_no b : b < 128 \/ 192 <= b < 256 -> ReVM.is_cont b = false.
Proof.
  intro H. assert (Hb : b < 256) by lia.
  pose proof (byte_sweep (fun b => implb ((b <? 128) || (192 <=? b)) (negb (ReVM.is_cont b))) ltac:(vm_compute; reflexivity) b Hb) as K.
  cbv beta in K. replace ((b <? 128) || (192 <=? b)) with true in K by lia. cbn [implb] in K. now apply negb_true_iff in K.
Qed.

Lemma isword_eq c : RstrDefs.isword c = ReVM.isword c.
Proof. reflexivity. Qed.
Lemma isword_hi b : 128 <= b -> ReVM.isword b = true.
Proof. intro H. unfold ReVM.isword. replace (127 <? b) with true by lia. now rewrite orb_true_r. Qed.

(* ------------------------------------------------------------------------------------------ *)
(* uc_beg of regex.c walks back to the lead byte *)
Lemma uc_beg_noncont L k : ReVM.is_cont (nthb L k) = false -> ReVM.uc_beg L k = k.
Proof. destruct k; [reflexivity|]. cbn [ReVM.uc_beg]. intros ->. reflexivity. Qed.

Lemma nthb_mid (pre : bytes) x rest : nthb (pre ++ x :: rest) (length pre) = x.
Proof. unfold nthb. rewrite app_nth2 by lia. now rewrite Nat.sub_diag. Qed.

Lemma uc_beg_lead (t : bytes) : forall pre l rest, ReVM.is_cont l = false -> Forall contb t ->
  ReVM.uc_beg (pre ++ l :: t ++ rest) (length pre + length t) = length pre.
Proof.
  induction t as [|b t IH] using rev_ind; intros pre l rest Hl Ht.
  - cbn [length app]. rewrite Nat.add_0_r. apply uc_beg_noncont. now rewrite nthb_mid.
  - apply Forall_app in Ht. destruct Ht as [Ht Hb]. inversion Hb as [|? ? Hb' _]; subst.
    rewrite app_length. cbn [length]. replace (length pre + (length t + 1))%nat with (S (length pre + length t)) by lia.
    cbn [ReVM.uc_beg].
    assert (E : nthb (pre ++ l :: (t ++ [b]) ++ rest) (S (length pre + length t)) = b).
    { replace (pre ++ l :: (t ++ [b]) ++ rest) with ((pre ++ l :: t) ++ b :: rest) by (rewrite <- !app_assoc; reflexivity).
      replace (S (length pre + length t)) with (length (pre ++ l :: t)) by (rewrite app_length; cbn [length]; lia).
      apply nthb_mid. }
    rewrite E, (is_cont_yes b Hb'). rewrite <- app_assoc. cbn [app]. apply IH; assumption.
Qed.

(* the character that contains byte k *)
Lemma locate : forall cs k, (k < length (chars cs))%nat ->
  exists cs1 c cs2, cs = cs1 ++ c :: cs2 /\ (length (chars cs1) <= k < length (chars cs1) + length (encode c))%nat.
Proof.
  induction cs as [|c cs IH]; intros k Hk; [cbn in Hk; lia|]. rewrite chars_cons, app_length in Hk.
  destruct (Nat.lt_ge_cases k (length (encode c))) as [Hlt|Hge].
  - exists [], c, cs. split; [reflexivity|]. cbn. lia.
  - destruct (IH (k - length (encode c))%nat ltac:(lia)) as (cs1 & c' & cs2 & -> & Hr).
    exists (c :: cs1), c', cs2. split; [reflexivity|]. rewrite chars_cons, app_length. lia.
Qed.

Lemma nth_inside cs1 c cs2 l t m d : encode c = l :: t -> (m < length (l :: t))%nat ->
  nth (length (chars cs1) + m) (chars (cs1 ++ c :: cs2)) d = nth m (l :: t) d.
Proof.
  intros E Hm. rewrite chars_app, chars_cons, E. rewrite app_nth2 by lia.
  replace (length (chars cs1) + m - length (chars cs1))%nat with m by lia. now rewrite app_nth1 by exact Hm.
Qed.

(* the byte classes seen at a position strictly inside a multi-byte character *)
Lemma inside_bytes cs cs1 c cs2 i : Forall scalar cs -> cs = cs1 ++ c :: cs2 ->
  (length (chars cs1) < i < length (chars cs1) + length (encode c))%nat ->
  contb (nth i (chars cs) 0) /\ 128 <= nth (i - 1) (chars cs) 0 /\ (0 < i < length (chars cs))%nat.
Proof.
  intros Hs -> Hi. assert (Hc : scalar c). { apply Forall_app in Hs. destruct Hs as [_ Hs]. now inversion Hs. }
  destruct (enc_decomp c Hc) as (l & t & E & Ht & Hl). rewrite E in Hi. cbn [length] in Hi.
  assert (Hlen : (i < length (chars (cs1 ++ c :: cs2)))%nat).
  { rewrite chars_app, chars_cons, !app_length, E. cbn [length]. lia. }
  destruct Hl as [(_ & -> & _)|[Hl Hne]]; [cbn in Hi; lia|].
  remember (i - length (chars cs1))%nat as m eqn:Em.
  replace i with (length (chars cs1) + m)%nat at 1 by lia.
  replace (i - 1)%nat with (length (chars cs1) + (m - 1))%nat by lia.
  rewrite (nth_inside cs1 c cs2 l t m 0 E) by (cbn [length]; lia).
  rewrite (nth_inside cs1 c cs2 l t (m - 1) 0 E) by (cbn [length]; lia).
  rewrite Forall_forall in Ht.
  split; [|split; [|lia]].
  - destruct m as [|m']; [lia|]. cbn [nth]. apply Ht, nth_In. lia.
  - destruct m as [|[|m']]; [lia|cbn; lia|]. replace (S (S m') - 1)%nat with (S m') by lia. cbn [nth].
    assert (contb (nth m' t 0)) by (apply Ht, nth_In; lia). unfold contb in *. lia.
Qed.

Lemma word_back cs k : Forall scalar cs ->
  ReVM.isword (nthb (chars cs) (ReVM.uc_beg (chars cs) k)) = ReVM.isword (nthb (chars cs) k).
Proof.
  intro Hs. destruct (ReVM.is_cont (nthb (chars cs) k)) eqn:Ec; [|now rewrite uc_beg_noncont].
  assert (Hk : (k < length (chars cs))%nat).
  { destruct (Nat.lt_ge_cases k (length (chars cs))); [assumption|]. unfold nthb in Ec. rewrite nth_overflow in Ec by lia. discriminate. }
  destruct (locate cs k Hk) as (cs1 & c & cs2 & E & Hr).
  assert (Hc : scalar c). { rewrite E in Hs. apply Forall_app in Hs. destruct Hs as [_ Hs]. now inversion Hs. }
  destruct (enc_decomp c Hc) as (l & t & El & Ht & Hl). rewrite El in Hr. cbn [length] in Hr.
  remember (k - length (chars cs1))%nat as m eqn:Em0.
  assert (Ek : k = (length (chars cs1) + m)%nat) by lia. clear Em0.
  assert (Hnc : ReVM.is_cont l = false) by (apply is_cont_no; lia).
  destruct m as [|m'] eqn:Em.
  { exfalso. unfold nthb in Ec. rewrite Ek, E, (nth_inside cs1 c cs2 l t 0 0 El) in Ec by (cbn [length]; lia). cbn [nth] in Ec. congruence. }
  destruct Hl as [(_ & -> & _)|[Hl Hne]]; [cbn in Hr; lia|].
  assert (Hsplit : t = firstn (S m') t ++ skipn (S m') t) by (symmetry; apply firstn_skipn).
  assert (Hfl : length (firstn (S m') t) = S m') by (rewrite firstn_length; lia).
  assert (EL : chars cs = chars cs1 ++ l :: firstn (S m') t ++ (skipn (S m') t ++ chars cs2)).
  { rewrite E, chars_app, chars_cons, El. cbn [app]. rewrite app_assoc, <- Hsplit. reflexivity. }
  assert (Ub : ReVM.uc_beg (chars cs) k = length (chars cs1)).
  { rewrite Ek, EL.
    pose proof (uc_beg_lead (firstn (S m') t) (chars cs1) l (skipn (S m') t ++ chars cs2) Hnc (Forall_firstn' _ _ _ Ht)) as U.
    rewrite Hfl in U. exact U. }
  rewrite Ub. rewrite EL at 1. rewrite nthb_mid. rewrite (isword_hi l) by lia.
  symmetry. apply isword_hi. unfold nthb. rewrite Ek, E, (nth_inside cs1 c cs2 l t (S m') 0 El) by (cbn [length]; lia).
  cbn [nth]. rewrite Forall_forall in Ht. assert (contb (nth m' t 0)) by (apply Ht, nth_In; lia). unfold contb in *. lia.
Qed.

(* ------------------------------------------------------------------------------------------ *)
(* the line *)
Lemma line_chars cs : chars cs ++ [10] = chars (cs ++ [10]).
Proof. rewrite chars_app. reflexivity. Qed.
Lemma scalar10 : scalar 10.
Proof. unfold scalar. lia. Qed.

Lemma rdk_nth w (s : bytes) k : (k <= length s)%nat -> rdk w s k = Ok (nth k s 0).
Proof.
  intro H. unfold rdk. destruct (nth_error s k) eqn:E.
  - f_equal. symmetry. apply nth_error_nth. exact E.
  - apply nth_error_None in E. replace (Nat.eqb k (length s)) with true by (symmetry; apply Nat.eqb_eq; lia).
    now rewrite nth_overflow by lia.
Qed.

Lemma prefixb_spec lit : forall s,
  prefixb lit s = eqb_bytes (map (fold_case false) (firstn (length lit) s)) (map (fold_case false) lit).
Proof.
  induction lit as [|x lit IH]; intro s; [reflexivity|]. destruct s as [|y s]; [reflexivity|].
  cbn [prefixb length firstn map eqb_bytes fold_case]. rewrite IH. rewrite (N.eqb_sym y x). reflexivity.
Qed.

Section Atoms.
  Variable cs : list N.
  Hypothesis Hs : Forall scalar cs.
  Hypothesis H10 : ~ In 10 (chars cs).
  Variable flg : Z.
  Variable ic nb : bool.
  Hypothesis Fic : has flg REG_ICASE = ic.
  Hypothesis Fnl : has flg REG_NEWLINE = true.
  Hypothesis Fnb : has flg REG_NOTBOL = nb.
  Let content := chars cs.
  Let L := content ++ [10].
  Let n := length content.

  Lemma L_len : length L = S n.
  Proof. unfold L, n. rewrite app_length. cbn. lia. Qed.
  Lemma H0 : ~ In 0 content.
  Proof.
    intro Hin. pose proof (chars_nonul cs Hs) as Hn. unfold nonul in Hn. rewrite Forall_forall in Hn.
    specialize (Hn 0 Hin). unfold byte_ok in Hn. lia.
  Qed.

  Lemma prev_word p : prev_isword L p = ReVM.isword (nth (p - 1) L 0).
  Proof.
    unfold prev_isword, L, content. rewrite line_chars. apply word_back.
    apply Forall_app. split; [exact Hs|]. constructor; [exact scalar10|constructor].
  Qed.

  Lemma A_beg p : (p <= n)%nat ->
    ratom_match flg L ABeg p = Ok (if (p =? 0)%nat && negb nb then Some p else None).
  Proof.
    intro Hp. cbn [ratom_match]. rewrite Fnb. destruct (Nat.eqb_spec p 0) as [->|Hne]; [destruct nb; reflexivity|].
    cbn [andb]. assert (E : (nthb L (p - 1) =? 10) = false).
    { unfold nthb, L. unfold n in Hp. pose proof (nth_line_10 content (p - 1) H10 ltac:(lia)) as K.
      etransitivity; [exact K|]. apply Nat.eqb_neq. lia. }
    now rewrite E.
  Qed.

  Lemma A_wbeg p : (p <= S n)%nat ->
    ratom_match flg L AWBeg p = Ok (if wbegc L p then Some p else None).
  Proof.
    intro Hp. cbn [ratom_match]. rewrite rdk_nth by (rewrite L_len; lia). cbn [bind].
    rewrite prev_word. unfold wbegc. change RstrDefs.isword with ReVM.isword.
    destruct (((p =? 0)%nat || negb (ReVM.isword (nth (p - 1) L 0))) && ReVM.isword (nth p L 0)); reflexivity.
  Qed.

  Lemma A_wend p : (p <= S n)%nat ->
    ratom_match flg L AWEnd p = Ok (if wendc L p then Some p else None).
  Proof.
    intro Hp. cbn [ratom_match]. rewrite rdk_nth by (rewrite L_len; lia). cbn [bind].
    rewrite prev_word. unfold wendc. change RstrDefs.isword with ReVM.isword.
    assert (E : forall c, ((c =? 0) || negb (ReVM.isword c)) = negb (ReVM.isword c)).
    { intro c. destruct (N.eqb_spec c 0) as [->|]; reflexivity. }
    rewrite E. destruct (negb (p =? 0)%nat && ReVM.isword (nth (p - 1) L 0) && negb (ReVM.isword (nth p L 0))); reflexivity.
  Qed.

  Lemma A_end p : (p <= n)%nat ->
    ratom_match flg L AEnd p = Ok (if nth p L 0 =? 10 then Some p else None).
  Proof.
    intro Hp. cbn [ratom_match]. rewrite rdk_nth by (rewrite L_len; lia). cbn [bind].
    pose proof (nth_line_nz content p H0 Hp) as Hnz. fold L in Hnz.
    destruct (N.eqb_spec (nth p L 0) 0); [contradiction|]. rewrite Fnl. destruct (nth p L 0 =? 10); reflexivity.
  Qed.

  Lemma A_chr_plain lit p : ic = false ->
    ratom_match flg L (AChr lit) p = Ok (if lit_at false lit L p then Some (p + length lit)%nat else None).
  Proof.
    intro Eic. cbn [ratom_match]. rewrite Fic, Eic. cbn [negb]. unfold lit_at. rewrite prefixb_spec.
    destruct (eqb_bytes _ _); reflexivity.
  Qed.

  (* ---- the chain ---- *)
  Lemma chain_app l1 l2 p : chain flg L (l1 ++ l2) p =
    match chain flg L l1 p with Ok (Some q) => chain flg L l2 q | x => x end.
  Proof.
    revert p. induction l1 as [|a l1 IH]; intro p; [reflexivity|]. cbn [app chain].
    destruct (ratom_match flg L a p) as [[q|]| |]; try reflexivity. apply IH.
  Qed.

  Lemma opt_atom (b : bool) a p (cond : bool) : ratom_match flg L a p = Ok (if cond then Some p else None) ->
    chain flg L (if b then [a] else []) p = Ok (if implb b cond then Some p else None).
  Proof. intro H. destruct b; [|reflexivity]. cbn [chain implb]. rewrite H. destruct cond; reflexivity. Qed.

  Lemma chain_sat sp i : (i <= n)%nat -> ~ In 10 (p_lit sp) ->
    (p_lit sp <> [] -> ratom_match flg L (AChr (p_lit sp)) i =
        Ok (if lit_at ic (p_lit sp) L i then Some (i + length (p_lit sp))%nat else None)) ->
    chain flg L (atoms_of sp) i = Ok (if sat_b sp ic nb L i then Some (i + length (p_lit sp))%nat else None).
  Proof.
    intros Hi Hl10 Hchr. destruct sp as [b1 b2 lit b3 b4]. unfold atoms_of, sat_b. cbn [p_lbeg p_wbeg p_lit p_wend p_lend] in *.
    fold (wbegc L i). fold (wendc L (i + length lit)).
    rewrite chain_app, (opt_atom b1 ABeg i _ (A_beg i Hi)).
    destruct (implb b1 ((i =? 0)%nat && negb nb)); [|now rewrite andb_false_r].
    rewrite chain_app, (opt_atom b2 AWBeg i _ (A_wbeg i ltac:(lia))).
    destruct (implb b2 (wbegc L i)); [|now rewrite andb_false_r].
    rewrite !andb_true_r. rewrite chain_app.
    assert (Elit : chain flg L match lit with [] => [] | _ :: _ => [AChr lit] end i =
                   Ok (if lit_at ic lit L i then Some (i + length lit)%nat else None)).
    { destruct lit as [|x lit']; [cbn; now rewrite Nat.add_0_r|]. cbn [chain]. rewrite Hchr by discriminate.
      destruct (lit_at ic (x :: lit') L i); reflexivity. }
    rewrite Elit. destruct (lit_at ic lit L i) eqn:Ela; [|reflexivity]. cbn [andb].
    assert (Hq : (i + length lit <= n)%nat) by (apply (lit_at_fits ic lit content i Hl10 Hi); exact Ela).
    rewrite chain_app, (opt_atom b3 AWEnd _ _ (A_wend (i + length lit)%nat ltac:(lia))).
    destruct (implb b3 (wendc L (i + length lit))); [|reflexivity]. cbn [andb].
    rewrite (opt_atom b4 AEnd _ _ (A_end _ Hq)). reflexivity.
  Qed.
End Atoms.
