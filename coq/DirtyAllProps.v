(* DirtyAllProps.v -- C02: every quit form over a table of named / unnamed buffers (DirtyAllDefs.v). *)
From Coq Require Import List Arith NArith ZArith Lia Bool Permutation.
From NV Require Import Bytes GenConsts UndoDefs UndoProps DirtyDefs DirtyProps DirtyAllDefs.
Import ListNotations.

(* the file of the buffer holds the buffer's text (the ghost disk = the content when last read or last successfully written) *)
Definition good (f : nbuf) : Prop := ln (lb (nb f)) = disk (nb f).
(* a buffer without a name has no file: it may go only when it holds no text *)
Definition no_lost_text (f : nbuf) : Prop := nname f = None -> ln (lb (nb f)) = [].
Definition ntext (f : nbuf) : text := ln (lb (nb f)).

Lemma NInv_bm f : NInv f -> NInv (set_nb f (fst (bufs_modified (nb f)))).
Proof. intros [I D]. split; cbn [nb nname set_nb]; [apply bufs_modified_inv, I | exact D]. Qed.

Lemma NInv_clean f : NInv f -> dirty_flag (nb f) = false -> good f /\ no_lost_text f.
Proof.
  intros [(g0 & D) Dk] Fl. assert (G : good f) by (unfold good; eapply clean_sound; eauto).
  split; [exact G|]. intro N. unfold good in G. rewrite G. auto.
Qed.

Lemma noccupied_app a b : noccupied (a ++ b) = noccupied a ++ noccupied b.
Proof. unfold noccupied. apply flat_map_app. Qed.

(* the forms the property speaks about: no `!`; and the `a` forms with or without it (their `!` only switches the mtime guards
   of lbuf_save off -- every buffer is still written) *)
Definition judged (all bang : bool) : Prop := bang = false \/ all = true.

(* the loop exits: every slot was visited; without `a` every buffer was asked and reported clean; with `a` every occupied slot
   was handed to lbuf_save under its name -- none skipped, none without a name -- and every call succeeded *)
Lemma quit_n_exit all bang : judged all bang -> forall l pre sch calls t' cl s',
  Forall NInv (noccupied l) ->
  quit_n all bang pre l sch calls = (t', true, cl, s') ->
  exists l', t' = rev pre ++ l' /\ length l' = length l /\
    Forall good (noccupied l') /\ Forall no_lost_text (noccupied l') /\
    map ntext (noccupied l') = map ntext (noccupied l) /\ map nname (noccupied l') = map nname (noccupied l) /\
    (all = true -> cl = rev calls ++ map nname (noccupied l) /\ Forall (fun f => nname f <> None) (noccupied l) /\
                   (length (noccupied l) <= length sch -> s' = skipn (length (noccupied l)) sch)) /\
    (all = false -> cl = rev calls /\ s' = sch).
Proof.
  intros J. induction l as [|[f|] r IH]; intros pre sch calls t' cl s' Inv H; cbn [quit_n] in H.
  - inversion H; subst. exists []. cbn [length noccupied flat_map map app skipn]. rewrite !app_nil_r. repeat split; auto.
  - cbn [noccupied flat_map app] in Inv. fold (noccupied r) in Inv. inversion Inv as [|? ? If Ir]; subst.
    destruct all, bang; cbn [negb andb] in H.
    + (* xa! *) destruct (nname f) as [p|] eqn:Nm; [|discriminate].
      destruct (next_ok sch) as [ok s1] eqn:Nx. destruct ok; [|discriminate].
      apply IH in H; [|exact Ir]. destruct H as (l' & -> & Len & G & NL & Tx & Nmq & A & _).
      exists (Some (written f) :: l'). cbn [rev]. rewrite <- app_assoc. cbn [app length noccupied flat_map]. fold (noccupied l') (noccupied r).
      repeat split; auto.
      * constructor; [reflexivity | exact G].
      * constructor; [intro N; cbn in N; congruence | exact NL].
      * cbn [map]. f_equal. exact Tx.
      * cbn [map]. f_equal. exact Nmq.
      * destruct (A eq_refl) as (-> & _). cbn [rev map]. rewrite <- app_assoc, Nm. reflexivity.
      * destruct (A eq_refl) as (_ & F & _). constructor; [congruence | exact F].
      * destruct (A eq_refl) as (_ & _ & S). intros Le. cbn [length] in Le.
        unfold next_ok in Nx. destruct sch as [|b sch']; [cbn in Le; lia|]. inversion Nx; subst. cbn [skipn]. apply S. cbn in Le. lia.
      * discriminate.
      * discriminate.
    + (* xa *) destruct (nname f) as [p|] eqn:Nm; [|discriminate].
      destruct (next_ok sch) as [ok s1] eqn:Nx. destruct ok; [|discriminate].
      apply IH in H; [|exact Ir]. destruct H as (l' & -> & Len & G & NL & Tx & Nmq & A & _).
      exists (Some (written f) :: l'). cbn [rev]. rewrite <- app_assoc. cbn [app length noccupied flat_map]. fold (noccupied l') (noccupied r).
      repeat split; auto.
      * constructor; [reflexivity | exact G].
      * constructor; [intro N; cbn in N; congruence | exact NL].
      * cbn [map]. f_equal. exact Tx.
      * cbn [map]. f_equal. exact Nmq.
      * destruct (A eq_refl) as (-> & _). cbn [rev map]. rewrite <- app_assoc, Nm. reflexivity.
      * destruct (A eq_refl) as (_ & F & _). constructor; [congruence | exact F].
      * destruct (A eq_refl) as (_ & _ & S). intros Le. cbn [length] in Le.
        unfold next_ok in Nx. destruct sch as [|b sch']; [cbn in Le; lia|]. inversion Nx; subst. cbn [skipn]. apply S. cbn in Le. lia.
      * discriminate.
      * discriminate.
    + (* q!, wq!, x!: not judged *) destruct J; discriminate.
    + (* q, wq, x *) destruct (dirty_flag (nb f)) eqn:Fl; [discriminate|].
      apply IH in H; [|exact Ir]. destruct H as (l' & -> & Len & G & NL & Tx & Nmq & _ & A).
      destruct (NInv_clean f If Fl) as [Gf Lf].
      exists (Some (set_nb f (fst (bufs_modified (nb f)))) :: l'). cbn [rev]. rewrite <- app_assoc. cbn [app length noccupied flat_map]. fold (noccupied l') (noccupied r).
      repeat split; try discriminate; try (apply A; reflexivity).
      all: first [ constructor; [exact Gf | exact G] | constructor; [exact Lf | exact NL]
                 | (cbn [map]; f_equal; assumption) | (cbn [length]; auto) ].
  - cbn [noccupied flat_map app] in Inv. fold (noccupied r) in Inv.
    apply IH in H; [|exact Inv]. destruct H as (l' & -> & Len & G & NL & Tx & Nmq & A & B).
    exists (None :: l'). cbn [rev]. rewrite <- app_assoc. cbn [app length noccupied flat_map]. fold (noccupied l') (noccupied r).
    repeat split; auto; try (apply A; auto); try (apply B; auto).
Qed.

(* a buffer without a name that holds text, anywhere in the part of the table still to be visited: the loop does not exit *)
Lemma quit_n_unnamed_refuses all bang : judged all bang -> forall l pre sch calls f,
  Forall NInv (noccupied l) -> In (Some f) l -> nname f = None -> ln (lb (nb f)) <> [] ->
  snd (fst (fst (quit_n all bang pre l sch calls))) = false.
Proof.
  intros J. induction l as [|[g|] r IH]; intros pre sch calls f Inv I Nm Tx; [destruct I| |].
  - cbn [noccupied flat_map app] in Inv. fold (noccupied r) in Inv. inversion Inv as [|? ? Ig Ir]; subst.
    cbn [quit_n]. destruct I as [E|I].
    + inversion E; subst g.
      destruct all, bang; cbn [negb andb]; try (destruct J; discriminate).
      * rewrite Nm. reflexivity.
      * rewrite Nm. reflexivity.
      * destruct (dirty_flag (nb f)) eqn:Fl; [reflexivity|]. exfalso. apply Tx. apply (NInv_clean f Ig Fl). exact Nm.
    + destruct all, bang; cbn [negb andb]; try (destruct J; discriminate).
      * destruct (nname g); [|reflexivity]. destruct (next_ok sch) as [[|] s1]; [|reflexivity]. eapply IH; eauto.
      * destruct (nname g); [|reflexivity]. destruct (next_ok sch) as [[|] s1]; [|reflexivity]. eapply IH; eauto.
      * destruct (dirty_flag (nb g)); [reflexivity|]. eapply IH; eauto.
  - cbn [noccupied flat_map app] in Inv. fold (noccupied r) in Inv. cbn [quit_n].
    destruct I as [E|I]; [discriminate|]. eapply IH; eauto.
Qed.

(* the write part keeps the invariant and the text *)
Lemma head_write_inv isx t f sch f' fl s' : NInv f -> head_write isx t f sch = (f', fl, s') -> NInv f' /\ ntext f' = ntext f.
Proof.
  intros I H. unfold head_write in H.
  set (f1 := if isx then set_nb f (fst (bufs_modified (nb f))) else f) in *.
  assert (I1 : NInv f1 /\ ntext f1 = ntext f) by (subst f1; destruct isx; [split; [apply NInv_bm, I | reflexivity] | auto]).
  destruct I1 as [I1 T1].
  destruct (isx && negb (dirty_flag (nb f))); [inversion H; subst; auto|].
  assert (W : forall b e, NInv (fst (ec_write_named t b e f1)) /\ ntext (fst (ec_write_named t b e f1)) = ntext f).
  { intros b e. split; [exact (nrun_op_inv f1 (NWrite t b e) I1)|]. rewrite <- T1.
    unfold ec_write_named, ntext. destruct t as [|p|]; destruct (nname f1) as [q|]; cbn [fst nb]; try reflexivity;
      try (destruct (Nat.eqb p q); cbn [fst nb]; try reflexivity);
      unfold write_own; destruct (_ && _); reflexivity. }
  pose proof (W 0%nat (length (ln (lb (nb f1))))) as Wn.
  remember (fst (ec_write_named t 0 (length (ln (lb (nb f1)))) f1)) as w eqn:Ew. clear Ew W.
  destruct t as [|p|]; destruct (nname f1) as [q|];
    try (inversion H; subst; auto; fail);
    destruct (next_ok sch) as [[|] s1]; inversion H; subst; auto.
Qed.

(* ---- the theorems ---- *)

(* every quit form the property speaks about (q, wq, x, xa without `!`; xa! too), any target of the write part, any table with any
   occupancy, any answers of the environment to the saves: if the editor exits, every buffer's file holds that buffer's text (it was
   clean, or it has just been written successfully), no buffer without a name holds text, and the texts are the ones before *)
Theorem quit_all_forms_sound c bang t tab sch t' cl s' :
  judged (q_all c) bang -> Forall NInv (noccupied tab) ->
  ec_quit_n c bang t tab sch = (t', true, cl, s') ->
  length t' = length tab /\ Forall good (noccupied t') /\ Forall no_lost_text (noccupied t') /\
  map ntext (noccupied t') = map ntext (noccupied tab).
Proof.
  intros J Inv H. unfold ec_quit_n in H.
  assert (Base : forall tb s, Forall NInv (noccupied tb) -> quit_n (q_all c) bang [] tb s [] = (t', true, cl, s') ->
                 length t' = length tb /\ Forall good (noccupied t') /\ Forall no_lost_text (noccupied t') /\
                 map ntext (noccupied t') = map ntext (noccupied tb)).
  { intros tb s It Hq. apply (quit_n_exit _ _ J) in Hq; [|exact It]. destruct Hq as (l' & -> & Len & G & NL & Tx & _). cbn [rev app]. auto. }
  destruct tab as [|[f0|] rest]; [apply (Base _ _ Inv H) | | apply (Base _ _ Inv H)].
  destruct (q_writes c); [|apply (Base _ _ Inv H)].
  cbn [noccupied flat_map app] in Inv. fold (noccupied rest) in Inv. inversion Inv as [|? ? I0 Ir]; subst.
  destruct (head_write (q_isx c) t f0 sch) as [[f0' fl] s1] eqn:Hw. destruct fl; [discriminate|].
  destruct (head_write_inv _ _ _ _ _ _ _ I0 Hw) as [I0' T0].
  assert (It : Forall NInv (noccupied (Some f0' :: rest))) by (cbn [noccupied flat_map app]; constructor; auto).
  destruct (Base _ _ It H) as (L & G & NL & Tx). repeat split; auto.
  rewrite Tx. cbn [noccupied flat_map app map]. f_equal. exact T0.
Qed.

(* in particular: while a buffer without a name that is not the current one holds text, no such form exits -- whatever the other
   buffers are, whatever the saves answer *)
Theorem unnamed_text_no_exit c bang t tab sch f :
  judged (q_all c) bang -> Forall NInv (noccupied tab) ->
  In (Some f) (tl tab) -> nname f = None -> ln (lb (nb f)) <> [] ->
  snd (fst (fst (ec_quit_n c bang t tab sch))) = false.
Proof.
  intros J Inv I Nm Tx. unfold ec_quit_n.
  destruct tab as [|s0 rest]; [destruct I|]. cbn [tl] in I.
  assert (Base : forall s0' s, Forall NInv (noccupied (s0' :: rest)) -> snd (fst (fst (quit_n (q_all c) bang [] (s0' :: rest) s []))) = false).
  { intros s0' s It. eapply quit_n_unnamed_refuses; eauto. right. exact I. }
  destruct s0 as [f0|]; [|apply Base, Inv].
  destruct (q_writes c); [|apply Base, Inv].
  cbn [noccupied flat_map app] in Inv. fold (noccupied rest) in Inv. inversion Inv as [|? ? I0 Ir]; subst.
  destruct (head_write (q_isx c) t f0 sch) as [[f0' fl] s1] eqn:Hw. destruct fl; [reflexivity|].
  destruct (head_write_inv _ _ _ _ _ _ _ I0 Hw) as [I0' _].
  apply Base. cbn [noccupied flat_map app]. constructor; auto.
Qed.

(* the `a` forms: the loop hands EVERY occupied slot to lbuf_save, in slot order, under the slot's own name -- no slot is skipped --
   and exits only if every slot has a name and every call succeeded (one answer of the environment consumed per slot) *)
Theorem xa_every_slot_saved bang tab sch t' cl s' :
  Forall NInv (noccupied tab) ->
  quit_n true bang [] tab sch [] = (t', true, cl, s') ->
  cl = map nname (noccupied tab) /\ Forall (fun f => nname f <> None) (noccupied tab) /\
  Forall good (noccupied t') /\ map ntext (noccupied t') = map ntext (noccupied tab) /\
  (length (noccupied tab) <= length sch -> s' = skipn (length (noccupied tab)) sch).
Proof.
  intros Inv H. apply (quit_n_exit true bang (or_intror eq_refl)) in H; [|exact Inv].
  destruct H as (l' & -> & Len & G & NL & Tx & Nmq & A & _). destruct (A eq_refl) as (C & F & S). cbn [rev app] in *. auto.
Qed.

(* an answer "failed" of the environment for any slot stops the quit *)
Lemma quit_n_failed_save bang : forall l pre sch calls,
  (exists k, nth_error sch k = Some false /\ (k < length (noccupied l))%nat) ->
  snd (fst (fst (quit_n true bang pre l sch calls))) = false.
Proof.
  induction l as [|[f|] r IH]; intros pre sch calls (k & Hk & Lt); cbn [quit_n negb andb].
  - cbn in Lt. lia.
  - destruct (nname f); [|reflexivity]. destruct sch as [|b sch']; [destruct k; discriminate|]. cbn [next_ok].
    destruct b; [|reflexivity]. apply IH. destruct k as [|k]; [discriminate|]. exists k. split; [exact Hk|].
    cbn [noccupied flat_map app length] in Lt. fold (noccupied r) in Lt. lia.
  - apply IH. exists k. split; auto.
Qed.

Theorem xa_failed_save_no_exit bang tab sch k :
  nth_error sch k = Some false -> (k < length (noccupied tab))%nat ->
  snd (fst (fst (quit_n true bang [] tab sch []))) = false.
Proof. intros. apply quit_n_failed_save. eauto. Qed.

(* a successful save of the loop keeps the invariant of the buffer's history (it is the saved mark of a whole write) *)
Lemma written_inv f : nname f <> None -> NInv f -> NInv (written f).
Proof.
  intros Nm [(g0 & D) Dk]. split.
  - exists g0. cbn [written set_nb nb lb disk]. apply (saved_inv _ _ _ D).
  - cbn [written set_nb nname]. intro N. contradiction.
Qed.

(* the repaired behaviour (37c81b2), on the history of the finding of round j: table g (current, clean), f (file `foo`, text changed to
   `bar`), the unnamed start-up buffer.  :xa writes g and f and is refused at the unnamed slot; f is now reported CLEAN (its file holds
   `bar`); one `u` in f: reported MODIFIED (text `foo`, file `bar`), and :q over [f; unnamed; g] is refused *)
Lemma xa_refused_records_saves :
  exists (tab : ntable) (f' : nbuf),
    Forall NInv (noccupied tab) /\
    let '(t', q, _, _) := ec_quit_n CXa false WOwn tab [] in
    q = false /\ nth_error t' 2 = Some (Some f') /\ nname f' = Some 1%nat /\ dirty_flag (nb f') = false /\ ln (lb (nb f')) = disk (nb f') /\
    let f'' := nrun f' [NUndo; NBump] in
    dirty_flag (nb f'') = true /\ ln (lb (nb f'')) <> disk (nb f'') /\
    snd (fst (fst (ec_quit_n CQ false WOwn (Some f'' :: firstn 2 t') []))) = false.
Proof.
  set (foo := [102; 111; 111; 10]%N). set (bar := [98; 97; 114; 10]%N).
  set (g := nbuf_open foo 2).
  set (f := nrun (nbuf_open foo 1) [NBump; NEdit (Some bar) 0 1; NBump]).
  exists [Some g; Some f; Some nbuf_new].
  eexists. split.
  - cbn [noccupied flat_map app]. repeat apply Forall_cons; try apply Forall_nil.
    + apply nbuf_open_inv.
    + apply nrun_inv, nbuf_open_inv.
    + apply nbuf_new_inv.
  - vm_compute. repeat split. discriminate.
Qed.
