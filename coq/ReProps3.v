(* ReProps3.v -- facts about the byte-level parser: every tree it returns has well-formed repetition
   counts (0 <= min <= NREPS, max < 0 or min <= max <= NREPS), hence regcomp's program fits its
   reservation (C11_emit_fits). *)
From Coq Require Import List Arith Lia Bool ZArith NArith ZifyN ZifyBool ZifyNat.
From NV Require Import Bytes GenConsts ReSyntax ReParse ReEmit ReVM ReSem ReProps ReProps2.
Import ListNotations.

Lemma digits_nonneg s : forall c, (0 <= c)%Z -> (0 <= fst (digits s c))%Z.
Proof.
  induction s as [|b r IH]; intros c Hc; cbn [digits]; [exact Hc|].
  destruct (isdigit b) eqn:D; [|exact Hc].
  apply IH. unfold isdigit in D. destruct (NREPS <? c * 10 + Z.of_N b - 48)%Z eqn:E; [unfold NREPS; lia | lia].
Qed.

Lemma rep_suffix_wf s mn mx s' : rep_suffix s = Ok (Some (mn, mx), s') -> wf_rep mn mx.
Proof.
  unfold rep_suffix.
  destruct ((hd0 s =? 42)%N || (hd0 s =? 63)%N) eqn:E1.
  - set (mx0 := if (hd0 s =? 42)%N then (-1)%Z else 1%Z). assert (Hmx0 : (mx0 < 0 \/ 0 <= mx0)%Z) by (subst mx0; destruct (hd0 s =? 42)%N; lia).
    destruct (hd0 (tl s) =? 43)%N eqn:E2.
    + destruct (hd0 (tl (tl s)) =? 123)%N eqn:E3.
      * destruct (digits (tl (tl (tl s))) 0) as [mn1 s1] eqn:D1.
        pose proof (digits_nonneg (tl (tl (tl s))) 0%Z ltac:(lia)) as N1. rewrite D1 in N1. cbn [fst] in N1.
        destruct (hd0 s1 =? 44)%N.
        -- destruct (digits (tl s1) (if (hd0 (tl s1) =? 125)%N then (-1)%Z else 0%Z)) as [mx1 s2].
           match goal with |- (if ?c then _ else _) = _ -> _ => destruct c eqn:C end; intro H; inversion H; subst. unfold wf_rep. lia.
        -- match goal with |- (if ?c then _ else _) = _ -> _ => destruct c eqn:C end; intro H; inversion H; subst. unfold wf_rep. lia.
      * intro H; inversion H; subst. unfold wf_rep. lia.
    + destruct (hd0 (tl s) =? 123)%N eqn:E3.
      * destruct (digits (tl (tl s)) 0) as [mn1 s1] eqn:D1.
        pose proof (digits_nonneg (tl (tl s)) 0%Z ltac:(lia)) as N1. rewrite D1 in N1. cbn [fst] in N1.
        destruct (hd0 s1 =? 44)%N.
        -- destruct (digits (tl s1) (if (hd0 (tl s1) =? 125)%N then (-1)%Z else 0%Z)) as [mx1 s2].
           match goal with |- (if ?c then _ else _) = _ -> _ => destruct c eqn:C end; intro H; inversion H; subst. unfold wf_rep. lia.
        -- match goal with |- (if ?c then _ else _) = _ -> _ => destruct c eqn:C end; intro H; inversion H; subst. unfold wf_rep. lia.
      * intro H; inversion H; subst. unfold wf_rep. subst mx0. destruct (hd0 s =? 42)%N; lia.
  - destruct (hd0 s =? 43)%N eqn:E2.
    + destruct (hd0 (tl s) =? 123)%N eqn:E3.
      * destruct (digits (tl (tl s)) 0) as [mn1 s1] eqn:D1.
        pose proof (digits_nonneg (tl (tl s)) 0%Z ltac:(lia)) as N1. rewrite D1 in N1. cbn [fst] in N1.
        destruct (hd0 s1 =? 44)%N.
        -- destruct (digits (tl s1) (if (hd0 (tl s1) =? 125)%N then (-1)%Z else 0%Z)) as [mx1 s2].
           match goal with |- (if ?c then _ else _) = _ -> _ => destruct c eqn:C end; intro H; inversion H; subst. unfold wf_rep. lia.
        -- match goal with |- (if ?c then _ else _) = _ -> _ => destruct c eqn:C end; intro H; inversion H; subst. unfold wf_rep. lia.
      * intro H; inversion H; subst. unfold wf_rep. lia.
    + destruct (hd0 s =? 123)%N eqn:E3.
      * destruct (digits (tl s) 0) as [mn1 s1] eqn:D1.
        pose proof (digits_nonneg (tl s) 0%Z ltac:(lia)) as N1. rewrite D1 in N1. cbn [fst] in N1.
        destruct (hd0 s1 =? 44)%N.
        -- destruct (digits (tl s1) (if (hd0 (tl s1) =? 125)%N then (-1)%Z else 0%Z)) as [mx1 s2].
           match goal with |- (if ?c then _ else _) = _ -> _ => destruct c eqn:C end; intro H; inversion H; subst. unfold wf_rep. lia.
        -- match goal with |- (if ?c then _ else _) = _ -> _ => destruct c eqn:C end; intro H; inversion H; subst. unfold wf_rep. lia.
      * intro H; inversion H; subst. unfold wf_rep. lia.
Qed.

Lemma set_rep_wf n mn mx : wf_node n -> wf_rep mn mx -> wf_node (set_rep n mn mx).
Proof. destruct n; cbn [set_rep wf_node]; intros; tauto. Qed.

Definition parse_wf (parse : bytes -> res (option node * bytes)) : Prop :=
  forall s t s', parse s = Ok (Some t, s') -> wf_node t.

Section P.
  Variable parse : bytes -> res (option node * bytes).
  Hypothesis Hp : parse_wf parse.

  Lemma rnode_grp_wf : parse_wf (rnode_grp parse).
  Proof.
    intros s t s'. unfold rnode_grp.
    destruct (negb (hd0 s =? 40)%N); [discriminate|].
    destruct (negb (hd0 (tl s) =? 41)%N).
    - destruct (parse (tl s)) as [[[x|] s2]| |] eqn:E; cbn [bind]; try discriminate.
      destruct (negb (hd0 s2 =? 41)%N); [discriminate|]. intro H; inversion H; subst. cbn [wf_node]. split; [unfold wf_rep; lia|]. eapply Hp; eauto.
    - cbn [bind]. destruct (negb (hd0 (tl s) =? 41)%N); [discriminate|]. intro H; inversion H; subst. cbn. unfold wf_rep. lia.
  Qed.

  Lemma rnode_atom_wf : parse_wf (rnode_atom parse).
  Proof.
    intros s t s'. unfold rnode_atom.
    destruct ((hd0 s =? 0)%N || (hd0 s =? 124)%N || (hd0 s =? 41)%N); [discriminate|].
    destruct (hd0 s =? 40)%N.
    - destruct (rnode_grp parse s) as [[[n|] s1]| |] eqn:G; cbn [bind]; try discriminate.
      destruct (rep_suffix s1) as [[[[mn mx]|] s2]| |] eqn:R; cbn [bind]; try discriminate.
      intro H; inversion H; subst. apply set_rep_wf; [eapply rnode_grp_wf; eauto | eapply rep_suffix_wf; eauto].
    - destruct (ratom_read s) as [[a s1]| |] eqn:G; cbn [bind fst snd]; try discriminate.
      destruct (rep_suffix s1) as [[[[mn mx]|] s2]| |] eqn:R; cbn [bind]; try discriminate.
      intro H; inversion H; subst. cbn [set_rep wf_node]. eapply rep_suffix_wf; eauto.
  Qed.

  Lemma rnode_seq_wf f : parse_wf (rnode_seq parse f).
  Proof.
    induction f as [|f IH]; intros s t s'; cbn [rnode_seq]; [discriminate|].
    destruct (rnode_atom parse s) as [[[x|] s1]| |] eqn:A; cbn [bind]; try discriminate.
    destruct (rnode_seq parse f s1) as [[[y|] s2]| |] eqn:S2; cbn [bind]; try discriminate.
    - intro H; inversion H; subst. cbn [wf_node]. split; [eapply rnode_atom_wf; eauto | eapply IH; eauto].
    - intro H; inversion H; subst. eapply rnode_atom_wf; eauto.
  Qed.
End P.

Lemma rnode_parse_wf f : parse_wf (rnode_parse f).
Proof.
  induction f as [|f IH]; intros s t s'; cbn [rnode_parse]; [discriminate|].
  destruct (rnode_seq (rnode_parse f) f s) as [[x s1]| |] eqn:S1; cbn [bind]; try discriminate.
  destruct (negb (hd0 s1 =? 124)%N).
  - intro H; inversion H; subst. eapply rnode_seq_wf; eauto.
  - destruct (rnode_parse f (tl s1)) as [[[y|] s2]| |] eqn:P2; cbn [bind]; try discriminate.
    + intro H; inversion H; subst. cbn [wf_node]. split; [|eapply IH; eauto].
      destruct x as [x|]; cbn [of_opt wf_node]; [eapply rnode_seq_wf; eauto | exact I].
    + intro H; inversion H; subst. eapply rnode_seq_wf; eauto.
Qed.

Lemma grpnum_wf t : forall num, wf_node t -> wf_node (fst (grpnum t num)).
Proof.
  induction t; intros num W; cbn [grpnum wf_node] in *.
  - exact I.
  - exact W.
  - destruct W as [W1 W2]. specialize (IHt (num + 1) W2). destruct (grpnum t (num + 1)) as [x' k]. cbn [fst wf_node] in *. tauto.
  - destruct W as [W1 W2]. specialize (IHt1 num W1). destruct (grpnum t1 num) as [x' k1]. specialize (IHt2 (num + k1) W2).
    destruct (grpnum t2 (num + k1)) as [y' k2]. cbn [fst wf_node] in *. tauto.
  - destruct W as [W1 W2]. specialize (IHt1 num W1). destruct (grpnum t1 num) as [x' k1]. specialize (IHt2 (num + k1) W2).
    destruct (grpnum t2 (num + k1)) as [y' k2]. cbn [fst wf_node] in *. tauto.
Qed.

Lemma grpnum_nlen t : forall num, nlen (fst (grpnum t num)) = nlen t.
Proof.
  induction t; intro num; cbn [grpnum nlen]; try reflexivity.
  - specialize (IHt (num + 1)). destruct (grpnum t (num + 1)) as [x' k]. cbn [fst nlen] in *. rewrite IHt. reflexivity.
  - specialize (IHt1 num). destruct (grpnum t1 num) as [x' k1]. specialize (IHt2 (num + k1)). destruct (grpnum t2 (num + k1)) as [y' k2].
    cbn [fst nlen] in *. lia.
  - specialize (IHt1 num). destruct (grpnum t1 num) as [x' k1]. specialize (IHt2 (num + k1)). destruct (grpnum t2 (num + k1)) as [y' k2].
    cbn [fst nlen] in *. lia.
Qed.

(* regcomp: whatever pattern string it accepts, the emitted program fits the reservation *)
Theorem regcomp_fits pat p : regcomp pat = Ok (Some p) -> (Z.of_nat (length (code p)) <= reserve p)%Z.
Proof.
  unfold regcomp, parse_pat. destruct (rnode_parse (parse_fuel pat) pat) as [[[t|] s']| |] eqn:E; cbn [bind fst snd]; try discriminate.
  destruct (parse_bad pat || negb match s' with [] => true | _ :: _ => false end); [discriminate|].
  destruct ((0 <=? NINST)%Z && (NINST <=? count t + 3)%Z) eqn:L; [discriminate|].
  intro H; inversion H; subst; clear H. cbn [code reserve].
  pose proof (rnode_parse_wf _ _ _ _ E) as W.
  cbn [app length]. rewrite app_length, emit_n_length by (apply grpnum_wf; exact W). cbn [length]. rewrite grpnum_nlen.
  destruct (emit_fits t W) as [F|[F0 F1]]; lia.
Qed.

Lemma documented_depth : (256 <= NDEPT)%Z.
Proof. vm_compute. discriminate. Qed.
