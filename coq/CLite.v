(* CLite.v -- a deep embedding of the C subset that tools/c2clite.py emits from /repo's sources,
   with a checked, executable big-step semantics.

   The translator is a syntax printer: it walks clang's JSON AST of a function and writes the
   term below (every implicit conversion clang inserted is an explicit ECast, every pointer
   addition carries its scale in cells, every integer operation carries the C type it is
   computed in).  The meaning of the term is fixed here, once:

   * values are integers (unbounded Z, always inside the range of their C type), pointers
     (block, offset in cells) and "indeterminate";
   * memory is a list of blocks, a block is a list of cells, a cell holds a value; a char array
     of n bytes is a block of n cells.  Every load and store is CHECKED: outside its block it is
     the error EOob, never a default value;
   * signed arithmetic that leaves the range of its type is the error EOverflow (undefined
     behaviour in C), unsigned arithmetic wraps, conversions wrap (what gcc and clang do);
     a shift by a negative amount or by the width or more, a division by zero, the use of an
     indeterminate value, a comparison of pointers into different blocks are errors;
   * operands are evaluated left to right (C leaves the order open; the translated functions
     have no two side effects in one expression that could tell the difference);
   * loops run on explicit fuel and calls on explicit depth; exhausting either is the distinct
     error EFuel, which the theorems of Tr*.v exclude.
   Only definitions here (the file must stay usable when a proof elsewhere breaks). *)
From Coq Require Import List ZArith Bool.
Import ListNotations.
Local Open Scope Z_scope.

Inductive ity := I8 | U8 | I16 | U16 | I32 | U32 | I64 | U64.
Definition ity_bits (t : ity) : Z :=
  match t with I8 | U8 => 8 | I16 | U16 => 16 | I32 | U32 => 32 | I64 | U64 => 64 end.
Definition ity_signed (t : ity) : bool :=
  match t with I8 | I16 | I32 | I64 => true | _ => false end.
Definition ity_min (t : ity) : Z := if ity_signed t then - 2 ^ (ity_bits t - 1) else 0.
Definition ity_max (t : ity) : Z := if ity_signed t then 2 ^ (ity_bits t - 1) - 1 else 2 ^ ity_bits t - 1.
Definition in_range (t : ity) (z : Z) : bool := (ity_min t <=? z) && (z <=? ity_max t).
Definition wrap (t : ity) (z : Z) : Z :=
  let r := z mod 2 ^ ity_bits t in
  if ity_signed t && (2 ^ (ity_bits t - 1) <=? r) then r - 2 ^ ity_bits t else r.

Inductive val := VUndef | VInt (z : Z) | VPtr (b : nat) (o : Z).
Inductive err := EOob | EUndef | EType | EOverflow | EDivZero | EFuel | EShape | ECtype.
Inductive res (A : Type) := Ok (a : A) | Err (e : err).
Arguments Ok {A} a.
Arguments Err {A} e.
Definition bind {A B} (r : res A) (f : A -> res B) : res B :=
  match r with Ok a => f a | Err e => Err e end.
Notation "'do' x <- r ; k" := (bind r (fun x => k)) (at level 200, x pattern, r at level 100, k at level 200).

Definition block := list val.
Definition mem := list block.
Record state := mkst { locals : list val; memm : mem }.

Definition load (m : mem) (b : nat) (o : Z) : res val :=
  match nth_error m b with
  | None => Err EOob
  | Some blk => if o <? 0 then Err EOob else
      match nth_error blk (Z.to_nat o) with Some v => Ok v | None => Err EOob end
  end.
Fixpoint set_nth {A} (l : list A) (n : nat) (x : A) : option (list A) :=
  match l, n with
  | [], _ => None
  | _ :: r, O => Some (x :: r)
  | a :: r, S n' => match set_nth r n' x with Some r' => Some (a :: r') | None => None end
  end.
Definition store (m : mem) (b : nat) (o : Z) (v : val) : res mem :=
  match nth_error m b with
  | None => Err EOob
  | Some blk => if o <? 0 then Err EOob else
      match set_nth blk (Z.to_nat o) v with
      | None => Err EOob
      | Some blk' => match set_nth m b blk' with Some m' => Ok m' | None => Err EOob end
      end
  end.
Definition get_local (st : state) (x : nat) : res val :=
  match nth_error (locals st) x with Some VUndef => Err EUndef | Some v => Ok v | None => Err EShape end.
Definition set_local (st : state) (x : nat) (v : val) : res state :=
  match set_nth (locals st) x v with Some l => Ok (mkst l (memm st)) | None => Err EShape end.

Inductive unop := ONeg | OBNot.
Inductive binop := OAdd | OSub | OMul | ODiv | ORem | OAnd | OOr | OXor | OShl | OShr
                 | OLt | OLe | OGt | OGe | OEq | ONe.
(* the C library functions the translated code calls; C locale *)
Inductive builtin := BIsspace | BIsdigit | BIsalpha | BIsupper | BIslower | BIsalnum | BIsprint
                   | BTolower | BToupper | BStrlen | BStrchr
                   | BMalloc | BFree | BMemcpy | BMemmove | BMemset
                   | BStrcmp | BStrncmp | BStrrchr | BStrcpy      (* sizes in CELLS: the translator divides the byte counts *)
                   | BAtoi
                   | BStrcat
                   | BMemsetI.     (* memset on an array of multi-byte integers: every CELL gets the value the repeated fill byte spells in
                                      that integer type (the translator computes it: memset(int *, 0xff, n) fills with -1) *)

Definition b2z (b : bool) : Z := if b then 1 else 0.
Definition chk (t : ity) (z : Z) : res Z :=
  if ity_signed t then (if in_range t z then Ok z else Err EOverflow) else Ok (wrap t z).
Definition arith (o : binop) (t : ity) (a b : Z) : res Z :=
  match o with
  | OAdd => chk t (a + b)
  | OSub => chk t (a - b)
  | OMul => chk t (a * b)
  | ODiv => if b =? 0 then Err EDivZero else chk t (Z.quot a b)
  | ORem => if b =? 0 then Err EDivZero else chk t (Z.rem a b)
  | OAnd => Ok (Z.land a b)
  | OOr => Ok (Z.lor a b)
  | OXor => Ok (Z.lxor a b)
  | OShl => if (0 <=? b) && (b <? ity_bits t)
            then (if ity_signed t then (if a <? 0 then Err EOverflow else chk t (Z.shiftl a b))
                  else Ok (wrap t (Z.shiftl a b)))
            else Err EOverflow
  | OShr => if (0 <=? b) && (b <? ity_bits t) then Ok (Z.shiftr a b) else Err EOverflow
  | OLt => Ok (b2z (a <? b))
  | OLe => Ok (b2z (a <=? b))
  | OGt => Ok (b2z (b <? a))
  | OGe => Ok (b2z (b <=? a))
  | OEq => Ok (b2z (a =? b))
  | ONe => Ok (b2z (negb (a =? b)))
  end.
Definition arith1 (o : unop) (t : ity) (a : Z) : res Z :=
  match o with
  | ONeg => chk t (- a)
  | OBNot => if ity_signed t then Ok (Z.lnot a) else Ok (wrap t (Z.lnot a))
  end.

Definition as_int (v : val) : res Z :=
  match v with VInt z => Ok z | VUndef => Err EUndef | VPtr _ _ => Err EType end.
Definition truth (v : val) : res bool :=
  match v with VInt z => Ok (negb (z =? 0)) | VPtr _ _ => Ok true | VUndef => Err EUndef end.
Definition ptr_cmp (o : binop) (p q : val) : res Z :=
  match p, q with
  | VPtr b1 o1, VPtr b2 o2 =>
      if Nat.eqb b1 b2 then arith o I32 o1 o2
      else match o with OEq => Ok 0 | ONe => Ok 1 | _ => Err EType end
  | VPtr _ _, VInt 0 => match o with OEq => Ok 0 | ONe => Ok 1 | _ => Err EType end
  | VInt 0, VPtr _ _ => match o with OEq => Ok 0 | ONe => Ok 1 | _ => Err EType end
  | VInt 0, VInt 0 => match o with OEq => Ok 1 | ONe => Ok 0 | _ => Err EType end
  | VUndef, _ | _, VUndef => Err EUndef
  | _, _ => Err EType
  end.

(* <ctype.h> in the C locale; the argument must be representable as unsigned char (or EOF = -1) *)
Definition ct_arg (c : Z) : res Z := if (-1 <=? c) && (c <=? 255) then Ok c else Err ECtype.
Definition ct_isspace (c : Z) : bool := (c =? 32) || ((9 <=? c) && (c <=? 13)).
Definition ct_isdigit (c : Z) : bool := (48 <=? c) && (c <=? 57).
Definition ct_isupper (c : Z) : bool := (65 <=? c) && (c <=? 90).
Definition ct_islower (c : Z) : bool := (97 <=? c) && (c <=? 122).
Definition ct_isalpha (c : Z) : bool := ct_isupper c || ct_islower c.
Definition ct_isalnum (c : Z) : bool := ct_isalpha c || ct_isdigit c.
Definition ct_isprint (c : Z) : bool := (32 <=? c) && (c <=? 126).

(* strlen / strchr on a block: scan from offset o to the first 0 cell, reading checked *)
Fixpoint scan0 (blk : list val) (n : nat) : res nat :=      (* cells before the first 0 *)
  match blk with
  | [] => Err EOob
  | VInt 0 :: _ => Ok n
  | VInt _ :: r => scan0 r (S n)
  | VUndef :: _ => Err EUndef
  | VPtr _ _ :: _ => Err EType
  end.
Fixpoint scanc (blk : list val) (c : Z) (n : nat) : res (option nat) :=  (* first cell equal to c, up to and including the 0 *)
  match blk with
  | [] => Err EOob
  | VInt z :: r => if wrap I8 z =? c then Ok (Some n) else if z =? 0 then Ok None else scanc r c (S n)
  | VUndef :: _ => Err EUndef
  | VPtr _ _ :: _ => Err EType
  end.
Definition blk_from (m : mem) (b : nat) (o : Z) : res (list val) :=
  match nth_error m b with
  | None => Err EOob
  | Some blk => if (o <? 0) || (Z.of_nat (length blk) <? o) then Err EOob else Ok (skipn (Z.to_nat o) blk)
  end.
(* strcmp/strncmp on two cell lists: unsigned byte comparison up to the first difference, a terminator,
   or n cells; the result is -1, 0 or 1 (C promises only the sign) *)
Fixpoint cmp_cells (a b : list val) (n : nat) : res Z :=
  match n with
  | O => Ok 0
  | S k =>
      match a, b with
      | VInt x :: a', VInt y :: b' =>
          let x' := wrap U8 x in let y' := wrap U8 y in
          if x' <? y' then Ok (-1) else if y' <? x' then Ok 1 else if x' =? 0 then Ok 0 else cmp_cells a' b' k
      | [], _ | _, [] => Err EOob
      | VUndef :: _, _ | _, VUndef :: _ => Err EUndef
      | _, _ => Err EType
      end
  end.
Fixpoint scanlast (blk : list val) (c : Z) (n : nat) (last : option nat) : res (option nat) :=   (* strrchr *)
  match blk with
  | [] => Err EOob
  | VInt z :: r => let last' := if wrap I8 z =? c then Some n else last in
                   if z =? 0 then Ok last' else scanlast r c (S n) last'
  | VUndef :: _ => Err EUndef
  | VPtr _ _ :: _ => Err EType
  end.

(* atoi: white space, an optional sign, decimal digits, every cell read checked; a value that int cannot
   represent is undefined behaviour in C (7.22.1: "if the value of the result cannot be represented, the
   behavior is undefined"), here the error EOverflow *)
Fixpoint atoi_digits (blk : list val) (acc : Z) : res Z :=
  match blk with
  | [] => Err EOob
  | VInt z :: r => let c := wrap U8 z in if ct_isdigit c then atoi_digits r (acc * 10 + (c - 48)) else Ok acc
  | VUndef :: _ => Err EUndef
  | VPtr _ _ :: _ => Err EType
  end.
Fixpoint atoi_cells (blk : list val) : res Z :=
  match blk with
  | [] => Err EOob
  | VInt z :: r => let c := wrap U8 z in
                   if ct_isspace c then atoi_cells r
                   else if c =? 45 then (do v <- atoi_digits r 0; Ok (- v))
                   else if c =? 43 then atoi_digits r 0
                   else atoi_digits blk 0
  | VUndef :: _ => Err EUndef
  | VPtr _ _ :: _ => Err EType
  end.

Definition do_builtin (f : builtin) (args : list val) (m : mem) : res val :=
  match f, args with
  | BAtoi, [VPtr b o] => do l <- blk_from m b o; do v <- atoi_cells l; do r <- chk I32 v; Ok (VInt r)
  | BStrcmp, [VPtr b1 o1; VPtr b2 o2] =>
      do l1 <- blk_from m b1 o1; do l2 <- blk_from m b2 o2;
      do r <- cmp_cells l1 l2 (S (Nat.max (length l1) (length l2))); Ok (VInt r)
  | BStrncmp, [VPtr b1 o1; VPtr b2 o2; VInt n] =>
      if n <? 0 then Err EShape else
      do l1 <- blk_from m b1 o1; do l2 <- blk_from m b2 o2; do r <- cmp_cells l1 l2 (Z.to_nat n); Ok (VInt r)
  | BStrrchr, [VPtr b o; VInt c] =>
      do l <- blk_from m b o; do r <- scanlast l (wrap I8 c) O None;
      Ok (match r with Some n => VPtr b (o + Z.of_nat n) | None => VInt 0 end)
  | BStrlen, [VPtr b o] => do l <- blk_from m b o; do n <- scan0 l O; Ok (VInt (Z.of_nat n))
  | BStrchr, [VPtr b o; VInt c] =>
      do l <- blk_from m b o; do r <- scanc l (wrap I8 c) O;
      Ok (match r with Some n => VPtr b (o + Z.of_nat n) | None => VInt 0 end)
  | BIsspace, [VInt c] => do c <- ct_arg c; Ok (VInt (b2z (ct_isspace c)))
  | BIsdigit, [VInt c] => do c <- ct_arg c; Ok (VInt (b2z (ct_isdigit c)))
  | BIsalpha, [VInt c] => do c <- ct_arg c; Ok (VInt (b2z (ct_isalpha c)))
  | BIsupper, [VInt c] => do c <- ct_arg c; Ok (VInt (b2z (ct_isupper c)))
  | BIslower, [VInt c] => do c <- ct_arg c; Ok (VInt (b2z (ct_islower c)))
  | BIsalnum, [VInt c] => do c <- ct_arg c; Ok (VInt (b2z (ct_isalnum c)))
  | BIsprint, [VInt c] => do c <- ct_arg c; Ok (VInt (b2z (ct_isprint c)))
  | BTolower, [VInt c] => do c <- ct_arg c; Ok (VInt (if ct_isupper c then c + 32 else c))
  | BToupper, [VInt c] => do c <- ct_arg c; Ok (VInt (if ct_islower c then c - 32 else c))
  | _, _ => Err EShape
  end.

(* the library functions that change memory.  malloc(n) appends a fresh block of n indeterminate cells;
   free(p) empties the block p points to (any later access through it is EOob; p must point to the
   start of a block that is still allocated, or be NULL); memcpy/memmove copy n cells (read first, then
   written, so overlapping ranges behave as memmove); memset writes n cells. *)
Fixpoint read_cells (blk : list val) (o : nat) (n : nat) : res (list val) :=
  match n with
  | O => Ok []
  | S k => match nth_error blk o with
           | Some v => do r <- read_cells blk (S o) k; Ok (v :: r)
           | None => Err EOob
           end
  end.
Fixpoint write_cells (m : mem) (b : nat) (o : Z) (vs : list val) : res mem :=
  match vs with
  | [] => Ok m
  | v :: r => do m1 <- store m b o v; write_cells m1 b (o + 1) r
  end.
Definition do_builtin_m (f : builtin) (args : list val) (m : mem) : res (val * mem) :=
  match f, args with
  | BMalloc, [VInt n] =>
      if n <? 0 then Err EShape else Ok (VPtr (length m) 0, m ++ [repeat VUndef (Z.to_nat n)])
  | BFree, [VInt 0] => Ok (VUndef, m)
  | BFree, [VPtr b 0] =>
      match nth_error m b with
      | Some (_ :: _) => match set_nth m b [] with Some m' => Ok (VUndef, m') | None => Err EOob end
      | _ => Err EOob
      end
  | BMemcpy, [VPtr bd od; VPtr bs os; VInt n] | BMemmove, [VPtr bd od; VPtr bs os; VInt n] =>
      if (n <? 0) || (os <? 0) then Err EOob else
      match nth_error m bs with
      | None => Err EOob
      | Some blk => do vs <- read_cells blk (Z.to_nat os) (Z.to_nat n);
                    do m' <- write_cells m bd od vs; Ok (VPtr bd od, m')
      end
  | BMemset, [VPtr bd od; VInt c; VInt n] =>
      if n <? 0 then Err EOob else
      do m' <- write_cells m bd od (repeat (VInt (wrap U8 c)) (Z.to_nat n)); Ok (VPtr bd od, m')
  | BMemsetI, [VPtr bd od; VInt v; VInt n] =>
      if n <? 0 then Err EOob else
      do m' <- write_cells m bd od (repeat (VInt v) (Z.to_nat n)); Ok (VPtr bd od, m')
  | BStrcpy, [VPtr bd od; VPtr bs os] =>
      do l <- blk_from m bs os; do n <- scan0 l O;
      do m' <- write_cells m bd od (firstn (S n) l); Ok (VPtr bd od, m')
  | BStrcat, [VPtr bd od; VPtr bs os] =>        (* the terminated source is written over the destination's terminator *)
      do ld <- blk_from m bd od; do k <- scan0 ld O;
      do l <- blk_from m bs os; do n <- scan0 l O;
      do m' <- write_cells m bd (od + Z.of_nat k) (firstn (S n) l); Ok (VPtr bd od, m')
  | BMalloc, _ | BFree, _ | BMemcpy, _ | BMemmove, _ | BMemset, _ | BMemsetI, _ | BStrcpy, _ | BStrcat, _ => Err EShape
  | _, _ => do v <- do_builtin f args m; Ok (v, m)
  end.

Inductive expr :=
| EConst (z : Z)
| ELocal (x : nat)
| EGlob (g : nat)                          (* pointer to cell 0 of global block g *)
| EUn (o : unop) (t : ity) (e : expr)
| EBin (o : binop) (t : ity) (e1 e2 : expr)   (* integer operation computed in type t *)
| ECast (t : ity) (e : expr)
| ELNot (e : expr)                         (* !e, also on pointers *)
| EPtrAdd (sc : Z) (p i : expr)            (* p + sc * i cells (sc < 0 for p - i) *)
| EPtrDiff (sc : Z) (p q : expr)           (* (p - q) / sc *)
| EPtrCmp (o : binop) (p q : expr)
| ELoad (t : option ity) (p : expr)        (* Some t: an integer cell read as type t; None: a pointer cell *)
| ECond (c a b : expr)
| EAndAlso (a b : expr)
| EOrElse (a b : expr)
| ESetLocal (x : nat) (e : expr)
| EStore (t : option ity) (p e : expr)
| EIncLocal (post : bool) (x : nat) (t : option ity) (d : Z)   (* ++/-- on a local; t = None: pointer, d = +-scale *)
| ECall (f : nat) (args : list expr)
| EBuiltin (f : builtin) (args : list expr)
| EComma (a b : expr)
| EIncMem (post : bool) (t : option ity) (d : Z) (p : expr).   (* ++/-- on the object p points to (p evaluated once) *)

Inductive stmt :=
| SSkip
| SExpr (e : expr)
| SSeq (a b : stmt)
| SIf (c : expr) (a b : stmt)
| SWhile (c : expr) (b : stmt)
| SDoWhile (b : stmt) (c : expr)
| SFor (c : option expr) (step : option expr) (b : stmt)      (* the init part is emitted in front *)
| SReturn (e : option expr)
| SBreak
| SContinue
| SSwitch (e : expr) (segs : list (list (option Z) * stmt)).   (* segments in source order; labels: Some k = case k, None = default *)

Inductive outcome := ONormal (st : state) | OBreak (st : state) | OContinue (st : state)
                   | OReturn (v : val) (st : state) | OErr (e : err).

Record cfunc := mkfn { fn_nparams : nat; fn_nlocals : nat; fn_body : stmt }.

Section Sem.
  Variable call : nat -> list val -> mem -> res (val * mem).

  Fixpoint eval (e : expr) (st : state) {struct e} : res (val * state) :=
    match e with
    | EConst z => Ok (VInt z, st)
    | ELocal x => do v <- get_local st x; Ok (v, st)
    | EGlob g => Ok (VPtr g 0, st)
    | EUn o t a => do (v, st1) <- eval a st; do z <- as_int v; do r <- arith1 o t z; Ok (VInt r, st1)
    | EBin o t a b =>
        do (v1, st1) <- eval a st; do (v2, st2) <- eval b st1;
        do z1 <- as_int v1; do z2 <- as_int v2; do r <- arith o t z1 z2; Ok (VInt r, st2)
    | ECast t a => do (v, st1) <- eval a st; do z <- as_int v; Ok (VInt (wrap t z), st1)
    | ELNot a => do (v, st1) <- eval a st; do b <- truth v; Ok (VInt (b2z (negb b)), st1)
    | EPtrAdd sc p i =>
        do (v1, st1) <- eval p st; do (v2, st2) <- eval i st1;
        match v1 with
        | VPtr b o => do z <- as_int v2; Ok (VPtr b (o + sc * z), st2)
        | VUndef => Err EUndef
        | VInt _ => Err EType
        end
    | EPtrDiff sc p q =>
        do (v1, st1) <- eval p st; do (v2, st2) <- eval q st1;
        match v1, v2 with
        | VPtr b1 o1, VPtr b2 o2 => if Nat.eqb b1 b2 then Ok (VInt (Z.quot (o1 - o2) sc), st2) else Err EType
        | VUndef, _ | _, VUndef => Err EUndef
        | _, _ => Err EType
        end
    | EPtrCmp o p q =>
        do (v1, st1) <- eval p st; do (v2, st2) <- eval q st1; do r <- ptr_cmp o v1 v2; Ok (VInt r, st2)
    | ELoad t p =>
        do (v, st1) <- eval p st;
        match v with
        | VPtr b o =>
            do c <- load (memm st1) b o;
            match t, c with
            | Some t, VInt z => Ok (VInt (wrap t z), st1)
            | None, VPtr _ _ => Ok (c, st1)
            | None, VInt 0 => Ok (c, st1)
            | _, VUndef => Err EUndef
            | _, _ => Err EType
            end
        | VUndef => Err EUndef
        | VInt _ => Err EOob
        end
    | ECond c a b => do (v, st1) <- eval c st; do t <- truth v; if t then eval a st1 else eval b st1
    | EAndAlso a b =>
        do (v, st1) <- eval a st; do t <- truth v;
        if t then (do (w, st2) <- eval b st1; do u <- truth w; Ok (VInt (b2z u), st2)) else Ok (VInt 0, st1)
    | EOrElse a b =>
        do (v, st1) <- eval a st; do t <- truth v;
        if t then Ok (VInt 1, st1) else (do (w, st2) <- eval b st1; do u <- truth w; Ok (VInt (b2z u), st2))
    | ESetLocal x a => do (v, st1) <- eval a st; do st2 <- set_local st1 x v; Ok (v, st2)
    | EStore t p a =>
        do (vp, st1) <- eval p st; do (v, st2) <- eval a st1;
        match vp with
        | VPtr b o =>
            do w <- match t, v with
                    | Some t, VInt z => Ok (VInt (wrap t z))
                    | None, VPtr _ _ => Ok v
                    | None, VInt 0 => Ok v
                    | _, VUndef => Err EUndef
                    | _, _ => Err EType
                    end;
            do m' <- store (memm st2) b o w; Ok (w, mkst (locals st2) m')
        | VUndef => Err EUndef
        | VInt _ => Err EOob
        end
    | EIncLocal post x t d =>
        do v <- get_local st x;
        do w <- match t, v with
                | Some t, VInt z => do r <- chk t (z + d); Ok (VInt r)
                | None, VPtr b o => Ok (VPtr b (o + d))
                | _, _ => Err EType
                end;
        do st1 <- set_local st x w; Ok (if post then v else w, st1)
    | ECall f args =>
        do (vs, st1) <- (fix evals (l : list expr) (st : state) {struct l} : res (list val * state) :=
                           match l with
                           | [] => Ok ([], st)
                           | a :: r => do (v, st1) <- eval a st; do (vs, st2) <- evals r st1; Ok (v :: vs, st2)
                           end) args st;
        do (v, m') <- call f vs (memm st1); Ok (v, mkst (locals st1) m')
    | EBuiltin f args =>
        do (vs, st1) <- (fix evals (l : list expr) (st : state) {struct l} : res (list val * state) :=
                           match l with
                           | [] => Ok ([], st)
                           | a :: r => do (v, st1) <- eval a st; do (vs, st2) <- evals r st1; Ok (v :: vs, st2)
                           end) args st;
        do (v, m') <- do_builtin_m f vs (memm st1); Ok (v, mkst (locals st1) m')
    | EComma a b => do (_, st1) <- eval a st; eval b st1
    | EIncMem post t d p =>
        do (vp, st1) <- eval p st;
        match vp with
        | VPtr b o =>
            do c <- load (memm st1) b o;
            do vw <- match t, c with
                     | Some t, VInt z => do r <- chk t (wrap t z + d); Ok (VInt (wrap t z), VInt r)
                     | None, VPtr b' o' => Ok (c, VPtr b' (o' + d))
                     | _, VUndef => Err EUndef
                     | _, _ => Err EType
                     end;
            do m' <- store (memm st1) b o (snd vw);
            Ok (if post then fst vw else snd vw, mkst (locals st1) m')
        | VUndef => Err EUndef
        | VInt _ => Err EOob
        end
    end.

  Definition eval_opt (e : option expr) (st : state) : res (val * state) :=
    match e with Some e => eval e st | None => Ok (VInt 1, st) end.

  (* loop fuel: one unit per iteration of the loop being run; the body runs on the same fuel *)
  Fixpoint exec (fuel : nat) : stmt -> state -> outcome :=
    fix go (s : stmt) (st : state) {struct s} : outcome :=
      match s with
      | SSkip => ONormal st
      | SExpr e => match eval e st with Ok (_, st1) => ONormal st1 | Err x => OErr x end
      | SSeq a b => match go a st with ONormal st1 => go b st1 | o => o end
      | SIf c a b =>
          match eval c st with
          | Ok (v, st1) => match truth v with Ok true => go a st1 | Ok false => go b st1 | Err x => OErr x end
          | Err x => OErr x
          end
      | SWhile c b =>
          match fuel with
          | O => OErr EFuel
          | S f =>
              match eval c st with
              | Ok (v, st1) =>
                  match truth v with
                  | Ok true => match go b st1 with
                               | ONormal st2 | OContinue st2 => exec f (SWhile c b) st2
                               | OBreak st2 => ONormal st2
                               | o => o
                               end
                  | Ok false => ONormal st1
                  | Err x => OErr x
                  end
              | Err x => OErr x
              end
          end
      | SDoWhile b c =>
          match fuel with
          | O => OErr EFuel
          | S f =>
              match go b st with
              | ONormal st1 | OContinue st1 =>
                  match eval c st1 with
                  | Ok (v, st2) => match truth v with
                                   | Ok true => exec f (SDoWhile b c) st2
                                   | Ok false => ONormal st2
                                   | Err x => OErr x
                                   end
                  | Err x => OErr x
                  end
              | OBreak st1 => ONormal st1
              | o => o
              end
          end
      | SFor c step b =>
          match fuel with
          | O => OErr EFuel
          | S f =>
              match eval_opt c st with
              | Ok (v, st1) =>
                  match truth v with
                  | Ok true =>
                      match go b st1 with
                      | ONormal st2 | OContinue st2 =>
                          match step with
                          | Some e => match eval e st2 with
                                      | Ok (_, st3) => exec f (SFor c step b) st3
                                      | Err x => OErr x
                                      end
                          | None => exec f (SFor c step b) st2
                          end
                      | OBreak st2 => ONormal st2
                      | o => o
                      end
                  | Ok false => ONormal st1
                  | Err x => OErr x
                  end
              | Err x => OErr x
              end
          end
      | SReturn None => OReturn VUndef st
      | SReturn (Some e) => match eval e st with Ok (v, st1) => OReturn v st1 | Err x => OErr x end
      | SBreak => OBreak st
      | SContinue => OContinue st
      | SSwitch e segs =>
          match eval e st with
          | Ok (v, st1) =>
              match as_int v with
              | Ok z =>
                  (* the label control jumps to: case z if some segment carries it, else default; a break leaves the switch *)
                  let has := existsb (fun seg => existsb (fun l => match l with Some k => k =? z | None => false end) (fst seg)) segs in
                  let hit (labs : list (option Z)) :=
                    existsb (fun l => match l with Some k => has && (k =? z) | None => negb has end) labs in
                  (fix run (l : list (list (option Z) * stmt)) (started : bool) (st : state) {struct l} : outcome :=
                     match l with
                     | [] => ONormal st
                     | (labs, s0) :: r =>
                         if started || hit labs then
                           match go s0 st with
                           | ONormal st2 => run r true st2
                           | OBreak st2 => ONormal st2
                           | o => o
                           end
                         else run r false st
                     end) segs false st1
              | Err x => OErr x
              end
          | Err x => OErr x
          end
      end.
End Sem.

(* a call: parameters are locals 0.., the other locals start indeterminate; falling off the end
   of a function returns the indeterminate value (void functions) *)
Fixpoint callf (prog : list cfunc) (fuel : nat) (depth : nat) (f : nat) (args : list val) (m : mem)
  : res (val * mem) :=
  match depth with
  | O => Err EFuel
  | S d =>
      match nth_error prog f with
      | None => Err EShape
      | Some fn =>
          if Nat.eqb (length args) (fn_nparams fn) then
            match exec (callf prog fuel d) fuel (fn_body fn)
                       (mkst (args ++ repeat VUndef (fn_nlocals fn - fn_nparams fn)) m) with
            | OReturn v st => Ok (v, memm st)
            | ONormal st => Ok (VUndef, memm st)
            | OErr x => Err x
            | _ => Err EShape
            end
          else Err EShape
      end
  end.

(* a C string in memory: the bytes (as integers 0..255) followed by the terminator *)
Definition cstr_block (s : list Z) : block := map VInt s ++ [VInt 0].
