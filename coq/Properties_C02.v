(* Properties_C02.v -- C02: unsaved changes are never silently discarded.
   Statements only; every proof is `exact <lemma>`; Print Assumptions under each.
   Model: UndoDefs.v + DirtyDefs.v (lbuf_seq, lbuf_modified, lbuf_saved, lbuf_unsaved of /repo/lbuf.c;
   the saved-state tail of ec_write, the reload of ec_edit, the refusal logic of ec_quit and of the
   guard shared by ec_edit / ec_buffer / ec_exec / ec_make in /repo/ex.c, with xwa = xaw = 0).
   Ghost state: `disk`, the lines the buffer's file held when last read or last written whole. *)
From Coq Require Import List NArith ZArith Bool Permutation.
From NV Require Import GenConsts UndoDefs UndoProps DirtyDefs DirtyProps.
Import ListNotations.

(* for EVERY interleaving of edits, command boundaries, undo, redo, whole and partial writes to
   the own path, writes to other paths and reloads, on a buffer opened on any file content: when
   the dirty test reports clean, the text is exactly what the file holds *)
Theorem C02_clean_sound : forall (c : list N) (ops : list dop),
  let e := run_dops (ebuf_open c) ops in dirty_flag e = false -> ln (lb e) = disk e.
Proof. exact dirty_sound. Qed.
Print Assumptions C02_clean_sound.

(* right after a whole write or a reload the flag is off, and it is off again after any walk of
   undo / redo / command boundaries / writes elsewhere that returns to the saved position *)
Theorem C02_clean_complete : forall (e : ebuf) (o : dop) (ops : list dop),
  (o = DSaveWhole \/ exists c, o = DReload c) -> forallb is_walk ops = true ->
  let e1 := run_dop e o in let e2 := run_dops e1 ops in
  dirty_flag e1 = false /\ (hist_u (lb e2) = hist_u (lb e1) -> dirty_flag e2 = false).
Proof. exact dirty_complete. Qed.
Print Assumptions C02_clean_complete.

(* after a write of PART of the buffer to its own path the flag stays on along every undo/redo
   walk (the repaired behaviour: ec_write calls lbuf_unsaved) *)
Theorem C02_partial_write_dirty : forall (c : list N) (ops : list dop) (b en : nat) (walk : list dop),
  let e := run_dops (ebuf_open c) ops in
  (Nat.eqb b 0 && Nat.eqb en (length (ln (lb e))) = false) -> forallb is_walk walk = true ->
  dirty_flag (run_dops (run_dop e (DSaveOwn b en)) walk) = true.
Proof. exact partial_write_dirty. Qed.
Print Assumptions C02_partial_write_dirty.

(* :q without ! exits only when every open buffer equals its file *)
Theorem C02_quit_sound : forall bufs : list ebuf, Forall reachable bufs ->
  snd (ec_quit false bufs) = true -> Forall (fun b => ln (lb b) = disk b) bufs.
Proof. exact quit_sound_reachable. Qed.
Print Assumptions C02_quit_sound.

(* :q without ! with some buffer flagged: no exit, every buffer keeps text, history, undo position
   and file (the table is only reordered), and the current buffer is now a flagged one *)
Theorem C02_quit_refuse : forall (bufs : list ebuf) (b : ebuf), In b bufs -> dirty_flag b = true ->
  snd (ec_quit false bufs) = false /\
  Permutation (map content (fst (ec_quit false bufs))) (map content bufs) /\
  exists cur rest, fst (ec_quit false bufs) = cur :: rest /\ dirty_flag cur = true.
Proof. exact quit_refuses. Qed.
Print Assumptions C02_quit_refuse.

(* the guard of :e, :b, :!, :make without ! lets the command through only when the current
   buffer equals its file, and otherwise refuses leaving every buffer's content untouched *)
Theorem C02_guard_sound : forall (b : ebuf) (rest : list ebuf), reachable b ->
  snd (guard_current false (b :: rest)) = false -> ln (lb b) = disk b.
Proof. exact guard_sound_reachable. Qed.
Print Assumptions C02_guard_sound.

Theorem C02_guard_refuse : forall (b : ebuf) (rest : list ebuf), dirty_flag b = true ->
  snd (guard_current false (b :: rest)) = true /\
  map content (fst (guard_current false (b :: rest))) = map content (b :: rest).
Proof. exact guard_refuses. Qed.
Print Assumptions C02_guard_refuse.

(* not vacuous: edit, save, edit in the same command line (only the bump of lbuf_saved separates
   them), undo back to the saved text, a partial write, undo across it *)
Example C02_nonvacuous :
  let f := [97; 10; 98; 10]%N in
  let fl ops := dirty_flag (run_dops (ebuf_open f) ops) in
  fl [] = false /\ fl [DEdit (Some [120; 10]%N) 0 0] = true /\
  fl [DEdit (Some [120; 10]%N) 0 0; DSaveWhole] = false /\
  fl [DEdit (Some [120; 10]%N) 0 0; DSaveWhole; DEdit None 0 1] = true /\
  fl [DEdit (Some [120; 10]%N) 0 0; DSaveWhole; DEdit None 0 1; DBump; DUndo] = false /\
  fl [DEdit (Some [120; 10]%N) 0 0; DBump; DSaveOwn 0 1; DUndo] = true /\
  snd (ec_quit false [run_dops (ebuf_open f) []; run_dops (ebuf_open f) [DEdit None 0 1]]) = false.
Proof. vm_compute. repeat split. Qed.

(* ------------------------------------------------------------------------------------------ *)
(* C02 AT THE EX INTERFACE (appended by the ex group; proofs in ExSim.v / ExUndo.v / ExDirty.v).
   The ex model of ExDefs.v is tied to DirtyDefs.v by ExDirty.Rlz (= the relation ExUndo.Rl of the C04 appendix plus
   equal useq_zero and useq_last).  A script is a list of ExDirty.xcmd: XLine ln = ANY command line of the ex model
   (ex_command: `|` lists, g with command lists, s, a/i/c, d, pu, r, !, @, u, and `w` = whole buffer to its own path, also
   in the middle of a line), XWriteOwn b e (b,ew to the own path: lbuf_saved for the whole buffer, lbuf_unsaved
   otherwise), XWriteOther, XReload c (e!: lbuf_rd over the whole buffer, lbuf_saved), XQuit (q without !: bufs_modified,
   xquit only when it reports clean); every one ends with ex_command's closing lbuf_modified.  The ghost xdisk is what the
   file holds (initially the file's lines; after w / a whole XWriteOwn the buffer's lines; after a partial one the
   written lines; after e! the lines read).  One buffer: the ex model has a single one; the walk of ec_quit over
   several buffers is C02_quit_sound above, whose hypothesis `reachable` is what C02_ex_history provides per buffer. *)
From NV Require ExDefs ExSpec ExSim ExUndo ExDirty.

(* every script maps onto a DirtyDefs history (run_dops from ebuf_open on the same file) with the same ghost disk *)
Theorem C02_ex_history : forall data rvalid rfind filter readfile curpath fuel input wa cs,
  let x := ExDirty.xrun rvalid rfind filter readfile curpath fuel (ExDirty.xinit data input wa) cs in
  exists dops, ExDirty.Rlz (ExDefs.lb (ExDirty.xs x)) (lb (run_dops (ebuf_open data) dops)) /\
               disk (run_dops (ebuf_open data) dops) = ExDirty.xdisk x.
Proof. exact ExDirty.ex_script_history. Qed.
Print Assumptions C02_ex_history.

(* after ANY script: when the model's dirty test (lbuf_modified: what q, e, b and ! ask) reports clean, the buffer's
   text, line by line with its newline, is exactly the ghost disk content *)
Theorem C02_ex_clean_sound : forall data rvalid rfind filter readfile curpath fuel input wa cs,
  let x := ExDirty.xrun rvalid rfind filter readfile curpath fuel (ExDirty.xinit data input wa) cs in
  snd (ExDefs.lbuf_modified (ExDefs.lb (ExDirty.xs x))) = false ->
  ExUndo.utext (ExDefs.lb (ExDirty.xs x)) = ExDirty.xdisk x.
Proof. exact ExDirty.ex_clean_sound. Qed.
Print Assumptions C02_ex_clean_sound.

(* q without ! after ANY script sets xquit only if text = ghost disk ... *)
Theorem C02_ex_quit_sound : forall data rvalid rfind filter readfile curpath fuel input wa cs,
  let x := ExDirty.xrun rvalid rfind filter readfile curpath fuel (ExDirty.xinit data input wa) cs in
  ExDefs.xquit (ExDirty.xs x) = false ->
  ExDefs.xquit (ExDirty.xs (ExDirty.xstep rvalid rfind filter readfile curpath fuel x ExDirty.XQuit)) = true ->
  ExUndo.utext (ExDefs.lb (ExDirty.xs x)) = ExDirty.xdisk x.
Proof. exact ExDirty.ex_quit_sound. Qed.
Print Assumptions C02_ex_quit_sound.

(* ... and when the test reports modified it is refused: xquit, text, undo history, undo position and file unchanged *)
Theorem C02_ex_quit_refused : forall rvalid rfind filter readfile curpath fuel (x : ExDirty.xst),
  snd (ExDefs.lbuf_modified (ExDefs.lb (ExDirty.xs x))) = true ->
  let x' := ExDirty.xstep rvalid rfind filter readfile curpath fuel x ExDirty.XQuit in
  ExDefs.xquit (ExDirty.xs x') = ExDefs.xquit (ExDirty.xs x) /\ ExSpec.texts (ExDirty.xs x') = ExSpec.texts (ExDirty.xs x) /\
  ExDefs.hist (ExDefs.lb (ExDirty.xs x')) = ExDefs.hist (ExDefs.lb (ExDirty.xs x)) /\
  ExDefs.hist_u (ExDefs.lb (ExDirty.xs x')) = ExDefs.hist_u (ExDefs.lb (ExDirty.xs x)) /\
  ExDirty.xdisk x' = ExDirty.xdisk x.
Proof. exact ExDirty.ex_quit_refused. Qed.
Print Assumptions C02_ex_quit_refused.

(* not vacuous, on the file a b: q goes through at once; after `1d` it is refused; after `1d`, `w` it goes through;
   after `1d`, `u` it goes through (back at the saved text); after `1d`, a whole write, `u` it is refused;
   after `1d|w|1d` (one line) it is refused; after `1d` and a write elsewhere it is refused; after `1d`, e! it goes through *)
Example C02_ex_nonvacuous :
  let run := ExDirty.xrun (fun _ => true) (fun _ _ _ => None) (fun _ _ => None) (fun _ => None) [] 10 in
  let x0 := ExDirty.xinit [97;10;98;10]%N [] true in
  let q cs := ExDefs.xquit (ExDirty.xs (run x0 (cs ++ [ExDirty.XQuit]))) in
  q [] = true /\ q [ExDirty.XLine [49;100]%N] = false /\ q [ExDirty.XLine [49;100]%N; ExDirty.XLine [119]%N] = true /\
  q [ExDirty.XLine [49;100]%N; ExDirty.XLine [117]%N] = true /\
  q [ExDirty.XLine [49;100]%N; ExDirty.XWriteOwn 0 1; ExDirty.XLine [117]%N] = false /\
  q [ExDirty.XLine [49;100;124;119;124;49;100]%N] = false /\
  q [ExDirty.XLine [49;100]%N; ExDirty.XWriteOther] = false /\
  q [ExDirty.XLine [49;100]%N; ExDirty.XReload [122;10]%N] = true.
Proof. vm_compute. repeat split. Qed.

(* ------------------------------------------------------------------------------------------ *)
(* C02 AT THE EX INTERFACE, continued: the filter guard of the ex model itself, and SEVERAL BUFFERS.
   A table of ex-level buffers (slot 0 = current; each with its own file and ghost disk) is driven by ExDirty.tcmd:
   TCur c (any xcmd on the current buffer), TSwitch force k (b k / e of an open file: bufs_switch = ExDirty.x_switch_to, which
   bumps the buffer being left, exactly DirtyDefs.switch_to), TOpen force file (e of a new file: a fresh buffer in slot 0);
   the guard of e / b without ! is lbuf_modified of the current buffer (DirtyDefs.guard_current), the scan of q without ! is
   ExDirty.x_quit_scan (DirtyDefs.quit_scan).  No bound of 16 is modelled (C20). *)

(* `!` without writeany, the ex model's own ec_exec: refused with the text untouched while the buffer is reported modified;
   it filters only a buffer whose text equals the ghost disk *)
Theorem C02_ex_filter_guard : forall data rvalid rfind filter readfile curpath fuel input wa cs loc arg,
  let x := ExDirty.xrun rvalid rfind filter readfile curpath fuel (ExDirty.xinit data input wa) cs in
  ExDefs.xwa (ExDirty.xs x) = false ->
  let res := ExDefs.ec_exec rvalid rfind filter loc arg (ExDirty.xs x) in
  (snd (ExDefs.lbuf_modified (ExDefs.lb (ExDirty.xs x))) = true ->
     snd res = 1%Z /\ ExSpec.texts (fst res) = ExSpec.texts (ExDirty.xs x)) /\
  (snd (ExDefs.lbuf_modified (ExDefs.lb (ExDirty.xs x))) = false ->
     ExUndo.utext (ExDefs.lb (ExDirty.xs x)) = ExDirty.xdisk x).
Proof. exact ExDirty.ex_filter_guard. Qed.
Print Assumptions C02_ex_filter_guard.

(* q without ! after ANY table script (any number of buffers, any interleaving of command lines, writes, reloads, switches
   and opens): the scan says "exit" only if EVERY buffer's text equals its ghost disk *)
Theorem C02_ex_table_quit_sound : forall rvalid rfind filter readfile curpath fuel data input wa cs,
  let t := ExDirty.trun rvalid rfind filter readfile curpath fuel [ExDirty.xinit data input wa] cs in
  snd (ExDirty.x_quit_scan [] t) = true ->
  Forall (fun x => ExUndo.utext (ExDefs.lb (ExDirty.xs x)) = ExDirty.xdisk x) t.
Proof. exact ExDirty.ex_table_quit_sound. Qed.
Print Assumptions C02_ex_table_quit_sound.

(* ... and when it refuses, the buffer it makes current is one that is reported modified *)
Theorem C02_ex_table_quit_refused : forall (l pre : list ExDirty.xst), snd (ExDirty.x_quit_scan pre l) = false ->
  exists cur rest, fst (ExDirty.x_quit_scan pre l) = cur :: rest /\ ExDirty.x_flag cur = true.
Proof. exact ExDirty.x_quit_scan_false. Qed.
Print Assumptions C02_ex_table_quit_refused.

(* e / b without ! after ANY table script: refused (only the command counter of the current buffer moves, the table keeps
   its order) while the current buffer is reported modified; it goes through only when text = ghost disk *)
Theorem C02_ex_table_guard : forall rvalid rfind filter readfile curpath fuel data input wa cs c,
  let t := ExDirty.trun rvalid rfind filter readfile curpath fuel [ExDirty.xinit data input wa] cs in
  (exists k, c = ExDirty.TSwitch false k) \/ (exists d i w, c = ExDirty.TOpen false d i w) ->
  match t with
  | [] => True
  | cur :: rest =>
    (ExDirty.x_flag cur = true -> ExDirty.tstep rvalid rfind filter readfile curpath fuel t c = ExDirty.x_bump cur :: rest) /\
    (ExDirty.x_flag cur = false -> ExUndo.utext (ExDefs.lb (ExDirty.xs cur)) = ExDirty.xdisk cur)
  end.
Proof. exact ExDirty.ex_table_guard. Qed.
Print Assumptions C02_ex_table_guard.

(* not vacuous: two buffers; `1d` in the first, e! to a second file, q is refused (the first buffer is modified and becomes
   current again); then `w` there and q exits *)
Example C02_ex_table_nonvacuous :
  let step := ExDirty.tstep (fun _ => true) (fun _ _ _ => None) (fun _ _ => None) (fun _ => None) [] 10 in
  let t0 := [ExDirty.xinit [97;10;98;10]%N [] true] in
  let t1 := fold_left step [ExDirty.TCur (ExDirty.XLine [49;100]%N); ExDirty.TOpen true [122;10]%N [] true] t0 in
  let q1 := ExDirty.x_quit_scan [] t1 in
  let t2 := fold_left step [ExDirty.TCur (ExDirty.XLine [119]%N)] (fst q1) in
  length t1 = 2 /\ snd q1 = false /\ ExSpec.texts (ExDirty.xs (hd (ExDirty.xinit [] [] true) (fst q1))) = [[98]]%N /\
  snd (ExDirty.x_quit_scan [] t2) = true.
Proof. vm_compute. repeat split. Qed.

(* ------------------------------------------------------------------------------------------ *)
(* ROUND e: THE TABLE bufs[NBUFS] AS IT IS IN ex.c (DirtyDefs.table: NSLOTS = NBUFS slots, NBUFS generated from ex.c; a slot
   is occupied iff bufs[i].lb != NULL).  ec_quit_tab is the loop `for (i = 0; i < LEN(bufs); i++) if (bufs[i].lb) ...`:
   EVERY slot of the array is visited, the last one of a full table included, empty slots anywhere are skipped;
   switch_tab is bufs_switch (`if (bufs[0].lb) lbuf_modified(bufs[0].lb)`, then the memmove). *)
Theorem C02_quit_table_sound : forall t : table, length t = NSLOTS -> Forall reachable (occupied t) ->
  snd (ec_quit_tab false t) = true -> Forall (fun b => ln (lb b) = disk b) (occupied t).
Proof. exact quit_tab_sound_reachable. Qed.
Print Assumptions C02_quit_table_sound.

(* a flagged buffer in ANY slot: no exit, the array keeps its length, every buffer keeps text, history, undo position
   and file, and slot 0 holds a flagged buffer afterwards *)
Theorem C02_quit_table_refuse : forall (t : table) (b : ebuf), In (Some b) t -> dirty_flag b = true ->
  snd (ec_quit_tab false t) = false /\
  length (fst (ec_quit_tab false t)) = length t /\
  Permutation (map content (occupied (fst (ec_quit_tab false t)))) (map content (occupied t)) /\
  exists cur rest, fst (ec_quit_tab false t) = Some cur :: rest /\ dirty_flag cur = true.
Proof. exact quit_tab_refuses. Qed.
Print Assumptions C02_quit_table_refuse.

(* on the tables the editor reaches (occupied slots first: C20_wf_reachable) the array loop is the list scan of
   C02_quit_sound / C02_quit_refuse, for every number of open buffers up to NBUFS *)
Theorem C02_quit_table_is_scan : forall l : list ebuf, (length l <= NSLOTS)%nat ->
  ec_quit_tab false (full_table l) = (full_table (fst (ec_quit false l)), snd (ec_quit false l)).
Proof. exact quit_tab_is_scan. Qed.
Print Assumptions C02_quit_table_is_scan.

(* not vacuous: NBUFS is 16; a FULL table whose only modified buffer sits in the last slot refuses and brings that buffer
   to slot 0; the same with one slot free; with nothing modified the scan exits *)
Example C02_quit_table_nonvacuous :
  let clean i := ebuf_open [N.of_nat (65 + i); 10]%N in
  let dirty i := run_dop (clean i) (DEdit None 0 1) in
  let t16 := full_table (map clean (List.seq 0 15) ++ [dirty 15]) in
  let t15 := full_table (map clean (List.seq 0 14) ++ [dirty 14]) in
  NSLOTS = 16%nat /\ length t16 = 16%nat /\ length (occupied t16) = 16%nat /\
  snd (ec_quit_tab false t16) = false /\
  option_map disk (hd None (fst (ec_quit_tab false t16))) = Some [[80; 10]]%N /\
  length (occupied t15) = 15%nat /\ snd (ec_quit_tab false t15) = false /\
  snd (ec_quit_tab false (full_table (map clean (List.seq 0 16)))) = true.
Proof. vm_compute. repeat split. Qed.

(* ------------------------------------------------------------------------------------------ *)
(* ROUND f: WRITES THAT CAN FAIL.  Model coq/DirtyIoDefs.v: ec_write (fwrite) and ec_quit for q / wq / x / xa (fec_quit)
   of ex.c on top of the saved-state bookkeeping above and of the write machinery of coq/IoDefs.v (C03): lbuf_save = the
   mtime guards, open, lbuf_wr + write_fully, close, under a fault schedule with one outcome per open / write / close
   call on the target.  ec_write reaches lbuf_saved / lbuf_unsaved only when lbuf_save returned NULL; close() is the last
   call that can prevent that.  Ghost disk = the lines the file held when last read or last SUCCESSFULLY written. *)
From NV Require IoDefs.
From NV Require Import DirtyIoDefs DirtyIoProps.

(* for EVERY interleaving of edits, command boundaries, undo, redo, atomic writes, reloads and writes (:w, :b,ew, :w path,
   :x, with or without !) under ANY fault schedule: when the dirty test reports clean the text is the ghost disk *)
Theorem C02_fault_history_clean_sound : forall (c : list N) (p : nat) (ts : Z) (fs : IoDefs.fsys) (ops : list fop),
  let s := frun (fopen c p ts fs) ops in dirty_flag (fe (fb s)) = false -> ln (lb (fe (fb s))) = disk (fe (fb s)).
Proof. exact fault_history_sound. Qed.
Print Assumptions C02_fault_history_clean_sound.

(* after ANY such history, a write that does not report success -- refused, open failed, some write() failed, or every
   write() succeeded and close() failed -- on a buffer whose text differs from the ghost disk: text, undo history, undo
   position and ghost disk are as before, the buffer is still reported modified, the scan of :q over any table holding it
   refuses, and so does the guard of :e / :b / :! / :make *)
Theorem C02_failed_write_stays_dirty : forall c p ts fs0 ops now isx force rng path sch st f' fs' r,
  let s := frun (fopen c p ts fs0) ops in
  fwrite now isx force rng path (fb s) (ffs s) sch = (st, f', fs', r) -> st <> IoDefs.SOk ->
  ln (lb (fe (fb s))) <> disk (fe (fb s)) ->
  content (fe f') = content (fe (fb s)) /\ dirty_flag (fe f') = true /\
  (forall pre post, snd (ec_quit false (pre ++ fe f' :: post)) = false) /\
  (forall rest, snd (guard_current false (fe f' :: rest)) = true).
Proof. exact failed_write_stays_dirty. Qed.
Print Assumptions C02_failed_write_stays_dirty.

(* the failing close: open() succeeds, every write() call succeeds (short writes are retried: write_all answers true), the
   close() consumes an error.  The file then holds the addressed lines, yet the command reports failure and the buffer is
   the one before the command (for :x after the counter bump of its lbuf_modified call) *)
Theorem C02_close_fault_unchanged : forall now isx force rng path f fs o s d r',
  let e1 := pre_x isx f in
  let be := rng_of rng (length (ln (lb e1))) in
  skipsx isx f = false ->
  IoDefs.refuses force (if Nat.eqb (fpath f) path then fts f else 0%Z) (IoDefs.fs_mtime fs path) = false ->
  o <> IoDefs.OErr ->
  IoDefs.write_all (IoDefs.outp (IoDefs.lbuf_wr (ln (lb e1)) (fst be) (snd be))) s = (d, true, IoDefs.OErr :: r') ->
  exists fs', fwrite now isx force rng path f fs (o :: s) = (IoDefs.SFailed, set_fe f e1, fs', r') /\
              IoDefs.fs_content fs' path = Some (IoDefs.want (ln (lb e1)) (fst be) (snd be)).
Proof. exact close_fault_unchanged. Qed.
Print Assumptions C02_close_fault_unchanged.

(* any write that does not report success: text, undo history, undo position, ghost disk, flag, path, time stamp unchanged *)
Theorem C02_failed_write_unchanged : forall now isx force rng path f fs sch st f' fs' r,
  fwrite now isx force rng path f fs sch = (st, f', fs', r) -> st <> IoDefs.SOk ->
  content (fe f') = content (fe f) /\ dirty_flag (fe f') = dirty_flag (fe f) /\ fpath f' = fpath f /\ fts f' = fts f.
Proof. exact failed_write_unchanged. Qed.
Print Assumptions C02_failed_write_unchanged.

(* a write to the own path that reports success, under any schedule (short writes): the file holds exactly the new ghost
   disk; after a write of the whole buffer the flag is off and the ghost disk is the text *)
Theorem C02_successful_write_ghost : forall now isx force rng path f fs sch f' fs' r,
  fwrite now isx force rng path f fs sch = (IoDefs.SOk, f', fs', r) -> skipsx isx f = false -> fpath f = path ->
  IoDefs.fs_content fs' path = Some (concat (disk (fe f'))) /\
  (rng = None -> dirty_flag (fe f') = false /\ disk (fe f') = ln (lb (fe f))).
Proof. exact successful_write_ghost. Qed.
Print Assumptions C02_successful_write_ghost.

(* q / wq / x / xa, with or without !, with or without a path, over ANY table and ANY fault schedule: a consumed error
   (close() included) never lets the editor go; not going always comes with a non-success status; every buffer keeps text,
   undo history, undo position and path; without `a` and `!` the editor goes only if every buffer's text equals its ghost
   disk *)
Theorem C02_fault_quit : forall now wr isx all bang path t fs sch q st t' fs' r,
  fec_quit now wr isx all bang path t fs sch = (q, st, t', fs', r) ->
  (exists used, sch = used ++ r /\ (In IoDefs.OErr used -> q = false /\ st = IoDefs.SFailed)) /\
  (q = false -> st <> IoDefs.SOk) /\
  Permutation (map (fun f => (ln (lb (fe f)), hist (lb (fe f)), hist_u (lb (fe f)), fpath f)) t')
              (map (fun f => (ln (lb (fe f)), hist (lb (fe f)), hist_u (lb (fe f)), fpath f)) t) /\
  (q = true -> all = false -> bang = false -> Forall (fun f => EInv (fe f)) t ->
     Forall (fun f => ln (lb (fe f)) = disk (fe f)) t').
Proof. exact fec_quit_spec. Qed.
Print Assumptions C02_fault_quit.

(* the write part of :wq / :x fails: no quit, the scan is not even started, the table is as it was *)
Theorem C02_fault_quit_write_fails : forall now isx all bang path f0 rest fs sch st f0' fs1 r1,
  fwrite now isx bang None path f0 fs sch = (st, f0', fs1, r1) -> st <> IoDefs.SOk ->
  fec_quit now true isx all bang path (f0 :: rest) fs sch = (false, st, set_fe f0 (pre_x isx f0) :: rest, fs1, r1).
Proof. exact fec_quit_write_fails. Qed.
Print Assumptions C02_fault_quit_write_fails.

(* not vacuous: file "a b" (path 0, stamp 5), line 1 deleted.  :w with open ok, write ok, close FAILING: status failed, the
   file holds "b", the flag is still on and :q is refused; :wq and :xa with the same schedule do not quit; :x too; on a
   healthy system :wq exits, and so does :x after a short write that is retried; plain :q is refused; a retry :w after the
   failed one is refused too ("file changed": the failed write has stamped the file), :w! succeeds, the flag goes off and
   :q exits *)
Example C02_fault_nonvacuous :
  let fs := [(0%nat, ([97; 10; 98; 10]%N, 5%Z))] in
  let s := frun (fopen [97; 10; 98; 10]%N 0 5%Z fs) [FD (DEdit None 0 1); FD DBump] in
  let sch := [IoDefs.OOk; IoDefs.OOk; IoDefs.OErr] in
  let w := fwrite 9%Z false false None 0 (fb s) (ffs s) sch in
  let f1 := snd (fst (fst w)) in
  let q wr isx all sc := fst (fst (fst (fst (fec_quit 9%Z wr isx all false 0 [fb s] (ffs s) sc)))) in
  dirty_flag (fe (fb s)) = true /\
  fst (fst (fst w)) = IoDefs.SFailed /\ IoDefs.fs_content (snd (fst w)) 0 = Some [98; 10]%N /\
  dirty_flag (fe f1) = true /\ disk (fe f1) = [[97; 10]; [98; 10]]%N /\
  snd (ec_quit false [fe f1]) = false /\
  q true false false sch = false /\ q true true false sch = false /\ q false false true sch = false /\
  q true false false [] = true /\ q true true false [IoDefs.OOk; IoDefs.OShort 1; IoDefs.OOk; IoDefs.OOk] = true /\
  q false false false [] = false /\
  fst (fst (fst (fwrite 9%Z false false None 0 f1 (snd (fst w)) []))) = IoDefs.SRefused /\
  (let w2 := fwrite 9%Z false true None 0 f1 (snd (fst w)) [] in
   fst (fst (fst w2)) = IoDefs.SOk /\ dirty_flag (fe (snd (fst (fst w2)))) = false /\
   snd (ec_quit false [fe (snd (fst (fst w2)))]) = true).
Proof. vm_compute. repeat split. Qed.

(* ------------------------------------------------------------------------------------------ *)
(* THE MODEL IS THE C TEXT (coq/TrLbuf.v): lbuf_seq, lbuf_modified, lbuf_unsaved, lbuf_saved(lb, 0) of /repo/lbuf.c, translated
   by tools/c2clite.py into CLite terms (coq/GenCFuncs.v, whitelist tools/c2clite.d/50_lbuf.list), RUN on a memory in which
   block bl is a `struct lbuf` (75 cells) representing the model state lb -- TrLbuf.lbuf_rep: the cells useq 68, hist_sz 70,
   hist_n 71, hist_u 72, useq_zero 73, useq_last 74 hold the model's fields, cell 69 points to another block whose cells
   9 i + 6 are the seq fields of the log entries, ALL other cells (marks, ln, ln_glob, ln_n, ln_sz, the rest of the log
   entries) hold anything -- return the value UndoDefs computes, for EVERY state whose ints are inside int and whose undo
   cursor is inside the log, and leave the memory in which exactly the cell the model changes is changed (which again
   represents the model's next state).  No load or store leaves its block; the only signed operation that can overflow is
   lb->useq++, excluded by useq < INT_MAX -- and at INT_MAX the translated function IS the error EOverflow. *)
From Coq Require Import Lia.
From NV Require CLite CLiteProps GenCFuncs TrLbufBase TrLbuf.
Section C02_translated.
Import CLite CLiteProps GenCFuncs TrLbufBase TrLbuf.

Theorem C02_tr_lbuf_seq : forall m bl blk (lb : lbuf) d fuel, lbuf_rep m bl blk lb -> lbuf_ints lb ->
  callf cprog fuel (S d) F_lbuf_seq [VPtr bl 0] m = Ok (VInt (lbuf_seq lb), m).
Proof. exact tr_lbuf_seq. Qed.
Print Assumptions C02_tr_lbuf_seq.

Theorem C02_tr_lbuf_modified : forall m bl blk (lb : lbuf) d fuel, lbuf_rep m bl blk lb -> lbuf_ints lb ->
  (useq lb < 2147483647)%Z ->
  let blk' := upd blk L_useq (VInt (useq lb + 1)) in
  callf cprog fuel (S (S d)) F_lbuf_modified [VPtr bl 0] m
    = Ok (VInt (b2z (snd (lbuf_modified lb))), upd m bl blk')
  /\ lbuf_rep (upd m bl blk') bl blk' (fst (lbuf_modified lb)).
Proof. exact tr_lbuf_modified. Qed.
Print Assumptions C02_tr_lbuf_modified.

Theorem C02_tr_lbuf_modified_overflow : forall m bl blk (lb : lbuf) d fuel, lbuf_rep m bl blk lb ->
  useq lb = 2147483647%Z ->
  callf cprog fuel (S (S d)) F_lbuf_modified [VPtr bl 0] m = Err EOverflow.
Proof. exact tr_lbuf_modified_overflow. Qed.
Print Assumptions C02_tr_lbuf_modified_overflow.

Theorem C02_tr_lbuf_unsaved : forall m bl blk (lb : lbuf) d fuel, lbuf_rep m bl blk lb ->
  let blk' := upd blk L_useq_zero (VInt (-1)) in
  callf cprog fuel (S d) F_lbuf_unsaved [VPtr bl 0] m = Ok (VUndef, upd m bl blk')
  /\ lbuf_rep (upd m bl blk') bl blk' (lbuf_unsaved lb).
Proof. exact tr_lbuf_unsaved. Qed.
Print Assumptions C02_tr_lbuf_unsaved.

(* lbuf_saved(lb, 0) ends with lbuf_modified(xb), xb = ex_lbuf() = bufs[0].lb: the hypothesis says that slot 0 of the global
   table bufs (block G_bufs; struct buf is 41 cells, lb is cell 33) points to this struct, which is what every caller passes *)
Theorem C02_tr_lbuf_saved_keep : forall m bl blk (lb : lbuf) gblk d fuel, lbuf_rep m bl blk lb -> lbuf_ints lb ->
  (useq lb < 2147483647)%Z ->
  bl <> G_bufs -> nth_error m G_bufs = Some gblk -> nth_error gblk B_lb = Some (VPtr bl 0) ->
  let blk' := upd (upd blk L_useq_zero (VInt (lbuf_seq lb))) L_useq (VInt (useq lb + 1)) in
  callf cprog fuel (S (S (S d))) F_lbuf_saved [VPtr bl 0; VInt 0] m = Ok (VUndef, upd m bl blk')
  /\ lbuf_rep (upd m bl blk') bl blk' (lbuf_saved lb false).
Proof. exact tr_lbuf_saved_keep. Qed.
Print Assumptions C02_tr_lbuf_saved_keep.

(* not vacuous, and the translated functions RUN: the struct of a buffer with one log entry (seq 4) below the undo cursor,
   counter 5, saved at 3 (so: modified), marks -1, in the first block behind the program's globals (B = length cglobals; its log in block B + 1), bufs[0].lb pointing to it.
   lbuf_seq returns 4; lbuf_modified returns 1 and stores 6 into cell 68 only; after lbuf_saved(lb, 0) the next
   lbuf_modified returns 0; after lbuf_unsaved it returns 1 again *)
Example C02_tr_nonvacuous :
  let B := length cglobals in      (* the first block behind the program's globals, whatever the whitelist makes of them *)
  let lb0 := {| ln := []; hist := [{| pos := 0; n_ins := 1; n_del := 0; del := None; ins := Some [97; 10]%N; seq := 4 |}];
                hist_u := 1; hist_sz := 128; useq := 5; useq_zero := 3; useq_last := 2 |} in
  let blk0 := repeat (VInt (-1)) 32 ++ repeat (VInt 0) 32 ++
              [VInt 0; VInt 0; VInt 0; VInt 0; VInt 5; VPtr (S B) 0; VInt 128; VInt 1; VInt 1; VInt 3; VInt 2] in
  let hb0 := [VInt 0; VInt 0; VInt 0; VInt 1; VInt 0; VInt 0; VInt 4; VInt 0; VInt 0] in
  let m0 := upd cglobals G_bufs (upd gb_bufs B_lb (VPtr B 0)) ++ [blk0; hb0] in
  let cell m i := match nth_error m B with Some b => nth_error b i | None => None end in
  lbuf_rep m0 B blk0 lb0 /\ lbuf_ints lb0 /\
  callf cprog 1 3 F_lbuf_seq [VPtr B 0] m0 = Ok (VInt 4, m0) /\
  callf cprog 1 3 F_lbuf_modified [VPtr B 0] m0 = Ok (VInt 1, upd m0 B (upd blk0 L_useq (VInt 6))) /\
  match callf cprog 1 3 F_lbuf_saved [VPtr B 0; VInt 0] m0 with
  | Ok (_, m1) => cell m1 L_useq_zero = Some (VInt 4) /\ cell m1 L_useq = Some (VInt 6) /\
      match callf cprog 1 3 F_lbuf_modified [VPtr B 0] m1 with
      | Ok (v, m2) => v = VInt 0 /\
          match callf cprog 1 3 F_lbuf_unsaved [VPtr B 0] m2 with
          | Ok (_, m3) => cell m3 L_useq_zero = Some (VInt (-1)) /\
                          (exists m4, callf cprog 1 3 F_lbuf_modified [VPtr B 0] m3 = Ok (VInt 1, m4))
          | Err _ => False
          end
      | Err _ => False
      end
  | Err _ => False
  end.
Proof.
  cbv zeta. set (B := length cglobals). vm_compute in B. subst B. split.
  { constructor; try reflexivity. intros _. eexists (S _), [VInt 0; VInt 0; VInt 0; VInt 1; VInt 0; VInt 0; VInt 4; VInt 0; VInt 0].
    split; [apply Nat.neq_succ_diag_l|]. split; [reflexivity|]. split; [reflexivity|]. intros [|i] Hi; [reflexivity|cbn in Hi; lia]. }
  split. { unfold lbuf_ints, i32. cbn. repeat split; try lia. repeat constructor; cbn; lia. }
  vm_compute. repeat split. eexists. reflexivity.
Qed.
End C02_translated.

(* ------------------------------------------------------------------------------------------ *)
(* lbuf_saved(lb, clear) with clear != 0 on the translated C text (coq/TrLbuf.v): the loop `for (i = 0; i < lb->hist_n; i++)
   lopt_done(&lb->hist[i])` frees the four pointers ins, del, mark, mark_off of every log entry, in order; then hist_n = hist_u = 0,
   useq_last = useq, useq_zero = lbuf_seq(lb) = useq, and lbuf_modified(xb) bumps the counter.  Heap hypothesis: that sequence of
   frees is legal in the memory at the call (TrLbuf.free_list = Ok: each pointer is NULL or points to the start of a live block,
   no block twice -- free() of anything else is an error of the semantics) and none of the pointers points to the struct, the log
   array or the table bufs (TrLbuf.avoids).  Then the call returns, the memory is the one in which exactly those blocks are
   emptied and the five cells of the struct are changed, and it represents UndoDefs.lbuf_saved lb true.  (hist itself is not
   freed and hist_sz is kept: the array is reused -- as the model's clear_hist says.) *)
From NV Require CLite CLiteProps GenCFuncs TrLbufBase TrLbuf.
Section C02_translated_clear.
Import CLite CLiteProps GenCFuncs TrLbufBase TrLbuf.

Theorem C02_tr_lbuf_saved_clear : forall m bl blk (lb : lbuf) bh hblk gblk m1 c d fuel,
  lbuf_rep m bl blk lb -> lbuf_ints lb -> (useq lb < 2147483647)%Z -> c <> 0%Z ->
  ((0 < length (hist lb))%nat -> nth_error blk L_hist = Some (VPtr bh 0) /\ nth_error m bh = Some hblk /\
                                  (9 * length (hist lb) <= length hblk)%nat) ->
  avoids (ptrs_from hblk 0 (length (hist lb))) [bl; bh; G_bufs] ->
  free_list (ptrs_from hblk 0 (length (hist lb))) m = Ok m1 ->
  bl <> G_bufs -> nth_error m G_bufs = Some gblk -> nth_error gblk B_lb = Some (VPtr bl 0) ->
  (length (hist lb) < fuel)%nat ->
  let blk' := upd (upd (cleared_blk blk (useq lb)) L_useq_zero (VInt (useq lb))) L_useq (VInt (useq lb + 1)) in
  callf cprog fuel (S (S (S d))) F_lbuf_saved [VPtr bl 0; VInt c] m = Ok (VUndef, upd m1 bl blk')
  /\ lbuf_rep (upd m1 bl blk') bl blk' (lbuf_saved lb true).
Proof. exact tr_lbuf_saved_clear. Qed.

(* not vacuous, and it RUNS: the struct (block B) of a modified buffer with two log entries (array in block B+1): entry 0 has an
   inserted text (block B+2), entry 1 a deleted text (block B+3) and saved marks (blocks B+4, B+5).  lbuf_saved(lb, 1) empties
   exactly those four blocks, leaves hist_n = hist_u = 0, useq_last = useq_zero = 5, useq = 6; the next lbuf_modified reports
   clean; calling lbuf_saved(lb, 1) on a heap where entry 0's text is already freed is an error (double free) *)
Example C02_tr_clear_nonvacuous :
  let B := length cglobals in
  let blk0 := repeat (VInt (-1)) 32 ++ repeat (VInt 0) 32 ++
              [VInt 0; VInt 0; VInt 0; VInt 0; VInt 5; VPtr (B + 1) 0; VInt 128; VInt 2; VInt 2; VInt 3; VInt 2] in
  let hb0 := [VPtr (B + 2) 0; VInt 0; VInt 0; VInt 1; VInt 0; VInt 0; VInt 4; VInt 0; VInt 0;
              VInt 0; VPtr (B + 3) 0; VInt 0; VInt 0; VInt 1; VInt 0; VInt 4; VPtr (B + 4) 0; VPtr (B + 5) 0] in
  let txt := [VInt 97; VInt 10; VInt 0] in
  let m0 := repeat [] G_bufs ++ [upd gb_bufs B_lb (VPtr B 0)] ++ repeat [] (B - S G_bufs) ++
            [blk0; hb0; txt; txt; repeat (VInt (-1)) 32; repeat (VInt 0) 32] in     (* only bufs among the globals *)
  let cell m i := match nth_error m B with Some b => nth_error b i | None => None end in
  free_list (ptrs_from hb0 0 2) m0 = Ok (upd (upd (upd (upd m0 (B + 2) []) (B + 3) []) (B + 4) []) (B + 5) []) /\
  match callf cprog 3 4 F_lbuf_saved [VPtr B 0; VInt 1] m0 with
  | Ok (_, m1) =>
      map (nth_error m1) [B + 2; B + 3; B + 4; B + 5]%nat = [Some []; Some []; Some []; Some []] /\
      nth_error m1 (B + 1)%nat = Some hb0 /\
      map (cell m1) [L_useq; L_hist_n; L_hist_u; L_useq_zero; L_useq_last]
        = [Some (VInt 6); Some (VInt 0); Some (VInt 0); Some (VInt 5); Some (VInt 5)] /\
      (exists m2, callf cprog 3 4 F_lbuf_modified [VPtr B 0] m1 = Ok (VInt 0, m2))
  | Err _ => False
  end /\
  callf cprog 3 4 F_lbuf_saved [VPtr B 0; VInt 1] (upd m0 (B + 2) []) = Err EOob.
Proof. cbv zeta. set (B := length cglobals). vm_compute in B. subst B. vm_compute. repeat split. eexists. reflexivity. Qed.
End C02_translated_clear.
Print Assumptions C02_tr_lbuf_saved_clear.

(* ------------------------------------------------------------------------------------------ *)
(* ROUNDS g / h.
   (h) THE BUFFER OF AN EDITOR STARTED WITHOUT A FILE NAME (DirtyDefs.ebuf_new = lbuf_make; lbuf_saved(lb, 0): ex_init -> ec_edit with
   an empty path, nothing read).  Its history was never cleared by lbuf_saved(lb, 1): useq_last = 0, and lbuf_seq answers useq_last
   -- 0 -- whenever the undo cursor is below the oldest log entry.  It gets its name from the first write with a path, whose tail
   in ec_write is the own-path one (DSaveWhole / DSaveOwn).  Everything above holds from this start too; in particular the marker
   lbuf_unsaved stores must differ from EVERY value lbuf_seq can take, 0 included. *)
Theorem C02_noname_clean_sound : forall ops : list dop,
  let e := run_dops ebuf_new ops in dirty_flag e = false -> ln (lb e) = disk e.
Proof. exact noname_sound. Qed.
Print Assumptions C02_noname_clean_sound.

Theorem C02_noname_partial_write_dirty : forall (ops : list dop) (b en : nat) (walk : list dop),
  let e := run_dops ebuf_new ops in
  (Nat.eqb b 0 && Nat.eqb en (length (ln (lb e))) = false) -> forallb is_walk walk = true ->
  dirty_flag (run_dops (run_dop e (DSaveOwn b en)) walk) = true.
Proof. exact noname_partial_write_dirty. Qed.
Print Assumptions C02_noname_partial_write_dirty.

(* :q over a table whose buffers come from either start (read from a file, or the unnamed one), list and array form; the guard *)
Theorem C02_quit_sound_any_start : forall bufs : list ebuf, Forall reachable0 bufs ->
  snd (ec_quit false bufs) = true -> Forall (fun b => ln (lb b) = disk b) bufs.
Proof. exact quit_sound_reachable0. Qed.
Print Assumptions C02_quit_sound_any_start.

Theorem C02_quit_table_sound_any_start : forall t : table, length t = NSLOTS -> Forall reachable0 (occupied t) ->
  snd (ec_quit_tab false t) = true -> Forall (fun b => ln (lb b) = disk b) (occupied t).
Proof. exact quit_tab_sound_reachable0. Qed.
Print Assumptions C02_quit_table_sound_any_start.

Theorem C02_guard_sound_any_start : forall (b : ebuf) (rest : list ebuf), reachable0 b ->
  snd (guard_current false (b :: rest)) = false -> ln (lb b) = disk b.
Proof. exact guard_sound_reachable0. Qed.
Print Assumptions C02_guard_sound_any_start.

(* not vacuous -- the history of seeded change C02h: no file name; a foo,bar; :w f (whole: clean); a baz; :1,2w (part of the buffer to
   its own path); u; u.  The text is empty again, the file holds foo,bar, the undo cursor is below the oldest entry where lbuf_seq
   answers useq_last = 0: the flag is on, :q is refused -- and a marker of 0 instead of -1 WOULD report clean there *)
Example C02_noname_nonvacuous :
  let foo := [102; 111; 111; 10]%N in let bar := [98; 97; 114; 10]%N in let baz := [98; 97; 122; 10]%N in
  let h := [DEdit (Some (foo ++ bar)) 0 0; DBump; DSaveWhole; DBump; DEdit (Some baz) 2 2; DBump] in
  let e1 := run_dops ebuf_new h in
  let e2 := run_dops e1 [DSaveOwn 0 2; DBump; DUndo; DBump; DUndo; DBump] in
  dirty_flag ebuf_new = false /\ useq_last (lb ebuf_new) = 0%Z /\
  dirty_flag (run_dops ebuf_new [DEdit (Some (foo ++ bar)) 0 0; DBump; DSaveWhole; DBump]) = false /\
  dirty_flag e1 = true /\ ln (lb e1) = [foo; bar; baz] /\
  ln (lb e2) = [] /\ disk e2 = [foo; bar] /\ hist_u (lb e2) = 0%nat /\ lbuf_seq (lb e2) = 0%Z /\ useq_zero (lb e2) = (-1)%Z /\
  dirty_flag e2 = true /\ snd (ec_quit false [e2]) = false /\ snd (guard_current false [e2]) = true /\
  modified_flag (set_zero (lb e2) 0) = false.
Proof. vm_compute. repeat split. Qed.

(* (g) :e WITH AN EMPTY OR SELF-REFERRING ARGUMENT.  DirtyDefs.ec_edit_noarg = ec_edit with an empty path on a buffer that has one
   (":e", ":e +cmd"; with force ":e!"): the guard comes first, before the argument is looked at; then nothing is opened or switched and
   the function falls through to lbuf_rd over the whole buffer and lbuf_saved(xb, 0) (DReload of what the file holds).
   Without `!` on a buffer reported modified: refused -- text, undo history, undo position, ghost disk and flag of every buffer kept *)
Theorem C02_edit_noarg_refused : forall (b : ebuf) (rest : list ebuf) (file : list N), dirty_flag b = true ->
  ec_edit_noarg false file (b :: rest) = (fst (bufs_modified b) :: rest, true) /\
  map content (fst (ec_edit_noarg false file (b :: rest))) = map content (b :: rest) /\
  map dirty_flag (fst (ec_edit_noarg false file (b :: rest))) = map dirty_flag (b :: rest).
Proof. exact edit_noarg_refused. Qed.
Print Assumptions C02_edit_noarg_refused.

(* it goes through only when the text equals the ghost disk (what the re-read replaces is in the file); afterwards text = file,
   ghost disk = text, flag off, and the buffer is again one the theorems above speak about *)
Theorem C02_edit_noarg_sound : forall (b : ebuf) (rest : list ebuf) (file : list N), reachable0 b ->
  snd (ec_edit_noarg false file (b :: rest)) = false ->
  ln (lb b) = disk b /\
  exists b', fst (ec_edit_noarg false file (b :: rest)) = b' :: rest /\
             ln (lb b') = lines_of file /\ disk b' = lines_of file /\ dirty_flag b' = false /\ reachable0 b'.
Proof. exact edit_noarg_sound. Qed.
Print Assumptions C02_edit_noarg_sound.

(* with `!`: the reload whatever the flag says: text = file, ghost disk = text, flag off *)
Theorem C02_edit_noarg_force : forall (b : ebuf) (rest : list ebuf) (file : list N),
  exists b', ec_edit_noarg true file (b :: rest) = (b' :: rest, false) /\
             ln (lb b') = lines_of file /\ disk b' = lines_of file /\ dirty_flag b' = false /\ (reachable0 b -> reachable0 b').
Proof. exact edit_noarg_force. Qed.
Print Assumptions C02_edit_noarg_force.

(* :e % / :e <own path> (bufs_find = 0, bufs_switch(0)): refused on a buffer reported modified; when it goes through nothing but the
   command counter moves -- no read, the saved point stays -- and without `!` that happens only when text = ghost disk *)
Theorem C02_edit_own : forall (force : bool) (b : ebuf) (rest : list ebuf),
  (force = false -> dirty_flag b = true ->
     ec_edit_own force (b :: rest) = (fst (bufs_modified b) :: rest, true)) /\
  (snd (ec_edit_own force (b :: rest)) = false ->
     map content (fst (ec_edit_own force (b :: rest))) = map content (b :: rest) /\
     map dirty_flag (fst (ec_edit_own force (b :: rest))) = map dirty_flag (b :: rest) /\
     (force = false -> reachable0 b -> ln (lb b) = disk b)).
Proof. exact edit_own_spec. Qed.
Print Assumptions C02_edit_own.

(* not vacuous -- the history of seeded change C02g on the file one,two,three: 1s (line 1 replaced), :w, 2s (unsaved), then :e is
   refused with the text kept, :e % too; :e! reloads; after u back to the written text :e goes through and re-reads *)
Example C02_edit_noarg_nonvacuous :
  let one := [111; 110; 101; 10]%N in let two := [116; 119; 111; 10]%N in let three := [116; 104; 114; 10]%N in
  let ONE := [79; 78; 69; 10]%N in let TWO := [84; 87; 79; 10]%N in
  let e := run_dops (ebuf_open (one ++ two ++ three))
             [DEdit (Some ONE) 0 1; DBump; DSaveWhole; DBump; DEdit (Some TWO) 1 2; DBump] in
  let file := ONE ++ two ++ three in
  ln (lb e) = [ONE; TWO; three] /\ disk e = [ONE; two; three] /\
  snd (ec_edit_noarg false file [e]) = true /\ map (fun b => ln (lb b)) (fst (ec_edit_noarg false file [e])) = [[ONE; TWO; three]] /\
  snd (ec_edit_own false [e]) = true /\
  map (fun b => (ln (lb b), dirty_flag b)) (fst (ec_edit_noarg true file [e])) = [([ONE; two; three], false)] /\
  (let e' := run_dops e [DUndo; DBump] in
   dirty_flag e' = false /\ snd (ec_edit_noarg false file [e']) = false /\
   map (fun b => (ln (lb b), disk b, dirty_flag b)) (fst (ec_edit_noarg false file [e'])) = [([ONE; two; three], [ONE; two; three], false)]).
Proof. vm_compute. repeat split. Qed.

(* ROUND g AT THE EX INTERFACE: ExDirty.XEdit c = `e` without a file name and without `!` as a script command of the ex model --
   bufs_modified first (ec_edit's guard comes before the argument is looked at); only when it reports clean, the re-read of `e!`
   (lbuf_edit over the whole buffer with what the file holds, lbuf_saved(xb, 0)).  XEdit is part of xcmd, so C02_ex_history,
   C02_ex_clean_sound, C02_ex_quit_sound and the table theorems above quantify over scripts containing it. *)
Theorem C02_ex_edit_refused : forall rvalid rfind filter readfile curpath fuel (x : ExDirty.xst) c,
  snd (ExDefs.lbuf_modified (ExDefs.lb (ExDirty.xs x))) = true ->
  let x' := ExDirty.xstep rvalid rfind filter readfile curpath fuel x (ExDirty.XEdit c) in
  ExSpec.texts (ExDirty.xs x') = ExSpec.texts (ExDirty.xs x) /\
  ExDefs.hist (ExDefs.lb (ExDirty.xs x')) = ExDefs.hist (ExDefs.lb (ExDirty.xs x)) /\
  ExDefs.hist_u (ExDefs.lb (ExDirty.xs x')) = ExDefs.hist_u (ExDefs.lb (ExDirty.xs x)) /\
  ExDirty.xdisk x' = ExDirty.xdisk x /\ snd (ExDefs.lbuf_modified (ExDefs.lb (ExDirty.xs x'))) = true.
Proof. exact ExDirty.ex_edit_refused. Qed.
Print Assumptions C02_ex_edit_refused.

Theorem C02_ex_edit_sound : forall data rvalid rfind filter readfile curpath fuel input wa cs c,
  let x := ExDirty.xrun rvalid rfind filter readfile curpath fuel (ExDirty.xinit data input wa) cs in
  snd (ExDefs.lbuf_modified (ExDefs.lb (ExDirty.xs x))) = false ->
  let x' := ExDirty.xstep rvalid rfind filter readfile curpath fuel x (ExDirty.XEdit c) in
  ExUndo.utext (ExDefs.lb (ExDirty.xs x)) = ExDirty.xdisk x /\
  ExUndo.utext (ExDefs.lb (ExDirty.xs x')) = UndoDefs.lines_of c /\ ExDirty.xdisk x' = UndoDefs.lines_of c /\
  snd (ExDefs.lbuf_modified (ExDefs.lb (ExDirty.xs x'))) = false.
Proof. exact ExDirty.ex_edit_sound. Qed.
Print Assumptions C02_ex_edit_sound.

(* not vacuous, on the file a b: `1d`, `e` (file still a b): refused, the text stays b, q is still refused; `1d`, `u`, `e`: goes
   through, q exits; `1d`, `e!`, `1d`, `e`: refused *)
Example C02_ex_edit_nonvacuous :
  let run := ExDirty.xrun (fun _ => true) (fun _ _ _ => None) (fun _ _ => None) (fun _ => None) [] 10 in
  let x0 := ExDirty.xinit [97;10;98;10]%N [] true in
  let ab := [97;10;98;10]%N in
  let q cs := ExDefs.xquit (ExDirty.xs (run x0 (cs ++ [ExDirty.XQuit]))) in
  let t cs := ExSpec.texts (ExDirty.xs (run x0 cs)) in
  t [ExDirty.XLine [49;100]%N; ExDirty.XEdit ab] = [[98]]%N /\
  q [ExDirty.XLine [49;100]%N; ExDirty.XEdit ab] = false /\
  t [ExDirty.XLine [49;100]%N; ExDirty.XLine [117]%N; ExDirty.XEdit ab] = [[97]; [98]]%N /\
  q [ExDirty.XLine [49;100]%N; ExDirty.XLine [117]%N; ExDirty.XEdit ab] = true /\
  t [ExDirty.XLine [49;100]%N; ExDirty.XReload ab; ExDirty.XLine [49;100]%N; ExDirty.XEdit ab] = [[98]]%N /\
  q [ExDirty.XLine [49;100]%N; ExDirty.XReload ab; ExDirty.XLine [49;100]%N; ExDirty.XEdit ab] = false.
Proof. vm_compute. repeat split. Qed.

(* ------------------------------------------------------------------------------------------ *)
(* THE GUARDS ARE THE C TEXT (coq/TrQuit.v; whitelist tools/c2clite.d/87_quit.list): bufs_modified, ec_quit, ec_edit, ec_buffer, ec_exec,
   ec_make of /repo/ex.c as CLite terms (coq/GenCFuncs.v), RUN on a memory whose block G_bufs is ANY table bufs[16] (TrBufs.tab_at: 16 * 41
   cells) with a struct lbuf (TrLbuf.lbuf_rep: 75 cells) behind the lb pointer of every occupied slot (TrQuit.heap_at; TrQuit.sep: the structs
   are different blocks, none is a reserved global, no log pointer points to a struct or a reserved global).  ex_show, lbuf_save, ec_write,
   reg_put and everything behind the guards are NOT translated: every statement is about CLiteExt.callx for EVERY oracle `ext`, with
   hypotheses about the oracle's answers on the calls that are reached -- so "returns 1 with this memory" also says that no other
   untranslated function was called. *)
From NV Require CLite CLiteProps GenCFuncs CLiteTac CLiteExt TrLbufBase TrLbuf TrBufs TrBufsLbuf TrQuit BufsDefs.
Section C02_translated_guards.
Import CLite CLiteProps GenCFuncs CLiteTac CLiteExt TrLbufBase TrLbuf TrBufs TrQuit.
Local Open Scope Z_scope.

(* bufs_modified(idx, msg), autowrite off: an empty slot answers 0 and nothing happens; an occupied one gets its command counter bumped
   (UndoDefs.lbuf_modified: exactly cell useq of its struct) and answers the model's flag; only on a buffer reported modified the message
   goes to ex_show *)
Theorem C02_tr_bufs_modified : forall ext m t i h msg B d fuel, B <= 2147483647 -> tab_at m t -> tab_ok t -> (i < 16)%nat ->
  slot_heap B m (nths t i) h -> cell_at m G_xaw 0 -> ptr_val msg -> (forall bl blk lb, h = Some (bl, blk, lb) -> bl <> G_xaw) ->
  match h with
  | None => callx ext cprog fuel (S (S (S d))) F_bufs_modified [VInt (Z.of_nat i); msg] m = Ok (VInt 0, m)
  | Some (bl, blk, lb) =>
      if snd (lbuf_modified lb)
      then forall m2, show_call ext msg (bump_mem m bl blk lb) m2 ->
           callx ext cprog fuel (S (S (S d))) F_bufs_modified [VInt (Z.of_nat i); msg] m = Ok (VInt 1, m2)
      else callx ext cprog fuel (S (S (S d))) F_bufs_modified [VInt (Z.of_nat i); msg] m = Ok (VInt 0, bump_mem m bl blk lb)
  end.
Proof. exact tr_bufs_modified. Qed.
Print Assumptions C02_tr_bufs_modified.

(* the memory after the bump represents the model's next state (fst (lbuf_modified lb) = bump lb) *)
Theorem C02_tr_bufs_modified_state : forall B m cs bl blk (lb : lbuf), B <= 2147483647 -> slot_heap B m cs (Some (bl, blk, lb)) ->
  slot_heap (B + 1) (bump_mem m bl blk lb) cs (Some (bl, bumped blk lb, fst (lbuf_modified lb))).
Proof. exact slot_heap_bump. Qed.
Print Assumptions C02_tr_bufs_modified_state.

(* autowrite on (xaw != 0), a buffer reported modified: with a non-empty path the buffer is handed to lbuf_save(b->lb, 0, -1, b->path, 0,
   b->mtime) -- the oracle.  A message: bufs_modified answers 1, nothing is stored.  NULL (since fix 37c81b2): lbuf_saved(b->lb, 0) -- the
   translated function, on the memory the save left --, then mtime(b->path) -- an oracle -- is stored into b->mtime (the slot's last cell; the
   rest of the table stays) and bufs_modified answers 0.  With the path "" as with autowrite off *)
Theorem C02_tr_bufs_modified_autowrite : forall ext m t i bl blk (lb : lbuf) msg a pb p m2 d fuel, tab_at m t -> tab_ok t -> (i < 16)%nat ->
  cs_lb (nths t i) = VPtr bl 0 -> lbuf_rep m bl blk lb -> lbuf_ints lb -> useq lb < 2147483647 ->
  snd (lbuf_modified lb) = true -> bl <> G_xaw -> bl <> G_bufs -> cell_at m G_xaw a -> int_ok a -> a <> 0 -> ptr_val msg ->
  cs_path (nths t i) = VPtr pb 0 -> str_at m pb p -> Bytes.nonul p -> pb <> bl ->
  let m1 := bump_mem m bl blk lb in
  match p with
  | [] => show_call ext msg m1 m2 ->
          callx ext cprog fuel (S (S (S d))) F_bufs_modified [VInt (Z.of_nat i); msg] m = Ok (VInt 1, m2)
  | _ :: _ => forall r, ptr_val r ->
          ext X_lbuf_save [VPtr bl 0; VInt 0; VInt (-1); VPtr pb 0; VInt 0; VInt (wrap I64 (cs_mtime (nths t i)))] m1 = Ok (r, m2) ->
          if is_null r
          then forall u3 m3 ts m4, tab_at m2 t ->
                 callx ext cprog fuel (S (S d)) F_lbuf_saved [VPtr bl 0; VInt 0] m2 = Ok (u3, m3) -> tab_at m3 t ->
                 ext X_mtime [VPtr pb 0] m3 = Ok (VInt ts, m4) -> tab_at m4 t ->
                 callx ext cprog fuel (S (S (S d))) F_bufs_modified [VInt (Z.of_nat i); msg] m
                 = Ok (VInt 0, upd m4 G_bufs (tab_cells (upd t i (set_cs_mtime (nths t i) (wrap I64 ts)))))
          else callx ext cprog fuel (S (S (S d))) F_bufs_modified [VInt (Z.of_nat i); msg] m = Ok (VInt 1, m2)
  end.
Proof. exact tr_bufs_modified_aw. Qed.
Print Assumptions C02_tr_bufs_modified_autowrite.

(* ec_quit(loc, cmd, arg, txt) for q / wq / x (no `a`, no `!` in cmd), for EVERY table, heap and oracle.  The write part of wq / x is the
   oracle for ec_write("", cmd, arg, NULL) (write_part: it answered 0 and left mw; for q nothing happens, mw = m).  Then ALL 16 slots
   are visited in order from slot 0; every occupied slot's buffer is asked up to the first one reported modified (TrQuit.cq: the memory with
   those counters bumped, and that slot).  None: xquit = 1 is stored, 0 returned.  Slot j: "buffer modified" goes to ex_show, bufs_switch(j)
   runs, 0 is returned and the memory is exactly what bufs_switch left: xquit is NOT stored. *)
Theorem C02_tr_ec_quit : forall ext m mw t hp cb cmd loc arg txt q0 B d fuel, B <= 2147483647 ->
  str_at m cb cmd -> Bytes.nonul cmd -> ptr_val arg -> write_part ext cb cmd arg m 0 mw ->
  tab_at mw t -> tab_ok t -> heap_at B mw t hp -> sep [G_bufs; G_xaw; G_xquit; cb] hp ->
  cell_at mw G_xaw 0 -> cell_at mw G_xquit q0 -> str_at mw cb cmd ->
  find_byte 97 cmd = None -> find_byte 33 cmd = None -> (16 < fuel)%nat ->
  match cq hp 0 mw with
  | (m1, None) => callx ext cprog fuel (S (S (S (S d)))) F_ec_quit [loc; VPtr cb 0; arg; txt] m = Ok (VInt 0, upd m1 G_xquit [VInt 1])
  | (m1, Some j) => forall u1 m2 u2 m', ext X_ex_show [VPtr G_lit_627566666572206d6f646966696564_15 0] m1 = Ok (u1, m2) ->
      callx ext cprog fuel (S (S (S d))) F_bufs_switch [VInt (Z.of_nat j)] m2 = Ok (u2, m') ->
      callx ext cprog fuel (S (S (S (S d)))) F_ec_quit [loc; VPtr cb 0; arg; txt] m = Ok (VInt 0, m')
  end.
Proof. exact tr_ec_quit_scan. Qed.
Print Assumptions C02_tr_ec_quit.

(* ... and that scan IS DirtyDefs.ec_quit_tab without `!` on the model table behind the heap (heap_tab: the same slots empty, the occupied ones
   carry the state their struct represents; the ghost disk is free): the same verdict, the same slot, and after the bufs_switch of the
   refusing case -- slot 0's buffer bumped once more, slot j moved to the front: TrQuit.hbump0 / BufsDefs.switch -- the same table *)
Theorem C02_tr_ec_quit_is_model : forall hp (T : table), heap_tab hp T ->
  match cq_idx hp with
  | None => ec_quit_tab false T = (tq T, true) /\ heap_tab (cq_hp hp) (tq T)
  | Some j => snd (ec_quit_tab false T) = false /\ BufsDefs.first_idx tflag T = Some j /\
              heap_tab (BufsDefs.switch (hbump0 (cq_hp hp)) j) (fst (ec_quit_tab false T))
  end.
Proof. exact cq_is_quit_tab. Qed.
Print Assumptions C02_tr_ec_quit_is_model.
Theorem C02_tr_scan_slot : forall l i m, snd (cq l i m) = option_map (fun n => (i + n)%nat) (cq_idx l).
Proof. exact cq_snd. Qed.

(* the refusing quit end to end (TrBufs.tr_bufs_switch / TrBufsLbuf.tr_bufs_switch_bump for the bufs_switch call): with an ex_show that
   leaves this memory alone and a reg_put that answers, ec_quit returns 0 and at its last call -- reg_put('%', path of the new current buffer,
   0) from bufs_load -- the memory m5 holds the table rotated to the first modified slot j (BufsDefs.switch of the table with the cursor saved
   into slot 0), every struct represents the entry of switch (hbump0 (cq_hp hp)) j -- by C02_tr_ec_quit_is_model the table of
   DirtyDefs.ec_quit_tab -- and xquit is what it was *)
Theorem C02_tr_ec_quit_rotates : forall ext m mw t hp cb cmd loc arg txt q0 B r o tp l td m1 j d fuel,
  B <= 2147483646 -> str_at m cb cmd -> Bytes.nonul cmd -> ptr_val arg -> write_part ext cb cmd arg m 0 mw ->
  tab_at mw t -> tab_ok t -> heap_at B mw t hp -> sep (RES cb) hp ->
  cell_at mw G_xaw 0 -> cell_at mw G_xquit q0 -> str_at mw cb cmd ->
  globs_at mw r o tp l td -> int_ok r -> int_ok o -> int_ok tp -> int_ok l -> int_ok td ->
  Forall slot_ints t -> Forall (fun s => ptr_val (cs_path s)) t ->
  find_byte 97 cmd = None -> find_byte 33 cmd = None -> (16 < fuel)%nat ->
  (forall mm, ext X_ex_show [VPtr G_lit_627566666572206d6f646966696564_15 0] mm = Ok (VUndef, mm)) ->
  (forall a mm, exists u mm', ext X_reg_put [VInt 37; a; VInt 0] mm = Ok (u, mm')) ->
  cq hp 0 mw = (m1, Some j) ->
  let t2 := BufsDefs.switch (save0 t r o tp l td) j in
  let hp2 := BufsDefs.switch (hbump0 (cq_hp hp)) j in
  exists m5 u m',
    callx ext cprog fuel (S (S (S (S d)))) F_ec_quit [loc; VPtr cb 0; arg; txt] m = Ok (VInt 0, m') /\
    ext X_reg_put [VInt 37; path_arg (cs_path (nths t2 0)); VInt 0] m5 = Ok (u, m') /\
    tab_at m5 t2 /\ heap_at (B + 2) m5 t2 hp2 /\ cell_at m5 G_xquit q0.
Proof. exact tr_ec_quit_rotates. Qed.
Print Assumptions C02_tr_ec_quit_rotates.

(* with `!` (q!, wq!, x!; no `a`): nothing is asked, xquit = 1 is stored whatever the buffers hold, nothing else changes *)
Theorem C02_tr_ec_quit_force : forall ext m mw t cb cmd loc arg txt q0 k d fuel, str_at m cb cmd -> Bytes.nonul cmd -> ptr_val arg ->
  write_part ext cb cmd arg m 0 mw ->
  tab_at mw t -> tab_ok t -> lbs_ok t -> cell_at mw G_xquit q0 -> str_at mw cb cmd ->
  find_byte 97 cmd = None -> find_byte 33 cmd = Some k -> (16 < fuel)%nat ->
  callx ext cprog fuel (S (S (S (S d)))) F_ec_quit [loc; VPtr cb 0; arg; txt] m = Ok (VInt 0, upd mw G_xquit [VInt 1]).
Proof. exact tr_ec_quit_force. Qed.
Print Assumptions C02_tr_ec_quit_force.

(* wq / x / xa whose write part reports failure: 1 is returned, the loop is not started, xquit is not stored *)
Theorem C02_tr_ec_quit_write_fails : forall ext m cb cmd loc arg txt r mw d fuel, str_at m cb cmd -> Bytes.nonul cmd -> ptr_val arg ->
  is_wx cmd = true -> ext X_ec_write [VPtr G_lit__0 0; VPtr cb 0; arg; VInt 0] m = Ok (VInt r, mw) -> r <> 0 ->
  callx ext cprog fuel (S (S (S (S d)))) F_ec_quit [loc; VPtr cb 0; arg; txt] m = Ok (VInt 1, mw).
Proof. exact tr_ec_quit_write_fails. Qed.
Print Assumptions C02_tr_ec_quit_write_fails.

(* THE GUARD OF :e :b :! :make.  The call sites, as facts about the translated text (by computation): the body of ec_exec / ec_make / ec_edit
   is its local arrays, then the guard statement, then the rest; ec_buffer calls bufs_switch exactly once, inside the guarded statement *)
Theorem C02_tr_guard_sites :
  fn_body cf_ec_exec = SSeq (SSeq (SExpr (ESetLocal 4 (EBuiltin BMalloc [EConst 1]))) (SExpr (ESetLocal 5 (EBuiltin BMalloc [EConst 1]))))
                            (SSeq guard_xwa ec_exec_rest) /\
  fn_body cf_ec_make = SSeq (SExpr (ESetLocal 4 (EBuiltin BMalloc [EConst 512]))) (SSeq guard_xwa ec_make_rest) /\
  fn_body cf_ec_edit = SSeq (SExpr (ESetLocal 4 (EBuiltin BMalloc [EConst 512])))
                            (SSeq (SExpr (ESetLocal 5 (EBuiltin BMalloc [EConst 128]))) (SSeq guard_edit ec_edit_rest)) /\
  ec_buffer_sw = guard_buffer 10 /\ calls_s F_bufs_switch (fn_body cf_ec_buffer) = 1%nat /\ calls_s F_bufs_switch ec_buffer_sw = 1%nat.
Proof. exact (conj ec_exec_shape (conj ec_make_shape (conj ec_edit_shape ec_buffer_shape))). Qed.
Print Assumptions C02_tr_guard_sites.

(* what bufs_modified(0, "buffer modified") answers (v) and leaves (m'), by the state of slot 0 -- DirtyDefs.guard_current without `!` *)
(* ec_exec / ec_make (writeany off): v <> 0 -- a buffer reported modified -- returns 1 at once with the memory ex_show left: neither
   ex_pathexpand nor cmd_exec / cmd_pipe / lbuf_edit is reached; the rest of the function runs only on v = 0 *)
Theorem C02_tr_guard_exec : forall ext m t h loc cmd arg txt v m' B d fuel, B <= 2147483647 -> tab_at m t -> tab_ok t ->
  slot_heap B m (nths t 0) h -> cell_at m G_xaw 0 -> cell_at m G_xwa 0 -> (forall bl blk lb, h = Some (bl, blk, lb) -> bl <> G_xaw) ->
  let m0 := (m ++ [repeat VUndef 1]) ++ [repeat VUndef 1] in
  bm_spec ext h m0 v m' ->
  callx ext cprog fuel (S (S (S (S d)))) F_ec_exec [loc; cmd; arg; txt] m =
  if v =? 0 then ret_of (exec (callx ext cprog fuel (S (S (S d)))) fuel ec_exec_rest
                           (mkst [loc; cmd; arg; txt; VPtr (length m) 0; VPtr (S (length m)) 0; VUndef; VUndef; VUndef] m'))
  else Ok (VInt 1, m').
Proof. exact tr_ec_exec_head. Qed.
Print Assumptions C02_tr_guard_exec.
Theorem C02_tr_guard_make : forall ext m t h loc cmd arg txt v m' B d fuel, B <= 2147483647 -> tab_at m t -> tab_ok t ->
  slot_heap B m (nths t 0) h -> cell_at m G_xaw 0 -> cell_at m G_xwa 0 -> (forall bl blk lb, h = Some (bl, blk, lb) -> bl <> G_xaw) ->
  let m0 := m ++ [repeat VUndef 512] in
  bm_spec ext h m0 v m' ->
  callx ext cprog fuel (S (S (S (S d)))) F_ec_make [loc; cmd; arg; txt] m =
  if v =? 0 then ret_of (exec (callx ext cprog fuel (S (S (S d)))) fuel ec_make_rest (mkst [loc; cmd; arg; txt; VPtr (length m) 0; VUndef] m'))
  else Ok (VInt 1, m').
Proof. exact tr_ec_make_head. Qed.
Print Assumptions C02_tr_guard_make.
(* ec_edit without `!`: the guard comes FIRST, before ex_plus / ex_pathexpand look at the argument -- for every argument, the empty one
   included (the re-read of ":e") *)
Theorem C02_tr_guard_edit : forall ext m t h loc cb cmd arg txt v m' B d fuel, B <= 2147483647 -> tab_at m t -> tab_ok t ->
  slot_heap B m (nths t 0) h -> cell_at m G_xaw 0 -> cell_at m G_xwa 0 -> (forall bl blk lb, h = Some (bl, blk, lb) -> bl <> G_xaw) ->
  str_at m cb cmd -> Bytes.nonul cmd -> find_byte 33 cmd = None ->
  let m0 := (m ++ [repeat VUndef 512]) ++ [repeat VUndef 128] in
  bm_spec ext h m0 v m' ->
  callx ext cprog fuel (S (S (S (S d)))) F_ec_edit [loc; VPtr cb 0; arg; txt] m =
  if v =? 0 then ret_of (exec (callx ext cprog fuel (S (S (S d)))) fuel ec_edit_rest
                           (mkst [loc; VPtr cb 0; arg; txt; VPtr (length m) 0; VPtr (S (length m)) 0; VUndef; VUndef; VUndef] m'))
  else Ok (VInt 1, m').
Proof. exact tr_ec_edit_head. Qed.
Print Assumptions C02_tr_guard_edit.
Theorem C02_tr_guard_edit_bang : forall ext m loc cb cmd arg txt k d fuel, str_at m cb cmd -> Bytes.nonul cmd -> find_byte 33 cmd = Some k ->
  let m0 := (m ++ [repeat VUndef 512]) ++ [repeat VUndef 128] in
  callx ext cprog fuel (S (S (S (S d)))) F_ec_edit [loc; VPtr cb 0; arg; txt] m =
  ret_of (exec (callx ext cprog fuel (S (S (S d)))) fuel ec_edit_rest
            (mkst [loc; VPtr cb 0; arg; txt; VPtr (length m) 0; VPtr (S (length m)) 0; VUndef; VUndef; VUndef] m0)).
Proof. exact tr_ec_edit_bang. Qed.
Print Assumptions C02_tr_guard_edit_bang.
(* ec_buffer: the statement that holds its only bufs_switch call returns 1 before that call on a buffer reported modified *)
Theorem C02_tr_guard_buffer : forall ext t h m v m' cb cmd l0 ltl B d fuel fuel', tab_ok t -> B <= 2147483647 ->
  tab_at m t -> slot_heap B m (nths t 0) h -> cell_at m G_xaw 0 -> cell_at m G_xwa 0 ->
  (forall bl blk lb, h = Some (bl, blk, lb) -> bl <> G_xaw) -> bm_spec ext h m v m' ->
  str_at m cb cmd -> Bytes.nonul cmd -> find_byte 33 cmd = None ->
  exec (callx ext cprog fuel (S (S (S d)))) fuel' ec_buffer_sw (mkst (l0 :: VPtr cb 0 :: ltl) m)
  = if v =? 0 then exec (callx ext cprog fuel (S (S (S d)))) fuel' (SExpr (ECall F_bufs_switch [ELocal 10])) (mkst (l0 :: VPtr cb 0 :: ltl) m')
    else OReturn (VInt 1) (mkst (l0 :: VPtr cb 0 :: ltl) m').
Proof. exact tr_ec_buffer_guard. Qed.
Print Assumptions C02_tr_guard_buffer.

(* not vacuous, and the translated ec_quit RUNS.  A table with three open buffers a, b, c (slots 0, 1, 2; 13 empty slots), their structs in the
   blocks B, B+1, B+2 behind the program's globals (counter 5, empty log, saved at sequence 2 = clean; the third one in `mem_of 1` saved at
   1 = modified), the command string "q" in block B+6; the oracle ext0 answers ex_show and reg_put by leaving the memory alone and nothing else.
   The hypotheses of the theorems above hold of it (heap_at, sep, heap_tab with DirtyDefs' table); the model says: refuse, slot 2.
   RUN with the third buffer modified: ec_quit returns 0, xquit stays 0, the table is rotated -- the lb pointers of slots 0 1 2 are now those of
   c a b --, the counters are 7 (a: asked, then left by bufs_switch), 6, 6, one block (bufs_switch's tmp) was allocated.
   RUN with all three clean: 0, xquit = 1, the table as it was, every counter 6.  RUN of q! on the modified table: xquit = 1, no counter moves. *)
Example C02_tr_quit_nonvacuous :
  let B0 := length cglobals in
  let ext0 : nat -> list val -> mem -> res (val * mem) :=
    fun f _ m => if Nat.eqb f X_ex_show || Nat.eqb f X_reg_put then Ok (VUndef, m) else Err EShape in
  let sblk (uz : Z) : block := repeat (VInt (-1)) 32%nat ++ repeat (VInt 0) 32%nat ++
    [VInt 0; VInt 0; VInt 0; VInt 0; VInt 5; VInt 0; VInt 0; VInt 0; VInt 0; VInt uz; VInt 2] in
  let slb (uz : Z) : lbuf := {| ln := []; hist := []; hist_u := 0; hist_sz := 0; useq := 5; useq_zero := uz; useq_last := 2 |} in
  let cslot_k (k : nat) : cslot :=
    mkcs (repeat (VInt 0) 32%nat) (VPtr (B0 + 3 + k)%nat 0) (VPtr (B0 + k)%nat 0) (Z.of_nat k) 0 0 0 (Z.of_nat k + 1) 1 0 in
  let T0 : list cslot := [cslot_k 0%nat; cslot_k 1%nat; cslot_k 2%nat] ++ repeat cs_zero 13%nat in
  let mem_of (uz2 : Z) (c : list Z) : mem := upd cglobals G_bufs (tab_cells T0) ++
    [sblk 2; sblk 2; sblk uz2; cstr_block [97]; cstr_block [98]; cstr_block [99]; cstr_block c] in
  let hp0 (uz2 : Z) : list (option hent) :=
    [Some (B0, sblk 2, slb 2); Some (S B0, sblk 2, slb 2); Some (S (S B0), sblk uz2, slb uz2)] ++ repeat None 13%nat in
  let Tm (uz2 : Z) : table := [Some {| lb := slb 2; disk := [] |}; Some {| lb := slb 2; disk := [] |}; Some {| lb := slb uz2; disk := [[120; 10]%N] |}]
                              ++ repeat None 13%nat in
  let run uz2 c := callx ext0 cprog 20%nat 6%nat F_ec_quit [VInt 0; VPtr (B0 + 6)%nat 0; VPtr G_lit__0 0; VInt 0] (mem_of uz2 c) in
  let cell (m : mem) (b i : nat) := match nth_error m b with Some blk => nth_error blk i | None => None end in
  let lbs (m : mem) := map (fun k => cell m G_bufs (41 * k + 33)%nat) [0; 1; 2; 3]%nat in
  let useqs (m : mem) := map (fun k => cell m (B0 + k)%nat L_useq) [0; 1; 2]%nat in
  tab_at (mem_of 1 [113]) T0 /\ tab_ok T0 /\ heap_at 2147483646 (mem_of 1 [113]) T0 (hp0 1) /\ sep (RES (B0 + 6)%nat) (hp0 1) /\
  heap_tab (hp0 1) (Tm 1) /\ snd (ec_quit_tab false (Tm 1)) = false /\ snd (cq (hp0 1) 0%nat (mem_of 1 [113])) = Some 2%nat /\
  snd (ec_quit_tab false (Tm 2)) = true /\ snd (cq (hp0 2) 0%nat (mem_of 2 [113])) = None /\
  match run 1 [113] with
  | Ok (v, m') => v = VInt 0 /\ nth_error m' G_xquit = Some [VInt 0] /\
                  lbs m' = [Some (VPtr (B0 + 2)%nat 0); Some (VPtr B0 0); Some (VPtr (B0 + 1)%nat 0); Some (VInt 0)] /\
                  useqs m' = [Some (VInt 7); Some (VInt 6); Some (VInt 6)] /\ length m' = S (length (mem_of 1 [113]))
  | Err _ => False
  end /\
  match run 2 [113] with
  | Ok (v, m') => v = VInt 0 /\ nth_error m' G_xquit = Some [VInt 1] /\
                  lbs m' = [Some (VPtr B0 0); Some (VPtr (B0 + 1)%nat 0); Some (VPtr (B0 + 2)%nat 0); Some (VInt 0)] /\
                  useqs m' = [Some (VInt 6); Some (VInt 6); Some (VInt 6)] /\ length m' = length (mem_of 2 [113])
  | Err _ => False
  end /\
  run 1 [113; 33] = Ok (VInt 0, upd (mem_of 1 [113; 33]) G_xquit [VInt 1]).
Proof.
  cbv zeta. set (B0 := length cglobals). vm_compute in B0. subst B0.
  split; [reflexivity|]. split; [split; [reflexivity|repeat constructor]|].
  split.
  { unfold heap_at.
    assert (Hs : forall m cs bl uz, cs_lb cs = VPtr bl 0 ->
              nth_error m bl = Some (repeat (VInt (-1)) 32%nat ++ repeat (VInt 0) 32%nat ++ [VInt 0; VInt 0; VInt 0; VInt 0; VInt 5; VInt 0; VInt 0; VInt 0; VInt 0; VInt uz; VInt 2]) ->
              -2147483648 <= uz <= 2147483647 ->
              slot_heap 2147483646 m cs (Some (bl, repeat (VInt (-1)) 32%nat ++ repeat (VInt 0) 32%nat ++ [VInt 0; VInt 0; VInt 0; VInt 0; VInt 5; VInt 0; VInt 0; VInt 0; VInt 0; VInt uz; VInt 2],
                                                  {| ln := []; hist := []; hist_u := 0; hist_sz := 0; useq := 5; useq_zero := uz; useq_last := 2 |}))).
    { intros m cs bl uz Hc Hb Hu. split; [exact Hc|]. split; [constructor; try reflexivity; [exact Hb|intro H; exfalso; apply H; reflexivity]|].
      split; [unfold lbuf_ints, i32; cbn; repeat split; try lia; constructor|cbn; lia]. }
    repeat (apply Forall2_cons; [first [apply Hs; [reflexivity|reflexivity|lia] | reflexivity]|]). apply Forall2_nil. }
  split.
  { split; [repeat constructor; cbn; intuition discriminate|]. split.
    - intros b Hb. vm_compute in Hb. vm_compute. intuition (subst; discriminate).
    - intros bl blk lb0 bh Hin Hp. exfalso. cbn [app repeat In] in Hin.
      repeat (destruct Hin as [E|Hin]; [first [discriminate E | injection E as <- <- <-; vm_compute in Hp; discriminate Hp]|]). exact Hin. }
  split; [repeat (apply Forall2_cons; [cbn; try reflexivity; exact I|]); apply Forall2_nil|].
  vm_compute. repeat split.
Qed.
End C02_translated_guards.

(* ------------------------------------------------------------------------------------------ *)
(* ec_write AND THE BUFFER'S NAME (after fix 268c549).  DirtyDefs.nbuf = a buffer with its name (None = the unnamed buffer of an
   editor started without a file name); DirtyDefs.ec_write_named = what ec_write does to name and saved state by target: a PIPE
   (`w !cmd`) changes nothing -- it is not adopted as a name and is never the own path --, no argument = the own path (fails for
   the unnamed buffer), a path = adopted by the unnamed buffer, then the own-path tail (lbuf_saved for the whole buffer,
   lbuf_unsaved for a part), or a write elsewhere.  Histories DirtyDefs.nop: edits, command boundaries, undo, redo, reloads (of a
   buffer that has a name), writes by target. *)
Theorem C02_pipe_write_neutral : forall (f : nbuf) (b en : nat), ec_write_named WPipe b en f = (f, false).
Proof. exact pipe_write_neutral. Qed.
Print Assumptions C02_pipe_write_neutral.

(* over ALL histories from either start: clean => text = ghost disk; a buffer without a name has nothing on disk; a write to a
   pipe leaves name, text, log, undo position, ghost disk and flag unchanged *)
Theorem C02_named_history_sound : forall (f0 : nbuf) (ops : list nop), nstart f0 -> let f := nrun f0 ops in
  (dirty_flag (nb f) = false -> ln (lb (nb f)) = disk (nb f)) /\
  (nname f = None -> disk (nb f) = []) /\
  forall b en, let f' := nrun_op f (NWrite WPipe b en) in
    nname f' = nname f /\ content (nb f') = content (nb f) /\ dirty_flag (nb f') = dirty_flag (nb f) /\ disk (nb f') = disk (nb f).
Proof. exact named_history_sound. Qed.
Print Assumptions C02_named_history_sound.

(* the repaired behaviour: after ANY history of an editor started without a file name, a buffer that still has no name and holds
   some text is reported modified, also after writing it to a pipe; :q over any table holding it and the guard of :e / :b refuse *)
Theorem C02_unnamed_pipe_quit : forall (ops : list nop) (b en : nat) (pre post : list ebuf), let f := nrun nbuf_new ops in
  nname f = None -> ln (lb (nb f)) <> [] ->
  let f' := nrun_op f (NWrite WPipe b en) in
  nname f' = None /\ ln (lb (nb f')) = ln (lb (nb f)) /\ dirty_flag (nb f') = true /\
  snd (ec_quit false (pre ++ nb f' :: post)) = false /\ snd (guard_current false (nb f' :: post)) = true.
Proof. exact unnamed_pipe_quit. Qed.
Print Assumptions C02_unnamed_pipe_quit.

(* not vacuous -- the repro of the finding: no file name; a foo; :w !cat: no name, flag on, :q refused; :w (no argument) fails and
   changes nothing; :w 7 (a path) names the buffer, ghost disk foo, flag off, :q exits; a pipe write after that changes nothing; a
   partial write :1w 7 of a two-line buffer to its own name leaves the flag on *)
Example C02_pipe_write_nonvacuous :
  let foo := [102; 111; 111; 10]%N in
  let f1 := nrun nbuf_new [NEdit (Some foo) 0 0; NBump; NWrite WPipe 0 1; NBump] in
  let f2 := nrun f1 [NWrite (WPath 7) 0 1; NBump] in
  let f3 := nrun f2 [NEdit (Some foo) 1 1; NBump; NWrite (WPath 7) 0 1; NBump] in
  nname f1 = None /\ dirty_flag (nb f1) = true /\ snd (ec_quit false [nb f1]) = false /\
  ec_write_named WOwn 0 1 f1 = (f1, true) /\
  nname f2 = Some 7%nat /\ dirty_flag (nb f2) = false /\ disk (nb f2) = [foo] /\ snd (ec_quit false [nb f2]) = true /\
  nrun_op f2 (NWrite WPipe 0 1) = f2 /\
  dirty_flag (nb f3) = true /\ disk (nb f3) = [foo] /\ ln (lb (nb f3)) = [foo; foo].
Proof. vm_compute. repeat split. Qed.

(* ================================================================================================================== *)
(* Round i/j: EVERY quit form over a table of buffers with or without a NAME (DirtyAllDefs.v: ec_quit_n = ec_quit of ex.c for q,
   wq, x, xa, each with or without `!`, any argument of the write part; the `a` forms hand every occupied slot to lbuf_save; what a
   save of a path answers is the environment's, one boolean per call; a slot with the empty path cannot be created, ever) *)
From NV Require Import DirtyAllDefs DirtyAllProps.

(* for ALL tables (any length, any occupancy, named and unnamed buffers, each in a state with the invariant of its history), every
   quit form without `!` and xa! too, any target of the write part, any answers of the environment: IF the editor exits THEN every
   buffer's file holds that buffer's text (the buffer was clean, or it has just been written successfully), no buffer without a
   name holds text, and the texts are the ones the buffers had *)
Theorem C02_quit_all_forms_sound : forall (c : qcmd) (bang : bool) (t : wtarget) (tab : ntable) (sch : list bool)
    (t' : ntable) (cl : list (option nat)) (s' : list bool),
  (bang = false \/ q_all c = true) -> Forall NInv (noccupied tab) ->
  ec_quit_n c bang t tab sch = (t', true, cl, s') ->
  length t' = length tab /\
  Forall (fun f => ln (lb (nb f)) = disk (nb f)) (noccupied t') /\
  Forall (fun f => nname f = None -> ln (lb (nb f)) = []) (noccupied t') /\
  map (fun f => ln (lb (nb f))) (noccupied t') = map (fun f => ln (lb (nb f))) (noccupied tab).
Proof. exact quit_all_forms_sound. Qed.
Print Assumptions C02_quit_all_forms_sound.

(* in particular: while a buffer without a name that is not the current one holds text, none of these forms exits -- whatever the
   other buffers are, wherever it sits, whatever the saves answer *)
Theorem C02_unnamed_text_no_exit : forall (c : qcmd) (bang : bool) (t : wtarget) (tab : ntable) (sch : list bool) (f : nbuf),
  (bang = false \/ q_all c = true) -> Forall NInv (noccupied tab) ->
  In (Some f) (tl tab) -> nname f = None -> ln (lb (nb f)) <> [] ->
  snd (fst (fst (ec_quit_n c bang t tab sch))) = false.
Proof. exact unnamed_text_no_exit. Qed.
Print Assumptions C02_unnamed_text_no_exit.

(* the loop of the `a` forms: if it exits, the names handed to lbuf_save are those of ALL occupied slots in slot order -- no slot
   skipped --, every slot has a name, every file holds its buffer's text, one answer of the environment was used per slot *)
Theorem C02_xa_every_slot_saved : forall (bang : bool) (tab : ntable) (sch : list bool) (t' : ntable) (cl : list (option nat)) (s' : list bool),
  Forall NInv (noccupied tab) ->
  quit_n true bang [] tab sch [] = (t', true, cl, s') ->
  cl = map nname (noccupied tab) /\ Forall (fun f => nname f <> None) (noccupied tab) /\
  Forall (fun f => ln (lb (nb f)) = disk (nb f)) (noccupied t') /\
  map (fun f => ln (lb (nb f))) (noccupied t') = map (fun f => ln (lb (nb f))) (noccupied tab) /\
  (length (noccupied tab) <= length sch -> s' = skipn (length (noccupied tab)) sch).
Proof. exact xa_every_slot_saved. Qed.
Print Assumptions C02_xa_every_slot_saved.

(* and one save that fails, of whichever slot, stops the quit *)
Theorem C02_xa_failed_save_no_exit : forall (bang : bool) (tab : ntable) (sch : list bool) (k : nat),
  nth_error sch k = Some false -> (k < length (noccupied tab))%nat ->
  snd (fst (fst (quit_n true bang [] tab sch []))) = false.
Proof. exact xa_failed_save_no_exit. Qed.
Print Assumptions C02_xa_failed_save_no_exit.

(* the behaviour repaired by 37c81b2 (the finding of round j: before it a REFUSED :xa had written the buffers in front of the refusing slot
   without recording it -- after one `u` such a buffer reported clean while its file held the newer text, and :q exited).  On the model, the
   history of the finding: g (current, clean), f (its file holds `foo`; the text was changed to `bar`), the unnamed start-up buffer.  :xa writes
   g and f and is refused at the unnamed slot; f is reported clean and its file holds its text; one `u` in f: reported MODIFIED (text `foo`,
   file `bar`), and :q over [f; unnamed buffer; g] is refused *)
Theorem C02_xa_refused_records_saves :
  exists (tab : ntable) (f' : nbuf),
    Forall NInv (noccupied tab) /\
    let '(t', q, _, _) := ec_quit_n CXa false WOwn tab [] in
    q = false /\ nth_error t' 2 = Some (Some f') /\ nname f' = Some 1%nat /\ dirty_flag (nb f') = false /\ ln (lb (nb f')) = disk (nb f') /\
    let f'' := nrun f' [NUndo; NBump] in
    dirty_flag (nb f'') = true /\ ln (lb (nb f'')) <> disk (nb f'') /\
    snd (fst (fst (ec_quit_n CQ false WOwn (Some f'' :: firstn 2 t') []))) = false.
Proof. exact xa_refused_records_saves. Qed.
Print Assumptions C02_xa_refused_records_saves.
(* a successful save of the loop keeps the invariant of the buffer's history: the histories that follow a refused :xa are covered by
   C02_named_history_sound again *)
Theorem C02_xa_written_inv : forall f, nname f <> None -> NInv f -> NInv (written f).
Proof. exact written_inv. Qed.
Print Assumptions C02_xa_written_inv.

(* not vacuous: the same table without the unnamed buffer exits with both files holding the texts (names 2 and 1 handed to lbuf_save);
   with the unnamed buffer holding text in slot 2: xa and xa! are refused and that buffer becomes the current one, q stops at the
   modified f; with the EMPTY, untouched unnamed buffer xa is refused all the same (more refusal, never less) while q / x exit
   once f is written; a failing save of f stops xa *)
Example C02_quit_all_nonvacuous :
  let foo := [102; 111; 111; 10]%N in let bar := [98; 97; 114; 10]%N in
  let g := nbuf_open foo 2 in
  let f := nrun (nbuf_open foo 1) [NBump; NEdit (Some bar) 0 1; NBump] in
  let fw := nrun f [NWrite WOwn 0 1; NBump] in
  let u := nrun nbuf_new [NBump; NEdit (Some foo) 0 0; NBump] in
  (let '(t', q, cl, _) := ec_quit_n CXa false WOwn [Some g; Some f; None] [] in
     q = true /\ cl = [Some 2%nat; Some 1%nat] /\ map (fun x => disk (nb x)) (noccupied t') = [[foo]; [bar]]) /\
  (let '(t', q, cl, _) := ec_quit_n CXa false WOwn [Some g; Some f; Some u] [] in
     q = false /\ cl = [Some 2%nat; Some 1%nat; None] /\ map nname (noccupied t') = [None; Some 2%nat; Some 1%nat]) /\
  snd (fst (fst (ec_quit_n CXa true WOwn [Some g; Some f; Some u] []))) = false /\
  (let '(t', q, _, _) := ec_quit_n CQ false WOwn [Some g; Some f; Some u] [] in
     q = false /\ map nname (noccupied t') = [Some 1%nat; Some 2%nat; None]) /\
  snd (fst (fst (ec_quit_n CXa false WOwn [Some g; Some fw; Some nbuf_new] []))) = false /\
  snd (fst (fst (ec_quit_n CQ false WOwn [Some g; Some fw; Some nbuf_new] []))) = true /\
  snd (fst (fst (ec_quit_n CX false WOwn [Some g; Some fw; Some nbuf_new] []))) = true /\
  snd (fst (fst (ec_quit_n CXa false WOwn [Some g; Some f; None] [true; false]))) = false.
Proof. vm_compute. repeat split. Qed.

(* ================================================================================================================== *)
(* Round i/j, translation tie: the `a` forms of ec_quit (xa, xa!) on the translated C text of /repo 37c81b2 (coq/TrQuitAll.v, continuing
   TrQuit.v) *)
From NV Require TrQuitAll.
Section C02_translated_quit_all.
Import CLite CLiteProps GenCFuncs CLiteTac CLiteExt TrLbufBase TrLbuf TrBufs TrQuit TrQuitAll.
Local Open Scope Z_scope.

(* for EVERY table and EVERY environment: TrQuitAll.arun ext cb cmd d fuel n i t m acc o is the run of the loop from slot i on: an empty
   slot is stepped over; an occupied slot is handed to the oracle lbuf_save with save_args = (lb, 0, -1, path, !!strchr(cmd, '!'), mtime) on
   the current memory -- also a slot whose path is the empty string: the C text has no test of the path --; a message ends the run (AFail i
   message); NULL: the translated lbuf_saved(lb, 0) runs, the oracle mtime(path) is stored into the slot's mtime cell (set_cs_mtime: nothing
   else of the table changes) and the run goes on with that table and memory; the environment's calls leave the table and the command string
   in place, nothing else is assumed of them.  Then ec_quit, after its write part: all 16 slots done -> xquit = 1 stored, 0 returned;
   AFail j message -> bufs_switch(j), ex_show(message), 0 returned, xquit NOT stored *)
Theorem C02_tr_ec_quit_all : forall ext m mw t cb cmd loc arg txt q0 ka o d fuel, str_at m cb cmd -> Bytes.nonul cmd -> ptr_val arg ->
  write_part ext cb cmd arg m 0 mw ->
  tab_at mw t -> tab_ok t -> lbs_ok t -> paths_ok t -> str_at mw cb cmd ->
  find_byte 97 cmd = Some ka -> (16 < fuel)%nat ->
  arun ext cb cmd d fuel 16 0 t mw [] o ->
  match o with
  | ADone t' m' _ => cell_at m' G_xquit q0 ->
      callx ext cprog fuel (S (S (S (S d)))) F_ec_quit [loc; VPtr cb 0; arg; txt] m = Ok (VInt 0, upd m' G_xquit [VInt 1])
  | AFail j r t' m2 _ => forall u2 m3 u1 m', callx ext cprog fuel (S (S (S d))) F_bufs_switch [VInt (Z.of_nat j)] m2 = Ok (u2, m3) ->
      ext X_ex_show [r] m3 = Ok (u1, m') ->
      callx ext cprog fuel (S (S (S (S d)))) F_ec_quit [loc; VPtr cb 0; arg; txt] m = Ok (VInt 0, m')
  end.
Proof. exact tr_ec_quit_all. Qed.
Print Assumptions C02_tr_ec_quit_all.

(* what a run says -- no slot is skipped: when the loop ends normally the slots whose save answered NULL (each then marked saved, its
   mtime refreshed) are ALL the occupied slots, in slot order, and the occupancy of the table is what it was; when slot j's save answered a
   message (not NULL) the slots saved are exactly the occupied slots in front of j *)
Theorem C02_tr_quit_all_saved : forall ext cb cmd d fuel n i t m acc o, (i + n = 16)%nat -> length t = 16%nat ->
  arun ext cb cmd d fuel n i t m acc o ->
  let occs := filter (occ t) (List.seq i n) in
  match o with
  | ADone t' _ sv => sv = rev acc ++ occs /\ (forall k, occ t' k = occ t k)
  | AFail j r _ _ sv => exists pre post, occs = pre ++ j :: post /\ sv = rev acc ++ pre /\ is_null r = false
  end.
Proof. exact arun_saved. Qed.
Print Assumptions C02_tr_quit_all_saved.

(* not vacuous, and the translated ec_quit RUNS on "xa".  The table of C02_tr_quit_nonvacuous (three buffers a b c, structs in the blocks
   behind the globals), the path of the third one is the EMPTY string in `mem_of true`, "c" in `mem_of false`.  The oracle: ec_write answers
   0, ex_show / reg_put leave the memory, mtime answers 77, lbuf_save answers a message (block B+7) exactly when the path it is given is the
   empty string, NULL otherwise.  RUN with the unnamed buffer: 0 returned, xquit stays 0, the table is rotated (slot 0 is now c's struct):
   refused although no buffer is modified.  RUN with all three named: xquit = 1 and the mtime cell of slot 0 holds 77. *)
Example C02_tr_quit_all_nonvacuous :
  let B0 := length cglobals in
  let empty_path (m : mem) (v : val) : bool :=
    match v with VPtr pb _ => match nth_error m pb with Some (VInt 0 :: _) => true | _ => false end | _ => false end in
  let ext1 : nat -> list val -> mem -> res (val * mem) :=
    fun f args m =>
      if Nat.eqb f X_ex_show || Nat.eqb f X_reg_put then Ok (VUndef, m)
      else if Nat.eqb f X_ec_write then Ok (VInt 0, m)
      else if Nat.eqb f X_mtime then Ok (VInt 77, m)
      else if Nat.eqb f X_lbuf_save then Ok ((if empty_path m (nth 3 args VUndef) then VPtr (B0 + 7)%nat 0 else VInt 0), m)
      else Err EShape in
  let sblk : block := repeat (VInt (-1)) 32%nat ++ repeat (VInt 0) 32%nat ++
    [VInt 0; VInt 0; VInt 0; VInt 0; VInt 5; VInt 0; VInt 0; VInt 0; VInt 0; VInt 2; VInt 2] in
  let cslot_k (k : nat) : cslot :=
    mkcs (repeat (VInt 0) 32%nat) (VPtr (B0 + 3 + k)%nat 0) (VPtr (B0 + k)%nat 0) (Z.of_nat k) 0 0 0 (Z.of_nat k + 1) 1 0 in
  let T0 : list cslot := [cslot_k 0%nat; cslot_k 1%nat; cslot_k 2%nat] ++ repeat cs_zero 13%nat in
  let mem_of (unnamed : bool) : mem := upd cglobals G_bufs (tab_cells T0) ++
    [sblk; sblk; sblk; cstr_block [97]; cstr_block [98]; cstr_block (if unnamed then [] else [99]); cstr_block [120; 97]; cstr_block [101]] in
  let run unnamed := callx ext1 cprog 20%nat 6%nat F_ec_quit [VInt 0; VPtr (B0 + 6)%nat 0; VPtr G_lit__0 0; VInt 0] (mem_of unnamed) in
  let cell (m : mem) (b i : nat) := match nth_error m b with Some blk => nth_error blk i | None => None end in
  let lbs (m : mem) := map (fun k => cell m G_bufs (41 * k + 33)%nat) [0; 1; 2; 3]%nat in
  tab_at (mem_of true) T0 /\ tab_ok T0 /\ lbs_ok T0 /\
  match run true with
  | Ok (v, m') => v = VInt 0 /\ nth_error m' G_xquit = Some [VInt 0] /\
                  lbs m' = [Some (VPtr (B0 + 2)%nat 0); Some (VPtr B0 0); Some (VPtr (B0 + 1)%nat 0); Some (VInt 0)]
  | Err _ => False
  end /\
  match run false with
  | Ok (v, m') => v = VInt 0 /\ nth_error m' G_xquit = Some [VInt 1] /\ cell m' G_bufs 40%nat = Some (VInt 77) /\
                  lbs m' = [Some (VPtr B0 0); Some (VPtr (B0 + 1)%nat 0); Some (VPtr (B0 + 2)%nat 0); Some (VInt 0)]
  | Err _ => False
  end.
Proof.
  cbv zeta. set (B0 := length cglobals). vm_compute in B0. subst B0.
  split; [reflexivity|]. split; [split; [reflexivity|repeat constructor]|].
  split; [unfold lbs_ok; repeat (apply Forall_cons; [first [left; reflexivity | right; eexists; eexists; reflexivity]|]); apply Forall_nil|].
  vm_compute. repeat split.
Qed.
End C02_translated_quit_all.

(* the `a` loop of the C text against the model of round i/j.  `bad` = the paths the environment can never save to (the empty path of a
   buffer without a name: open("") fails, whatever the memory); a model table describes the C table (tab_rel: the same slots occupied, a
   buffer without a name sits in a slot whose path is `bad`).  For the C text: if the loop ends normally -- xquit is then stored --, every
   buffer of the model table has a name, the model's loop DirtyAllDefs.quit_n exits too, every buffer's file holds its text and the texts are
   the ones before *)
Section C02_translated_quit_all_model.
Import CLite CLiteProps GenCFuncs CLiteTac CLiteExt TrLbufBase TrLbuf TrBufs TrQuit TrQuitAll.
Theorem C02_tr_quit_all_exit_sound : forall ext cb cmd d fuel (bad : val -> Prop) t m t' m' sv bang tab,
  (forall args mm r m2, bad (nth 3 args VUndef) -> ext X_lbuf_save args mm = Ok (r, m2) -> is_null r = false) ->
  length t = 16%nat -> length tab = 16%nat -> tab_rel bad t 0 tab -> Forall NInv (noccupied tab) ->
  arun ext cb cmd d fuel 16 0 t m [] (ADone t' m' sv) ->
  Forall (fun f => nname f <> None) (noccupied tab) /\
  snd (fst (fst (quit_n true bang [] tab [] []))) = true /\
  let tm := fst (fst (fst (quit_n true bang [] tab [] []))) in
  Forall (fun f => ln (lb (nb f)) = disk (nb f)) (noccupied tm) /\
  map (fun f => ln (lb (nb f))) (noccupied tm) = map (fun f => ln (lb (nb f))) (noccupied tab).
Proof. exact tr_quit_all_exit_sound. Qed.
Print Assumptions C02_tr_quit_all_exit_sound.
End C02_translated_quit_all_model.

(* ------------------------------------------------------------------------------------------ *)
(* ec_write ON THE C TEXT: the saved mark and the buffer's name (coq/TrEcWrite.v, TrEcWriteCmd.v, TrEcWriteThm.v, TrEcWriteQuit.v; the
   whole function is C03_tr_ec_write in Properties_C03.v).  `adopts p path` is the condition of the translated
   `if (!ex_path()[0] && path[0] != '!')`, `same_str p path` that of `!strcmp(ex_path(), path)`, `saved_lb` what the translated
   lbuf_saved / lbuf_unsaved calls leave (proved on the C text in TrEcWrite.saved_ok through TrLbuf.tr_lbuf_saved_keep / tr_lbuf_unsaved). *)
From NV Require TrEcWrite TrEcWriteCmd TrEcWriteThm TrEcWriteQuit.
Section C02_translated_ec_write.
Import CLite CLiteProps GenCFuncs CLiteTac CLiteExt TrLbufBase TrLbuf TrEcWrite TrEcWriteCmd TrEcWriteThm.
Local Open Scope Z_scope.

(* fix 268c549 on the C text: the name is adopted exactly by a buffer without a name for a target that is not a pipe *)
Theorem C02_tr_adopts_iff : forall p path, adopts p path = true <-> p = [] /\ Bytes.nthb path 0 <> 33%N.
Proof. exact adopts_iff. Qed.
Print Assumptions C02_tr_adopts_iff.
Theorem C02_tr_adopts_pipe : forall p s, adopts p (33%N :: s) = false.
Proof. exact adopts_pipe. Qed.
Print Assumptions C02_tr_adopts_pipe.

(* a write to a pipe or to another path: behind snprintf / ex_show nothing is stored -- no lbuf_saved, no lbuf_unsaved, no mtime, no name:
   the buffer is exactly as modified as before *)
Theorem C02_tr_write_elsewhere_neutral : forall ext bl n bm qb path b e K (Q : Z -> mem -> Prop) m gb pb p blk lb,
  adopts p path = false -> same_str p path = false ->
  (tail_run ext bl n bm qb path b e K Q m gb pb p blk lb <->
   forall u1 m1 u2 m2, ext X_snprintf [VPtr bm 0; VInt 128; VPtr G_wmsg 0; VPtr qb 0; VInt (e - b)] m = Ok (u1, m1) -> same_on K m m1 ->
     ext X_ex_show [VPtr bm 0] m1 = Ok (u2, m2) -> same_on K m1 m2 -> Q 0 m2).
Proof. exact tail_run_elsewhere. Qed.
Print Assumptions C02_tr_write_elsewhere_neutral.

(* the saved mark the C text leaves IS DirtyDefs.write_own: lbuf_saved for the whole buffer, lbuf_unsaved for a part *)
Theorem C02_tr_saved_mark_model : forall (lb : lbuf) (dk : text) (b en : nat),
  saved_lb lb true (whole (Z.of_nat b) (Z.of_nat en) (Z.of_nat (length (ln lb)))) = DirtyDefs.lb (write_own {| DirtyDefs.lb := lb; disk := dk |} b en).
Proof. exact saved_lb_model. Qed.
Print Assumptions C02_tr_saved_mark_model.

(* the decisions of the C text against DirtyDefs.ec_write_named, for every injective numbering of the names: the name afterwards and the
   lbuf state are the model's (the model's failing case -- no argument on the buffer without a name -- is lbuf_save("") in the C text) *)
Theorem C02_tr_ec_write_model : forall (code : Bytes.bytes -> nat) (lb : lbuf) (dk : text) (p arg path : Bytes.bytes) (b en : nat),
  (forall x y, code x = code y -> x = y) -> (arg = [] -> path = p) -> path <> [] -> (Bytes.nthb p 0 <> 33%N) ->
  let f := {| nb := {| DirtyDefs.lb := lb; disk := dk |}; nname := name_of code p |} in
  let r := ec_write_named (target_of code arg path) b en f in
  snd r = false /\
  nname (fst r) = name_of code (name_after p path) /\
  DirtyDefs.lb (nb (fst r)) = saved_lb lb (same_str (name_after p path) path) (whole (Z.of_nat b) (Z.of_nat en) (Z.of_nat (length (ln lb)))).
Proof. exact tr_ec_write_model. Qed.
Print Assumptions C02_tr_ec_write_model.

(* wq / x: when the oracle of ec_quit for ec_write IS the run of the translated ec_write and that run reports failure, ec_quit returns 1
   with the memory ec_write left: xquit is not stored *)
Theorem C02_tr_ec_quit_write_linked : forall ext m cb cmd loc arg txt r mw d fuel D,
  str_at m cb cmd -> Bytes.nonul cmd -> TrBufs.ptr_val arg -> TrQuit.is_wx cmd = true ->
  ext X_ec_write [VPtr G_lit__0 0; VPtr cb 0; arg; VInt 0] m = callx ext cprog fuel D F_ec_write [VPtr G_lit__0 0; VPtr cb 0; arg; VInt 0] m ->
  callx ext cprog fuel D F_ec_write [VPtr G_lit__0 0; VPtr cb 0; arg; VInt 0] m = Ok (VInt r, mw) -> r <> 0 ->
  callx ext cprog fuel (S (S (S (S d)))) F_ec_quit [loc; VPtr cb 0; arg; txt] m = Ok (VInt 1, mw).
Proof. exact TrEcWriteQuit.tr_ec_quit_write_linked. Qed.
Print Assumptions C02_tr_ec_quit_write_linked.

(* the translated ec_write RUNS (vm_compute): `w !c` on the buffer without a name returns 0 and leaves the path cell, the mtime, the
   command counter and useq_zero as they were (the buffer stays modified); `w g` on it adopts the name and marks it saved *)
Example C02_tr_ec_write_runs :
  run_w (VInt 0) [] [119%N] [33%N; 99%N] [33%N; 99%N] = Some (0, Some (VPtr PB 0), Some (VInt 100), Some (VInt 5), Some (VInt 3)) /\
  run_w (VInt 0) [] [119%N] [103%N] [103%N] = Some (0, Some (VPtr (QX + 5) 0), Some (VInt 777), Some (VInt 6), Some (VInt 4)) /\
  run_w (VInt 0) [102%N] [120%N] [] [] = Some (0, Some (VPtr PB 0), Some (VInt 777), Some (VInt 7), Some (VInt 4)).
Proof. split; [exact run_w_pipe_unnamed|]. split; [exact run_w_adopt|exact run_x_modified]. Qed.
End C02_translated_ec_write.
