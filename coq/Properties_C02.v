(* Properties_C02.v -- C02: unsaved changes are never silently discarded.
   Statements only; every proof is `exact <lemma>`; Print Assumptions under each.
   Model: UndoDefs.v + DirtyDefs.v (lbuf_seq, lbuf_modified, lbuf_saved, lbuf_unsaved of /repo/lbuf.c;
   the saved-state tail of ec_write, the reload of ec_edit, the refusal logic of ec_quit and of the
   guard shared by ec_edit / ec_buffer / ec_exec / ec_make in /repo/ex.c, with xwa = xaw = 0).
   Ghost state: `disk`, the lines the buffer's file held when last read or last written whole. *)
From Coq Require Import List NArith ZArith Bool Permutation.
From NV Require Import GenConsts UndoDefs UndoProps DirtyDefs DirtyProps.
Import ListNotations.

(* for EVERY interleaving of edits, command boundaries, undo, redo, whole and partial writes to
   the own path, writes to other paths and reloads, on a buffer opened on any file content: when
   the dirty test reports clean, the text is exactly what the file holds *)
Theorem C02_clean_sound : forall (c : list N) (ops : list dop),
  let e := run_dops (ebuf_open c) ops in dirty_flag e = false -> ln (lb e) = disk e.
Proof. exact dirty_sound. Qed.
Print Assumptions C02_clean_sound.

(* right after a whole write or a reload the flag is off, and it is off again after any walk of
   undo / redo / command boundaries / writes elsewhere that returns to the saved position *)
Theorem C02_clean_complete : forall (e : ebuf) (o : dop) (ops : list dop),
  (o = DSaveWhole \/ exists c, o = DReload c) -> forallb is_walk ops = true ->
  let e1 := run_dop e o in let e2 := run_dops e1 ops in
  dirty_flag e1 = false /\ (hist_u (lb e2) = hist_u (lb e1) -> dirty_flag e2 = false).
Proof. exact dirty_complete. Qed.
Print Assumptions C02_clean_complete.

(* after a write of PART of the buffer to its own path the flag stays on along every undo/redo
   walk (the repaired behaviour: ec_write calls lbuf_unsaved) *)
Theorem C02_partial_write_dirty : forall (c : list N) (ops : list dop) (b en : nat) (walk : list dop),
  let e := run_dops (ebuf_open c) ops in
  (Nat.eqb b 0 && Nat.eqb en (length (ln (lb e))) = false) -> forallb is_walk walk = true ->
  dirty_flag (run_dops (run_dop e (DSaveOwn b en)) walk) = true.
Proof. exact partial_write_dirty. Qed.
Print Assumptions C02_partial_write_dirty.

(* :q without ! exits only when every open buffer equals its file *)
Theorem C02_quit_sound : forall bufs : list ebuf, Forall reachable bufs ->
  snd (ec_quit false bufs) = true -> Forall (fun b => ln (lb b) = disk b) bufs.
Proof. exact quit_sound_reachable. Qed.
Print Assumptions C02_quit_sound.

(* :q without ! with some buffer flagged: no exit, every buffer keeps text, history, undo position
   and file (the table is only reordered), and the current buffer is now a flagged one *)
Theorem C02_quit_refuse : forall (bufs : list ebuf) (b : ebuf), In b bufs -> dirty_flag b = true ->
  snd (ec_quit false bufs) = false /\
  Permutation (map content (fst (ec_quit false bufs))) (map content bufs) /\
  exists cur rest, fst (ec_quit false bufs) = cur :: rest /\ dirty_flag cur = true.
Proof. exact quit_refuses. Qed.
Print Assumptions C02_quit_refuse.

(* the guard of :e, :b, :!, :make without ! lets the command through only when the current
   buffer equals its file, and otherwise refuses leaving every buffer's content untouched *)
Theorem C02_guard_sound : forall (b : ebuf) (rest : list ebuf), reachable b ->
  snd (guard_current false (b :: rest)) = false -> ln (lb b) = disk b.
Proof. exact guard_sound_reachable. Qed.
Print Assumptions C02_guard_sound.

Theorem C02_guard_refuse : forall (b : ebuf) (rest : list ebuf), dirty_flag b = true ->
  snd (guard_current false (b :: rest)) = true /\
  map content (fst (guard_current false (b :: rest))) = map content (b :: rest).
Proof. exact guard_refuses. Qed.
Print Assumptions C02_guard_refuse.

(* not vacuous: edit, save, edit in the same command line (only the bump of lbuf_saved separates
   them), undo back to the saved text, a partial write, undo across it *)
Example C02_nonvacuous :
  let f := [97; 10; 98; 10]%N in
  let fl ops := dirty_flag (run_dops (ebuf_open f) ops) in
  fl [] = false /\ fl [DEdit (Some [120; 10]%N) 0 0] = true /\
  fl [DEdit (Some [120; 10]%N) 0 0; DSaveWhole] = false /\
  fl [DEdit (Some [120; 10]%N) 0 0; DSaveWhole; DEdit None 0 1] = true /\
  fl [DEdit (Some [120; 10]%N) 0 0; DSaveWhole; DEdit None 0 1; DBump; DUndo] = false /\
  fl [DEdit (Some [120; 10]%N) 0 0; DBump; DSaveOwn 0 1; DUndo] = true /\
  snd (ec_quit false [run_dops (ebuf_open f) []; run_dops (ebuf_open f) [DEdit None 0 1]]) = false.
Proof. vm_compute. repeat split. Qed.
