(* TrDrawRow.v -- C19: vi_drawrow, vi_drawagain, vi_drawupdate of vi.c on the translated C text, relative to the terminal kernel of
   TrDrawBase.v: the calls each function makes (the events appended to the log block) and what they do to the text rows of the window
   (DrawWinDefs.replay = the model of DrawDefs.v). *)
From Coq Require Import List ZArith NArith Bool Lia ZifyBool.
From NV Require Import Bytes CLite CLiteProps GenCFuncs CLiteTac CLiteExt TrLbufBase TermEmu DrawDefs DrawProps DrawWinDefs DrawWinProps TrDrawBase TrDrawWin.
Import ListNotations.
Local Open Scope Z_scope.

Lemma x_ex_filetype_ok ext m d fuel : callx ext cprog fuel (S d) F_ex_filetype [] m = Ok (VPtr G_bufs 0, m).
Proof. enterx F_ex_filetype cf_ex_filetype. xstep. reflexivity. Qed.

(* every global the drawing code loads holds an int *)
Definition v_ok (v : vst) : Prop := i32b (v_xrow v) /\ i32b (v_xtop v) /\ i32b (v_xoff v) /\ i32b (v_xleft v) /\ i32b (v_xhll v) /\ i32b (v_xhl v).

Section Row.
  Variable ext : nat -> list val -> mem -> res (val * mem).
  Variables (kl : nat) (h cols hl : Z).
  Hypothesis Hk : kernel_ok ext kl h cols hl.
  Variables (v : vst) (bl bln : nat) (lbs : list nat) (lines : list bytes) (ft : bytes) (d fuel : nat).
  Hypothesis Hv : v_ok v.

  Notation evs_of i := (drawrow_evs lines ft (v_xtop v) (v_xrow v) (v_xleft v) (v_xhll v) (v_xhl v) hl i).

  (* the text vi_drawrow hands to led_print: the line, or one of the two filler literals *)
  Lemma text_ptr m i : draw_mem m kl v bl bln lbs lines ft ->
    kstr m (match line_ptr lbs lines i with VInt 0 => (if i =? 0 then VPtr G_lit__0 0 else VPtr G_lit_7e_1 0) | p => p end) = Ok (row_text lines i).
  Proof.
    intros [_ _ _ _ _ _ Hb Ht He _ _ _ _]. destruct Hb as [_ _ _ Hlen Hs Hnn _]. unfold line_ptr, rowidx, row_text.
    destruct ((0 <=? i) && (i <? Z.of_nat (length lines))) eqn:E.
    - assert (Hi : (Z.to_nat i < length lines)%nat) by lia.
      apply kstr_str_at; [exact (Hs _ Hi)|]. rewrite Forall_forall in Hnn. apply Hnn. apply nth_In. exact Hi.
    - destruct (i =? 0); apply kstr_str_at; try assumption; repeat constructor; unfold byte_ok; lia.
  Qed.

  Definition dr_tail : stmt := match fn_body cf_vi_drawrow with SSeq _ (SSeq _ t) => t | _ => SSkip end.

  Lemma dr_tail_ok m lg i : draw_mem m kl v bl bln lbs lines ft -> log_at m kl lg -> i32b (i - v_xtop v) ->
    exec (callx ext cprog fuel (S (S d))) fuel dr_tail (mkst [VInt i; line_ptr lbs lines i] m) =
    ONormal (mkst [VInt i; line_ptr lbs lines i]
      (mlog m kl (lg ++ [TPrint (row_text lines i) (i - v_xtop v) (v_xleft v) (if v_xhl v =? 0 then [] else ft); TCtx 0]))).
  Proof.
    intros Hm Hl Hi. pose proof Hm as [H1 H2 H3 H4 H5 H6 Hb Ht He Hf Hkl _ _]. destruct Hv as (V1 & V2 & V3 & V4 & V5 & V6).
    pose proof (text_ptr m i Hm) as Htx.
    unfold dr_tail. cbn [fn_body cf_vi_drawrow]. xstep.
    set (sy := if v_xhl v =? 0 then [] else ft).
    set (e1 := TPrint (row_text lines i) (i - v_xtop v) (v_xleft v) sy).
    assert (Hctx : callx ext cprog fuel (S (S d)) X_syn_context [VInt 0] (mlog m kl (lg ++ [e1])) = Ok (VInt 0, mlog m kl (lg ++ [e1; TCtx 0]))).
    { rewrite callx_S, x_syn_context_none, (k_ctx _ _ _ _ _ Hk).
      rewrite (klog_ok _ kl (lg ++ [e1]) _ (log_at_mlog _ _ _ Hkl)). rewrite mlog_mlog by exact Hkl. rewrite <- app_assoc. reflexivity. }
    assert (Hfin : forall p q, kstr m p = Ok (row_text lines i) -> kstr m q = Ok sy ->
      ext X_led_print [p; VInt (i - v_xtop v); VInt (v_xleft v); q] m = Ok (VInt 0, mlog m kl (lg ++ [e1]))).
    { intros p q Hp Hq. rewrite (k_print _ _ _ _ _ Hk), Hp, Hq. cbn [bind]. apply klog_ok. exact Hl. }
    assert (Hq0 : v_xhl v = 0 -> kstr m (VPtr G_lit__0 0) = Ok sy).
    { intro E. unfold sy. rewrite E. apply kstr_str_at; [exact He|constructor]. }
    assert (Hq1 : v_xhl v <> 0 -> kstr m (VPtr G_bufs 0) = Ok sy).
    { intro E. unfold sy. destruct (Z.eqb_spec (v_xhl v) 0); [contradiction|exact Hf]. }
    destruct (line_ptr lbs lines i) as [|z|b o] eqn:Elp.
    - unfold line_ptr in Elp. destruct (rowidx lines i); discriminate.
    - assert (z = 0) by (unfold line_ptr in Elp; destruct (rowidx lines i); congruence). subst z.
      xstep. destruct (Z.eqb_spec i 0) as [E0|E0]; xauto Hk;
        (destruct (Z.eqb_spec (v_xhl v) 0) as [E1|E1]; xauto Hk; rewrite ?x_ex_filetype_ok; xstep;
         rewrite callx_S, x_led_print_none; [rewrite (Hfin _ _ Htx (Hq0 E1))|rewrite (Hfin _ _ Htx (Hq1 E1))]; xstep; rewrite Hctx; reflexivity).
    - xauto Hk.
      destruct (Z.eqb_spec (v_xhl v) 0) as [E1|E1]; xauto Hk; rewrite ?x_ex_filetype_ok; xstep;
         rewrite callx_S, x_led_print_none; [rewrite (Hfin _ _ Htx (Hq0 E1))|rewrite (Hfin _ _ Htx (Hq1 E1))]; xstep; rewrite Hctx; reflexivity.
  Qed.

  Definition dr_get : stmt := match fn_body cf_vi_drawrow with SSeq a _ => a | _ => SSkip end.
  Definition dr_hll : stmt := match fn_body cf_vi_drawrow with SSeq _ (SSeq a _) => a | _ => SSkip end.

  (* vi_drawrow(i): [syn_context(conf_hlline()) on the cursor line when xhll is set,] led_print(text of row i or the filler, i - xtop, xleft,
     file type), syn_context(0); nothing else in memory changes *)
  Theorem tr_vi_drawrow m lg i : draw_mem m kl v bl bln lbs lines ft -> log_at m kl lg -> i32b i -> i32b (i - v_xtop v) ->
    callx ext cprog fuel (S (S (S d))) F_vi_drawrow [VInt i] m = Ok (VUndef, mlog m kl (lg ++ evs_of i)).
  Proof.
    intros Hm Hl Ii Hi. pose proof Hm as [H1 H2 H3 H4 H5 H6 Hb Ht He Hf Hkl _ _]. pose proof Hv as (V1 & V2 & V3 & V4 & V5 & V6).
    assert (Hbody : fn_body cf_vi_drawrow = SSeq dr_get (SSeq dr_hll dr_tail)) by reflexivity.
    rewrite callx_S. cbn [nth_error cprog F_vi_drawrow]. change (fn_nparams cf_vi_drawrow) with 1%nat. change (fn_nlocals cf_vi_drawrow) with 2%nat.
    cbn [length Nat.eqb Nat.sub repeat app]. rewrite Hbody. rewrite exec_seq.
    assert (E1 : exec (callx ext cprog fuel (S (S d))) fuel dr_get (mkst [VInt i; VUndef] m) = ONormal (mkst [VInt i; line_ptr lbs lines i] m)).
    { unfold dr_get. cbn [fn_body cf_vi_drawrow]. xauto Hk. reflexivity. }
    rewrite E1. rewrite exec_seq. unfold drawrow_evs.
    assert (E2 : exec (callx ext cprog fuel (S (S d))) fuel dr_hll (mkst [VInt i; line_ptr lbs lines i] m) =
                 ONormal (mkst [VInt i; line_ptr lbs lines i] (mlog m kl (lg ++ (if negb (v_xhll v =? 0) && (i =? v_xrow v) then [TCtx hl] else []))))).
    { unfold dr_hll. cbn [fn_body cf_vi_drawrow]. xauto Hk.
      destruct (Z.eqb_spec (v_xhll v) 0) as [E|E]; xauto Hk.
      - rewrite app_nil_r, (mlog_self _ _ _ Hl). reflexivity.
      - destruct (Z.eqb_spec i (v_xrow v)) as [E'|E']; xauto Hk.
        + rewrite callx_S, x_conf_hlline_none, (k_hlline _ _ _ _ _ Hk). xstep.
          rewrite callx_S, x_syn_context_none, (k_ctx _ _ _ _ _ Hk), (klog_ok _ _ _ _ Hl). xstep. reflexivity.
        + rewrite app_nil_r, (mlog_self _ _ _ Hl). reflexivity. }
    rewrite E2.
    rewrite (dr_tail_ok _ _ i (draw_mem_mlog _ _ _ _ _ _ _ _ _ Hm) (log_at_mlog _ _ _ Hkl) Hi).
    rewrite mlog_mlog by exact Hkl. rewrite <- app_assoc. reflexivity.
  Qed.
End Row.

(* ------------------------------------------------------------------ vi_drawagain, vi_drawupdate *)
(* for (i = a; i < a + cnt; i++) if (row < 0 || i == row) vi_drawrow(i) *)
Fixpoint ag_evs (evs_of : Z -> list tev) (row a : Z) (cnt : nat) : list tev :=
  match cnt with O => [] | S c => (if (row <? 0) || (a =? row) then evs_of a else []) ++ ag_evs evs_of row (a + 1) c end.
Lemma ag_evs_all evs_of row cnt : row < 0 -> forall a, ag_evs evs_of row a cnt = range_evs evs_of a cnt.
Proof.
  intro Hr. induction cnt as [|c IH]; intro a; [reflexivity|]. cbn [ag_evs range_evs]. rewrite IH.
  destruct (Z.ltb_spec row 0); [reflexivity|lia].
Qed.
Lemma ag_evs_one evs_of row cnt : 0 <= row -> forall a, ag_evs evs_of row a cnt = if (a <=? row) && (row <? a + Z.of_nat cnt) then evs_of row else [].
Proof.
  intro Hr. induction cnt as [|c IH]; intro a; [cbn [ag_evs]; destruct (Z.leb_spec a row); destruct (Z.ltb_spec row (a + Z.of_nat 0)); try reflexivity; lia|].
  cbn [ag_evs]. rewrite IH. destruct (Z.ltb_spec row 0); [lia|]. cbn [orb].
  destruct (Z.eqb_spec a row) as [->|E].
  - destruct (Z.leb_spec (row + 1) row); [lia|]. cbn [andb]. rewrite app_nil_r.
    destruct (Z.leb_spec row row); [|lia]. destruct (Z.ltb_spec row (row + Z.of_nat (S c))); [reflexivity|lia].
  - cbn [app]. destruct (Z.leb_spec (a + 1) row); destruct (Z.leb_spec a row); destruct (Z.ltb_spec row (a + 1 + Z.of_nat c));
      destruct (Z.ltb_spec row (a + Z.of_nat (S c))); try reflexivity; lia.
Qed.

Section Loops.
  Variable ext : nat -> list val -> mem -> res (val * mem).
  Variables (kl : nat) (h cols hl : Z).
  Hypothesis Hk : kernel_ok ext kl h cols hl.
  Variables (v : vst) (bl bln : nat) (lbs : list nat) (lines : list bytes) (ft : bytes) (d fuel : nat).
  Hypothesis Hv : v_ok v.
  Variable m : mem.
  Hypothesis Hm : draw_mem m kl v bl bln lbs lines ft.
  Hypothesis Hh : 0 <= h.
  Hypothesis Ht : 0 <= v_xtop v.
  Hypothesis Hth : v_xtop v + h <= 2147483647.

  Notation evs_of := (drawrow_evs lines ft (v_xtop v) (v_xrow v) (v_xleft v) (v_xhll v) (v_xhl v) hl).
  Notation call := (callx ext cprog fuel (S (S (S d)))).

  Lemma drawrow_call lg i : i32b i -> i32b (i - v_xtop v) ->
    callx ext cprog fuel (S (S (S d))) F_vi_drawrow [VInt i] (mlog m kl lg) = Ok (VUndef, mlog m kl (lg ++ evs_of i)).
  Proof.
    intros H1 H2. pose proof (dm_kl _ _ _ _ _ _ _ _ Hm) as Hkl.
    rewrite (tr_vi_drawrow ext kl h cols hl Hk v bl bln lbs lines ft d fuel Hv (mlog m kl lg) lg i (draw_mem_mlog _ _ _ _ _ _ _ _ _ Hm) (log_at_mlog _ _ _ Hkl) H1 H2).
    rewrite mlog_mlog by exact Hkl. reflexivity.
  Qed.

  Definition ag_loop : stmt := match fn_body cf_vi_drawagain with SSeq (SSeq _ l) _ => l | _ => SSkip end.

  Lemma ag_loop_ok xcol row : forall cnt i lg fuel', i = v_xtop v + h - Z.of_nat cnt -> Z.of_nat cnt <= h -> (cnt < fuel')%nat ->
    exec call fuel' ag_loop (mkst [xcol; VInt row; VInt i] (mlog m kl lg)) =
    ONormal (mkst [xcol; VInt row; VInt (v_xtop v + h)] (mlog m kl (lg ++ ag_evs evs_of row i cnt))).
  Proof.
    pose proof Hv as (V1 & V2 & V3 & V4 & V5 & V6).
    induction cnt as [|c IH]; intros i lg fuel' Ei Hc Hf; (destruct fuel' as [|fuel']; [lia|]);
      pose proof (draw_mem_mlog _ _ _ _ _ _ _ _ lg Hm) as [H1 H2 H3 H4 H5 H6 Hb _ _ _ _ _ _];
      unfold ag_loop; cbn [fn_body cf_vi_drawagain]; rewrite exec_for; xauto Hk.
    - destruct (Z.ltb_spec i (v_xtop v + h)); [lia|]. xstep. cbn [ag_evs]. rewrite app_nil_r. repeat f_equal. lia.
    - destruct (Z.ltb_spec i (v_xtop v + h)); [|lia]. xstep.
      specialize (IH (i + 1)). unfold ag_loop in IH; cbn [fn_body cf_vi_drawagain] in IH. cbn [ag_evs].
      destruct (Z.ltb_spec row 0) as [L|L]; xstep.
      + rewrite drawrow_call by (unfold i32b in *; lia). xauto Hk. rewrite IH by lia. rewrite <- app_assoc. reflexivity.
      + destruct (Z.eqb_spec i row) as [E|E]; xstep.
        * rewrite drawrow_call by (unfold i32b in *; lia). xauto Hk. rewrite IH by lia. rewrite <- app_assoc. reflexivity.
        * xauto Hk. rewrite IH by lia. reflexivity.
  Qed.

  Definition ag_init : stmt := match fn_body cf_vi_drawagain with SSeq (SSeq a _) _ => a | _ => SSkip end.
  Definition ag_msg : stmt := match fn_body cf_vi_drawagain with SSeq _ a => a | _ => SSkip end.

  Lemma msg_call lg : callx ext cprog fuel (S (S (S d))) X_vi_drawmsg [] (mlog m kl lg) = Ok (VInt 0, mlog m kl (lg ++ [TMsg])).
  Proof.
    pose proof (dm_kl _ _ _ _ _ _ _ _ Hm) as Hkl.
    rewrite callx_S, x_vi_drawmsg_none, (k_msg _ _ _ _ _ Hk), (klog_ok _ _ lg _ (log_at_mlog _ _ _ Hkl)). rewrite mlog_mlog by exact Hkl. reflexivity.
  Qed.

  (* vi_drawagain(xcol, row): the rows xtop .. xtop + xrows - 1 in order, each once (row < 0) or the one row `row` when it is in the window,
     then vi_drawmsg() *)
  Theorem tr_vi_drawagain lg xcol row : log_at m kl lg -> (Z.to_nat h < fuel)%nat ->
    callx ext cprog fuel (S (S (S (S d)))) F_vi_drawagain [xcol; VInt row] m
    = Ok (VUndef, mlog m kl (lg ++ ag_evs evs_of row (v_xtop v) (Z.to_nat h) ++ [TMsg])).
  Proof.
    intros Hl Hf. pose proof Hm as [H1 H2 H3 H4 H5 H6 Hb _ _ _ Hkl _ _]. pose proof Hv as (V1 & V2 & V3 & V4 & V5 & V6).
    assert (Hbody : fn_body cf_vi_drawagain = SSeq (SSeq ag_init ag_loop) ag_msg) by reflexivity.
    rewrite callx_S. cbn [nth_error cprog F_vi_drawagain]. change (fn_nparams cf_vi_drawagain) with 2%nat. change (fn_nlocals cf_vi_drawagain) with 3%nat.
    cbn [length Nat.eqb Nat.sub repeat app]. rewrite Hbody. rewrite !exec_seq.
    assert (E1 : exec call fuel ag_init (mkst [xcol; VInt row; VUndef] m) = ONormal (mkst [xcol; VInt row; VInt (v_xtop v)] (mlog m kl lg))).
    { unfold ag_init. cbn [fn_body cf_vi_drawagain]. xauto Hk. rewrite (mlog_self _ _ _ Hl). reflexivity. }
    rewrite E1. rewrite (ag_loop_ok xcol row (Z.to_nat h) (v_xtop v) lg fuel) by lia.
    unfold ag_msg. cbn [fn_body cf_vi_drawagain]. xstep. rewrite msg_call. xstep. rewrite <- app_assoc. reflexivity.
  Qed.

  (* ---- vi_drawupdate *)
  Definition up_then : stmt := match fn_body cf_vi_drawupdate with SSeq _ (SSeq (SIf _ (SSeq _ (SSeq _ (SIf _ a _))) _) _) => a | _ => SSkip end.
  Definition up_else : stmt := match fn_body cf_vi_drawupdate with SSeq _ (SSeq (SIf _ (SSeq _ (SSeq _ (SIf _ _ a))) _) _) => a | _ => SSkip end.
  Definition up_loop1 : stmt := match up_then with SSeq _ (SSeq _ l) => l | _ => SSkip end.
  Definition up_loop2 : stmt := match up_else with SSeq _ (SSeq _ l) => l | _ => SSkip end.

  Lemma up_loop1_ok otop n l3 : 0 <= n <= h -> forall cnt i lg fuel', i = n - Z.of_nat cnt -> Z.of_nat cnt <= n -> (cnt < fuel')%nat ->
    exec call fuel' up_loop1 (mkst [otop; VInt i; VInt n; l3] (mlog m kl lg)) =
    ONormal (mkst [otop; VInt n; VInt n; l3] (mlog m kl (lg ++ range_evs evs_of (v_xtop v + h - n + i) cnt))).
  Proof.
    intro Hn. pose proof Hv as (V1 & V2 & V3 & V4 & V5 & V6).
    induction cnt as [|c IH]; intros i lg fuel' Ei Hc Hf; (destruct fuel' as [|fuel']; [lia|]);
      pose proof (draw_mem_mlog _ _ _ _ _ _ _ _ lg Hm) as [H1 H2 H3 H4 H5 H6 Hb _ _ _ _ _ _];
      unfold up_loop1, up_then; cbn [fn_body cf_vi_drawupdate]; rewrite exec_for; xauto Hk.
    - destruct (Z.ltb_spec i n); [lia|]. xstep. cbn [range_evs]. rewrite app_nil_r. repeat f_equal. lia.
    - destruct (Z.ltb_spec i n); [|lia]. xauto Hk.
      specialize (IH (i + 1)). unfold up_loop1, up_then in IH; cbn [fn_body cf_vi_drawupdate] in IH. cbn [range_evs].
      rewrite drawrow_call by (unfold i32b in *; lia). xauto Hk. rewrite IH by lia. rewrite <- app_assoc.
      replace (v_xtop v + h - n + i + 1) with (v_xtop v + h - n + (i + 1)) by lia. reflexivity.
  Qed.
  Lemma up_loop2_ok otop n l2 : 0 <= n <= h -> forall cnt i lg fuel', i = n - Z.of_nat cnt -> Z.of_nat cnt <= n -> (cnt < fuel')%nat ->
    exec call fuel' up_loop2 (mkst [otop; VInt i; l2; VInt n] (mlog m kl lg)) =
    ONormal (mkst [otop; VInt n; l2; VInt n] (mlog m kl (lg ++ range_evs evs_of (v_xtop v + i) cnt))).
  Proof.
    intro Hn. pose proof Hv as (V1 & V2 & V3 & V4 & V5 & V6).
    induction cnt as [|c IH]; intros i lg fuel' Ei Hc Hf; (destruct fuel' as [|fuel']; [lia|]);
      pose proof (draw_mem_mlog _ _ _ _ _ _ _ _ lg Hm) as [H1 H2 H3 H4 H5 H6 Hb _ _ _ _ _ _];
      unfold up_loop2, up_else; cbn [fn_body cf_vi_drawupdate]; rewrite exec_for; xauto Hk.
    - destruct (Z.ltb_spec i n); [lia|]. xstep. cbn [range_evs]. rewrite app_nil_r. repeat f_equal. lia.
    - destruct (Z.ltb_spec i n); [|lia]. xauto Hk.
      specialize (IH (i + 1)). unfold up_loop2, up_else in IH; cbn [fn_body cf_vi_drawupdate] in IH. cbn [range_evs].
      rewrite drawrow_call by (unfold i32b in *; lia). xauto Hk. rewrite IH by lia. rewrite <- app_assoc.
      replace (v_xtop v + i + 1) with (v_xtop v + (i + 1)) by lia. reflexivity.
  Qed.

  Lemma pos_call lg r c : callx ext cprog fuel (S (S (S d))) X_term_pos [VInt r; VInt c] (mlog m kl lg) = Ok (VInt 0, mlog m kl (lg ++ [TPos r c])).
  Proof.
    pose proof (dm_kl _ _ _ _ _ _ _ _ Hm) as Hkl.
    rewrite callx_S, x_term_pos_none, (k_pos _ _ _ _ _ Hk), (klog_ok _ _ lg _ (log_at_mlog _ _ _ Hkl)). rewrite mlog_mlog by exact Hkl. reflexivity.
  Qed.
  Lemma room_call lg n : callx ext cprog fuel (S (S (S d))) X_term_room [VInt n] (mlog m kl lg) = Ok (VInt 0, mlog m kl (lg ++ [TRoom n])).
  Proof.
    pose proof (dm_kl _ _ _ _ _ _ _ _ Hm) as Hkl.
    rewrite callx_S, x_term_room_none, (k_room _ _ _ _ _ Hk), (klog_ok _ _ lg _ (log_at_mlog _ _ _ Hkl)). rewrite mlog_mlog by exact Hkl. reflexivity.
  Qed.

  (* vi_drawupdate(otop): nothing but the message row when the top did not move; else term_pos(0, 0), term_room(otop - xtop), the
     min(|otop - xtop|, xrows) rows the scroll exposed -- at the bottom when the window moved down, at the top when it moved up --,
     then vi_drawmsg() *)
  Theorem tr_vi_drawupdate lg otop : log_at m kl lg -> (Z.to_nat h < fuel)%nat -> 0 <= otop <= 2147483647 ->
    callx ext cprog fuel (S (S (S (S d)))) F_vi_drawupdate [VInt otop] m
    = Ok (VUndef, mlog m kl (lg ++ update_evs evs_of h otop (v_xtop v))).
  Proof.
    intros Hl Hf Ho. pose proof Hv as (V1 & V2 & V3 & V4 & V5 & V6). pose proof (dm_kl _ _ _ _ _ _ _ _ Hm) as Hkl.
    rewrite <- (mlog_self _ _ _ Hl) at 1.
    pose proof (draw_mem_mlog _ _ _ _ _ _ _ _ lg Hm) as [H1 H2 H3 H4 H5 H6 Hb _ _ _ _ _ _].
    enterx F_vi_drawupdate cf_vi_drawupdate. unfold update_evs. xauto Hk.
    destruct (Z.eqb_spec otop (v_xtop v)) as [E|E]; xauto Hk.
    - rewrite msg_call. xstep. reflexivity.
    - rewrite pos_call. xauto Hk. clear H1 H2 H3 H4 H5 H6 Hb.
      pose proof (draw_mem_mlog _ _ _ _ _ _ _ _ (lg ++ [TPos 0 0]) Hm) as [H1 H2 H3 H4 H5 H6 Hb _ _ _ _ _ _]. xauto Hk.
      rewrite room_call. xauto Hk. clear H1 H2 H3 H4 H5 H6 Hb.
      pose proof (draw_mem_mlog _ _ _ _ _ _ _ _ ((lg ++ [TPos 0 0]) ++ [TRoom (otop - v_xtop v)]) Hm) as [H1 H2 H3 H4 H5 H6 Hb _ _ _ _ _ _]. xauto Hk.
      destruct (Z.ltb_spec otop (v_xtop v)) as [L|L]; xauto Hk.
      + match goal with |- context [exec ?c ?f (SFor ?a ?b ?s) ?st] => change (SFor a b s) with up_loop1 end.
        match goal with |- context [VInt (if ?b then ?x else ?y)] => replace (if b then x else y) with (Z.min (v_xtop v - otop) h) by zeq end.
        rewrite (up_loop1_ok (VInt otop) (Z.min (v_xtop v - otop) h) VUndef ltac:(lia) (Z.to_nat (Z.min (v_xtop v - otop) h)) 0) by lia.
        xstep. rewrite msg_call. xstep. rewrite <- !app_assoc. cbn [app]. rewrite Z.add_0_r. reflexivity.
      + match goal with |- context [exec ?c ?f (SFor ?a ?b ?s) ?st] => change (SFor a b s) with up_loop2 end.
        match goal with |- context [VInt (if ?b then ?x else ?y)] => replace (if b then x else y) with (Z.min (otop - v_xtop v) h) by zeq end.
        rewrite (up_loop2_ok (VInt otop) (Z.min (otop - v_xtop v) h) VUndef ltac:(lia) (Z.to_nat (Z.min (otop - v_xtop v) h)) 0) by lia.
        xstep. rewrite msg_call. xstep. rewrite <- !app_assoc. cbn [app]. rewrite Z.add_0_r. reflexivity.
  Qed.
End Loops.

(* ------------------------------------------------------------------ the invariant "text rows = window of the buffer at xtop" *)
Section Window.
  Variable ext : nat -> list val -> mem -> res (val * mem).
  Variables (kl : nat) (h cols hl : Z).
  Hypothesis Hk : kernel_ok ext kl h cols hl.
  Variables (v : vst) (bl bln : nat) (lbs : list nat) (lines : list bytes) (ft : bytes) (d fuel : nat).
  Hypothesis Hv : v_ok v.
  Variable m : mem.
  Hypothesis Hm : draw_mem m kl v bl bln lbs lines ft.
  Hypothesis Hh : 0 <= h.
  Hypothesis Ht : 0 <= v_xtop v.
  Hypothesis Hth : v_xtop v + h <= 2147483647.
  Notation f := (row_img lines ft (v_xrow v) (v_xleft v) (v_xhll v) (v_xhl v) hl).
  Notation H := (Z.to_nat h).

  (* vi_drawupdate(otop) run on the C text: the calls it logs turn a screen that shows the window at otop into the screen that shows the
     window at xtop -- for every old and new top --, and every led_print lands on a text row *)
  Theorem tr_drawupdate_window lg otop cur : log_at m kl lg -> (H < fuel)%nat -> 0 <= otop <= 2147483647 ->
    exists evs, callx ext cprog fuel (S (S (S (S d)))) F_vi_drawupdate [VInt otop] m = Ok (VUndef, mlog m kl (lg ++ evs)) /\
      s_rows (replay H (mkScr cur 0 (win rowimg f (Z.to_nat otop) H)) evs) = win rowimg f (Z.to_nat (v_xtop v)) H /\
      forallb (print_inside H) evs = true.
  Proof.
    intros Hl Hf Ho. eexists. split; [apply (tr_vi_drawupdate ext kl h cols hl Hk v bl bln lbs lines ft d fuel Hv m Hm Hh Ht Hth lg otop Hl Hf Ho)|].
    pose proof (update_keeps_window lines ft (v_xrow v) (v_xleft v) (v_xhll v) (v_xhl v) hl H cur (Z.to_nat otop) (Z.to_nat (v_xtop v))) as K.
    pose proof (replay_update lines ft (v_xrow v) (v_xleft v) (v_xhll v) (v_xhl v) hl H (mkScr cur 0 (win rowimg f (Z.to_nat otop) H)) (Z.to_nat otop) (Z.to_nat (v_xtop v)) eq_refl) as (_ & _ & K2).
    cbv zeta in K, K2. rewrite !Z2Nat.id in K, K2 by lia. split; assumption.
  Qed.
  (* vi_drawagain(xcol, -1): whatever the text rows showed, afterwards they show the window at xtop *)
  Theorem tr_drawagain_window lg xcol s : log_at m kl lg -> (H < fuel)%nat -> s_ctx s = 0 -> length (s_rows s) = H ->
    exists evs, callx ext cprog fuel (S (S (S (S d)))) F_vi_drawagain [xcol; VInt (-1)] m = Ok (VUndef, mlog m kl (lg ++ evs)) /\
      s_rows (replay H s evs) = win rowimg f (Z.to_nat (v_xtop v)) H.
  Proof.
    intros Hl Hf Hc Hlen. eexists. split; [apply (tr_vi_drawagain ext kl h cols hl Hk v bl bln lbs lines ft d fuel Hv m Hm Hh Ht Hth lg xcol (-1) Hl Hf)|].
    rewrite ag_evs_all by lia.
    pose proof (replay_again_all lines ft (Z.to_nat (v_xtop v)) (v_xrow v) (v_xleft v) (v_xhll v) (v_xhl v) hl H s Hc Hlen) as [K _].
    unfold again_evs in K. cbn [Z.ltb Z.compare] in K. rewrite Z2Nat.id in K by lia. exact K.
  Qed.
End Window.

