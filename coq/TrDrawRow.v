(* TrDrawRow.v -- C19: vi_drawrow, vi_drawagain, vi_drawupdate of vi.c on the translated C text, relative to the terminal kernel of
   TrDrawBase.v: the calls each function makes (the events appended to the log block) and what they do to the text rows of the window
   (DrawWinDefs.replay = the model of DrawDefs.v). *)
From Coq Require Import List ZArith NArith Bool Lia ZifyBool.
From NV Require Import Bytes CLite CLiteProps GenCFuncs CLiteTac CLiteExt TrLbufBase TermEmu DrawDefs DrawProps DrawWinDefs TrDrawBase TrDrawWin.
Import ListNotations.
Local Open Scope Z_scope.

Lemma x_ex_filetype_ok ext m d fuel : callx ext cprog fuel (S d) F_ex_filetype [] m = Ok (VPtr G_bufs 0, m).
Proof. enterx F_ex_filetype cf_ex_filetype. xstep. reflexivity. Qed.

(* every global the drawing code loads holds an int *)
Definition v_ok (v : vst) : Prop := i32b (v_xrow v) /\ i32b (v_xtop v) /\ i32b (v_xoff v) /\ i32b (v_xleft v) /\ i32b (v_xhll v) /\ i32b (v_xhl v).

Section Row.
  Variable ext : nat -> list val -> mem -> res (val * mem).
  Variables (kl : nat) (h cols hl : Z).
  Hypothesis Hk : kernel_ok ext kl h cols hl.
  Variables (v : vst) (bl bln : nat) (lbs : list nat) (lines : list bytes) (ft : bytes) (d fuel : nat).
  Hypothesis Hv : v_ok v.

  Notation evs_of i := (drawrow_evs lines ft (v_xtop v) (v_xrow v) (v_xleft v) (v_xhll v) (v_xhl v) hl i).

  (* the text vi_drawrow hands to led_print: the line, or one of the two filler literals *)
  Lemma text_ptr m i : draw_mem m kl v bl bln lbs lines ft ->
    kstr m (match line_ptr lbs lines i with VInt 0 => (if i =? 0 then VPtr G_lit__0 0 else VPtr G_lit_7e_1 0) | p => p end) = Ok (row_text lines i).
  Proof.
    intros [_ _ _ _ _ _ Hb Ht He _ _ _ _]. destruct Hb as [_ _ _ Hlen Hs Hnn _]. unfold line_ptr, rowidx, row_text.
    destruct ((0 <=? i) && (i <? Z.of_nat (length lines))) eqn:E.
    - assert (Hi : (Z.to_nat i < length lines)%nat) by lia.
      apply kstr_str_at; [exact (Hs _ Hi)|]. rewrite Forall_forall in Hnn. apply Hnn. apply nth_In. exact Hi.
    - destruct (i =? 0); apply kstr_str_at; try assumption; repeat constructor; unfold byte_ok; lia.
  Qed.

  Definition dr_tail : stmt := match fn_body cf_vi_drawrow with SSeq _ (SSeq _ t) => t | _ => SSkip end.

  Lemma dr_tail_ok m lg i : draw_mem m kl v bl bln lbs lines ft -> log_at m kl lg -> i32b (i - v_xtop v) ->
    exec (callx ext cprog fuel (S (S d))) fuel dr_tail (mkst [VInt i; line_ptr lbs lines i] m) =
    ONormal (mkst [VInt i; line_ptr lbs lines i]
      (mlog m kl (lg ++ [TPrint (row_text lines i) (i - v_xtop v) (v_xleft v) (if v_xhl v =? 0 then [] else ft); TCtx 0]))).
  Proof.
    intros Hm Hl Hi. pose proof Hm as [H1 H2 H3 H4 H5 H6 Hb Ht He Hf Hkl _ _]. destruct Hv as (V1 & V2 & V3 & V4 & V5 & V6).
    pose proof (text_ptr m i Hm) as Htx.
    unfold dr_tail. cbn [fn_body cf_vi_drawrow]. xstep.
    set (sy := if v_xhl v =? 0 then [] else ft).
    set (e1 := TPrint (row_text lines i) (i - v_xtop v) (v_xleft v) sy).
    assert (Hctx : callx ext cprog fuel (S (S d)) X_syn_context [VInt 0] (mlog m kl (lg ++ [e1])) = Ok (VInt 0, mlog m kl (lg ++ [e1; TCtx 0]))).
    { rewrite callx_S, x_syn_context_none, (k_ctx _ _ _ _ _ Hk).
      rewrite (klog_ok _ kl (lg ++ [e1]) _ (log_at_mlog _ _ _ Hkl)). rewrite mlog_mlog by exact Hkl. rewrite <- app_assoc. reflexivity. }
    assert (Hfin : forall p q, kstr m p = Ok (row_text lines i) -> kstr m q = Ok sy ->
      ext X_led_print [p; VInt (i - v_xtop v); VInt (v_xleft v); q] m = Ok (VInt 0, mlog m kl (lg ++ [e1]))).
    { intros p q Hp Hq. rewrite (k_print _ _ _ _ _ Hk), Hp, Hq. cbn [bind]. apply klog_ok. exact Hl. }
    assert (Hq0 : v_xhl v = 0 -> kstr m (VPtr G_lit__0 0) = Ok sy).
    { intro E. unfold sy. rewrite E. apply kstr_str_at; [exact He|constructor]. }
    assert (Hq1 : v_xhl v <> 0 -> kstr m (VPtr G_bufs 0) = Ok sy).
    { intro E. unfold sy. destruct (Z.eqb_spec (v_xhl v) 0); [contradiction|exact Hf]. }
    destruct (line_ptr lbs lines i) as [|z|b o] eqn:Elp.
    - unfold line_ptr in Elp. destruct (rowidx lines i); discriminate.
    - assert (z = 0) by (unfold line_ptr in Elp; destruct (rowidx lines i); congruence). subst z.
      xstep. destruct (Z.eqb_spec i 0) as [E0|E0]; xauto Hk;
        (destruct (Z.eqb_spec (v_xhl v) 0) as [E1|E1]; xauto Hk; rewrite ?x_ex_filetype_ok; xstep;
         rewrite callx_S, x_led_print_none; [rewrite (Hfin _ _ Htx (Hq0 E1))|rewrite (Hfin _ _ Htx (Hq1 E1))]; xstep; rewrite Hctx; reflexivity).
    - xauto Hk.
      destruct (Z.eqb_spec (v_xhl v) 0) as [E1|E1]; xauto Hk; rewrite ?x_ex_filetype_ok; xstep;
         rewrite callx_S, x_led_print_none; [rewrite (Hfin _ _ Htx (Hq0 E1))|rewrite (Hfin _ _ Htx (Hq1 E1))]; xstep; rewrite Hctx; reflexivity.
  Qed.

  Definition dr_get : stmt := match fn_body cf_vi_drawrow with SSeq a _ => a | _ => SSkip end.
  Definition dr_hll : stmt := match fn_body cf_vi_drawrow with SSeq _ (SSeq a _) => a | _ => SSkip end.

  (* vi_drawrow(i): [syn_context(conf_hlline()) on the cursor line when xhll is set,] led_print(text of row i or the filler, i - xtop, xleft,
     file type), syn_context(0); nothing else in memory changes *)
  Theorem tr_vi_drawrow m lg i : draw_mem m kl v bl bln lbs lines ft -> log_at m kl lg -> i32b i -> i32b (i - v_xtop v) ->
    callx ext cprog fuel (S (S (S d))) F_vi_drawrow [VInt i] m = Ok (VUndef, mlog m kl (lg ++ evs_of i)).
  Proof.
    intros Hm Hl Ii Hi. pose proof Hm as [H1 H2 H3 H4 H5 H6 Hb Ht He Hf Hkl _ _]. pose proof Hv as (V1 & V2 & V3 & V4 & V5 & V6).
    assert (Hbody : fn_body cf_vi_drawrow = SSeq dr_get (SSeq dr_hll dr_tail)) by reflexivity.
    rewrite callx_S. cbn [nth_error cprog F_vi_drawrow]. change (fn_nparams cf_vi_drawrow) with 1%nat. change (fn_nlocals cf_vi_drawrow) with 2%nat.
    cbn [length Nat.eqb Nat.sub repeat app]. rewrite Hbody. rewrite exec_seq.
    assert (E1 : exec (callx ext cprog fuel (S (S d))) fuel dr_get (mkst [VInt i; VUndef] m) = ONormal (mkst [VInt i; line_ptr lbs lines i] m)).
    { unfold dr_get. cbn [fn_body cf_vi_drawrow]. xauto Hk. reflexivity. }
    rewrite E1. rewrite exec_seq. unfold drawrow_evs.
    assert (E2 : exec (callx ext cprog fuel (S (S d))) fuel dr_hll (mkst [VInt i; line_ptr lbs lines i] m) =
                 ONormal (mkst [VInt i; line_ptr lbs lines i] (mlog m kl (lg ++ (if negb (v_xhll v =? 0) && (i =? v_xrow v) then [TCtx hl] else []))))).
    { unfold dr_hll. cbn [fn_body cf_vi_drawrow]. xauto Hk.
      destruct (Z.eqb_spec (v_xhll v) 0) as [E|E]; xauto Hk.
      - rewrite app_nil_r, (mlog_self _ _ _ Hl). reflexivity.
      - destruct (Z.eqb_spec i (v_xrow v)) as [E'|E']; xauto Hk.
        + rewrite callx_S, x_conf_hlline_none, (k_hlline _ _ _ _ _ Hk). xstep.
          rewrite callx_S, x_syn_context_none, (k_ctx _ _ _ _ _ Hk), (klog_ok _ _ _ _ Hl). xstep. reflexivity.
        + rewrite app_nil_r, (mlog_self _ _ _ Hl). reflexivity. }
    rewrite E2.
    rewrite (dr_tail_ok _ _ i (draw_mem_mlog _ _ _ _ _ _ _ _ _ Hm) (log_at_mlog _ _ _ Hkl) Hi).
    rewrite mlog_mlog by exact Hkl. rewrite <- app_assoc. reflexivity.
  Qed.
End Row.
