(* Properties_C11.v -- any pattern string is safely rejected or compiled; matching stays in bounds.
   Statements only; proofs are in ReProps*.v. *)
From Coq Require Import List NArith ZArith.
From NV Require Import Bytes GenConsts ReSyntax ReParse ReEmit ReVM ReSem RsetDefs ReProps ReProps2 ReProps3 ReProps4 ReProps5 ReProps6 ReProps7 ReProps8 ReProps10 ReProps11 ReProps12 ReZlen ReCountBound UcSpec ReBoundary.
Import ListNotations.

(* for EVERY byte string: if regcomp accepts it, the emitted program (MARK 0, code, MARK 1, MATCH)
   is no longer than the reservation rnode_count + 3 computed before emission *)
Theorem C11_emit_fits : forall (pat : bytes) (p : prog),
  regcomp pat = Ok (Some p) -> (Z.of_nat (length (code p)) <= reserve p)%Z.
Proof. exact regcomp_fits. Qed.
Print Assumptions C11_emit_fits.

(* the size lemma itself, for every tree with well-formed counts: the (saturating) estimate dominates
   the emitted length unless it has reached the limit NINST, in which case regcomp rejects *)
Theorem C11_emit_fits_tree : forall t : node, wf_node t ->
  (Z.of_nat (nlen t) <= count t)%Z \/ (0 <= NINST /\ NINST <= count t)%Z.
Proof. exact emit_fits. Qed.
Print Assumptions C11_emit_fits_tree.

(* every tree the parser returns has 0 <= min, and max < 0 or min <= max (the repaired rejection) *)
Theorem C11_parser_counts_wf : forall f s t s', rnode_parse f s = Ok (Some t, s') -> wf_node t.
Proof. exact rnode_parse_wf. Qed.
Print Assumptions C11_parser_counts_wf.

(* the compiled program of EVERY accepted pattern string: the last instruction is MATCH; every JUMP
   target and every second FORK target lies strictly ahead and inside the program, every first FORK
   target (next instruction or the loop-back) lies inside the program, an ATOM or MARK is never last --
   so every instruction fetch re->p[pc] is in range and the pc strictly increases within one
   activation of re_rec *)
Theorem C11_wf_prog : forall (pat : bytes) (p : prog), regcomp pat = Ok (Some p) -> prog_wf (code p).
Proof. exact regcomp_prog_wf. Qed.
Print Assumptions C11_wf_prog.

(* on the program of EVERY accepted pattern string, for every line, flag value, recursion depth, start pc
   and start state, the machine (re_rec) returns Found, Fail or an out-of-bounds report -- never Abort:
   the pc fuel |P|+1 per activation is never exhausted (the pc strictly increases within an
   activation, the recursion is cut at depth NDEPT) and the atom matcher never exhausts its own fuel
   (literal comparison |lit|+1, bracket scan |brk|+1, class bodies contain no nested class).
   The start-position loop of regexec is covered by C11_regexec_terminates below. *)
Theorem C11_terminates : forall (pat : bytes) (p : prog) (flg : Z) (line : bytes), regcomp pat = Ok (Some p) ->
  forall d pc s, pc < length (code p) -> fst (rec st (atom_step flg line) mark_step (code p) d pc s) <> Abort.
Proof. exact terminates. Qed.
Print Assumptions C11_terminates.

(* regexec as a whole: on the program of every accepted pattern and every NUL-free line the
   start-position loop finishes within its fuel |line|+2 and no attempt runs out of fuel *)
Theorem C11_regexec_terminates : forall pat p cflg line nsub eflg d,
  regcomp pat = Ok (Some p) -> Forall (fun b => b <> 0%N) line -> fst (regexec_d d p cflg line nsub eflg) <> NoFuel.
Proof. exact regexec_terminates. Qed.
Print Assumptions C11_regexec_terminates.

(* the atom matcher never reads or steps past a terminator: at every position inside the line it
   returns a new position or a mismatch (for every atom, also with invalid UTF-8 in atom or line) *)
Theorem C11_atom_in_bounds : forall flg line a p, p <= length line -> exists v, ratom_match flg line a p = Ok v.
Proof. exact ratom_match_ok. Qed.
Print Assumptions C11_atom_in_bounds.

(* regexec on any accepted pattern and any NUL-free line returns a proper answer (a match or no match):
   never the out-of-bounds result, never out of fuel *)
Theorem C11_regexec_total : forall pat p cflg line nsub eflg d,
  regcomp pat = Ok (Some p) -> Forall (fun b => b <> 0%N) line -> exists x, fst (regexec_d d p cflg line nsub eflg) = Ok x.
Proof. exact regexec_total. Qed.
Print Assumptions C11_regexec_total.

(* for EVERY accepted pattern string, every line, flags and depth: each (so, eo) pair regexec reports is
   -1/-1 or satisfies 0 <= so <= eo <= length of the line (positions only grow and never pass the end
   of the line, a group's closing mark is written after its opening mark on every derivation; marks
   with index >= NGRPS are never written -- by definition of mark_step -- and read as -1) *)
Theorem C11_exec_bounds : forall pat p cflg line nsub eflg d subs c,
  regcomp pat = Ok (Some p) -> regexec_d d p cflg line nsub eflg = (Ok (Some subs), c) ->
  Forall (fun se : Z * Z => se = ((-1)%Z, (-1)%Z) \/ (0 <= fst se <= snd se /\ snd se <= Z.of_nat (length line))%Z) subs.
Proof. exact regexec_bounds. Qed.
Print Assumptions C11_exec_bounds.

(* for EVERY byte string without NUL that ends in ')' -- every string rset_make hands to regcomp does
   (C11_rset_pattern_ends_in_paren) -- the parser returns a tree or a rejection together with the
   unread rest of the string: it never reads or steps past the terminator (result OOB) and never
   runs out of fuel 2|p|+2 (result NoFuel), i.e. it terminates *)
Theorem C11_parse_in_bounds : forall p : bytes, Forall (fun b => b <> 0%N) p -> (p = [] \/ last p 0%N = 41%N) ->
  exists x s', parse_pat p = Ok (x, s') /\ (exists pre, p = pre ++ s').
Proof. exact parse_in_bounds. Qed.
Print Assumptions C11_parse_in_bounds.

Theorem C11_rset_pattern_ends_in_paren : forall ps, rset_pattern ps = [] \/ last (rset_pattern ps) 0%N = 41%N.
Proof. exact rset_pattern_good. Qed.
Print Assumptions C11_rset_pattern_ends_in_paren.

(* without the wrapper the statement is false: a lone backslash spins (unreachable: rset_make is the only caller of
   regcomp and refuses a pattern that ends in a lone backslash: fix 3139e7f).  Since fix 66f245a "a{" no longer steps
   past the terminator: the repetition is refused, the flag re_bad is set, regcomp rejects *)
Theorem C11_parse_bare_refuted : parse_pat [92]%N = NoFuel.
Proof. exact bare_backslash_spins. Qed.
Print Assumptions C11_parse_bare_refuted.

Theorem C11_bare_brace_rejected : parse_pat [97; 123]%N = Ok (None, []) /\ parse_bad [97; 123]%N = true.
Proof. exact bare_brace_rejected. Qed.
Print Assumptions C11_bare_brace_rejected.

(* the estimate rnode_count is computed in C ints; the model computes it in Z.  What makes the C arithmetic safe:
   every result is saturated at NINST (on EVERY return path, also the unrepeated-node one), the parser only returns
   counts 0 <= min, max <= NREPS, hence every intermediate value of every activation of rnode_count -- the sums of the
   children's estimates, (min+1)*n, (min+max)*n, ... listed by ReCountBound.count_vals -- lies in
   [0, 2*NREPS*(2*NINST+2)+NREPS+1] which is below 2^31 for the generated constants.  (A source in which the
   saturation is dropped on one path is NOT covered by this theorem -- the model would have to change -- it is
   caught by the limit patterns of tools/props/c11.py: several saturating siblings inside one more {128}.) *)
Theorem C11_count_saturated : forall t, (0 <= NINST)%Z -> (count t <= NINST)%Z.
Proof. exact count_le_ninst. Qed.
Print Assumptions C11_count_saturated.

Theorem C11_parser_counts_bounded : forall f s t s', rnode_parse f s = Ok (Some t, s') -> bd_node t.
Proof. exact rnode_parse_bd. Qed.
Print Assumptions C11_parser_counts_bounded.

Theorem C11_count_no_int_overflow : forall f s t s', rnode_parse f s = Ok (Some t, s') ->
  Forall (fun v => (- 2^31 <= v < 2^31)%Z) (count_vals t) /\ (0 <= count t <= NINST)%Z.
Proof. intros f s t s' H. split; [exact (parse_count_vals_int f s t s' H) | exact (parse_count_range f s t s' H)]. Qed.
Print Assumptions C11_count_no_int_overflow.

(* the emitted length the driver computes in Z for compile-only requests near NINST (ReEmit.zlen) is the emitted
   length nlen of C11_emit_fits, for every tree the parser returns *)
Theorem C11_zlen_is_nlen : forall f s t s', rnode_parse f s = Ok (Some t, s') -> zlen t = Z.of_nat (nlen t).
Proof. exact parse_zlen. Qed.
Print Assumptions C11_zlen_is_nlen.

Example C11_nonvacuous : exists p, regcomp [40; 97; 123; 50; 44; 51; 125; 41]%N = Ok (Some p).
Proof. eexists. vm_compute. reflexivity. Qed.

(* the character-boundary clause: for EVERY valid UTF-8 pattern string regcomp accepts and EVERY valid UTF-8
   line (chars cs = the concatenated RFC 3629 encodings of the non-NUL scalar values cs; the line's "\n" is
   one of them), all flags and depths: each (so, eo) pair regexec reports is -1/-1 or both offsets are byte
   offsets of character boundaries of the line (off_of cs k = the offset of the k-th character, k <= |cs|).
   Every string the parser looks at is continuation bytes followed by whole characters, so a literal it
   builds is a run of whole pattern characters or starts with a continuation byte and then never matches
   at a boundary (the latter no longer arises from valid patterns since an unclosed {m,n is rejected). *)
Theorem C11_char_boundaries : forall pat p cflg line nsub eflg d subs c pcs cs,
  Forall scalar pcs -> pat = chars pcs ->
  Forall scalar cs -> line = chars cs ->
  regcomp pat = Ok (Some p) -> regexec_d d p cflg line nsub eflg = (Ok (Some subs), c) ->
  Forall (fun se : Z * Z => se = ((-1)%Z, (-1)%Z) \/
            (exists k1 k2, k1 <= length cs /\ k2 <= length cs /\ fst se = Z.of_nat (off_of cs k1) /\ snd se = Z.of_nat (off_of cs k2))) subs.
Proof. exact regexec_boundaries. Qed.
Print Assumptions C11_char_boundaries.

Example C11_char_boundaries_nonvacuous : exists p c,
  regcomp (chars [40; 233; 41]%N) = Ok (Some p) /\ regexec p 0%Z (chars [97; 8364; 233; 10]%N) 2 0%Z = (Ok (Some [(4, 6); (4, 6)]%Z), c).
Proof. eexists. eexists. split; [vm_compute; reflexivity | vm_compute; reflexivity]. Qed.

(* ---- "rejected or compiled" is a property of the pattern string ALONE: the static flag re_bad of regex.c ----------
   regex.c reports a malformed construct through the file-scope flag re_bad (the only writable file-scope variable of
   regex.c / rset.c / rstr.c; list in ReStateDefs.v).  ReStateDefs.v threads the flag, statement by statement, through
   rnode_grp / rnode_atom / rnode_seq / rnode_parse and regcomp.  For EVERY byte string, fuel and incoming flag value:
   the parser only ever sets the flag (it never reads or clears it) ... *)
From NV Require Import ReStateDefs ReStateProps.
Theorem C11_parser_flag_threaded : forall f s st,
  rnode_parse_st f s st = lift (rnode_parse f s) (st || rnode_parse_bad f s)%bool.
Proof. exact parse_st_pure. Qed.
Print Assumptions C11_parser_flag_threaded.

(* ... and regcomp clears it on entry: whatever value an earlier call left in the flag, regcomp answers as the pure
   function of the pattern, and the value it leaves behind is again a function of the pattern alone *)
Theorem C11_regcomp_ignores_stale_flag : forall pat st, regcomp_st pat st = (regcomp pat, flag_after pat).
Proof. exact regcomp_st_pure. Qed.
Print Assumptions C11_regcomp_ignores_stale_flag.

(* every sequence of compilations in one process, from any initial flag: call by call the pure answers *)
Theorem C11_regcomp_seq_pure : forall pats st, fst (regcomp_seq pats st) = map regcomp pats.
Proof. exact regcomp_seq_pure. Qed.
Print Assumptions C11_regcomp_seq_pure.

(* the theorem is about the statement "re_bad = 0;" at the top of regcomp: the same model with the flag cleared in the
   "if (re_bad || *pat)" branch instead refuses the valid ((a+b)) right after the rejected ((a{2,1})) *)
Theorem C11_late_reset_refuted : exists pats, fst (run_seq (regcomp_gen false) pats false) <> map regcomp pats.
Proof. exact late_reset_refuted. Qed.
Print Assumptions C11_late_reset_refuted.

Example C11_seq_nonvacuous :
  map (fun r => match r with Ok (Some _) => 1%N | Ok None => 0%N | _ => 2%N end) (fst (regcomp_seq bad_then_good true)) = [0%N; 1%N].
Proof. exact entry_reset_example. Qed.

(* ---- start positions are character starts, WHATEVER bytes the pattern consists of ------------------------------------
   C11_char_boundaries needs a valid UTF-8 pattern (a truncated lead byte in the pattern can end a match inside a
   character).  The START of a match does not: regexec steps through a valid UTF-8 line by uc_len, so for EVERY accepted
   byte string (stray continuation bytes, truncated leads ...), all flags and depths, a reported match is a derivation of
   the pattern that starts at the byte offset of a character of the line ... *)
From NV Require Import ReBoundary2.
Theorem C11_match_starts_on_boundary : forall pat p cflg nsub eflg d subs c cs,
  Forall scalar cs -> regcomp pat = Ok (Some p) ->
  regexec_d d p cflg (chars cs) nsub eflg = (Ok (Some subs), c) ->
  exists k s1, k <= length cs /\
    M st (atom_step (Z.lor cflg eflg) (chars cs)) mark_step (tr (tree p)) (mark_step 0 (ReProps4.init (off_of cs k))) s1 /\
    subs = psub_of (snd (mark_step 1 s1)) nsub.
Proof. exact regexec_starts_on_boundary. Qed.
Print Assumptions C11_match_starts_on_boundary.

(* ... and rm_so of the whole match is that offset *)
Theorem C11_start_offset_is_boundary : forall pat p cflg nsub eflg d subs c cs,
  Forall scalar cs -> regcomp pat = Ok (Some p) -> 1 <= nsub ->
  regexec_d d p cflg (chars cs) nsub eflg = (Ok (Some subs), c) ->
  exists k, k <= length cs /\ fst (nth 0 subs ((-1)%Z, (-1)%Z)) = Z.of_nat (off_of cs k).
Proof. exact regexec_start_offset. Qed.
Print Assumptions C11_start_offset_is_boundary.

(* "(\xa9)+" (a stray continuation byte) finds nothing in "x\xc3\xa9y" although the byte occurs there; "a*\xc3" (ending in a
   truncated lead byte) matches bytes 1..2: the start is the boundary of the second character, the end is not a boundary *)
Example C11_stray_bytes_nonvacuous : exists p1 p2 c1 c2,
  regcomp [40; 169; 41; 43]%N = Ok (Some p1) /\ regexec p1 0%Z (chars [120; 233; 121]%N) 1 0%Z = (Ok None, c1) /\
  regcomp [97; 42; 195]%N = Ok (Some p2) /\ regexec p2 0%Z (chars [120; 233; 121]%N) 1 0%Z = (Ok (Some [(1, 2)]%Z), c2).
Proof. do 4 eexists. split; [vm_compute; reflexivity|]. split; [vm_compute; reflexivity|]. split; [vm_compute; reflexivity|]. vm_compute; reflexivity. Qed.

(* ---- the leaf functions of the model are the C text of /repo/regex.c (translation tie, coq/TrRegex.v) ----------------
   tools/c2clite.py prints regex.c's private uc_len, uc_dec, uc_beg, isword and brk_len as CLite terms (GenCFuncs.v:
   F_re_uc_len, F_re_uc_dec, F_re_uc_beg, F_re_isword, F_brk_len; semantics with checked loads in CLite.v).  For EVERY
   memory that holds a string s (bytes < 256) followed by its terminator in block b, and EVERY offset o <= |s|, running the
   translated function returns the value of the hand-written model and leaves the memory unchanged -- in particular no
   load leaves the block of the string (it would be the error EOob), no int operation overflows, no fuel runs out.
   No hypothesis about complete multi-byte sequences: since fix 6b15ed7 the C text stops at the terminator.
   (CLite is only Required, not Imported: its Ok / bind / do-notation would shadow ReSyntax's.) *)
From NV Require CLite CLiteProps GenCFuncs TrRegex.

Theorem C11_tr_re_uc_len : forall m b (s : bytes) o d fuel,
  CLiteProps.str_at m b s -> CLiteProps.bytes_lt256 s -> o <= length s -> 4 <= fuel ->
  CLite.callf GenCFuncs.cprog fuel (S d) GenCFuncs.F_re_uc_len [CLite.VPtr b (Z.of_nat o)] m
  = CLite.Ok (CLite.VInt (Z.of_nat (ReSyntax.re_uclen_at s o)), m).
Proof. exact TrRegex.tr_re_uc_len. Qed.
Print Assumptions C11_tr_re_uc_len.

(* uc_dec: the model's checked reads never leave the string (re_ucdec is Ok) and the C text returns the same code *)
Theorem C11_tr_re_uc_dec : forall m b (s : bytes) o d fuel,
  CLiteProps.str_at m b s -> CLiteProps.bytes_lt256 s -> o <= length s -> 4 <= fuel ->
  exists v, ReVM.re_ucdec s o = ReSyntax.Ok v /\
  CLite.callf GenCFuncs.cprog fuel (S (S d)) GenCFuncs.F_re_uc_dec [CLite.VPtr b (Z.of_nat o)] m
  = CLite.Ok (CLite.VInt (Z.of_N v), m).
Proof. exact TrRegex.tr_re_uc_dec. Qed.
Print Assumptions C11_tr_re_uc_dec.

(* uc_beg(beg, s) for any beg <= s inside the string; ReVM.uc_beg counts from beg *)
Theorem C11_tr_re_uc_beg : forall m b (s : bytes) ob o d fuel,
  CLiteProps.str_at m b s -> CLiteProps.bytes_lt256 s -> ob <= o <= length s -> length s < fuel ->
  CLite.callf GenCFuncs.cprog fuel (S d) GenCFuncs.F_re_uc_beg [CLite.VPtr b (Z.of_nat ob); CLite.VPtr b (Z.of_nat o)] m
  = CLite.Ok (CLite.VPtr b (Z.of_nat (ob + ReVM.uc_beg (skipn ob s) (o - ob))), m).
Proof. exact TrRegex.tr_re_uc_beg. Qed.
Print Assumptions C11_tr_re_uc_beg.

Theorem C11_tr_re_isword : forall m b (s : bytes) o d fuel,
  CLiteProps.str_at m b s -> CLiteProps.bytes_lt256 s -> o <= length s ->
  CLite.callf GenCFuncs.cprog fuel (S d) GenCFuncs.F_re_isword [CLite.VPtr b (Z.of_nat o)] m
  = CLite.Ok (CLite.VInt (CLite.b2z (ReVM.isword (nthb s o))), m).
Proof. exact TrRegex.tr_re_isword. Qed.
Print Assumptions C11_tr_re_isword.

(* brk_len(p) is called with p[0] == '[': the pointer is inside the string (o < |s|; the C text reads p[1] unconditionally).
   The string has no embedded NUL (it is a C string); its length fits an int. *)
Theorem C11_tr_brk_len : forall m b (s : bytes) o d fuel,
  CLiteProps.str_at m b s -> nonul s -> o < length s -> length s < fuel -> (Z.of_nat (length s) < 2147483647)%Z ->
  CLite.callf GenCFuncs.cprog fuel (S d) GenCFuncs.F_brk_len [CLite.VPtr b (Z.of_nat o)] m
  = CLite.Ok (CLite.VInt (Z.of_nat (ReParse.brk_len (skipn o s))), m).
Proof. exact TrRegex.tr_brk_len. Qed.
Print Assumptions C11_tr_brk_len.

(* non-vacuity: the hypotheses hold for the pattern  [^]a[:alpha:]x]  followed by a TRUNCATED three-byte sequence (e2 82)
   at the very end of the string, and the translated functions RUN on it (vm_compute of the CLite interpreter): brk_len = 15,
   uc_len of the truncated sequence = 2 (cut at the terminator), uc_dec = 0x200000 | 0xe2, uc_beg from its continuation byte
   = 15, isword('a') = 1; one load past the terminator is the error EOob *)
Definition C11_tr_pat : bytes := [91; 94; 93; 97; 91; 58; 97; 108; 112; 104; 97; 58; 93; 120; 93; 226; 130]%N.
Definition C11_tr_mem : CLite.mem := [CLite.cstr_block (CLiteProps.zb C11_tr_pat)].
Example C11_tr_nonvacuous :
  CLiteProps.str_at C11_tr_mem 0 C11_tr_pat /\ nonul C11_tr_pat /\
  CLite.callf GenCFuncs.cprog 40 3 GenCFuncs.F_brk_len [CLite.VPtr 0 0] C11_tr_mem = CLite.Ok (CLite.VInt 15, C11_tr_mem) /\
  ReParse.brk_len C11_tr_pat = 15 /\
  CLite.callf GenCFuncs.cprog 40 3 GenCFuncs.F_re_uc_len [CLite.VPtr 0 15] C11_tr_mem = CLite.Ok (CLite.VInt 2, C11_tr_mem) /\
  ReSyntax.re_uclen_at C11_tr_pat 15 = 2 /\
  CLite.callf GenCFuncs.cprog 40 3 GenCFuncs.F_re_uc_dec [CLite.VPtr 0 15] C11_tr_mem = CLite.Ok (CLite.VInt 2097378, C11_tr_mem) /\
  ReVM.re_ucdec C11_tr_pat 15 = ReSyntax.Ok 2097378%N /\
  CLite.callf GenCFuncs.cprog 40 3 GenCFuncs.F_re_uc_beg [CLite.VPtr 0 0; CLite.VPtr 0 16] C11_tr_mem = CLite.Ok (CLite.VPtr 0 15, C11_tr_mem) /\
  CLite.callf GenCFuncs.cprog 40 3 GenCFuncs.F_re_isword [CLite.VPtr 0 3] C11_tr_mem = CLite.Ok (CLite.VInt 1, C11_tr_mem) /\
  CLite.callf GenCFuncs.cprog 40 3 GenCFuncs.F_re_uc_len [CLite.VPtr 0 18] C11_tr_mem = CLite.Err CLite.EOob.
Proof.
  split; [reflexivity|]. split; [repeat constructor|]. repeat split; vm_compute; reflexivity.
Qed.

(* ---- ratom_match of regex.c (translated: GenCFuncs.F_ratom_match) is the model's atom matcher, coq/TrRegexAtom.v --------
   struct ratom = a block of two cells (ra, s), struct rstate = a block of 133 cells (s, o, mark[128], pc, flg, dep), the
   literal of an RA_CHR atom and the line are C strings in blocks of their own.  For EVERY atom other than a bracket
   expression (literal with and without REG_ICASE, '.', ^, $, \<, \>), every line, position p <= |line| and flag word: the C
   text returns 1 and leaves the memory alone exactly when the model answers "no match", and returns 0 with rs->s = line + p'
   stored into cell 0 of the state exactly when the model answers Some p' (ratom_result); it never reads outside the two
   strings and the two structs (EOob), never overflows an int, never runs out of fuel.  The model never answers OOB / NoFuel
   here (C11_atom_in_bounds), so the third case of ratom_result does not occur. *)
From NV Require TrRegexAtom.
Theorem C11_tr_ratom_match : forall m ba bs br bl rs (line : bytes) (a : atom) p flg d fuel,
  TrRegexAtom.ratom_at m ba bs a -> TrRegexAtom.rstate_at m br bl rs p flg ->
  CLiteProps.str_at m bl line -> CLiteProps.bytes_lt256 line -> p <= length line ->
  (-2147483648 <= flg <= 2147483647)%Z -> length line < fuel -> 4 <= fuel ->
  match TrRegexAtom.ra_str a with Some s => length s < fuel /\ (Z.of_nat (length s) <= 2147483647)%Z | None => True end ->
  (forall s, a <> ABrk s) ->
  CLite.callf GenCFuncs.cprog fuel (S (S (S d))) GenCFuncs.F_ratom_match [CLite.VPtr ba 0; CLite.VPtr br 0] m
  = TrRegexAtom.ratom_result m br bl rs (ReVM.ratom_match flg line a p).
Proof. exact TrRegexAtom.tr_ratom_match. Qed.
Print Assumptions C11_tr_ratom_match.

(* non-vacuity, RUN on a concrete memory: line  x c3 84 b e2  (the last byte is a truncated lead byte), literal c3 84;
   REG_ICASE literal at 1 -> 0 and rs->s = line + 3;  '.' at 4 (the truncated sequence) -> 0 and rs->s = line + 5 *)
Definition C11_tr_line : bytes := [120; 195; 132; 98; 226]%N.
Definition C11_tr_lit : bytes := [195; 132]%N.
Definition C11_tr_amem (ra p flg : Z) : CLite.mem :=
  [CLite.cstr_block (CLiteProps.zb C11_tr_line); CLite.cstr_block (CLiteProps.zb C11_tr_lit); [CLite.VInt ra; CLite.VPtr 1 0];
   [CLite.VPtr 0 p; CLite.VPtr 0 0] ++ repeat (CLite.VInt (-1)) 128 ++ [CLite.VInt 0; CLite.VInt flg; CLite.VInt 0]].
Definition C11_tr_run (ra p flg : Z) : option (CLite.val * option CLite.val) :=
  match CLite.callf GenCFuncs.cprog 40 6 GenCFuncs.F_ratom_match [CLite.VPtr 2 0; CLite.VPtr 3 0] (C11_tr_amem ra p flg) with
  | CLite.Ok (v, m) => Some (v, nth_error (nth 3 m []) 0)
  | CLite.Err _ => None
  end.
Example C11_tr_ratom_nonvacuous :
  TrRegexAtom.ratom_at (C11_tr_amem 0 1 4) 2 1 (AChr C11_tr_lit) /\
  TrRegexAtom.rstate_at (C11_tr_amem 0 1 4) 3 0 (nth 3 (C11_tr_amem 0 1 4) []) 1 4 /\
  C11_tr_run 0 1 4 = Some (CLite.VInt 0, Some (CLite.VPtr 0 3)) /\ ReVM.ratom_match 4 C11_tr_line (AChr C11_tr_lit) 1 = ReSyntax.Ok (Some 3) /\
  C11_tr_run 46 4 0 = Some (CLite.VInt 0, Some (CLite.VPtr 0 5)) /\ ReVM.ratom_match 0 C11_tr_line AAny 4 = ReSyntax.Ok (Some 5) /\
  C11_tr_run 46 5 0 = Some (CLite.VInt 1, Some (CLite.VPtr 0 5)) /\ ReVM.ratom_match 0 C11_tr_line AAny 5 = ReSyntax.Ok None.
Proof.
  split. { eexists. split; [reflexivity|]. cbn. split; [reflexivity|]. split; [reflexivity|repeat constructor]. }
  split. { repeat split; reflexivity. }
  repeat split; vm_compute; reflexivity.
Qed.

(* ---- brk_match of regex.c (translated: GenCFuncs.F_brk_match) is the model's ReVM.brk_match, coq/TrRegexBrk.v -----------
   Memory holds the program's globals at their indices (globals_at: among them the table brk_classes, 22 pointer cells
   into string-literal blocks -- shown equal to the generated GenConsts.brk_classes) and the NUL-free bracket text s in a
   block b.  For EVERY model depth d, offset o <= |s|, character code c and flag word: if the model answers Ok r, the C text
   (ranges, negation, [:class:] items via strncmp/strlen on the table and the recursive call on the class body, the
   REG_ICASE folding of c and of both range ends, brk_len to step over a class item, uc_dec/uc_len of regex.c) returns
   b2z r and leaves the memory unchanged; it never reads outside s and the table, never overflows an int, never runs out of
   fuel (fuel >= |s| + 13 and >= cls_fuel = 13 + the longest class body; call depth d + 3). *)
From NV Require CLiteTac TrRegexBrk.
Theorem C11_tr_brk_match : forall d e m fuel flg, CLiteTac.globals_at m -> (-2147483648 <= flg <= 2147483647)%Z ->
  TrRegexBrk.cls_fuel <= fuel ->
  forall b (s : bytes) o (c : N) r, CLiteProps.str_at m b s -> nonul s -> o <= length s -> length s + 13 <= fuel ->
  (Z.of_nat (length s) < 2147483647)%Z ->
  ReVM.brk_match d (has flg REG_ICASE) (skipn o s) c = ReSyntax.Ok r ->
  CLite.callf GenCFuncs.cprog fuel (S (S (S (d + e)))) GenCFuncs.F_brk_match
    [CLite.VPtr b (Z.of_nat o); CLite.VInt (Z.of_N c); CLite.VInt flg] m = CLite.Ok (CLite.VInt (CLite.b2z r), m).
Proof. exact TrRegexBrk.tr_brk_match. Qed.
Print Assumptions C11_tr_brk_match.

(* ... and the RA_BRK case of ratom_match.  The C text stores the advanced position BEFORE it asks brk_match, so a refused
   character returns 1 with rs->s already moved (brk_advanced); re_rec discards or restores the state after a failed atom.
   The state block is none of the global blocks and differs from the blocks of the atom and of its text. *)
Theorem C11_tr_ratom_match_brk : forall m ba bs br bl rs (line sb : bytes) p flg e fuel,
  nth_error m ba = Some [CLite.VInt 91; CLite.VPtr bs 0] -> CLiteProps.str_at m bs sb -> nonul sb -> sb <> [] ->
  TrRegexAtom.rstate_at m br bl rs p flg -> CLiteProps.str_at m bl line -> CLiteProps.bytes_lt256 line -> p <= length line ->
  CLiteTac.globals_at m -> length GenCFuncs.cglobals <= br -> br <> bs -> ba <> br ->
  (-2147483648 <= flg <= 2147483647)%Z -> length line < fuel -> TrRegexBrk.cls_fuel <= fuel -> length sb + 13 <= fuel ->
  (Z.of_nat (length sb) < 2147483647)%Z ->
  CLite.callf GenCFuncs.cprog fuel (S (S (S (S (S (S e)))))) GenCFuncs.F_ratom_match [CLite.VPtr ba 0; CLite.VPtr br 0] m =
  match ReVM.ratom_match flg line (ABrk sb) p with
  | ReSyntax.Ok (Some p') => CLite.Ok (CLite.VInt 0, CLiteProps.upd m br (CLiteProps.upd rs 0 (CLite.VPtr bl (Z.of_nat p'))))
  | ReSyntax.Ok None =>
      CLite.Ok (CLite.VInt 1, if TrRegexBrk.brk_advanced flg line p
                              then CLiteProps.upd m br (CLiteProps.upd rs 0 (CLite.VPtr bl (Z.of_nat (p + re_uclen_at line p)))) else m)
  | _ => CLite.Err CLite.EShape
  end.
Proof. exact TrRegexBrk.tr_ratom_match_brk. Qed.
Print Assumptions C11_tr_ratom_match_brk.

(* non-vacuity, RUN: the globals followed by the bracket text  [^a-f[:digit:] e2  (unclosed, ending in a truncated lead
   byte); brk_match(text + 1, c, flg): '5' is a digit -> 1 (negated set refuses), 'x' -> 0, 'B' with REG_ICASE -> 1 (b is in
   a-f), the code 0x2000e2 of the truncated sequence itself -> 1 *)
Definition C11_tr_brk : bytes := [91; 94; 97; 45; 102; 91; 58; 100; 105; 103; 105; 116; 58; 93; 226]%N.
Definition C11_tr_bmem : CLite.mem := GenCFuncs.cglobals ++ [CLite.cstr_block (CLiteProps.zb C11_tr_brk)].
Definition C11_tr_brun (c flg : Z) : option CLite.val :=
  match CLite.callf GenCFuncs.cprog 60 8 GenCFuncs.F_brk_match
          [CLite.VPtr (length GenCFuncs.cglobals) 1; CLite.VInt c; CLite.VInt flg] C11_tr_bmem with
  | CLite.Ok (v, _) => Some v | CLite.Err _ => None end.
Example C11_tr_brk_nonvacuous :
  CLiteTac.globals_at C11_tr_bmem /\ CLiteProps.str_at C11_tr_bmem (length GenCFuncs.cglobals) C11_tr_brk /\ nonul C11_tr_brk /\
  TrRegexBrk.cls_fuel <= 60 /\
  C11_tr_brun 53 0 = Some (CLite.VInt 1) /\ ReVM.brk_match 2 false (tl C11_tr_brk) 53 = ReSyntax.Ok true /\
  C11_tr_brun 120 0 = Some (CLite.VInt 0) /\ ReVM.brk_match 2 false (tl C11_tr_brk) 120 = ReSyntax.Ok false /\
  C11_tr_brun 66 4 = Some (CLite.VInt 1) /\ ReVM.brk_match 2 true (tl C11_tr_brk) 66 = ReSyntax.Ok true /\
  C11_tr_brun 2097378 0 = Some (CLite.VInt 1) /\ ReVM.brk_match 2 false (tl C11_tr_brk) 2097378 = ReSyntax.Ok true.
Proof.
  split. { intros g blk H. unfold C11_tr_bmem. rewrite nth_error_app1; [exact H|]. apply nth_error_Some. congruence. }
  split. { unfold CLiteProps.str_at, C11_tr_bmem. rewrite nth_error_app2, PeanoNat.Nat.sub_diag by apply le_n. reflexivity. }
  split. { repeat constructor. }
  split. { vm_compute. repeat constructor. }
  repeat split; vm_compute; reflexivity.
Qed.

(* ---- 2026-10-02: the COMPILER side of regex.c on the translated C text (tools/c2clite.d/72_regex_comp.list; coq/TrRegexComp.v,
   TrRegexParse.v, TrRegexCount.v, TrRegexEmit.v, TrRegexEmit2.v, TrRegexEmit3.v, TrRegexCompile.v).  struct rnode = 8 cells
   (ra.ra, ra.s, c1, c2, mincnt, maxcnt, grp, rn); TrRegexComp.tree_in m t lo hi p: the pointer p is the model's tree t, built of the
   blocks lo..hi-1 of m in allocation order, every other block of that range freed.  Every theorem is an equation
   callf ... = Ok ...: a load / store / memcpy / free outside a live block is Err EOob, a signed overflow Err EOverflow in CLite. *)
From NV Require CLiteExt TrRegexComp TrRegexParse TrRegexCount TrRegexEmit TrRegexEmit2 TrRegexEmit3 TrRegexCompile TrRegexRun.

(* the parser: for EVERY pattern string in memory, offset, incoming flag and model fuel f, if the threaded parser model returns
   Ok ((r, s'), st') then the translated rnode_parse returns the tree r (TrRegexParse.ppost: tree_in for of_opt r in the blocks the call
   allocated, *pat = the offset where the model stops, re_bad = st', everything a rejected branch allocated freed again, nothing else
   touched) -- every load inside the pattern and its terminator, the digit accumulation of {m,n} without overflow (it saturates at
   NREPS+1), call depth 4 * (bytes left) + 8 *)
Theorem C11_tr_rnode_parse : forall (bl : nat) (pat : bytes) (bpp fuel : nat),
  nonul pat -> bl <> bpp -> bl <> GenCFuncs.G_re_bad -> length GenCFuncs.cglobals <= bpp ->
  (Z.of_nat (length pat) < 2147483647)%Z -> length pat + 2 <= fuel -> 4 <= fuel ->
  forall (f : nat) (m : CLite.mem) (o : nat) (st : bool) (d : nat) (r : option node) (s' : bytes) (st' : bool),
  TrRegexParse.pmem bl pat bpp m o st -> 4 * (length pat - o) + 8 <= d ->
  ReStateDefs.rnode_parse_st f (skipn o pat) st = Ok ((r, s'), st') ->
  exists v m', CLite.callf GenCFuncs.cprog fuel d GenCFuncs.F_rnode_parse [CLite.VPtr bpp 0] m = CLite.Ok (v, m') /\
    TrRegexParse.ppost bl pat bpp m o r s' st' v m'.
Proof. exact TrRegexParse.parse_ok. Qed.
Print Assumptions C11_tr_rnode_parse.

(* rnode_free: the whole range of the tree is freed, nothing else changes (a double free or a free of a wild pointer would be EOob) *)
Theorem C11_tr_rnode_free : forall (fuel : nat) (t : node) (m : CLite.mem) (lo hi : nat) (p : CLite.val) (d : nat),
  TrRegexComp.tree_in m t lo hi p -> t <> NNil -> TrRegexComp.height t <= d ->
  exists m', CLite.callf GenCFuncs.cprog fuel d GenCFuncs.F_rnode_free [p] m = CLite.Ok (CLite.VUndef, m') /\ TrRegexComp.freed m m' lo hi.
Proof. exact TrRegexComp.tr_rnode_free. Qed.
Print Assumptions C11_tr_rnode_free.

(* rnode_count on the C text: for every tree the parser can return the translated function returns the model's (saturated) estimate
   and leaves the memory alone -- NO signed overflow in any of its additions and multiplications (C11_count_no_int_overflow on the C text) *)
Theorem C11_tr_rnode_count_no_overflow : forall (fuel f : nat) (s : bytes) (t : node) (s' : bytes) (m : CLite.mem) (lo hi : nat) (p : CLite.val) (d : nat),
  rnode_parse f s = Ok (Some t, s') -> TrRegexComp.tree_in m t lo hi p -> TrRegexComp.height t < d ->
  CLite.callf GenCFuncs.cprog fuel d GenCFuncs.F_rnode_count [p] m = CLite.Ok (CLite.VInt (count t), m).
Proof. exact TrRegexRun.tr_rnode_count_parsed. Qed.
Print Assumptions C11_tr_rnode_count_no_overflow.

Theorem C11_tr_rnode_grpnum : forall (fuel : nat) (t : node) (m : CLite.mem) (lo hi : nat) (p : CLite.val) (num d : nat),
  TrRegexComp.tree_in m t lo hi p -> (Z.of_nat (num + TrRegexParse.ngrp t) <= 2147483647)%Z -> TrRegexComp.height t < d ->
  exists m', CLite.callf GenCFuncs.cprog fuel d GenCFuncs.F_rnode_grpnum [p; CLite.VInt (Z.of_nat num)] m
             = CLite.Ok (CLite.VInt (Z.of_nat (snd (grpnum t num))), m') /\
    TrRegexComp.tree_in m' (fst (grpnum t num)) lo hi p /\ length m' = length m /\
    (forall i, i < lo \/ hi <= i -> nth_error m' i = nth_error m i) /\ snd (grpnum t num) = TrRegexParse.ngrp t.
Proof. exact TrRegexCount.tr_rnode_grpnum. Qed.
Print Assumptions C11_tr_rnode_grpnum.

(* re_insert: the ONE place where the program grows.  est bre bp N m b cells: block bre = struct regex {p -> bp, n = b, flg}, block bp =
   the array of N instructions (6 * N cells).  With b < N the store lands in cell 6*b+2 of the array; (with b >= N it would be EOob) *)
Theorem C11_tr_re_insert : forall (bre bp N fuel : nat), bre <> bp -> (Z.of_nat N <= 1048576)%Z ->
  forall (m : CLite.mem) (b : nat) (cells : list CLite.val) (ri : Z) (d : nat),
  TrRegexEmit.est bre bp N m b cells -> b < N -> TrRegexComp.i32 ri ->
  CLite.callf GenCFuncs.cprog fuel (S d) GenCFuncs.F_re_insert [CLite.VPtr bre 0; CLite.VInt ri] m
  = CLite.Ok (CLite.VInt (Z.of_nat b),
              CLiteProps.upd (CLiteProps.upd m bre [CLite.VPtr bp 0; CLite.VInt (Z.of_nat (S b)); CLite.VInt 0]) bp (CLiteProps.upd cells (6 * b + 2) (CLite.VInt ri))) /\
  TrRegexEmit.est bre bp N (CLiteProps.upd (CLiteProps.upd m bre [CLite.VPtr bp 0; CLite.VInt (Z.of_nat (S b)); CLite.VInt 0]) bp (CLiteProps.upd cells (6 * b + 2) (CLite.VInt ri)))
    (S b) (CLiteProps.upd cells (6 * b + 2) (CLite.VInt ri)).
Proof. exact TrRegexEmit.tr_re_insert. Qed.
Print Assumptions C11_tr_re_insert.

(* C11_emit_fits on the C text: for EVERY tree in memory with counts inside 0..NREPS (eok), when b + nlen t <= N -- the emitted length
   fits what is left of the allocation -- the translated rnode_emit appends exactly the model's emit_n t b at instruction b
   (emit_post: the cells hold the code, nothing below 6*b is touched, the atoms' strings in fresh blocks) and EVERY store of the call is
   inside the 6*N cells of the array and the 128 cells of the local jmpend[] (the heap overflow of the original defect is impossible) *)
Theorem C11_tr_emit_fits : forall (bre bp N fuel : nat), bre <> bp -> (Z.of_nat N <= 1048576)%Z -> 130 < fuel ->
  forall (t : node) (m : CLite.mem) (lo hi : nat) (p : CLite.val) (b : nat) (cells : list CLite.val) (d : nat),
  TrRegexComp.tree_in m t lo hi p -> TrRegexEmit2.eok t -> TrRegexEmit.est bre bp N m b cells -> b + nlen t <= N ->
  hi <= bre -> hi <= bp -> 2 * TrRegexComp.height t + 2 <= d ->
  exists m', CLite.callf GenCFuncs.cprog fuel d GenCFuncs.F_rnode_emit [p; CLite.VPtr bre 0] m = CLite.Ok (CLite.VUndef, m') /\
    TrRegexEmit.emit_post bre bp N m cells b (emit_n t b) m'.
Proof. exact TrRegexEmit3.emit_ok. Qed.
Print Assumptions C11_tr_emit_fits.

(* regcomp as a whole, for EVERY pattern string in memory and EVERY value st0 the static flag re_bad had before the call: the C text
   returns what the threaded model regcomp_st says (C11_regcomp_ignores_stale_flag: = the pure regcomp, the flag afterwards a function
   of the pattern alone).  rc_result: re_bad = st1; nothing below the old end of memory changes except *preg; rejected: 1 and every
   block the call malloc'd is freed again; accepted: 0, *preg -> struct regex {p, n, flg = cflg} whose array of rnode_count+3
   instructions holds the model's program (compiled / code_ok), the parse tree freed *)
Theorem C11_tr_regcomp : forall (m : CLite.mem) (bl : nat) (pat : bytes) (bpreg : nat) (pv : CLite.val) (cflg : Z) (st0 : bool) (fuel : nat),
  CLiteProps.str_at m bl pat -> nonul pat -> nth_error m bpreg = Some [pv] -> TrRegexParse.bad_at m st0 -> TrRegexComp.lits_at m ->
  length GenCFuncs.cglobals <= length m -> bl <> GenCFuncs.G_re_bad -> length GenCFuncs.cglobals <= bpreg -> TrRegexComp.i32 cflg ->
  (Z.of_nat (length pat) < 1073741820)%Z -> length pat + 2 <= fuel -> 130 < fuel ->
  forall (d : nat) (res : option prog) (st1 : bool), 4 * length pat + 12 <= d -> ReStateDefs.regcomp_st pat st0 = (Ok res, st1) ->
  exists m', CLite.callf GenCFuncs.cprog fuel d GenCFuncs.F_regcomp [CLite.VPtr bpreg 0; CLite.VPtr bl 0; CLite.VInt cflg] m
             = CLite.Ok (CLite.VInt (match res with Some _ => 0 | None => 1 end)%Z, m') /\
    TrRegexParse.bad_at m' st1 /\ length m < length m' /\
    (forall j, j < length m -> j <> GenCFuncs.G_re_bad -> j <> bpreg -> nth_error m' j = nth_error m j) /\
    (exists o, nth_error m' (length m) = Some [CLite.VPtr bl o]) /\
    match res with
    | Some p => TrRegexCompile.compiled m' bpreg cflg (code p) (S (length m)) /\ TrRegexParse.atoms_ok pat (tree p) /\ TrRegexEmit2.eok (tree p)
    | None => nth_error m' bpreg = Some [pv] /\ TrRegexComp.dead m' (S (length m)) (length m')
    end.
Proof. exact TrRegexCompile.tr_regcomp. Qed.
Print Assumptions C11_tr_regcomp.
