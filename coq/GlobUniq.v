(* GlobUniq.v -- C15, third part: ghost identities stay unique, a mark is dropped only together with its line, an
   identity that left the buffer never returns; completeness of the scan in the form "every line of the original range
   that is still in the buffer at the end was visited", for the single commands of the list (also d and c). *)
From Coq Require Import List NArith ZArith Bool Lia.
From NV Require Import Bytes ExDefs ExSpec ExProps GlobDefs GlobProps GlobTrack.
Import ListNotations.

Lemma nodup_app {A} (a b : list A) : NoDup (a ++ b) <-> NoDup a /\ NoDup b /\ (forall x, In x a -> ~ In x b).
Proof.
  induction a as [|x a IH]; cbn [app].
  - split; [intro H; split; [constructor | split; [exact H | intros x []]] | intros (_ & H & _); exact H].
  - split.
    + intro H. inversion H as [|? ? Hx Hn]; subst. apply IH in Hn. destruct Hn as (Na & Nb & D).
      split; [constructor; [intro I; apply Hx, in_or_app; left; exact I | exact Na]|]. split; [exact Nb|].
      intros y [E|I]; [subst y; intro I; apply Hx, in_or_app; right; exact I | apply D, I].
    + intros (Na & Nb & D). inversion Na as [|? ? Hx Na']; subst. constructor.
      * intro I. apply in_app_or in I. destruct I as [I|I]; [exact (Hx I) | exact (D x (or_introl eq_refl) I)].
      * apply IH. split; [exact Na'|]. split; [exact Nb|]. intros y I. apply D. right. exact I.
Qed.

Section U.
Variable dep : N.
Notation mk := (glob_marked dep).

Lemma mids_in_ids : forall L m, In m (mids dep L) -> In m (map lid L).
Proof.
  induction L as [|x L IH]; intros m H; [contradiction|]. rewrite mids_cons in H. cbn [map In].
  destruct (mk x); [destruct H as [H|H]; [left; exact H | right; apply IH, H] | right; apply IH, H].
Qed.

(* identities of the new lines: kept ones of the replaced lines, or fresh *)
Lemma mknew_ids : forall t old nid m, In m (map lid (mknew old t nid)) -> In m (map lid old) \/ (nid <= m < nid + length t)%nat.
Proof.
  induction t as [|x t IH]; intros old nid m H; [contradiction|]. destruct old as [|o old]; cbn [mknew map lid In length] in *.
  - destruct H as [H|H]; [right; lia|]. apply IH in H. destruct H as [[]|H]; right; lia.
  - destruct H as [H|H]; [left; left; exact H|]. apply IH in H. destruct H as [H|H]; [left; right; exact H | right; lia].
Qed.

Lemma mknew_nodup : forall t old nid, NoDup (map lid old) -> Forall (fun i => (i < nid)%nat) (map lid old) ->
  NoDup (map lid (mknew old t nid)).
Proof.
  induction t as [|x t IH]; intros old nid Hn Hf; [constructor|]. destruct old as [|o old]; cbn [mknew map lid] in *.
  - constructor; [intro I; apply mknew_ids in I; destruct I as [[]|I]; lia | apply IH; constructor].
  - inversion Hn as [|? ? Ho Hn']; subst. inversion Hf as [|? ? Fo Hf']; subst. constructor; [|apply IH; assumption].
    intro I. apply mknew_ids in I. destruct I as [I|I]; [exact (Ho I) | lia].
Qed.

(* a replaced line whose identity is kept keeps its mark *)
Lemma mknew_keep : forall t old nid m, NoDup (map lid old) ->
  In m (map lid (mknew old t nid)) -> In m (mids dep old) -> In m (mids dep (mknew old t nid)).
Proof.
  induction t as [|x t IH]; intros old nid m Hn Hi Hm; [contradiction|]. destruct old as [|o old]; [contradiction|].
  cbn [mknew map lid In] in *. inversion Hn as [|? ? Ho Hn']; subst.
  rewrite mids_cons in Hm. rewrite mids_cons. change (mk (mkline (lid o) (lgl o) x)) with (mk o). cbn [lid].
  destruct (mk o).
  - destruct Hm as [Hm|Hm]; [left; exact Hm|]. destruct Hi as [Hi|Hi]; [left; exact Hi|]. right. apply IH; assumption.
  - destruct Hi as [Hi|Hi]; [subst m; exfalso; apply Ho, mids_in_ids, Hm | apply IH; assumption].
Qed.

Lemma Forall_lt_mono (l : list nat) a b : (a <= b)%nat -> Forall (fun i => (i < a)%nat) l -> Forall (fun i => (i < b)%nat) l.
Proof. intros H F. eapply Forall_impl; [|exact F]. cbn. intros; lia. Qed.

Lemma lbuf_replace_nextid s pos n_del l :
  nextid (lbuf_replace s pos n_del l) = (nextid l + length (match s with Some b => split_lines b | None => [] end))%nat.
Proof. unfold lbuf_replace. rewrite !lbuf_mark_nextid. reflexivity. Qed.

Theorem replace_pres s pos n_del l : pres_lb dep l (lbuf_replace s pos n_del l).
Proof.
  intros [Hn Hf]. unfold uniq. rewrite lbuf_replace_nextid, lbuf_replace_lns. unfold splice, new_of.
  set (t := match s with Some b => split_lines b | None => [] end).
  set (A := firstn pos (lns l)). set (old := firstn n_del (skipn pos (lns l))). set (C := skipn (pos + n_del) (lns l)).
  set (nid := nextid l) in *.
  assert (EL : lns l = A ++ old ++ C) by (symmetry; apply split3).
  rewrite EL in Hn, Hf. rewrite !map_app in Hn, Hf.
  apply nodup_app in Hn. destruct Hn as (NA & NOC & DA). apply nodup_app in NOC. destruct NOC as (NO & NC & DO).
  apply Forall_app in Hf. destruct Hf as [FA FOC]. apply Forall_app in FOC. destruct FOC as [FO FC].
  assert (NEW : forall m, In m (map lid (mknew old t nid)) -> In m (map lid old) \/ (nid <= m < nid + length t)%nat) by apply mknew_ids.
  assert (LT : forall (X : list line) m, Forall (fun i => (i < nid)%nat) (map lid X) -> In m (map lid X) -> (m < nid)%nat).
  { intros X m F I. rewrite Forall_forall in F. apply F, I. }
  split; [split|split; [lia|split]].
  - (* NoDup *)
    rewrite !map_app. apply nodup_app. split; [exact NA|]. split.
    + apply nodup_app. split; [apply mknew_nodup; assumption|]. split; [exact NC|].
      intros m I IC. destruct (NEW m I) as [IO|IF]; [exact (DO m IO IC) | pose proof (LT C m FC IC); lia].
    + intros m IA I. apply in_app_or in I. destruct I as [I|I].
      * destruct (NEW m I) as [IO|IF]; [apply (DA m IA), in_or_app; left; exact IO | pose proof (LT A m FA IA); lia].
      * apply (DA m IA), in_or_app. right. exact I.
  - (* below nextid *)
    rewrite !map_app. apply Forall_app. split; [eapply Forall_lt_mono; [|exact FA]; lia|]. apply Forall_app. split.
    + apply Forall_forall. intros m I. destruct (NEW m I) as [IO|IF]; [pose proof (LT old m FO IO); lia | lia].
    + eapply Forall_lt_mono; [|exact FC]. lia.
  - (* a mark is dropped only with its line *)
    intros m Im Ii. rewrite EL in Im. rewrite !mids_app in Im. rewrite !mids_app. rewrite !map_app in Ii.
    apply in_app_or in Im. destruct Im as [Im|Im]; [apply in_or_app; left; exact Im|].
    apply in_app_or in Im. destruct Im as [Im|Im]; [|apply in_or_app; right; apply in_or_app; right; exact Im].
    pose proof (mids_in_ids old m Im) as IO.
    apply in_or_app. right. apply in_or_app. left. apply mknew_keep; [exact NO | | exact Im].
    apply in_app_or in Ii. destruct Ii as [Ii|Ii]; [exfalso; apply (DA m Ii), in_or_app; left; exact IO|].
    apply in_app_or in Ii. destruct Ii as [Ii|Ii]; [exact Ii | exfalso; exact (DO m IO Ii)].
  - (* no identity returns *)
    intros m Hm Ii. rewrite EL. rewrite !map_app in *.
    apply in_app_or in Ii. destruct Ii as [Ii|Ii]; [apply in_or_app; left; exact Ii|].
    apply in_app_or in Ii. destruct Ii as [Ii|Ii]; [|apply in_or_app; right; apply in_or_app; right; exact Ii].
    destruct (NEW m Ii) as [IO|IF]; [apply in_or_app; right; apply in_or_app; left; exact IO | lia].
Qed.

Lemma pres_refl l l' : lns l' = lns l -> nextid l' = nextid l -> pres_lb dep l l'.
Proof. intros E1 E2 U. unfold uniq in *. rewrite E1, E2. split; [exact U|]. split; [lia|]. split; auto. Qed.

Lemma pres_trans l1 l2 l3 : pres_lb dep l1 l2 -> pres_lb dep l2 l3 -> pres_lb dep l1 l3.
Proof.
  intros P1 P2 U1. destruct (P1 U1) as (U2 & N1 & K1 & R1). destruct (P2 U2) as (U3 & N2 & K2 & R2).
  split; [exact U3|]. split; [lia|]. split.
  - intros m Im Ii. apply K2; [|exact Ii]. apply K1; [exact Im|]. apply R2; [|exact Ii].
    destruct U1 as [_ F1]. rewrite Forall_forall in F1. pose proof (F1 m (mids_in_ids _ m Im)). lia.
  - intros m Hm Ii. apply R1; [exact Hm|]. apply R2; [lia | exact Ii].
Qed.

Lemma edit_pres s b e l : pres_lb dep l (lbuf_edit s b e l).
Proof.
  unfold lbuf_edit. destruct (_ && _); [apply pres_refl; reflexivity|].
  eapply pres_trans; [|apply replace_pres]. apply pres_refl; reflexivity.
Qed.

(* ---- the commands ---- *)
Variable rvalid : bytes -> bool.
Variable rfind : bytes -> bytes -> bool -> option (nat * nat).
Variable filter : bytes -> bytes -> option bytes.
Variable readfile : bytes -> option bytes.
Variable curpath : bytes.

Definition pres (s s' : st) : Prop := pres_lb dep (lb s) (lb s').
Lemma pres_same s s' : lb s' = lb s -> pres s s'.
Proof. intro E. unfold pres. rewrite E. apply pres_refl; reflexivity. Qed.
Lemma pres_st_trans s1 s2 s3 : pres s1 s2 -> pres s2 s3 -> pres s1 s3.
Proof. apply pres_trans. Qed.
Lemma pres_edit s t b e : pres s (edit s t b e).
Proof. unfold pres, edit. cbn [lb set_lb]. apply edit_pres. Qed.

Ltac regd loc s :=
  let E := fresh "E" in destruct (ex_region rvalid rfind loc s) as [[[?bad ?b] ?e] ?s1] eqn:E;
  let R := fresh "R" in pose proof (region_slen _ _ _ _ _ _ _ _ E) as R.

Lemma subst_rows_pres : forall n i pat rep g s, pres s (subst_rows rfind n i pat rep g s).
Proof.
  induction n as [|n IH]; intros i pat rep g s; cbn [subst_rows]; [apply pres_same; reflexivity|].
  eapply pres_st_trans; [|apply IH].
  destruct (line_at s i); [|apply pres_same; reflexivity].
  destruct (subst_line _ _ _ _ _ _ _) as [[r|] rest]; [apply pres_edit | apply pres_same; reflexivity].
Qed.

Ltac pick_cmd := unfold ex_simple, is; cbn [bytes_eqb N.eqb Pos.eqb andb orb].

Theorem simple_pres a loc cmd arg txt s : In a track_cmds ->
  pres s (fst (ex_simple rvalid rfind filter readfile curpath a loc cmd arg txt s)).
Proof.
  intros Ha. cbn [track_cmds In] in Ha.
  assert (INS : pres s (fst (ec_insert rvalid rfind loc cmd txt s))).
  { unfold ec_insert. regd loc s. destruct (_ && _); [apply pres_same; exact R|]. cbn [fst].
    eapply pres_st_trans; [apply (pres_same s s1 R)|]. eapply pres_st_trans; [apply pres_edit | apply pres_same; reflexivity]. }
  repeat (destruct Ha as [Ha|Ha]; [subst a; pick_cmd|]); [..|contradiction]; try exact INS.
  - unfold ec_delete. regd loc s. destruct (_ || _); [apply pres_same; exact R|]. cbn [fst].
    eapply pres_st_trans; [apply (pres_same s s1 R)|]. unfold pres, ex_yank, edit. cbn [lb set_xrow set_lb set_regs].
    apply edit_pres.
  - unfold ec_mark. regd loc s. destruct (_ || _); [apply pres_same; exact R|]. cbn [fst]. unfold pres. cbn [lb set_lb].
    apply pres_refl; [rewrite lbuf_mark_lns, R; reflexivity | rewrite lbuf_mark_nextid, R; reflexivity].
  - apply pres_same, print_same.
  - unfold ec_put. destruct (reg_special _); [apply pres_same; reflexivity|].
    destruct (reg_get s _) as [buf|]; [|apply pres_same; reflexivity]. regd loc s.
    destruct (_ && _); [apply pres_same; exact R|]. cbn [fst].
    eapply pres_st_trans; [apply (pres_same s s1 R)|]. eapply pres_st_trans; [apply pres_edit | apply pres_same; reflexivity].
  - unfold ec_read. destruct (_ || _); [apply pres_same; reflexivity|]. regd loc s.
    destruct (_ && _); [apply pres_same; exact R|]. destruct (readfile _) as [data|]; [|apply pres_same; exact R]. cbn [fst].
    eapply pres_st_trans; [apply (pres_same s s1 R)|]. eapply pres_st_trans; [apply pres_edit | apply pres_same; reflexivity].
  - apply pres_same. unfold ec_rs. destruct txt; reflexivity.
  - unfold ec_substitute. regd loc s. destruct bad; [apply pres_same; exact R|]. destruct (re_read arg) as [pat rest].
    assert (K : pres s (kwdset_if s1 pat 1)) by (apply pres_same; rewrite kwdset_if_lb; exact R).
    destruct pat as [p|]; [|exact K]. destruct rest as [|c rest]; [exact K|]. destruct (re_read _) as [rep flags].
    destruct (negb _); [exact K|]. destruct (kwddir _ =? 0)%Z; [exact K|]. destruct (negb _); [exact K|]. cbn [fst].
    eapply pres_st_trans; [exact K | apply subst_rows_pres].
  - apply pres_same. unfold ec_yank. regd loc s. destruct (_ || _); exact R.
  - apply pres_same. unfold ec_lnum. regd loc s. destruct (_ || _); exact R.
  - apply pres_same. reflexivity.
  - apply pres_same. unfold ec_null. rewrite print_same. reflexivity.
Qed.

End U.

Theorem single_pres_exec dep rvalid rfind filter readfile curpath a loc cmd arg txt : In a track_cmds ->
  pres_exec (fun _ s => ex_simple rvalid rfind filter readfile curpath a loc cmd arg txt s) dep.
Proof.
  intros Ha body s s' r E. pose proof (simple_pres dep rvalid rfind filter readfile curpath a loc cmd arg txt s Ha) as P.
  rewrite E in P. exact P.
Qed.

(* ---------------------------------------------------------------------------------------- *)
(* completeness: every line of the original range still in the buffer at the normal end of the scan was visited *)
Section CP.
Variable dep : N.
Variable rfind : bytes -> bytes -> bool -> option (nat * nat).
Variable exec : bytes -> st -> st * Z.
Hypothesis exec_ok : good_exec exec dep.
Hypothesis exec_pres : pres_exec exec dep.

Definition ginv3 (M0 : list nat) (first i : nat) (l : lbuf) (vis : list nat) : Prop :=
  (i < length (lns l))%nat /\ clean_below dep (S i) (lns l) /\ uniq l /\ (forall m, In m M0 -> (m < nextid l)%nat) /\
  exists vs, vis ++ [lid (nth i (lns l) dline)] = first :: vs /\ sub (vs ++ mids dep (lns l)) M0 /\
             (forall m, In m M0 -> In m (map lid (lns l)) -> In m (vs ++ mids dep (lns l))).

Theorem glob_complete_present M0 first pat body not : forall fuel i s vis,
  ginv3 M0 first i (lb s) (map fst vis) ->
  let '(s', vis', x) := glob_loop_x rfind exec fuel i pat body not dep s vis in
  x = 0%N ->
  exists vs, map fst vis' = first :: vs /\ sub vs M0 /\ mids dep (lns (lb s')) = [] /\ uniq (lb s') /\
             (forall m, In m M0 -> In m (map lid (lns (lb s'))) -> In m vs).
Proof.
  induction fuel as [|f IH]; intros i s vis (Li & Hc & U & HM & vs & Hv & Hs & Hk); cbn [glob_loop_x]; [discriminate|].
  destruct (nth_error (lns (lb s)) i) as [x|] eqn:Nx; [|apply nth_error_None in Nx; lia].
  assert (Ex : nth i (lns (lb s)) dline = x) by (apply nth_error_nth; exact Nx).
  rewrite Ex in Hv.
  set (run := Bool.eqb _ not).
  destruct (if run then exec body (set_xrow s (Z.of_nat i)) else (s, 0%Z)) as [s1 r] eqn:EB.
  set (i1 := if run then Z.to_nat (Z.min (Z.of_nat i) (xrow s1)) else i).
  assert (B : sub (mids dep (lns (lb s1))) (mids dep (lns (lb s))) /\ clean_below dep i1 (lns (lb s1)) /\ pres_lb dep (lb s) (lb s1)).
  { unfold i1. destruct run.
    - destruct (exec_ok body (set_xrow s (Z.of_nat i)) s1 r EB) as [B1 B2].
      + cbn [xrow set_xrow]. lia.
      + cbn [xrow set_xrow lb]. rewrite Nat2Z.id. exact Hc.
      + split; [exact B1|]. split; [cbn [xrow set_xrow] in B2; exact B2|]. exact (exec_pres body (set_xrow s (Z.of_nat i)) s1 r EB).
    - inversion EB; subst. split; [apply sub_refl|]. split; [intros j Hj; apply Hc; lia | apply pres_refl; reflexivity]. }
  destruct B as (B1 & B2 & P). destruct (P U) as (U1 & N1 & K1 & R1).
  assert (Hs1 : sub (vs ++ mids dep (lns (lb s1))) M0) by (eapply sub_trans; [apply sub_app_head; exact B1 | exact Hs]).
  assert (HM1 : forall m, In m M0 -> (m < nextid (lb s1))%nat) by (intros m Im; specialize (HM m Im); lia).
  assert (Hk1 : forall m, In m M0 -> In m (map lid (lns (lb s1))) -> In m (vs ++ mids dep (lns (lb s1)))).
  { intros m Im Ii. pose proof (R1 m (HM m Im) Ii) as I0. specialize (Hk m Im I0). apply in_app_or in Hk. apply in_or_app.
    destruct Hk as [Hk|Hk]; [left; exact Hk | right; apply K1; assumption]. }
  destruct (run && negb (r =? 0)%Z); [discriminate|].
  unfold glob_scan.
  destruct (mids dep (lns (lb s1))) as [|m ms] eqn:ML.
  - rewrite (scan_none dep _ i1 ML). rewrite app_nil_r in Hs1.
    destruct f as [|f']; cbn [glob_loop_x]; [discriminate|].
    cbn [lb set_lb with_lns lns].
    replace (nth_error (lns (lb s1)) (length (lns (lb s1)))) with (@None line) by (symmetry; apply nth_error_None; lia).
    intros _. exists vs. split; [rewrite map_fst_app; exact Hv|]. split; [exact Hs1|]. split; [exact ML|]. split; [exact U1|].
    intros m0 Im Ii. specialize (Hk1 m0 Im Ii). rewrite app_nil_r in Hk1. exact Hk1.
  - pose proof (scan_some dep (lns (lb s1)) i1 m ms B2 ML) as SS. pose proof (scan_len dep (lns (lb s1)) i1) as SL.
    pose proof (scan_l_lid (lns (lb s1)) i1 dep) as SI.
    destruct (scan_l i1 dep (lns (lb s1))) as [j L2]. destruct SS as (J1 & J0 & J2 & J3 & J4). cbn [fst snd] in SL, SI.
    specialize (IH j (set_lb s1 (with_lns (lb s1) L2)) (vis ++ [(lid x, run)])).
    assert (G : ginv3 M0 first j (lb (set_lb s1 (with_lns (lb s1) L2))) (map fst (vis ++ [(lid x, run)]))).
    { cbn [lb set_lb with_lns lns]. unfold ginv3, uniq. cbn [lns nextid with_lns]. rewrite SI.
      split; [lia|]. split; [exact J4|]. split; [exact U1|]. split; [exact HM1|]. exists (vs ++ [m]). split.
      - rewrite map_fst_app. cbn [fst]. rewrite Hv, J2. reflexivity.
      - rewrite J3, <- app_assoc. split; [exact Hs1 | exact Hk1]. }
    exact (IH G).
Qed.
End CP.

Lemma globset_range_nextid : forall n i dep l, nextid (globset_range n i dep l) = nextid l.
Proof. induction n; intros; [reflexivity|]. cbn. rewrite IHn. reflexivity. Qed.

Theorem glob_present_from_marking dep rfind exec :
  good_exec exec dep -> pres_exec exec dep ->
  forall s b n pat body not fuel,
  uniq (lb s) -> nomarks dep (lns (lb s)) -> (b < length (lns (lb s)))%nat ->
  let M0 := map lid (firstn n (skipn (S b) (lns (lb s)))) in
  let first := lid (nth b (lns (lb s)) dline) in
  let '(s', vis', x) := glob_loop_x rfind exec fuel b pat body not dep (set_lb s (globset_range n (S b) dep (lb s))) [] in
  x = 0%N -> exists vs, map fst vis' = first :: vs /\ sub vs M0 /\ mids dep (lns (lb s')) = [] /\ uniq (lb s') /\
                        (forall m, In m M0 -> In m (map lid (lns (lb s'))) -> In m vs).
Proof.
  intros Hg Hp s b n pat body not fuel U Hn Hb M0 first.
  set (s4 := set_lb s (globset_range n (S b) dep (lb s))).
  assert (L4 : lns (lb s4) = mark_rng dep (S b) n (lns (lb s))) by (unfold s4; cbn [lb set_lb]; apply globset_range_lns).
  assert (N4 : nextid (lb s4) = nextid (lb s)) by (unfold s4; cbn [lb set_lb]; apply globset_range_nextid).
  assert (I4 : map lid (lns (lb s4)) = map lid (lns (lb s))) by (rewrite L4; apply map_lid_mark_rng).
  pose proof (marking_ginv dep (lns (lb s)) b n Hn) as G1. fold M0 first in G1. rewrite <- L4 in G1.
  assert (G3 : ginv3 dep M0 first b (lb s4) (map fst (@nil (nat * bool)))).
  { destruct G1 as (C & vs & V & S1). split; [rewrite <- (map_length lid), I4, map_length; exact Hb|].
    split; [exact C|]. split; [unfold uniq; rewrite I4, N4; exact U|]. split.
    - intros m Im. rewrite N4. destruct U as [_ F]. unfold M0 in Im. rewrite <- firstn_map, <- skipn_map in Im.
      pose proof (Forall_firstn' _ n _ (Forall_skipn' _ (S b) _ F)) as F2. rewrite Forall_forall in F2. apply F2, Im.
    - exists vs. split; [exact V|]. split; [exact S1|].
      intros m Im _. cbn [map app] in V. inversion V; subst vs. cbn [app]. rewrite L4, mids_mark_rng by exact Hn. exact Im. }
  exact (glob_complete_present dep rfind exec Hg Hp M0 first pat body not fuel b s4 [] G3).
Qed.

(* for a global whose command list is ONE command of the list (now also d and c) *)
Theorem single_command_visits_present dep rvalid rfind filter readfile curpath a loc cmd arg txt : In a track_cmds ->
  forall s b n pat body not fuel,
  uniq (lb s) -> nomarks dep (lns (lb s)) -> (b < length (lns (lb s)))%nat ->
  let M0 := map lid (firstn n (skipn (S b) (lns (lb s)))) in
  let first := lid (nth b (lns (lb s)) dline) in
  let '(s', vis', x) := glob_loop_x rfind (fun _ s => ex_simple rvalid rfind filter readfile curpath a loc cmd arg txt s)
                          fuel b pat body not dep (set_lb s (globset_range n (S b) dep (lb s))) [] in
  x = 0%N -> exists vs, map fst vis' = first :: vs /\ sub vs M0 /\ mids dep (lns (lb s')) = [] /\ uniq (lb s') /\
                        (forall m, In m M0 -> In m (map lid (lns (lb s'))) -> In m vs).
Proof.
  intros Ha. apply glob_present_from_marking;
    [apply single_good_exec, Ha | apply single_pres_exec, Ha].
Qed.

(* the buffer `vi -s -e file` starts with has unique identities (and every command of the list keeps that: simple_pres) *)
Lemma uniq_init data : uniq (init_lbuf data).
Proof.
  unfold init_lbuf. set (l0 := mklb [] (repeat (-1, None)%Z NMARKS) [] 0 1 0 0 0).
  assert (U0 : uniq l0) by (split; constructor).
  destruct (edit_pres 0%N (Some data) 0 0 l0 U0) as [U1 _]. exact U1.
Qed.
