(* TrSearchLit2.v -- C13, round i/j: the matcher of TrSearchLit.tr_lbuf_search_lit (= what the TRANSLATED rstr_find of rstr.c computes,
   TrRstr.tr_rstr_find) returns the LEAST offset of the line at which the anchored literal is satisfied (RstrDefs.sat_b: the literal
   occurs there, ^ \< \> $ judged on the bytes of the subject) -- every start offset is examined, an occurrence that fails \< or \>
   does not hide one that begins inside it.  From C12's RstrProps.equiv_spec. *)
From Coq Require Import List NArith ZArith Bool Arith Lia.
From NV Require Import Bytes RstrDefs RstrProps.
From NV Require TrSearchLit.
Import ListNotations.
Local Open Scope nat_scope.

Lemma find_seq_least (f : nat -> bool) : forall n a,
  match find f (seq a n) with
  | Some i => a <= i < a + n /\ f i = true /\ forall q, a <= q < i -> f q = false
  | None => forall q, a <= q < a + n -> f q = false
  end.
Proof.
  induction n as [|n IH]; intros a; cbn [seq find]; [intros q Hq; lia|].
  destruct (f a) eqn:E.
  - split; [lia|]. split; [exact E|]. intros q Hq. lia.
  - specialize (IH (S a)). destruct (find f (seq (S a) n)) as [i|].
    + destruct IH as (H1 & H2 & H3). split; [lia|]. split; [exact H2|].
      intros q Hq. destruct (Nat.eq_dec q a) as [->|Hne]; [exact E|]. apply H3. lia.
    + intros q Hq. destruct (Nat.eq_dec q a) as [->|Hne]; [exact E|]. apply IH. lia.
Qed.

Theorem find_lit_least rs content nb : ~ In 0%N content -> ~ In 10%N content -> ~ In 10%N (r_str rs) ->
  let L := content ++ [10%N] in
  match TrSearchLit.find_lit rs L nb with
  | Some (p, e) => p <= length content /\ e = p + length (r_str rs) /\ sat_b (spat_of rs) (r_icase rs) nb L p = true /\
                   forall q, q < p -> sat_b (spat_of rs) (r_icase rs) nb L q = false
  | None => forall q, q <= length content -> sat_b (spat_of rs) (r_icase rs) nb L q = false
  end.
Proof.
  intros Hz H10 Hl L. unfold TrSearchLit.find_lit. unfold L. rewrite (equiv_spec rs content nb false Hz H10 Hl).
  unfold spec_res, spec_find.
  pose proof (find_seq_least (sat_b (spat_of rs) (r_icase rs) nb (content ++ [10%N])) (S (length content)) 0) as F.
  destruct (find _ (seq 0 (S (length content)))) as [i|].
  - destruct F as (H1 & H2 & H3). rewrite !Nat2Z.id. cbn [spat_of p_lit].
    split; [lia|]. split; [reflexivity|]. split; [exact H2|]. intros q Hq. apply H3. lia.
  - intros q Hq. apply F. lia.
Qed.
