(* IoReadDefs.v -- the READ side of C01 under a schedule of read(2) results (executable model, no proofs here).
   IoDefs.lbuf_rd takes the chunks successive read(2) calls deliver and assumes the last call returns 0.  Here the
   schedule says what EVERY read(2) call returns: some bytes (a short read of any size), 0 = end of file, -1 = error;
   an exhausted schedule is end of file.  Mirrors lbuf.c lbuf_rd:

       while ((nr = read(fd, buf, sizeof(buf))) > 0) sbuf_mem(sb, buf, nr);
       if (!nr) lbuf_edit(lbuf, sbuf_buf(sb), beg, end);
       sbuf_free(sb);
       return nr != 0;

   so a failing read DROPS the text read so far: the buffer is not touched and 1 is returned. *)
From Coq Require Import List NArith ZArith Bool.
From NV Require Import Bytes IoDefs.
Import ListNotations.

(* what one read(2) call returns *)
Inductive rout := RChunk (bs : bytes) | REof | RErr.

(* the chunks lbuf_rd appends to its sbuf: those delivered before the first result <= 0 *)
Fixpoint rd_chunks (s : list rout) : list bytes :=
  match s with
  | RChunk bs :: r => bs :: rd_chunks r
  | _ => []
  end.
(* the loop was left by nr == 0 (true) or by nr < 0 (false) *)
Fixpoint rd_ok (s : list rout) : bool :=
  match s with
  | RChunk _ :: r => rd_ok r
  | RErr :: _ => false
  | _ => true
  end.
(* the results no call consumed *)
Fixpoint rd_rest (s : list rout) : list rout :=
  match s with
  | RChunk _ :: r => rd_rest r
  | _ :: r => r
  | [] => []
  end.
(* the results the calls of lbuf_rd consumed *)
Fixpoint rd_used (s : list rout) : list rout :=
  match s with
  | RChunk bs :: r => RChunk bs :: rd_used r
  | o :: _ => [o]
  | [] => []
  end.

(* lbuf_rd(lb, fd, beg, end) under the schedule s: the buffer afterwards (None = IoDefs.lbuf_replace out of fuel, which
   IoProps.grow_total excludes) and the value returned *)
Definition lbuf_rd_sched (lb : lbuf) (s : list rout) (b e : nat) : option lbuf * Z :=
  if rd_ok s then (lbuf_rd lb (rd_chunks s) b e, 0%Z) else (Some lb, 1%Z).

(* the schedule that delivers a file in the given chunks and then reports end of file / an error *)
Definition sched_of (chunks : list bytes) (last : rout) : list rout := map RChunk chunks ++ [last].

(* read a file under a read schedule into an empty buffer and, if that worked, write everything over old *)
Definition read_then_write_sched (s : list rout) (old : bytes) : option bytes :=
  match lbuf_rd_sched lbuf_make s 0 0 with
  | (Some lb, 0%Z) => Some (save_file (ln lb) 0 (length (ln lb)) old)
  | _ => None
  end.
