(* TrSpliceCut.v -- lbuf_replace of /repo/lbuf.c on the translated C text, part 3: the loop that cuts the text s into lines,
   allocates each line with room for "\n\0", copies it, terminates it and stores the pointer in ln[pos + i].
   The lines it builds are IoDefs.split_lines of the text (every inserted line newline-terminated). *)
From Coq Require Import List ZArith NArith Bool Lia.
From NV Require Import Bytes CLite CLiteProps GenCFuncs CLiteTac TrLbufBase IoDefs TrLbufLines TrSplice TrSpliceMove.
Import ListNotations.
Local Open Scope Z_scope.

Definition rp_cut : stmt := match rp_rest4 with SSeq a _ => a | _ => SSkip end.
Definition rp_cut_loop : stmt := match rp_cut with SSeq _ l => l | _ => SSkip end.
Definition rp_rest5 : stmt := match rp_rest4 with SSeq _ r => r | _ => SSkip end.

(* ---- lists *)
Lemma nth_lt {A} (m : list A) b x : nth_error m b = Some x -> (b < length m)%nat.
Proof. intro H. apply nth_error_Some. congruence. Qed.
Lemma upd_app_l {A} (M R : list A) b x : (b < length M)%nat -> upd (M ++ R) b x = upd M b x ++ R.
Proof.
  intro H. unfold upd. rewrite firstn_app, skipn_app. replace (b - length M)%nat with 0%nat by lia.
  replace (S b - length M)%nat with 0%nat by lia. cbn [firstn skipn]. rewrite app_nil_r, <- app_assoc. reflexivity.
Qed.
Lemma upd_two_tail {A} (X : list A) a b x y : upd (upd (X ++ [a; b]) (length X) x) (length X + 1) y = X ++ [x; y].
Proof.
  induction X as [|c X IH]; [reflexivity|]. cbn [length app Nat.add].
  change (upd (c :: X ++ [a; b]) (S (length X)) x) with (c :: upd (X ++ [a; b]) (length X) x).
  change (upd (c :: upd (X ++ [a; b]) (length X) x) (S (length X + 1)) y) with (c :: upd (upd (X ++ [a; b]) (length X) x) (length X + 1) y).
  rewrite IH. reflexivity.
Qed.

(* ---- the first line of a text, as the loop cuts it: l = linelength(s), l_nonl = l - (s[l - 1] == '\n') *)
Definition nonl_len (t : bytes) : nat := (linelen t - (if is_nl (nthb t (linelen t - 1)) then 1 else 0))%nat.
Lemma norm_cons c x : x <> [] -> norm (c :: x) = c :: norm x.
Proof.
  intro H. unfold norm. cbn [rev]. destruct (rev x) as [|y r] eqn:E.
  - apply (f_equal (@rev N)) in E. rewrite rev_involutive in E. contradiction.
  - cbn [app]. destruct (is_nl y); reflexivity.
Qed.
Lemma first_line_norm t : t <> [] -> norm (firstn (linelen t) t) = firstn (nonl_len t) t ++ [NL] /\ (nonl_len t <= linelen t)%nat.
Proof.
  unfold nonl_len. induction t as [|c t IH]; intro H; [congruence|]. cbn [linelen]. destruct (is_nl c) eqn:E.
  - cbn [Nat.sub nthb nth]. unfold nthb. cbn [nth]. rewrite E. cbn [firstn]. unfold norm. cbn [rev app]. rewrite E.
    assert (c = NL) by (apply N.eqb_eq; exact E). subst c. split; [reflexivity|clear; lia].
  - destruct t as [|c' t'].
    + cbn [linelen Nat.sub]. unfold nthb. cbn [nth]. rewrite E. cbn [firstn]. unfold norm. cbn [rev app]. rewrite E. split; [reflexivity|lia].
    + destruct (IH ltac:(discriminate)) as [IH1 IH2]. set (t := c' :: t') in *.
      assert (Hl : (1 <= linelen t)%nat) by (apply linelen_pos; discriminate).
      replace (S (linelen t) - 1)%nat with (S (linelen t - 1)) by lia.
      change (nthb (c :: t) (S (linelen t - 1))) with (nthb t (linelen t - 1)).
      cbn [firstn]. rewrite norm_cons.
      * rewrite IH1. destruct (is_nl (nthb t (linelen t - 1))).
        -- replace (S (linelen t) - 1)%nat with (S (linelen t - 1)) by lia. cbn [firstn app]. split; [reflexivity|lia].
        -- rewrite !Nat.sub_0_r. cbn [firstn app]. split; [reflexivity|lia].
      * intro E2. apply (f_equal (@length N)) in E2. rewrite firstn_length in E2. cbn [length] in E2. unfold t in *. cbn [length] in E2. lia.
Qed.
Lemma eq_nl32 : forall c, (c < 256)%N -> (wrap I32 (wrap I8 (Z.of_N c)) =? 10) = is_nl c.
Proof. byte_fact. Qed.

(* the cells of a C string in memory *)
Lemma firstn_cstr (t : bytes) k : (k <= length t)%nat -> firstn k (cstr_block (zb t)) = map VInt (zb (firstn k t)).
Proof.
  intro H. unfold cstr_block, zb. rewrite firstn_app, !map_length. replace (k - length t)%nat with 0%nat by lia.
  cbn [firstn]. rewrite app_nil_r, !firstn_map. reflexivity.
Qed.
Lemma cstr_snoc_nl (x : bytes) : map VInt (zb x) ++ [VInt 10; VInt 0] = cstr_block (zb (x ++ [NL])).
Proof. unfold cstr_block, zb. rewrite !map_app, <- app_assoc. reflexivity. Qed.

(* ---- the loop *)
Definition line_blk (l : bytes) : block := cstr_block (zb l).
Definition new_ptrs (base k : nat) : list val := map (fun j => VPtr j 0) (seq base k).

Lemma cut_loop_ok fuel d lb blk bln bs text pos ni vnd v6 v7 v8 :
  nth_error blk L_ln = Some (VPtr bln 0) -> nonul text -> Z.of_nat (length text) + 2 <= 2147483647 ->
  Z.of_nat pos + Z.of_nat ni <= 2147483647 -> bs <> bln -> bs <> lb -> lb <> bln ->
  forall k i o (m : mem) (lnblk : block) fuel' v9 v10 v11, linecount (skipn o text) = k -> (i + k = ni)%nat -> (o <= length text)%nat ->
  nth_error m lb = Some blk -> nth_error m bln = Some lnblk -> str_at m bs text -> (pos + ni <= length lnblk)%nat -> (k < fuel')%nat ->
  exists o' v9' v10' v11',
  exec (callf cprog fuel (S d)) fuel' rp_cut_loop
    (mkst [VPtr lb 0; VPtr bs (Z.of_nat o); VInt (Z.of_nat pos); vnd; VInt (Z.of_nat ni); VInt (Z.of_nat i); v6; v7; v8; v9; v10; v11] m)
  = ONormal (mkst [VPtr lb 0; VPtr bs o'; VInt (Z.of_nat pos); vnd; VInt (Z.of_nat ni); VInt (Z.of_nat ni); v6; v7; v8; v9'; v10'; v11']
       (upd (m ++ map line_blk (split_lines (skipn o text))) bln (put_cells lnblk (pos + i) (new_ptrs (length m) k)))).
Proof.
  intros Hln Hnn Hmax Hpn Nsl Nsb Nbl. pose proof (nonul_lt256 text Hnn) as H256.
  induction k as [|k IH]; intros i o m lnblk fuel' v9 v10 v11 Hk Hik Ho Hb Hl Hs Hcap Hf; (destruct fuel' as [|fuel']; [lia|]);
    unfold rp_cut_loop, rp_cut, rp_rest4, rp_rest3, rp_rest2, rp_rest1, rp_body; cbn [fn_body cf_lbuf_replace]; rewrite exec_for; xstep.
  - assert (i = ni) by lia. subst i. destruct (Z.ltb_spec (Z.of_nat ni) (Z.of_nat ni)); [lia|]. xstep.
    assert (E : skipn o text = []).
    { destruct (skipn o text) eqn:E; [reflexivity|]. rewrite linecount_step in Hk by discriminate. discriminate. }
    rewrite E. cbn [split_lines split_aux map new_ptrs seq]. rewrite app_nil_r, put_cells_nil, (upd_self m bln lnblk Hl).
    exists (Z.of_nat o), v9, v10, v11. reflexivity.
  - destruct (Z.ltb_spec (Z.of_nat i) (Z.of_nat ni)); [|lia]. xstep.
    set (t := skipn o text) in *.
    assert (Hne : t <> []) by (intro E; rewrite E in Hk; discriminate).
    assert (Hlt : (o < length text)%nat).
    { destruct (Nat.lt_ge_cases o (length text)); [assumption|]. exfalso. apply Hne. unfold t. apply skipn_all2. lia. }
    rewrite (tr_linelength m bs text o d fuel Hs Hnn Ho ltac:(lia)). fold t. xstep.
    set (l := linelen t).
    assert (Hl1 : (1 <= l <= length text - o)%nat).
    { split; [apply linelen_pos; exact Hne|]. unfold l, t. rewrite <- (skipn_length o text). apply linelen_le. }
    rewrite chk_I32 by lia. xstep.
    rewrite (load_str m bs text _ (o + (l - 1)) Hs) by lia. xstep.
    rewrite (eq_nl32 _ (nthb_lt256 text _ H256)).
    replace (nthb text (o + (l - 1))) with (nthb t (l - 1)) by (unfold t; apply nthb_skipn).
    destruct (first_line_norm t Hne) as [Hnorm Hle]. fold l in Hnorm, Hle.
    set (k0 := nonl_len t) in *.
    assert (Ek0 : Z.of_nat l - b2z (is_nl (nthb t (l - 1))) = Z.of_nat k0).
    { unfold k0, nonl_len. fold l. destruct (is_nl (nthb t (l - 1))); cbn [b2z]; lia. }
    rewrite Ek0. rewrite chk_I32 by lia. xstep. rewrite chk_I32 by lia. xstep. rewrite wrap_U64_id by lia.
    rewrite malloc_ok by lia. xstep. rewrite wrap_U64_id by lia. cbn [memm locals].
    set (U := repeat VUndef (Z.to_nat (Z.of_nat k0 + 2))).
    match goal with |- context [do_builtin_m BMemcpy _ ?mm] => set (m1 := mm) end.
    assert (A1 : nth_error m1 (length m) = Some U) by apply nth_error_app_new.
    assert (Lbs : (bs < length m)%nat) by (exact (nth_lt _ _ _ Hs)).
    assert (Lbl : (lb < length m)%nat) by (apply nth_error_Some; congruence).
    assert (Lln : (bln < length m)%nat) by (apply nth_error_Some; congruence).
    assert (S1 : nth_error m1 bs = Some (cstr_block (zb text))) by (unfold m1; rewrite nth_error_app_old by lia; exact Hs).
    rewrite (memcpy_ok m1 (length m) 0 bs (Z.of_nat o) (Z.of_nat k0) U _ A1 S1)
      by (unfold U, cstr_block, zb; rewrite ?repeat_length, ?app_length, ?map_length; cbn [length]; lia).
    xstep. cbn [memm locals]. rewrite !Nat2Z.id. change (Z.to_nat 0) with 0%nat.
    rewrite skipn_cstr_block by lia. fold t. rewrite firstn_cstr by (unfold t; rewrite skipn_length; lia).
    set (X := map VInt (zb (firstn k0 t))).
    assert (LX : length X = k0) by (unfold X, zb, t; rewrite !map_length, firstn_length, skipn_length; lia).
    replace (put_cells U 0 X) with (X ++ [VUndef; VUndef]).
    2:{ rewrite put_cells_0. f_equal. rewrite LX. unfold U. rewrite skipn_repeat. replace (Z.to_nat (Z.of_nat k0 + 2) - k0)%nat with 2%nat by lia. reflexivity. }
    unfold m1. rewrite !upd_app_new. set (m2 := m ++ [X ++ [VUndef; VUndef]]).
    (* n[l_nonl] = '\n'; n[l_nonl + 1] = '\0' *)
    rewrite chk_I32 by lia. xstep. change (wrap I8 (wrap I8 10)) with 10.
    assert (A2 : nth_error m2 (length m) = Some (X ++ [VUndef; VUndef])) by apply nth_error_app_new.
    rewrite (store_ok m2 (length m) _ _ _ A2) by (rewrite app_length, LX; cbn [length]; lia). xstep.
    unfold m2. rewrite !upd_app_new. rewrite chk_I32 by lia. xstep. change (wrap I8 (wrap I8 0)) with 0.
    set (m3 := m ++ [upd (X ++ [VUndef; VUndef]) (Z.to_nat (0 + 1 * (Z.of_nat k0 + 0))) (VInt 10)]).
    assert (A3 : nth_error m3 (length m) = Some (upd (X ++ [VUndef; VUndef]) (Z.to_nat (0 + 1 * (Z.of_nat k0 + 0))) (VInt 10))) by apply nth_error_app_new.
    rewrite (store_ok m3 (length m) _ _ _ A3) by (rewrite upd_length by (rewrite app_length, LX; cbn [length]; lia); rewrite app_length, LX; cbn [length]; lia).
    xstep. unfold m3. rewrite !upd_app_new.
    replace (Z.to_nat (0 + 1 * (Z.of_nat k0 + 0))) with (length X) by lia. replace (Z.to_nat (0 + 1 * (Z.of_nat k0 + 1))) with (length X + 1)%nat by lia.
    rewrite upd_two_tail. unfold X. rewrite cstr_snoc_nl, <- Hnorm. fold (line_blk (norm (firstn l t))).
    set (m4 := m ++ [line_blk (norm (firstn l t))]).
    (* lb->ln[pos + i] = n *)
    assert (B4 : nth_error m4 lb = Some blk) by (unfold m4; rewrite nth_error_app_old by lia; exact Hb).
    assert (L4 : nth_error m4 bln = Some lnblk) by (unfold m4; rewrite nth_error_app_old by lia; exact Hl).
    xfld B4 Hln. rewrite chk_I32 by lia. xstep.
    rewrite (store_ok m4 bln lnblk _ _ L4) by lia. xstep. rewrite chk_I32 by lia. xstep.
    replace (Z.to_nat (0 + 1 * (Z.of_nat pos + Z.of_nat i))) with (pos + i)%nat by lia.
    replace (Z.of_nat i + 1) with (Z.of_nat (S i)) by lia. replace (Z.of_nat o + 1 * Z.of_nat l) with (Z.of_nat (o + l)) by lia.
    destruct (upd_frame m4 bln lnblk (upd lnblk (pos + i) (VPtr (length m) 0)) L4) as (F1 & F2 & F3). set (m5 := upd m4 bln _) in *.
    assert (Hk' : linecount (skipn (o + l) text) = k).
    { rewrite linecount_step in Hk by exact Hne. injection Hk as Hk. fold l in Hk. unfold t in Hk. rewrite skipn_skipn in Hk. replace (l + o)%nat with (o + l)%nat in Hk by lia. exact Hk. }
    destruct (IH (S i) (o + l)%nat m5 (upd lnblk (pos + i) (VPtr (length m) 0)) fuel' (VInt (Z.of_nat l)) (VInt (Z.of_nat k0)) (VPtr (length m) 0) Hk' ltac:(lia) ltac:(lia))
      as (o' & v9' & v10' & v11' & E).
    + rewrite F2 by congruence. exact B4.
    + exact F1.
    + unfold str_at. rewrite F2 by congruence. unfold m4. rewrite nth_error_app_old by lia. exact Hs.
    + rewrite upd_length by lia. exact Hcap.
    + lia.
    + unfold rp_cut_loop, rp_cut, rp_rest4, rp_rest3, rp_rest2, rp_rest1, rp_body in E; cbn [fn_body cf_lbuf_replace] in E. rewrite E. clear E.
      exists o', v9', v10', v11'. f_equal. f_equal.
      rewrite (split_lines_step t Hne). fold l. unfold t at 2. rewrite skipn_skipn. replace (l + o)%nat with (o + l)%nat by lia.
      cbn [map]. rewrite F3. unfold m5, m4. rewrite app_length. cbn [length]. replace (length m + 1)%nat with (S (length m)) by lia.
      rewrite upd_app_l by (rewrite upd_length; rewrite app_length; cbn [length]; lia).
      rewrite upd_upd by (rewrite app_length; cbn [length]; lia).
      rewrite <- upd_app_l by (rewrite app_length; cbn [length]; lia). rewrite <- app_assoc. cbn [app]. f_equal.
      replace (pos + S i)%nat with (S (pos + i)) by lia. rewrite put_cells_cons by lia. reflexivity.
Qed.

(* the statement  for (i = 0; i < n_ins; i++) { ... }  from the start of the text *)
Lemma cut_ok fuel d lb blk bln bs text o pos ni vnd vi v6 v7 v8 v9 v10 v11 (m : mem) (lnblk : block) :
  nth_error blk L_ln = Some (VPtr bln 0) -> nonul text -> Z.of_nat (length text) + 2 <= 2147483647 ->
  Z.of_nat pos + Z.of_nat ni <= 2147483647 -> bs <> bln -> bs <> lb -> lb <> bln ->
  linecount (skipn o text) = ni -> (o <= length text)%nat ->
  nth_error m lb = Some blk -> nth_error m bln = Some lnblk -> str_at m bs text -> (pos + ni <= length lnblk)%nat -> (ni < fuel)%nat ->
  exists o' v9' v10' v11',
  exec (callf cprog fuel (S d)) fuel rp_cut
    (mkst [VPtr lb 0; VPtr bs (Z.of_nat o); VInt (Z.of_nat pos); vnd; VInt (Z.of_nat ni); vi; v6; v7; v8; v9; v10; v11] m)
  = ONormal (mkst [VPtr lb 0; VPtr bs o'; VInt (Z.of_nat pos); vnd; VInt (Z.of_nat ni); VInt (Z.of_nat ni); v6; v7; v8; v9'; v10'; v11']
       (upd (m ++ map line_blk (split_lines (skipn o text))) bln (put_cells lnblk pos (new_ptrs (length m) ni)))).
Proof.
  intros Hln Hnn Hmax Hpn N1 N2 N3 Hk Ho Hb Hl Hs Hcap Hf.
  destruct (cut_loop_ok fuel d lb blk bln bs text pos ni vnd v6 v7 v8 Hln Hnn Hmax Hpn N1 N2 N3 ni O o m lnblk fuel v9 v10 v11 Hk eq_refl Ho Hb Hl Hs Hcap Hf)
    as (o' & v9' & v10' & v11' & E).
  exists o', v9', v10', v11'. rewrite Nat.add_0_r in E. rewrite <- E.
  unfold rp_cut_loop, rp_cut, rp_rest4, rp_rest3, rp_rest2, rp_rest1, rp_body; cbn [fn_body cf_lbuf_replace]. rewrite exec_seq. xstep. reflexivity.
Qed.
(* nothing to insert (in particular s == NULL): the loop body does not run, s is not read *)
Lemma cut_zero call fuel lb sv vpos vnd vi v6 v7 v8 v9 v10 v11 (m : mem) : (0 < fuel)%nat ->
  exec call fuel rp_cut (mkst [VPtr lb 0; sv; vpos; vnd; VInt 0; vi; v6; v7; v8; v9; v10; v11] m)
  = ONormal (mkst [VPtr lb 0; sv; vpos; vnd; VInt 0; VInt 0; v6; v7; v8; v9; v10; v11] m).
Proof.
  intro Hf. destruct fuel as [|fuel]; [lia|].
  unfold rp_cut, rp_rest4, rp_rest3, rp_rest2, rp_rest1, rp_body; cbn [fn_body cf_lbuf_replace]. rewrite exec_seq. xstep. rewrite exec_for. xstep. reflexivity.
Qed.
