(* TrGlob.v -- C15: the loops of /repo/ex.c ec_glob (the CLite term cf_ec_glob of GenCFuncs.v, whitelist tools/c2clite.d/99zz_glob.list)
   are the model's globset_range / glob_scan / globclear / glob_loop (coq/ExDefs.v), BY PROOF, relative to oracles for the functions
   ec_glob calls that are not translated:

     for (i = beg + 1; i < end; i++) lbuf_globset(xb, i, xgdep);                         mark_loop   = ExDefs.globset_range
     while (i < lbuf_len(xb) && !lbuf_globget(xb, i, xgdep)) i++;                        scan_loop   = ExDefs.glob_scan
     for (i = 0; i < lbuf_len(xb); i++) lbuf_globget(xb, i, xgdep);                      sweep_loop  = ExDefs.globclear
     while (i < lbuf_len(xb)) { ln = lbuf_get(xb, i); if ((rstr_find(...) < 0) == not) { xrow = i; if (ex_exec(s)) break;
        i = MAX(0, MIN(i, xrow)); }  scan_loop }                                          visit_loop  = ExDefs.glob_loop (GlobDefs.glob_loop_x)
     xgdep++; mark_loop; i = beg; visit_loop; sweep_loop; xgdep--; rstr_free(re); return 0   glob_tail = the tail of ExDefs.ec_glob

   The memory: `xb` is ex_lbuf() = bufs[0].lb (cell 33 of the global block G_bufs), a struct lbuf of 75 cells (TrLbufBase) whose field
   ln_n is the number of lines, ln points to the table of line pointers and ln_glob to the char array of marks (TrLbufGlob.glob_rep);
   xrow and xgdep are one-cell global blocks.  `st_rep` says that a memory represents a model state; it is EXISTENTIAL in the blocks of the
   buffer, because ex_exec may replace the whole buffer (lbuf_replace re-allocates ln and ln_glob).
   The oracles: rstr_find and ex_exec are calls to the untranslated indices X_rstr_find / X_ex_exec.  The theorems hold for EVERY call
   semantics `call` (Section variable; instantiated with CLiteExt.callx ext cprog at the end, for every oracle `ext`) that answers
     - rstr_find on the line pointer of row i with a value whose sign is the model's `rfind pat (ltxt x)`, keeping the representation;
     - ex_exec on the pointer stored in the local `s` with a memory that represents `exec body s` whenever the memory before represented s
       (the SIMULATION HYPOTHESIS: this is the only thing assumed about the command-list executor, which may change the whole buffer),
   and that leave the blocks of ec_glob's own frame (`fr`: the cell of the local `s`, of `end`, ...) alone.
   Import discipline: CLiteTac, CLiteExt, TrLbufBase, TrLbufGlob (tr_lbuf_globset / tr_lbuf_globget) only; no other Tr file. *)
From Coq Require Import List ZArith NArith Bool Lia.
From NV Require Import Bytes CLite CLiteProps GenCFuncs CLiteTac CLiteExt TrLbufBase TrLbufGlob.
From NV Require ExDefs GlobDefs.
Import ListNotations.
Local Open Scope Z_scope.

(* ------------------------------------------------------------------ the C text, piece by piece *)
Definition BUFS_LB : nat := 33.                       (* struct buf: lb is cell 33; bufs[0] starts at cell 0 of G_bufs *)
Definition xb_call : expr := ECall F_ex_lbuf [].
Definition gdep_ld : expr := ELoad (Some I32) (EGlob G_xgdep).
Definition xrow_ld : expr := ELoad (Some I32) (EGlob G_xrow).
Definition len_call : expr := ECall F_lbuf_len [xb_call].
Definition inc_i : expr := EIncLocal true 11 (Some I32) 1.
Definition in_buf : expr := EBin OLt I32 (ELocal 11) len_call.
Definition get_call : expr := ECall F_lbuf_globget [xb_call; ELocal 11; gdep_ld].
Definition mark_cond : expr := EBin OLt I32 (ELocal 11) (ELoad (Some I32) (ELocal 7)).
Definition mark_loop : stmt := SFor (Some mark_cond) (Some inc_i) (SExpr (ECall F_lbuf_globset [xb_call; ELocal 11; gdep_ld])).
Definition scan_loop : stmt := SWhile (EAndAlso in_buf (ELNot get_call)) (SExpr inc_i).
Definition sweep_loop : stmt := SFor (Some in_buf) (Some inc_i) (SExpr get_call).
Definition min_e : expr := ECond (EBin OLt I32 (ELocal 11) xrow_ld) (ELocal 11) xrow_ld.
Definition clamp : stmt := SExpr (ESetLocal 11 (ECond (EBin OLt I32 (EConst 0) min_e) min_e (EConst 0))).
Definition find_e : expr :=
  ECall X_rstr_find [ELocal 4; ELocal 12; ECast I32 (EBin ODiv U64 (EBin ODiv U64 (EConst 128) (EConst 4)) (ECast U64 (EConst 2))); ELocal 5; EConst 0].
Definition run_if : stmt := SIf (ECall X_ex_exec [ELoad None (ELocal 10)]) SBreak SSkip.
Definition store_xrow : stmt := SExpr (EStore (Some I32) (EGlob G_xrow) (ELocal 11)).
Definition visit_if : stmt :=
  SIf (EBin OEq I32 (EBin OLt I32 find_e (EConst 0)) (ELocal 8)) (SSeq store_xrow (SSeq run_if clamp)) SSkip.
Definition get_ln : stmt := SExpr (ESetLocal 12 (ECall F_lbuf_get [xb_call; ELocal 11])).
Definition visit_body : stmt := SSeq get_ln (SSeq visit_if scan_loop).
Definition visit_loop : stmt := SWhile in_buf visit_body.
Definition mark_init : stmt := SExpr (ESetLocal 11 (EBin OAdd I32 (ELoad (Some I32) (ELocal 6)) (EConst 1))).
Definition visit_init : stmt := SExpr (ESetLocal 11 (ELoad (Some I32) (ELocal 6))).
Definition sweep_init : stmt := SExpr (ESetLocal 11 (EConst 0)).
Definition gdep_inc : stmt := SExpr (EIncMem true (Some I32) 1 (EGlob G_xgdep)).
Definition gdep_dec : stmt := SExpr (EIncMem true (Some I32) (-1) (EGlob G_xgdep)).
Definition glob_tail : stmt :=
  SSeq gdep_inc (SSeq (SSeq mark_init mark_loop) (SSeq visit_init (SSeq visit_loop (SSeq (SSeq sweep_init sweep_loop)
  (SSeq gdep_dec (SSeq (SExpr (ECall X_rstr_free [ELocal 4])) (SReturn (Some (EConst 0))))))))).
(* what ec_glob does before it starts marking: the nesting guard, the default range, the address, `not`, the pattern *)
(* the message of the guard is whatever string literal the C text passes to ex_show (a reworded message does not disturb the proofs) *)
Definition guard_msg_block : nat :=
  match fn_body cf_ec_glob with
  | SSeq _ (SSeq _ (SSeq _ (SSeq _ (SSeq (SIf _ (SSeq (SExpr (ECall _ [EGlob g])) _) _) _)))) => g
  | _ => O
  end.
Definition glob_guard : stmt :=
  SIf (EBin OGe I32 gdep_ld (EConst 7))
      (SSeq (SExpr (ECall X_ex_show [EGlob guard_msg_block])) (SReturn (Some (EConst 1)))) SSkip.
Definition glob_pct : stmt :=
  SIf (EAndAlso (ELNot (ELoad (Some I8) (EPtrAdd 1 (ELocal 0) (EConst 0)))) (ELNot gdep_ld)) (SExpr (EBuiltin BStrcpy [ELocal 0; EGlob G_lit_25_1])) SSkip.
Definition glob_region : stmt :=
  SIf (EOrElse (ECall F_ex_region [ELocal 0; ELocal 6; ELocal 7]) (ECall X_ex_zero [ELocal 0; ELoad (Some I32) (ELocal 6); ELoad (Some I32) (ELocal 7)]))
      (SReturn (Some (EConst 1))) SSkip.
Definition glob_not : stmt :=
  SExpr (ESetLocal 8 (EOrElse (EBuiltin BStrchr [ELocal 1; EConst 33]) (EBin OEq I32 (ECast I32 (ELoad (Some I8) (EPtrAdd 1 (ELocal 1) (EConst 0)))) (EConst 118)))).
Definition glob_pat : stmt :=
  SSeq (SExpr (EStore None (ELocal 9) (ECall F_re_read [ELocal 10])))
 (SSeq (SIf (EAndAlso (ELoad None (ELocal 9)) (ECast I32 (ELoad (Some I8) (EPtrAdd 1 (ELoad None (ELocal 9)) (EConst 0)))))
            (SExpr (ECall X_ex_kwdset [ELoad None (ELocal 9); EConst 1])) SSkip)
 (SSeq (SExpr (EBuiltin BFree [ELoad None (ELocal 9)]))
 (SSeq (SIf (ECall X_ex_kwd [ELocal 9; EConst 0]) (SReturn (Some (EConst 1))) SSkip)
       (SIf (ELNot (ESetLocal 4 (ECall X_rstr_make [ELoad None (ELocal 9); ECond (ELoad (Some I32) (EGlob G_xic)) (EConst 1) (EConst 0)])))
            (SReturn (Some (EConst 1))) SSkip)))).
Definition glob_frame : stmt -> stmt := fun rest =>
  SSeq (SExpr (ESetLocal 5 (EBuiltin BMalloc [EConst 32])))
 (SSeq (SSeq (SExpr (ESetLocal 6 (EBuiltin BMalloc [EConst 1]))) (SExpr (ESetLocal 7 (EBuiltin BMalloc [EConst 1]))))
 (SSeq (SExpr (ESetLocal 9 (EBuiltin BMalloc [EConst 1])))
 (SSeq (SSeq (SExpr (ESetLocal 10 (EBuiltin BMalloc [EConst 1]))) (SExpr (EStore None (ELocal 10) (ELocal 2)))) rest))).
Fixpoint seqs (l : list stmt) (last : stmt) : stmt := match l with [] => last | a :: r => SSeq a (seqs r last) end.
Fixpoint seq_app (a b : stmt) : stmt := match a with SSeq x y => SSeq x (seq_app y b) | _ => SSeq a b end.

(* THE SHAPE: the translated ec_glob is these pieces, in this order (any edit of ec_glob's text breaks this lemma) *)
Lemma ec_glob_shape : fn_body cf_ec_glob =
  glob_frame (SSeq glob_guard (SSeq glob_pct (SSeq glob_region (SSeq glob_not (seq_app glob_pat glob_tail))))).
Proof. reflexivity. Qed.

(* ------------------------------------------------------------------ the small translated callees: ex_lbuf, lbuf_len, lbuf_get *)
Lemma wrap_i32 z : i32 z -> wrap I32 z = z.
Proof. intro H. apply wrap_I32_id. exact H. Qed.
Lemma tr_ex_lbuf m gbufs bl d fuel : nth_error m G_bufs = Some gbufs -> nth_error gbufs BUFS_LB = Some (VPtr bl 0) ->
  callf cprog fuel (S d) F_ex_lbuf [] m = Ok (VPtr bl 0, m).
Proof.
  intros Hb Hc. enter F_ex_lbuf cf_ex_lbuf. xstep. rewrite (fld_load m G_bufs gbufs BUFS_LB _ _ Hb Hc) by reflexivity. reflexivity.
Qed.
Lemma tr_lbuf_len m bl blk n d fuel : nth_error m bl = Some blk -> nth_error blk L_ln_n = Some (VInt n) -> i32 n ->
  callf cprog fuel (S d) F_lbuf_len [VPtr bl 0] m = Ok (VInt n, m).
Proof.
  intros Hb Hn Hi. enter F_lbuf_len cf_lbuf_len. xstep. rewrite (fld_load m bl blk L_ln_n _ _ Hb Hn) by reflexivity. xstep.
  rewrite (wrap_i32 n Hi). reflexivity.
Qed.
(* lbuf_get(lb, pos) for a row inside the buffer: the cell pos of the table lb->ln *)
Lemma tr_lbuf_get m bl blk n bln lnblk pos p o d fuel : nth_error m bl = Some blk -> nth_error blk L_ln_n = Some (VInt n) -> i32 n ->
  nth_error blk L_ln = Some (VPtr bln 0) -> nth_error m bln = Some lnblk -> 0 <= pos < n -> nth_error lnblk (Z.to_nat pos) = Some (VPtr p o) ->
  callf cprog fuel (S d) F_lbuf_get [VPtr bl 0; VInt pos] m = Ok (VPtr p o, m).
Proof.
  intros Hb Hn Hi Hl Hbl Hp Hc. enter F_lbuf_get cf_lbuf_get. xstep.
  destruct (Z.leb_spec 0 pos) as [_|]; [|lia]. cbn [b2z]. xstep.
  rewrite (fld_load m bl blk L_ln_n _ _ Hb Hn) by reflexivity. xstep. rewrite (wrap_i32 n Hi).
  destruct (Z.ltb_spec pos n) as [_|]; [|lia]. cbn [b2z]. xstep.
  rewrite (fld_load m bl blk L_ln _ _ Hb Hl) by reflexivity. xstep.
  rewrite (fld_load m bln lnblk (Z.to_nat pos) _ _ Hbl Hc) by lia. reflexivity.
Qed.

(* ------------------------------------------------------------------ the model side: lists of lines *)
Lemma upd_line_length k f (L : list ExDefs.line) : length (ExDefs.upd_line k f L) = length L.
Proof. revert k; induction L as [|a L IH]; intro k; [destruct k; reflexivity|]. destruct k; cbn [ExDefs.upd_line length]; [reflexivity|]. rewrite IH. reflexivity. Qed.
Lemma clearbit_unset g dep : N.testbit g dep = false -> N.clearbit g dep = g.
Proof.
  intro H. apply N.bits_inj. intro k. destruct (N.eq_dec dep k) as [<-|Hne].
  - rewrite N.clearbit_eq. symmetry. exact H.
  - apply N.clearbit_neq. exact Hne.
Qed.
(* glob_scan, one row at a time: the row is beyond the end / carries the mark (cleared, found) / does not (go on) *)
Lemma scan_l_unfold dep : forall L i,
  ExDefs.scan_l i dep L =
  match nth_error L i with
  | None => (length L, L)
  | Some x => if ExDefs.glob_marked dep x then (i, ExDefs.upd_line i (ExDefs.clear_lgl dep) L) else ExDefs.scan_l (S i) dep L
  end.
Proof.
  induction L as [|x L IH]; intro i; [destruct i; reflexivity|].
  destruct i as [|i]; cbn [ExDefs.scan_l nth_error ExDefs.upd_line length].
  - destruct (ExDefs.glob_marked dep x); reflexivity.
  - rewrite (IH i). destruct (nth_error L i) as [z|]; [|reflexivity].
    destruct (ExDefs.glob_marked dep z); [reflexivity|]. cbn [ExDefs.scan_l]. reflexivity.
Qed.
Lemma upd_line_unmarked dep : forall L i x, nth_error L i = Some x -> ExDefs.glob_marked dep x = false ->
  ExDefs.upd_line i (fun x => ExDefs.set_lgl x (N.clearbit (ExDefs.lgl x) dep)) L = L.
Proof.
  induction L as [|a L IH]; intros i x Hx Hm; [destruct i; discriminate|]. destruct i as [|i]; cbn [ExDefs.upd_line nth_error] in *.
  - injection Hx as ->. unfold ExDefs.glob_marked in Hm. rewrite (clearbit_unset _ _ Hm). destruct x; reflexivity.
  - rewrite (IH i x Hx Hm). reflexivity.
Qed.

(* ------------------------------------------------------------------ the memory: a line buffer behind bufs[0].lb *)
Record lay := mklay { y_gbufs : block; y_bl : nat; y_blk : block; y_bg : nat; y_bln : nat; y_lnblk : block }.
(* `keep` = the blocks that are not part of the buffer (xrow, xgdep, ec_glob's own frame): no block of the buffer is one of them *)
Definition mrep (keep : list nat) (y : lay) (gblk : block) (m : mem) (L : list ExDefs.line) : Prop :=
  nth_error m G_bufs = Some (y_gbufs y) /\ nth_error (y_gbufs y) BUFS_LB = Some (VPtr (y_bl y) 0) /\
  nth_error m (y_bl y) = Some (y_blk y) /\ nth_error (y_blk y) L_ln_glob = Some (VPtr (y_bg y) 0) /\
  nth_error (y_blk y) L_ln_n = Some (VInt (Z.of_nat (length L))) /\ i32 (Z.of_nat (length L)) /\
  nth_error (y_blk y) L_ln = Some (VPtr (y_bln y) 0) /\ nth_error m (y_bln y) = Some (y_lnblk y) /\
  (forall i, (i < length L)%nat -> exists p o, nth_error (y_lnblk y) i = Some (VPtr p o)) /\
  glob_rep m (y_bg y) gblk L /\
  y_bg y <> G_bufs /\ y_bg y <> y_bl y /\ y_bg y <> y_bln y /\
  (forall b, In b keep -> b <> G_bufs /\ b <> y_bl y /\ b <> y_bln y /\ b <> y_bg y).

Lemma mrep_bg_lt keep y gblk m L : mrep keep y gblk m L -> (y_bg y < length m)%nat.
Proof. intros (_ & _ & _ & _ & _ & _ & _ & _ & _ & [G _] & _). apply nth_error_Some. congruence. Qed.
(* the marks changed (one store into ln_glob): the rest of the buffer is where it was *)
Lemma mrep_marks keep y gblk m L gblk' L' : mrep keep y gblk m L -> length L' = length L ->
  glob_rep (upd m (y_bg y) gblk') (y_bg y) gblk' L' -> mrep keep y gblk' (upd m (y_bg y) gblk') L'.
Proof.
  intros R HL G. pose proof (mrep_bg_lt _ _ _ _ _ R) as Hlt.
  destruct R as (A1 & A2 & A3 & A4 & A5 & A6 & A7 & A8 & A9 & A10 & N1 & N2 & N3 & N4).
  unfold mrep. rewrite !mem_upd_other by (first [exact Hlt|congruence]). rewrite HL.
  repeat (split; [assumption|]). assumption.
Qed.
(* a block outside the buffer changed *)
Lemma mrep_other keep y gblk m L b blk' : mrep keep y gblk m L -> In b keep -> (b < length m)%nat -> mrep keep y gblk (upd m b blk') L.
Proof.
  intros (A1 & A2 & A3 & A4 & A5 & A6 & A7 & A8 & A9 & [G1 G2] & N1 & N2 & N3 & N4) Hin Hlt.
  destruct (N4 b Hin) as (K1 & K2 & K3 & K4).
  unfold mrep, glob_rep. rewrite !mem_upd_other by (first [exact Hlt|congruence]).
  repeat (split; [first [assumption|split; assumption]|]). assumption.
Qed.
Lemma keep_other keep y gblk m L b : mrep keep y gblk m L -> In b keep -> forall gblk', nth_error (upd m (y_bg y) gblk') b = nth_error m b.
Proof.
  intros R Hin gblk'. pose proof (mrep_bg_lt _ _ _ _ _ R) as Hlt.
  destruct R as (_ & _ & _ & _ & _ & _ & _ & _ & _ & _ & _ & _ & _ & N4). destruct (N4 b Hin) as (_ & _ & _ & K4).
  apply mem_upd_other; assumption.
Qed.

(* ------------------------------------------------------------------ the loops, for any call semantics that answers the callees *)
Section Loops.
  Variable call : nat -> list val -> mem -> res (val * mem).
  (* the translated callees, as `call` answers them (discharged for callx ext cprog at the end of the file) *)
  Hypothesis Hc_lbuf : forall m gbufs bl, nth_error m G_bufs = Some gbufs -> nth_error gbufs BUFS_LB = Some (VPtr bl 0) ->
    call F_ex_lbuf [] m = Ok (VPtr bl 0, m).
  Hypothesis Hc_len : forall m bl blk n, nth_error m bl = Some blk -> nth_error blk L_ln_n = Some (VInt n) -> i32 n ->
    call F_lbuf_len [VPtr bl 0] m = Ok (VInt n, m).
  Hypothesis Hc_get : forall m bl blk n bln lnblk pos p o, nth_error m bl = Some blk -> nth_error blk L_ln_n = Some (VInt n) -> i32 n ->
    nth_error blk L_ln = Some (VPtr bln 0) -> nth_error m bln = Some lnblk -> 0 <= pos < n -> nth_error lnblk (Z.to_nat pos) = Some (VPtr p o) ->
    call F_lbuf_get [VPtr bl 0; VInt pos] m = Ok (VPtr p o, m).
  Hypothesis Hc_gset : forall m bl blk bg gblk (lb : ExDefs.lbuf) pos x dep,
    nth_error m bl = Some blk -> nth_error blk L_ln_glob = Some (VPtr bg 0) -> glob_rep m bg gblk (ExDefs.lns lb) ->
    nth_error (ExDefs.lns lb) pos = Some x -> (dep <= 7)%N ->
    call F_lbuf_globset [VPtr bl 0; VInt (Z.of_nat pos); VInt (Z.of_N dep)] m
    = Ok (VUndef, upd m bg (upd gblk pos (VInt (sb (N.setbit (ExDefs.lgl x) dep))))).
  Hypothesis Hc_gget : forall m bl blk bg gblk (lb : ExDefs.lbuf) pos x dep,
    nth_error m bl = Some blk -> nth_error blk L_ln_glob = Some (VPtr bg 0) -> glob_rep m bg gblk (ExDefs.lns lb) ->
    nth_error (ExDefs.lns lb) pos = Some x -> (dep <= 7)%N ->
    call F_lbuf_globget [VPtr bl 0; VInt (Z.of_nat pos); VInt (Z.of_N dep)] m
    = Ok (VInt (b2z (snd (ExDefs.lbuf_globget lb pos dep))), upd m bg (upd gblk pos (VInt (sb (N.clearbit (ExDefs.lgl x) dep))))).

  (* ec_glob's locals: 0 loc 1 cmd 2 arg 3 txt 4 re 5 offs 6 &beg 7 &end 8 not 9 &pat 10 &s 11 i 12 ln *)
  Variables v0 v1 v2 v3 v9 : val.
  Variables bre b5 b6 b7 b10 : nat.
  Variable nt : bool.
  Definition ST (i : Z) (ln : val) (m : mem) : state :=
    mkst [v0; v1; v2; v3; VPtr bre 0; VPtr b5 0; VPtr b6 0; VPtr b7 0; VInt (b2z nt); v9; VPtr b10 0; VInt i; ln] m.
  Variable fr : list nat.                    (* the blocks of ec_glob's frame that the loops read: never part of the buffer *)
  Variable dep : N.
  Hypothesis Hdep : (dep <= 7)%N.
  Definition keep : list nat := G_xrow :: G_xgdep :: fr.
  Hypothesis Hb7 : In b7 fr.
  Definition LB (lb : ExDefs.lbuf) := ExDefs.lns lb.

  Lemma keep_fr b : In b fr -> In b keep.
  Proof. intro H. right. right. exact H. Qed.
  Lemma keep_gdep : In G_xgdep keep.
  Proof. right. left. reflexivity. Qed.
  Lemma keep_xrow : In G_xrow keep.
  Proof. left. reflexivity. Qed.

  (* xb and lbuf_len(xb) *)
  Lemma eval_xb y gblk m L i ln : mrep keep y gblk m L -> eval call xb_call (ST i ln m) = Ok (VPtr (y_bl y) 0, ST i ln m).
  Proof.
    intros (A1 & A2 & _). unfold xb_call. cbn [eval bind memm ST]. rewrite (Hc_lbuf m _ _ A1 A2). reflexivity.
  Qed.
  Lemma eval_len y gblk m L i ln : mrep keep y gblk m L -> eval call len_call (ST i ln m) = Ok (VInt (Z.of_nat (length L)), ST i ln m).
  Proof.
    intros R. pose proof R as (A1 & A2 & A3 & A4 & A5 & A6 & _). unfold len_call. cbn [eval bind]. fold xb_call.
    rewrite (eval_xb y gblk m L i ln R). cbn [bind memm ST]. rewrite (Hc_len m _ _ _ A3 A5 A6). reflexivity.
  Qed.
  Lemma eval_gdep i ln m : cell_at m G_xgdep (Z.of_N dep) -> eval call gdep_ld (ST i ln m) = Ok (VInt (Z.of_N dep), ST i ln m).
  Proof.
    intro H. unfold gdep_ld. cbn [eval bind memm ST]. rewrite (load_cell _ _ _ H). cbn [bind]. rewrite wrap_i32 by (unfold i32; lia). reflexivity.
  Qed.
  Lemma eval_inc i ln m : i32 (i + 1) -> eval call inc_i (ST i ln m) = Ok (VInt i, ST (i + 1) ln m).
  Proof. intro H. unfold inc_i. cbn [eval bind get_local set_local locals memm ST nth_error set_nth]. rewrite chk_I32 by exact H. reflexivity. Qed.

  Lemma eval_mark_cond i ln m e : cell_at m b7 e -> i32 e -> eval call mark_cond (ST i ln m) = Ok (VInt (b2z (i <? e)), ST i ln m).
  Proof.
    intros He Hi. unfold mark_cond. cbn [eval bind get_local locals ST nth_error memm]. rewrite (load_cell _ _ _ He). cbn [bind].
    rewrite wrap_i32 by exact Hi. reflexivity.
  Qed.
  Lemma eval_gset_call y gblk m (lb : ExDefs.lbuf) i x ln : mrep keep y gblk m (LB lb) -> cell_at m G_xgdep (Z.of_N dep) ->
    nth_error (LB lb) i = Some x ->
    eval call (ECall F_lbuf_globset [xb_call; ELocal 11; gdep_ld]) (ST (Z.of_nat i) ln m)
    = Ok (VUndef, ST (Z.of_nat i) ln (upd m (y_bg y) (upd gblk i (VInt (sb (N.setbit (ExDefs.lgl x) dep)))))).
  Proof.
    intros R Hg Hx. pose proof R as (A1 & A2 & A3 & A4 & A5 & A6 & A7 & A8 & A9 & G & _).
    cbn [eval bind]. rewrite (eval_xb y gblk m (LB lb) _ ln R). cbn [bind].
    cbn [eval get_local locals ST nth_error bind]. fold (ST (Z.of_nat i) ln m). rewrite (eval_gdep _ ln m Hg). cbn [bind memm ST].
    rewrite (Hc_gset m _ _ _ gblk lb i x dep A3 A4 G Hx Hdep). reflexivity.
  Qed.
  Lemma eval_gget_call y gblk m (lb : ExDefs.lbuf) i x ln : mrep keep y gblk m (LB lb) -> cell_at m G_xgdep (Z.of_N dep) ->
    nth_error (LB lb) i = Some x ->
    eval call get_call (ST (Z.of_nat i) ln m)
    = Ok (VInt (b2z (ExDefs.glob_marked dep x)), ST (Z.of_nat i) ln (upd m (y_bg y) (upd gblk i (VInt (sb (N.clearbit (ExDefs.lgl x) dep)))))).
  Proof.
    intros R Hg Hx. pose proof R as (A1 & A2 & A3 & A4 & A5 & A6 & A7 & A8 & A9 & G & _).
    unfold get_call. cbn [eval bind]. rewrite (eval_xb y gblk m (LB lb) _ ln R). cbn [bind].
    cbn [eval get_local locals ST nth_error bind]. fold (ST (Z.of_nat i) ln m). rewrite (eval_gdep _ ln m Hg). cbn [bind memm ST].
    rewrite (Hc_gget m _ _ _ gblk lb i x dep A3 A4 G Hx Hdep). unfold ExDefs.lbuf_globget. unfold LB in Hx. rewrite Hx. reflexivity.
  Qed.
  Lemma row_in (L : list ExDefs.line) i : 0 <= i < Z.of_nat (length L) -> exists x, nth_error L (Z.to_nat i) = Some x.
  Proof. intro H. destruct (nth_error L (Z.to_nat i)) as [x|] eqn:E; [exists x; reflexivity|]. apply nth_error_None in E. lia. Qed.
  Lemma len_gset (lb : ExDefs.lbuf) i : length (LB (ExDefs.lbuf_globset lb i dep)) = length (LB lb).
  Proof. unfold LB, ExDefs.lbuf_globset, ExDefs.with_lns. cbn [ExDefs.lns]. apply upd_line_length. Qed.
  Lemma len_gget (lb : ExDefs.lbuf) i : length (LB (fst (ExDefs.lbuf_globget lb i dep))) = length (LB lb).
  Proof.
    unfold LB, ExDefs.lbuf_globget, ExDefs.with_lns. destruct (nth_error (ExDefs.lns lb) i); [|reflexivity]. cbn [fst ExDefs.lns]. apply upd_line_length.
  Qed.

  (* ---- (1) the marking loop: for (i = beg + 1; i < end; i++) lbuf_globset(xb, i, xgdep) = globset_range *)
  Lemma mark_loop_ok y : forall n i (lb : ExDefs.lbuf) gblk m ln fuel e,
    mrep keep y gblk m (LB lb) -> cell_at m G_xgdep (Z.of_N dep) -> cell_at m b7 e -> i32 e ->
    0 <= i -> e <= Z.of_nat (length (LB lb)) -> n = Z.to_nat (e - i) -> (n < fuel)%nat ->
    exists gblk', exec call fuel mark_loop (ST i ln m) = ONormal (ST (Z.max i e) ln (upd m (y_bg y) gblk')) /\
                  mrep keep y gblk' (upd m (y_bg y) gblk') (LB (ExDefs.globset_range n (Z.to_nat i) dep lb)).
  Proof.
    induction n as [|n IH]; intros i lb gblk m ln fuel e R Hg He Hie Hi Hle Hn Hf; (destruct fuel as [|fuel]; [lia|]).
    - exists gblk. pose proof R as (_ & _ & _ & _ & _ & A6 & _ & _ & _ & [G _] & _).
      unfold mark_loop. rewrite exec_for. cbn [eval_opt]. rewrite (eval_mark_cond i ln m e He Hie).
      destruct (Z.ltb_spec i e); [lia|]. cbn [b2z truth negb Z.eqb].
      rewrite (upd_self m _ _ G). replace (Z.max i e) with i by lia. split; [reflexivity|exact R].
    - pose proof R as (A1 & A2 & A3 & A4 & A5 & A6 & A7 & A8 & A9 & G & N1 & N2 & N3 & N4).
      destruct (row_in (LB lb) i ltac:(lia)) as [x Hx].
      pose proof (proj2 (tr_lbuf_globset m (y_bl y) (y_blk y) (y_bg y) gblk lb (Z.to_nat i) x dep 0%nat 0%nat A3 A4 G Hx Hdep)) as G'.
      cbv zeta in G'. set (g1 := upd gblk (Z.to_nat i) (VInt (sb (N.setbit (ExDefs.lgl x) dep)))) in *.
      assert (R1 : mrep keep y g1 (upd m (y_bg y) g1) (LB (ExDefs.lbuf_globset lb (Z.to_nat i) dep))).
      { apply (mrep_marks keep y gblk m (LB lb)); [exact R|apply len_gset|exact G']. }
      destruct (IH (i + 1) (ExDefs.lbuf_globset lb (Z.to_nat i) dep) g1 (upd m (y_bg y) g1) ln fuel e R1) as (g2 & E2 & R2).
      { unfold cell_at. rewrite (keep_other keep y gblk m (LB lb) G_xgdep R keep_gdep). exact Hg. }
      { unfold cell_at. rewrite (keep_other keep y gblk m (LB lb) b7 R (keep_fr _ Hb7)). exact He. }
      { exact Hie. } { lia. } { rewrite len_gset. exact Hle. } { lia. } { lia. }
      exists g2. unfold mark_loop. rewrite exec_for. cbn [eval_opt]. rewrite (eval_mark_cond i ln m e He Hie).
      destruct (Z.ltb_spec i e); [|lia]. cbn [b2z truth negb Z.eqb]. rewrite exec_expr.
      replace i with (Z.of_nat (Z.to_nat i)) at 1 by lia. rewrite (eval_gset_call y gblk m lb (Z.to_nat i) x ln R Hg Hx). fold g1.
      replace (Z.of_nat (Z.to_nat i)) with i by lia. rewrite eval_inc by (unfold i32 in *; lia).
      fold mark_loop. rewrite E2. rewrite upd_upd by (apply (mrep_bg_lt _ _ _ _ _ R)).
      replace (Z.max (i + 1) e) with (Z.max i e) by lia. split; [reflexivity|].
      replace (Z.to_nat (i + 1)) with (S (Z.to_nat i)) in R2 by lia. rewrite upd_upd in R2 by (apply (mrep_bg_lt _ _ _ _ _ R)). exact R2.
  Qed.

  Lemma eval_in_buf y gblk m L i ln : mrep keep y gblk m L ->
    eval call in_buf (ST i ln m) = Ok (VInt (b2z (i <? Z.of_nat (length L))), ST i ln m).
  Proof.
    intro R. unfold in_buf. cbn [eval bind get_local locals ST nth_error]. fold (ST i ln m). rewrite (eval_len y gblk m L i ln R). reflexivity.
  Qed.
  Lemma LB_with_lns lb L : LB (ExDefs.with_lns lb L) = L.
  Proof. reflexivity. Qed.
  Lemma gget_rep y gblk m (lb : ExDefs.lbuf) i x : mrep keep y gblk m (LB lb) -> nth_error (LB lb) i = Some x ->
    let g1 := upd gblk i (VInt (sb (N.clearbit (ExDefs.lgl x) dep))) in
    mrep keep y g1 (upd m (y_bg y) g1) (LB (fst (ExDefs.lbuf_globget lb i dep))).
  Proof.
    intros R Hx g1. pose proof R as (A1 & A2 & A3 & A4 & A5 & A6 & A7 & A8 & A9 & G & _).
    apply (mrep_marks keep y gblk m (LB lb)); [exact R|apply len_gget|].
    exact (proj2 (tr_lbuf_globget m (y_bl y) (y_blk y) (y_bg y) gblk lb i x dep 0%nat 0%nat A3 A4 G Hx Hdep)).
  Qed.

  (* ---- (2) the scan: while (i < lbuf_len(xb) && !lbuf_globget(xb, i, xgdep)) i++ = glob_scan (the mark it finds is cleared) *)
  Lemma scan_loop_ok y : forall n i (lb : ExDefs.lbuf) gblk m ln fuel,
    mrep keep y gblk m (LB lb) -> cell_at m G_xgdep (Z.of_N dep) -> (i + n = length (LB lb))%nat -> (n < fuel)%nat ->
    exists gblk', exec call fuel scan_loop (ST (Z.of_nat i) ln m)
                  = ONormal (ST (Z.of_nat (fst (ExDefs.glob_scan i dep lb))) ln (upd m (y_bg y) gblk')) /\
                  mrep keep y gblk' (upd m (y_bg y) gblk') (LB (snd (ExDefs.glob_scan i dep lb))).
  Proof.
    induction n as [|n IH]; intros i lb gblk m ln fuel R Hg Hn Hf; (destruct fuel as [|fuel]; [lia|]);
      pose proof R as (A1 & A2 & A3 & A4 & A5 & A6 & A7 & A8 & A9 & G & N1 & N2 & N3 & N4);
      unfold ExDefs.glob_scan; fold (LB lb); rewrite (scan_l_unfold dep (LB lb) i).
    - assert (E : nth_error (LB lb) i = None) by (apply nth_error_None; lia). rewrite E. cbn [fst snd]. rewrite LB_with_lns.
      exists gblk. rewrite (upd_self m _ _ (proj1 G)). split; [|exact R].
      unfold scan_loop. rewrite exec_while. cbn [eval bind]. rewrite (eval_in_buf y gblk m (LB lb) _ ln R). cbn [bind].
      destruct (Z.ltb_spec (Z.of_nat i) (Z.of_nat (length (LB lb)))); [lia|]. cbn [b2z truth negb Z.eqb bind].
      f_equal. f_equal. lia.
    - destruct (row_in (LB lb) (Z.of_nat i) ltac:(lia)) as [x Hx]. rewrite Nat2Z.id in Hx. rewrite Hx.
      pose proof (gget_rep y gblk m lb i x R Hx) as R1. cbv zeta in R1.
      set (g1 := upd gblk i (VInt (sb (N.clearbit (ExDefs.lgl x) dep)))) in *.
      unfold scan_loop. rewrite exec_while. cbn [eval bind]. rewrite (eval_in_buf y gblk m (LB lb) _ ln R). cbn [bind].
      destruct (Z.ltb_spec (Z.of_nat i) (Z.of_nat (length (LB lb)))); [|lia]. cbn [b2z truth negb Z.eqb bind].
      rewrite (eval_gget_call y gblk m lb i x ln R Hg Hx). fold g1. cbn [bind]. rewrite truth_b2z. cbn [bind]. rewrite truth_b2z. cbn [bind].
      rewrite truth_b2z.
      destruct (ExDefs.glob_marked dep x) eqn:Mx; cbn [negb fst snd].
      + exists g1. split; [reflexivity|]. rewrite LB_with_lns.
        unfold ExDefs.lbuf_globget in R1. fold (LB lb) in R1. rewrite Hx in R1. cbn [fst] in R1. rewrite LB_with_lns in R1. exact R1.
      + assert (Eg : g1 = gblk).
        { unfold g1. unfold ExDefs.glob_marked in Mx. rewrite (clearbit_unset _ _ Mx). apply upd_self. exact (proj2 (proj2 G i x Hx)). }
        rewrite Eg. rewrite (upd_self m _ _ (proj1 G)). rewrite exec_expr.
        rewrite eval_inc by (unfold i32 in *; lia). fold scan_loop.
        replace (Z.of_nat i + 1) with (Z.of_nat (S i)) by lia.
        destruct (IH (S i) lb gblk m ln fuel R Hg ltac:(lia) ltac:(lia)) as (g2 & E2 & R2).
        unfold ExDefs.glob_scan in E2, R2. fold (LB lb) in E2, R2. exists g2. split; [exact E2|exact R2].
  Qed.
  (* the scan position is already beyond the end (a command list shortened the buffer): nothing happens *)
  Lemma scan_loop_out y gblk m L i ln fuel : mrep keep y gblk m L -> Z.of_nat (length L) <= i ->
    exec call (S fuel) scan_loop (ST i ln m) = ONormal (ST i ln m).
  Proof.
    intros R Hi. unfold scan_loop. rewrite exec_while. cbn [eval bind]. rewrite (eval_in_buf y gblk m L _ ln R). cbn [bind].
    destruct (Z.ltb_spec i (Z.of_nat (length L))); [lia|]. reflexivity.
  Qed.

  (* ---- (3) the final sweep: for (i = 0; i < lbuf_len(xb); i++) lbuf_globget(xb, i, xgdep) = globclear *)
  Lemma sweep_loop_ok y : forall n i (lb : ExDefs.lbuf) gblk m ln fuel,
    mrep keep y gblk m (LB lb) -> cell_at m G_xgdep (Z.of_N dep) -> (i + n = length (LB lb))%nat -> (n < fuel)%nat ->
    exists gblk', exec call fuel sweep_loop (ST (Z.of_nat i) ln m) = ONormal (ST (Z.of_nat (length (LB lb))) ln (upd m (y_bg y) gblk')) /\
                  mrep keep y gblk' (upd m (y_bg y) gblk') (LB (ExDefs.globclear n i dep lb)).
  Proof.
    induction n as [|n IH]; intros i lb gblk m ln fuel R Hg Hn Hf; (destruct fuel as [|fuel]; [lia|]);
      pose proof R as (A1 & A2 & A3 & A4 & A5 & A6 & A7 & A8 & A9 & G & N1 & N2 & N3 & N4).
    - exists gblk. rewrite (upd_self m _ _ (proj1 G)). split; [|exact R].
      unfold sweep_loop. rewrite exec_for. cbn [eval_opt]. rewrite (eval_in_buf y gblk m (LB lb) _ ln R).
      destruct (Z.ltb_spec (Z.of_nat i) (Z.of_nat (length (LB lb)))); [lia|]. cbn [b2z truth negb Z.eqb].
      f_equal. f_equal. lia.
    - destruct (row_in (LB lb) (Z.of_nat i) ltac:(lia)) as [x Hx]. rewrite Nat2Z.id in Hx.
      pose proof (gget_rep y gblk m lb i x R Hx) as R1. cbv zeta in R1.
      set (g1 := upd gblk i (VInt (sb (N.clearbit (ExDefs.lgl x) dep)))) in *.
      destruct (IH (S i) (fst (ExDefs.lbuf_globget lb i dep)) g1 (upd m (y_bg y) g1) ln fuel R1) as (g2 & E2 & R2).
      { unfold cell_at. rewrite (keep_other keep y gblk m (LB lb) G_xgdep R keep_gdep). exact Hg. }
      { rewrite len_gget. lia. } { lia. }
      exists g2. unfold sweep_loop. rewrite exec_for. cbn [eval_opt]. rewrite (eval_in_buf y gblk m (LB lb) _ ln R).
      destruct (Z.ltb_spec (Z.of_nat i) (Z.of_nat (length (LB lb)))); [|lia]. cbn [b2z truth negb Z.eqb]. rewrite exec_expr.
      rewrite (eval_gget_call y gblk m lb i x ln R Hg Hx). fold g1.
      rewrite eval_inc by (unfold i32 in *; lia). fold sweep_loop.
      replace (Z.of_nat i + 1) with (Z.of_nat (S i)) by lia. rewrite E2. rewrite len_gget.
      rewrite upd_upd by (apply (mrep_bg_lt _ _ _ _ _ R)). split; [reflexivity|].
      rewrite upd_upd in R2 by (apply (mrep_bg_lt _ _ _ _ _ R)). exact R2.
  Qed.

  (* ------------------------------------------------------------------ the visit loop *)
  (* a memory that represents a model state: SOME line buffer behind bufs[0].lb with the state's lines and marks (the blocks are
     existential: ex_exec may have re-allocated all of them), fewer than B lines, xrow and xgdep in their global cells *)
  Variable B : nat.
  Hypothesis Hnx : ~ In G_xrow fr.
  Hypothesis Hng : ~ In G_xgdep fr.
  Hypothesis Hb10 : In b10 fr.
  Definition keeps (m m' : mem) : Prop := forall b, In b fr -> nth_error m' b = nth_error m b.
  Definition st_rep (m : mem) (s : ExDefs.st) : Prop :=
    (exists y gblk, mrep keep y gblk m (LB (ExDefs.lb s))) /\ (length (LB (ExDefs.lb s)) < B)%nat /\
    cell_at m G_xrow (ExDefs.xrow s) /\ i32 (ExDefs.xrow s) /\ cell_at m G_xgdep (Z.of_nat (ExDefs.xgdep s)).
  Lemma keeps_refl m : keeps m m.
  Proof. intros b _. reflexivity. Qed.
  Lemma keeps_trans m1 m2 m3 : keeps m1 m2 -> keeps m2 m3 -> keeps m1 m3.
  Proof. intros H1 H2 b Hb. rewrite (H2 b Hb). apply H1. exact Hb. Qed.
  Lemma keeps_marks y gblk m L gblk' : mrep keep y gblk m L -> keeps m (upd m (y_bg y) gblk').
  Proof. intros R b Hb. apply (keep_other keep y gblk m L b R (keep_fr _ Hb)). Qed.
  Lemma gx_ne : G_xgdep <> G_xrow.
  Proof. unfold G_xgdep, G_xrow. lia. Qed.

  (* the oracles.  rfind / mexec / pat / body: the model's matcher, executor, pattern and command list; bs os: the pointer in `s` *)
  Variable rfind : bytes -> bytes -> bool -> option (nat * nat).
  Variable mexec : bytes -> ExDefs.st -> ExDefs.st * Z.
  Variables pat body : bytes.
  Variable bs : nat.
  Variable os : Z.
  Definition hit_of (x : ExDefs.line) : bool := match rfind pat (ExDefs.ltxt x) false with Some _ => true | None => false end.
  (* rstr_find(re, ln, 16, offs, 0) on the line pointer of row i: negative exactly when the model's matcher finds nothing; the memory
     afterwards represents the same state (it writes offs[]) and ec_glob's frame is untouched *)
  Hypothesis Hfind : forall m s y gblk i x p o, st_rep m s -> mrep keep y gblk m (LB (ExDefs.lb s)) ->
    nth_error (LB (ExDefs.lb s)) i = Some x -> nth_error (y_lnblk y) i = Some (VPtr p o) ->
    exists r m', call X_rstr_find [VPtr bre 0; VPtr p o; VInt 16; VPtr b5 0; VInt 0] m = Ok (VInt r, m') /\ i32 r /\
                 (r <? 0) = negb (hit_of x) /\ st_rep m' s /\ keeps m m'.
  (* THE SIMULATION HYPOTHESIS for the command-list executor: from a memory that represents s, ex_exec(s) returns r and leaves a
     memory that represents the model executor's state, r = 0 exactly when the model's result is 0; ec_glob's frame is untouched *)
  Hypothesis Hexec : forall m s, st_rep m s ->
    exists r m', call X_ex_exec [VPtr bs os] m = Ok (VInt r, m') /\ (r =? 0) = (snd (mexec body s) =? 0) /\
                 st_rep m' (fst (mexec body s)) /\ keeps m m'.
  (* the model's executor gives the nesting depth back (for ExDefs.ex_exec: GlobNest.any_list_pres / C15_any_command_list_tracks) *)
  Hypothesis Hgd : forall s, ExDefs.xgdep (fst (mexec body s)) = ExDefs.xgdep s.

  Lemma exec_get_ln y gblk m L i p o ln fuel : mrep keep y gblk m L -> (i < length L)%nat -> nth_error (y_lnblk y) i = Some (VPtr p o) ->
    exec call fuel get_ln (ST (Z.of_nat i) ln m) = ONormal (ST (Z.of_nat i) (VPtr p o) m).
  Proof.
    intros R Hi Hp. pose proof R as (A1 & A2 & A3 & A4 & A5 & A6 & A7 & A8 & _).
    unfold get_ln. rewrite exec_expr. cbn [eval bind]. rewrite (eval_xb y gblk m L _ ln R). cbn [bind].
    cbn [eval get_local locals ST nth_error bind memm].
    rewrite (Hc_get m _ _ _ _ _ (Z.of_nat i) p o A3 A5 A6 A7 A8 ltac:(lia) ltac:(rewrite Nat2Z.id; exact Hp)). reflexivity.
  Qed.
  Lemma b2z_eqb a b : (b2z a =? b2z b) = Bool.eqb a b.
  Proof. destruct a, b; reflexivity. Qed.
  Lemma eval_find_cond m p o r m1 i : call X_rstr_find [VPtr bre 0; VPtr p o; VInt 16; VPtr b5 0; VInt 0] m = Ok (VInt r, m1) -> i32 r ->
    eval call (EBin OEq I32 (EBin OLt I32 find_e (EConst 0)) (ELocal 8)) (ST i (VPtr p o) m)
    = Ok (VInt (b2z (Bool.eqb (r <? 0) nt)), ST i (VPtr p o) m1).
  Proof.
    intros E Hr.
    unfold find_e. set (c16 := ECast I32 (EBin ODiv U64 (EBin ODiv U64 (EConst 128) (EConst 4)) (ECast U64 (EConst 2)))).
    assert (E16 : forall st, eval call c16 st = Ok (VInt 16, st)) by (intro; reflexivity).
    cbn [eval bind get_local locals ST nth_error]. rewrite E16. cbn [bind eval get_local locals ST nth_error memm].
    rewrite E. cbn [bind as_int arith locals get_local nth_error]. rewrite b2z_eqb. reflexivity.
  Qed.
  Lemma exec_store_xrow m i lnv v fuel : cell_at m G_xrow v -> i32 i ->
    exec call fuel store_xrow (ST i lnv m) = ONormal (ST i lnv (upd m G_xrow [VInt i])).
  Proof.
    intros Hc Hi. unfold store_xrow. rewrite exec_expr. cbn [eval bind get_local locals ST nth_error memm].
    rewrite (wrap_i32 i Hi). rewrite (store_cell m G_xrow v i Hc). reflexivity.
  Qed.
  Lemma exec_clamp m i lnv xr fuel : cell_at m G_xrow xr -> i32 xr ->
    exec call fuel clamp (ST i lnv m) = ONormal (ST (Z.max 0 (Z.min i xr)) lnv m).
  Proof.
    intros Hc Hx. unfold clamp, min_e, xrow_ld. rewrite exec_expr. cbn [eval bind get_local locals ST nth_error memm].
    rewrite (load_cell m G_xrow xr Hc). cbn [bind]. rewrite (wrap_i32 xr Hx). cbn [as_int bind arith truth].
    destruct (Z.ltb_spec i xr); cbn [b2z Z.eqb negb eval bind get_local locals ST nth_error memm as_int arith truth];
      rewrite ?(load_cell m G_xrow xr Hc); cbn [bind]; rewrite ?(wrap_i32 xr Hx); cbn [bind as_int arith truth].
    - destruct (Z.ltb_spec 0 i); cbn [b2z Z.eqb negb eval bind get_local locals ST nth_error memm truth].
      + destruct (Z.ltb_spec i xr); [|lia]. cbn [b2z Z.eqb negb truth eval bind get_local locals ST nth_error set_local set_nth memm].
        replace (Z.max 0 (Z.min i xr)) with i by lia. reflexivity.
      + cbn [set_local set_nth locals ST memm bind]. replace (Z.max 0 (Z.min i xr)) with 0 by lia. reflexivity.
    - destruct (Z.ltb_spec 0 xr); cbn [b2z Z.eqb negb eval bind get_local locals ST nth_error memm truth].
      + rewrite (load_cell m G_xrow xr Hc). cbn [bind]. rewrite (wrap_i32 xr Hx). cbn [bind as_int arith truth].
        destruct (Z.ltb_spec i xr); [lia|]. cbn [b2z Z.eqb negb truth eval bind get_local locals ST nth_error set_local set_nth memm].
        rewrite (load_cell m G_xrow xr Hc). cbn [bind]. rewrite (wrap_i32 xr Hx). cbn [bind set_local set_nth locals memm].
        replace (Z.max 0 (Z.min i xr)) with xr by lia. reflexivity.
      + cbn [set_local set_nth locals ST memm bind]. replace (Z.max 0 (Z.min i xr)) with 0 by lia. reflexivity.
  Qed.

  Lemma load_ptr_cell (m : mem) b v : nth_error m b = Some [v] -> load m b 0 = Ok v.
  Proof. intro H. unfold load. rewrite H. reflexivity. Qed.
  Lemma eval_exec_call m i lnv r m' : nth_error m b10 = Some [VPtr bs os] -> call X_ex_exec [VPtr bs os] m = Ok (VInt r, m') ->
    eval call (ECall X_ex_exec [ELoad None (ELocal 10)]) (ST i lnv m) = Ok (VInt r, ST i lnv m').
  Proof.
    intros H E. cbn [eval bind get_local locals ST nth_error memm]. rewrite (load_ptr_cell m b10 _ H). cbn [bind memm ST locals eval]. rewrite E. reflexivity.
  Qed.
  Lemma mrep_len_eq y g1 m1 L1 g2 m2 L2 : mrep keep y g1 m1 L1 -> mrep keep y g2 m2 L2 -> length L1 = length L2.
  Proof.
    intros (_ & _ & _ & _ & A5 & _) (_ & _ & _ & _ & A5' & _). rewrite A5 in A5'. injection A5' as E. lia.
  Qed.
  (* the marks of the represented buffer changed (scan): the state with the new lines is represented *)
  Lemma st_rep_marks m s y gblk gblk' l : st_rep m s -> mrep keep y gblk m (LB (ExDefs.lb s)) ->
    mrep keep y gblk' (upd m (y_bg y) gblk') (LB l) -> st_rep (upd m (y_bg y) gblk') (ExDefs.set_lb s l).
  Proof.
    intros (_ & HB & Hx & Hxi & Hg) R R'. unfold st_rep. cbn [ExDefs.set_lb ExDefs.lb ExDefs.xrow ExDefs.xgdep].
    split; [exists y, gblk'; exact R'|]. split; [rewrite <- (mrep_len_eq _ _ _ _ _ _ _ R R'); exact HB|].
    unfold cell_at. rewrite (keep_other keep y gblk m _ G_xrow R keep_xrow), (keep_other keep y gblk m _ G_xgdep R keep_gdep).
    split; [exact Hx|]. split; [exact Hxi|exact Hg].
  Qed.
  Lemma zofN_nat n : Z.of_N (N.of_nat n) = Z.of_nat n.
  Proof. lia. Qed.

  (* the scan from any position of a represented state *)
  Lemma scan_from m s i lnv fuel : st_rep m s -> dep = N.of_nat (ExDefs.xgdep s) -> (B <= fuel)%nat ->
    exists iC m', exec call (S fuel) scan_loop (ST (Z.of_nat i) lnv m) = ONormal (ST iC lnv m') /\
      st_rep m' (ExDefs.set_lb s (snd (ExDefs.glob_scan i dep (ExDefs.lb s)))) /\ keeps m m' /\
      (iC = Z.of_nat (fst (ExDefs.glob_scan i dep (ExDefs.lb s))) \/
       (Z.of_nat (length (LB (ExDefs.lb s))) <= iC /\ (length (LB (ExDefs.lb s)) <= fst (ExDefs.glob_scan i dep (ExDefs.lb s)))%nat)).
  Proof.
    intros S0 Hd Hf. pose proof S0 as ((y & gblk & R) & HB & Hx & Hxi & Hg).
    assert (Hg' : cell_at m G_xgdep (Z.of_N dep)) by (rewrite Hd, zofN_nat; exact Hg).
    destruct (Nat.le_gt_cases i (length (LB (ExDefs.lb s)))) as [Hi|Hi].
    - destruct (scan_loop_ok y (length (LB (ExDefs.lb s)) - i)%nat i (ExDefs.lb s) gblk m lnv (S fuel) R Hg' ltac:(lia) ltac:(lia)) as (g' & E & R').
      exists (Z.of_nat (fst (ExDefs.glob_scan i dep (ExDefs.lb s)))), (upd m (y_bg y) g'). split; [exact E|].
      split; [apply (st_rep_marks m s y gblk g' _ S0 R R')|]. split; [apply (keeps_marks y gblk m _ g' R)|]. left. reflexivity.
    - exists (Z.of_nat i), m. split; [apply (scan_loop_out y gblk m (LB (ExDefs.lb s))); [exact R|lia]|].
      unfold ExDefs.glob_scan. fold (LB (ExDefs.lb s)). rewrite (scan_l_unfold dep (LB (ExDefs.lb s)) i).
      assert (E : nth_error (LB (ExDefs.lb s)) i = None) by (apply nth_error_None; lia). rewrite E. cbn [fst snd].
      split; [|split; [apply keeps_refl|right; split; lia]].
      destruct S0 as (S1 & S2). split; [exact S1|exact S2].
  Qed.

  (* ---- (4) one visit: ln = lbuf_get(xb, i); if ((rstr_find(...) < 0) == not) { xrow = i; if (ex_exec(s)) break; i = MAX(0, MIN(i, xrow)); } scan *)
  Lemma visit_step m s iM x ln fuel : st_rep m s -> dep = N.of_nat (ExDefs.xgdep s) -> nth_error (LB (ExDefs.lb s)) iM = Some x ->
    nth_error m b10 = Some [VPtr bs os] -> (B <= fuel)%nat ->
    let run := Bool.eqb (negb (hit_of x)) nt in
    let s1 := if run then fst (mexec body (ExDefs.set_xrow s (Z.of_nat iM))) else s in
    let r := if run then snd (mexec body (ExDefs.set_xrow s (Z.of_nat iM))) else 0 in
    let i1 := if run then Z.to_nat (Z.min (Z.of_nat iM) (ExDefs.xrow s1)) else iM in
    if run && negb (r =? 0) then
      exists lnv m', exec call (S fuel) visit_body (ST (Z.of_nat iM) ln m) = OBreak (ST (Z.of_nat iM) lnv m') /\ st_rep m' s1 /\ keeps m m'
    else
      exists iC lnv m', exec call (S fuel) visit_body (ST (Z.of_nat iM) ln m) = ONormal (ST iC lnv m') /\
        st_rep m' (ExDefs.set_lb s1 (snd (ExDefs.glob_scan i1 dep (ExDefs.lb s1)))) /\ keeps m m' /\
        (iC = Z.of_nat (fst (ExDefs.glob_scan i1 dep (ExDefs.lb s1))) \/
         (Z.of_nat (length (LB (ExDefs.lb s1))) <= iC /\ (length (LB (ExDefs.lb s1)) <= fst (ExDefs.glob_scan i1 dep (ExDefs.lb s1)))%nat)).
  Proof.
    intros S0 Hd Hx Hs Hf. pose proof S0 as ((y & gblk & R) & HB & Hxr & Hxi & Hg).
    assert (HiM : (iM < length (LB (ExDefs.lb s)))%nat) by (apply nth_error_Some; congruence).
    pose proof R as (_ & _ & _ & _ & _ & _ & _ & _ & A9 & _). destruct (A9 iM HiM) as (p & o & Hp).
    destruct (Hfind m s y gblk iM x p o S0 R Hx Hp) as (rf & m1 & Ef & Hrf & Hsign & S1 & K1).
    assert (Hs1 : nth_error m1 b10 = Some [VPtr bs os]) by (rewrite (K1 b10 Hb10); exact Hs).
    assert (Hi32 : i32 (Z.of_nat iM)) by (destruct R as (_ & _ & _ & _ & _ & A6 & _); unfold i32 in *; lia).
    assert (Ehead : forall rest, exec call (S fuel) (SSeq get_ln (SSeq visit_if rest)) (ST (Z.of_nat iM) ln m) =
              match (if Bool.eqb (negb (hit_of x)) nt then exec call (S fuel) (SSeq store_xrow (SSeq run_if clamp)) (ST (Z.of_nat iM) (VPtr p o) m1)
                     else ONormal (ST (Z.of_nat iM) (VPtr p o) m1)) with
              | ONormal st1 => exec call (S fuel) rest st1 | o => o end).
    { intro rest. rewrite exec_seq. rewrite (exec_get_ln y gblk m _ iM p o ln (S fuel) R HiM Hp).
      rewrite exec_seq. unfold visit_if. rewrite exec_if. rewrite (eval_find_cond m p o rf m1 _ Ef Hrf). rewrite truth_b2z. rewrite Hsign.
      destruct (Bool.eqb (negb (hit_of x)) nt); [reflexivity|]. rewrite exec_skip. reflexivity. }
    cbv zeta. unfold visit_body. destruct (Bool.eqb (negb (hit_of x)) nt) eqn:Erun; cbn [andb].
    - (* the command list runs *)
      pose proof S1 as (_ & _ & Hxr1 & _ & Hg1).
      assert (Hlt : (G_xrow < length m1)%nat) by (apply nth_error_Some; unfold cell_at in Hxr1; congruence).
      set (m2 := upd m1 G_xrow [VInt (Z.of_nat iM)]).
      assert (S2 : st_rep m2 (ExDefs.set_xrow s (Z.of_nat iM))).
      { destruct S1 as ((y1 & g1 & R1) & HB1 & _ & _ & _). unfold st_rep. cbn [ExDefs.set_xrow ExDefs.lb ExDefs.xrow ExDefs.xgdep].
        split; [exists y1, g1; apply mrep_other; [exact R1|apply keep_xrow|exact Hlt]|]. split; [exact HB1|].
        split; [apply cell_at_upd_same; exact Hlt|]. split; [exact Hi32|]. apply cell_at_upd_other; [exact Hlt|apply gx_ne|exact Hg1]. }
      assert (K2 : keeps m1 m2).
      { intros b Hb. unfold m2. apply mem_upd_other; [exact Hlt|]. intro E. subst b. exact (Hnx Hb). }
      assert (Hs2 : nth_error m2 b10 = Some [VPtr bs os]) by (rewrite (K2 b10 Hb10); exact Hs1).
      destruct (Hexec m2 _ S2) as (re & m3 & Ee & Hre & S3 & K3).
      assert (Erun2 : exec call (S fuel) (SSeq store_xrow (SSeq run_if clamp)) (ST (Z.of_nat iM) (VPtr p o) m1) =
                match (if re =? 0 then ONormal (ST (Z.of_nat iM) (VPtr p o) m3) else OBreak (ST (Z.of_nat iM) (VPtr p o) m3)) with
                | ONormal st1 => exec call (S fuel) clamp st1 | o => o end).
      { rewrite exec_seq. rewrite (exec_store_xrow m1 _ (VPtr p o) _ (S fuel) Hxr1 Hi32). fold m2.
        rewrite exec_seq. unfold run_if. rewrite exec_if. rewrite (eval_exec_call m2 _ (VPtr p o) re m3 Hs2 Ee).
        cbn [truth]. destruct (re =? 0); cbn [negb]; [rewrite exec_skip|rewrite exec_break]; reflexivity. }
      rewrite Hre in Erun2.
      destruct (snd (mexec body (ExDefs.set_xrow s (Z.of_nat iM))) =? 0) eqn:Er; cbn [negb].
      + (* the command list succeeded: clamp and scan *)
        pose proof S3 as (_ & _ & Hxr3 & Hxi3 & _).
        rewrite (exec_clamp m3 _ (VPtr p o) _ (S fuel) Hxr3 Hxi3) in Erun2.
        set (s1 := fst (mexec body (ExDefs.set_xrow s (Z.of_nat iM)))) in *.
        replace (Z.max 0 (Z.min (Z.of_nat iM) (ExDefs.xrow s1))) with (Z.of_nat (Z.to_nat (Z.min (Z.of_nat iM) (ExDefs.xrow s1)))) in Erun2 by lia.
        assert (Hd1 : dep = N.of_nat (ExDefs.xgdep s1)) by (unfold s1; rewrite Hgd; exact Hd).
        destruct (scan_from m3 s1 (Z.to_nat (Z.min (Z.of_nat iM) (ExDefs.xrow s1))) (VPtr p o) fuel S3 Hd1 Hf) as (iC & m4 & E4 & S4 & K4 & J4).
        exists iC, (VPtr p o), m4. split; [rewrite Ehead, Erun2; exact E4|]. split; [exact S4|]. split; [|exact J4].
        apply (keeps_trans m m1 m4 K1). apply (keeps_trans m1 m2 m4 K2). apply (keeps_trans m2 m3 m4 K3 K4).
      + (* it failed: break *)
        exists (VPtr p o), m3. split; [rewrite Ehead, Erun2; reflexivity|]. split; [exact S3|].
        apply (keeps_trans m m1 m3 K1). apply (keeps_trans m1 m2 m3 K2 K3).
    - (* the line is passed over: scan from i *)
      destruct (scan_from m1 s iM (VPtr p o) fuel S1 Hd Hf) as (iC & m4 & E4 & S4 & K4 & J4).
      exists iC, (VPtr p o), m4. split; [rewrite Ehead; exact E4|]. split; [exact S4|]. split; [|exact J4].
      apply (keeps_trans m m1 m4 K1 K4).
  Qed.

  Lemma scan_l_len : forall L i, length (snd (ExDefs.scan_l i dep L)) = length L.
  Proof.
    induction L as [|x L IH]; intro i; [destruct i; reflexivity|]. destruct i as [|i]; cbn [ExDefs.scan_l].
    - destruct (ExDefs.glob_marked dep x); [reflexivity|]. specialize (IH 0%nat). destruct (ExDefs.scan_l 0 dep L). cbn [snd length] in *. lia.
    - specialize (IH i). destruct (ExDefs.scan_l i dep L). cbn [snd length] in *. lia.
  Qed.
  Lemma glob_scan_len i lb : length (LB (snd (ExDefs.glob_scan i dep lb))) = length (LB lb).
  Proof.
    unfold ExDefs.glob_scan. pose proof (scan_l_len (ExDefs.lns lb) i) as H. destruct (ExDefs.scan_l i dep (ExDefs.lns lb)) as [j L2].
    cbn [snd] in *. exact H.
  Qed.

  (* ---- (5) THE VISIT LOOP IN SIMULATION WITH glob_loop: by induction on the model's fuel.  The C index and the model's index are equal, or
     both are at or beyond the end of the buffer (a command list shortened it: both loops end).  Whenever the model's loop ends other than by
     running out of fuel (exit kind 0: the scan ran off the end; 1: a command list failed), the C loop ends, in a memory that represents the
     model's final state -- lines, marks, xrow, xgdep -- having called ex_exec exactly where the model calls its executor, on memories that
     represent the model's states at those calls, in the same order. *)
  Lemma visit_loop_ok : forall fuelM iM s vis iC m ln fuelC,
    st_rep m s -> dep = N.of_nat (ExDefs.xgdep s) -> nth_error m b10 = Some [VPtr bs os] ->
    (iC = Z.of_nat iM \/ (Z.of_nat (length (LB (ExDefs.lb s))) <= iC /\ (length (LB (ExDefs.lb s)) <= iM)%nat)) ->
    (fuelM + B < fuelC)%nat ->
    snd (GlobDefs.glob_loop_x rfind mexec fuelM iM pat body nt dep s vis) <> 2%N ->
    exists iC' ln' m', exec call fuelC visit_loop (ST iC ln m) = ONormal (ST iC' ln' m') /\
      st_rep m' (fst (fst (GlobDefs.glob_loop_x rfind mexec fuelM iM pat body nt dep s vis))) /\ keeps m m' /\
      ExDefs.xgdep (fst (fst (GlobDefs.glob_loop_x rfind mexec fuelM iM pat body nt dep s vis))) = ExDefs.xgdep s.
  Proof.
    induction fuelM as [|f IH]; intros iM s vis iC m ln fuelC S0 Hd Hs Hidx Hf Hx2; [exfalso; apply Hx2; reflexivity|].
    destruct fuelC as [|fuelC]; [lia|]. pose proof S0 as ((y & gblk & R) & HB & _).
    cbn [GlobDefs.glob_loop_x] in Hx2 |- *. fold (LB (ExDefs.lb s)) in Hx2 |- *.
    destruct (nth_error (LB (ExDefs.lb s)) iM) as [x|] eqn:Hx.
    - assert (HiM : (iM < length (LB (ExDefs.lb s)))%nat) by (apply nth_error_Some; congruence).
      destruct Hidx as [->|[_ Hbad]]; [|lia].
      pose proof (visit_step m s iM x ln fuelC S0 Hd Hx Hs ltac:(lia)) as V. cbv zeta in V.
      fold (hit_of x) in Hx2 |- *.
      assert (Ewh : forall o, exec call (S fuelC) visit_body (ST (Z.of_nat iM) ln m) = o ->
                exec call (S fuelC) visit_loop (ST (Z.of_nat iM) ln m) =
                match o with ONormal st2 | OContinue st2 => exec call fuelC visit_loop st2 | OBreak st2 => ONormal st2 | o => o end).
      { intros o Eo. unfold visit_loop. rewrite exec_while. rewrite (eval_in_buf y gblk m _ _ ln R).
        destruct (Z.ltb_spec (Z.of_nat iM) (Z.of_nat (length (LB (ExDefs.lb s))))); [|lia]. cbn [b2z truth negb Z.eqb]. rewrite Eo. destruct o; reflexivity. }
      destruct (Bool.eqb (negb (hit_of x)) nt) eqn:Erun; cbn [andb] in V, Hx2 |- *.
      + pose proof (Hgd (ExDefs.set_xrow s (Z.of_nat iM))) as Hgd1.
        destruct (mexec body (ExDefs.set_xrow s (Z.of_nat iM))) as [s1 r] eqn:Em. cbn [fst snd] in V, Hgd1.
        destruct (r =? 0) eqn:Er; cbn [negb] in V, Hx2 |- *.
        * destruct V as (iC1 & lnv & m1 & Eb & S1 & K1 & J1).
          pose proof (glob_scan_len (Z.to_nat (Z.min (Z.of_nat iM) (ExDefs.xrow s1))) (ExDefs.lb s1)) as Hlen.
          destruct (ExDefs.glob_scan (Z.to_nat (Z.min (Z.of_nat iM) (ExDefs.xrow s1))) dep (ExDefs.lb s1)) as [j l] eqn:Es. cbn [fst snd] in S1, J1, Hlen.
          destruct (IH j (ExDefs.set_lb s1 l) (vis ++ [(ExDefs.lid x, true)]) iC1 m1 lnv fuelC S1) as (iC2 & ln2 & m2 & E2 & S2 & K2 & G2).
          { cbn [ExDefs.set_lb ExDefs.xgdep]. rewrite Hgd1. exact Hd. }
          { rewrite (K1 b10 Hb10). exact Hs. }
          { cbn [ExDefs.set_lb ExDefs.lb]. rewrite Hlen. exact J1. }
          { lia. } { exact Hx2. }
          exists iC2, ln2, m2. split; [rewrite (Ewh _ Eb); exact E2|]. split; [exact S2|]. split; [apply (keeps_trans m m1 m2 K1 K2)|].
          rewrite G2. cbn [ExDefs.set_lb ExDefs.xgdep]. exact Hgd1.
        * destruct V as (lnv & m1 & Eb & S1 & K1). cbn [fst snd].
          exists (Z.of_nat iM), lnv, m1. split; [rewrite (Ewh _ Eb); reflexivity|]. split; [exact S1|]. split; [exact K1|exact Hgd1].
      + cbn [Z.eqb negb andb] in V, Hx2 |- *. destruct V as (iC1 & lnv & m1 & Eb & S1 & K1 & J1).
        pose proof (glob_scan_len iM (ExDefs.lb s)) as Hlen.
        destruct (ExDefs.glob_scan iM dep (ExDefs.lb s)) as [j l] eqn:Es. cbn [fst snd] in S1, J1, Hlen.
        destruct (IH j (ExDefs.set_lb s l) (vis ++ [(ExDefs.lid x, false)]) iC1 m1 lnv fuelC S1) as (iC2 & ln2 & m2 & E2 & S2 & K2 & G2).
        { cbn [ExDefs.set_lb ExDefs.xgdep]. exact Hd. }
        { rewrite (K1 b10 Hb10). exact Hs. }
        { cbn [ExDefs.set_lb ExDefs.lb]. rewrite Hlen. exact J1. }
        { lia. } { exact Hx2. }
        exists iC2, ln2, m2. split; [rewrite (Ewh _ Eb); exact E2|]. split; [exact S2|]. split; [apply (keeps_trans m m1 m2 K1 K2)|].
        rewrite G2. reflexivity.
    - assert (HiM : (length (LB (ExDefs.lb s)) <= iM)%nat) by (apply nth_error_None; exact Hx).
      cbn [fst snd]. exists iC, ln, m. split; [|split; [exact S0|split; [apply keeps_refl|reflexivity]]].
      unfold visit_loop. rewrite exec_while. rewrite (eval_in_buf y gblk m _ _ ln R).
      destruct (Z.ltb_spec iC (Z.of_nat (length (LB (ExDefs.lb s))))); [lia|]. reflexivity.
  Qed.

  (* the loop the model runs (ExDefs.glob_loop) is the instrumented one without the trace and the exit kind *)
  Lemma glob_loop_x_erase : forall fuelM iM s vis,
    fst (fst (GlobDefs.glob_loop_x rfind mexec fuelM iM pat body nt dep s vis)) = ExDefs.glob_loop rfind mexec fuelM iM pat body nt dep s.
  Proof.
    induction fuelM as [|f IH]; intros iM s vis; [reflexivity|]. cbn [GlobDefs.glob_loop_x ExDefs.glob_loop].
    destruct (nth_error (ExDefs.lns (ExDefs.lb s)) iM) as [x|]; [|reflexivity].
    destruct (if Bool.eqb (negb match rfind pat (ExDefs.ltxt x) false with Some _ => true | None => false end) nt
              then mexec body (ExDefs.set_xrow s (Z.of_nat iM)) else (s, 0)) as [s1 r].
    destruct (Bool.eqb (negb match rfind pat (ExDefs.ltxt x) false with Some _ => true | None => false end) nt && negb (r =? 0)); [reflexivity|].
    destruct (ExDefs.glob_scan _ dep (ExDefs.lb s1)) as [j l]. apply IH.
  Qed.

  (* ---- (6) the tail of ec_glob: xgdep++; marking loop; i = beg; visit loop; final sweep; xgdep--; rstr_free(re); return 0 *)
  Hypothesis Hb6 : In b6 fr.
  Hypothesis Hfree : forall m s, st_rep m s -> exists v m', call X_rstr_free [VPtr bre 0] m = Ok (v, m') /\ st_rep m' s.
  Lemma exec_gdep_add m g d lc fuel : cell_at m G_xgdep g -> i32 g -> i32 (g + d) ->
    exec call fuel (SExpr (EIncMem true (Some I32) d (EGlob G_xgdep))) (mkst lc m) = ONormal (mkst lc (upd m G_xgdep [VInt (g + d)])).
  Proof.
    intros Hc Hg Hgd'. rewrite exec_expr. cbn [eval bind memm]. rewrite (load_cell m G_xgdep g Hc). cbn [bind].
    rewrite (wrap_i32 g Hg). rewrite chk_I32 by exact Hgd'. cbn [bind snd fst]. rewrite (store_cell m G_xgdep g _ Hc). reflexivity.
  Qed.
  Lemma st_rep_gdep m s g' : st_rep m s -> st_rep (upd m G_xgdep [VInt (Z.of_nat g')]) (ExDefs.set_gdep s g') /\ keeps m (upd m G_xgdep [VInt (Z.of_nat g')]).
  Proof.
    intros ((y & gblk & R) & HB & Hx & Hxi & Hg).
    assert (Hlt : (G_xgdep < length m)%nat) by (apply nth_error_Some; unfold cell_at in Hg; congruence).
    split.
    - unfold st_rep. cbn [ExDefs.set_gdep ExDefs.lb ExDefs.xrow ExDefs.xgdep].
      split; [exists y, gblk; apply mrep_other; [exact R|apply keep_gdep|exact Hlt]|]. split; [exact HB|].
      split; [apply cell_at_upd_other; [exact Hlt|intro E; symmetry in E; exact (gx_ne E)|exact Hx]|]. split; [exact Hxi|].
      apply cell_at_upd_same. exact Hlt.
    - intros b Hb. apply mem_upd_other; [exact Hlt|]. intro E. subst b. exact (Hng Hb).
  Qed.

  Lemma glob_tail_ok m s b e v11 v12 fuelM fuelC :
    st_rep m s -> dep = N.of_nat (S (ExDefs.xgdep s)) ->
    cell_at m b6 b -> cell_at m b7 e -> 0 <= b < 2147483647 -> e <= Z.of_nat (length (LB (ExDefs.lb s))) -> i32 e ->
    nth_error m b10 = Some [VPtr bs os] -> (fuelM + B < fuelC)%nat ->
    let s3 := ExDefs.set_gdep s (S (ExDefs.xgdep s)) in
    let s4 := ExDefs.set_lb s3 (ExDefs.globset_range (Z.to_nat (e - b - 1)) (Z.to_nat (b + 1)) dep (ExDefs.lb s3)) in
    snd (GlobDefs.glob_loop_x rfind mexec fuelM (Z.to_nat b) pat body nt dep s4 []) <> 2%N ->
    let s5 := ExDefs.glob_loop rfind mexec fuelM (Z.to_nat b) pat body nt dep s4 in
    let s6 := ExDefs.set_lb s5 (ExDefs.globclear (length (ExDefs.lns (ExDefs.lb s5))) 0 dep (ExDefs.lb s5)) in
    exists i' ln' m',
      exec call fuelC glob_tail (mkst [v0; v1; v2; v3; VPtr bre 0; VPtr b5 0; VPtr b6 0; VPtr b7 0; VInt (b2z nt); v9; VPtr b10 0; v11; v12] m)
      = OReturn (VInt 0) (ST i' ln' m') /\ st_rep m' (ExDefs.set_gdep s6 (ExDefs.xgdep s)).
  Proof.
    intros S0 Hd Hcb Hce Hb0 Hle Hie Hs Hf s3 s4 Hx2 s5 s6.
    pose proof S0 as ((y & gblk & R) & HB & Hxr & Hxi & Hg).
    (* xgdep++ *)
    destruct (st_rep_gdep m s (S (ExDefs.xgdep s)) S0) as (S3 & K3). fold s3 in S3.
    set (m3 := upd m G_xgdep [VInt (Z.of_nat (S (ExDefs.xgdep s)))]) in *.
    pose proof S3 as ((y3 & g3 & R3) & HB3 & Hxr3 & _ & Hg3).
    assert (Hg3' : cell_at m3 G_xgdep (Z.of_N dep)) by (rewrite Hd, zofN_nat; exact Hg3).
    assert (Hcb3 : cell_at m3 b6 b) by (unfold cell_at; rewrite (K3 b6 Hb6); exact Hcb).
    assert (Hce3 : cell_at m3 b7 e) by (unfold cell_at; rewrite (K3 b7 Hb7); exact Hce).
    assert (Hlen : i32 (Z.of_nat (length (LB (ExDefs.lb s))))) by (destruct R as (_ & _ & _ & _ & _ & A6 & _); exact A6).
    (* the marking loop *)
    destruct (mark_loop_ok y3 (Z.to_nat (e - (b + 1))) (b + 1) (ExDefs.lb s3) g3 m3 v12 fuelC e R3 Hg3' Hce3 Hie ltac:(lia) Hle eq_refl) as (g4 & E4 & R4).
    { cbn [s3 ExDefs.set_gdep ExDefs.lb] in *. lia. }
    replace (Z.to_nat (e - (b + 1))) with (Z.to_nat (e - b - 1)) in R4 by lia.
    set (m4 := upd m3 (y_bg y3) g4) in *.
    assert (S4 : st_rep m4 s4) by (apply (st_rep_marks m3 s3 y3 g3 g4 _ S3 R3 R4)).
    assert (K4 : keeps m3 m4) by (apply (keeps_marks y3 g3 m3 _ g4 R3)).
    (* the visit loop *)
    destruct (visit_loop_ok fuelM (Z.to_nat b) s4 [] b m4 v12 fuelC S4) as (i5 & ln5 & m5 & E5 & S5 & K5 & G5).
    { cbn [s4 s3 ExDefs.set_lb ExDefs.set_gdep ExDefs.xgdep]. exact Hd. }
    { rewrite (K4 b10 Hb10), (K3 b10 Hb10). exact Hs. }
    { left. lia. } { exact Hf. } { exact Hx2. }
    rewrite glob_loop_x_erase in S5, G5. fold s5 in S5, G5.
    (* the final sweep *)
    pose proof S5 as ((y5 & g5 & R5) & HB5 & Hxr5 & Hxi5 & Hg5).
    assert (Hg5' : cell_at m5 G_xgdep (Z.of_N dep)).
    { rewrite Hd, zofN_nat. rewrite G5 in Hg5. cbn [s4 s3 ExDefs.set_lb ExDefs.set_gdep ExDefs.xgdep] in Hg5. exact Hg5. }
    destruct (sweep_loop_ok y5 (length (LB (ExDefs.lb s5))) 0%nat (ExDefs.lb s5) g5 m5 ln5 fuelC R5 Hg5' eq_refl ltac:(lia)) as (g6 & E6 & R6).
    fold s6 in R6. set (m6 := upd m5 (y_bg y5) g6) in *.
    assert (S6 : st_rep m6 s6) by (apply (st_rep_marks m5 s5 y5 g5 g6 _ S5 R5 R6)).
    (* xgdep-- and rstr_free *)
    destruct (st_rep_gdep m6 s6 (ExDefs.xgdep s) S6) as (S7 & _).
    destruct (Hfree _ _ S7) as (vf & m8 & E8 & S8).
    pose proof S6 as (_ & _ & _ & _ & Hg6).
    assert (Eg6 : ExDefs.xgdep s6 = S (ExDefs.xgdep s)).
    { unfold s6. cbn [ExDefs.set_lb ExDefs.xgdep]. rewrite G5. reflexivity. }
    exists (Z.of_nat (length (LB (ExDefs.lb s5)))), ln5, m8. split; [|exact S8].
    unfold glob_tail. rewrite exec_seq. unfold gdep_inc. rewrite (exec_gdep_add m (Z.of_nat (ExDefs.xgdep s)) 1 _ fuelC Hg) by (unfold i32; lia).
    replace (Z.of_nat (ExDefs.xgdep s) + 1) with (Z.of_nat (S (ExDefs.xgdep s))) by lia. fold m3.
    rewrite exec_seq. rewrite exec_seq. unfold mark_init. rewrite exec_expr. cbn [eval bind get_local set_local locals set_nth nth_error memm].
    rewrite (load_cell m3 b6 b Hcb3). cbn [bind]. rewrite wrap_i32 by (unfold i32 in *; lia). cbn [as_int bind arith].
    rewrite chk_I32 by (unfold i32 in *; lia). cbn [bind set_local locals set_nth memm]. fold (ST (b + 1) v12 m3). rewrite E4. fold m4.
    rewrite exec_seq. unfold visit_init. rewrite exec_expr. cbn [eval bind get_local set_local locals set_nth nth_error memm ST].
    rewrite (load_cell m4 b6 b) by (unfold cell_at; rewrite (K4 b6 Hb6); exact Hcb3). cbn [bind]. rewrite wrap_i32 by (unfold i32 in *; lia).
    cbn [bind set_local locals set_nth memm ST]. fold (ST b v12 m4). rewrite exec_seq. rewrite E5.
    rewrite exec_seq. rewrite exec_seq. unfold sweep_init. rewrite exec_expr. cbn [eval bind get_local set_local locals set_nth nth_error memm ST].
    fold (ST 0 ln5 m5). change 0 with (Z.of_nat 0). rewrite E6. fold m6.
    rewrite exec_seq. unfold gdep_dec. unfold ST at 1. rewrite (exec_gdep_add m6 (Z.of_nat (ExDefs.xgdep s6)) (-1) _ fuelC Hg6) by (rewrite Eg6; unfold i32; lia).
    replace (Z.of_nat (ExDefs.xgdep s6) + -1) with (Z.of_nat (ExDefs.xgdep s)) by (rewrite Eg6; lia).
    rewrite exec_seq. rewrite exec_expr. cbn [eval bind get_local locals nth_error memm]. rewrite E8. cbn [bind].
    rewrite exec_return. reflexivity.
  Qed.
End Loops.

(* ------------------------------------------------------------------ for EVERY oracle: call := callx ext cprog fuel (S d) *)
Lemma x_rstr_find_none : nth_error cprog X_rstr_find = None. Proof. vm_compute. reflexivity. Qed.
Lemma x_ex_exec_none : nth_error cprog X_ex_exec = None. Proof. vm_compute. reflexivity. Qed.
Lemma x_rstr_free_none : nth_error cprog X_rstr_free = None. Proof. vm_compute. reflexivity. Qed.
Lemma x_ex_show_none : nth_error cprog X_ex_show = None. Proof. vm_compute. reflexivity. Qed.

Lemma glob_loop_erase rfind mexec pat body nt dep : forall fuelM iM s vis,
  fst (fst (GlobDefs.glob_loop_x rfind mexec fuelM iM pat body nt dep s vis)) = ExDefs.glob_loop rfind mexec fuelM iM pat body nt dep s.
Proof.
  induction fuelM as [|f IH]; intros iM s vis; [reflexivity|]. cbn [GlobDefs.glob_loop_x ExDefs.glob_loop].
  destruct (nth_error (ExDefs.lns (ExDefs.lb s)) iM) as [x|]; [|reflexivity].
  destruct (if Bool.eqb (negb match rfind pat (ExDefs.ltxt x) false with Some _ => true | None => false end) nt
            then mexec body (ExDefs.set_xrow s (Z.of_nat iM)) else (s, 0)) as [s1 r].
  destruct (Bool.eqb (negb match rfind pat (ExDefs.ltxt x) false with Some _ => true | None => false end) nt && negb (r =? 0)); [reflexivity|].
  destruct (ExDefs.glob_scan _ dep (ExDefs.lb s1)) as [j l]. apply IH.
Qed.

Section Oracle.
  Variable ext : nat -> list val -> mem -> res (val * mem).
  Variables fuel d : nat.
  Definition cx : nat -> list val -> mem -> res (val * mem) := callx ext cprog fuel (S d).   (* the calls ec_glob's body makes *)

  Lemma cx_lbuf : forall m gbufs bl, nth_error m G_bufs = Some gbufs -> nth_error gbufs BUFS_LB = Some (VPtr bl 0) -> cx F_ex_lbuf [] m = Ok (VPtr bl 0, m).
  Proof. intros. apply callx_mono. apply (tr_ex_lbuf m gbufs bl d fuel); assumption. Qed.
  Lemma cx_len : forall m bl blk n, nth_error m bl = Some blk -> nth_error blk L_ln_n = Some (VInt n) -> i32 n -> cx F_lbuf_len [VPtr bl 0] m = Ok (VInt n, m).
  Proof. intros. apply callx_mono. apply (tr_lbuf_len m bl blk n d fuel); assumption. Qed.
  Lemma cx_get : forall m bl blk n bln lnblk pos p o, nth_error m bl = Some blk -> nth_error blk L_ln_n = Some (VInt n) -> i32 n ->
    nth_error blk L_ln = Some (VPtr bln 0) -> nth_error m bln = Some lnblk -> 0 <= pos < n -> nth_error lnblk (Z.to_nat pos) = Some (VPtr p o) ->
    cx F_lbuf_get [VPtr bl 0; VInt pos] m = Ok (VPtr p o, m).
  Proof. intros. apply callx_mono. apply (tr_lbuf_get m bl blk n bln lnblk pos p o d fuel); assumption. Qed.
  Lemma cx_gset : forall m bl blk bg gblk (lb : ExDefs.lbuf) pos x dep,
    nth_error m bl = Some blk -> nth_error blk L_ln_glob = Some (VPtr bg 0) -> glob_rep m bg gblk (ExDefs.lns lb) ->
    nth_error (ExDefs.lns lb) pos = Some x -> (dep <= 7)%N ->
    cx F_lbuf_globset [VPtr bl 0; VInt (Z.of_nat pos); VInt (Z.of_N dep)] m
    = Ok (VUndef, upd m bg (upd gblk pos (VInt (sb (N.setbit (ExDefs.lgl x) dep))))).
  Proof. intros. apply callx_mono. apply (tr_lbuf_globset m bl blk bg gblk lb pos x dep d fuel); assumption. Qed.
  Lemma cx_gget : forall m bl blk bg gblk (lb : ExDefs.lbuf) pos x dep,
    nth_error m bl = Some blk -> nth_error blk L_ln_glob = Some (VPtr bg 0) -> glob_rep m bg gblk (ExDefs.lns lb) ->
    nth_error (ExDefs.lns lb) pos = Some x -> (dep <= 7)%N ->
    cx F_lbuf_globget [VPtr bl 0; VInt (Z.of_nat pos); VInt (Z.of_N dep)] m
    = Ok (VInt (b2z (snd (ExDefs.lbuf_globget lb pos dep))), upd m bg (upd gblk pos (VInt (sb (N.clearbit (ExDefs.lgl x) dep))))).
  Proof. intros. apply callx_mono. apply (tr_lbuf_globget m bl blk bg gblk lb pos x dep d fuel); assumption. Qed.
  Lemma cx_ext f args m : nth_error cprog f = None -> cx f args m = ext f args m.
  Proof. intro H. unfold cx. rewrite callx_S, H. reflexivity. Qed.

  Variables v0 v1 v2 v3 v9 : val.
  Variables bre b5 b6 b7 b10 : nat.
  Variable nt : bool.
  Variable fr : list nat.
  Variable dep : N.
  Hypothesis Hdep : (dep <= 7)%N.
  Notation STx := (ST v0 v1 v2 v3 v9 bre b5 b6 b7 b10 nt).

  (* (1) the marking loop = globset_range *)
  Theorem tr_glob_mark_loop y n i (lb : ExDefs.lbuf) gblk m ln fuel' e : In b7 fr ->
    mrep (keep fr) y gblk m (LB lb) -> cell_at m G_xgdep (Z.of_N dep) -> cell_at m b7 e -> i32 e ->
    0 <= i -> e <= Z.of_nat (length (LB lb)) -> n = Z.to_nat (e - i) -> (n < fuel')%nat ->
    exists gblk', exec cx fuel' mark_loop (STx i ln m) = ONormal (STx (Z.max i e) ln (upd m (y_bg y) gblk')) /\
                  mrep (keep fr) y gblk' (upd m (y_bg y) gblk') (LB (ExDefs.globset_range n (Z.to_nat i) dep lb)).
  Proof. intro Hb7. apply (mark_loop_ok cx cx_lbuf cx_len cx_get cx_gset cx_gget); assumption. Qed.
  (* (2) the scan = glob_scan *)
  Theorem tr_glob_scan_loop y n i (lb : ExDefs.lbuf) gblk m ln fuel' :
    mrep (keep fr) y gblk m (LB lb) -> cell_at m G_xgdep (Z.of_N dep) -> (i + n = length (LB lb))%nat -> (n < fuel')%nat ->
    exists gblk', exec cx fuel' scan_loop (STx (Z.of_nat i) ln m)
                  = ONormal (STx (Z.of_nat (fst (ExDefs.glob_scan i dep lb))) ln (upd m (y_bg y) gblk')) /\
                  mrep (keep fr) y gblk' (upd m (y_bg y) gblk') (LB (snd (ExDefs.glob_scan i dep lb))).
  Proof. apply (scan_loop_ok cx cx_lbuf cx_len cx_get cx_gset cx_gget); assumption. Qed.
  (* (3) the final sweep = globclear *)
  Theorem tr_glob_sweep_loop y n i (lb : ExDefs.lbuf) gblk m ln fuel' :
    mrep (keep fr) y gblk m (LB lb) -> cell_at m G_xgdep (Z.of_N dep) -> (i + n = length (LB lb))%nat -> (n < fuel')%nat ->
    exists gblk', exec cx fuel' sweep_loop (STx (Z.of_nat i) ln m) = ONormal (STx (Z.of_nat (length (LB lb))) ln (upd m (y_bg y) gblk')) /\
                  mrep (keep fr) y gblk' (upd m (y_bg y) gblk') (LB (ExDefs.globclear n i dep lb)).
  Proof. apply (sweep_loop_ok cx cx_lbuf cx_len cx_get cx_gset cx_gget); assumption. Qed.

  (* the oracles of the visit loop, as the oracle `ext` answers them *)
  Variable B : nat.
  Variable rfind : bytes -> bytes -> bool -> option (nat * nat).
  Variable mexec : bytes -> ExDefs.st -> ExDefs.st * Z.
  Variables pat body : bytes.
  Variable bs : nat.
  Variable os : Z.
  Definition find_oracle : Prop := forall m s y gblk i x p o, st_rep fr B m s -> mrep (keep fr) y gblk m (LB (ExDefs.lb s)) ->
    nth_error (LB (ExDefs.lb s)) i = Some x -> nth_error (y_lnblk y) i = Some (VPtr p o) ->
    exists r m', ext X_rstr_find [VPtr bre 0; VPtr p o; VInt 16; VPtr b5 0; VInt 0] m = Ok (VInt r, m') /\ i32 r /\
                 (r <? 0) = negb (hit_of rfind pat x) /\ st_rep fr B m' s /\ keeps fr m m'.
  Definition exec_oracle : Prop := forall m s, st_rep fr B m s ->
    exists r m', ext X_ex_exec [VPtr bs os] m = Ok (VInt r, m') /\ (r =? 0) = (snd (mexec body s) =? 0) /\
                 st_rep fr B m' (fst (mexec body s)) /\ keeps fr m m'.
  Definition free_oracle : Prop := forall m s, st_rep fr B m s -> exists v m', ext X_rstr_free [VPtr bre 0] m = Ok (v, m') /\ st_rep fr B m' s.
  Definition exec_keeps_depth : Prop := forall s, ExDefs.xgdep (fst (mexec body s)) = ExDefs.xgdep s.
  Hypothesis Hnx : ~ In G_xrow fr.
  Hypothesis Hng : ~ In G_xgdep fr.
  Hypothesis Hb10 : In b10 fr.
  Hypothesis Hfind : find_oracle.
  Hypothesis Hexec : exec_oracle.
  Hypothesis Hgd : exec_keeps_depth.
  Lemma cx_find : forall m s y gblk i x p o, st_rep fr B m s -> mrep (keep fr) y gblk m (LB (ExDefs.lb s)) ->
    nth_error (LB (ExDefs.lb s)) i = Some x -> nth_error (y_lnblk y) i = Some (VPtr p o) ->
    exists r m', cx X_rstr_find [VPtr bre 0; VPtr p o; VInt 16; VPtr b5 0; VInt 0] m = Ok (VInt r, m') /\ i32 r /\
                 (r <? 0) = negb (hit_of rfind pat x) /\ st_rep fr B m' s /\ keeps fr m m'.
  Proof. intros. rewrite (cx_ext _ _ _ x_rstr_find_none). eapply Hfind; eassumption. Qed.
  Lemma cx_exec : forall m s, st_rep fr B m s ->
    exists r m', cx X_ex_exec [VPtr bs os] m = Ok (VInt r, m') /\ (r =? 0) = (snd (mexec body s) =? 0) /\
                 st_rep fr B m' (fst (mexec body s)) /\ keeps fr m m'.
  Proof. intros. rewrite (cx_ext _ _ _ x_ex_exec_none). apply Hexec. assumption. Qed.

  (* (4) one visit *)
  Theorem tr_glob_visit_step m s iM x ln fuel' : st_rep fr B m s -> dep = N.of_nat (ExDefs.xgdep s) -> nth_error (LB (ExDefs.lb s)) iM = Some x ->
    nth_error m b10 = Some [VPtr bs os] -> (B <= fuel')%nat ->
    let run := Bool.eqb (negb (hit_of rfind pat x)) nt in
    let s1 := if run then fst (mexec body (ExDefs.set_xrow s (Z.of_nat iM))) else s in
    let r := if run then snd (mexec body (ExDefs.set_xrow s (Z.of_nat iM))) else 0 in
    let i1 := if run then Z.to_nat (Z.min (Z.of_nat iM) (ExDefs.xrow s1)) else iM in
    if run && negb (r =? 0) then
      exists lnv m', exec cx (S fuel') visit_body (STx (Z.of_nat iM) ln m) = OBreak (STx (Z.of_nat iM) lnv m') /\ st_rep fr B m' s1 /\ keeps fr m m'
    else
      exists iC lnv m', exec cx (S fuel') visit_body (STx (Z.of_nat iM) ln m) = ONormal (STx iC lnv m') /\
        st_rep fr B m' (ExDefs.set_lb s1 (snd (ExDefs.glob_scan i1 dep (ExDefs.lb s1)))) /\ keeps fr m m' /\
        (iC = Z.of_nat (fst (ExDefs.glob_scan i1 dep (ExDefs.lb s1))) \/
         (Z.of_nat (length (LB (ExDefs.lb s1))) <= iC /\ (length (LB (ExDefs.lb s1)) <= fst (ExDefs.glob_scan i1 dep (ExDefs.lb s1)))%nat)).
  Proof. apply (visit_step cx cx_lbuf cx_len cx_get cx_gset cx_gget); first [assumption|exact cx_find|exact cx_exec]. Qed.

  (* (5) THE VISIT LOOP, in simulation with the model's loop *)
  Theorem tr_glob_visit_loop fuelM iM s vis iC m ln fuelC :
    st_rep fr B m s -> dep = N.of_nat (ExDefs.xgdep s) -> nth_error m b10 = Some [VPtr bs os] ->
    (iC = Z.of_nat iM \/ (Z.of_nat (length (LB (ExDefs.lb s))) <= iC /\ (length (LB (ExDefs.lb s)) <= iM)%nat)) ->
    (fuelM + B < fuelC)%nat ->
    snd (GlobDefs.glob_loop_x rfind mexec fuelM iM pat body nt dep s vis) <> 2%N ->
    exists iC' ln' m', exec cx fuelC visit_loop (STx iC ln m) = ONormal (STx iC' ln' m') /\
      st_rep fr B m' (ExDefs.glob_loop rfind mexec fuelM iM pat body nt dep s) /\ keeps fr m m' /\
      ExDefs.xgdep (ExDefs.glob_loop rfind mexec fuelM iM pat body nt dep s) = ExDefs.xgdep s.
  Proof.
    intros. rewrite <- (glob_loop_erase rfind mexec pat body nt dep fuelM iM s vis).
    apply (visit_loop_ok cx cx_lbuf cx_len cx_get cx_gset cx_gget) with (bs := bs) (os := os); first [assumption|exact cx_find|exact cx_exec].
  Qed.

  (* (6) the tail of ec_glob *)
  Hypothesis Hb6 : In b6 fr.
  Hypothesis Hb7 : In b7 fr.
  Hypothesis Hfree : free_oracle.
  Theorem tr_glob_tail m s b e v11 v12 fuelM fuelC :
    st_rep fr B m s -> dep = N.of_nat (S (ExDefs.xgdep s)) ->
    cell_at m b6 b -> cell_at m b7 e -> 0 <= b < 2147483647 -> e <= Z.of_nat (length (LB (ExDefs.lb s))) -> i32 e ->
    nth_error m b10 = Some [VPtr bs os] -> (fuelM + B < fuelC)%nat ->
    let s3 := ExDefs.set_gdep s (S (ExDefs.xgdep s)) in
    let s4 := ExDefs.set_lb s3 (ExDefs.globset_range (Z.to_nat (e - b - 1)) (Z.to_nat (b + 1)) dep (ExDefs.lb s3)) in
    snd (GlobDefs.glob_loop_x rfind mexec fuelM (Z.to_nat b) pat body nt dep s4 []) <> 2%N ->
    let s5 := ExDefs.glob_loop rfind mexec fuelM (Z.to_nat b) pat body nt dep s4 in
    let s6 := ExDefs.set_lb s5 (ExDefs.globclear (length (ExDefs.lns (ExDefs.lb s5))) 0 dep (ExDefs.lb s5)) in
    exists i' ln' m',
      exec cx fuelC glob_tail (mkst [v0; v1; v2; v3; VPtr bre 0; VPtr b5 0; VPtr b6 0; VPtr b7 0; VInt (b2z nt); v9; VPtr b10 0; v11; v12] m)
      = OReturn (VInt 0) (STx i' ln' m') /\ st_rep fr B m' (ExDefs.set_gdep s6 (ExDefs.xgdep s)).
  Proof.
    apply (glob_tail_ok cx cx_lbuf cx_len cx_get cx_gset cx_gget) with (bs := bs) (os := os); first [assumption|exact cx_find|exact cx_exec|idtac].
  Qed.
End Oracle.

(* ------------------------------------------------------------------ ec_glob itself: the nesting guard (/repo daf82c9) *)
(* what ec_glob's entry does to the memory: the locals whose address is taken live in blocks of their own (offs[32], beg, end, pat, s = arg) *)
Definition glob_entry_mem (m : mem) (varg : val) : mem := ((((m ++ [repeat VUndef 32]) ++ [[VUndef]]) ++ [[VUndef]]) ++ [[VUndef]]) ++ [[varg]].
Lemma store_new_cell (m : mem) v w : store (m ++ [[v]]) (length m) 0 w = Ok (m ++ [[w]]).
Proof.
  rewrite (store_ok (m ++ [[v]]) (length m) [v]); [|apply nth_error_app_new|cbn; lia]. rewrite upd_app_new. reflexivity.
Qed.
(* a global started inside seven running ones (xgdep >= 7): ex_show("global nesting too deep") is called, the result is 1, and NOTHING else
   happens -- no line is marked, xgdep is not touched; the memory is the one ex_show leaves *)
Theorem tr_ec_glob_too_deep ext fuel d vloc vcmd ba oa vtxt (m : mem) g v m' :
  cell_at m G_xgdep g -> 7 <= g -> i32 g ->
  ext X_ex_show [VPtr guard_msg_block 0] (glob_entry_mem m (VPtr ba oa)) = Ok (v, m') ->
  callx ext cprog fuel (S (S d)) F_ec_glob [vloc; vcmd; VPtr ba oa; vtxt] m = Ok (VInt 1, m').
Proof.
  intros Hg H7 Hi Hshow.
  assert (Hlt : (G_xgdep < length m)%nat) by (apply nth_error_Some; unfold cell_at in Hg; congruence).
  rewrite callx_S. change (nth_error cprog F_ec_glob) with (Some cf_ec_glob).
  cbn [fn_nparams cf_ec_glob length Nat.eqb fn_nlocals Nat.sub repeat app]. rewrite ec_glob_shape. unfold glob_frame.
  repeat (progress (rewrite ?exec_seq, ?exec_expr; cbn [eval bind do_builtin_m Z.ltb Z.compare set_local locals set_nth memm get_local nth_error Z.to_nat])).
  change (Pos.to_nat 1) with 1%nat. cbn [repeat]. rewrite store_new_cell. cbn [bind locals memm]. change (Pos.to_nat 32) with 32%nat.
  fold (glob_entry_mem m (VPtr ba oa)).
  rewrite exec_seq. unfold glob_guard. rewrite exec_if. unfold gdep_ld. cbn [eval bind memm].
  assert (Hg' : load (glob_entry_mem m (VPtr ba oa)) G_xgdep 0 = Ok (VInt g)).
  { unfold load, glob_entry_mem. rewrite !nth_error_app1 by (rewrite ?app_length; cbn [length]; lia). unfold cell_at in Hg. rewrite Hg. reflexivity. }
  rewrite Hg'. cbn [bind]. rewrite (wrap_i32 g Hi). cbn [as_int bind arith]. destruct (Z.leb_spec 7 g); [|lia]. cbn [b2z truth negb Z.eqb].
  rewrite exec_seq, exec_expr. cbn [eval bind memm]. rewrite callx_S, x_ex_show_none. rewrite Hshow. cbn [bind]. rewrite exec_return. reflexivity.
Qed.

(* ------------------------------------------------------------------ the translated loops run; the oracle hypotheses are satisfiable *)
Lemma loops_run :
  let NB := length cglobals in
  let blk0 := repeat (VInt (-1)) 32 ++ repeat (VInt 0) 32 ++
              [VPtr (NB + 1) 0; VPtr (NB + 2) 0; VInt 3; VInt 4; VInt 1; VInt 0; VInt 0; VInt 0; VInt 0; VInt 0; VInt 0] in
  let m0 := upd (upd cglobals G_bufs (upd gb_bufs 33 (VPtr NB 0))) G_xgdep [VInt 1]
            ++ [blk0; [VPtr 0 0; VPtr 0 0; VPtr 0 0; VInt 0]; [VInt 0; VInt 0; VInt 4; VInt 77]; [VInt 3]] in
  let st i m := ST (VInt 0) (VInt 0) (VInt 0) (VInt 0) (VInt 0) 0 0 0 (NB + 3) 0 false i (VInt 0) m in
  let l0 := ExDefs.mklb [ExDefs.mkline 0 0 [97]; ExDefs.mkline 1 0 [98]; ExDefs.mkline 2 4 [99]]%N [] [] 0 1 0 0 3 in
  let m1 := upd m0 (NB + 2) [VInt 0; VInt 2; VInt 6; VInt 77] in
  exec (callf cprog 10 3) 10 mark_loop (st 1 m0) = ONormal (st 3 m1) /\
  map ExDefs.lgl (ExDefs.lns (ExDefs.globset_range 2 1 1 l0)) = [0; 2; 6]%N /\
  exec (callf cprog 10 3) 10 scan_loop (st 0 m1) = ONormal (st 1 (upd m0 (NB + 2) [VInt 0; VInt 0; VInt 6; VInt 77])) /\
  fst (ExDefs.glob_scan 0 1 (ExDefs.globset_range 2 1 1 l0)) = 1%nat /\
  map ExDefs.lgl (ExDefs.lns (snd (ExDefs.glob_scan 0 1 (ExDefs.globset_range 2 1 1 l0)))) = [0; 0; 6]%N /\
  exec (callf cprog 10 3) 10 sweep_loop (st 0 m1) = ONormal (st 3 (upd m0 (NB + 2) [VInt 0; VInt 0; VInt 4; VInt 77])) /\
  map ExDefs.lgl (ExDefs.lns (ExDefs.globclear 3 0 1 (ExDefs.globset_range 2 1 1 l0))) = [0; 0; 4]%N /\
  (forall bre b5 fr B pat body bs os,
     let ext := fun (f : nat) (_ : list val) (m : mem) => if Nat.eqb f X_rstr_find || Nat.eqb f X_ex_exec then Ok (VInt 0, m) else Err EShape in
     find_oracle ext bre b5 fr B (fun _ _ _ => Some (0, 0)%nat) pat /\
     exec_oracle ext fr B (fun _ s => (s, 0)) body bs os /\ exec_keeps_depth (fun _ s => (s, 0)) body).
Proof.
  cbv zeta. split; [vm_compute; reflexivity|]. split; [vm_compute; reflexivity|]. split; [vm_compute; reflexivity|].
  split; [vm_compute; reflexivity|]. split; [vm_compute; reflexivity|]. split; [vm_compute; reflexivity|]. split; [vm_compute; reflexivity|].
  intros bre b5 fr B pat body bs os. split; [|split].
  - intros m s y gblk i x p o S0 _ _ _. exists 0, m. rewrite Nat.eqb_refl. cbn [orb]. split; [reflexivity|]. split; [unfold i32; lia|].
    split; [reflexivity|]. split; [exact S0|intros b _; reflexivity].
  - intros m s S0. exists 0, m. rewrite Nat.eqb_refl, orb_true_r. split; [reflexivity|]. split; [reflexivity|].
    split; [exact S0|intros b _; reflexivity].
  - intro s. reflexivity.
Qed.

(* ------------------------------------------------------------------ ec_glob as a whole, relative to the run of its first part *)
(* the statements between the frame and `xgdep++`: nesting guard, default range, address, `not`, pattern *)
Definition glob_prefix : stmt := SSeq glob_guard (SSeq glob_pct (SSeq glob_region (SSeq glob_not glob_pat))).
Lemma exec_seq_app call f : forall a b st,
  exec call f (seq_app a b) st = match exec call f a st with ONormal st1 => exec call f b st1 | o => o end.
Proof.
  induction a; intros b st; cbn [seq_app]; try (rewrite exec_seq; reflexivity).
  rewrite !exec_seq. destruct (exec call f a1 st); try reflexivity. apply IHa2.
Qed.
Lemma ec_glob_split call f st :
  exec call f (SSeq glob_guard (SSeq glob_pct (SSeq glob_region (SSeq glob_not (seq_app glob_pat glob_tail))))) st =
  match exec call f glob_prefix st with ONormal st1 => exec call f glob_tail st1 | o => o end.
Proof.
  unfold glob_prefix. rewrite (exec_seq call f glob_guard), (exec_seq call f glob_guard). destruct (exec call f glob_guard st); try reflexivity.
  rewrite (exec_seq call f glob_pct), (exec_seq call f glob_pct). destruct (exec call f glob_pct st0); try reflexivity.
  rewrite (exec_seq call f glob_region), (exec_seq call f glob_region). destruct (exec call f glob_region st1); try reflexivity.
  rewrite (exec_seq call f glob_not), (exec_seq call f glob_not). destruct (exec call f glob_not st2); try reflexivity. apply exec_seq_app.
Qed.
(* the state in which the first part starts: the frame of ec_glob on top of the caller's memory *)
Definition glob_entry_st (m : mem) (vloc vcmd varg vtxt : val) : state :=
  mkst [vloc; vcmd; varg; vtxt; VUndef; VPtr (length m) 0; VPtr (length m + 1) 0; VPtr (length m + 2) 0; VUndef; VPtr (length m + 3) 0;
        VPtr (length m + 4) 0; VUndef; VUndef] (glob_entry_mem m varg).
Lemma ec_glob_entry ext fuel d vloc vcmd ba oa vtxt (m : mem) :
  callx ext cprog fuel (S (S d)) F_ec_glob [vloc; vcmd; VPtr ba oa; vtxt] m =
  match (match exec (cx ext fuel d) fuel glob_prefix (glob_entry_st m vloc vcmd (VPtr ba oa) vtxt) with
         | ONormal st1 => exec (cx ext fuel d) fuel glob_tail st1 | o => o end) with
  | OReturn v st => Ok (v, memm st) | ONormal st => Ok (VUndef, memm st) | OErr x => Err x | _ => Err EShape
  end.
Proof.
  rewrite callx_S. change (nth_error cprog F_ec_glob) with (Some cf_ec_glob).
  cbn [fn_nparams cf_ec_glob length Nat.eqb fn_nlocals Nat.sub repeat app]. rewrite ec_glob_shape. unfold glob_frame.
  repeat (progress (rewrite ?exec_seq, ?exec_expr; cbn [eval bind do_builtin_m Z.ltb Z.compare set_local locals set_nth memm get_local nth_error Z.to_nat])).
  change (Pos.to_nat 1) with 1%nat. cbn [repeat]. rewrite store_new_cell. cbn [bind locals memm]. change (Pos.to_nat 32) with 32%nat.
  fold (glob_entry_mem m (VPtr ba oa)). rewrite !app_length. cbn [length].
  fold (cx ext fuel d). rewrite ec_glob_split. unfold glob_entry_st.
  replace (length m + 1 + 1 + 1 + 1)%nat with (length m + 4)%nat by lia. replace (length m + 1 + 1 + 1)%nat with (length m + 3)%nat by lia.
  replace (length m + 1 + 1)%nat with (length m + 2)%nat by lia. reflexivity.
Qed.
(* an early exit of the first part (too deep, bad address, address 0, no pattern, bad pattern) is the result of ec_glob *)
Theorem tr_ec_glob_early ext fuel d vloc vcmd ba oa vtxt (m : mem) v st1 :
  exec (cx ext fuel d) fuel glob_prefix (glob_entry_st m vloc vcmd (VPtr ba oa) vtxt) = OReturn v st1 ->
  callx ext cprog fuel (S (S d)) F_ec_glob [vloc; vcmd; VPtr ba oa; vtxt] m = Ok (v, memm st1).
Proof. intro H. rewrite ec_glob_entry, H. reflexivity. Qed.
(* ... and when the first part runs through -- leaving re in local 4, `not` in local 8, beg / end / s in the cells of the frame and a memory m1
   that represents the model state s -- the whole function returns 0 in a memory that represents the model's tail of ec_glob from s *)
Theorem tr_ec_glob_run ext fuel d vloc vcmd ba oa vtxt (m : mem) bre nt m1 fr dep B rfind mexec pat body bs os s b e fuelM :
  let b5 := length m in let b6 := (length m + 1)%nat in let b7 := (length m + 2)%nat in let b9 := (length m + 3)%nat in let b10 := (length m + 4)%nat in
  exec (cx ext fuel d) fuel glob_prefix (glob_entry_st m vloc vcmd (VPtr ba oa) vtxt)
  = ONormal (mkst [vloc; vcmd; VPtr ba oa; vtxt; VPtr bre 0; VPtr b5 0; VPtr b6 0; VPtr b7 0; VInt (b2z nt); VPtr b9 0; VPtr b10 0; VUndef; VUndef] m1) ->
  (dep <= 7)%N -> ~ In G_xrow fr -> ~ In G_xgdep fr -> In b10 fr -> In b6 fr -> In b7 fr ->
  find_oracle ext bre b5 fr B rfind pat -> exec_oracle ext fr B mexec body bs os -> exec_keeps_depth mexec body -> free_oracle ext bre fr B ->
  st_rep fr B m1 s -> dep = N.of_nat (S (ExDefs.xgdep s)) ->
  cell_at m1 b6 b -> cell_at m1 b7 e -> 0 <= b < 2147483647 -> e <= Z.of_nat (length (LB (ExDefs.lb s))) -> i32 e ->
  nth_error m1 b10 = Some [VPtr bs os] -> (fuelM + B < fuel)%nat ->
  let s3 := ExDefs.set_gdep s (S (ExDefs.xgdep s)) in
  let s4 := ExDefs.set_lb s3 (ExDefs.globset_range (Z.to_nat (e - b - 1)) (Z.to_nat (b + 1)) dep (ExDefs.lb s3)) in
  snd (GlobDefs.glob_loop_x rfind mexec fuelM (Z.to_nat b) pat body nt dep s4 []) <> 2%N ->
  let s5 := ExDefs.glob_loop rfind mexec fuelM (Z.to_nat b) pat body nt dep s4 in
  let s6 := ExDefs.set_lb s5 (ExDefs.globclear (length (ExDefs.lns (ExDefs.lb s5))) 0 dep (ExDefs.lb s5)) in
  exists m', callx ext cprog fuel (S (S d)) F_ec_glob [vloc; vcmd; VPtr ba oa; vtxt] m = Ok (VInt 0, m') /\
             st_rep fr B m' (ExDefs.set_gdep s6 (ExDefs.xgdep s)).
Proof.
  intros b5 b6 b7 b9 b10 Hpre Hdep Hnx Hng H10 H6 H7 Hfind Hexec Hgd Hfree S0 Hd Hcb Hce Hb He Hie Hs Hf s3 s4 Hx2 s5 s6.
  destruct (tr_glob_tail ext fuel d vloc vcmd (VPtr ba oa) vtxt (VPtr b9 0) bre b5 b6 b7 b10 nt fr dep Hdep B rfind mexec pat body bs os
              Hnx Hng H10 Hfind Hexec Hgd H6 H7 Hfree m1 s b e VUndef VUndef fuelM fuel S0 Hd Hcb Hce Hb He Hie Hs Hf Hx2) as (i' & ln' & m' & E & S').
  exists m'. split; [|exact S']. rewrite ec_glob_entry, Hpre. rewrite E. reflexivity.
Qed.

(* two statements of the first part, run: the guard lets a global at nesting depth < 7 pass, and `not` is the model's *)
Lemma glob_guard_pass call f lc (m : mem) g : cell_at m G_xgdep g -> g < 7 -> i32 g ->
  exec call f glob_guard (mkst lc m) = ONormal (mkst lc m).
Proof.
  intros Hg H7 Hi. unfold glob_guard. rewrite exec_if. unfold gdep_ld. cbn [eval bind memm]. rewrite (load_cell m G_xgdep g Hg). cbn [bind].
  rewrite (wrap_i32 g Hi). cbn [as_int bind arith]. destruct (Z.leb_spec 7 g); [lia|]. cbn [b2z truth negb Z.eqb]. apply exec_skip.
Qed.
Lemma find_byte_mem c s : match find_byte c s with Some _ => true | None => false end = ExDefs.mem c s.
Proof.
  unfold ExDefs.mem. induction s as [|x s IH]; [reflexivity|]. cbn [find_byte existsb].
  destruct (N.eqb x c); [reflexivity|]. cbn [orb]. rewrite <- IH. destruct (find_byte c s); reflexivity.
Qed.
Lemma is_v c : (c < 256)%N -> (wrap I32 (wrap I8 (Z.of_N c)) =? 118) = (c =? 118)%N.
Proof. revert c. byte_fact. Qed.
(* not = strchr(cmd, '!') || cmd[0] == 'v'  is  mem 33 cmd || (hd0 cmd =? 118) of ExDefs.ec_glob *)
Lemma glob_not_ok call f (m : mem) bcmd cmd v0 v2 v3 v4 v5 v6 v7 v8 v9 v10 v11 v12 : str_at m bcmd cmd -> nonul cmd ->
  exec call f glob_not (mkst [v0; VPtr bcmd 0; v2; v3; v4; v5; v6; v7; v8; v9; v10; v11; v12] m)
  = ONormal (mkst [v0; VPtr bcmd 0; v2; v3; v4; v5; v6; v7; VInt (b2z (ExDefs.mem 33 cmd || (hd0 cmd =? 118)%N)); v9; v10; v11; v12] m).
Proof.
  intros Hs Hn. unfold glob_not. rewrite exec_expr. cbn [eval bind get_local locals nth_error memm].
  pose proof (builtin_strchr m bcmd cmd 0 33 Hs Hn ltac:(lia) ltac:(lia) ltac:(discriminate)) as E.
  change (Z.of_nat 0) with 0 in E. change (Z.of_N 33) with 33 in E. cbn [skipn] in E. rewrite E. clear E. cbn [bind skipn memm locals].
  rewrite <- (find_byte_mem 33 cmd). destruct (find_byte 33 cmd) as [k|]; cbn [truth bind negb Z.eqb orb].
  - reflexivity.
  - cbn [eval bind get_local locals nth_error memm as_int]. rewrite (load_str m bcmd cmd _ 0 Hs) by (try reflexivity; lia). cbn [bind as_int].
    cbn [as_int bind arith]. rewrite is_v by (apply nthb_lt256; apply nonul_lt256; exact Hn). cbn [as_int bind arith truth].
    replace (nthb cmd 0) with (hd0 cmd) by (destruct cmd; reflexivity).
    destruct (hd0 cmd =? 118)%N; reflexivity.
Qed.
