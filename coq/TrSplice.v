(* TrSplice.v -- lbuf_replace of /repo/lbuf.c (the splice every edit, read, undo and redo goes through), on the translated C
   text (GenCFuncs.v): part 1, the shape of the line table in memory and the GROWTH LOOP.

   The line table in memory (record tbl): block lb is the struct lbuf (75 cells, TrLbufBase.v), its ln field points to the
   start of block bln (ln_sz pointer cells), its ln_glob field to the start of block bgl (ln_sz char cells), ln_n = n,
   ln_sz = cap; the three blocks are distinct.  The contents of the two arrays are explicit lists (lnblk, glblk), so that
   every piece of lbuf_replace can say what it does to them cell by cell.

   grow_body_ok: one pass of  while (lb->ln_n + n_ins - n_del >= lb->ln_sz) { nsz = ...; nln = malloc; nln_glob = malloc;
   memcpy; memcpy; free(lb->ln); free(lb->ln_glob); lb->ln = nln; lb->ln_glob = nln_glob; lb->ln_sz = nsz; }:
   two fresh blocks are appended to the memory, they receive the first ln_n cells of the old arrays (the other cells stay
   indeterminate), the old arrays are freed (emptied: a later access through a stale pointer is EOob), the struct points to the
   new arrays; every other block is untouched.  grow_loop_ok: the loop runs exactly as IoDefs.grow says (the capacity
   doubles while need >= capacity), under the exact no-overflow condition (the final capacity fits an int).
   A table with ln == NULL (a buffer lbuf_make just made) is NOT covered: its first growth calls memcpy(nln, NULL, 0),
   which C11 7.24.1p2 leaves undefined and CLite.v rejects (Err EShape, see the Example in Properties_C01.v). *)
From Coq Require Import List ZArith NArith Bool Lia.
From NV Require Import Bytes CLite CLiteProps GenCFuncs CLiteTac TrLbufBase IoDefs.
Import ListNotations.
Local Open Scope Z_scope.

Definition rp_body : stmt := fn_body cf_lbuf_replace.
Definition rp_grow : stmt := match rp_body with SSeq _ (SSeq w _) => w | _ => SSkip end.
Definition rp_grow_body : stmt := match rp_grow with SWhile _ b => b | _ => SSkip end.

Record tbl (m : mem) (lb : nat) (blk : block) (bln bgl : nat) (lnblk glblk : block) (n cap : nat) : Prop := mk_tbl {
  t_blk : nth_error m lb = Some blk;
  t_len : length blk = LBUF_CELLS;
  t_ln : nth_error blk L_ln = Some (VPtr bln 0);
  t_gl : nth_error blk L_ln_glob = Some (VPtr bgl 0);
  t_n : nth_error blk L_ln_n = Some (VInt (Z.of_nat n));
  t_sz : nth_error blk L_ln_sz = Some (VInt (Z.of_nat cap));
  t_lnb : nth_error m bln = Some lnblk;
  t_glb : nth_error m bgl = Some glblk;
  t_lnl : length lnblk = cap;
  t_gll : length glblk = cap;
  t_ne : lb <> bln /\ lb <> bgl /\ bln <> bgl }.

Ltac u64 := rewrite ?wrap_U64_id by lia; rewrite ?chk_U64 by lia; cbn [bind as_int]; rewrite ?Z.mul_1_r;
  try (change (8 =? 0) with false; cbv iota); rewrite ?Z.quot_mul by lia; rewrite ?chk_U64 by lia; cbn [bind as_int].
Lemma upd_frame (m : mem) b (blk0 blk' : block) : nth_error m b = Some blk0 ->
  nth_error (upd m b blk') b = Some blk' /\ (forall c, c <> b -> nth_error (upd m b blk') c = nth_error m c) /\ length (upd m b blk') = length m.
Proof.
  intro H. assert (Hb : (b < length m)%nat) by (apply nth_error_Some; congruence).
  split; [apply mem_upd_same; exact Hb|]. split; [intros c Hc; apply mem_upd_other; assumption|apply upd_length; exact Hb].
Qed.

Lemma fld_store_upd (m : mem) bl (b : block) i v z : (bl < length m)%nat -> (i < length b)%nat -> z = Z.of_nat i ->
  store (upd m bl b) bl z v = Ok (upd m bl (upd b i v)).
Proof.
  intros Hbl Hi Hz. rewrite (fld_store (upd m bl b) bl b i v z) by (try assumption; apply mem_upd_same; exact Hbl).
  f_equal. apply upd_upd. exact Hbl.
Qed.
(* the struct after  lb->ln = a; lb->ln_glob = b; lb->ln_sz = c *)
Definition grow_blk (blk : block) (a b : nat) (c : Z) : block :=
  upd (upd (upd blk L_ln (VPtr a 0)) L_ln_glob (VPtr b 0)) L_ln_sz (VInt c).
Lemma grow_blk_len blk a b c : length blk = LBUF_CELLS -> length (grow_blk blk a b c) = LBUF_CELLS.
Proof.
  intro H. unfold grow_blk.
  assert (L1 : length (upd blk L_ln (VPtr a 0)) = LBUF_CELLS) by (rewrite upd_length; [exact H|rewrite H; unfold LBUF_CELLS; fld_ne]).
  assert (L2 : length (upd (upd blk L_ln (VPtr a 0)) L_ln_glob (VPtr b 0)) = LBUF_CELLS) by (rewrite upd_length; [exact L1|rewrite L1; unfold LBUF_CELLS; fld_ne]).
  rewrite upd_length; [exact L2|rewrite L2; unfold LBUF_CELLS; fld_ne].
Qed.
Lemma grow_blk_cell blk a b c j : length blk = LBUF_CELLS ->
  nth_error (grow_blk blk a b c) j =
  if Nat.eqb j L_ln_sz then Some (VInt c) else if Nat.eqb j L_ln_glob then Some (VPtr b 0) else
  if Nat.eqb j L_ln then Some (VPtr a 0) else nth_error blk j.
Proof.
  intro H. unfold grow_blk.
  assert (L1 : length (upd blk L_ln (VPtr a 0)) = LBUF_CELLS) by (rewrite upd_length; [exact H|rewrite H; unfold LBUF_CELLS; fld_ne]).
  assert (L2 : length (upd (upd blk L_ln (VPtr a 0)) L_ln_glob (VPtr b 0)) = LBUF_CELLS) by (rewrite upd_length; [exact L1|rewrite L1; unfold LBUF_CELLS; fld_ne]).
  destruct (Nat.eqb_spec j L_ln_sz) as [->|N1]; [apply nth_error_upd_same; rewrite L2; unfold LBUF_CELLS; fld_ne|].
  rewrite nth_error_upd_other by (try exact N1; rewrite L2; unfold LBUF_CELLS; fld_ne).
  destruct (Nat.eqb_spec j L_ln_glob) as [->|N2]; [apply nth_error_upd_same; rewrite L1; unfold LBUF_CELLS; fld_ne|].
  rewrite nth_error_upd_other by (try exact N2; rewrite L1; unfold LBUF_CELLS; fld_ne).
  destruct (Nat.eqb_spec j L_ln) as [->|N3]; [apply nth_error_upd_same; rewrite H; unfold LBUF_CELLS; fld_ne|].
  apply nth_error_upd_other; [rewrite H; unfold LBUF_CELLS; fld_ne|exact N3].
Qed.
(* the new array: the first n cells of the old one, the rest indeterminate *)
Definition grow_arr (old : block) (n c : nat) : block := firstn n old ++ repeat VUndef (c - n).
Lemma grow_arr_len old n c : (n <= length old)%nat -> (n <= c)%nat -> length (grow_arr old n c) = c.
Proof. intros H1 H2. unfold grow_arr. rewrite app_length, firstn_length, repeat_length. lia. Qed.
Lemma grow_arr_firstn old n c : (n <= length old)%nat -> firstn n (grow_arr old n c) = firstn n old.
Proof.
  intro H. unfold grow_arr. rewrite firstn_app, firstn_firstn, Nat.min_id, firstn_length, Nat.min_l, Nat.sub_diag by lia.
  cbn [firstn]. apply app_nil_r.
Qed.
Lemma skipn_repeat {A} (x : A) n c : skipn n (repeat x c) = repeat x (c - n).
Proof. revert c; induction n as [|n IH]; intro c; [rewrite Nat.sub_0_r; reflexivity|]. destruct c as [|c]; [reflexivity|]. cbn [repeat skipn]. apply IH. Qed.
Lemma put_grow old n c : (n <= length old)%nat -> (n <= c)%nat ->
  put_cells (repeat VUndef c) (Z.to_nat 0) (firstn (Z.to_nat (Z.of_nat n)) (skipn (Z.to_nat 0) old)) = grow_arr old n c.
Proof.
  intros H1 H2. rewrite Nat2Z.id. change (Z.to_nat 0) with 0%nat. cbn [skipn]. rewrite put_cells_0, firstn_length, Nat.min_l by lia.
  rewrite skipn_repeat. reflexivity.
Qed.

(* one pass of the growth loop: two fresh arrays (appended to the memory) receive the first ln_n cells of the old ones, the old
   arrays are freed, the struct points to the new ones; every other block that existed is untouched *)
Lemma grow_body_ok call fuel m lb blk bln bgl lnblk glblk n cap sv vpos vnd vni vi v6 v7 v8 v9 v10 v11 :
  tbl m lb blk bln bgl lnblk glblk n cap -> (n <= cap)%nat -> (0 < cap)%nat -> Z.of_nat cap * 2 <= 2147483647 ->
  exists m', exec call fuel rp_grow_body (mkst [VPtr lb 0; sv; vpos; vnd; vni; vi; v6; v7; v8; v9; v10; v11] m) =
    ONormal (mkst [VPtr lb 0; sv; vpos; vnd; vni; vi; VInt (Z.of_nat (2 * cap)); VPtr (length m) 0; VPtr (S (length m)) 0; v9; v10; v11] m')
  /\ tbl m' lb (grow_blk blk (length m) (S (length m)) (Z.of_nat (2 * cap))) (length m) (S (length m))
         (grow_arr lnblk n (2 * cap)) (grow_arr glblk n (2 * cap)) n (2 * cap)
  /\ length m' = S (S (length m))
  /\ (forall c, (c < length m)%nat -> c <> lb -> c <> bln -> c <> bgl -> nth_error m' c = nth_error m c)
  /\ nth_error m' bln = Some [] /\ nth_error m' bgl = Some [].
Proof.
  intros T Hn Hc Hmax. destruct T as [Tb Tl Tln Tgl Tn Tsz Tlnb Tglb Tlnl Tgll (N1 & N2 & N3)].
  assert (Llb : (lb < length m)%nat) by (apply nth_error_Some; congruence).
  assert (Lln : (bln < length m)%nat) by (apply nth_error_Some; congruence).
  assert (Lgl : (bgl < length m)%nat) by (apply nth_error_Some; congruence).
  unfold rp_grow_body, rp_grow, rp_body; cbn [fn_body cf_lbuf_replace].
  xstep. xfld Tb Tsz. xfld Tb Tsz. rewrite !wrap_I32_id by lia.
  destruct (Z.eqb_spec (Z.of_nat cap) 0); [lia|]. cbn [negb]. xfld Tb Tsz. rewrite !wrap_I32_id by lia.
  rewrite chk_I32 by lia. xstep. replace (Z.of_nat cap + Z.of_nat cap) with (Z.of_nat (2 * cap)) by lia.
  u64. rewrite malloc_ok by lia. xstep. u64. rewrite malloc_ok by lia. xstep. rewrite Nat2Z.id.
  set (U := repeat VUndef (2 * cap)).
  replace (length (m ++ [U])) with (S (length m)) by (rewrite app_length; cbn [length]; lia).
  set (m2 := (m ++ [U]) ++ [U]).
  assert (K2 : forall c, (c < length m)%nat -> nth_error m2 c = nth_error m c)
    by (intros c Hc'; unfold m2; rewrite !nth_error_app_old by (rewrite ?app_length; cbn [length]; lia); reflexivity).
  assert (L2 : length m2 = S (S (length m))) by (unfold m2; rewrite !app_length; cbn [length]; lia).
  assert (B2 : nth_error m2 lb = Some blk) by (rewrite K2 by lia; exact Tb).
  assert (A2 : nth_error m2 (length m) = Some U) by (unfold m2; rewrite nth_error_app_old by (rewrite ?app_length; cbn [length]; lia); apply nth_error_app_new).
  assert (G2 : nth_error m2 (S (length m)) = Some U).
  { unfold m2. replace (S (length m)) with (length (m ++ [U])) by (rewrite app_length; cbn [length]; lia). apply nth_error_app_new. }
  assert (S2 : nth_error m2 bln = Some lnblk) by (rewrite K2 by lia; exact Tlnb).
  assert (T2 : nth_error m2 bgl = Some glblk) by (rewrite K2 by lia; exact Tglb).
  (* memcpy(nln, lb->ln, ...) *)
  xfld B2 Tln. xfld B2 Tn. rewrite wrap_I32_id by lia. u64. cbn [memm locals].
  rewrite (memcpy_ok m2 (length m) 0 bln 0 (Z.of_nat n) U lnblk A2 S2) by (unfold U; rewrite ?repeat_length; lia).
  unfold U at 1. rewrite put_grow by lia. xstep. cbn [memm locals].
  destruct (upd_frame m2 (length m) U (grow_arr lnblk n (2 * cap)) A2) as (A3 & K3 & L3). set (m3 := upd m2 (length m) _) in *.
  assert (B3 : nth_error m3 lb = Some blk) by (rewrite K3 by lia; exact B2).
  assert (G3 : nth_error m3 (S (length m)) = Some U) by (rewrite K3 by lia; exact G2).
  assert (T3 : nth_error m3 bgl = Some glblk) by (rewrite K3 by lia; exact T2).
  xfld B3 Tgl. xfld B3 Tn. rewrite wrap_I32_id by lia. u64. cbn [memm locals].
  rewrite (memcpy_ok m3 (S (length m)) 0 bgl 0 (Z.of_nat n) U glblk G3 T3) by (unfold U; rewrite ?repeat_length; lia).
  unfold U at 1. rewrite put_grow by lia. xstep. cbn [memm locals].
  destruct (upd_frame m3 (S (length m)) U (grow_arr glblk n (2 * cap)) G3) as (G4 & K4 & L4). set (m4 := upd m3 (S (length m)) _) in *.
  assert (B4 : nth_error m4 lb = Some blk) by (rewrite K4 by lia; exact B3).
  assert (S4 : nth_error m4 bln = Some lnblk) by (rewrite K4, K3 by lia; exact S2).
  (* free(lb->ln) *)
  xfld B4 Tln. rewrite (free_ok m4 bln lnblk S4) by (intro E; rewrite E in Tlnl; cbn in Tlnl; lia). xstep. cbn [memm locals].
  destruct (upd_frame m4 bln lnblk [] S4) as (S5 & K5 & L5). set (m5 := upd m4 bln _) in *.
  assert (B5 : nth_error m5 lb = Some blk) by (rewrite K5 by congruence; exact B4).
  assert (T5 : nth_error m5 bgl = Some glblk) by (rewrite K5, K4 by lia; exact T3).
  xfld B5 Tgl. rewrite (free_ok m5 bgl glblk T5) by (intro E; rewrite E in Tgll; cbn in Tgll; lia). xstep. cbn [memm locals].
  destruct (upd_frame m5 bgl glblk [] T5) as (T6 & K6 & L6). set (m6 := upd m5 bgl _) in *.
  assert (B6 : nth_error m6 lb = Some blk) by (rewrite K6 by congruence; exact B5).
  (* the three stores *)
  assert (Llb6 : (lb < length m6)%nat) by (apply nth_error_Some; congruence).
  rewrite (fld_store m6 lb blk L_ln _ _ B6) by (try reflexivity; fld_len). xstep. cbn [memm locals].
  rewrite (fld_store_upd m6 lb _ L_ln_glob) by (try reflexivity; try exact Llb6; rewrite upd_length by fld_len; fld_len). xstep.
  rewrite (wrap_I32_id (Z.of_nat (2 * cap))) by lia.
  rewrite (fld_store_upd m6 lb _ L_ln_sz) by (try reflexivity; try exact Llb6; rewrite !upd_length by (rewrite ?upd_length by fld_len; fld_len); fld_len).
  xstep. fold (grow_blk blk (length m) (S (length m)) (Z.of_nat (2 * cap))).
  set (blk' := grow_blk blk (length m) (S (length m)) (Z.of_nat (2 * cap))).
  destruct (upd_frame m6 lb blk blk' B6) as (B7 & K7 & L7). set (m7 := upd m6 lb _) in *.
  exists m7. split; [reflexivity|].
  assert (KK : forall c, c <> lb -> c <> bln -> c <> bgl -> nth_error m7 c = nth_error m4 c).
  { intros c H1 H2 H3. rewrite K7, K6, K5 by assumption. reflexivity. }
  split.
  - constructor; try (unfold blk'; rewrite grow_blk_cell by exact Tl; cbn [Nat.eqb L_ln L_ln_glob L_ln_n L_ln_sz]; first [reflexivity|assumption]).
    + exact B7.
    + apply grow_blk_len; exact Tl.
    + rewrite KK, K4 by lia. exact A3.
    + rewrite KK by lia. exact G4.
    + apply grow_arr_len; lia.
    + apply grow_arr_len; lia.
    + lia.
  - split; [lia|]. split.
    + intros c H0 H1 H2 H3. rewrite KK, K4, K3, K2 by lia. reflexivity.
    + split; [rewrite K7, K6 by congruence; exact S5|rewrite K7 by congruence; exact T6].
Qed.

(* ---- the growth loop  while (lb->ln_n + n_ins - n_del >= lb->ln_sz) { ... }  against IoDefs.grow *)
Lemma grow_mono : forall f need sz r, 0 < sz -> grow f need sz = Some r -> sz <= r /\ need < r.
Proof.
  induction f as [|f IH]; intros need sz r Hsz H; [discriminate|]. cbn [grow] in H.
  destruct (Z.geb_spec need sz) as [G|G].
  - destruct (Z.eqb_spec sz 0); [lia|]. destruct (IH need (sz + sz) r ltac:(lia) H). lia.
  - injection H as <-. lia.
Qed.

Definition rp_grow_cond : expr := match rp_grow with SWhile c _ => c | _ => EConst 0 end.
Lemma rp_grow_eq : rp_grow = SWhile rp_grow_cond rp_grow_body.
Proof. reflexivity. Qed.

Definition arr_kept (m m' : mem) (b b' : nat) : Prop := b' = b \/ ((length m <= b')%nat /\ nth_error m' b = Some []).

Lemma grow_loop_ok call lb n ni nd sv vpos vi v9 v10 v11 :
  Z.of_nat n + Z.of_nat ni <= 2147483647 -> Z.of_nat nd <= 2147483647 ->
  forall f fuel m blk bln bgl lnblk glblk cap cap' v6 v7 v8,
  tbl m lb blk bln bgl lnblk glblk n cap -> (n <= cap)%nat -> (0 < cap)%nat ->
  grow f (Z.of_nat n + Z.of_nat ni - Z.of_nat nd) (Z.of_nat cap) = Some cap' -> cap' <= 2147483647 -> (f <= fuel)%nat ->
  exists m' blk' bln' bgl' lnblk' glblk' v6' v7' v8',
    exec call fuel rp_grow (mkst [VPtr lb 0; sv; vpos; VInt (Z.of_nat nd); VInt (Z.of_nat ni); vi; v6; v7; v8; v9; v10; v11] m) =
      ONormal (mkst [VPtr lb 0; sv; vpos; VInt (Z.of_nat nd); VInt (Z.of_nat ni); vi; v6'; v7'; v8'; v9; v10; v11] m')
    /\ tbl m' lb blk' bln' bgl' lnblk' glblk' n (Z.to_nat cap') /\ Z.of_nat cap <= cap' /\ Z.of_nat n + Z.of_nat ni - Z.of_nat nd < cap'
    /\ (length m <= length m')%nat
    /\ (forall c, (c < length m)%nat -> c <> lb -> c <> bln -> c <> bgl -> nth_error m' c = nth_error m c)
    /\ arr_kept m m' bln bln' /\ arr_kept m m' bgl bgl'
    /\ firstn n lnblk' = firstn n lnblk /\ firstn n glblk' = firstn n glblk
    /\ (forall j, j <> L_ln -> j <> L_ln_glob -> j <> L_ln_sz -> nth_error blk' j = nth_error blk j).
Proof.
  intros I1 I2. induction f as [|f IH]; intros fuel m blk bln bgl lnblk glblk cap cap' v6 v7 v8 T Hn Hc Hg Hmax Hf; [discriminate|].
  destruct fuel as [|fuel]; [lia|]. destruct (grow_mono (S f) _ (Z.of_nat cap) cap' ltac:(lia) Hg) as [M1 M2]. cbn [grow] in Hg.
  pose proof T as [Tb Tl Tln Tgl Tn Tsz Tlnb Tglb Tlnl Tgll (N1 & N2 & N3)].
  rewrite rp_grow_eq, exec_while. remember rp_grow_body as B eqn:EB. remember (SWhile rp_grow_cond B) as W eqn:EW.
  unfold rp_grow_cond, rp_grow, rp_body; cbn [fn_body cf_lbuf_replace]. xstep.
  xfld Tb Tn. rewrite wrap_I32_id by lia. rewrite chk_I32 by lia. xstep. rewrite chk_I32 by lia. xstep.
  xfld Tb Tsz. rewrite wrap_I32_id by lia.
  destruct (Z.geb_spec (Z.of_nat n + Z.of_nat ni - Z.of_nat nd) (Z.of_nat cap)) as [G|G].
  - destruct (Z.leb_spec (Z.of_nat cap) (Z.of_nat n + Z.of_nat ni - Z.of_nat nd)); [|lia]. cbn [b2z]. xstep.
    replace (Z.of_nat cap =? 0) with false in Hg by (symmetry; apply Z.eqb_neq; lia).
    destruct (grow_mono f _ (Z.of_nat cap + Z.of_nat cap) cap' ltac:(lia) Hg) as [M3 M4].
    destruct (grow_body_ok call (S fuel) m lb blk bln bgl lnblk glblk n cap sv vpos (VInt (Z.of_nat nd)) (VInt (Z.of_nat ni)) vi v6 v7 v8 v9 v10 v11 T Hn Hc ltac:(lia))
      as (m1 & E1 & T1 & L1 & K1 & F1 & F2).
    subst B. rewrite E1. clear E1.
    replace (Z.of_nat cap + Z.of_nat cap) with (Z.of_nat (2 * cap)) in Hg by lia.
    destruct (IH fuel m1 _ _ _ _ _ (2 * cap)%nat cap' (VInt (Z.of_nat (2 * cap))) (VPtr (length m) 0) (VPtr (S (length m)) 0) T1 ltac:(lia) ltac:(lia) Hg Hmax ltac:(lia))
      as (m' & blk' & bln' & bgl' & lnblk' & glblk' & v6' & v7' & v8' & E & T' & C1 & C2 & L' & K' & A1 & A2 & P1 & P2 & Q).
    subst W. rewrite <- rp_grow_eq. rewrite E. clear E.
    assert (Lln : (bln < length m)%nat) by (apply nth_error_Some; congruence).
    assert (Lgl : (bgl < length m)%nat) by (apply nth_error_Some; congruence).
    exists m', blk', bln', bgl', lnblk', glblk', v6', v7', v8'. split; [reflexivity|]. split; [exact T'|]. split; [lia|]. split; [lia|].
    split; [lia|]. split; [intros c H0 H1 H2 H3; rewrite K' by lia; apply K1; assumption|].
    assert (Fr : forall b, (b < length m)%nat -> b <> lb -> nth_error m1 b = Some [] -> nth_error m' b = Some []).
    { intros b Hb Hne E0. rewrite K' by lia. exact E0. }
    split; [right; split; [destruct A1 as [->|[A _]]; lia|apply Fr; [lia|congruence|exact F1]]|].
    split; [right; split; [destruct A2 as [->|[A _]]; lia|apply Fr; [lia|congruence|exact F2]]|].
    split; [rewrite P1; apply grow_arr_firstn; lia|]. split; [rewrite P2; apply grow_arr_firstn; lia|].
    intros j J1 J2 J3. rewrite Q by assumption. rewrite grow_blk_cell by exact Tl.
    destruct (Nat.eqb_spec j L_ln_sz); [contradiction|]. destruct (Nat.eqb_spec j L_ln_glob); [contradiction|]. destruct (Nat.eqb_spec j L_ln); [contradiction|]. reflexivity.
  - destruct (Z.leb_spec (Z.of_nat cap) (Z.of_nat n + Z.of_nat ni - Z.of_nat nd)); [lia|]. cbn [b2z]. xstep. injection Hg as <-.
    exists m, blk, bln, bgl, lnblk, glblk, v6, v7, v8. split; [reflexivity|]. rewrite Nat2Z.id. split; [exact T|].
    repeat (split; [first [lia|reflexivity|left; reflexivity|intros; reflexivity]|]). intros; reflexivity.
Qed.
